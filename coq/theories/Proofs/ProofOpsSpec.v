(** The proof-combination helpers of prove.go ([Model.ProofOps]: mirrors of [AddProof],
    [GetProofSubset], [GetMissingPositions]) against the reference forest (property C14).
    Everything holds for every slot list [s] with [length s <= 2^63] and every hash type with a
    correct [op_eqb]; G3 also needs the non-zero-hash hypotheses of [CalcComplete.calc_complete].

    Part 0   the two-pointer helpers on ascending lists: [subtractSortedSlice_spec] (= filter),
             [mergeSortedSlices_spec] (strictly ascending union), [subtractSortedHashAndPos_spec],
             [getHashAndPosSubset_spec], [sortN_spec];
    Part 1   [po_pp_both]: [ProofPositions] on the ascending positions of distinct leaf nodes
             returns BOTH the canonical proof positions and the computable positions of the
             reference ([canon_proof_pos], [computable_pos]);
    Part 2   G1 [missing_spec]: [GetMissingPositionsFn] = the oracle's [exp_missing]
             (positions of [have]/[want] in any order);
    Part 3   lists that are graphs of a valuation [F : N -> H]; [addproof_graph];
    Part 4   the valuation [Fv] of the reference forest; G2 [addproof_spec], [addproof_cached]:
             [AddProof] of two canonical proofs = [exp_cached] of any duplicate-free list of the
             union;
    Part 5   G3 [subset_uncovered] (error when a requested position is not a target - for ANY
             inputs), [subset_spec] (hashes in the order of [wants], [wants], canonical proof),
             [subset_error_iff].

    Duplicate-free requests are NECESSARY (witnesses in the 7-slot forest [ls_ex], by computation:
    [po_dup_witnesses]): a repeated desired position makes [GetMissingPositions] drop a position,
    a repeated target survives [AddProof], a repeated wanted position makes [GetProofSubset] fail
    although it is covered. *)
From Utreexo Require Import Base.Hash Model.Utils Model.UtilsFast Model.Verify Model.ProofOps
  Spec.Forest Spec.Oracle Spec.Geometry Spec.Term
  Proofs.UtilsGeom Proofs.UtilsGeom2 Proofs.SpecBasics Proofs.LayoutStruct Proofs.ProofPosSpec
  Proofs.CalcTotal Proofs.CalcSound Proofs.CalcComplete Proofs.CachedVerifies.
From Utreexo Require Proofs.RefTheory.
From Coq Require Import List Arith PeanoNat NArith Lia ZifyNat ZifyN ZifyBool Sorted Permutation.
Import ListNotations.
Open Scope N_scope.

Local Notation SSlt := (StronglySorted N.lt).
Local Notation SSle := (StronglySorted N.le).

(** * 0. The two-pointer helpers on ascending lists *)

Lemma po_SS_inv {A} (R : A -> A -> Prop) a l :
  StronglySorted R (a :: l) -> StronglySorted R l /\ (forall y, In y l -> R a y).
Proof. apply cc_SS_cons_inv. Qed.

Lemma po_SSlt_SSle l : SSlt l -> SSle l.
Proof.
  induction 1 as [|a l Hl IH Ha]; constructor; [exact IH|].
  apply Forall_forall. intros x Hx. rewrite Forall_forall in Ha. specialize (Ha x Hx). lia.
Qed.

Lemma po_memN_false x l : memN x l = false <-> ~ In x l.
Proof.
  split.
  - intros E Hin. apply RefTheory.memN_In in Hin. congruence.
  - intros Hn. destruct (memN x l) eqn:E; [|reflexivity]. exfalso. apply Hn, RefTheory.memN_In, E.
Qed.

Lemma po_memN_ext x l l' : (forall y, In y l <-> In y l') -> memN x l = memN x l'.
Proof.
  intros E. destruct (memN x l) eqn:A; symmetry.
  - apply RefTheory.memN_In, E, RefTheory.memN_In, A.
  - apply po_memN_false. intros Hin. apply (proj1 (po_memN_false x l) A), E, Hin.
Qed.

Lemma po_filter_all {A} (f : A -> bool) l : (forall x, In x l -> f x = true) -> filter f l = l.
Proof.
  induction l as [|a l IH]; intros Hf; [reflexivity|]. cbn [filter].
  rewrite (Hf a (or_introl eq_refl)), IH; [reflexivity|]. intros x Hx. apply Hf. right. exact Hx.
Qed.

Lemma po_filter_SS {A} (R : A -> A -> Prop) (f : A -> bool) l :
  StronglySorted R l -> StronglySorted R (filter f l).
Proof.
  induction 1 as [|a l Hl IH Ha]; cbn [filter]; [constructor|].
  destruct (f a); [|exact IH]. constructor; [exact IH|].
  apply Forall_forall. intros x Hx. apply filter_In in Hx. rewrite Forall_forall in Ha.
  apply Ha, Hx.
Qed.

(** ** [subtractSortedSlice a b]: [a] strictly ascending, [b] ascending: the members of [a] that
    are not in [b], in order *)
Lemma po_subN_spec : forall fuel a b, (length a + length b < fuel)%nat -> SSlt a -> SSle b ->
  subN fuel a b = filter (fun x => negb (memN x b)) a.
Proof.
  induction fuel as [|f IH]; intros a b Hf Ha Hb; [lia|].
  cbn [subN]. destruct a as [|x a]; [reflexivity|].
  destruct b as [|y b].
  { symmetry. apply po_filter_all. reflexivity. }
  destruct (po_SS_inv _ _ _ Ha) as [Ha' Hxa]. destruct (po_SS_inv _ _ _ Hb) as [Hb' Hyb].
  cbn [length] in Hf.
  destruct (N.eqb_spec x y) as [Exy|Nxy].
  - subst y. cbn [filter memN]. rewrite N.eqb_refl. cbn [orb negb].
    rewrite (IH a b ltac:(lia) Ha' Hb'). apply filter_ext_in. intros z Hz.
    specialize (Hxa z Hz). destruct (N.eqb_spec z x); [lia|reflexivity].
  - destruct (N.ltb_spec x y) as [Hlt|Hge].
    + cbn [filter]. assert (Em : memN x (y :: b) = false).
      { apply po_memN_false. intros [E|Hin]; [lia|]. specialize (Hyb x Hin). lia. }
      rewrite Em. cbn [negb]. f_equal. apply (IH a (y :: b)); [cbn [length]; lia|exact Ha'|exact Hb].
    + rewrite (IH (x :: a) b ltac:(cbn [length]; lia) Ha Hb'). apply filter_ext_in. intros z Hz.
      cbn [memN]. assert (y < z) by (destruct Hz as [<-|Hz]; [lia|specialize (Hxa z Hz); lia]).
      destruct (N.eqb_spec z y); [lia|reflexivity].
Qed.

Theorem subtractSortedSlice_spec a b : SSlt a -> SSle b ->
  subtractSortedSlice a b = filter (fun x => negb (memN x b)) a.
Proof. intros Ha Hb. apply po_subN_spec; [lia|exact Ha|exact Hb]. Qed.

Corollary subtractSortedSlice_sorted a b : SSlt a -> SSle b -> SSlt (subtractSortedSlice a b).
Proof. intros Ha Hb. rewrite subtractSortedSlice_spec by assumption. apply po_filter_SS, Ha. Qed.

Corollary subtractSortedSlice_In a b x : SSlt a -> SSle b ->
  (In x (subtractSortedSlice a b) <-> In x a /\ ~ In x b).
Proof.
  intros Ha Hb. rewrite subtractSortedSlice_spec by assumption. rewrite filter_In.
  rewrite Bool.negb_true_iff, po_memN_false. reflexivity.
Qed.

(** ** [mergeSortedSlices a b] of strictly ascending lists: strictly ascending, the union *)
Lemma po_mergeN_spec : forall fuel a b, (length a + length b < fuel)%nat -> SSlt a -> SSlt b ->
  SSlt (mergeN_ fuel a b) /\ (forall x, In x (mergeN_ fuel a b) <-> In x a \/ In x b).
Proof.
  induction fuel as [|f IH]; intros a b Hf Ha Hb; [lia|].
  cbn [mergeN_]. destruct a as [|x a].
  { split; [exact Hb|]. intros z. cbn [In]. tauto. }
  destruct b as [|y b].
  { split; [exact Ha|]. intros z. cbn [In]. tauto. }
  destruct (po_SS_inv _ _ _ Ha) as [Ha' Hxa]. destruct (po_SS_inv _ _ _ Hb) as [Hb' Hyb].
  cbn [length] in Hf.
  destruct (N.ltb_spec x y) as [Hxy|Hxy].
  - destruct (IH a (y :: b) ltac:(cbn [length]; lia) Ha' Hb) as [IH1 IH2]. split.
    + constructor; [exact IH1|]. apply Forall_forall. intros z Hz. apply IH2 in Hz.
      destruct Hz as [Hz|[<-|Hz]]; [exact (Hxa z Hz)|exact Hxy|]. specialize (Hyb z Hz). lia.
    + intros z. cbn [In]. rewrite IH2. cbn [In]. tauto.
  - destruct (N.ltb_spec y x) as [Hyx|Hyx].
    + destruct (IH (x :: a) b ltac:(cbn [length]; lia) Ha Hb') as [IH1 IH2]. split.
      * constructor; [exact IH1|]. apply Forall_forall. intros z Hz. apply IH2 in Hz.
        destruct Hz as [[<-|Hz]|Hz]; [exact Hyx| |exact (Hyb z Hz)]. specialize (Hxa z Hz). lia.
      * intros z. cbn [In]. rewrite IH2. cbn [In]. tauto.
    + assert (Exy : x = y) by lia. subst y.
      destruct (IH a b ltac:(lia) Ha' Hb') as [IH1 IH2]. split.
      * constructor; [exact IH1|]. apply Forall_forall. intros z Hz. apply IH2 in Hz.
        destruct Hz as [Hz|Hz]; [exact (Hxa z Hz)|exact (Hyb z Hz)].
      * intros z. cbn [In]. rewrite IH2. tauto.
Qed.

Theorem mergeSortedSlices_spec a b : SSlt a -> SSlt b ->
  SSlt (mergeSortedSlices a b) /\ (forall x, In x (mergeSortedSlices a b) <-> In x a \/ In x b).
Proof. intros Ha Hb. apply po_mergeN_spec; [lia|exact Ha|exact Hb]. Qed.

Example po_helpers_ex :
  subtractSortedSlice [1; 3; 4; 7; 9] [0; 3; 3; 8; 9] = [1; 4; 7] /\
  mergeSortedSlices [1; 3; 7] [0; 3; 8] = [0; 1; 3; 7; 8].
Proof. split; vm_compute; reflexivity. Qed.

(** ** [sortN]: ascending, a permutation; strictly ascending on duplicate-free input; the result
    depends on the set only *)
Theorem sortN_spec l : SSle (sortN l) /\ Permutation (sortN l) l /\ (NoDup l -> SSlt (sortN l)).
Proof.
  split; [apply pps_sortN_sorted|]. split; [apply pps_sortN_perm|apply pps_sortN_NoDup_SSlt].
Qed.

Lemma po_sortN_set l l' : NoDup l -> NoDup l' -> (forall x, In x l <-> In x l') ->
  sortN l = sortN l'.
Proof.
  intros Hl Hl' E. apply pps_sortN_unique; [apply pps_sortN_NoDup_SSlt, Hl'|exact Hl|].
  intros x. rewrite RefTheory.sortN_In. symmetry. apply E.
Qed.

Lemma po_sortN_perm l l' : NoDup l' -> Permutation l l' -> sortN l = sortN l'.
Proof.
  intros Hl' Hp. apply po_sortN_set; [|exact Hl'|].
  - exact (Permutation_NoDup (Permutation_sym Hp) Hl').
  - intros x. split; apply Permutation_in; [exact Hp|apply Permutation_sym, Hp].
Qed.

Lemma po_sortN_sorted_id l : SSlt l -> sortN l = l.
Proof.
  intros Hl. apply pps_sortN_unique; [exact Hl|apply pps_SSlt_NoDup, Hl|reflexivity].
Qed.

(** ** the helpers on (position, hash) lists *)
Section HPHelpers.
  Variable H : Type.
  Local Notation hp := (hp H).

  Lemma po_subHP_spec : forall fuel (a : list hp) b, (length a + length b < fuel)%nat ->
    SSlt (map fst a) -> SSle b ->
    subHP fuel a b = filter (fun e => negb (memN (fst e) b)) a.
  Proof.
    induction fuel as [|f IH]; intros a b Hf Ha Hb; [lia|].
    cbn [subHP]. destruct a as [|x a]; [reflexivity|].
    destruct b as [|y b].
    { symmetry. apply po_filter_all. reflexivity. }
    cbn [map] in Ha.
    destruct (po_SS_inv _ _ _ Ha) as [Ha' Hxa]. destruct (po_SS_inv _ _ _ Hb) as [Hb' Hyb].
    assert (Hxa' : forall z, In z a -> fst x < fst z) by (intros z Hz; apply Hxa, in_map, Hz).
    cbn [length] in Hf.
    destruct (N.eqb_spec (fst x) y) as [Exy|Nxy].
    - subst y. cbn [filter memN]. rewrite N.eqb_refl. cbn [orb negb].
      rewrite (IH a b ltac:(lia) Ha' Hb'). apply filter_ext_in. intros z Hz.
      specialize (Hxa' z Hz). destruct (N.eqb_spec (fst z) (fst x)); [lia|reflexivity].
    - destruct (N.ltb_spec (fst x) y) as [Hlt|Hge].
      + cbn [filter]. assert (Em : memN (fst x) (y :: b) = false).
        { apply po_memN_false. intros [E|Hin]; [lia|]. specialize (Hyb _ Hin). lia. }
        rewrite Em. cbn [negb]. f_equal.
        apply (IH a (y :: b)); [cbn [length]; lia|exact Ha'|exact Hb].
      + rewrite (IH (x :: a) b ltac:(cbn [length]; lia) Ha Hb'). apply filter_ext_in. intros z Hz.
        cbn [memN]. assert (y < fst z) by (destruct Hz as [<-|Hz]; [lia|specialize (Hxa' z Hz); lia]).
        destruct (N.eqb_spec (fst z) y); [lia|reflexivity].
  Qed.

  Theorem subtractSortedHashAndPos_spec (a : list hp) b : SSlt (map fst a) -> SSle b ->
    subtractSortedHashAndPos a b = filter (fun e => negb (memN (fst e) b)) a.
  Proof. intros Ha Hb. apply po_subHP_spec; [lia|exact Ha|exact Hb]. Qed.

  Lemma po_subsetHP_spec : forall fuel (a : list hp) b, (length a + length b < fuel)%nat ->
    SSlt (map fst a) -> SSle b ->
    subsetHP fuel a b = filter (fun e => memN (fst e) b) a.
  Proof.
    induction fuel as [|f IH]; intros a b Hf Ha Hb; [lia|].
    cbn [subsetHP]. destruct a as [|x a]; [reflexivity|].
    destruct b as [|y b].
    { symmetry. clear. induction (x :: a) as [|e l IHl]; [reflexivity|exact IHl]. }
    cbn [map] in Ha.
    destruct (po_SS_inv _ _ _ Ha) as [Ha' Hxa]. destruct (po_SS_inv _ _ _ Hb) as [Hb' Hyb].
    assert (Hxa' : forall z, In z a -> fst x < fst z) by (intros z Hz; apply Hxa, in_map, Hz).
    cbn [length] in Hf.
    destruct (N.eqb_spec (fst x) y) as [Exy|Nxy].
    - subst y. cbn [filter memN]. rewrite N.eqb_refl. cbn [orb]. f_equal.
      rewrite (IH a b ltac:(lia) Ha' Hb'). apply filter_ext_in. intros z Hz.
      specialize (Hxa' z Hz). destruct (N.eqb_spec (fst z) (fst x)); [lia|reflexivity].
    - destruct (N.ltb_spec y (fst x)) as [Hlt|Hge].
      + rewrite (IH (x :: a) b ltac:(cbn [length]; lia) Ha Hb'). apply filter_ext_in. intros z Hz.
        cbn [memN]. assert (y < fst z) by (destruct Hz as [<-|Hz]; [lia|specialize (Hxa' z Hz); lia]).
        destruct (N.eqb_spec (fst z) y); [lia|reflexivity].
      + cbn [filter]. assert (Em : memN (fst x) (y :: b) = false).
        { apply po_memN_false. intros [E|Hin]; [lia|]. specialize (Hyb _ Hin). lia. }
        rewrite Em. apply (IH a (y :: b)); [cbn [length]; lia|exact Ha'|exact Hb].
  Qed.

  Theorem getHashAndPosSubset_spec (a : list hp) b : SSlt (map fst a) -> SSle b ->
    getHashAndPosSubset a b = filter (fun e => memN (fst e) b) a.
  Proof. intros Ha Hb. apply po_subsetHP_spec; [lia|exact Ha|exact Hb]. Qed.

  Lemma po_filter_keys_SSlt (f : hp -> bool) (a : list hp) :
    SSlt (map fst a) -> SSlt (map fst (filter f a)).
  Proof.
    induction a as [|x a IH]; intros Ha; [constructor|]. cbn [map] in Ha.
    destruct (po_SS_inv _ _ _ Ha) as [Ha' Hxa]. cbn [filter]. destruct (f x); [|exact (IH Ha')].
    cbn [map]. constructor; [exact (IH Ha')|]. apply Forall_forall. intros z Hz. apply Hxa.
    apply in_map_iff in Hz as (e & <- & He). apply filter_In in He. apply in_map, He.
  Qed.
End HPHelpers.

(** * 1. [ProofPositions] on the positions of distinct leaf nodes: both results *)

Section PPGeo.
  Variable n : N.
  Hypothesis Hn63 : n <= 2 ^ 63.
  Local Notation total := (TreeRows n).
  Local Notation g := (g total).

  (** [cc_pp_positions] with the second component: the proper ancestors, ascending *)
  Lemma po_pp_geo T : pp_valid n total T = true ->
    exists bs ds,
      ProofPositions (sortN (map g T)) n total = (map g bs, map g ds) /\
      SSlt (map g bs) /\ SSlt (map g ds) /\
      (forall s, In s bs <-> exists c, In c (cc_K n T) /\ is_root_c n c = false /\
                                       ~ In (sib c) (cc_K n T) /\ s = sib c) /\
      (forall x, In x ds <-> In x (cc_anc n T)).
  Proof.
    intros Hval. pose proof (cc_c_t63 n Hn63) as Hh. pose proof (cc_c_nle n) as Hn.
    destruct (cc_valid_facts n Hn63 T Hval) as (HK1 & HK2 & HK3 & HK4 & HndT & Hnda).
    unfold cc_K in *. set (anc := cc_anc n T) in *.
    assert (HvT : forall c, In c T -> vld total c).
    { intros c Hc. apply (pps_inf_vld n total Hn), HK1, in_or_app. left. exact Hc. }
    destruct (cc_sortC_spec n T HndT HvT) as [HTs_sorted HTs_mem].
    set (Ts := cc_sortC n T) in *.
    assert (HTK : forall c, In c (Ts ++ anc) <-> In c (T ++ anc)).
    { intros c. rewrite !in_app_iff, HTs_mem. reflexivity. }
    destruct (proof_positions_members n total Ts anc Hh Hn)
      as (bs & ds & Epp & Hbs & Hds & Hbmem & Hdmem).
    { intros c Hc. apply HK1, HTK. exact Hc. }
    { intros c Hc. apply HK2, HTK. exact Hc. }
    { intros c Hc. destruct (HK3 c Hc) as (c' & Hc' & Hr' & E). exists c'.
      split; [apply HTK; exact Hc'|]. split; assumption. }
    { intros c Hc. apply HK4, HTs_mem. exact Hc. }
    { apply pps_clt_map. exact HTs_sorted. }
    assert (ETs : sortN (map g T) = map g Ts).
    { apply pps_sortN_unique.
      - apply pps_clt_map. exact HTs_sorted.
      - apply pps_NoDup_map_on; assumption.
      - intros x. rewrite !in_map_iff. split; intros (c & E & Hc); exists c;
          (split; [exact E|apply HTs_mem; exact Hc]). }
    exists bs, ds. rewrite ETs. split; [exact Epp|]. split; [exact Hbs|]. split; [exact Hds|].
    split; [|exact Hdmem].
    intros s. rewrite Hbmem. split; intros (c & Hc & Hr & Hns & E); exists c.
    - split; [apply HTK; exact Hc|]. split; [exact Hr|]. split; [|exact E].
      intros Hin. apply Hns, HTK. exact Hin.
    - split; [apply HTK; exact Hc|]. split; [exact Hr|]. split; [|exact E].
      intros Hin. apply Hns, HTK. exact Hin.
  Qed.
End PPGeo.

Section RefPP.
  Variable H : Type.
  Variable HO : ops H.
  Variable s : slots H.
  Hypothesis Hn63 : N.of_nat (length s) <= 2 ^ 63.

  Local Notation n := (N.of_nat (length s)).
  Local Notation total := (TreeRows (N.of_nat (length s))).
  Local Notation R := (rows_of (num_leaves s)).
  Local Notation lay := (layout HO s).
  Local Notation g := (g total).

  (** a coordinate of the reference that is a node of the layout *)
  Definition is_node (c : nat * N) : Prop := exists y, In y lay /\ ncrd y = cN c.

  Lemma po_pos_g (c : nat * N) : pos R (fst c) (snd c) = g (cN c).
  Proof. destruct c as [r o]. apply (rf_pos_g H s). Qed.

  Lemma po_is_node_vld c : is_node c -> vld total (cN c).
  Proof. intros (y & Hy & <-). exact (rf_node_vld H HO s y Hy). Qed.

  Lemma po_pos_inj c d : is_node c -> is_node d ->
    pos R (fst c) (snd c) = pos R (fst d) (snd d) -> c = d.
  Proof.
    intros Hc Hd E. rewrite !po_pos_g in E. apply cN_inj.
    exact (pps_g_inj total _ _ (po_is_node_vld c Hc) (po_is_node_vld d Hd) E).
  Qed.

  (** sorted coordinate lists of nodes: strictly ascending keys, the positions of the members *)
  Lemma po_sort_coords_keys (l : list (nat * N)) : NoDup l -> (forall c, In c l -> is_node c) ->
    SSlt (map fst (sort_coords R l)) /\
    (forall p, In p (map fst (sort_coords R l)) <-> exists c, In c l /\ p = pos R (fst c) (snd c)).
  Proof.
    intros Hnd Hnode. split.
    - unfold sort_coords. apply cc_sortK_SSlt. rewrite map_map. cbn [fst].
      apply RefTheory.NoDup_map_inj_on; [exact Hnd|].
      intros c d Hc Hd. apply po_pos_inj; [apply Hnode, Hc|apply Hnode, Hd].
    - intros p. rewrite in_map_iff. split.
      + intros (e & <- & He). apply RefTheory.sort_coords_In in He as (c & Hc & ->). exists c. auto.
      + intros (c & Hc & ->). exists (pos R (fst c) (snd c), c). split; [reflexivity|].
        apply RefTheory.sort_coords_In. exists c. auto.
  Qed.

  Variable tsn : list (node H).
  Hypothesis Hts_lay : forall x, In x tsn -> In x lay.
  Hypothesis Hts_leaf : forall x, In x tsn -> nleaf x = true.
  Hypothesis Hts_nd : NoDup tsn.

  Local Notation T := (map ncrd tsn).
  Local Notation K := (known_set lay tsn).

  Lemma po_known_is_node d : In d K -> is_node d.
  Proof.
    intros Hd. apply (rt_K_node H HO s tsn Hts_lay).
    apply (rt_K H HO s Hn63 tsn Hts_lay). exists d. split; [exact Hd|reflexivity].
  Qed.

  Lemma po_targets_g : map (npos R) tsn = map g T.
  Proof. rewrite map_map. apply map_ext. intros x. apply (rf_npos H s). Qed.

  (** the coordinates of the proper ancestors, as the reference lists them *)
  Definition anc_coords : list (nat * N) :=
    flat_map (fun c => if mem_coord c (map (fun x : node H => (nrow x, noff x)) tsn) then [] else [c]) K.

  Lemma po_anc_coords_In c : In c anc_coords <->
    In c K /\ ~ In c (map (fun x : node H => (nrow x, noff x)) tsn).
  Proof.
    unfold anc_coords. rewrite in_flat_map. split.
    - intros (d & Hd & Hc).
      destruct (mem_coord d (map (fun x : node H => (nrow x, noff x)) tsn)) eqn:E; [destruct Hc|].
      destruct Hc as [<-|[]]. split; [exact Hd|]. apply RefTheory.mem_coord_false, E.
    - intros [Hc Hn]. exists c. split; [exact Hc|].
      apply RefTheory.mem_coord_false in Hn. rewrite Hn. left. reflexivity.
  Qed.

  Lemma po_anc_coords_NoDup : NoDup anc_coords.
  Proof.
    unfold anc_coords. assert (HK : NoDup K) by apply RefTheory.dedup_coord_NoDup.
    induction HK as [|c l Hc Hl IH]; [constructor|]. cbn [flat_map].
    destruct (mem_coord c (map (fun x : node H => (nrow x, noff x)) tsn)); [exact IH|].
    cbn [app]. constructor; [|exact IH]. intros Hin. apply in_flat_map in Hin as (d & Hd & Hin).
    destruct (mem_coord d (map (fun x : node H => (nrow x, noff x)) tsn)); [destruct Hin|].
    destruct Hin as [<-|[]]. exact (Hc Hd).
  Qed.

  (** membership in [cc_anc]: a member of [K] that is no target *)
  Lemma po_cc_anc_In x : In x (cc_anc n T) <-> exists d, In d anc_coords /\ x = cN d.
  Proof.
    pose proof (rt_valid H HO s tsn Hts_lay Hts_leaf Hts_nd) as Hval.
    destruct (cc_valid_facts n Hn63 T Hval) as (_ & _ & _ & HK4 & _ & _).
    split.
    - intros Hx. assert (HxK : In x (cc_K n T)) by (unfold cc_K; apply in_or_app; right; exact Hx).
      apply (rt_K H HO s Hn63 tsn Hts_lay) in HxK as (d & Hd & ->). exists d. split; [|reflexivity].
      apply po_anc_coords_In. split; [exact Hd|]. intros Hin.
      apply in_map_iff in Hin as (y & <- & Hy). apply (HK4 (ncrd y)); [apply in_map, Hy|exact Hx].
    - intros (d & Hd & ->). apply po_anc_coords_In in Hd as [Hd Hn].
      assert (HxK : In (cN d) (cc_K n T)).
      { apply (rt_K H HO s Hn63 tsn Hts_lay). exists d. split; [exact Hd|reflexivity]. }
      unfold cc_K in HxK. apply in_app_or in HxK as [HxT|Hx]; [exfalso|exact Hx].
      apply in_map_iff in HxT as (y & Ey & Hy). apply cN_inj in Ey. apply Hn.
      apply in_map_iff. exists y. split; [exact Ey|exact Hy].
  Qed.

  (** THEOREM.  On the ascending positions of distinct leaf nodes, [ProofPositions] returns the
      canonical proof positions and the computable positions of the reference. *)
  Theorem po_pp_both :
    ProofPositions (sortN (map (npos R) tsn)) n total =
    (canon_proof_pos R lay tsn, computable_pos R lay tsn).
  Proof.
    pose proof (rt_valid H HO s tsn Hts_lay Hts_leaf Hts_nd) as Hval.
    pose proof (rt_canon_pos H HO s Hn63 tsn Hts_lay Hts_leaf Hts_nd) as Ecp.
    rewrite po_targets_g.
    destruct (po_pp_geo n Hn63 T Hval) as (bs & ds & Epp & _ & Hds & _ & Hdmem).
    rewrite Epp in Ecp |- *. cbn [fst] in Ecp. rewrite <- Ecp. f_equal.
    symmetry. unfold computable_pos. fold anc_coords.
    destruct (po_sort_coords_keys anc_coords po_anc_coords_NoDup) as [HS HM].
    { intros c Hc. apply po_anc_coords_In in Hc as [Hc _]. apply po_known_is_node, Hc. }
    apply pps_SSlt_ext; [exact HS|exact Hds|].
    intros p. rewrite HM, in_map_iff. split.
    - intros (c & Hc & ->). exists (cN c). split; [symmetry; apply po_pos_g|].
      apply Hdmem, po_cc_anc_In. exists c. auto.
    - intros (x & <- & Hx). apply Hdmem, po_cc_anc_In in Hx as (d & Hd & ->).
      exists d. split; [exact Hd|]. symmetry. apply po_pos_g.
  Qed.

  Corollary po_pp_both_fast :
    ProofPositions_fast (sortN (map (npos R) tsn)) n total =
    (canon_proof_pos R lay tsn, computable_pos R lay tsn).
  Proof. etransitivity; [apply ProofPositions_fast_eq|exact po_pp_both]. Qed.

  Lemma po_proof_coord_is_node c : In c (proof_coords lay tsn) -> is_node c.
  Proof.
    intros Hc. apply RefTheory.proof_coords_In in Hc as (d & Hd & Hr & _ & ->).
    destruct (po_known_is_node d Hd) as (y & Hy & Ey).
    rewrite (rt_is_root_coord H HO s Hn63 tsn Hts_lay d Hd), <- Ey in Hr.
    pose proof (rf_nonroot H HO s y Hy Hr) as Hnr.
    destruct (node_sibling H HO s _ _ y (tnode_in H HO s y Hy) Hnr) as (p & sb & _ & Hsb & _).
    apply tnode_some in Hsb as (Hsb & Esr & Eso). exists sb. split; [exact Hsb|].
    apply cN_inj in Ey. subst d. unfold ncrd, sib_coord. cbn [fst snd]. rewrite Esr, Eso. reflexivity.
  Qed.

  Lemma po_canon_pos_SSlt : SSlt (canon_proof_pos R lay tsn).
  Proof.
    unfold canon_proof_pos.
    apply (po_sort_coords_keys (proof_coords lay tsn) (RefTheory.proof_coords_NoDup H lay tsn)).
    exact po_proof_coord_is_node.
  Qed.

  Lemma po_comp_pos_keys :
    SSlt (computable_pos R lay tsn) /\
    (forall p, In p (computable_pos R lay tsn) <->
               exists c, In c anc_coords /\ p = pos R (fst c) (snd c)).
  Proof.
    unfold computable_pos. fold anc_coords.
    apply (po_sort_coords_keys anc_coords po_anc_coords_NoDup).
    intros c Hc. apply po_anc_coords_In in Hc as [Hc _]. apply po_known_is_node, Hc.
  Qed.

  (** the targets and the computable positions together: the positions of [K] *)
  Lemma po_known_pos p :
    (In p (map (npos R) tsn) \/ In p (computable_pos R lay tsn)) <->
    exists d, In d K /\ p = pos R (fst d) (snd d).
  Proof.
    rewrite (proj2 po_comp_pos_keys). split.
    - intros [Hp|(c & Hc & ->)].
      + apply in_map_iff in Hp as (x & <- & Hx). exists (nrow x, noff x).
        split; [apply RefTheory.known_set_target, Hx|reflexivity].
      + apply po_anc_coords_In in Hc as [Hc _]. exists c. auto.
    - intros (d & Hd & ->).
      destruct (mem_coord d (map (fun x : node H => (nrow x, noff x)) tsn)) eqn:E.
      + left. apply RefTheory.mem_coord_In in E. apply in_map_iff in E as (x & <- & Hx).
        apply in_map_iff. exists x. split; [reflexivity|exact Hx].
      + right. exists d. split; [|reflexivity]. apply po_anc_coords_In.
        split; [exact Hd|]. apply RefTheory.mem_coord_false, E.
  Qed.

  Lemma po_canon_pos_In p : In p (canon_proof_pos R lay tsn) <->
    exists d, In d K /\ is_root_coord lay d = false /\ ~ In (sib_coord d) K /\
              p = pos R (fst (sib_coord d)) (snd (sib_coord d)).
  Proof.
    rewrite RefTheory.canon_proof_pos_In. split.
    - intros (c & Hc & ->). apply RefTheory.proof_coords_In in Hc as (d & Hd & Hr & Hn & ->).
      exists d. auto.
    - intros (d & Hd & Hr & Hn & ->). exists (sib_coord d). split; [|reflexivity].
      apply RefTheory.proof_coords_In. exists d. auto.
  Qed.

  Lemma po_targets_NoDup : NoDup (map (npos R) tsn).
  Proof.
    rewrite po_targets_g. apply pps_NoDup_map_on.
    - exact (rt_T_NoDup H HO s tsn Hts_lay Hts_nd).
    - intros c Hc. apply in_map_iff in Hc as (x & <- & Hx). exact (rf_node_vld H HO s x (Hts_lay x Hx)).
  Qed.
End RefPP.

(** * 2. G1: [GetMissingPositions] *)

Section Missing.
  Variable H : Type.
  Variable HO : ops H.
  Hypothesis HOK : ops_ok HO.
  Variable s : slots H.
  Hypothesis Hn63 : N.of_nat (length s) <= 2 ^ 63.

  Local Notation n := (N.of_nat (length s)).
  Local Notation total := (TreeRows (N.of_nat (length s))).
  Local Notation R := (rows_of (num_leaves s)).
  Local Notation lay := (layout HO s).

  Lemma po_canon_pos_nil (rows : nat) (l : list (node H)) : canon_proof_pos rows l [] = [].
  Proof. reflexivity. Qed.

  Lemma po_match_nil (X body r : list N) : (X = [] -> r = []) -> body = r ->
    match X with [] => [] | _ :: _ => body end = r.
  Proof. intros Hn Hb. destruct X; [symmetry; apply Hn; reflexivity|exact Hb]. Qed.

  Lemma po_filter_NoDup {A} (f : A -> bool) l : NoDup l -> NoDup (filter f l).
  Proof.
    induction 1 as [|a l Ha Hl IH]; cbn [filter]; [constructor|].
    destruct (f a); [|exact IH]. constructor; [|exact IH]. intros Hin. apply filter_In in Hin.
    apply Ha, Hin.
  Qed.

  (** G1.  Holding the proofs of the live leaves [have] and wishing to prove [want] (each list
      without repetition; the two position lists in ANY order), [GetMissingPositions] returns
      exactly what the oracle expects: the canonical proof positions of [want \ have] that are
      neither held (targets and proof positions of [have]) nor computable from them. *)
  Theorem missing_spec (have want : list H) (th tw : list (node H)) (tH tW : list N) :
    NoDup have -> NoDup want ->
    find_leaves HO lay have = Some th -> find_leaves HO lay want = Some tw ->
    Permutation tH (map (npos R) th) -> Permutation tW (map (npos R) tw) ->
    exp_missing HO (mk_ctx HO s) have want = Some (GetMissingPositionsFn n tH tW).
  Proof.
    intros Hndh Hndw Hth Htw PH PW.
    destruct (cc_find_leaves_facts HO s have th HOK Hndh Hth) as (Lh & Fh & Nh & _ & _).
    destruct (cc_find_leaves_facts HO s want tw HOK Hndw Htw) as (Lw & Fw & Nw & _ & _).
    unfold exp_missing. cbn [mk_ctx clay crows]. rewrite Hth, Htw. f_equal.
    set (hp := map (npos R) th).
    set (tw' := filter (fun x => negb (memN (npos R x) hp)) tw).
    assert (Lw' : forall x, In x tw' -> In x lay)
      by (intros x Hx; apply filter_In in Hx; apply Lw, Hx).
    assert (Fw' : forall x, In x tw' -> nleaf x = true)
      by (intros x Hx; apply filter_In in Hx; apply Fw, Hx).
    assert (Nw' : NoDup tw') by (apply po_filter_NoDup, Nw).
    pose proof (po_targets_NoDup H HO s th Lh Nh) as NDh. fold hp in NDh.
    pose proof (po_targets_NoDup H HO s tw Lw Nw) as NDw.
    pose proof (po_targets_NoDup H HO s tw' Lw' Nw') as NDw'.
    unfold GetMissingPositionsFn. cbv zeta.
    rewrite (po_sortN_perm tH hp NDh PH), (po_sortN_perm tW _ NDw PW).
    assert (E2 : subtractSortedSlice (sortN (map (npos R) tw)) (sortN hp)
                 = sortN (map (npos R) tw')).
    { rewrite subtractSortedSlice_spec;
        [|apply pps_sortN_NoDup_SSlt, NDw|apply pps_sortN_sorted].
      symmetry. apply pps_sortN_unique;
        [apply po_filter_SS, pps_sortN_NoDup_SSlt, NDw|exact NDw'|].
      intros x. rewrite filter_In, RefTheory.sortN_In, Bool.negb_true_iff, po_memN_false,
        RefTheory.sortN_In. split.
      - intros [Hx Hn]. apply in_map_iff in Hx as (y & <- & Hy). apply in_map, filter_In.
        split; [exact Hy|]. apply Bool.negb_true_iff, po_memN_false, Hn.
      - intros Hx. apply in_map_iff in Hx as (y & <- & Hy). apply filter_In in Hy as [Hy Hm].
        split; [apply in_map, Hy|]. apply po_memN_false, Bool.negb_true_iff, Hm. }
    rewrite E2. clear E2.
    symmetry. apply po_match_nil.
    - intros Edes. assert (Etw : tw' = []).
      { pose proof (pps_sortN_perm (map (npos R) tw')) as P. rewrite Edes in P.
        apply Permutation_nil in P. apply map_eq_nil in P. exact P. }
      rewrite Etw, po_canon_pos_nil. reflexivity.
    - rewrite (po_pp_both_fast H HO s Hn63 tw' Lw' Fw' Nw'). unfold hp.
      rewrite (po_pp_both_fast H HO s Hn63 th Lh Fh Nh). cbv beta iota. fold hp. symmetry.
      rewrite subtractSortedSlice_spec;
        [|apply (po_canon_pos_SSlt H HO s Hn63 tw' Lw')|apply pps_sortN_sorted].
      apply filter_ext. intros p. f_equal. apply po_memN_ext. intros y.
      rewrite RefTheory.sortN_In, !in_app_iff, RefTheory.sortN_In. tauto.
  Qed.

  (** the same, in terms of the live leaf hashes only *)
  Corollary missing_spec_live (have want : list H) :
    NoDup have -> NoDup want ->
    (forall h, In h have -> In (Some h) s) -> (forall h, In h want -> In (Some h) s) ->
    exists th tw,
      find_leaves HO lay have = Some th /\ find_leaves HO lay want = Some tw /\
      forall tH tW, Permutation tH (map (npos R) th) -> Permutation tW (map (npos R) tw) ->
        exp_missing HO (mk_ctx HO s) have want = Some (GetMissingPositionsFn n tH tW).
  Proof.
    intros Hndh Hndw Hlh Hlw.
    assert (Hex : forall l, (forall h, In h l -> In (Some h) s) ->
                   exists ts, find_leaves HO lay l = Some ts).
    { induction l as [|h l IH]; intros Hl; [eexists; reflexivity|]. cbn [find_leaves].
      destruct (proj1 (find_leaf_live H HO s h HOK) (Hl h (or_introl eq_refl))) as (x & Ex & _).
      rewrite Ex. destruct IH as [ts Ets]; [intros k Hk; apply Hl; right; exact Hk|].
      rewrite Ets. eexists; reflexivity. }
    destruct (Hex have Hlh) as [th Hth]. destruct (Hex want Hlw) as [tw Htw].
    exists th, tw. split; [exact Hth|]. split; [exact Htw|]. intros tH tW PH PW.
    exact (missing_spec have want th tw tH tW Hndh Hndw Hth Htw PH PW).
  Qed.
End Missing.

Print Assumptions missing_spec.

(** non-vacuity: slots [Atom 1; -; Atom 3; Atom 4; -; -; Atom 7]; holding the proof of [Atom 7]
    (position 6), asking for [Atom 4] and [Atom 7] (positions 3, 6): the sibling 2 and the
    uncle 8 are missing *)
Lemma po_ex_nodup (l : list term) : list_eqb term_eqb l l = true ->
  (fix nd (l : list term) : bool :=
     match l with [] => true | x :: t => negb (memH term_ops x t) && nd t end) l = true -> NoDup l.
Proof.
  intros _. induction l as [|x l IH]; intros E; [constructor|].
  apply andb_true_iff in E as [E1 E2]. constructor; [|exact (IH E2)].
  intros Hin. apply (memH_In term term_ops term_ops_ok) in Hin. rewrite Hin in E1. discriminate.
Qed.

Example missing_ex :
  GetMissingPositionsFn 7 [6] [3; 6] = [2; 8] /\
  exp_missing term_ops (mk_ctx term_ops ls_ex) [Atom 7] [Atom 4; Atom 7]
    = Some (GetMissingPositionsFn 7 [6] [3; 6]).
Proof.
  split; [vm_compute; reflexivity|].
  eapply (missing_spec term term_ops term_ops_ok ls_ex ex_cc_bound [Atom 7] [Atom 4; Atom 7]).
  - apply po_ex_nodup; reflexivity.
  - apply po_ex_nodup; reflexivity.
  - vm_compute. reflexivity.
  - vm_compute. reflexivity.
  - vm_compute. apply Permutation_refl.
  - vm_compute. apply Permutation_refl.
Qed.

(** * 3. Lists of (position, hash) that are graphs of a valuation [F : N -> H] *)

Section Graph.
  Variable H : Type.
  Variable HO : ops H.
  Variable F : N -> H.
  Local Notation hp := (hp H).

  Definition graph (l : list hp) : Prop := forall e, In e l -> snd e = F (fst e).
  Definition gr (ps : list N) : list hp := map (fun p => (p, F p)) ps.

  Lemma po_graph_eq l : graph l -> l = gr (map fst l).
  Proof.
    unfold gr. induction l as [|e l IH]; intros Hg; [reflexivity|]. cbn [map]. f_equal.
    - destruct e as [p h]. cbn [fst]. f_equal. exact (Hg (p, h) (or_introl eq_refl)).
    - apply IH. intros e' He'. apply Hg. right. exact He'.
  Qed.

  Lemma po_graph_snd l : graph l -> map snd l = map F (map fst l).
  Proof.
    intros Hg. rewrite map_map. apply map_ext_in. intros e He. exact (Hg e He).
  Qed.

  Lemma po_gr_graph ps : graph (gr ps).
  Proof. intros e He. apply in_map_iff in He as (p & <- & _). reflexivity. Qed.

  Lemma po_gr_fst ps : map fst (gr ps) = ps.
  Proof. unfold gr. rewrite map_map. cbn [fst]. apply map_id. Qed.

  Lemma po_zip_gr ps : zip_hp ps (map F ps) = gr ps.
  Proof. induction ps as [|p ps IH]; [reflexivity|]. cbn [map zip_hp gr]. f_equal. exact IH. Qed.

  Lemma po_graph_sortK l : graph l -> graph (sortK l).
  Proof. intros Hg e He. apply (proj1 (cs_sortK_in e l)) in He. exact (Hg e He). Qed.

  Lemma po_graph_filter (f : hp -> bool) l : graph l -> graph (filter f l).
  Proof. intros Hg e He. apply filter_In in He. apply Hg, He. Qed.

  Lemma po_graph_merge a b : graph a -> graph b -> SSlt (map fst a) -> SSlt (map fst b) ->
    graph (mergeSortedHashAndPos a b).
  Proof.
    intros Ga Gb Sa Sb e He.
    destruct (cc_mergeSorted_spec H a b Sa Sb) as (_ & _ & Hin).
    destruct (Hin e He) as [Ha|Hb]; [exact (Ga e Ha)|exact (Gb e Hb)].
  Qed.

  (** the keys of [sortK l] for duplicate-free keys: [sortN] of the keys *)
  Lemma po_sortK_keys (l : list hp) : NoDup (map fst l) -> map fst (sortK l) = sortN (map fst l).
  Proof.
    intros Hnd. symmetry. apply pps_sortN_unique; [apply cc_sortK_SSlt, Hnd|exact Hnd|].
    intros x. split; apply Permutation_in, Permutation_map;
      [apply RefTheory.sortK_perm|apply Permutation_sym, RefTheory.sortK_perm].
  Qed.

  Lemma po_sortK_gr ps : NoDup ps -> sortK (gr ps) = gr (sortN ps).
  Proof.
    intros Hnd. rewrite (po_graph_eq (sortK (gr ps)) (po_graph_sortK _ (po_gr_graph ps))).
    rewrite po_sortK_keys, po_gr_fst; [reflexivity|]. rewrite po_gr_fst. exact Hnd.
  Qed.

  (** merging two ascending graphs: the graph of the merged keys *)
  Lemma po_merge_gr a b : SSlt a -> SSlt b ->
    mergeSortedHashAndPos (gr a) (gr b) = gr (mergeSortedSlices a b).
  Proof.
    intros Sa Sb.
    assert (Sa' : SSlt (map fst (gr a))) by (rewrite po_gr_fst; exact Sa).
    assert (Sb' : SSlt (map fst (gr b))) by (rewrite po_gr_fst; exact Sb).
    rewrite (po_graph_eq _ (po_graph_merge _ _ (po_gr_graph a) (po_gr_graph b) Sa' Sb')). f_equal.
    destruct (cc_mergeSorted_spec H (gr a) (gr b) Sa' Sb') as (HS & HM & _).
    destruct (mergeSortedSlices_spec a b Sa Sb) as [HS2 HM2].
    apply pps_SSlt_ext; [exact HS|exact HS2|]. intros x. rewrite HM, HM2, !po_gr_fst. reflexivity.
  Qed.

  Lemma po_filter_gr (f : N -> bool) ps :
    filter (fun e : hp => f (fst e)) (gr ps) = gr (filter f ps).
  Proof.
    unfold gr. induction ps as [|p ps IH]; [reflexivity|]. cbn [map filter fst].
    destruct (f p); cbn [map]; rewrite IH; reflexivity.
  Qed.

  Lemma po_sub_gr a b : SSlt a -> SSle b ->
    subtractSortedHashAndPos (gr a) b = gr (subtractSortedSlice a b).
  Proof.
    intros Sa Sb. rewrite subtractSortedHashAndPos_spec; [|rewrite po_gr_fst; exact Sa|exact Sb].
    rewrite subtractSortedSlice_spec by assumption.
    exact (po_filter_gr (fun x => negb (memN x b)) a).
  Qed.

  Lemma po_subset_gr a b : SSlt a -> SSle b ->
    getHashAndPosSubset (gr a) b = gr (filter (fun x => memN x b) a).
  Proof.
    intros Sa Sb. rewrite getHashAndPosSubset_spec; [|rewrite po_gr_fst; exact Sa|exact Sb].
    exact (po_filter_gr (fun x => memN x b) a).
  Qed.

  Lemma po_gr_snd ps : map snd (gr ps) = map F ps.
  Proof. unfold gr. rewrite map_map. reflexivity. Qed.

  Lemma po_gr_length ps : length (gr ps) = length ps.
  Proof. apply map_length. Qed.

  (** ** [AddProof] on graphs: everything is computed on the keys *)
  Theorem addproof_graph (n : N) (tA tB ppA calcA ppB calcB : list N) :
    NoDup tA -> NoDup tB ->
    ProofPositions_fast (sortN tA) n (TreeRows n) = (ppA, calcA) ->
    ProofPositions_fast (sortN tB) n (TreeRows n) = (ppB, calcB) ->
    SSlt ppA -> SSlt ppB -> SSlt calcA -> SSlt calcB ->
    let TC := mergeSortedSlices (sortN tA) (sortN tB) in
    let PC := subtractSortedSlice
                (subtractSortedSlice (mergeSortedSlices ppA ppB) (mergeSortedSlices calcA calcB)) TC in
    AddProof tA (map F ppA) tB (map F ppB) (map F tA) (map F tB) n
    = Some (map F TC, TC, map F PC).
  Proof.
    intros NA NB EA EB SpA SpB ScA ScB TC PC. subst PC. unfold AddProof. cbv zeta. rewrite EA, EB.
    fold TC.
    unfold same_len. rewrite !map_length, !Nat.eqb_refl. cbn [andb negb].
    rewrite !po_zip_gr.
    pose proof (pps_sortN_NoDup_SSlt tA NA) as STA. pose proof (pps_sortN_NoDup_SSlt tB NB) as STB.
    destruct (mergeSortedSlices_spec ppA ppB SpA SpB) as [Spp _].
    destruct (mergeSortedSlices_spec calcA calcB ScA ScB) as [Scc _].
    destruct (mergeSortedSlices_spec _ _ STA STB) as [STC _]. fold TC in STC.
    rewrite (po_merge_gr ppA ppB SpA SpB).
    rewrite (po_sub_gr _ _ Spp (po_SSlt_SSle _ Scc)).
    rewrite (po_sub_gr _ TC (subtractSortedSlice_sorted _ _ Spp (po_SSlt_SSle _ Scc))
                       (po_SSlt_SSle _ STC)).
    rewrite (po_sortK_gr tA NA), (po_sortK_gr tB NB), (po_merge_gr _ _ STA STB).
    rewrite !po_gr_snd. reflexivity.
  Qed.
End Graph.

(** * 4. The hash valuation of the reference forest; G2: [AddProof] *)

Section RefVal.
  Variable H : Type.
  Variable HO : ops H.
  Hypothesis HOK : ops_ok HO.
  Variable s : slots H.
  Hypothesis Hn63 : N.of_nat (length s) <= 2 ^ 63.

  Local Notation n := (N.of_nat (length s)).
  Local Notation total := (TreeRows (N.of_nat (length s))).
  Local Notation R := (rows_of (num_leaves s)).
  Local Notation lay := (layout HO s).

  (** the hash the reference stores at a position *)
  Definition Fv (p : N) : H := hash_at HO R lay p.

  Lemma po_Fv_node x : In x lay -> Fv (npos R x) = nhash x.
  Proof.
    intros Hx. unfold Fv, hash_at. destruct (find_pos R lay (npos R x)) as [y|] eqn:E.
    - apply find_pos_some in E as [Hy Ey].
      rewrite (RefTheory.layout_npos_inj H HO s y x Hy Hx Ey). reflexivity.
    - exfalso. exact (proj1 (find_pos_none H R lay (npos R x)) E x Hx eq_refl).
  Qed.

  Lemma po_Fv_coord c : is_node H HO s c ->
    match find_coord lay (fst c) (snd c) with Some x => nhash x | None => op_empty HO end
    = Fv (pos R (fst c) (snd c)).
  Proof.
    intros (y & Hy & Ey). apply cN_inj in Ey. subst c. cbn [fst snd].
    change (find_coord lay (nrow y) (noff y)) with (tnode HO s (nrow y) (noff y)).
    rewrite (tnode_in H HO s y Hy). symmetry. exact (po_Fv_node y Hy).
  Qed.

  Lemma po_hashes_Fv xs : (forall x, In x xs -> In x lay) ->
    map (@nhash H) xs = map Fv (map (npos R) xs).
  Proof.
    intros Hxs. rewrite map_map. apply map_ext_in. intros x Hx. symmetry. apply po_Fv_node, Hxs, Hx.
  Qed.

  Lemma po_canon_hashes_Fv tsn : (forall x, In x tsn -> In x lay) ->
    canon_proof_hashes HO R lay tsn = map Fv (canon_proof_pos R lay tsn).
  Proof.
    intros Hts. unfold canon_proof_hashes, canon_proof_pos. rewrite map_map.
    apply map_ext_in. intros e He. apply RefTheory.sort_coords_In in He as (c & Hc & ->).
    cbn [fst snd]. apply po_Fv_coord. exact (po_proof_coord_is_node H HO s Hn63 tsn Hts c Hc).
  Qed.

  (** ** requests *)
  Lemma po_find_leaves_each : forall hs ts, find_leaves HO lay hs = Some ts ->
    forall h, In h hs -> exists x, find_leaf HO lay h = Some x.
  Proof.
    induction hs as [|a hs IH]; intros ts Hf h Hh; [destruct Hh|].
    apply (RefTheory.find_leaves_cons H HO) in Hf as (x & xs & Hx & Hxs & ->).
    destruct Hh as [<-|Hh]; [exists x; exact Hx|exact (IH xs Hxs h Hh)].
  Qed.

  Lemma po_find_leaves_some : forall hs, (forall h, In h hs -> exists x, find_leaf HO lay h = Some x) ->
    exists ts, find_leaves HO lay hs = Some ts.
  Proof.
    induction hs as [|a hs IH]; intros Hall; [exists []; reflexivity|].
    destruct (Hall a (or_introl eq_refl)) as [x Hx].
    destruct (IH (fun h Hh => Hall h (or_intror Hh))) as [xs Hxs].
    exists (x :: xs). apply (RefTheory.find_leaves_cons H HO). exists x, xs. auto.
  Qed.

  (** the nodes of an [exp_cached] answer: the requested nodes in ascending position order *)
  Definition sort_nodes (ts : list (node H)) : list (node H) :=
    map snd (sortK (map (fun x => (npos R x, x)) ts)).

  Lemma po_sort_nodes_perm ts : Permutation (sort_nodes ts) ts.
  Proof.
    unfold sort_nodes. eapply Permutation_trans; [apply Permutation_map, RefTheory.sortK_perm|].
    rewrite map_map. cbn [snd]. rewrite map_id. apply Permutation_refl.
  Qed.

  Lemma po_sort_nodes_pos ts : (forall x, In x ts -> In x lay) -> NoDup ts ->
    map (npos R) (sort_nodes ts) = sortN (map (npos R) ts).
  Proof.
    intros Hl Hnd. unfold sort_nodes. rewrite map_map.
    set (L := map (fun x => (npos R x, x)) ts).
    assert (HL : map fst L = map (npos R) ts) by (unfold L; rewrite map_map; reflexivity).
    assert (Hent : Forall (fun e : N * node H => fst e = npos R (snd e)) (sortK L)).
    { apply cs_sortK_Forall. unfold L. apply Forall_forall. intros e He.
      apply in_map_iff in He as (x & <- & _). reflexivity. }
    transitivity (map fst (sortK L)).
    - apply map_ext_in. intros e He. rewrite Forall_forall in Hent. symmetry. exact (Hent e He).
    - rewrite <- HL. apply po_sortK_keys. rewrite HL. exact (po_targets_NoDup H HO s ts Hl Hnd).
  Qed.

  (** G2.  [A], [B]: duplicate-free requests of live leaves; [(tA, pA)], [(tB, pB)]: the targets
      (in request order) and the canonical proofs the reference gives for them; [U]: any
      duplicate-free list whose members are those of [A] and [B].  Then [AddProof] returns the
      cached proof the oracle expects for [U]: hashes in ascending position order, their
      positions, the canonical proof. *)
  Theorem addproof_spec (A B U : list H) (tA tB : list N) (pA pB : list H) :
    NoDup A -> NoDup B -> NoDup U -> (forall h, In h U <-> In h A \/ In h B) ->
    exp_prove HO (mk_ctx HO s) A = Some (tA, pA) ->
    exp_prove HO (mk_ctx HO s) B = Some (tB, pB) ->
    AddProof tA pA tB pB A B n = exp_cached HO (mk_ctx HO s) U /\
    exp_cached HO (mk_ctx HO s) U <> None.
  Proof.
    intros NA NB NU HU EA EB. unfold exp_prove in EA, EB. cbn [mk_ctx clay crows] in EA, EB.
    destruct (find_leaves HO lay A) as [tsA|] eqn:FA; [|discriminate].
    destruct (find_leaves HO lay B) as [tsB|] eqn:FB; [|discriminate].
    injection EA as <- <-. injection EB as <- <-.
    destruct (cc_find_leaves_facts HO s A tsA HOK NA FA) as (LA & FlA & NtA & EhA & InA).
    destruct (cc_find_leaves_facts HO s B tsB HOK NB FB) as (LB & FlB & NtB & EhB & InB).
    destruct (po_find_leaves_some U) as [tsU FU].
    { intros h Hh. apply HU in Hh as [Hh|Hh];
        [exact (po_find_leaves_each A tsA FA h Hh)|exact (po_find_leaves_each B tsB FB h Hh)]. }
    destruct (cc_find_leaves_facts HO s U tsU HOK NU FU) as (LU & FlU & NtU & EhU & InU).
    assert (HtsU : forall x, In x tsU <-> In x tsA \/ In x tsB).
    { intros x. rewrite InU, InA, InB. split.
      - intros (h & Hh & Hx). apply HU in Hh as [Hh|Hh]; [left|right]; exists h; auto.
      - intros [(h & Hh & Hx)|(h & Hh & Hx)]; exists h; (split; [apply HU; auto|exact Hx]). }
    unfold exp_cached. cbn [mk_ctx clay crows]. rewrite FU. split; [|discriminate].
    fold (sort_nodes tsU).
    (* inputs as graphs of the valuation *)
    rewrite (po_canon_hashes_Fv tsA LA), (po_canon_hashes_Fv tsB LB).
    rewrite <- EhA, <- EhB.
    rewrite (po_hashes_Fv tsA LA), (po_hashes_Fv tsB LB).
    pose proof (po_targets_NoDup H HO s tsA LA NtA) as NDA.
    pose proof (po_targets_NoDup H HO s tsB LB NtB) as NDB.
    pose proof (po_targets_NoDup H HO s tsU LU NtU) as NDU.
    rewrite (addproof_graph H Fv n _ _ _ _ _ _ NDA NDB
               (po_pp_both_fast H HO s Hn63 tsA LA FlA NtA)
               (po_pp_both_fast H HO s Hn63 tsB LB FlB NtB)
               (po_canon_pos_SSlt H HO s Hn63 tsA LA) (po_canon_pos_SSlt H HO s Hn63 tsB LB)
               (proj1 (po_comp_pos_keys H HO s Hn63 tsA LA))
               (proj1 (po_comp_pos_keys H HO s Hn63 tsB LB))).
    cbv zeta.
    pose proof (pps_sortN_NoDup_SSlt _ NDA) as STA. pose proof (pps_sortN_NoDup_SSlt _ NDB) as STB.
    destruct (mergeSortedSlices_spec _ _ STA STB) as [STC MTC].
    set (TC := mergeSortedSlices (sortN (map (npos R) tsA)) (sortN (map (npos R) tsB))) in *.
    (* the targets *)
    assert (ETC : TC = map (npos R) (sort_nodes tsU)).
    { rewrite (po_sort_nodes_pos tsU LU NtU). symmetry. apply pps_sortN_unique; [exact STC|exact NDU|].
      intros p. rewrite MTC, !RefTheory.sortN_In, !in_map_iff. split.
      - intros [(x & <- & Hx)|(x & <- & Hx)]; exists x; (split; [reflexivity|apply HtsU; auto]).
      - intros (x & <- & Hx). apply HtsU in Hx as [Hx|Hx]; [left|right]; exists x; auto. }
    assert (LS : forall x, In x (sort_nodes tsU) -> In x lay).
    { intros x Hx. apply LU. exact (Permutation_in _ (po_sort_nodes_perm tsU) Hx). }
    (* the proof positions *)
    destruct (mergeSortedSlices_spec _ _ (po_canon_pos_SSlt H HO s Hn63 tsA LA)
                (po_canon_pos_SSlt H HO s Hn63 tsB LB)) as [Spp Mpp].
    destruct (mergeSortedSlices_spec _ _ (proj1 (po_comp_pos_keys H HO s Hn63 tsA LA))
                (proj1 (po_comp_pos_keys H HO s Hn63 tsB LB))) as [Scc Mcc].
    set (PP := mergeSortedSlices (canon_proof_pos R lay tsA) (canon_proof_pos R lay tsB)) in *.
    set (CC := mergeSortedSlices (computable_pos R lay tsA) (computable_pos R lay tsB)) in *.
    assert (EPC : subtractSortedSlice (subtractSortedSlice PP CC) TC = canon_proof_pos R lay tsU).
    { pose proof (subtractSortedSlice_sorted _ _ Spp (po_SSlt_SSle _ Scc)) as S1.
      apply pps_SSlt_ext;
        [apply subtractSortedSlice_sorted; [exact S1|apply po_SSlt_SSle, STC]
        |apply (po_canon_pos_SSlt H HO s Hn63 tsU LU)|].
      intros p.
      rewrite (subtractSortedSlice_In _ _ p S1 (po_SSlt_SSle _ STC)).
      rewrite (subtractSortedSlice_In _ _ p Spp (po_SSlt_SSle _ Scc)).
      rewrite Mpp, Mcc, MTC, !RefTheory.sortN_In.
      assert (HK : forall d, In d (known_set lay tsU) <->
                             In d (known_set lay tsA) \/ In d (known_set lay tsB)).
      { intros d. rewrite !RefTheory.known_set_In. split.
        - intros (x & Hx & Hd). apply HtsU in Hx as [Hx|Hx]; [left|right]; exists x; auto.
        - intros [(x & Hx & Hd)|(x & Hx & Hd)]; exists x; (split; [apply HtsU; auto|exact Hd]). }
      assert (HKpos : (exists d, In d (known_set lay tsU) /\ p = pos R (fst d) (snd d)) <->
                      (In p (map (npos R) tsA) \/ In p (map (npos R) tsB)) \/
                      (In p (computable_pos R lay tsA) \/ In p (computable_pos R lay tsB))).
      { pose proof (po_known_pos H HO s Hn63 tsA LA p) as KA.
        pose proof (po_known_pos H HO s Hn63 tsB LB p) as KB. split.
        - intros (d & Hd & Ep). apply HK in Hd as [Hd|Hd].
          + assert (Hx : In p (map (npos R) tsA) \/ In p (computable_pos R lay tsA))
              by (apply KA; exists d; auto). tauto.
          + assert (Hx : In p (map (npos R) tsB) \/ In p (computable_pos R lay tsB))
              by (apply KB; exists d; auto). tauto.
        - intros Hp.
          assert (Hp' : (In p (map (npos R) tsA) \/ In p (computable_pos R lay tsA)) \/
                        (In p (map (npos R) tsB) \/ In p (computable_pos R lay tsB))) by tauto.
          destruct Hp' as [Hp'|Hp'].
          + apply KA in Hp' as (d & Hd & Ep). exists d. split; [apply HK; auto|exact Ep].
          + apply KB in Hp' as (d & Hd & Ep). exists d. split; [apply HK; auto|exact Ep]. }
      rewrite (po_canon_pos_In H HO s tsA), (po_canon_pos_In H HO s tsB),
        (po_canon_pos_In H HO s tsU).
      split.
      - intros [[Hp HnC] HnT].
        assert (HnK : ~ exists d, In d (known_set lay tsU) /\ p = pos R (fst d) (snd d))
          by (rewrite HKpos; tauto).
        assert (Hgen : forall ts, (forall d, In d (known_set lay ts) -> In d (known_set lay tsU)) ->
                  (exists d, In d (known_set lay ts) /\ is_root_coord lay d = false /\
                             ~ In (sib_coord d) (known_set lay ts) /\
                             p = pos R (fst (sib_coord d)) (snd (sib_coord d))) ->
                  exists d, In d (known_set lay tsU) /\ is_root_coord lay d = false /\
                            ~ In (sib_coord d) (known_set lay tsU) /\
                            p = pos R (fst (sib_coord d)) (snd (sib_coord d))).
        { intros ts Hsub (d & Hd & Hr & _ & Ep). exists d. split; [apply Hsub, Hd|].
          split; [exact Hr|]. split; [|exact Ep]. intros Hin. apply HnK.
          exists (sib_coord d). auto. }
        destruct Hp as [Hp|Hp].
        + apply (Hgen tsA); [intros d Hd; apply HK; auto|exact Hp].
        + apply (Hgen tsB); [intros d Hd; apply HK; auto|exact Hp].
      - intros (d & Hd & Hr & Hn & Ep).
        assert (HnK : ~ exists d', In d' (known_set lay tsU) /\ p = pos R (fst d') (snd d')).
        { intros (d' & Hd' & Ep'). apply Hn. rewrite Ep in Ep'.
          rewrite (po_pos_inj H HO s (sib_coord d) d'); [exact Hd'| | |exact Ep'].
          - apply (po_proof_coord_is_node H HO s Hn63 tsU LU). apply RefTheory.proof_coords_In.
            exists d. auto.
          - exact (po_known_is_node H HO s Hn63 tsU LU d' Hd'). }
        rewrite HKpos in HnK. split; [split|]; [|tauto|tauto].
        apply HK in Hd as [Hd|Hd]; [left|right]; exists d;
          (split; [exact Hd|]; split; [exact Hr|]; split; [|exact Ep]);
          intros Hin; apply Hn, HK; auto. }
    rewrite EPC, ETC. f_equal. f_equal; [f_equal|].
    - symmetry. apply po_hashes_Fv, LS.
    - rewrite <- (po_canon_hashes_Fv tsU LU).
      apply (RefTheory.canon_unique_state H HO s tsU (sort_nodes tsU));
        [apply Permutation_sym, po_sort_nodes_perm|exact LU].
  Qed.
End RefVal.

Print Assumptions addproof_spec.

(** G2 for the inputs the oracle expects a client to hold ([exp_cached]) *)
Corollary addproof_cached {H} (HO : ops H) (s : slots H) (A B U : list H)
          (hA hB : list H) (tA tB : list N) (pA pB : list H) :
  ops_ok HO -> N.of_nat (length s) <= 2 ^ 63 -> NoDup (live s) ->
  NoDup A -> NoDup B -> NoDup U -> (forall h, In h U <-> In h A \/ In h B) ->
  exp_cached HO (mk_ctx HO s) A = Some (hA, tA, pA) ->
  exp_cached HO (mk_ctx HO s) B = Some (hB, tB, pB) ->
  AddProof tA pA tB pB hA hB (N.of_nat (length s)) = exp_cached HO (mk_ctx HO s) U /\
  exp_cached HO (mk_ctx HO s) U <> None.
Proof.
  intros HOK Hn63 Hlive NA NB NU HU EA EB.
  destruct (cached_is_canonical H HO HOK s A hA tA pA Hlive NA EA) as [PA PermA].
  destruct (cached_is_canonical H HO HOK s B hB tB pB Hlive NB EB) as [PB PermB].
  apply (addproof_spec H HO HOK s Hn63 hA hB U tA tB pA pB);
    [exact (Permutation_NoDup (Permutation_sym PermA) NA)
    |exact (Permutation_NoDup (Permutation_sym PermB) NB)|exact NU| |exact PA|exact PB].
  intros h. rewrite HU. split; (intros [Hh|Hh]; [left|right]);
    first [exact (Permutation_in _ (Permutation_sym PermA) Hh)
          |exact (Permutation_in _ (Permutation_sym PermB) Hh)
          |exact (Permutation_in _ PermA Hh)|exact (Permutation_in _ PermB Hh)].
Qed.
Print Assumptions addproof_cached.

(** non-vacuity: the proof of [Atom 7; Atom 3] (positions 6, 2) combined with the proof of
    [Atom 1] (position 8) in the 7-slot forest [ls_ex] *)
Example addproof_ex :
  AddProof [6; 2] [Atom 4; Atom 1] [8] [Node (Atom 3) (Atom 4)] [Atom 7; Atom 3] [Atom 1] 7
    = Some ([Atom 3; Atom 7; Atom 1], [2; 6; 8], [Atom 4]) /\
  AddProof [6; 2] [Atom 4; Atom 1] [8] [Node (Atom 3) (Atom 4)] [Atom 7; Atom 3] [Atom 1] 7
    = exp_cached term_ops (mk_ctx term_ops ls_ex) [Atom 1; Atom 3; Atom 7].
Proof.
  split; [vm_compute; reflexivity|].
  apply (addproof_spec term term_ops term_ops_ok ls_ex ex_cc_bound
           [Atom 7; Atom 3] [Atom 1] [Atom 1; Atom 3; Atom 7]).
  - apply po_ex_nodup; reflexivity.
  - apply po_ex_nodup; reflexivity.
  - apply po_ex_nodup; reflexivity.
  - intros h. cbn [In]. tauto.
  - vm_compute. reflexivity.
  - vm_compute. reflexivity.
Qed.

(** * 5. G3: [GetProofSubset] *)

(** every member of [a] outside [b] survives the subtraction (no sortedness needed) *)
Lemma po_subN_keeps : forall fuel a b w, (length a + length b < fuel)%nat ->
  In w a -> ~ In w b -> In w (subN fuel a b).
Proof.
  induction fuel as [|f IH]; intros a b w Hf Ha Hb; [lia|].
  cbn [subN]. destruct a as [|x a]; [destruct Ha|]. destruct b as [|y b]; [exact Ha|].
  cbn [length] in Hf.
  destruct (N.eqb_spec x y) as [Exy|Nxy].
  - subst y. destruct Ha as [<-|Ha]; [exfalso; apply Hb; left; reflexivity|].
    apply IH; [lia|exact Ha|]. intros Hin. apply Hb. right. exact Hin.
  - destruct (x <? y).
    + destruct Ha as [<-|Ha]; [left; reflexivity|]. right.
      apply IH; [cbn [length]; lia|exact Ha|exact Hb].
    + apply IH; [cbn [length]; lia|exact Ha|]. intros Hin. apply Hb. right. exact Hin.
Qed.

(** G3, failure: a requested position that is not a target of the proof is an error - for any
    inputs whatsoever *)
Theorem subset_uncovered {H} (HO : ops H) (ts : list N) (pf hashes : list H) (wants : list N) (n : N) :
  (exists w, In w wants /\ ~ In w ts) -> GetProofSubset HO ts pf hashes wants n = None.
Proof.
  intros (w & Hw & Hn). unfold GetProofSubset. cbv zeta.
  assert (Hin : In w (subtractSortedSlice (sortN wants) (sortN ts))).
  { apply po_subN_keeps; [lia|apply RefTheory.sortN_In, Hw|].
    intros Hin. apply (proj1 (RefTheory.sortN_In _ _)) in Hin. exact (Hn Hin). }
  destruct (subtractSortedSlice (sortN wants) (sortN ts)) as [|a l]; [destruct Hin|]. reflexivity.
Qed.

Section SubsetGraph.
  Variable H : Type.
  Variable HO : ops H.
  Variable F : N -> H.
  Local Notation gr := (gr H F).

  Lemma po_index_of_gr w ps : In w ps -> index_of w (gr ps) = Some (F w).
  Proof.
    induction ps as [|p ps IH]; intros Hin; [destruct Hin|]. cbn [gr map index_of fst snd].
    destruct (N.eqb_spec p w) as [->|Hne]; [reflexivity|].
    destruct Hin as [E|Hin]; [congruence|]. exact (IH Hin).
  Qed.

  Lemma po_all_someH_gr ps wants : (forall w, In w wants -> In w ps) ->
    all_someH (map (fun w => index_of w (gr ps)) wants) = Some (map F wants).
  Proof.
    induction wants as [|w wants IH]; intros Hall; [reflexivity|]. cbn [map all_someH].
    rewrite (po_index_of_gr w ps (Hall w (or_introl eq_refl))), IH; [reflexivity|].
    intros v Hv. apply Hall. right. exact Hv.
  Qed.

  (** [GetProofSubset] on graphs *)
  Theorem subset_graph (n : N) (ts wants pp calc IK wpp wcalc : list N) (cands : list H) (rows : list N) :
    NoDup ts -> NoDup wants -> (forall w, In w wants -> In w ts) ->
    calculateHashes HO true n (Some (map F ts)) ts (map F pp) = Ok (gr IK, cands, rows) ->
    SSlt IK ->
    ProofPositions_fast (sortN ts) n (TreeRows n) = (pp, calc) -> SSlt pp ->
    ProofPositions_fast (sortN wants) n (TreeRows n) = (wpp, wcalc) -> SSlt wpp ->
    (forall p, In p wpp -> In p IK \/ In p pp) ->
    GetProofSubset HO ts (map F pp) (map F ts) wants n = Some (map F wants, wants, map F wpp).
  Proof.
    intros Nts Nw Hsub Ecalc SIK Epp Spp Ewpp Swpp Hcov.
    pose proof (pps_sortN_NoDup_SSlt ts Nts) as Sts.
    pose proof (pps_sortN_NoDup_SSlt wants Nw) as Sw.
    unfold GetProofSubset. cbv zeta.
    (* the coverage test *)
    assert (E0 : subtractSortedSlice (sortN wants) (sortN ts) = []).
    { rewrite subtractSortedSlice_spec; [|exact Sw|apply po_SSlt_SSle, Sts].
      apply RefTheory.filter_none. intros x Hx. apply Bool.negb_false_iff, RefTheory.memN_In.
      apply RefTheory.sortN_In, Hsub. apply (proj1 (RefTheory.sortN_In _ _)) in Hx. exact Hx. }
    rewrite E0. cbn [length Nat.eqb negb].
    unfold same_len. rewrite map_length, Nat.eqb_refl. cbn [negb].
    rewrite Ecalc, Epp. rewrite map_length, Nat.ltb_irrefl.
    (* the lists *)
    rewrite !(po_zip_gr H F).
    rewrite (po_sortK_gr H F ts Nts).
    rewrite (po_sortK_gr H F IK (pps_SSlt_NoDup _ SIK)), (po_sortN_sorted_id IK SIK).
    rewrite (po_sortK_gr H F pp (pps_SSlt_NoDup _ Spp)), (po_sortN_sorted_id pp Spp).
    rewrite (po_merge_gr H F IK pp SIK Spp).
    destruct (mergeSortedSlices_spec IK pp SIK Spp) as [SALL MALL].
    set (ALL := mergeSortedSlices IK pp) in *.
    rewrite (po_subset_gr H F (sortN ts) (sortN wants) Sts (po_SSlt_SSle _ Sw)).
    assert (E1 : filter (fun x => memN x (sortN wants)) (sortN ts) = sortN wants).
    { apply pps_SSlt_ext; [apply po_filter_SS, Sts|exact Sw|]. intros x.
      rewrite filter_In, RefTheory.memN_In, !RefTheory.sortN_In. split; [tauto|].
      intros Hx. split; [apply Hsub, Hx|exact Hx]. }
    rewrite E1, (po_gr_fst H F), Ewpp.
    rewrite (po_subset_gr H F ALL wpp SALL (po_SSlt_SSle _ Swpp)).
    assert (E2 : filter (fun x => memN x wpp) ALL = wpp).
    { apply pps_SSlt_ext; [apply po_filter_SS, SALL|exact Swpp|]. intros x.
      rewrite filter_In, RefTheory.memN_In, MALL. split; [tauto|].
      intros Hx. split; [apply Hcov, Hx|exact Hx]. }
    rewrite E2, (po_gr_length H F), Nat.eqb_refl. cbn [negb].
    rewrite (po_all_someH_gr (sortN wants) wants);
      [|intros w Hw; apply RefTheory.sortN_In, Hw].
    rewrite (po_gr_snd H F). reflexivity.
  Qed.
End SubsetGraph.

Section SubsetRef.
  Variable H : Type.
  Variable HO : ops H.
  Hypothesis HOK : ops_ok HO.
  Hypothesis hash_nz : forall a b, NZ HO (op_hash2 HO a b).
  Variable s : slots H.
  Hypothesis Hlive_nz : forall h, In (Some h) s -> NZ HO h.
  Hypothesis Hn63 : N.of_nat (length s) <= 2 ^ 63.

  Local Notation n := (N.of_nat (length s)).
  Local Notation total := (TreeRows (N.of_nat (length s))).
  Local Notation R := (rows_of (num_leaves s)).
  Local Notation lay := (layout HO s).
  Local Notation Fv := (Fv H HO s).

  (** positions among the positions of [tsn] are positions of nodes of [tsn] *)
  Lemma po_pos_nodes (tsn : list (node H)) : forall wants,
    (forall w, In w wants -> In w (map (npos R) tsn)) ->
    exists wn, map (npos R) wn = wants /\ (forall x, In x wn -> In x tsn).
  Proof.
    induction wants as [|w wants IH]; intros Hall; [exists []; split; [reflexivity|intros x []]|].
    destruct (IH (fun v Hv => Hall v (or_intror Hv))) as (wn & Ewn & Hwn).
    destruct (proj1 (in_map_iff _ _ _) (Hall w (or_introl eq_refl))) as (x & Ex & Hx).
    exists (x :: wn). split; [cbn [map]; rewrite Ex, Ewn; reflexivity|].
    intros y [<-|Hy]; [exact Hx|exact (Hwn y Hy)].
  Qed.

  Lemma po_find_leaves_nodes : forall wn : list (node H),
    (forall x, In x wn -> exists h, find_leaf HO lay h = Some x) ->
    find_leaves HO lay (map (@nhash H) wn) = Some wn.
  Proof.
    induction wn as [|x wn IH]; intros Hall; [reflexivity|].
    apply (RefTheory.find_leaves_cons H HO). exists x, wn.
    split; [|split; [apply IH; intros y Hy; apply Hall; right; exact Hy|reflexivity]].
    destruct (Hall x (or_introl eq_refl)) as [h Hh].
    destruct (find_leaf_spec H HO HOK _ _ _ Hh) as (_ & _ & ->). exact Hh.
  Qed.

  (** G3, success.  [(ts, pf)]: the targets (in request order) and the canonical proof of the
      duplicate-free request [hs] of live leaves; [wants]: duplicate-free positions among [ts], in
      any order.  [GetProofSubset] returns the hashes of the wanted leaves in the order of
      [wants], [wants] itself, and the canonical proof of the wanted leaves. *)
  Theorem subset_spec (hs : list H) (ts : list N) (pf : list H) (wants : list N) :
    NoDup hs -> exp_prove HO (mk_ctx HO s) hs = Some (ts, pf) ->
    NoDup wants -> (forall w, In w wants -> In w ts) ->
    exists hw pw,
      exp_prove HO (mk_ctx HO s) hw = Some (wants, pw) /\
      hw = map Fv wants /\ (forall h, In h hw -> In h hs) /\
      GetProofSubset HO ts pf hs wants n = Some (hw, wants, pw).
  Proof.
    intros Nhs EP Nw Hsub. unfold exp_prove in EP. cbn [mk_ctx clay crows] in EP.
    destruct (find_leaves HO lay hs) as [tsn|] eqn:Fhs; [|discriminate].
    injection EP as <- <-.
    destruct (cc_find_leaves_facts HO s hs tsn HOK Nhs Fhs) as (L & Fl & Nt & Eh & InT).
    destruct (po_pos_nodes tsn wants Hsub) as (wn & Ewn & Hwn).
    assert (Lw : forall x, In x wn -> In x lay) by (intros x Hx; apply L, Hwn, Hx).
    assert (Flw : forall x, In x wn -> nleaf x = true) by (intros x Hx; apply Fl, Hwn, Hx).
    assert (Nwn : NoDup wn) by (apply (NoDup_map_inv (npos R)); rewrite Ewn; exact Nw).
    assert (Fwn : find_leaves HO lay (map (@nhash H) wn) = Some wn).
    { apply po_find_leaves_nodes. intros x Hx. apply Hwn, InT in Hx as (h & _ & Hh). exists h. exact Hh. }
    exists (map (@nhash H) wn), (canon_proof_hashes HO R lay wn).
    split; [|split; [|split]].
    - unfold exp_prove. cbn [mk_ctx clay crows]. rewrite Fwn, Ewn. reflexivity.
    - rewrite (po_hashes_Fv H HO s wn Lw), Ewn. reflexivity.
    - intros h Hh. apply in_map_iff in Hh as (x & <- & Hx). rewrite <- Eh. apply in_map, Hwn, Hx.
    - (* the verifier's intermediate positions *)
      pose proof (rt_valid H HO s tsn L Fl Nt) as Hval.
      destruct (cc_valid_facts n Hn63 (map ncrd tsn) Hval) as (HK1 & _).
      destruct (cc_Ks_spec n Hn63 (map ncrd tsn) Hval) as [HKs_sorted HKs_mem].
      destruct (calc_complete_c H HO (Wv H HO s) n Hn63 (map ncrd tsn) (Some hs)
                  (canon_proof_hashes HO R lay tsn) [] Hval)
        as (inter & cands & Ecalc & _ & _ & Hkeys & HW).
      { intros c h h' Hc Hr. exact (vc_step H HO hash_nz s Hn63 c h h' (HK1 c Hc) Hr). }
      { cbn [cc_hs]. rewrite <- Eh. exact (vc_targets_W H HO s Hlive_nz tsn L Fl). }
      { exact (vc_proof_W H HO hash_nz s Hlive_nz Hn63 tsn L Fl Nt). }
      rewrite app_nil_r, <- (po_targets_g H s tsn) in Ecalc.
      set (IK := map fst inter) in *.
      assert (Egr : inter = gr H Fv IK).
      { apply po_graph_eq. intros e He. rewrite Forall_forall in HW.
        destruct (HW e He) as (x & Hx & Ep & Ehx & _).
        rewrite Ep, <- (rf_npos H s x), (po_Fv_node H HO s x Hx). symmetry. exact Ehx. }
      assert (SIK : SSlt IK) by (rewrite Hkeys; apply pps_clt_map, HKs_sorted).
      assert (MIK : forall p, In p IK <-> exists d, In d (known_set lay tsn) /\ p = pos R (fst d) (snd d)).
      { intros p. rewrite Hkeys, in_map_iff. split.
        - intros (c & <- & Hc). apply HKs_mem, (rt_K H HO s Hn63 tsn L) in Hc as (d & Hd & ->).
          exists d. split; [exact Hd|]. symmetry. apply (po_pos_g H s).
        - intros (d & Hd & ->). exists (cN d). split; [symmetry; apply (po_pos_g H s)|].
          apply HKs_mem, (rt_K H HO s Hn63 tsn L). exists d. auto. }
      rewrite Egr in Ecalc.
      rewrite (po_canon_hashes_Fv H HO s Hn63 tsn L), (po_canon_hashes_Fv H HO s Hn63 wn Lw).
      rewrite (po_hashes_Fv H HO s wn Lw), Ewn.
      rewrite <- Eh, (po_hashes_Fv H HO s tsn L).
      rewrite <- Eh, (po_hashes_Fv H HO s tsn L), (po_canon_hashes_Fv H HO s Hn63 tsn L) in Ecalc.
      apply (subset_graph H HO Fv n (map (npos R) tsn) wants (canon_proof_pos R lay tsn)
               (computable_pos R lay tsn) IK (canon_proof_pos R lay wn) (computable_pos R lay wn)
               cands _ (po_targets_NoDup H HO s tsn L Nt) Nw Hsub Ecalc SIK
               (po_pp_both_fast H HO s Hn63 tsn L Fl Nt) (po_canon_pos_SSlt H HO s Hn63 tsn L)).
      + rewrite <- Ewn. exact (po_pp_both_fast H HO s Hn63 wn Lw Flw Nwn).
      + exact (po_canon_pos_SSlt H HO s Hn63 wn Lw).
      + intros p Hp. apply (po_canon_pos_In H HO s wn) in Hp as (d & Hd & Hr & _ & ->).
        assert (HdK : In d (known_set lay tsn)) by (exact (RefTheory.known_set_mono H lay wn tsn Hwn d Hd)).
        destruct (mem_coord (sib_coord d) (known_set lay tsn)) eqn:E.
        * left. apply MIK. exists (sib_coord d). split; [apply RefTheory.mem_coord_In, E|reflexivity].
        * right. apply (po_canon_pos_In H HO s tsn). exists d. split; [exact HdK|].
          split; [exact Hr|]. split; [apply RefTheory.mem_coord_false, E|reflexivity].
  Qed.
End SubsetRef.

Print Assumptions subset_spec.
Print Assumptions subset_uncovered.

(** G3: the restriction fails exactly when a requested position is not covered *)
Corollary subset_error_iff {H} (HO : ops H) (s : slots H) (hs : list H) (ts : list N) (pf : list H)
          (wants : list N) :
  ops_ok HO -> (forall a b, NZ HO (op_hash2 HO a b)) -> (forall h, In (Some h) s -> NZ HO h) ->
  N.of_nat (length s) <= 2 ^ 63 ->
  NoDup hs -> exp_prove HO (mk_ctx HO s) hs = Some (ts, pf) -> NoDup wants ->
  (GetProofSubset HO ts pf hs wants (N.of_nat (length s)) = None <->
   exists w, In w wants /\ ~ In w ts).
Proof.
  intros HOK Hnz Hlive Hn63 Nhs EP Nw. split; [|apply subset_uncovered].
  intros Enone. destruct (forallb (fun w => memN w ts) wants) eqn:E.
  - exfalso. rewrite forallb_forall in E.
    destruct (subset_spec H HO HOK Hnz s Hlive Hn63 hs ts pf wants Nhs EP Nw)
      as (hw & pw & _ & _ & _ & Es); [|congruence].
    intros w Hw. apply RefTheory.memN_In, E, Hw.
  - assert (Hex : exists w, In w wants /\ memN w ts = false).
    { clear - E. induction wants as [|w wants IH]; [discriminate|]. cbn [forallb] in E.
      destruct (memN w ts) eqn:Em.
      - destruct (IH E) as (v & Hv & Ev). exists v. split; [right; exact Hv|exact Ev].
      - exists w. split; [left; reflexivity|exact Em]. }
    destruct Hex as (w & Hw & Em). exists w. split; [exact Hw|apply po_memN_false, Em].
Qed.
Print Assumptions subset_error_iff.

(** non-vacuity: from the proof of [Atom 7; Atom 4; Atom 3] (positions 6, 3, 2; proof [Atom 1])
    in [ls_ex], restrict to positions 3 and 6, in that order; position 8 is not covered *)
Example subset_ex :
  GetProofSubset term_ops [6; 3; 2] [Atom 1] [Atom 7; Atom 4; Atom 3] [3; 6] 7
    = Some ([Atom 4; Atom 7], [3; 6], [Atom 3; Atom 1]) /\
  exp_prove term_ops (mk_ctx term_ops ls_ex) [Atom 4; Atom 7] = Some ([3; 6], [Atom 3; Atom 1]) /\
  GetProofSubset term_ops [6; 3; 2] [Atom 1] [Atom 7; Atom 4; Atom 3] [3; 8] 7 = None.
Proof. repeat split; vm_compute; reflexivity. Qed.

Example subset_ex_by_thm :
  exists hw pw,
    exp_prove term_ops (mk_ctx term_ops ls_ex) hw = Some ([3; 6], pw) /\
    GetProofSubset term_ops [6; 3; 2] [Atom 1] [Atom 7; Atom 4; Atom 3] [3; 6] 7
      = Some (hw, [3; 6], pw).
Proof.
  destruct (subset_spec term term_ops term_ops_ok ex_cc_hash_nz ls_ex ex_cc_live_nz ex_cc_bound
              [Atom 7; Atom 4; Atom 3] [6; 3; 2] [Atom 1] [3; 6])
    as (hw & pw & E1 & _ & _ & E2).
  - apply po_ex_nodup; reflexivity.
  - vm_compute. reflexivity.
  - repeat constructor; cbn [In]; lia.
  - intros w. cbn [In]. tauto.
  - exists hw, pw. split; [exact E1|exact E2].
Qed.

Example subset_ex_uncovered :
  GetProofSubset term_ops [6; 3; 2] [Atom 1] [Atom 7; Atom 4; Atom 3] [3; 8] 7 = None.
Proof. apply subset_uncovered. exists 8. cbn [In]. split; [tauto|lia]. Qed.

(** the duplicate-freeness hypotheses cannot be dropped *)
Example po_dup_witnesses :
  (* desired position 3 twice: the sibling 2 is not reported *)
  GetMissingPositionsFn 7 [] [3; 3] = [8] /\
  exp_missing term_ops (mk_ctx term_ops ls_ex) [] [Atom 4; Atom 4] = Some [2; 8] /\
  (* target 2 twice in one input *)
  AddProof [2; 2] [Atom 4; Atom 1] [8] [Node (Atom 3) (Atom 4)] [Atom 3; Atom 3] [Atom 1] 7
    = Some ([Atom 3; Atom 3; Atom 1], [2; 2; 8], [Atom 4; Atom 1]) /\
  (* wanted position 3 twice, covered *)
  GetProofSubset term_ops [6; 3; 2] [Atom 1] [Atom 7; Atom 4; Atom 3] [3; 3] 7 = None.
Proof. repeat split; vm_compute; reflexivity. Qed.
