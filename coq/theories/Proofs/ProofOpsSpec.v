(** The proof-combination helpers of prove.go ([Model.ProofOps]: mirrors of [AddProof],
    [GetProofSubset], [GetMissingPositions]) against the reference forest (property C14).

    Part 0   specifications of the two-pointer helpers on ascending lists
             ([subtractSortedSlice], [mergeSortedSlices], [subtractSortedHashAndPos],
             [getHashAndPosSubset], [mergeSortedHashAndPos]) and of [sortN];
    Part 1   [ProofPositions] on the positions of distinct leaf nodes returns BOTH the canonical
             proof positions and the computable positions of the reference ([po_pp_both]);
    Part 2   G1 [missing_spec]: [GetMissingPositionsFn] = the oracle's [exp_missing];
    Part 3   the hash valuation of the reference forest, lists that are graphs of it;
    Part 4   G2 [addproof_spec]: [AddProof] of two canonical proofs = the expected cached proof of
             the union;
    Part 5   G3 [subset_spec], [subset_uncovered]: [GetProofSubset]. *)
From Utreexo Require Import Base.Hash Model.Utils Model.UtilsFast Model.Verify Model.ProofOps
  Spec.Forest Spec.Oracle Spec.Geometry Spec.Term
  Proofs.UtilsGeom Proofs.UtilsGeom2 Proofs.SpecBasics Proofs.LayoutStruct Proofs.ProofPosSpec
  Proofs.CalcTotal Proofs.CalcSound Proofs.CalcComplete Proofs.CachedVerifies.
From Utreexo Require Proofs.RefTheory.
From Coq Require Import List Arith PeanoNat NArith Lia ZifyNat ZifyN ZifyBool Sorted Permutation.
Import ListNotations.
Open Scope N_scope.

Local Notation SSlt := (StronglySorted N.lt).
Local Notation SSle := (StronglySorted N.le).

(** * 0. The two-pointer helpers on ascending lists *)

Lemma po_SS_inv {A} (R : A -> A -> Prop) a l :
  StronglySorted R (a :: l) -> StronglySorted R l /\ (forall y, In y l -> R a y).
Proof. apply cc_SS_cons_inv. Qed.

Lemma po_SSlt_SSle l : SSlt l -> SSle l.
Proof.
  induction 1 as [|a l Hl IH Ha]; constructor; [exact IH|].
  apply Forall_forall. intros x Hx. rewrite Forall_forall in Ha. specialize (Ha x Hx). lia.
Qed.

Lemma po_memN_false x l : memN x l = false <-> ~ In x l.
Proof.
  split.
  - intros E Hin. apply RefTheory.memN_In in Hin. congruence.
  - intros Hn. destruct (memN x l) eqn:E; [|reflexivity]. exfalso. apply Hn, RefTheory.memN_In, E.
Qed.

Lemma po_memN_ext x l l' : (forall y, In y l <-> In y l') -> memN x l = memN x l'.
Proof.
  intros E. destruct (memN x l) eqn:A; symmetry.
  - apply RefTheory.memN_In, E, RefTheory.memN_In, A.
  - apply po_memN_false. intros Hin. apply (proj1 (po_memN_false x l) A), E, Hin.
Qed.

Lemma po_filter_all {A} (f : A -> bool) l : (forall x, In x l -> f x = true) -> filter f l = l.
Proof.
  induction l as [|a l IH]; intros Hf; [reflexivity|]. cbn [filter].
  rewrite (Hf a (or_introl eq_refl)), IH; [reflexivity|]. intros x Hx. apply Hf. right. exact Hx.
Qed.

Lemma po_filter_SS {A} (R : A -> A -> Prop) (f : A -> bool) l :
  StronglySorted R l -> StronglySorted R (filter f l).
Proof.
  induction 1 as [|a l Hl IH Ha]; cbn [filter]; [constructor|].
  destruct (f a); [|exact IH]. constructor; [exact IH|].
  apply Forall_forall. intros x Hx. apply filter_In in Hx. rewrite Forall_forall in Ha.
  apply Ha, Hx.
Qed.

(** ** [subtractSortedSlice a b]: [a] strictly ascending, [b] ascending: the members of [a] that
    are not in [b], in order *)
Lemma po_subN_spec : forall fuel a b, (length a + length b < fuel)%nat -> SSlt a -> SSle b ->
  subN fuel a b = filter (fun x => negb (memN x b)) a.
Proof.
  induction fuel as [|f IH]; intros a b Hf Ha Hb; [lia|].
  cbn [subN]. destruct a as [|x a]; [reflexivity|].
  destruct b as [|y b].
  { symmetry. apply po_filter_all. reflexivity. }
  destruct (po_SS_inv _ _ _ Ha) as [Ha' Hxa]. destruct (po_SS_inv _ _ _ Hb) as [Hb' Hyb].
  cbn [length] in Hf.
  destruct (N.eqb_spec x y) as [Exy|Nxy].
  - subst y. cbn [filter memN]. rewrite N.eqb_refl. cbn [orb negb].
    rewrite (IH a b ltac:(lia) Ha' Hb'). apply filter_ext_in. intros z Hz.
    specialize (Hxa z Hz). destruct (N.eqb_spec z x); [lia|reflexivity].
  - destruct (N.ltb_spec x y) as [Hlt|Hge].
    + cbn [filter]. assert (Em : memN x (y :: b) = false).
      { apply po_memN_false. intros [E|Hin]; [lia|]. specialize (Hyb x Hin). lia. }
      rewrite Em. cbn [negb]. f_equal. apply (IH a (y :: b)); [cbn [length]; lia|exact Ha'|exact Hb].
    + rewrite (IH (x :: a) b ltac:(cbn [length]; lia) Ha Hb'). apply filter_ext_in. intros z Hz.
      cbn [memN]. assert (y < z) by (destruct Hz as [<-|Hz]; [lia|specialize (Hxa z Hz); lia]).
      destruct (N.eqb_spec z y); [lia|reflexivity].
Qed.

Theorem subtractSortedSlice_spec a b : SSlt a -> SSle b ->
  subtractSortedSlice a b = filter (fun x => negb (memN x b)) a.
Proof. intros Ha Hb. apply po_subN_spec; [lia|exact Ha|exact Hb]. Qed.

Corollary subtractSortedSlice_sorted a b : SSlt a -> SSle b -> SSlt (subtractSortedSlice a b).
Proof. intros Ha Hb. rewrite subtractSortedSlice_spec by assumption. apply po_filter_SS, Ha. Qed.

Corollary subtractSortedSlice_In a b x : SSlt a -> SSle b ->
  (In x (subtractSortedSlice a b) <-> In x a /\ ~ In x b).
Proof.
  intros Ha Hb. rewrite subtractSortedSlice_spec by assumption. rewrite filter_In.
  rewrite Bool.negb_true_iff, po_memN_false. reflexivity.
Qed.

(** ** [mergeSortedSlices a b] of strictly ascending lists: strictly ascending, the union *)
Lemma po_mergeN_spec : forall fuel a b, (length a + length b < fuel)%nat -> SSlt a -> SSlt b ->
  SSlt (mergeN_ fuel a b) /\ (forall x, In x (mergeN_ fuel a b) <-> In x a \/ In x b).
Proof.
  induction fuel as [|f IH]; intros a b Hf Ha Hb; [lia|].
  cbn [mergeN_]. destruct a as [|x a].
  { split; [exact Hb|]. intros z. cbn [In]. tauto. }
  destruct b as [|y b].
  { split; [exact Ha|]. intros z. cbn [In]. tauto. }
  destruct (po_SS_inv _ _ _ Ha) as [Ha' Hxa]. destruct (po_SS_inv _ _ _ Hb) as [Hb' Hyb].
  cbn [length] in Hf.
  destruct (N.ltb_spec x y) as [Hxy|Hxy].
  - destruct (IH a (y :: b) ltac:(cbn [length]; lia) Ha' Hb) as [IH1 IH2]. split.
    + constructor; [exact IH1|]. apply Forall_forall. intros z Hz. apply IH2 in Hz.
      destruct Hz as [Hz|[<-|Hz]]; [exact (Hxa z Hz)|exact Hxy|]. specialize (Hyb z Hz). lia.
    + intros z. cbn [In]. rewrite IH2. cbn [In]. tauto.
  - destruct (N.ltb_spec y x) as [Hyx|Hyx].
    + destruct (IH (x :: a) b ltac:(cbn [length]; lia) Ha Hb') as [IH1 IH2]. split.
      * constructor; [exact IH1|]. apply Forall_forall. intros z Hz. apply IH2 in Hz.
        destruct Hz as [[<-|Hz]|Hz]; [exact Hyx| |exact (Hyb z Hz)]. specialize (Hxa z Hz). lia.
      * intros z. cbn [In]. rewrite IH2. cbn [In]. tauto.
    + assert (Exy : x = y) by lia. subst y.
      destruct (IH a b ltac:(lia) Ha' Hb') as [IH1 IH2]. split.
      * constructor; [exact IH1|]. apply Forall_forall. intros z Hz. apply IH2 in Hz.
        destruct Hz as [Hz|Hz]; [exact (Hxa z Hz)|exact (Hyb z Hz)].
      * intros z. cbn [In]. rewrite IH2. tauto.
Qed.

Theorem mergeSortedSlices_spec a b : SSlt a -> SSlt b ->
  SSlt (mergeSortedSlices a b) /\ (forall x, In x (mergeSortedSlices a b) <-> In x a \/ In x b).
Proof. intros Ha Hb. apply po_mergeN_spec; [lia|exact Ha|exact Hb]. Qed.

(** ** [sortN]: ascending, a permutation; strictly ascending on duplicate-free input; the result
    depends on the set only *)
Theorem sortN_spec l : SSle (sortN l) /\ Permutation (sortN l) l /\ (NoDup l -> SSlt (sortN l)).
Proof.
  split; [apply pps_sortN_sorted|]. split; [apply pps_sortN_perm|apply pps_sortN_NoDup_SSlt].
Qed.

Lemma po_sortN_set l l' : NoDup l -> NoDup l' -> (forall x, In x l <-> In x l') ->
  sortN l = sortN l'.
Proof.
  intros Hl Hl' E. apply pps_sortN_unique; [apply pps_sortN_NoDup_SSlt, Hl'|exact Hl|].
  intros x. rewrite RefTheory.sortN_In. symmetry. apply E.
Qed.

Lemma po_sortN_perm l l' : NoDup l' -> Permutation l l' -> sortN l = sortN l'.
Proof.
  intros Hl' Hp. apply po_sortN_set; [|exact Hl'|].
  - exact (Permutation_NoDup (Permutation_sym Hp) Hl').
  - intros x. split; apply Permutation_in; [exact Hp|apply Permutation_sym, Hp].
Qed.

Lemma po_sortN_sorted_id l : SSlt l -> sortN l = l.
Proof.
  intros Hl. apply pps_sortN_unique; [exact Hl|apply pps_SSlt_NoDup, Hl|reflexivity].
Qed.

(** ** the helpers on (position, hash) lists *)
Section HPHelpers.
  Variable H : Type.
  Local Notation hp := (hp H).

  Lemma po_subHP_spec : forall fuel (a : list hp) b, (length a + length b < fuel)%nat ->
    SSlt (map fst a) -> SSle b ->
    subHP fuel a b = filter (fun e => negb (memN (fst e) b)) a.
  Proof.
    induction fuel as [|f IH]; intros a b Hf Ha Hb; [lia|].
    cbn [subHP]. destruct a as [|x a]; [reflexivity|].
    destruct b as [|y b].
    { symmetry. apply po_filter_all. reflexivity. }
    cbn [map] in Ha.
    destruct (po_SS_inv _ _ _ Ha) as [Ha' Hxa]. destruct (po_SS_inv _ _ _ Hb) as [Hb' Hyb].
    assert (Hxa' : forall z, In z a -> fst x < fst z) by (intros z Hz; apply Hxa, in_map, Hz).
    cbn [length] in Hf.
    destruct (N.eqb_spec (fst x) y) as [Exy|Nxy].
    - subst y. cbn [filter memN]. rewrite N.eqb_refl. cbn [orb negb].
      rewrite (IH a b ltac:(lia) Ha' Hb'). apply filter_ext_in. intros z Hz.
      specialize (Hxa' z Hz). destruct (N.eqb_spec (fst z) (fst x)); [lia|reflexivity].
    - destruct (N.ltb_spec (fst x) y) as [Hlt|Hge].
      + cbn [filter]. assert (Em : memN (fst x) (y :: b) = false).
        { apply po_memN_false. intros [E|Hin]; [lia|]. specialize (Hyb _ Hin). lia. }
        rewrite Em. cbn [negb]. f_equal.
        apply (IH a (y :: b)); [cbn [length]; lia|exact Ha'|exact Hb].
      + rewrite (IH (x :: a) b ltac:(cbn [length]; lia) Ha Hb'). apply filter_ext_in. intros z Hz.
        cbn [memN]. assert (y < fst z) by (destruct Hz as [<-|Hz]; [lia|specialize (Hxa' z Hz); lia]).
        destruct (N.eqb_spec (fst z) y); [lia|reflexivity].
  Qed.

  Theorem subtractSortedHashAndPos_spec (a : list hp) b : SSlt (map fst a) -> SSle b ->
    subtractSortedHashAndPos a b = filter (fun e => negb (memN (fst e) b)) a.
  Proof. intros Ha Hb. apply po_subHP_spec; [lia|exact Ha|exact Hb]. Qed.

  Lemma po_subsetHP_spec : forall fuel (a : list hp) b, (length a + length b < fuel)%nat ->
    SSlt (map fst a) -> SSle b ->
    subsetHP fuel a b = filter (fun e => memN (fst e) b) a.
  Proof.
    induction fuel as [|f IH]; intros a b Hf Ha Hb; [lia|].
    cbn [subsetHP]. destruct a as [|x a]; [reflexivity|].
    destruct b as [|y b].
    { symmetry. clear. induction (x :: a) as [|e l IHl]; [reflexivity|exact IHl]. }
    cbn [map] in Ha.
    destruct (po_SS_inv _ _ _ Ha) as [Ha' Hxa]. destruct (po_SS_inv _ _ _ Hb) as [Hb' Hyb].
    assert (Hxa' : forall z, In z a -> fst x < fst z) by (intros z Hz; apply Hxa, in_map, Hz).
    cbn [length] in Hf.
    destruct (N.eqb_spec (fst x) y) as [Exy|Nxy].
    - subst y. cbn [filter memN]. rewrite N.eqb_refl. cbn [orb]. f_equal.
      rewrite (IH a b ltac:(lia) Ha' Hb'). apply filter_ext_in. intros z Hz.
      specialize (Hxa' z Hz). destruct (N.eqb_spec (fst z) (fst x)); [lia|reflexivity].
    - destruct (N.ltb_spec y (fst x)) as [Hlt|Hge].
      + rewrite (IH (x :: a) b ltac:(cbn [length]; lia) Ha Hb'). apply filter_ext_in. intros z Hz.
        cbn [memN]. assert (y < fst z) by (destruct Hz as [<-|Hz]; [lia|specialize (Hxa' z Hz); lia]).
        destruct (N.eqb_spec (fst z) y); [lia|reflexivity].
      + cbn [filter]. assert (Em : memN (fst x) (y :: b) = false).
        { apply po_memN_false. intros [E|Hin]; [lia|]. specialize (Hyb _ Hin). lia. }
        rewrite Em. apply (IH a (y :: b)); [cbn [length]; lia|exact Ha'|exact Hb].
  Qed.

  Theorem getHashAndPosSubset_spec (a : list hp) b : SSlt (map fst a) -> SSle b ->
    getHashAndPosSubset a b = filter (fun e => memN (fst e) b) a.
  Proof. intros Ha Hb. apply po_subsetHP_spec; [lia|exact Ha|exact Hb]. Qed.

  Lemma po_filter_keys_SSlt (f : hp -> bool) (a : list hp) :
    SSlt (map fst a) -> SSlt (map fst (filter f a)).
  Proof.
    induction a as [|x a IH]; intros Ha; [constructor|]. cbn [map] in Ha.
    destruct (po_SS_inv _ _ _ Ha) as [Ha' Hxa]. cbn [filter]. destruct (f x); [|exact (IH Ha')].
    cbn [map]. constructor; [exact (IH Ha')|]. apply Forall_forall. intros z Hz. apply Hxa.
    apply in_map_iff in Hz as (e & <- & He). apply filter_In in He. apply in_map, He.
  Qed.
End HPHelpers.

(** * 1. [ProofPositions] on the positions of distinct leaf nodes: both results *)

Section PPGeo.
  Variable n : N.
  Hypothesis Hn63 : n <= 2 ^ 63.
  Local Notation total := (TreeRows n).
  Local Notation g := (g total).

  (** [cc_pp_positions] with the second component: the proper ancestors, ascending *)
  Lemma po_pp_geo T : pp_valid n total T = true ->
    exists bs ds,
      ProofPositions (sortN (map g T)) n total = (map g bs, map g ds) /\
      SSlt (map g bs) /\ SSlt (map g ds) /\
      (forall s, In s bs <-> exists c, In c (cc_K n T) /\ is_root_c n c = false /\
                                       ~ In (sib c) (cc_K n T) /\ s = sib c) /\
      (forall x, In x ds <-> In x (cc_anc n T)).
  Proof.
    intros Hval. pose proof (cc_c_t63 n Hn63) as Hh. pose proof (cc_c_nle n) as Hn.
    destruct (cc_valid_facts n Hn63 T Hval) as (HK1 & HK2 & HK3 & HK4 & HndT & Hnda).
    unfold cc_K in *. set (anc := cc_anc n T) in *.
    assert (HvT : forall c, In c T -> vld total c).
    { intros c Hc. apply (pps_inf_vld n total Hn), HK1, in_or_app. left. exact Hc. }
    destruct (cc_sortC_spec n T HndT HvT) as [HTs_sorted HTs_mem].
    set (Ts := cc_sortC n T) in *.
    assert (HTK : forall c, In c (Ts ++ anc) <-> In c (T ++ anc)).
    { intros c. rewrite !in_app_iff, HTs_mem. reflexivity. }
    destruct (proof_positions_members n total Ts anc Hh Hn)
      as (bs & ds & Epp & Hbs & Hds & Hbmem & Hdmem).
    { intros c Hc. apply HK1, HTK. exact Hc. }
    { intros c Hc. apply HK2, HTK. exact Hc. }
    { intros c Hc. destruct (HK3 c Hc) as (c' & Hc' & Hr' & E). exists c'.
      split; [apply HTK; exact Hc'|]. split; assumption. }
    { intros c Hc. apply HK4, HTs_mem. exact Hc. }
    { apply pps_clt_map. exact HTs_sorted. }
    assert (ETs : sortN (map g T) = map g Ts).
    { apply pps_sortN_unique.
      - apply pps_clt_map. exact HTs_sorted.
      - apply pps_NoDup_map_on; assumption.
      - intros x. rewrite !in_map_iff. split; intros (c & E & Hc); exists c;
          (split; [exact E|apply HTs_mem; exact Hc]). }
    exists bs, ds. rewrite ETs. split; [exact Epp|]. split; [exact Hbs|]. split; [exact Hds|].
    split; [|exact Hdmem].
    intros s. rewrite Hbmem. split; intros (c & Hc & Hr & Hns & E); exists c.
    - split; [apply HTK; exact Hc|]. split; [exact Hr|]. split; [|exact E].
      intros Hin. apply Hns, HTK. exact Hin.
    - split; [apply HTK; exact Hc|]. split; [exact Hr|]. split; [|exact E].
      intros Hin. apply Hns, HTK. exact Hin.
  Qed.
End PPGeo.

Section RefPP.
  Variable H : Type.
  Variable HO : ops H.
  Variable s : slots H.
  Hypothesis Hn63 : N.of_nat (length s) <= 2 ^ 63.

  Local Notation n := (N.of_nat (length s)).
  Local Notation total := (TreeRows (N.of_nat (length s))).
  Local Notation R := (rows_of (num_leaves s)).
  Local Notation lay := (layout HO s).
  Local Notation g := (g total).

  (** a coordinate of the reference that is a node of the layout *)
  Definition is_node (c : nat * N) : Prop := exists y, In y lay /\ ncrd y = cN c.

  Lemma po_pos_g (c : nat * N) : pos R (fst c) (snd c) = g (cN c).
  Proof. destruct c as [r o]. apply (rf_pos_g H s). Qed.

  Lemma po_is_node_vld c : is_node c -> vld total (cN c).
  Proof. intros (y & Hy & <-). exact (rf_node_vld H HO s y Hy). Qed.

  Lemma po_pos_inj c d : is_node c -> is_node d ->
    pos R (fst c) (snd c) = pos R (fst d) (snd d) -> c = d.
  Proof.
    intros Hc Hd E. rewrite !po_pos_g in E. apply cN_inj.
    exact (pps_g_inj total _ _ (po_is_node_vld c Hc) (po_is_node_vld d Hd) E).
  Qed.

  (** sorted coordinate lists of nodes: strictly ascending keys, the positions of the members *)
  Lemma po_sort_coords_keys (l : list (nat * N)) : NoDup l -> (forall c, In c l -> is_node c) ->
    SSlt (map fst (sort_coords R l)) /\
    (forall p, In p (map fst (sort_coords R l)) <-> exists c, In c l /\ p = pos R (fst c) (snd c)).
  Proof.
    intros Hnd Hnode. split.
    - unfold sort_coords. apply cc_sortK_SSlt. rewrite map_map. cbn [fst].
      apply RefTheory.NoDup_map_inj_on; [exact Hnd|].
      intros c d Hc Hd. apply po_pos_inj; [apply Hnode, Hc|apply Hnode, Hd].
    - intros p. rewrite in_map_iff. split.
      + intros (e & <- & He). apply RefTheory.sort_coords_In in He as (c & Hc & ->). exists c. auto.
      + intros (c & Hc & ->). exists (pos R (fst c) (snd c), c). split; [reflexivity|].
        apply RefTheory.sort_coords_In. exists c. auto.
  Qed.

  Variable tsn : list (node H).
  Hypothesis Hts_lay : forall x, In x tsn -> In x lay.
  Hypothesis Hts_leaf : forall x, In x tsn -> nleaf x = true.
  Hypothesis Hts_nd : NoDup tsn.

  Local Notation T := (map ncrd tsn).
  Local Notation K := (known_set lay tsn).

  Lemma po_known_is_node d : In d K -> is_node d.
  Proof.
    intros Hd. apply (rt_K_node H HO s tsn Hts_lay).
    apply (rt_K H HO s Hn63 tsn Hts_lay). exists d. split; [exact Hd|reflexivity].
  Qed.

  Lemma po_targets_g : map (npos R) tsn = map g T.
  Proof. rewrite map_map. apply map_ext. intros x. apply (rf_npos H s). Qed.

  (** the coordinates of the proper ancestors, as the reference lists them *)
  Definition anc_coords : list (nat * N) :=
    flat_map (fun c => if mem_coord c (map (fun x : node H => (nrow x, noff x)) tsn) then [] else [c]) K.

  Lemma po_anc_coords_In c : In c anc_coords <->
    In c K /\ ~ In c (map (fun x : node H => (nrow x, noff x)) tsn).
  Proof.
    unfold anc_coords. rewrite in_flat_map. split.
    - intros (d & Hd & Hc).
      destruct (mem_coord d (map (fun x : node H => (nrow x, noff x)) tsn)) eqn:E; [destruct Hc|].
      destruct Hc as [<-|[]]. split; [exact Hd|]. apply RefTheory.mem_coord_false, E.
    - intros [Hc Hn]. exists c. split; [exact Hc|].
      apply RefTheory.mem_coord_false in Hn. rewrite Hn. left. reflexivity.
  Qed.

  Lemma po_anc_coords_NoDup : NoDup anc_coords.
  Proof.
    unfold anc_coords. assert (HK : NoDup K) by apply RefTheory.dedup_coord_NoDup.
    induction HK as [|c l Hc Hl IH]; [constructor|]. cbn [flat_map].
    destruct (mem_coord c (map (fun x : node H => (nrow x, noff x)) tsn)); [exact IH|].
    cbn [app]. constructor; [|exact IH]. intros Hin. apply in_flat_map in Hin as (d & Hd & Hin).
    destruct (mem_coord d (map (fun x : node H => (nrow x, noff x)) tsn)); [destruct Hin|].
    destruct Hin as [<-|[]]. exact (Hc Hd).
  Qed.

  (** membership in [cc_anc]: a member of [K] that is no target *)
  Lemma po_cc_anc_In x : In x (cc_anc n T) <-> exists d, In d anc_coords /\ x = cN d.
  Proof.
    pose proof (rt_valid H HO s tsn Hts_lay Hts_leaf Hts_nd) as Hval.
    destruct (cc_valid_facts n Hn63 T Hval) as (_ & _ & _ & HK4 & _ & _).
    split.
    - intros Hx. assert (HxK : In x (cc_K n T)) by (unfold cc_K; apply in_or_app; right; exact Hx).
      apply (rt_K H HO s Hn63 tsn Hts_lay) in HxK as (d & Hd & ->). exists d. split; [|reflexivity].
      apply po_anc_coords_In. split; [exact Hd|]. intros Hin.
      apply in_map_iff in Hin as (y & <- & Hy). apply (HK4 (ncrd y)); [apply in_map, Hy|exact Hx].
    - intros (d & Hd & ->). apply po_anc_coords_In in Hd as [Hd Hn].
      assert (HxK : In (cN d) (cc_K n T)).
      { apply (rt_K H HO s Hn63 tsn Hts_lay). exists d. split; [exact Hd|reflexivity]. }
      unfold cc_K in HxK. apply in_app_or in HxK as [HxT|Hx]; [exfalso|exact Hx].
      apply in_map_iff in HxT as (y & Ey & Hy). apply cN_inj in Ey. apply Hn.
      apply in_map_iff. exists y. split; [exact Ey|exact Hy].
  Qed.

  (** THEOREM.  On the ascending positions of distinct leaf nodes, [ProofPositions] returns the
      canonical proof positions and the computable positions of the reference. *)
  Theorem po_pp_both :
    ProofPositions (sortN (map (npos R) tsn)) n total =
    (canon_proof_pos R lay tsn, computable_pos R lay tsn).
  Proof.
    pose proof (rt_valid H HO s tsn Hts_lay Hts_leaf Hts_nd) as Hval.
    pose proof (rt_canon_pos H HO s Hn63 tsn Hts_lay Hts_leaf Hts_nd) as Ecp.
    rewrite po_targets_g.
    destruct (po_pp_geo n Hn63 T Hval) as (bs & ds & Epp & _ & Hds & _ & Hdmem).
    rewrite Epp in Ecp |- *. cbn [fst] in Ecp. rewrite <- Ecp. f_equal.
    symmetry. unfold computable_pos. fold anc_coords.
    destruct (po_sort_coords_keys anc_coords po_anc_coords_NoDup) as [HS HM].
    { intros c Hc. apply po_anc_coords_In in Hc as [Hc _]. apply po_known_is_node, Hc. }
    apply pps_SSlt_ext; [exact HS|exact Hds|].
    intros p. rewrite HM, in_map_iff. split.
    - intros (c & Hc & ->). exists (cN c). split; [symmetry; apply po_pos_g|].
      apply Hdmem, po_cc_anc_In. exists c. auto.
    - intros (x & <- & Hx). apply Hdmem, po_cc_anc_In in Hx as (d & Hd & ->).
      exists d. split; [exact Hd|]. symmetry. apply po_pos_g.
  Qed.

  Lemma po_canon_pos_SSlt : SSlt (canon_proof_pos R lay tsn).
  Proof.
    unfold canon_proof_pos.
    apply (po_sort_coords_keys (proof_coords lay tsn) (RefTheory.proof_coords_NoDup H lay tsn)).
    intros c Hc. apply RefTheory.proof_coords_In in Hc as (d & Hd & Hr & _ & ->).
    destruct (po_known_is_node d Hd) as (y & Hy & Ey).
    rewrite (rt_is_root_coord H HO s Hn63 tsn Hts_lay d Hd), <- Ey in Hr.
    pose proof (rf_nonroot H HO s y Hy Hr) as Hnr.
    destruct (node_sibling H HO s _ _ y (tnode_in H HO s y Hy) Hnr) as (p & sb & _ & Hsb & _).
    apply tnode_some in Hsb as (Hsb & Esr & Eso). exists sb. split; [exact Hsb|].
    apply cN_inj in Ey. subst d. unfold ncrd, sib_coord. cbn [fst snd]. rewrite Esr, Eso. reflexivity.
  Qed.

  Lemma po_targets_NoDup : NoDup (map (npos R) tsn).
  Proof.
    rewrite po_targets_g. apply pps_NoDup_map_on.
    - exact (rt_T_NoDup H HO s tsn Hts_lay Hts_nd).
    - intros c Hc. apply in_map_iff in Hc as (x & <- & Hx). exact (rf_node_vld H HO s x (Hts_lay x Hx)).
  Qed.
End RefPP.

(** * 2. G1: [GetMissingPositions] *)

Section Missing.
  Variable H : Type.
  Variable HO : ops H.
  Hypothesis HOK : ops_ok HO.
  Variable s : slots H.
  Hypothesis Hn63 : N.of_nat (length s) <= 2 ^ 63.

  Local Notation n := (N.of_nat (length s)).
  Local Notation total := (TreeRows (N.of_nat (length s))).
  Local Notation R := (rows_of (num_leaves s)).
  Local Notation lay := (layout HO s).

  Lemma po_filter_NoDup {A} (f : A -> bool) l : NoDup l -> NoDup (filter f l).
  Proof.
    induction 1 as [|a l Ha Hl IH]; cbn [filter]; [constructor|].
    destruct (f a); [|exact IH]. constructor; [|exact IH]. intros Hin. apply filter_In in Hin.
    apply Ha, Hin.
  Qed.

  (** G1.  Holding the proofs of the live leaves [have] and wishing to prove [want] (each list
      without repetition; the two position lists in ANY order), [GetMissingPositions] returns
      exactly what the oracle expects: the canonical proof positions of [want \ have] that are
      neither held (targets and proof positions of [have]) nor computable from them. *)
  Theorem missing_spec (have want : list H) (th tw : list (node H)) (tH tW : list N) :
    NoDup have -> NoDup want ->
    find_leaves HO lay have = Some th -> find_leaves HO lay want = Some tw ->
    Permutation tH (map (npos R) th) -> Permutation tW (map (npos R) tw) ->
    exp_missing HO (mk_ctx HO s) have want = Some (GetMissingPositionsFn n tH tW).
  Proof.
    intros Hndh Hndw Hth Htw PH PW.
    destruct (cc_find_leaves_facts HO s have th HOK Hndh Hth) as (Lh & Fh & Nh & _ & _).
    destruct (cc_find_leaves_facts HO s want tw HOK Hndw Htw) as (Lw & Fw & Nw & _ & _).
    unfold exp_missing. cbn [mk_ctx clay crows]. rewrite Hth, Htw. f_equal.
    set (hp := map (npos R) th).
    set (tw' := filter (fun x => negb (memN (npos R x) hp)) tw).
    assert (Lw' : forall x, In x tw' -> In x lay)
      by (intros x Hx; apply filter_In in Hx; apply Lw, Hx).
    assert (Fw' : forall x, In x tw' -> nleaf x = true)
      by (intros x Hx; apply filter_In in Hx; apply Fw, Hx).
    assert (Nw' : NoDup tw') by (apply po_filter_NoDup, Nw).
    pose proof (po_targets_NoDup H HO s th Lh Nh) as NDh. fold hp in NDh.
    pose proof (po_targets_NoDup H HO s tw Lw Nw) as NDw.
    pose proof (po_targets_NoDup H HO s tw' Lw' Nw') as NDw'.
    unfold GetMissingPositionsFn.
    rewrite (po_sortN_perm tH hp NDh PH), (po_sortN_perm tW _ NDw PW).
    assert (E2 : subtractSortedSlice (sortN (map (npos R) tw)) (sortN hp)
                 = sortN (map (npos R) tw')).
    { rewrite subtractSortedSlice_spec;
        [|apply pps_sortN_NoDup_SSlt, NDw|apply pps_sortN_sorted].
      symmetry. apply pps_sortN_unique;
        [apply po_filter_SS, pps_sortN_NoDup_SSlt, NDw|exact NDw'|].
      intros x. rewrite filter_In, RefTheory.sortN_In, Bool.negb_true_iff, po_memN_false,
        RefTheory.sortN_In. split.
      - intros [Hx Hn]. apply in_map_iff in Hx as (y & <- & Hy). apply in_map, filter_In.
        split; [exact Hy|]. apply Bool.negb_true_iff, po_memN_false, Hn.
      - intros Hx. apply in_map_iff in Hx as (y & <- & Hy). apply filter_In in Hy as [Hy Hm].
        split; [apply in_map, Hy|]. apply po_memN_false, Bool.negb_true_iff, Hm. }
    rewrite E2. clear E2.
    destruct (sortN (map (npos R) tw')) as [|a l] eqn:Edes.
    - assert (Etw : tw' = []).
      { pose proof (pps_sortN_perm (map (npos R) tw')) as P. rewrite Edes in P.
        apply Permutation_nil in P. apply map_eq_nil in P. exact P. }
      rewrite Etw. reflexivity.
    - rewrite <- Edes. clear a l Edes. rewrite !ProofPositions_fast_eq.
      rewrite (po_pp_both H HO s Hn63 tw' Lw' Fw' Nw'). unfold hp.
      rewrite (po_pp_both H HO s Hn63 th Lh Fh Nh). cbv beta iota. fold hp.
      rewrite subtractSortedSlice_spec;
        [|apply (po_canon_pos_SSlt H HO s Hn63 tw' Lw')|apply pps_sortN_sorted].
      apply filter_ext. intros p. f_equal. apply po_memN_ext. intros y.
      rewrite RefTheory.sortN_In, !in_app_iff, RefTheory.sortN_In. tauto.
  Qed.

  (** the same, in terms of the live leaf hashes only *)
  Corollary missing_spec_live (have want : list H) :
    NoDup have -> NoDup want ->
    (forall h, In h have -> In (Some h) s) -> (forall h, In h want -> In (Some h) s) ->
    exists th tw,
      find_leaves HO lay have = Some th /\ find_leaves HO lay want = Some tw /\
      forall tH tW, Permutation tH (map (npos R) th) -> Permutation tW (map (npos R) tw) ->
        exp_missing HO (mk_ctx HO s) have want = Some (GetMissingPositionsFn n tH tW).
  Proof.
    intros Hndh Hndw Hlh Hlw.
    assert (Hex : forall l, (forall h, In h l -> In (Some h) s) ->
                   exists ts, find_leaves HO lay l = Some ts).
    { induction l as [|h l IH]; intros Hl; [eexists; reflexivity|]. cbn [find_leaves].
      destruct (proj1 (find_leaf_live H HO s h HOK) (Hl h (or_introl eq_refl))) as (x & Ex & _).
      rewrite Ex. destruct IH as [ts Ets]; [intros k Hk; apply Hl; right; exact Hk|].
      rewrite Ets. eexists; reflexivity. }
    destruct (Hex have Hlh) as [th Hth]. destruct (Hex want Hlw) as [tw Htw].
    exists th, tw. split; [exact Hth|]. split; [exact Htw|]. intros tH tW PH PW.
    exact (missing_spec have want th tw tH tW Hndh Hndw Hth Htw PH PW).
  Qed.
End Missing.

Print Assumptions missing_spec.
