(** The TTL generation of the caching-schedule tracker (property C15): the mirror [Model.TTL]
    ([ttl_add_block_summary] = [AddBlockSummary], [ttl_gen] = [genTTLs]) against the TTL facts of the slot
    history ([Spec.Schedule.exp_ttls]).

    The statement ([ttl_correct], section 0): for a history of blocks fed to the tracker as harness/c15.go
    feeds it - per block the targets of the deletions as the prover emits them and the number of
    additions - [genTTLs] returns EXACTLY [exp_ttls]: for every block the leaves added there and deleted
    in a later recorded block, ascending by insertion slot, with ttl = deleted block - added block.  No
    canonical re-ordering is needed (the TTLS event of the oracle sorts both sides; the mirror shows that
    Go's append order already is the ascending order).  [ttl_statement] quantifies it over every valid
    history from the empty accumulator with at most 2^62 leaves.

    What is established here
    - T0  [ttl_statement] as an executable check [ttl_check] ([ttl_check_correct]); evaluated in the free
          hash algebra on EVERY history of at most 4 blocks with at most 2 additions per block (6,031),
          of at most 3 blocks / 3 additions (2,465), of at most 6 blocks / 1 addition (5,913), and on the
          640 + 4,096 histories "add n; delete any subset and add k; delete everything" for n = 7, 10
          (whole trees emptied and overwritten by the additions of the same block): no difference;
    - T1  [add_block_summary_total], [ttl_summaries_total]: [AddBlockSummary] never panics, for ANY
          targets and any number of additions below 2^64 leaves, and keeps the shape [tracker_wf]
          (parallel slices; as many root infos as the leaf count has one bits);
    - T2  [ttl_gen_shape]: for ANY tracker state on which [genTTLs] does not panic the result has one
          list per block and every ttl is at least 1 (the first half of [Model.Evict.ttl_ok], the
          precondition of the eviction-loop theorems of Proofs/EvictInv.v);
    - T3  [ttl_correct_no_deletions]: [ttl_correct] for EVERY history without deletions (any number of
          blocks and additions): [genTTLs] returns no ttl at all, as does [exp_ttls];
    - T4  [exp_ttls_char] (section 4): the TTL facts of ANY list of blocks in closed form - per block, for
          each added leaf that a later block deletes, its slot and 1 + the number of blocks in between;
    - T5  [ttl_correct_from_components] (section 5): the backward walk of [genTTLs] - the pending list
          ([pend_inv]: the positions the loop tracks after block j are the 63-row positions, in the
          forest after block j, of exactly the leaves alive there that a later block deletes, each with
          its deletion block) - reduces [ttl_correct] for every valid history to three components, each
          stated on the reference forest and decided by computation on small cases
          ([ttl_tracker_small], [ttl_undo_add_small]: 10,920 cases, [ttl_undo_del_small]: 10,922 cases):
          (A) [tracker_spec] - what [AddBlockSummary] records, (B) [undo_add_spec] - [undoAdd] on
          positions, (C) [undo_del_spec] - [undoDel] on positions.
    The three components are proved in Proofs/TTLTracker.v (A), Proofs/TTLUndoAdd.v (B) and
    Proofs/TTLUndoDel.v (C); [TTLTracker.ttl_statement_holds] concludes [ttl_statement]. *)
From Utreexo Require Import Base.Hash Base.Bits64 Model.Utils Model.ProofUpdate Model.TTL
  Spec.Forest Spec.Oracle Spec.Schedule Spec.Term Proofs.SpecBasics Proofs.UtilsGeom Proofs.UtilsGeom2
  Proofs.LayoutStruct Proofs.ProofPosSpec Proofs.CalcSound Proofs.StumpUpdate.
From Coq Require Import List Arith PeanoNat NArith ZArith Lia ZifyNat ZifyN ZifyBool Sorted Permutation.
Import ListNotations.
Open Scope N_scope.

(** * 0. The statement *)
Section Statement.
  Variable H : Type.
  Variable HO : ops H.

  (** the summaries a history feeds to the tracker (harness/c15.go): the targets of the deletions as
      the prover emits them - their positions in the forest before the block, in request order - and
      the number of additions *)
  Fixpoint hist_summaries (s : slots H) (blocks : list (list H * list H)) : option (list (list N * N)) :=
    match blocks with
    | [] => Some []
    | (dels, adds) :: rest =>
        match exp_prove HO (mk_ctx HO s) dels, hist_summaries (apply_block HO s dels adds) rest with
        | Some (ts, _), Some r => Some ((ts, N.of_nat (length adds)) :: r)
        | _, _ => None
        end
    end.

  (** [Spec.Schedule.exp_ttls] with the ttl as a [Z] *)
  Definition exp_ttls_z (blocks : list (list H * list H)) : list (list (N * Z)) :=
    map (map (fun e => (fst e, Z.of_N (snd e)))) (exp_ttls HO blocks).

  (** the statement for one history: [AddBlockSummary] per block, then [genTTLs], gives exactly the TTL
      facts of the slot history - per block the leaves added there and deleted in a later recorded
      block, ASCENDING by insertion slot (no canonicalisation is needed: this is the order in which
      [genTTLs] appends them), each with deleted block - added block *)
  Definition ttl_correct (blocks : list (list H * list H)) : Prop :=
    exists sm, hist_summaries [] blocks = Some sm /\ ttl_run sm = Some (exp_ttls_z blocks).

  Definition entry_eqb (a b : N * Z) : bool := (fst a =? fst b) && Z.eqb (snd a) (snd b).
  Fixpoint leqb {A} (eqb : A -> A -> bool) (a b : list A) : bool :=
    match a, b with
    | [], [] => true
    | x :: a', y :: b' => eqb x y && leqb eqb a' b'
    | _, _ => false
    end.
  Definition ttl_check (blocks : list (list H * list H)) : bool :=
    match hist_summaries [] blocks with
    | None => false
    | Some sm =>
        match ttl_run sm with
        | None => false
        | Some t => leqb (leqb entry_eqb) t (exp_ttls_z blocks)
        end
    end.

  Lemma leqb_eq {A} (eqb : A -> A -> bool) : (forall x y, eqb x y = true -> x = y) ->
    forall a b, leqb eqb a b = true -> a = b.
  Proof.
    intros He. induction a as [|x a IH]; intros [|y b] E; cbn [leqb] in E; try discriminate; [reflexivity|].
    apply andb_true_iff in E as [E1 E2]. f_equal; [apply He, E1|apply IH, E2].
  Qed.

  Lemma ttl_check_correct blocks : ttl_check blocks = true -> ttl_correct blocks.
  Proof.
    unfold ttl_check, ttl_correct. destruct (hist_summaries [] blocks) as [sm|]; [|discriminate].
    destruct (ttl_run sm) as [t|] eqn:Et; [|discriminate]. intros E. exists sm. split; [reflexivity|].
    rewrite Et. f_equal.
    revert E. apply leqb_eq. apply leqb_eq. intros [p v] [q w]. unfold entry_eqb. cbn [fst snd].
    intros E. apply andb_true_iff in E as [E1 E2]. apply N.eqb_eq in E1. apply Z.eqb_eq in E2. congruence.
  Qed.

End Statement.

(** the statement: every valid history from the empty accumulator.  The bound is 2^62, not the 2^63 of
    [CSTTotalRows]: beyond 2^62 leaves [LeftChild] of a row-0 position in 63-row coordinates wraps into
    row 1, and the probe [slices.Index(toDestroy, possibleRoot)] of the last iteration of
    [undoSingleAdd] can then hit a genuine destroyed root (around 2^62.4 leaves). *)
Definition ttl_statement : Prop :=
  forall (H : Type) (HO : ops H), ops_ok HO ->
  forall blocks : list (list H * list H),
    valid_hist H HO [] blocks -> N.of_nat (total_adds H blocks) <= 2 ^ 62 -> ttl_correct H HO blocks.

(** ** T0: the statement decided by computation on small histories *)

Fixpoint tt_sublists {A} (l : list A) : list (list A) :=
  match l with [] => [[]] | x :: t => let r := tt_sublists t in map (cons x) r ++ r end.
Fixpoint tt_seqN (a : N) (k : nat) : list N := match k with O => [] | S j => a :: tt_seqN (a + 1) j end.

(** every history of at most [depth] blocks: any subset of the live leaves deleted, 0..[maxadd] fresh
    leaves added *)
Fixpoint tt_hists (depth maxadd : nat) (s : slots term) (next : N) : list (list (list term * list term)) :=
  [] ::
  match depth with
  | O => []
  | S d =>
      flat_map (fun dels =>
        flat_map (fun k =>
          let adds := map Atom (tt_seqN next k) in
          map (cons (dels, adds)) (tt_hists d maxadd (apply_block term_ops s dels adds) (next + N.of_nat k)))
          (seq 0 (S maxadd)))
        (tt_sublists (live s))
  end.

(** add [n] leaves; delete any subset and add 0..[maxadd]; delete everything that is left, newest first *)
Definition tt_wipe (n maxadd : nat) : list (list (list term * list term)) :=
  let s0 := map Atom (tt_seqN 1 n) in
  flat_map (fun dels =>
    map (fun k =>
      let adds := map Atom (tt_seqN (N.of_nat n + 1) k) in
      let s2 := apply_block term_ops (map Some s0) dels adds in
      [([], s0); (dels, adds); (rev (live s2), [])]) (seq 0 (S maxadd)))
    (tt_sublists s0).

Example ttl_t0_4_2 : N.of_nat (length (tt_hists 4 2 [] 1)) = 6031 /\
  forallb (ttl_check term term_ops) (tt_hists 4 2 [] 1) = true.
Proof. split; vm_compute; reflexivity. Qed.
Example ttl_t0_3_3 : N.of_nat (length (tt_hists 3 3 [] 1)) = 2465 /\
  forallb (ttl_check term term_ops) (tt_hists 3 3 [] 1) = true.
Proof. split; vm_compute; reflexivity. Qed.
Example ttl_t0_6_1 : N.of_nat (length (tt_hists 6 1 [] 1)) = 5913 /\
  forallb (ttl_check term term_ops) (tt_hists 6 1 [] 1) = true.
Proof. split; vm_compute; reflexivity. Qed.
Example ttl_t0_wipe_7 : N.of_nat (length (tt_wipe 7 4)) = 640 /\
  forallb (ttl_check term term_ops) (tt_wipe 7 4) = true.
Proof. split; vm_compute; reflexivity. Qed.
Example ttl_t0_wipe_10 : N.of_nat (length (tt_wipe 10 3)) = 4096 /\
  forallb (ttl_check term term_ops) (tt_wipe 10 3) = true.
Proof. split; vm_compute; reflexivity. Qed.

(** an instance: four leaves that die in a different order than they were added, a leaf added later;
    targets as the prover emits them (request order, the coordinates of the forest before the block) *)
Example ttl_ex_order :
  let h := [([], map Atom [1; 2; 3; 4]); ([Atom 3], [Atom 5]); ([Atom 1], []); ([Atom 4; Atom 2; Atom 5], [])] in
  hist_summaries term term_ops [] h = Some [([], 4); ([2], 1); ([0], 0); ([9; 8; 4], 0)] /\
  ttl_run [([], 4); ([2], 1); ([0], 0); ([9; 8; 4], 0)]
  = Some [[(0, 2%Z); (1, 3%Z); (2, 1%Z); (3, 3%Z)]; [(4, 2%Z)]; []; []] /\
  exp_ttls_z term term_ops h = [[(0, 2%Z); (1, 3%Z); (2, 1%Z); (3, 3%Z)]; [(4, 2%Z)]; []; []].
Proof. cbv zeta. split; [|split]; vm_compute; reflexivity. Qed.

(** * 1. [AddBlockSummary] never panics *)

Lemma popcount_shift x (h : nat) : popcount (x * 2 ^ N.of_nat h) = popcount x.
Proof.
  induction h as [|h IH]; [rewrite N.mul_1_r; reflexivity|].
  rewrite Nat2N.inj_succ, N.pow_succ_r', (N.mul_comm 2), N.mul_assoc, N.mul_comm, popcount_double. exact IH.
Qed.

Lemma land1_mod2 q : and64 q 1 = q mod 2.
Proof. unfold and64. change 1 with (N.ones 1). rewrite N.land_ones. reflexivity. Qed.

(** the number of entries the inner loops pop: the trailing ones of [n] from bit [h] on *)
Fixpoint pops (fuel : nat) (n h : N) (st : list rootInfo) : option (list rootInfo) :=
  match fuel with
  | O => Some st
  | S f =>
      if and64 (shr n h) 1 =? 1 then
        match st with [] => None | _ :: st' => pops f n (add8 h 1) st' end
      else Some st
  end.

Lemma ritd_inner_pops fuel total n : forall h st del,
  match pops fuel n h st with
  | None => ritd_inner fuel total n h st del = None
  | Some st' => exists del', ritd_inner fuel total n h st del = Some (st', del')
  end.
Proof.
  induction fuel as [|f IH]; intros h st del; cbn [pops ritd_inner]; [eexists; reflexivity|].
  destruct (and64 (shr n h) 1 =? 1); [|eexists; reflexivity].
  destruct st as [|r st]; [reflexivity|]. apply IH.
Qed.

Lemma ari_inner_pops fuel total n : forall h pos st,
  match pops fuel n h st with
  | None => ari_inner fuel total n h pos st = None
  | Some st' => exists pos', ari_inner fuel total n h pos st = Some (st', pos')
  end.
Proof.
  induction fuel as [|f IH]; intros h pos st; cbn [pops ari_inner]; [eexists; reflexivity|].
  destruct (and64 (shr n h) 1 =? 1); [|eexists; reflexivity].
  destruct st as [|r st]; [reflexivity|]. apply IH.
Qed.

Lemma pops_ok n : n < 2 ^ 64 -> forall fuel (h : nat) st, (h + fuel = 65)%nat ->
  n = N.shiftr n (N.of_nat h) * 2 ^ N.of_nat h + (2 ^ N.of_nat h - 1) ->
  N.of_nat (length st) = popcount (N.shiftr n (N.of_nat h)) ->
  exists st', pops fuel n (N.of_nat h) st = Some st' /\ N.of_nat (S (length st')) = popcount (n + 1).
Proof.
  intros Hn. induction fuel as [|f IH]; intros h st Hf Hlow Hlen.
  - exfalso. assert (h = 65%nat) by lia. subst h.
    assert (2 ^ 64 < 2 ^ N.of_nat 65) by (apply N.pow_lt_mono_r; lia). lia.
  - cbn [pops]. unfold shr. rewrite land1_mod2.
    set (q := N.shiftr n (N.of_nat h)) in *.
    pose proof (N.mod_lt q 2 ltac:(lia)) as Hm. pose proof (N.div_mod' q 2) as Hdm.
    assert (Esh : N.shiftr n (N.of_nat (S h)) = q / 2).
    { unfold q. rewrite Nat2N.inj_succ, <- N.add_1_r, <- N.shiftr_shiftr, (N.shiftr_div_pow2 _ 1). reflexivity. }
    destruct (N.eqb_spec (q mod 2) 1) as [E1|E0].
    + assert (Eq : q = 2 * (q / 2) + 1) by lia.
      assert (Hpc : popcount q = 1 + popcount (q / 2)) by (rewrite Eq at 1; apply popcount_double1).
      destruct st as [|r st]; [cbn [length] in Hlen; lia|].
      assert (Hh : N.of_nat h < 255) by lia.
      rewrite add8_small by lia. replace (N.of_nat h + 1) with (N.of_nat (S h)) by lia.
      apply IH; [lia| |rewrite Esh; cbn [length] in Hlen; lia].
      rewrite Esh. rewrite Nat2N.inj_succ, N.pow_succ_r'. rewrite Hlow at 1. rewrite Eq at 1. lia.
    + assert (Eq : q = 2 * (q / 2)) by lia.
      exists st. split; [reflexivity|].
      assert (En : n + 1 = (q + 1) * 2 ^ N.of_nat h).
      { pose proof (N.pow_nonzero 2 (N.of_nat h) ltac:(lia)). lia. }
      rewrite En, popcount_shift. rewrite Eq at 1. rewrite popcount_double1.
      rewrite Nat2N.inj_succ, Hlen. rewrite Eq at 1. rewrite popcount_double. lia.
Qed.

Lemma pops_ok0 n st : n < 2 ^ 64 -> N.of_nat (length st) = popcount n ->
  exists st', pops 65 n 0 st = Some st' /\ N.of_nat (S (length st')) = popcount (n + 1).
Proof.
  intros Hn Hl. apply (pops_ok n Hn 65 0%nat st); [reflexivity| |exact Hl].
  change (N.of_nat 0) with 0. rewrite N.shiftr_0_r. change (2 ^ 0) with 1. lia.
Qed.

Lemma ritd_loop_ok total : forall k n st del, n + N.of_nat k < 2 ^ 64 ->
  N.of_nat (length st) = popcount n -> exists l, ritd_loop k total n st del = Some l.
Proof.
  induction k as [|k IH]; intros n st del Hn Hl; cbn [ritd_loop]; [eexists; reflexivity|].
  destruct (pops_ok0 n st ltac:(lia) Hl) as (st' & Ep & Hl').
  pose proof (ritd_inner_pops 65 total n 0 st del) as Hr. rewrite Ep in Hr. destruct Hr as [del' ->].
  unfold add64. rewrite wrap_small by (rewrite W_pow; lia).
  apply IH; [lia|cbn [length]; exact Hl'].
Qed.

Lemma ari_loop_ok total : forall k n st, n + N.of_nat k < 2 ^ 64 ->
  N.of_nat (length st) = popcount n ->
  exists rs, ari_loop k total n st = Some (rs, n + N.of_nat k) /\
             N.of_nat (length rs) = popcount (n + N.of_nat k).
Proof.
  induction k as [|k IH]; intros n st Hn Hl; cbn [ari_loop].
  - exists (rev st). rewrite N.add_0_r, rev_length. auto.
  - destruct (pops_ok0 n st ltac:(lia) Hl) as (st' & Ep & Hl').
    pose proof (ari_inner_pops 65 total n 0 n st) as Hr. rewrite Ep in Hr. destruct Hr as [pos' ->].
    unfold add64. rewrite wrap_small by (rewrite W_pow; lia).
    destruct (IH (n + 1) (mkRI pos' false :: st') ltac:(lia) Hl') as (rs & E & Hrs).
    exists rs. replace (n + N.of_nat (S k)) with (n + 1 + N.of_nat k) by lia. auto.
Qed.

Lemma delRootInfo_length total roots targets : length (delRootInfo total roots targets) = length roots.
Proof.
  unfold delRootInfo. destruct targets as [|t ts]; [reflexivity|].
  generalize (deTwin (sortN (t :: ts)) total). intros l. revert roots.
  induction l as [|p l IH]; intros roots; cbn [fold_left]; [reflexivity|].
  rewrite IH, map_length. reflexivity.
Qed.

(** the shape of a tracker that [AddBlockSummary] built: parallel slices, and as many root infos as
    the leaf count has one bits *)
Record tracker_wf (cs : tracker) : Prop := mkWF {
  wf_na : length (cs_numAdds cs) = length (cs_deletions cs);
  wf_nl : length (cs_numLeaves cs) = length (cs_deletions cs);
  wf_td : length (cs_toDestroy cs) = length (cs_deletions cs);
  wf_rs : Forall2 (fun n rs => N.of_nat (length rs) = popcount n /\ n < 2 ^ 64)
                  (cs_numLeaves cs) (cs_roots cs)
}.

Lemma Forall2_snoc {A B} (P : A -> B -> Prop) l1 l2 a b :
  Forall2 P l1 l2 -> P a b -> Forall2 P (l1 ++ [a]) (l2 ++ [b]).
Proof. intros F Pab. apply Forall2_app; [exact F|constructor; [exact Pab|constructor]]. Qed.

Lemma Forall2_last {A B} (P : A -> B -> Prop) l1 l2 da db :
  Forall2 P l1 l2 -> l2 <> [] -> P (last l1 da) (last l2 db).
Proof.
  induction 1 as [|a b l1 l2 Pab F IH]; intros Hne; [contradiction|].
  destruct F as [|a' b' l1' l2' Pab' F']; [exact Pab|]. apply IH. discriminate.
Qed.

Lemma ttl_empty_wf : tracker_wf ttl_empty.
Proof. constructor; try reflexivity. constructor. Qed.

Lemma wf_snoc cs d na nl td rs : tracker_wf cs ->
  N.of_nat (length rs) = popcount nl -> nl < 2 ^ 64 ->
  tracker_wf (mkTracker (cs_deletions cs ++ [d]) (cs_numAdds cs ++ [na]) (cs_numLeaves cs ++ [nl])
                        (cs_toDestroy cs ++ [td]) (cs_roots cs ++ [rs])).
Proof.
  intros [W1 W2 W3 W4] Hl Hn.
  constructor; cbn [cs_numLeaves cs_numAdds cs_deletions cs_toDestroy cs_roots];
    rewrite ?app_length; cbn [length]; try lia.
  apply Forall2_snoc; [exact W4|split; assumption].
Qed.

(** [AddBlockSummary] on a well-shaped tracker: no panic, the shape is kept, the leaf count grows by
    [numAdds] - for ANY deletion targets *)
Theorem add_block_summary_total cs dels numAdds :
  tracker_wf cs -> last (cs_numLeaves cs) 0 + numAdds < 2 ^ 64 ->
  exists cs', ttl_add_block_summary cs dels numAdds = Some cs' /\ tracker_wf cs' /\
    cs_numLeaves cs' = cs_numLeaves cs ++ [last (cs_numLeaves cs) 0 + numAdds] /\
    cs_numAdds cs' = cs_numAdds cs ++ [numAdds] /\
    length (cs_deletions cs') = S (length (cs_deletions cs)).
Proof.
  intros W Hb. pose proof W as [W1 W2 W3 W4]. unfold ttl_add_block_summary.
  destruct cs as [ds nas nls tds rss]. cbn [cs_numLeaves cs_numAdds cs_deletions cs_toDestroy cs_roots] in *.
  destruct rss as [|r0 rs0].
  - (* first block *)
    assert (Enl : nls = []) by (inversion W4; reflexivity). subst nls.
    cbn [last] in Hb.
    unfold addRootInfo. cbn [rev].
    destruct (ari_loop_ok CSTTotalRows (N.to_nat numAdds) 0 [] ltac:(lia) eq_refl) as (rs & E & Hl).
    rewrite N2Nat.id in E, Hl. rewrite E. cbn [N.add] in *.
    eexists. split; [reflexivity|].
    split; [apply (wf_snoc (mkTracker ds nas [] tds [])); [exact W|exact Hl|lia]|].
    cbn [cs_numLeaves cs_numAdds cs_deletions last N.add].
    split; [reflexivity|split; [reflexivity|rewrite app_length; cbn [length]; lia]].
  - assert (Hne : r0 :: rs0 <> []) by discriminate.
    pose proof (Forall2_last _ _ _ 0 [] W4 Hne) as [Hl Hn]. cbv beta in Hl, Hn.
    set (n := last nls 0) in *. set (roots := last (r0 :: rs0) []) in *.
    set (tdels := translatePositions dels (TreeRows n) CSTTotalRows).
    set (roots1 := delRootInfo CSTTotalRows roots tdels).
    assert (Hl1 : N.of_nat (length roots1) = popcount n)
      by (unfold roots1; rewrite delRootInfo_length; exact Hl).
    assert (Etd : exists td, rootInfoToDestroy CSTTotalRows numAdds n roots1 = Some td).
    { unfold rootInfoToDestroy. destruct (existsb ri_zombie roots1); [|eexists; reflexivity].
      apply ritd_loop_ok; [rewrite N2Nat.id; exact Hb|rewrite rev_length; exact Hl1]. }
    destruct Etd as [td ->].
    unfold addRootInfo.
    destruct (ari_loop_ok CSTTotalRows (N.to_nat numAdds) n (rev roots1)
                ltac:(rewrite N2Nat.id; exact Hb) ltac:(rewrite rev_length; exact Hl1)) as (rs & E & Hrs).
    rewrite N2Nat.id in E, Hrs. rewrite E.
    eexists. split; [reflexivity|].
    split; [apply (wf_snoc (mkTracker ds nas nls tds (r0 :: rs0))); [exact W|exact Hrs|exact Hb]|].
    cbn [cs_numLeaves cs_numAdds cs_deletions].
    split; [reflexivity|split; [reflexivity|rewrite app_length; cbn [length]; lia]].
Qed.

(** the leaf count after a list of summaries *)
Fixpoint sum_adds (hist : list (list N * N)) : N :=
  match hist with [] => 0 | b :: rest => snd b + sum_adds rest end.

Theorem ttl_summaries_total : forall hist cs, tracker_wf cs ->
  last (cs_numLeaves cs) 0 + sum_adds hist < 2 ^ 64 ->
  exists cs', ttl_summaries cs hist = Some cs' /\ tracker_wf cs' /\
    length (cs_deletions cs') = (length (cs_deletions cs) + length hist)%nat /\
    last (cs_numLeaves cs') 0 = last (cs_numLeaves cs) 0 + sum_adds hist.
Proof.
  induction hist as [|[dels na] hist IH]; intros cs W Hb; cbn [ttl_summaries sum_adds snd] in *.
  - exists cs. rewrite Nat.add_0_r, N.add_0_r. auto.
  - destruct (add_block_summary_total cs dels na W ltac:(lia)) as (cs1 & -> & W1 & Enl & _ & El).
    assert (Elast : last (cs_numLeaves cs1) 0 = last (cs_numLeaves cs) 0 + na)
      by (rewrite Enl, last_last; reflexivity).
    destruct (IH cs1 W1 ltac:(rewrite Elast; lia)) as (cs' & E & W' & El' & En').
    exists cs'. split; [exact E|]. split; [exact W'|]. cbn [length]. split; [lia|]. rewrite En', Elast. lia.
Qed.

(** * 2. What [genTTLs] returns for ANY tracker: one list per block, every ttl at least 1 *)

Definition ttl_pos (e : N * Z) : Prop := (1 <= snd e)%Z.

Lemma set_ttls_pos i cached xy : Forall (fun d => (i < d)%nat) xy -> forall cr t,
  set_ttls i cached xy cr = Some t -> Forall ttl_pos t.
Proof.
  intros Hxy. induction cr as [|idx cr IH]; intros t E; cbn [set_ttls] in E.
  - injection E as <-. constructor.
  - destruct (nth_error xy idx) as [d|] eqn:Ed; [|discriminate].
    destruct (nth_error cached idx) as [p|]; [|discriminate].
    destruct (set_ttls i cached xy cr) as [r|]; [|discriminate]. injection E as <-.
    constructor; [|apply IH; reflexivity].
    apply nth_error_In in Ed. rewrite Forall_forall in Hxy. specialize (Hxy d Ed).
    unfold ttl_pos. cbn [snd]. lia.
Qed.

Lemma delete_at_incl {A} k (l : list A) : incl (delete_at k l) l.
Proof.
  unfold delete_at. intros x Hx. apply in_app_or in Hx as [Hx|Hx].
  - rewrite <- (firstn_skipn k l). apply in_or_app. left. exact Hx.
  - rewrite <- (firstn_skipn (S k) l). apply in_or_app. right. exact Hx.
Qed.

Lemma remove_created_incl : forall sorted k cached xy c' xy',
  remove_created k sorted cached xy = Some (c', xy') -> incl xy' xy.
Proof.
  induction sorted as [|idx sorted IH]; intros k cached xy c' xy' E; cbn [remove_created] in E.
  - injection E as <- <-. apply incl_refl.
  - destruct (Nat.ltb idx k); [discriminate|].
    destruct (_ && _); [|discriminate].
    apply IH in E. eapply incl_tran; [exact E|apply delete_at_incl].
Qed.

Lemma gen_step_xy i b cached xy t c' xy' : Forall (fun d => (i < d)%nat) xy ->
  gen_step i b cached xy = Some (t, c', xy') ->
  Forall ttl_pos t /\ Forall (fun d => (i <= d)%nat) xy'.
Proof.
  intros Hxy E. unfold gen_step in E.
  destruct (undoAddPos _ _ _ _ _) as [cached1 created].
  destruct (set_ttls i cached1 xy (rev created)) as [ttls|] eqn:Es; [|discriminate].
  destruct (remove_created 0 (sortNat created) cached1 xy) as [[cached2 xy2]|] eqn:Er; [|discriminate].
  injection E as <- <- <-. split; [eapply set_ttls_pos; eassumption|].
  apply Forall_app. split.
  - apply remove_created_incl in Er. rewrite Forall_forall in *. intros d Hd. specialize (Hxy d (Er d Hd)). lia.
  - rewrite Forall_forall. intros d Hd. apply in_map_iff in Hd as (_ & <- & _). lia.
Qed.

Lemma gen_loop_shape : forall blocks_rev cached xy acc t,
  Forall (fun d => (length blocks_rev <= d)%nat) xy -> Forall (Forall ttl_pos) acc ->
  gen_loop blocks_rev cached xy acc = Some t ->
  length t = (length blocks_rev + length acc)%nat /\ Forall (Forall ttl_pos) t.
Proof.
  induction blocks_rev as [|b rest IH]; intros cached xy acc t Hxy Hacc E; cbn [gen_loop] in E.
  - injection E as <-. auto.
  - destruct (gen_step (length rest) b cached xy) as [[[ttls c'] xy']|] eqn:Es; [|discriminate].
    apply gen_step_xy in Es as [Ht Hxy'].
    2:{ rewrite Forall_forall in *. intros d Hd. specialize (Hxy d Hd). cbn [length] in Hxy. lia. }
    apply IH in E; [|exact Hxy'|constructor; assumption].
    cbn [length] in *. destruct E as [El Hf]. split; [lia|exact Hf].
Qed.

Lemma zip_blocks_length : forall ds na nl td, length na = length ds -> length nl = length ds ->
  length td = length ds -> length (zip_blocks ds na nl td) = length ds.
Proof.
  induction ds as [|d ds IH]; intros [|a na] [|l nl] [|t td]; cbn [length zip_blocks]; try discriminate; try reflexivity.
  intros H1 H2 H3. f_equal. apply IH; lia.
Qed.

(** for ANY tracker state on which [genTTLs] does not panic: one ttl list per block, every ttl >= 1
    (the first half of [Model.Evict.ttl_ok]) *)
Theorem ttl_gen_shape cs t : ttl_gen cs = Some t ->
  length t = length (cs_deletions cs) /\ Forall (Forall ttl_pos) t.
Proof.
  unfold ttl_gen. intros E.
  destruct (Nat.eqb_spec (length (cs_numAdds cs)) (length (cs_deletions cs))) as [E1|]; [|discriminate].
  destruct (Nat.eqb_spec (length (cs_numLeaves cs)) (length (cs_deletions cs))) as [E2|]; [|discriminate].
  destruct (Nat.eqb_spec (length (cs_toDestroy cs)) (length (cs_deletions cs))) as [E3|]; [|discriminate].
  cbn [andb] in E. apply gen_loop_shape in E; [|constructor|constructor].
  rewrite rev_length in E. unfold tracker_blocks in E. rewrite zip_blocks_length in E by assumption.
  cbn [length] in E. rewrite Nat.add_0_r in E. exact E.
Qed.

(** * 3. Histories without deletions *)

Lemma usa_loop_nil : forall fuel total pos td r,
  exists td', usa_loop fuel total pos [] td r = ([], td', r).
Proof.
  induction fuel as [|f IH]; intros total pos td r; cbn [usa_loop]; [eexists; reflexivity|].
  destruct (indexN (LeftChild pos total) td) as [k|]; cbn [moveDownPositionsN map indexN];
    (destruct f; apply IH).
Qed.

Lemma undoAdd_loop_nil : forall k total td n cr,
  undoAdd_loop k total [] td n cr = ([], rev cr).
Proof.
  induction k as [|k IH]; intros total td n cr; cbn [undoAdd_loop]; [reflexivity|].
  unfold undoSingleAdd.
  destruct (usa_loop_nil (S (N.to_nat (subtreeRow n (subtree_of (sub64 n 1) n)))) total
              (rootPosition n (subtreeRow n (subtree_of (sub64 n 1) n)) total) td None) as [td' ->].
  apply IH.
Qed.

Lemma gen_loop_no_dels : forall blocks_rev acc,
  Forall (fun b => bs_deletions b = []) blocks_rev ->
  gen_loop blocks_rev [] [] acc = Some (repeat [] (length blocks_rev) ++ acc).
Proof.
  induction blocks_rev as [|b rest IH]; intros acc Hb; cbn [gen_loop]; [reflexivity|].
  inversion Hb as [|? ? Eb Hr]; subst.
  unfold gen_step, undoAddPos. rewrite undoAdd_loop_nil. cbn [rev set_ttls sortNat fold_right remove_created].
  rewrite Eb. cbn [undoDelPos app map]. rewrite IH by exact Hr.
  cbn [length repeat]. f_equal. change ([] :: acc) with ([[]] ++ acc). rewrite app_assoc.
  rewrite <- repeat_cons. reflexivity.
Qed.

Lemma zip_blocks_no_dels : forall ds na nl td, Forall (fun d => d = []) ds ->
  Forall (fun b => bs_deletions b = []) (zip_blocks ds na nl td).
Proof.
  induction ds as [|d ds IH]; intros [|a na] [|l nl] [|t td] Hd; cbn [zip_blocks]; try constructor.
  - inversion Hd; subst. reflexivity.
  - apply IH. inversion Hd; assumption.
Qed.

(** a tracker that recorded no deletion has no ttl at all *)
Theorem ttl_gen_no_deletions cs : tracker_wf cs -> Forall (fun d => d = []) (cs_deletions cs) ->
  ttl_gen cs = Some (repeat [] (length (cs_deletions cs))).
Proof.
  intros [W1 W2 W3 _] Hd. unfold ttl_gen. rewrite W1, W2, W3, Nat.eqb_refl. cbn [andb].
  rewrite gen_loop_no_dels.
  - rewrite rev_length, app_nil_r. unfold tracker_blocks. rewrite zip_blocks_length by assumption. reflexivity.
  - apply Forall_rev. apply zip_blocks_no_dels. exact Hd.
Qed.

(** ** histories without deletions *)
Section NoDels.
  Variable H : Type.
  Variable HO : ops H.

  Definition no_dels (blocks : list (list H * list H)) : Prop := Forall (fun b => fst b = []) blocks.

  Lemma hist_summaries_no_dels : forall blocks s, no_dels blocks ->
    hist_summaries H HO s blocks = Some (map (fun b => ([], N.of_nat (length (snd b)))) blocks).
  Proof.
    induction blocks as [|[dels adds] blocks IH]; intros s Hn; [reflexivity|].
    inversion Hn as [|? ? E Hn']; subst. cbn [fst] in E. subst dels.
    cbn [hist_summaries map snd]. unfold exp_prove at 1. cbn [find_leaves map]. rewrite IH by exact Hn'. reflexivity.
  Qed.

  Lemma mark_deleted_nil b : forall (s : slots H) info, mark_deleted HO b [] s info = info.
  Proof.
    induction s as [|o s IH]; intros [|i info]; cbn [mark_deleted]; try reflexivity.
    rewrite IH. destruct o; reflexivity.
  Qed.

  Lemma hist_info_no_dels : forall blocks b s info, no_dels blocks ->
    Forall (fun i => si_deleted i = None) info ->
    Forall (fun i => si_deleted i = None) (hist_info HO b blocks s info).
  Proof.
    induction blocks as [|[dels adds] blocks IH]; intros b s info Hn Hi; cbn [hist_info]; [exact Hi|].
    inversion Hn as [|? ? E Hn']; subst. cbn [fst] in E. subst dels.
    apply IH; [exact Hn'|]. rewrite mark_deleted_nil. apply Forall_app. split; [exact Hi|].
    rewrite Forall_forall. intros i Hin. apply in_map_iff in Hin as (_ & <- & _). reflexivity.
  Qed.

  Lemma exp_ttls_no_dels blocks : no_dels blocks -> exp_ttls_z H HO blocks = repeat [] (length blocks).
  Proof.
    intros Hn. unfold exp_ttls_z, exp_ttls.
    pose proof (hist_info_no_dels blocks 0 [] [] Hn (Forall_nil _)) as Hi.
    fold (slot_info HO blocks) in Hi. set (info := slot_info HO blocks) in *.
    rewrite map_map.
    assert (E : forall l : list nat, map (fun b =>
        map (fun e : N * N => (fst e, Z.of_N (snd e)))
          (flat_map (fun k => match nth_error info k with
                              | Some i => match si_deleted i with
                                          | Some d => if Nat.eqb (si_added i) b && Nat.ltb b d
                                                      then [(N.of_nat k, N.of_nat (d - b))] else []
                                          | None => []
                                          end
                              | None => []
                              end) (seq 0 (length info)))) l = repeat [] (length l)).
    { induction l as [|b l IHl]; [reflexivity|]. cbn [map length repeat]. rewrite IHl. f_equal.
      generalize (seq 0 (length info)). intros ks. induction ks as [|k ks IHk]; [reflexivity|].
      cbn [flat_map]. destruct (nth_error info k) as [i|] eqn:Ei; [|exact IHk].
      apply nth_error_In in Ei. rewrite Forall_forall in Hi. rewrite (Hi i Ei). exact IHk. }
    rewrite E, seq_length. reflexivity.
  Qed.
End NoDels.

Lemma add_block_dels cs dels na cs' : ttl_add_block_summary cs dels na = Some cs' ->
  cs_deletions cs' = cs_deletions cs ++
    [match cs_roots cs with
     | [] => dels
     | _ => translatePositions dels (TreeRows (last (cs_numLeaves cs) 0)) CSTTotalRows
     end].
Proof.
  unfold ttl_add_block_summary. destruct (cs_roots cs) as [|r0 rs0].
  - destruct (addRootInfo _ _ _ _) as [[? ?]|]; [|discriminate]. intros [= <-]. reflexivity.
  - destruct (rootInfoToDestroy _ _ _ _); [|discriminate].
    destruct (addRootInfo _ _ _ _) as [[? ?]|]; [|discriminate]. intros [= <-]. reflexivity.
Qed.

Lemma ttl_summaries_no_dels : forall hist cs cs', Forall (fun b => fst b = []) hist ->
  Forall (fun d => d = []) (cs_deletions cs) -> ttl_summaries cs hist = Some cs' ->
  Forall (fun d => d = []) (cs_deletions cs').
Proof.
  induction hist as [|[dels na] hist IH]; intros cs cs' Hh Hd E; cbn [ttl_summaries] in E.
  - injection E as <-. exact Hd.
  - destruct (ttl_add_block_summary cs dels na) as [cs1|] eqn:E1; [|discriminate].
    inversion Hh as [|? ? Ed Hh']; subst. cbn [fst] in Ed. subst dels.
    apply (IH cs1 cs' Hh'); [|exact E].
    rewrite (add_block_dels _ _ _ _ E1). apply Forall_app. split; [exact Hd|].
    constructor; [|constructor]. destruct (cs_roots cs); reflexivity.
Qed.

(** the statement holds for every history without deletions (any number of blocks, any additions,
    fewer than 2^64 leaves) *)
Theorem ttl_correct_no_deletions (H : Type) (HO : ops H) (blocks : list (list H * list H)) :
  no_dels H blocks -> N.of_nat (total_adds H blocks) < 2 ^ 64 -> ttl_correct H HO blocks.
Proof.
  intros Hn Hb. unfold ttl_correct. rewrite (hist_summaries_no_dels H HO blocks [] Hn).
  eexists. split; [reflexivity|]. unfold ttl_run.
  set (hist := map (fun b : list H * list H => (@nil N, N.of_nat (length (snd b)))) blocks).
  assert (Es : sum_adds hist = N.of_nat (total_adds H blocks)).
  { unfold hist. clear. induction blocks as [|b bl IH]; [reflexivity|].
    cbn [map sum_adds snd total_adds]. rewrite IH. lia. }
  destruct (ttl_summaries_total hist ttl_empty ttl_empty_wf ltac:(cbn [ttl_empty cs_numLeaves last]; lia))
    as (cs' & E & W & El & _).
  rewrite E. rewrite ttl_gen_no_deletions; [|exact W|].
  - rewrite (exp_ttls_no_dels H HO blocks Hn). cbn [ttl_empty cs_deletions length] in El. rewrite El.
    unfold hist. rewrite map_length. reflexivity.
  - apply (ttl_summaries_no_dels hist ttl_empty cs'); [|constructor|exact E].
    unfold hist. rewrite Forall_forall. intros b Hin. apply in_map_iff in Hin as (? & <- & _). reflexivity.
Qed.


(** * 4. The TTL facts of a history in closed form *)
Section ExpChar.
  Variable H : Type.
  Variable HO : ops H.

  (** the first block of [rest] that deletes [h] *)
  Fixpoint del_block (rest : list (list H * list H)) (h : H) : option nat :=
    match rest with
    | [] => None
    | b :: r => if memH HO h (fst b) then Some 0%nat else option_map S (del_block r h)
    end.

  (** the ttl entries of the leaves [adds], inserted at slots [base], [base+1], ..., given the later
      blocks [rest]: a leaf deleted by the [d]-th later block lives [d+1] blocks *)
  Fixpoint toa (base : nat) (adds : list H) (rest : list (list H * list H)) : list (N * N) :=
    match adds with
    | [] => []
    | a :: t => (match del_block rest a with
                 | Some d => [(N.of_nat base, N.of_nat (S d))]
                 | None => []
                 end) ++ toa (S base) t rest
    end.

  Fixpoint exp_char (base : nat) (blocks : list (list H * list H)) : list (list (N * N)) :=
    match blocks with
    | [] => []
    | b :: rest => toa base (snd b) rest :: exp_char (base + length (snd b)) rest
    end.

  (** ** [slot_info] in closed form *)
  Fixpoint news (b : nat) (rest : list (list H * list H)) : list slotinfo :=
    match rest with
    | [] => []
    | blk :: r =>
        map (fun a => mkSI b (option_map (fun d => (S b + d)%nat) (del_block r a))) (snd blk)
        ++ news (S b) r
    end.

  Definition upd (b : nat) (rest : list (list H * list H)) (o : option H) (i : slotinfo) : slotinfo :=
    match o with
    | Some h => match del_block rest h with
                | Some d => mkSI (si_added i) (Some (b + d)%nat)
                | None => i
                end
    | None => i
    end.

  Fixpoint map2 {A B C} (f : A -> B -> C) (la : list A) (lb : list B) : list C :=
    match la, lb with
    | a :: la', b :: lb' => f a b :: map2 f la' lb'
    | _, _ => []
    end.

  Lemma map2_app {A B C} (f : A -> B -> C) : forall la lb la' lb', length la = length lb ->
    map2 f (la ++ la') (lb ++ lb') = map2 f la lb ++ map2 f la' lb'.
  Proof.
    induction la as [|a la IH]; intros [|b lb] la' lb' E; try discriminate; [reflexivity|].
    cbn [app map2]. f_equal. apply IH. injection E as E. exact E.
  Qed.

  Lemma map2_length {A B C} (f : A -> B -> C) : forall la lb, length la = length lb ->
    length (map2 f la lb) = length la.
  Proof.
    induction la as [|a la IH]; intros [|b lb] E; try discriminate; [reflexivity|].
    cbn [map2 length]. f_equal. apply IH. injection E as E. exact E.
  Qed.

  Lemma mark_deleted_length b dels : forall (s : slots H) info, length info = length s ->
    length (mark_deleted HO b dels s info) = length info.
  Proof.
    induction s as [|o s IH]; intros [|i info] E; try discriminate; [reflexivity|].
    cbn [mark_deleted length]. f_equal. apply IH. injection E as E. exact E.
  Qed.

  Lemma hist_info_char : forall rest b (s : slots H) info, length info = length s ->
    hist_info HO b rest s info = map2 (upd b rest) s info ++ news b rest.
  Proof.
    induction rest as [|[dels adds] r IH]; intros b s info El.
    - cbn [hist_info news]. rewrite app_nil_r. revert info El.
      induction s as [|o s IHs]; intros [|i info] El; try discriminate; [reflexivity|].
      cbn [map2]. rewrite <- IHs by (injection El as El; exact El).
      unfold upd. cbn [del_block]. destruct o; reflexivity.
    - cbn [hist_info news snd]. unfold apply_block.
      rewrite IH by (rewrite !app_length, !map_length, SpecBasics.length_kill; rewrite mark_deleted_length by exact El; lia).
      rewrite map2_app by (rewrite mark_deleted_length by exact El; rewrite SpecBasics.length_kill; symmetry; exact El).
      rewrite <- !app_assoc. f_equal; [|f_equal].
      + revert info El. induction s as [|o s IHs]; intros [|i info] El; try discriminate; [reflexivity|].
        cbn [kill map mark_deleted map2]. fold (kill HO dels s).
        rewrite IHs by (injection El as El; exact El). f_equal.
        unfold upd. cbn [del_block fst]. destruct o as [h|]; [|reflexivity].
        destruct (memH HO h dels); [cbn [si_added]; f_equal; f_equal; lia|].
        destruct (del_block r h) as [d|]; cbn [option_map]; [f_equal; f_equal; lia|reflexivity].
      + clear. induction adds as [|a adds IHa]; [reflexivity|]. cbn [map map2]. rewrite IHa. f_equal.
        unfold upd. destruct (del_block r a); reflexivity.
  Qed.

  Lemma slot_info_char blocks : slot_info HO blocks = news 0 blocks.
  Proof. unfold slot_info. rewrite hist_info_char by reflexivity. reflexivity. Qed.

  (** ** [exp_ttls] in closed form *)
  Definition contrib (b k : nat) (i : slotinfo) : list (N * N) :=
    match si_deleted i with
    | Some d => if Nat.eqb (si_added i) b && Nat.ltb b d then [(N.of_nat k, N.of_nat (d - b))] else []
    | None => []
    end.
  Fixpoint cidx (b off : nat) (info : list slotinfo) : list (N * N) :=
    match info with
    | [] => []
    | i :: t => contrib b off i ++ cidx b (S off) t
    end.

  Lemma cidx_app b : forall l1 off l2, cidx b off (l1 ++ l2) = cidx b off l1 ++ cidx b (off + length l1) l2.
  Proof.
    induction l1 as [|i l1 IH]; intros off l2; cbn [app cidx length]; [rewrite Nat.add_0_r; reflexivity|].
    rewrite IH, <- app_assoc. do 3 f_equal. lia.
  Qed.

  Lemma cidx_nil b : forall l off, Forall (fun i => si_added i <> b) l -> cidx b off l = [].
  Proof.
    induction l as [|i l IH]; intros off Hl; [reflexivity|]. inversion Hl as [|? ? Hi Hl']; subst.
    cbn [cidx]. rewrite IH by exact Hl'. unfold contrib. destruct (si_deleted i); [|reflexivity].
    destruct (Nat.eqb_spec (si_added i) b); [contradiction|reflexivity].
  Qed.

  Lemma flat_map_idx b : forall info pre,
    flat_map (fun k => match nth_error (pre ++ info) k with Some i => contrib b k i | None => [] end)
             (seq (length pre) (length info)) = cidx b (length pre) info.
  Proof.
    induction info as [|i info IH]; intros pre; [reflexivity|].
    cbn [length seq flat_map cidx]. rewrite nth_error_app2 by lia. rewrite Nat.sub_diag. cbn [nth_error].
    f_equal. specialize (IH (pre ++ [i])). rewrite <- app_assoc, app_length in IH. cbn [app length] in IH.
    rewrite Nat.add_1_r in IH. exact IH.
  Qed.

  Lemma news_added : forall rest b, Forall (fun i => (b <= si_added i)%nat) (news b rest).
  Proof.
    induction rest as [|blk r IH]; intros b; cbn [news]; [constructor|]. apply Forall_app. split.
    - rewrite Forall_forall. intros i Hi. apply in_map_iff in Hi as (a & <- & _). cbn [si_added]. lia.
    - eapply Forall_impl; [|apply IH]. cbv beta. intros i Hi. lia.
  Qed.

  Lemma cidx_seg b r : forall adds off,
    cidx b off (map (fun a => mkSI b (option_map (fun d => (S b + d)%nat) (del_block r a))) adds)
    = toa off adds r.
  Proof.
    induction adds as [|a adds IH]; intros off; [reflexivity|]. cbn [map cidx toa]. rewrite IH. f_equal.
    unfold contrib. cbn [si_deleted si_added]. destruct (del_block r a) as [d|]; [|reflexivity].
    cbn [option_map]. rewrite Nat.eqb_refl. cbn [andb].
    destruct (Nat.ltb_spec b (S b + d)) as [_|Hc]; [|lia]. do 3 f_equal. lia.
  Qed.

  Lemma exp_ttls_news : forall rest b0 pre, Forall (fun i => (si_added i < b0)%nat) pre ->
    map (fun b => cidx b 0 (pre ++ news b0 rest)) (seq b0 (length rest)) = exp_char (length pre) rest.
  Proof.
    induction rest as [|[dels adds] r IH]; intros b0 pre Hpre; [reflexivity|].
    cbn [length seq map exp_char news snd]. f_equal.
    - rewrite !cidx_app. cbn [Nat.add]. rewrite cidx_nil.
      2:{ eapply Forall_impl; [|exact Hpre]. cbv beta. intros i Hi. lia. }
      rewrite cidx_seg. rewrite (cidx_nil b0 (news (S b0) r)).
      2:{ eapply Forall_impl; [|apply news_added]. cbv beta. intros i Hi. lia. }
      rewrite app_nil_r. reflexivity.
    - specialize (IH (S b0) (pre ++ map (fun a => mkSI b0 (option_map (fun d => (S b0 + d)%nat) (del_block r a))) adds)).
      rewrite <- app_assoc, app_length, map_length in IH. apply IH.
      apply Forall_app. split; [eapply Forall_impl; [|exact Hpre]; cbv beta; intros i Hi; lia|].
      rewrite Forall_forall. intros i Hi. apply in_map_iff in Hi as (a & <- & _). cbn [si_added]. lia.
  Qed.

  (** the TTL facts of ANY list of blocks (valid or not): per block, for each added leaf that a later
      block deletes, its slot and 1 + the number of blocks in between *)
  Theorem exp_ttls_char blocks : exp_ttls HO blocks = exp_char 0 blocks.
  Proof.
    unfold exp_ttls. rewrite slot_info_char.
    pose proof (exp_ttls_news blocks 0 [] (Forall_nil _)) as E. cbn [app length] in E. rewrite <- E.
    apply map_ext. intros b. apply (flat_map_idx b (news 0 blocks) []).
  Qed.
End ExpChar.


(** * 5. [genTTLs] reduced to its three components *)

(** ** lists: [slices.Sort] on indexes, removal of a set of indexes *)

Lemma insertNat_N x l : map N.of_nat (insertNat x l) = insertN (N.of_nat x) (map N.of_nat l).
Proof.
  induction l as [|y l IH]; [reflexivity|]. cbn [insertNat map insertN].
  destruct (Nat.leb_spec x y), (N.leb_spec (N.of_nat x) (N.of_nat y)); try lia; [reflexivity|].
  cbn [map]. rewrite IH. reflexivity.
Qed.
Lemma sortNat_N l : map N.of_nat (sortNat l) = sortN (map N.of_nat l).
Proof.
  unfold sortNat, sortN. induction l as [|x l IH]; [reflexivity|]. cbn [fold_right map].
  rewrite insertNat_N, IH. reflexivity.
Qed.

Lemma map_of_nat_inj l1 : forall l2, map N.of_nat l1 = map N.of_nat l2 -> l1 = l2.
Proof.
  induction l1 as [|x l1 IH]; intros [|y l2] E; try discriminate; [reflexivity|].
  cbn [map] in E. injection E as E1 E2. f_equal; [lia|apply IH, E2].
Qed.

Lemma sortNat_unique l s : StronglySorted lt s -> NoDup l -> (forall x, In x s <-> In x l) -> sortNat l = s.
Proof.
  intros Hs Hn E. apply map_of_nat_inj. rewrite sortNat_N. apply pps_sortN_unique.
  - clear E. induction Hs as [|x s Hs IH Hx]; cbn [map]; [constructor|]. constructor; [exact IH|].
    rewrite Forall_forall in *. intros y Hy. apply in_map_iff in Hy as (z & <- & Hz). specialize (Hx z Hz). lia.
  - apply FinFun.Injective_map_NoDup; [|exact Hn]. intros a b Eab. lia.
  - intros x. rewrite !in_map_iff. split; intros (z & <- & Hz); exists z; (split; [reflexivity|apply E, Hz]).
Qed.

(** the ascending indexes of the [true] entries of a mask *)
Fixpoint true_idxs (off : nat) (mask : list bool) : list nat :=
  match mask with
  | [] => []
  | b :: t => (if b then [off] else []) ++ true_idxs (S off) t
  end.
Fixpoint keepmask {A} (mask : list bool) (l : list A) : list A :=
  match mask, l with
  | b :: m, x :: t => (if b then [] else [x]) ++ keepmask m t
  | _, _ => []
  end.

Lemma true_idxs_in mask : forall off k, In k (true_idxs off mask) <->
  (off <= k)%nat /\ nth_error mask (k - off) = Some true.
Proof.
  induction mask as [|b m IH]; intros off k; cbn [true_idxs].
  - split; [intros []|intros [_ E]]. destruct (k - off)%nat; discriminate.
  - rewrite in_app_iff, IH. split.
    + intros [Hb|[Hle Hn]].
      * destruct b; [|destruct Hb]. destruct Hb as [<-|[]]. rewrite Nat.sub_diag. auto.
      * split; [lia|]. replace (k - off)%nat with (S (k - S off)) by lia. exact Hn.
    + intros [Hle Hn]. destruct (Nat.eq_dec k off) as [->|Hne].
      * rewrite Nat.sub_diag in Hn. cbn in Hn. injection Hn as ->. left. left. reflexivity.
      * right. split; [lia|]. replace (k - off)%nat with (S (k - S off)) in Hn by lia. exact Hn.
Qed.

Lemma true_idxs_sorted mask : forall off, StronglySorted lt (true_idxs off mask).
Proof.
  induction mask as [|b m IH]; intros off; cbn [true_idxs]; [constructor|].
  destruct b; cbn [app]; [|apply IH]. constructor; [apply IH|].
  rewrite Forall_forall. intros k Hk. apply true_idxs_in in Hk. lia.
Qed.

Lemma remove_created_mask : forall mask off k (p1 l1 : list N) (p2 l2 : list nat),
  (k <= off)%nat -> length p1 = (off - k)%nat -> length p2 = (off - k)%nat ->
  length l1 = length mask -> length l2 = length mask ->
  remove_created k (true_idxs off mask) (p1 ++ l1) (p2 ++ l2)
  = Some (p1 ++ keepmask mask l1, p2 ++ keepmask mask l2).
Proof.
  induction mask as [|b m IH]; intros off k p1 l1 p2 l2 Hk H1 H2 E1 E2.
  - destruct l1; [|discriminate]. destruct l2; [|discriminate]. reflexivity.
  - destruct l1 as [|x l1]; [discriminate|]. destruct l2 as [|y l2]; [discriminate|].
    cbn [length] in E1, E2. injection E1 as E1. injection E2 as E2.
    cbn [true_idxs keepmask]. destruct b; cbn [app].
    + cbn [remove_created]. destruct (Nat.ltb_spec off k) as [Hc|_]; [lia|].
      rewrite !app_length. cbn [length].
      destruct (Nat.ltb_spec (off - k) (length p1 + S (length l1))) as [_|Hc]; [|lia].
      destruct (Nat.ltb_spec (off - k) (length p2 + S (length l2))) as [_|Hc]; [|lia]. cbn [andb].
      assert (D1 : delete_at (off - k) (p1 ++ x :: l1) = p1 ++ l1).
      { unfold delete_at. rewrite <- H1. rewrite firstn_app, Nat.sub_diag, firstn_all, app_nil_r. cbn [firstn].
        replace (S (length p1)) with (length p1 + 1)%nat by lia.
        rewrite skipn_app. replace (length p1 + 1 - length p1)%nat with 1%nat by lia.
        rewrite skipn_all2 by lia. reflexivity. }
      assert (D2 : delete_at (off - k) (p2 ++ y :: l2) = p2 ++ l2).
      { unfold delete_at. rewrite <- H2. rewrite firstn_app, Nat.sub_diag, firstn_all, app_nil_r. cbn [firstn].
        replace (S (length p2)) with (length p2 + 1)%nat by lia.
        rewrite skipn_app. replace (length p2 + 1 - length p2)%nat with 1%nat by lia.
        rewrite skipn_all2 by lia. reflexivity. }
      rewrite D1, D2. apply IH; try assumption; lia.
    + replace (p1 ++ x :: l1) with ((p1 ++ [x]) ++ l1) by (rewrite <- app_assoc; reflexivity).
      replace (p2 ++ y :: l2) with ((p2 ++ [y]) ++ l2) by (rewrite <- app_assoc; reflexivity).
      rewrite IH; try assumption; try lia; try (rewrite app_length; cbn [length]; lia).
      rewrite <- !app_assoc. reflexivity.
Qed.

Lemma keepmask_map {A B} (P : A -> bool) (f : A -> B) (l : list A) :
  keepmask (map P l) (map f l) = map f (filter (fun x => negb (P x)) l).
Proof.
  induction l as [|x l IH]; [reflexivity|]. cbn [map keepmask filter]. rewrite IH.
  destruct (P x); reflexivity.
Qed.


Section Assembly.
  Variable H : Type.
  Variable HO : ops H.
  Hypothesis HOK : ops_ok HO.
  Notation Heqb := (op_eqb HO).

  (** the position of leaf [h] in the forest [s], in the tracker's 63-row coordinates *)
  Definition lp (s : slots H) (h : H) : N :=
    match leaf_pos HO 63 (layout HO s) h with Some p => p | None => 0 end.

  (** [slices.Index] on hashes *)
  Fixpoint idxH (h : H) (l : list H) : option nat :=
    match l with
    | [] => None
    | x :: t => if Heqb x h then Some O else match idxH h t with Some k => Some (S k) | None => None end
    end.

  (** what the tracker records for block [b] applied to state [s] *)
  Definition spec_block (s : slots H) (b : list H * list H) : blockSummary :=
    mkBS (map (lp s) (fst b)) (N.of_nat (length (snd b))) (N.of_nat (length s + length (snd b)))
         (to_destroy HO 63 (kill HO (fst b) s) (snd b)).
  Fixpoint spec_blocks (s : slots H) (blocks : list (list H * list H)) : list blockSummary :=
    match blocks with
    | [] => []
    | b :: r => spec_block s b :: spec_blocks (apply_block HO s (fst b) (snd b)) r
    end.

  Definition st_ok (s : slots H) : Prop := NoDup (live s) /\ forall h, In (Some h) s -> NZ HO h.

  (** ** the three components *)

  (** (A) [AddBlockSummary]: the tracker records, per block, the 63-row positions of the deleted leaves,
      the leaf count and the destroyed empty roots of the reference *)
  Definition tracker_spec : Prop :=
    forall blocks sm, valid_hist H HO [] blocks -> N.of_nat (total_adds H blocks) <= 2 ^ 62 ->
      hist_summaries H HO [] blocks = Some sm ->
      exists cs, ttl_summaries ttl_empty sm = Some cs /\ tracker_wf cs /\
                 tracker_blocks cs = spec_blocks [] blocks.

  (** (B) [undoAdd] on positions: the positions of any leaves [L] of the state after the additions come
      back to their positions before them; an added leaf comes back to its insertion slot and is
      reported, the newest first *)
  Definition undo_add_exp (s1 : slots H) (adds L : list H) : list N * list nat :=
    (map (fun h => match idxH h adds with Some j => N.of_nat (length s1 + j) | None => lp s1 h end) L,
     flat_map (fun a => match idxH a L with Some k => [k] | None => [] end) (rev adds)).
  Definition undo_add_spec : Prop :=
    forall (s1 : slots H) (adds L : list H),
      st_ok (s1 ++ map Some adds) -> N.of_nat (length s1 + length adds) <= 2 ^ 62 ->
      NoDup L -> (forall h, In h L -> In (Some h) (s1 ++ map Some adds)) ->
      undoAddPos 63 (map (lp (s1 ++ map Some adds)) L) (to_destroy HO 63 s1 adds)
                 (N.of_nat (length adds)) (N.of_nat (length s1 + length adds))
      = undo_add_exp s1 adds L.

  (** (C) [undoDel] on positions: the positions of any surviving leaves [L] come back to their positions
      before the deletions *)
  Definition undo_del_spec : Prop :=
    forall (s : slots H) (dels L : list H),
      st_ok s -> N.of_nat (length s) <= 2 ^ 62 ->
      NoDup dels -> (forall h, In h dels -> In (Some h) s) ->
      NoDup L -> (forall h, In h L -> In (Some h) (kill HO dels s)) ->
      undoDelPos 63 (map (lp (kill HO dels s)) L) (map (lp s) dels) (N.of_nat (length s))
      = map (lp s) L.

  (** ** [idxH] *)
  Lemma idxH_some h : forall l k, idxH h l = Some k -> nth_error l k = Some h.
  Proof.
    induction l as [|x l IH]; intros k E; cbn [idxH] in E; [discriminate|].
    destruct (Heqb x h) eqn:Ex.
    - injection E as <-. apply HOK in Ex. subst x. reflexivity.
    - destruct (idxH h l) as [j|]; [|discriminate]. injection E as <-. cbn [nth_error]. apply IH. reflexivity.
  Qed.
  Lemma idxH_none h : forall l, idxH h l = None -> ~ In h l.
  Proof.
    induction l as [|x l IH]; intros E Hin; cbn [idxH] in E; [destruct Hin|].
    destruct (Heqb x h) eqn:Ex; [discriminate|].
    destruct (idxH h l) as [j|]; [discriminate|]. destruct Hin as [->|Hin]; [|exact (IH eq_refl Hin)].
    assert (Heqb h h = true) by (apply HOK; reflexivity). congruence.
  Qed.
  Lemma idxH_nodup h : forall l k, NoDup l -> nth_error l k = Some h -> idxH h l = Some k.
  Proof.
    induction l as [|x l IH]; intros k Hnd E; [destruct k; discriminate|].
    inversion Hnd as [|? ? Hx Hnd']; subst. cbn [idxH]. destruct k as [|k]; cbn [nth_error] in E.
    - injection E as ->. assert (Ehh : Heqb h h = true) by (apply HOK; reflexivity). rewrite Ehh. reflexivity.
    - destruct (Heqb x h) eqn:Ex.
      + apply HOK in Ex. subst x. exfalso. apply Hx. eapply nth_error_In; exact E.
      + rewrite (IH k Hnd' E). reflexivity.
  Qed.
  Lemma idxH_mem h l : idxH h l = None <-> memH HO h l = false.
  Proof.
    split.
    - intros E. destruct (memH HO h l) eqn:Em; [|reflexivity]. apply (memH_In H HO HOK) in Em.
      exfalso. exact (idxH_none h l E Em).
    - intros Em. destruct (idxH h l) as [k|] eqn:E; [|reflexivity]. apply idxH_some in E.
      apply nth_error_In in E. apply (memH_In H HO HOK) in E. congruence.
  Qed.

  (** ** the created indexes *)
  Definition gidx (Lh : list H) (a : H) : list nat := match idxH a Lh with Some k => [k] | None => [] end.

  Lemma gidx_in Lh l k : In k (flat_map (gidx Lh) l) <-> exists a, In a l /\ idxH a Lh = Some k.
  Proof.
    rewrite in_flat_map. unfold gidx. split; intros (a & Ha & Hk); exists a; (split; [exact Ha|]).
    - destruct (idxH a Lh); [destruct Hk as [->|[]]; reflexivity|destruct Hk].
    - rewrite Hk. left. reflexivity.
  Qed.

  Lemma gidx_nodup Lh : forall l, NoDup l -> NoDup (flat_map (gidx Lh) l).
  Proof.
    induction l as [|a l IH]; intros Hnd; [constructor|]. inversion Hnd as [|? ? Ha Hnd']; subst.
    cbn [flat_map]. unfold gidx at 1. destruct (idxH a Lh) as [k|] eqn:Ek; [|apply IH, Hnd'].
    cbn [app]. constructor; [|apply IH, Hnd'].
    intros Hin. apply gidx_in in Hin as (a' & Ha' & Ek'). apply idxH_some in Ek, Ek'.
    assert (a = a') by congruence. subst a'. contradiction.
  Qed.

  Lemma rev_flat_map_rev {A B} (f : A -> list B) : (forall x, rev (f x) = f x) ->
    forall l, rev (flat_map f (rev l)) = flat_map f l.
  Proof.
    intros Hf. induction l as [|x l IH]; [reflexivity|]. cbn [rev flat_map].
    rewrite flat_map_app, rev_app_distr. cbn [flat_map]. rewrite app_nil_r, Hf, IH. reflexivity.
  Qed.

  Lemma created_sorted (L : list (H * nat)) adds : NoDup (map fst L) -> NoDup adds ->
    sortNat (flat_map (gidx (map fst L)) (rev adds))
    = true_idxs 0 (map (fun p => memH HO (fst p) adds) L).
  Proof.
    intros HL Ha. apply sortNat_unique.
    - apply true_idxs_sorted.
    - apply gidx_nodup. apply NoDup_rev. exact Ha.
    - intros k. rewrite true_idxs_in, gidx_in, Nat.sub_0_r. split.
      + intros [_ E]. rewrite nth_error_map in E. destruct (nth_error L k) as [p|] eqn:Ep; [|discriminate].
        cbn [option_map] in E. injection E as E. apply (memH_In H HO HOK) in E.
        exists (fst p). split; [apply (proj1 (in_rev adds (fst p))); exact E|].
        apply idxH_nodup; [exact HL|]. rewrite nth_error_map, Ep. reflexivity.
      + intros (a & Hin & Ek). split; [lia|]. apply idxH_some in Ek. rewrite nth_error_map in Ek.
        rewrite nth_error_map. destruct (nth_error L k) as [p|]; [|discriminate]. cbn [option_map] in *.
        injection Ek as <-. f_equal. apply (memH_In H HO HOK). apply (proj2 (in_rev adds (fst p))). exact Hin.
  Qed.

  (** ** one block of the backward walk *)

  (** the ttl entries [genTTLs] writes for the additions of a block, from the pending list *)
  Fixpoint ttls_of (i base : nat) (adds : list H) (L : list (H * nat)) : list (N * Z) :=
    match adds with
    | [] => []
    | a :: t =>
        (match idxH a (map fst L) with
         | Some k => [(N.of_nat base, (Z.of_nat (nth k (map snd L) 0%nat) - Z.of_nat i)%Z)]
         | None => []
         end) ++ ttls_of i (S base) t L
    end.

  Lemma set_ttls_app i cached xy : forall c1 c2 t1 t2,
    set_ttls i cached xy c1 = Some t1 -> set_ttls i cached xy c2 = Some t2 ->
    set_ttls i cached xy (c1 ++ c2) = Some (t1 ++ t2).
  Proof.
    induction c1 as [|k c1 IH]; intros c2 t1 t2 E1 E2; cbn [set_ttls app] in *.
    - injection E1 as <-. exact E2.
    - destruct (nth_error xy k); [|discriminate]. destruct (nth_error cached k); [|discriminate].
      destruct (set_ttls i cached xy c1) as [r|] eqn:Er; [|discriminate]. injection E1 as <-.
      rewrite (IH c2 r t2 eq_refl E2). reflexivity.
  Qed.

  Lemma set_ttls_adds i (L : list (H * nat)) (phi : H -> N) : forall todo base,
    (forall t a, nth_error todo t = Some a -> phi a = N.of_nat (base + t)) ->
    set_ttls i (map phi (map fst L)) (map snd L) (flat_map (gidx (map fst L)) todo)
    = Some (ttls_of i base todo L).
  Proof.
    induction todo as [|a todo IH]; intros base Hphi; [reflexivity|].
    cbn [flat_map ttls_of]. apply set_ttls_app.
    - unfold gidx. destruct (idxH a (map fst L)) as [k|] eqn:Ek; [|reflexivity].
      cbn [set_ttls]. pose proof (idxH_some _ _ _ Ek) as En.
      rewrite (nth_error_map phi), En. cbn [option_map].
      assert (Hk : (k < length (map snd L))%nat).
      { rewrite map_length. rewrite <- (map_length fst). apply nth_error_Some. congruence. }
      rewrite (nth_error_nth' _ 0%nat Hk). rewrite (Hphi 0%nat a eq_refl), Nat.add_0_r. reflexivity.
    - apply IH. intros t a' Ht. rewrite (Hphi (S t) a' Ht). f_equal. lia.
  Qed.

  Lemma NoDup_map_filter {A B} (f : A -> B) (p : A -> bool) (l : list A) :
    NoDup (map f l) -> NoDup (map f (filter p l)).
  Proof.
    induction l as [|x l IH]; intros Hnd; [constructor|]. cbn [map] in Hnd.
    inversion Hnd as [|? ? Hx Hnd']; subst. cbn [filter]. destruct (p x); [|apply IH, Hnd'].
    cbn [map]. constructor; [|apply IH, Hnd']. intros Hin. apply Hx.
    apply in_map_iff in Hin as (y & Ey & Hy). apply filter_In in Hy as [Hy _]. apply in_map_iff. exists y. auto.
  Qed.

  Lemma kill_live (dels : list H) (s : slots H) h :
    In (Some h) (kill HO dels s) <-> In (Some h) s /\ memH HO h dels = false.
  Proof.
    unfold kill. rewrite in_map_iff. split.
    - intros ([h0|] & E & Hin); [|discriminate]. destruct (memH HO h0 dels) eqn:Em; [discriminate|].
      injection E as <-. auto.
    - intros [Hin Em]. exists (Some h). rewrite Em. auto.
  Qed.

  Hypothesis HA : undo_add_spec.
  Hypothesis HD : undo_del_spec.

  Lemma gen_step_spec (s : slots H) (dels adds : list H) (L : list (H * nat)) (i : nat) :
    let s2 := apply_block HO s dels adds in
    st_ok s -> st_ok s2 -> valid_block H HO s (dels, adds) ->
    N.of_nat (length s + length adds) <= 2 ^ 62 ->
    NoDup (map fst L) -> (forall p, In p L -> In (Some (fst p)) s2) ->
    let L' := filter (fun p => negb (memH HO (fst p) adds)) L ++ map (fun h => (h, i)) dels in
    gen_step i (spec_block s (dels, adds)) (map (lp s2) (map fst L)) (map snd L)
    = Some (ttls_of i (length s) adds L, map (lp s) (map fst L'), map snd L').
  Proof.
    intros s2 Hs Hs2 (Hd1 & Hd2 & Ha1 & Ha2) Hb HL Hlive L'. cbn [fst snd] in *.
    unfold gen_step, spec_block. cbn [bs_toDestroy bs_numAdds bs_numLeaves bs_deletions fst snd].
    set (s1 := kill HO dels s) in *.
    assert (El1 : length s1 = length s) by apply length_kill.
    unfold s2, apply_block in *. fold s1 in Hs2, Hlive |- *.
    rewrite <- El1. change CSTTotalRows with 63.
    rewrite (HA s1 adds (map fst L) Hs2 ltac:(rewrite El1; exact Hb) HL).
    2:{ intros h Hh. apply in_map_iff in Hh as (p & <- & Hp). apply Hlive, Hp. }
    unfold undo_add_exp.
    set (phi := fun h => match idxH h adds with Some j => N.of_nat (length s1 + j) | None => lp s1 h end).
    rewrite (rev_flat_map_rev (gidx (map fst L))).
    2:{ intros a. unfold gidx. destruct (idxH a (map fst L)); reflexivity. }
    fold (gidx (map fst L)).
    rewrite (set_ttls_adds i L phi adds (length s1)).
    2:{ intros t a Ht. unfold phi. rewrite (idxH_nodup a adds t Ha1 Ht). reflexivity. }
    rewrite (created_sorted L adds HL Ha1).
    pose proof (remove_created_mask (map (fun p => memH HO (fst p) adds) L) 0 0 [] (map phi (map fst L)) [] (map snd L)
                  (Nat.le_refl _) eq_refl eq_refl) as Hrc.
    rewrite !map_length in Hrc. specialize (Hrc eq_refl eq_refl). cbn [app] in Hrc. rewrite Hrc. clear Hrc.
    rewrite map_map, !keepmask_map.
    set (Lk := filter (fun p => negb (memH HO (fst p) adds)) L) in *.
    assert (Ephi : map (fun x => phi (fst x)) Lk = map (lp s1) (map fst Lk)).
    { rewrite map_map. apply map_ext_in. intros p Hp. apply filter_In in Hp as [_ Hp].
      apply negb_true_iff in Hp. apply idxH_mem in Hp. unfold phi. rewrite Hp. reflexivity. }
    rewrite Ephi.
    assert (En : sub64 (N.of_nat (length s1 + length adds)) (N.of_nat (length adds)) = N.of_nat (length s)).
    { rewrite sub64_small; [lia|lia|]. rewrite W_pow.
      assert (2 ^ 62 < 2 ^ 64) by (apply N.pow_lt_mono_r; lia). lia. }
    rewrite En.
    unfold s1. rewrite (HD s dels (map fst Lk) Hs ltac:(lia) Hd1 Hd2).
    - f_equal. unfold L'. fold Lk. rewrite !map_app, !map_map. cbn [fst snd]. reflexivity.
    - apply NoDup_map_filter, HL.
    - intros h Hh. apply in_map_iff in Hh as (p & <- & Hp). apply filter_In in Hp as [Hp Hm].
      apply negb_true_iff in Hm. specialize (Hlive p Hp). apply in_app_or in Hlive as [Hl|Hl]; [exact Hl|].
      apply in_map_iff in Hl as (a & Ea & Hin). injection Ea as Ea. subst a.
      apply (memH_In H HO HOK) in Hin. rewrite Hin in Hm. discriminate.
  Qed.
End Assembly.

(** ** the three components as executable checks, decided on small cases *)
Section ComponentChecks.
  Variable H : Type.
  Variable HO : ops H.
  Definition bs_eqb (a b : blockSummary) : bool :=
    leqb N.eqb (bs_deletions a) (bs_deletions b) && (bs_numAdds a =? bs_numAdds b) &&
    (bs_numLeaves a =? bs_numLeaves b) && leqb N.eqb (bs_toDestroy a) (bs_toDestroy b).
  Definition tracker_check (blocks : list (list H * list H)) : bool :=
    match hist_summaries H HO [] blocks with
    | None => false
    | Some sm => match ttl_summaries ttl_empty sm with
                 | None => false
                 | Some cs => leqb bs_eqb (tracker_blocks cs) (spec_blocks H HO [] blocks)
                 end
    end.
  Definition undo_add_check (s1 : slots H) (adds L : list H) : bool :=
    let a := undoAddPos 63 (map (lp H HO (s1 ++ map Some adds)) L) (to_destroy HO 63 s1 adds)
                        (N.of_nat (length adds)) (N.of_nat (length s1 + length adds)) in
    let b := undo_add_exp H HO s1 adds L in
    leqb N.eqb (fst a) (fst b) && leqb Nat.eqb (snd a) (snd b).
  Definition undo_del_check (s : slots H) (dels L : list H) : bool :=
    leqb N.eqb (undoDelPos 63 (map (lp H HO (kill HO dels s)) L) (map (lp H HO s) dels) (N.of_nat (length s)))
         (map (lp H HO s) L).
End ComponentChecks.

(** every state of [k] slots ([Atom i] or dead) *)
Fixpoint tt_states (k : nat) (i : N) : list (slots term) :=
  match k with
  | O => [[]]
  | S j => let r := tt_states j (i + 1) in map (cons (Some (Atom i))) r ++ map (cons None) r
  end.
(** (B): every state of at most [k] slots (dead slots, empty trees included), 0..[maxadd] additions, every
    sublist of the live leaves of the new state, in both orders *)
Definition tt_ua_cases (k maxadd : nat) :=
  flat_map (fun s => flat_map (fun m =>
     let adds := map Atom (tt_seqN 100 m) in
     flat_map (fun L => [(s, adds, L); (s, adds, rev L)]) (tt_sublists (live (s ++ map Some adds))))
     (seq 0 (S maxadd))) (flat_map (fun j => tt_states j 1) (seq 0 (S k))).
(** (C): every state of at most [k] slots, every set of deleted leaves, every sublist of the survivors *)
Definition tt_ud_cases (k : nat) :=
  flat_map (fun s => flat_map (fun dels =>
     flat_map (fun L => [(s, dels, L); (s, rev dels, rev L)]) (tt_sublists (live (kill term_ops dels s))))
     (tt_sublists (live s))) (flat_map (fun j => tt_states j 1) (seq 0 (S k))).

Example ttl_tracker_small :
  forallb (tracker_check term term_ops) (tt_hists 4 2 [] 1) = true /\
  forallb (tracker_check term term_ops) (tt_wipe 7 4) = true.
Proof. split; vm_compute; reflexivity. Qed.
Example ttl_undo_add_small : N.of_nat (length (tt_ua_cases 5 3)) = 10920 /\
  forallb (fun c => let '(s, adds, L) := c in undo_add_check term term_ops s adds L) (tt_ua_cases 5 3) = true.
Proof. split; vm_compute; reflexivity. Qed.
Example ttl_undo_del_small : N.of_nat (length (tt_ud_cases 6)) = 10922 /\
  forallb (fun c => let '(s, dels, L) := c in undo_del_check term term_ops s dels L) (tt_ud_cases 6) = true.
Proof. split; vm_compute; reflexivity. Qed.


Section Walk.
  Variable H : Type.
  Variable HO : ops H.
  Hypothesis HOK : ops_ok HO.
  Notation block := (list H * list H)%type.
  Notation lp := (lp H HO).
  Notation S_ := (apply_hist H HO []).

  (** ** histories *)
  Lemma apply_hist_app : forall (l1 l2 : list block) s,
    apply_hist H HO s (l1 ++ l2) = apply_hist H HO (apply_hist H HO s l1) l2.
  Proof. induction l1 as [|b l1 IH]; intros l2 s; [reflexivity|]. cbn [app apply_hist]. apply IH. Qed.

  Lemma valid_hist_app : forall (l1 l2 : list block) s, valid_hist H HO s (l1 ++ l2) ->
    valid_hist H HO s l1 /\ valid_hist H HO (apply_hist H HO s l1) l2.
  Proof.
    induction l1 as [|b l1 IH]; intros l2 s Hv; [split; [exact I|exact Hv]|].
    cbn [app valid_hist apply_hist] in *. destruct Hv as [Hb Hv]. apply IH in Hv as [H1 H2]. auto.
  Qed.

  Lemma length_apply_hist : forall (l : list block) s,
    length (apply_hist H HO s l) = (length s + total_adds H l)%nat.
  Proof.
    induction l as [|b l IH]; intros s; cbn [apply_hist total_adds]; [lia|].
    rewrite IH. unfold apply_block. rewrite app_length, length_kill, map_length. lia.
  Qed.

  Lemma total_adds_app (l1 l2 : list block) : total_adds H (l1 ++ l2) = (total_adds H l1 + total_adds H l2)%nat.
  Proof. induction l1 as [|b l1 IH]; [reflexivity|]. cbn [app total_adds]. rewrite IH. lia. Qed.

  Lemma st_ok_step (s : slots H) (b : block) : st_ok H HO s -> valid_block H HO s b ->
    st_ok H HO (apply_block HO s (fst b) (snd b)).
  Proof.
    intros [Hnd Hnz] (Hd1 & Hd2 & Ha1 & Ha2). split.
    - unfold apply_block. rewrite live_app, live_map_some.
      apply NoDup_app_intro'; [apply live_kill_NoDup; exact Hnd|exact Ha1|].
      intros x Hx Hxa. apply live_In in Hx. apply (proj2 (Ha2 x Hxa)). eapply kill_live_sub; exact Hx.
    - intros h Hh. unfold apply_block in Hh. apply in_app_or in Hh as [Hh|Hh].
      + apply Hnz. eapply kill_live_sub; exact Hh.
      + apply in_map_iff in Hh as (a & [= <-] & Ha). apply (proj1 (Ha2 a Ha)).
  Qed.

  Lemma st_ok_hist : forall (l : list block) s, st_ok H HO s -> valid_hist H HO s l ->
    st_ok H HO (apply_hist H HO s l).
  Proof.
    induction l as [|b l IH]; intros s Hs Hv; [exact Hs|]. destruct Hv as [Hb Hv].
    cbn [apply_hist]. apply IH; [apply st_ok_step; assumption|exact Hv].
  Qed.

  Lemma st_ok_nil : st_ok H HO [].
  Proof. split; [constructor|intros h []]. Qed.

  Lemma spec_blocks_app : forall (l1 l2 : list block) s,
    spec_blocks H HO s (l1 ++ l2) = spec_blocks H HO s l1 ++ spec_blocks H HO (apply_hist H HO s l1) l2.
  Proof. induction l1 as [|b l1 IH]; intros l2 s; [reflexivity|]. cbn [app spec_blocks apply_hist]. rewrite IH. reflexivity. Qed.

  Lemma spec_blocks_length : forall (l : list block) s, length (spec_blocks H HO s l) = length l.
  Proof. induction l as [|b l IH]; intros s; [reflexivity|]. cbn [spec_blocks length]. rewrite IH. reflexivity. Qed.

  (** ** the closed form, split at a block *)
  Fixpoint exp_head (base : nat) (pre suf : list block) : list (list (N * N)) :=
    match pre with
    | [] => []
    | b :: r => toa H HO base (snd b) (r ++ suf) :: exp_head (base + length (snd b)) r suf
    end.

  Lemma exp_char_app : forall (pre suf : list block) base,
    exp_char H HO base (pre ++ suf) = exp_head base pre suf ++ exp_char H HO (base + total_adds H pre) suf.
  Proof.
    induction pre as [|b pre IH]; intros suf base; cbn [app exp_char exp_head total_adds].
    - rewrite Nat.add_0_r. reflexivity.
    - rewrite IH. do 3 f_equal. lia.
  Qed.

  Lemma exp_head_snoc : forall (pre : list block) b suf base,
    exp_head base (pre ++ [b]) suf
    = exp_head base pre (b :: suf) ++ [toa H HO (base + total_adds H pre) (snd b) suf].
  Proof.
    induction pre as [|x pre IH]; intros b suf base; cbn [app exp_head total_adds].
    - rewrite Nat.add_0_r. reflexivity.
    - rewrite IH, <- app_assoc. cbn [app]. do 4 f_equal. lia.
  Qed.

  Definition cv (t : list (list (N * N))) : list (list (N * Z)) :=
    map (map (fun e => (fst e, Z.of_N (snd e)))) t.

  (** ** the pending list: the leaves of the current state that a later block deletes *)
  Record pend_inv (pre suf : list block) (L : list (H * nat)) : Prop := mkPI {
    pi_nodup : NoDup (map fst L);
    pi_sound : forall h D, In (h, D) L ->
      In (Some h) (S_ pre) /\ exists d, D = (length pre + d)%nat /\ del_block H HO suf h = Some d;
    pi_complete : forall h d, In (Some h) (S_ pre) -> del_block H HO suf h = Some d ->
      In (h, (length pre + d)%nat) L
  }.

  Lemma pend_inv_nil (blocks : list block) : pend_inv blocks [] [].
  Proof. constructor; [constructor|intros h D []|intros h d _ E; discriminate]. Qed.

  Lemma pend_inv_step (pre : list block) (b : block) suf L :
    valid_block H HO (S_ pre) b -> pend_inv (pre ++ [b]) suf L ->
    pend_inv pre (b :: suf)
      (filter (fun p => negb (memH HO (fst p) (snd b))) L ++ map (fun h => (h, length pre)) (fst b)).
  Proof.
    destruct b as [dels adds]. cbn [fst snd]. intros (Hd1 & Hd2 & Ha1 & Ha2) [P1 P2 P3]. cbn [fst snd] in *.
    assert (ES : S_ (pre ++ [(dels, adds)]) = kill HO dels (S_ pre) ++ map Some adds)
      by (rewrite apply_hist_app; reflexivity).
    rewrite ES in P2, P3. rewrite app_length in P2, P3. cbn [length] in P2, P3.
    set (Lk := filter (fun p => negb (memH HO (fst p) adds)) L).
    assert (HLk : forall h D, In (h, D) Lk -> In (h, D) L /\ memH HO h adds = false).
    { intros h D Hin. apply filter_In in Hin as [Hin Hm]. apply negb_true_iff in Hm. auto. }
    assert (Hold : forall h D, In (h, D) Lk -> In (Some h) (S_ pre) /\ memH HO h dels = false).
    { intros h D Hin. apply HLk in Hin as [Hin Hm]. destruct (P2 h D Hin) as [Hl _].
      apply in_app_or in Hl as [Hl|Hl]; [apply (kill_live H HO) in Hl; exact Hl|].
      apply in_map_iff in Hl as (a & Ea & Ha). injection Ea as ->.
      apply (memH_In H HO HOK) in Ha. congruence. }
    constructor.
    - rewrite map_app, map_map. cbn [fst]. rewrite map_id.
      apply NoDup_app_intro'; [apply NoDup_map_filter, P1|exact Hd1|].
      intros h Hh Hd. apply in_map_iff in Hh as ([h' D] & <- & Hin). cbn [fst] in *.
      destruct (Hold h' D Hin) as [_ Hm]. apply (memH_In H HO HOK) in Hd. congruence.
    - intros h D Hin. apply in_app_or in Hin as [Hin|Hin].
      + destruct (Hold h D Hin) as [Hl Hm]. split; [exact Hl|].
        apply HLk in Hin as [Hin _]. destruct (P2 h D Hin) as [_ (d & -> & Ed)].
        exists (S d). split; [lia|]. cbn [del_block fst]. rewrite Hm, Ed. reflexivity.
      + apply in_map_iff in Hin as (h' & [= <- <-] & Hh). split; [apply Hd2, Hh|].
        exists 0%nat. split; [lia|]. cbn [del_block fst].
        apply (memH_In H HO HOK) in Hh. rewrite Hh. reflexivity.
    - intros h d Hl Ed. cbn [del_block fst] in Ed. apply in_or_app.
      destruct (memH HO h dels) eqn:Em.
      + injection Ed as <-. right. apply in_map_iff. exists h. rewrite Nat.add_0_r.
        split; [reflexivity|apply (memH_In H HO HOK), Em].
      + destruct (del_block H HO suf h) as [d'|] eqn:Ed'; [|discriminate]. cbn [option_map] in Ed.
        injection Ed as <-. left. apply filter_In. cbn [fst]. split.
        * replace (length pre + S d')%nat with (length pre + 1 + d')%nat by lia. apply P3; [|exact Ed'].
          apply in_or_app. left. apply (kill_live H HO). auto.
        * apply negb_true_iff. destruct (memH HO h adds) eqn:Ea; [|reflexivity].
          apply (memH_In H HO HOK) in Ea. exfalso. exact (proj2 (Ha2 h Ea) Hl).
  Qed.

  Lemma ttls_of_toa (pre : list block) b suf L :
    pend_inv (pre ++ [b]) suf L ->
    forall todo base, (forall a, In a todo -> In (Some a) (S_ (pre ++ [b]))) ->
    ttls_of H HO (length pre) base todo L
    = map (fun e => (fst e, Z.of_N (snd e))) (toa H HO base todo suf).
  Proof.
    intros [P1 P2 P3]. rewrite app_length in P2, P3. cbn [length] in P2, P3.
    induction todo as [|a todo IH]; intros base Hl; [reflexivity|].
    cbn [ttls_of toa]. rewrite map_app, IH by (intros x Hx; apply Hl; right; exact Hx). f_equal.
    destruct (idxH H HO a (map fst L)) as [k|] eqn:Ek.
    - apply (idxH_some H HO HOK) in Ek. rewrite nth_error_map in Ek.
      destruct (nth_error L k) as [[h D]|] eqn:Ep; [|discriminate]. cbn [option_map fst] in Ek. injection Ek as ->.
      pose proof (nth_error_In _ _ Ep) as Hin. destruct (P2 a D Hin) as [_ (d & -> & Ed)]. rewrite Ed.
      assert (En : nth k (map snd L) 0%nat = (length pre + 1 + d)%nat).
      { apply nth_error_nth. rewrite nth_error_map, Ep. reflexivity. }
      rewrite En. cbn [map fst snd]. do 2 f_equal. lia.
    - destruct (del_block H HO suf a) as [d|] eqn:Ed; [|reflexivity]. exfalso.
      apply (idxH_none H HO HOK) in Ek. apply Ek. apply in_map_iff.
      exists (a, (length pre + 1 + d)%nat). split; [reflexivity|].
      apply P3; [apply Hl; left; reflexivity|exact Ed].
  Qed.

  Hypothesis HA : undo_add_spec H HO.
  Hypothesis HD : undo_del_spec H HO.

  (** the loop of [genTTLs] from the state it has after the blocks [suf] (newest first), on the tracker
      content of the reference *)
  Lemma gen_from : forall (pre suf : list block) L acc,
    valid_hist H HO [] (pre ++ suf) -> N.of_nat (total_adds H (pre ++ suf)) <= 2 ^ 62 ->
    pend_inv pre suf L ->
    gen_loop (rev (spec_blocks H HO [] pre)) (map (lp (S_ pre)) (map fst L)) (map snd L) acc
    = Some (cv (exp_head 0 pre suf) ++ acc).
  Proof.
    induction pre as [|b pre IH] using rev_ind; intros suf L acc Hv Hb HP; [reflexivity|].
    rewrite spec_blocks_app, rev_app_distr. cbn [spec_blocks rev app gen_loop].
    rewrite rev_length, spec_blocks_length.
    rewrite <- app_assoc in Hv, Hb. cbn [app] in Hv, Hb.
    pose proof (valid_hist_app pre (b :: suf) [] Hv) as [Hv1 [Hvb _]].
    pose proof (st_ok_hist pre [] st_ok_nil Hv1) as Hs.
    pose proof (st_ok_step _ b Hs Hvb) as Hs2.
    destruct b as [dels adds]. cbn [fst snd] in *.
    assert (ES : S_ (pre ++ [(dels, adds)]) = apply_block HO (S_ pre) dels adds)
      by (rewrite apply_hist_app; reflexivity).
    rewrite ES.
    assert (Hbound : N.of_nat (length (S_ pre) + length adds) <= 2 ^ 62).
    { rewrite length_apply_hist. rewrite total_adds_app in Hb. cbn [total_adds snd length] in *. lia. }
    pose proof (gen_step_spec H HO HOK HA HD (S_ pre) dels adds L (length pre) Hs Hs2 Hvb Hbound (pi_nodup _ _ _ HP)) as Hstep.
    cbv zeta in Hstep. rewrite Hstep.
    2:{ intros [h D] Hin. cbn [fst]. rewrite <- ES. exact (proj1 (pi_sound _ _ _ HP h D Hin)). }
    pose proof (pend_inv_step pre (dels, adds) suf L Hvb HP) as HP'. cbn [fst snd] in HP'.
    rewrite (IH (( dels, adds) :: suf) _ _ Hv Hb HP').
    f_equal. rewrite exp_head_snoc. unfold cv. rewrite map_app, <- app_assoc. cbn [map app snd]. do 2 f_equal.
    rewrite (ttls_of_toa pre (dels, adds) suf L HP).
    - rewrite length_apply_hist. reflexivity.
    - intros a Ha. rewrite ES. unfold apply_block. apply in_or_app. right. apply in_map, Ha.
  Qed.

  Lemma hist_summaries_some : forall (blocks : list block) s, valid_hist H HO s blocks ->
    exists sm, hist_summaries H HO s blocks = Some sm.
  Proof.
    induction blocks as [|[dels adds] blocks IH]; intros s Hv; [eexists; reflexivity|].
    destruct Hv as [(_ & Hd & _) Hv]. cbn [fst snd] in *. cbn [hist_summaries].
    pose proof (exp_prove_live H HO HOK s dels Hd) as Hp.
    destruct (exp_prove HO (mk_ctx HO s) dels) as [[ts pf]|]; [|contradiction].
    destruct (IH _ Hv) as [r ->]. eexists; reflexivity.
  Qed.

  Hypothesis HT : tracker_spec H HO.

  (** the statement, for every valid history, from the three components *)
  Theorem ttl_correct_from_components (blocks : list block) :
    valid_hist H HO [] blocks -> N.of_nat (total_adds H blocks) <= 2 ^ 62 -> ttl_correct H HO blocks.
  Proof.
    intros Hv Hb. destruct (hist_summaries_some blocks [] Hv) as [sm Esm].
    exists sm. split; [exact Esm|].
    destruct (HT blocks sm Hv Hb Esm) as (cs & Ecs & [W1 W2 W3 _] & Ebl).
    unfold ttl_run. rewrite Ecs. unfold ttl_gen. rewrite W1, W2, W3, Nat.eqb_refl. cbn [andb].
    rewrite Ebl.
    pose proof (gen_from blocks [] [] [] ltac:(rewrite app_nil_r; exact Hv) ltac:(rewrite app_nil_r; exact Hb)
                  (pend_inv_nil blocks)) as Hg.
    cbn [map] in Hg. rewrite Hg, app_nil_r. f_equal.
    unfold exp_ttls_z. rewrite exp_ttls_char.
    pose proof (exp_char_app blocks [] 0) as Ea. rewrite app_nil_r in Ea. cbn [exp_char] in Ea.
    rewrite app_nil_r in Ea. rewrite Ea. reflexivity.
  Qed.
End Walk.

Print Assumptions add_block_summary_total.
Print Assumptions ttl_gen_shape.
Print Assumptions ttl_correct_no_deletions.
Print Assumptions exp_ttls_char.
Print Assumptions ttl_correct_from_components.
