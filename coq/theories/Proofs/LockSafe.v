(** C12 - proofs about the lock protocol of [Spec/LockProto.v]:
    a well-formed table implies race freedom, whole-block atomicity and absence of deadlock. *)
From Coq Require Import List Bool Arith Lia String.
From Utreexo Require Import Spec.LockProto.
Import ListNotations.

(** * Lists: [upd] and counting *)

Lemma nth_error_upd_same : forall (A : Type) (l : list A) i x y,
  nth_error l i = Some y -> nth_error (upd l i x) i = Some x.
Proof.
  intros A l; induction l as [|h tl IH]; intros i x y Hn; destruct i; simpl in *;
    try discriminate; auto.
  eapply IH; eauto.
Qed.

Lemma nth_error_upd_other : forall (A : Type) (l : list A) i j x,
  i <> j -> nth_error (upd l i x) j = nth_error l j.
Proof.
  intros A l; induction l as [|h tl IH]; intros i j x Hne; destruct i, j; simpl; auto;
    try congruence.
Qed.

Lemma nth_error_upd_inv : forall (A : Type) (l : list A) i k x y z,
  nth_error l i = Some y -> nth_error (upd l i x) k = Some z ->
  (k = i /\ z = x) \/ (k <> i /\ nth_error l k = Some z).
Proof.
  intros A l i k x y z Hi Hk.
  destruct (Nat.eq_dec k i) as [He|Hne].
  - subst k. left; split; auto.
    rewrite (nth_error_upd_same _ _ _ _ _ Hi) in Hk. congruence.
  - right; split; auto. rewrite nth_error_upd_other in Hk; auto.
Qed.

Fixpoint cnt (p : tstate -> bool) (l : list tstate) : nat :=
  match l with
  | [] => 0
  | x :: tl => (if p x then 1 else 0) + cnt p tl
  end.

Lemma cnt_upd : forall p l i x y,
  nth_error l i = Some y ->
  cnt p (upd l i x) + (if p y then 1 else 0) = cnt p l + (if p x then 1 else 0).
Proof.
  intros p l; induction l as [|h tl IH]; intros i x y Hn; destruct i; simpl in *;
    try discriminate.
  - injection Hn as Hn; subst h. lia.
  - specialize (IH _ x _ Hn). lia.
Qed.

Lemma cnt_ge1 : forall p l i y,
  nth_error l i = Some y -> p y = true -> 1 <= cnt p l.
Proof.
  intros p l; induction l as [|h tl IH]; intros i y Hn Hp; destruct i; simpl in *;
    try discriminate.
  - injection Hn as Hn; subst h. rewrite Hp. lia.
  - specialize (IH _ _ Hn Hp). lia.
Qed.

Lemma cnt_ge2 : forall p l i j x y,
  i <> j -> nth_error l i = Some x -> nth_error l j = Some y ->
  p x = true -> p y = true -> 2 <= cnt p l.
Proof.
  intros p l; induction l as [|h tl IH]; intros i j x y Hne Hi Hj Hx Hy;
    destruct i, j; simpl in *; try discriminate; try congruence.
  - injection Hi as Hi; subst h. rewrite Hx.
    pose proof (cnt_ge1 _ _ _ _ Hj Hy). lia.
  - injection Hj as Hj; subst h. rewrite Hy.
    pose proof (cnt_ge1 _ _ _ _ Hi Hx). lia.
  - assert (Hne' : i <> j) by congruence.
    specialize (IH _ _ _ _ Hne' Hi Hj Hx Hy). lia.
Qed.

Lemma cnt_repeat_false : forall p x n, p x = false -> cnt p (repeat x n) = 0.
Proof.
  intros p x n Hp; induction n as [|n IH]; simpl; auto. rewrite Hp, IH. reflexivity.
Qed.

Lemma cnt_zero_none : forall p l i y,
  cnt p l = 0 -> nth_error l i = Some y -> p y = false.
Proof.
  intros p l i y Hc Hn. destruct (p y) eqn:Hp; auto.
  pose proof (cnt_ge1 _ _ _ _ Hn Hp). lia.
Qed.

(** * What the discipline gives for one row *)

Lemma wf_entry : forall t r,
  wf_table t = true -> entry t r -> row_disciplined r = true.
Proof.
  intros t r Hwf [Hin [Hexp Hexc]].
  unfold wf_table in Hwf. rewrite forallb_forall in Hwf.
  assert (Hr : wf_row r = true).
  { apply Hwf. apply filter_In. split; assumption. }
  unfold wf_row in Hr. rewrite Hexc in Hr. simpl in Hr. exact Hr.
Qed.

Record disciplined (r : method_row) : Prop := mkDisc {
  d_writes : forall f, In f (writes r) -> lock r = Some MW;
  d_reads : forall f, In f (reads r) -> lock r <> None;
  d_deferred : lock r <> None -> deferred r = true;
  d_nocall : calls_locking r = false;
  d_noimm : writes_immutable r = false;
  d_prer : pre_reads r = [];
  d_prew : pre_writes r = []
}.

Lemma row_disciplined_spec : forall r, row_disciplined r = true -> disciplined r.
Proof.
  intros r H. unfold row_disciplined in H.
  rewrite !andb_true_iff in H.
  destruct H as [[[[[[Hw Hr] Hd] Hc] Hi] Hpr] Hpw].
  constructor.
  - intros f Hin. destruct (writes r) as [|w ws]; [contradiction|].
    simpl in Hw. destruct (lock r) as [[|]|]; simpl in Hw; try discriminate. reflexivity.
  - intros f Hin. destruct (reads r) as [|w ws]; [contradiction|].
    simpl in Hr. destruct (lock r) as [m|]; simpl in Hr; discriminate.
  - intros Hl. destruct (lock r) as [m|]; [|congruence]. simpl in Hd. exact Hd.
  - destruct (calls_locking r); simpl in *; congruence.
  - destruct (writes_immutable r); simpl in *; congruence.
  - destruct (pre_reads r); simpl in *; congruence.
  - destruct (pre_writes r); simpl in *; congruence.
Qed.

(** * The invariant *)

Definition isR (st : tstate) : bool :=
  match st with
  | Running r _ => match lock r with Some MR => true | _ => false end
  | _ => false
  end.

Definition isW (st : tstate) : bool :=
  match st with
  | Running r _ => match lock r with Some MW => true | _ => false end
  | _ => false
  end.

(** [writer = true] iff exactly one Running thread holds [MW], and then no Running thread holds
    [MR]; [readers] is the number of Running [MR] threads; Waiting and Running threads are instances
    of entry points and the remaining accesses belong to the row; nobody is in a nested
    acquisition. *)
Record Inv (t : list method_row) (c : config) : Prop := mkInv {
  inv_wait : forall i r, nth_error (snd c) i = Some (Waiting r) -> entry t r;
  inv_run : forall i r accs, nth_error (snd c) i = Some (Running r accs) ->
            entry t r /\ Forall (acc_in_row r) accs;
  inv_nonest : forall i r m accs, nth_error (snd c) i <> Some (Nested r m accs);
  inv_readers : readers (fst c) = cnt isR (snd c);
  inv_wtrue : writer (fst c) = true -> cnt isW (snd c) = 1 /\ cnt isR (snd c) = 0;
  inv_wfalse : writer (fst c) = false -> cnt isW (snd c) = 0
}.

Lemma nth_error_repeat : forall (A : Type) (x y : A) n i,
  nth_error (repeat x n) i = Some y -> y = x.
Proof.
  intros A x y n i H. apply nth_error_In in H. apply repeat_spec in H. exact H.
Qed.

Lemma Inv_init : forall t n, Inv t (init n).
Proof.
  intros t n. unfold init. constructor; simpl.
  - intros i r H. apply nth_error_repeat in H. discriminate.
  - intros i r accs H. apply nth_error_repeat in H. discriminate.
  - intros i r m accs H. apply nth_error_repeat in H. discriminate.
  - rewrite cnt_repeat_false; reflexivity.
  - intros H; discriminate.
  - intros _. apply cnt_repeat_false. reflexivity.
Qed.

(** Thread-state clauses after an update at [i]: either the updated thread or an old one. *)
Ltac upd_cases Hi Hk :=
  let Hz := fresh "Hz" in let Hne := fresh "Hne" in let Hk' := fresh "Hk'" in
  destruct (nth_error_upd_inv _ _ _ _ _ _ _ Hi Hk) as [[? Hz]|[Hne Hk']];
  [ subst; try discriminate; try (injection Hz as ? ?; subst) | ].

Lemma Inv_step : forall t c l c',
  wf_table t = true -> Inv t c -> step t c l c' -> Inv t c'.
Proof.
  intros t c l c' Hwf HI Hs.
  destruct HI as [Iw Ir In_ IR IWt IWf].
  inversion Hs as
    [ lk ths i r Hi He
    | lk ths i r a Hi Ha
    | lk lk' ths i r accs Hi Hacc Hq
    | lk ths i r a rest Hi
    | lk ths i r Hi
    | lk ths i r Hi Hd
    | lk ths i r m accs Hi Hc
    | lk lk' ths i r m accs Hi Hq
    | lk ths i Hi ]; subst; simpl in *.
  - (* start *)
    pose proof (cnt_upd isR _ _ (Waiting r) _ Hi) as HR.
    pose proof (cnt_upd isW _ _ (Waiting r) _ Hi) as HW. simpl in HR, HW.
    constructor; simpl.
    + intros k r' Hk. upd_cases Hi Hk; eauto; try congruence.
    + intros k r' accs Hk. upd_cases Hi Hk; eauto.
    + intros k r' m accs Hk. upd_cases Hi Hk; eauto; try (eapply In_; eauto).
    + lia.
    + intros Hw. specialize (IWt Hw). lia.
    + intros Hw. specialize (IWf Hw). lia.
  - (* pre-lock access: the configuration does not change *)
    constructor; simpl; auto.
  - (* acquire *)
    pose proof (cnt_upd isR _ _ (Running r accs) _ Hi) as HR.
    pose proof (cnt_upd isW _ _ (Running r accs) _ Hi) as HW. simpl in HR, HW.
    pose proof (Iw _ _ Hi) as Hent.
    constructor; simpl.
    + intros k r' Hk. upd_cases Hi Hk; eauto.
    + intros k r' accs' Hk. upd_cases Hi Hk; eauto; try congruence.
    + intros k r' m accs' Hk. upd_cases Hi Hk; eauto; try (eapply In_; eauto).
    + destruct (lock r) as [[|]|]; simpl in *.
      * destruct (writer lk); [discriminate|]. injection Hq as <-. simpl. lia.
      * destruct (writer lk); [discriminate|]. destruct (readers lk); [|discriminate].
        injection Hq as <-. simpl. lia.
      * injection Hq as <-. lia.
    + destruct (lock r) as [[|]|]; simpl in *.
      * destruct (writer lk); [discriminate|]. injection Hq as <-. simpl. discriminate.
      * destruct (writer lk) eqn:Hw; [discriminate|]. destruct (readers lk); [|discriminate].
        injection Hq as <-. simpl. intros _. specialize (IWf eq_refl). lia.
      * injection Hq as <-. intros Hw. specialize (IWt Hw). lia.
    + destruct (lock r) as [[|]|]; simpl in *.
      * destruct (writer lk) eqn:Hw; [discriminate|]. injection Hq as <-. simpl.
        intros _. specialize (IWf eq_refl). lia.
      * destruct (writer lk); [discriminate|]. destruct (readers lk); [|discriminate].
        injection Hq as <-. simpl. discriminate.
      * injection Hq as <-. intros Hw. specialize (IWf Hw). lia.
  - (* access *)
    pose proof (cnt_upd isR _ _ (Running r rest) _ Hi) as HR.
    pose proof (cnt_upd isW _ _ (Running r rest) _ Hi) as HW. simpl in HR, HW.
    destruct (Ir _ _ _ Hi) as [Hent Hall].
    constructor; simpl.
    + intros k r' Hk. upd_cases Hi Hk; eauto.
    + intros k r' accs' Hk. upd_cases Hi Hk; eauto.
      split; auto. inversion Hall; assumption.
    + intros k r' m accs' Hk. upd_cases Hi Hk; eauto; try (eapply In_; eauto).
    + lia.
    + intros Hw. specialize (IWt Hw). lia.
    + intros Hw. specialize (IWf Hw). lia.
  - (* release *)
    pose proof (cnt_upd isR _ _ Done _ Hi) as HR.
    pose proof (cnt_upd isW _ _ Done _ Hi) as HW. simpl in HR, HW.
    constructor; simpl.
    + intros k r' Hk. upd_cases Hi Hk; eauto.
    + intros k r' accs' Hk. upd_cases Hi Hk; eauto.
    + intros k r' m accs' Hk. upd_cases Hi Hk; eauto; try (eapply In_; eauto).
    + destruct (lock r) as [[|]|]; simpl in *; lia.
    + destruct (lock r) as [[|]|]; simpl in *.
      * intros Hw. specialize (IWt Hw). lia.
      * discriminate.
      * intros Hw. specialize (IWt Hw). lia.
    + destruct (lock r) as [[|]|]; simpl in *.
      * intros Hw. specialize (IWf Hw). lia.
      * intros _. destruct (writer lk) eqn:Hw.
        -- specialize (IWt eq_refl). lia.
        -- specialize (IWf eq_refl). lia.
      * intros Hw. specialize (IWf Hw). lia.
  - (* leak: only rows without lock can leave without unlocking *)
    destruct (Ir _ _ _ Hi) as [Hent _].
    pose proof (row_disciplined_spec _ (wf_entry _ _ Hwf Hent)) as HD.
    assert (Hl : lock r = None).
    { destruct (lock r) as [m|] eqn:Hl; auto.
      assert (Hne : lock r <> None) by congruence.
      pose proof (d_deferred _ HD Hne). congruence. }
    pose proof (cnt_upd isR _ _ Done _ Hi) as HR.
    pose proof (cnt_upd isW _ _ Done _ Hi) as HW. simpl in HR, HW.
    rewrite Hl in HR, HW.
    constructor; simpl.
    + intros k r' Hk. upd_cases Hi Hk; eauto.
    + intros k r' accs' Hk. upd_cases Hi Hk; eauto.
    + intros k r' m accs' Hk. upd_cases Hi Hk; eauto; try (eapply In_; eauto).
    + lia.
    + intros Hw. specialize (IWt Hw). lia.
    + intros Hw. specialize (IWf Hw). lia.
  - (* nested acquisition: impossible for a disciplined row *)
    destruct (Ir _ _ _ Hi) as [Hent _].
    pose proof (row_disciplined_spec _ (wf_entry _ _ Hwf Hent)) as HD.
    pose proof (d_nocall _ HD). congruence.
  - (* end of nested acquisition: nobody is nested *)
    exfalso. eapply In_; eauto.
  - (* again *)
    pose proof (cnt_upd isR _ _ Idle _ Hi) as HR.
    pose proof (cnt_upd isW _ _ Idle _ Hi) as HW. simpl in HR, HW.
    constructor; simpl.
    + intros k r' Hk. upd_cases Hi Hk; eauto.
    + intros k r' accs' Hk. upd_cases Hi Hk; eauto.
    + intros k r' m accs' Hk. upd_cases Hi Hk; eauto; try (eapply In_; eauto).
    + lia.
    + intros Hw. specialize (IWt Hw). lia.
    + intros Hw. specialize (IWf Hw). lia.
Qed.

Lemma Inv_exec : forall t c tr c',
  wf_table t = true -> exec t c tr c' -> Inv t c -> Inv t c'.
Proof.
  intros t c tr c' Hwf He. induction He as [c|c l c' tr c'' Hs He IH]; intros HI; auto.
  apply IH. eapply Inv_step; eauto.
Qed.

Lemma Inv_reachable : forall t n c,
  wf_table t = true -> reachable t n c -> Inv t c.
Proof.
  intros t n c Hwf [tr He]. eapply Inv_exec; eauto. apply Inv_init.
Qed.

Lemma exec_app : forall t c tr1 c1 tr2 c2,
  exec t c tr1 c1 -> exec t c1 tr2 c2 -> exec t c (tr1 ++ tr2) c2.
Proof.
  intros t c tr1 c1 tr2 c2 H1. induction H1 as [c|c l c' tr c'' Hs He IH]; intros H2; simpl; auto.
  econstructor; eauto.
Qed.

Lemma exec_one : forall t c l c', step t c l c' -> exec t c [l] c'.
Proof. intros. econstructor; eauto. constructor. Qed.

(** * Mutual exclusion *)

(** While a thread runs a W-locked row, every other Running thread runs a row without lock. *)
Lemma excl_W : forall t c i j r1 accs1 r2 accs2,
  Inv t c -> i <> j ->
  nth_error (snd c) i = Some (Running r1 accs1) -> lock r1 = Some MW ->
  nth_error (snd c) j = Some (Running r2 accs2) ->
  lock r2 = None.
Proof.
  intros t c i j r1 accs1 r2 accs2 HI Hne Hi Hl Hj.
  assert (HWi : isW (Running r1 accs1) = true) by (simpl; rewrite Hl; reflexivity).
  pose proof (cnt_ge1 isW _ _ _ Hi HWi) as Hge.
  destruct (writer (fst c)) eqn:Hw.
  - destruct (inv_wtrue _ _ HI Hw) as [H1 H0].
    destruct (lock r2) as [[|]|] eqn:Hl2; auto.
    + assert (HRj : isR (Running r2 accs2) = true) by (simpl; rewrite Hl2; reflexivity).
      pose proof (cnt_ge1 isR _ _ _ Hj HRj). lia.
    + assert (HWj : isW (Running r2 accs2) = true) by (simpl; rewrite Hl2; reflexivity).
      pose proof (cnt_ge2 isW _ _ _ _ _ Hne Hi Hj HWi HWj). lia.
  - pose proof (inv_wfalse _ _ HI Hw). lia.
Qed.

(** While a thread runs an R-locked row, no Running thread runs a W-locked row. *)
Lemma excl_R : forall t c i j r1 accs1 r2 accs2,
  Inv t c ->
  nth_error (snd c) i = Some (Running r1 accs1) -> lock r1 = Some MR ->
  nth_error (snd c) j = Some (Running r2 accs2) ->
  lock r2 <> Some MW.
Proof.
  intros t c i j r1 accs1 r2 accs2 HI Hi Hl Hj Hl2.
  assert (HRi : isR (Running r1 accs1) = true) by (simpl; rewrite Hl; reflexivity).
  assert (HWj : isW (Running r2 accs2) = true) by (simpl; rewrite Hl2; reflexivity).
  pose proof (cnt_ge1 isR _ _ _ Hi HRi).
  pose proof (cnt_ge1 isW _ _ _ Hj HWj).
  destruct (writer (fst c)) eqn:Hw.
  - destruct (inv_wtrue _ _ HI Hw). lia.
  - pose proof (inv_wfalse _ _ HI Hw). lia.
Qed.

(** What a thread of a well-formed table can do next: read the immutable part, or perform a guarded
    access inside its section, under a lock, a write under the W lock. *)
Lemma enabled_cases : forall t c i st a,
  wf_table t = true -> Inv t c ->
  nth_error (snd c) i = Some st -> enabled st a ->
  a = RdImm \/
  (exists r rest, st = Running r (a :: rest) /\ guarded a /\ lock r <> None /\
                  (is_write a -> lock r = Some MW)).
Proof.
  intros t c i st a Hwf HI Hi Hen.
  destruct st as [|r|r accs|r m accs|]; simpl in Hen; try contradiction.
  - (* Waiting: nothing but the immutable read is possible before the lock *)
    pose proof (row_disciplined_spec _ (wf_entry _ _ Hwf (inv_wait _ _ HI _ _ Hi))) as HD.
    destruct a as [f|f| |]; simpl in Hen; auto.
    + rewrite (d_prer _ HD) in Hen. contradiction.
    + rewrite (d_prew _ HD) in Hen. contradiction.
    + rewrite (d_noimm _ HD) in Hen. discriminate.
  - destruct accs as [|b rest]; [contradiction|]. subst b.
    destruct (inv_run _ _ HI _ _ _ Hi) as [Hent Hall].
    pose proof (row_disciplined_spec _ (wf_entry _ _ Hwf Hent)) as HD.
    inversion Hall as [|x l Ha Hrest]; subst.
    destruct a as [f|f| |]; simpl in Ha; auto.
    + right. exists r, rest. repeat split; simpl; auto; try contradiction.
      destruct Ha as [Ha|Ha].
      * eapply d_reads; eauto.
      * rewrite (d_writes _ HD _ Ha). discriminate.
    + right. exists r, rest. repeat split; simpl; auto.
      * rewrite (d_writes _ HD _ Ha). discriminate.
      * intros _. eapply d_writes; eauto.
    + rewrite (d_noimm _ HD) in Ha. discriminate.
Qed.

(** * (i) Race freedom *)

Theorem race_free : forall t n c,
  wf_table t = true -> reachable t n c -> ~ racy c.
Proof.
  intros t n c Hwf Hre Hracy.
  pose proof (Inv_reachable _ _ _ Hwf Hre) as HI.
  destruct Hracy as (i & j & si & sj & a & b & Hne & Hi & Hj & Hea & Heb & Hloc & Hwr).
  destruct (enabled_cases _ _ _ _ _ Hwf HI Hi Hea) as [Ha|(r1 & rest1 & Hs1 & Hg1 & Hl1 & Hw1)];
  destruct (enabled_cases _ _ _ _ _ Hwf HI Hj Heb) as [Hb|(r2 & rest2 & Hs2 & Hg2 & Hl2 & Hw2)];
    subst.
  - destruct Hwr as [[]|[]].
  - destruct b; simpl in *; try contradiction; discriminate.
  - destruct a; simpl in *; try contradiction; discriminate.
  - destruct Hwr as [Hwa|Hwb].
    + apply Hl2. eapply (excl_W _ _ i j); eauto.
    + apply Hl1. eapply (excl_W _ _ j i); eauto.
Qed.

(** * (ii) Whole-block atomicity *)

(** State form: while thread [i] is inside a W section, no other thread has a guarded access
    enabled. *)
Theorem writer_excludes_enabled : forall t n c i,
  wf_table t = true -> reachable t n c -> in_section c i MW ->
  forall j st a, nth_error (snd c) j = Some st -> enabled st a -> guarded a -> j = i.
Proof.
  intros t n c i Hwf Hre (r & accs & Hi & Hl) j st a Hj Hen Hg.
  pose proof (Inv_reachable _ _ _ Hwf Hre) as HI.
  destruct (Nat.eq_dec j i) as [|Hne]; auto. exfalso.
  destruct (enabled_cases _ _ _ _ _ Hwf HI Hj Hen) as [Ha|(r2 & rest2 & Hs2 & _ & Hl2 & _)].
  - subst a. contradiction.
  - subst st. apply Hl2. eapply (excl_W _ _ i j); eauto.
Qed.

(** State form for readers: while thread [i] is inside an R section, no thread at all has a write
    enabled. *)
Theorem reader_excludes_enabled_write : forall t n c i,
  wf_table t = true -> reachable t n c -> in_section c i MR ->
  forall j st a, nth_error (snd c) j = Some st -> enabled st a -> ~ is_write a.
Proof.
  intros t n c i Hwf Hre (r & accs & Hi & Hl) j st a Hj Hen Hw.
  pose proof (Inv_reachable _ _ _ Hwf Hre) as HI.
  destruct (enabled_cases _ _ _ _ _ Hwf HI Hj Hen) as [Ha|(r2 & rest2 & Hs2 & _ & _ & Hl2)].
  - subst a. contradiction.
  - subst st. eapply (excl_R _ _ i j); eauto.
Qed.

(** A thread stays inside its section until its release step. *)
Lemma section_persists : forall t c l c' i m,
  wf_table t = true -> Inv t c -> step t c l c' ->
  in_section c i m -> l <> LRelease i -> in_section c' i m.
Proof.
  intros t c l c' i m Hwf HI Hs (r0 & accs0 & Hi & Hl) Hnr.
  assert (HD : disciplined r0).
  { destruct (inv_run _ _ HI _ _ _ Hi) as [Hent _].
    exact (row_disciplined_spec _ (wf_entry _ _ Hwf Hent)). }
  unfold in_section.
  inversion Hs as
    [ lk ths k r Hk He
    | lk ths k r a Hk Ha
    | lk lk' ths k r accs Hk Hacc Hq
    | lk ths k r a rest Hk
    | lk ths k r Hk
    | lk ths k r Hk Hd
    | lk ths k r m' accs Hk Hc
    | lk lk' ths k r m' accs Hk Hq
    | lk ths k Hk ]; subst; simpl in *;
  try (destruct (Nat.eq_dec k i) as [->|Hne];
       [ rewrite Hi in Hk; try discriminate
       | exists r0, accs0; split; auto; rewrite nth_error_upd_other; auto ]).
  - (* access by i *)
    injection Hk as <- ->. exists r0, rest. split; auto. eapply nth_error_upd_same; eauto.
  - (* release by i *) congruence.
  - (* leak by i *)
    injection Hk as <- _. assert (Hne : lock r0 <> None) by congruence.
    pose proof (d_deferred _ HD Hne). congruence.
  - (* nest by i *)
    injection Hk as <- _. pose proof (d_nocall _ HD). congruence.
Qed.

(** Trace form, general: from any reachable configuration in which [i] is inside a W section, as
    long as [i] has not released, every guarded access step is a step of [i]. *)
Lemma writer_section_exclusive_from : forall t i c2 tr2 c3,
  wf_table t = true -> exec t c2 tr2 c3 -> Inv t c2 -> in_section c2 i MW ->
  ~ In (LRelease i) tr2 ->
  forall j a, In (LAccess j a) tr2 -> guarded a -> j = i.
Proof.
  intros t i c2 tr2 c3 Hwf He.
  induction He as [c|c l c' tr c'' Hs He IH]; intros HI Hsec Hnr j a Hin Hg.
  - contradiction.
  - destruct Hin as [Hl|Hin].
    + subst l. destruct (Nat.eq_dec j i) as [|Hne]; auto. exfalso.
      destruct Hsec as (r & accs & Hi & Hlk).
      inversion Hs as
        [ | lk ths k r' a' Hk Ha | | lk ths k r' a' rest Hk | | | | | ]; subst; simpl in *.
      * (* pre-lock access of j *)
        destruct (enabled_cases t (lk, ths) j (Waiting r') a Hwf HI Hk Ha)
          as [E|(r2 & rest2 & Hs2 & _)]; [subst a; contradiction|discriminate].
      * (* access of j inside its section *)
        destruct (enabled_cases t (lk, ths) j (Running r' (a :: rest)) a Hwf HI Hk eq_refl)
          as [E|(r2 & rest2 & Hs2 & _ & Hl2 & _)]; [subst a; contradiction|].
        injection Hs2 as <- <-. apply Hl2.
        eapply (excl_W t (lk, ths) i j); eauto.
    + eapply IH; eauto.
      * eapply Inv_step; eauto.
      * eapply section_persists; eauto. intros E; apply Hnr; left; exact E.
      * intros E; apply Hnr; right; exact E.
Qed.

Theorem writer_section_exclusive : forall t n i c2 tr2 c3,
  wf_table t = true -> reachable t n c2 -> in_section c2 i MW ->
  exec t c2 tr2 c3 -> ~ In (LRelease i) tr2 ->
  forall j a, In (LAccess j a) tr2 -> guarded a -> j = i.
Proof.
  intros t n i c2 tr2 c3 Hwf Hre Hsec He.
  eapply writer_section_exclusive_from; eauto. eapply Inv_reachable; eauto.
Qed.

(** Trace form as in the property: in any execution, between the acquire and the release of a
    writer every access to a guarded field belongs to that writer. *)
Theorem whole_block_atomic : forall t n tr1 c1 i c2 tr2 c3,
  wf_table t = true ->
  exec t (init n) tr1 c1 -> step t c1 (LAcquire i) c2 -> in_section c2 i MW ->
  exec t c2 tr2 c3 -> ~ In (LRelease i) tr2 ->
  forall j a, In (LAccess j a) tr2 -> guarded a -> j = i.
Proof.
  intros t n tr1 c1 i c2 tr2 c3 Hwf H1 Hs Hsec H2.
  eapply (writer_section_exclusive t n); eauto.
  exists (tr1 ++ [LAcquire i]). eapply exec_app; eauto. apply exec_one; auto.
Qed.

(** Readers: from any reachable configuration in which [i] is inside an R section, as long as [i]
    has not released, nobody performs a write. *)
Lemma reader_section_stable_from : forall t i c2 tr2 c3,
  wf_table t = true -> exec t c2 tr2 c3 -> Inv t c2 -> in_section c2 i MR ->
  ~ In (LRelease i) tr2 ->
  forall j a, In (LAccess j a) tr2 -> ~ is_write a.
Proof.
  intros t i c2 tr2 c3 Hwf He.
  induction He as [c|c l c' tr c'' Hs He IH]; intros HI Hsec Hnr j a Hin Hw.
  - contradiction.
  - destruct Hin as [Hl|Hin].
    + subst l. destruct Hsec as (r & accs & Hi & Hlk).
      inversion Hs as
        [ | lk ths k r' a' Hk Ha | | lk ths k r' a' rest Hk | | | | | ]; subst; simpl in *.
      * destruct (enabled_cases t (lk, ths) j (Waiting r') a Hwf HI Hk Ha)
          as [E|(r2 & rest2 & Hs2 & _)]; [subst a; contradiction|discriminate].
      * destruct (enabled_cases t (lk, ths) j (Running r' (a :: rest)) a Hwf HI Hk eq_refl)
          as [E|(r2 & rest2 & Hs2 & _ & _ & Hl2)]; [subst a; contradiction|].
        injection Hs2 as <- <-.
        eapply (excl_R t (lk, ths) i j); eauto.
    + eapply IH; eauto.
      * eapply Inv_step; eauto.
      * eapply section_persists; eauto. intros E; apply Hnr; left; exact E.
      * intros E; apply Hnr; right; exact E.
Qed.

(** Corollary for queries: between the acquire and the release of a reader no write step occurs,
    so all its reads see the state left by the last completed writer section. *)
Theorem reader_sees_stable_state : forall t n tr1 c1 i c2 tr2 c3,
  wf_table t = true ->
  exec t (init n) tr1 c1 -> step t c1 (LAcquire i) c2 -> in_section c2 i MR ->
  exec t c2 tr2 c3 -> ~ In (LRelease i) tr2 ->
  forall j a, In (LAccess j a) tr2 -> ~ is_write a.
Proof.
  intros t n tr1 c1 i c2 tr2 c3 Hwf H1 Hs Hsec H2.
  eapply reader_section_stable_from; eauto.
  eapply (Inv_reachable t n); eauto.
  exists (tr1 ++ [LAcquire i]). eapply exec_app; eauto. apply exec_one; auto.
Qed.

(** * (iii) No deadlock *)

Lemma find_running : forall ths : list tstate,
  (exists i r accs, nth_error ths i = Some (Running r accs)) \/
  (forall i r accs, nth_error ths i <> Some (Running r accs)).
Proof.
  induction ths as [|st tl IH].
  - right. intros [|i] r accs H; discriminate.
  - destruct st as [|r|r accs|r m accs|];
      try (destruct IH as [(i & r' & accs' & Hi)|Hno];
           [ left; exists (S i), r', accs'; exact Hi
           | right; intros [|i] r' accs' H; simpl in H; [discriminate|eapply Hno; eauto] ]).
    left. exists 0, r, accs. reflexivity.
Qed.

Lemma cnt_none : forall p l,
  (forall i y, nth_error l i = Some y -> p y = false) -> cnt p l = 0.
Proof.
  intros p l; induction l as [|h tl IH]; intros H; simpl; auto.
  rewrite (H 0 h eq_refl). rewrite IH; auto.
  intros i y Hi. apply (H (S i) y Hi).
Qed.

Lemma acquire_free : forall lk m,
  readers lk = 0 -> writer lk = false -> exists lk', acquire lk m = Some lk'.
Proof.
  intros lk m Hr Hw. destruct m as [[|]|]; simpl; rewrite ?Hw, ?Hr; eauto.
Qed.

(** In every reachable configuration in which some thread is waiting for the lock or inside an
    instance, some step is enabled.  (A Running thread can always step; if nobody is Running the
    lock is free, so a Waiting thread can acquire.) *)
Theorem no_deadlock : forall t n c,
  wf_table t = true -> reachable t n c -> some_thread_unfinished c -> can_step t c.
Proof.
  intros t n [lk ths] Hwf Hre (i & st & Hi & Hun).
  pose proof (Inv_reachable _ _ _ Hwf Hre) as HI. simpl in *.
  destruct (find_running ths) as [(k & r & accs & Hk)|Hno].
  - destruct accs as [|a rest].
    + exists (LRelease k). eexists. eapply step_release; eauto.
    + exists (LAccess k a). eexists. eapply step_access; eauto.
  - destruct st as [|r|r accs|r m accs|]; simpl in Hun; try contradiction.
    + assert (HR : cnt isR ths = 0).
      { apply cnt_none. intros j y Hj. destruct y; simpl; auto. exfalso; eapply Hno; eauto. }
      assert (HW : cnt isW ths = 0).
      { apply cnt_none. intros j y Hj. destruct y; simpl; auto. exfalso; eapply Hno; eauto. }
      assert (Hrd : readers lk = 0) by (pose proof (inv_readers _ _ HI) as E; simpl in E; lia).
      assert (Hwr : writer lk = false).
      { destruct (writer lk) eqn:Hw; auto.
        destruct (inv_wtrue _ _ HI Hw) as [H1 _]. simpl in H1. lia. }
      destruct (acquire_free lk (lock r) Hrd Hwr) as [lk' Hq].
      exists (LAcquire i). eexists. eapply step_acquire with (accs := []); eauto.
    + exfalso; eapply Hno; eauto.
    + exfalso. eapply (inv_nonest _ _ HI); eauto.
Qed.

(** * Examples *)

(** Non-vacuity: a well-formed two-row table and an explicit execution. *)
Definition ex_writer : method_row :=
  mkRow "Modify" (Some MW) true [] [FNodes] false false true false [] [].
Definition ex_reader : method_row :=
  mkRow "GetRoots" (Some MR) true [FNodes] [] false false true false [] [].
Definition ex_table : list method_row := [ex_writer; ex_reader].

Example ex_table_wf : wf_table ex_table = true.
Proof. reflexivity. Qed.

Example ex_execution :
  exec ex_table (init 2)
    [LStart 0 ex_writer; LAcquire 0; LAccess 0 (Wr FNodes)]
    (mkLock 0 true, [Running ex_writer []; Idle]).
Proof.
  econstructor.
  { eapply step_start with (i := 0) (r := ex_writer); [reflexivity|].
    unfold entry; simpl; auto. }
  simpl. econstructor.
  { eapply step_acquire with (i := 0) (r := ex_writer) (accs := [Wr FNodes]);
      [reflexivity| |reflexivity].
    repeat constructor. }
  simpl. econstructor.
  { eapply step_access with (i := 0) (r := ex_writer). reflexivity. }
  simpl. constructor.
Qed.

(** Refutation: a getter that reads [NumLeaves] without the lock (the shape of [GetNumLeaves] and
    [GetTreeRows] before their repair) next to a writer of [NumLeaves]: the table is rejected, and
    rightly so - a racy configuration is reachable. *)
Definition bad_getter : method_row :=
  mkRow "GetNumLeaves" None false [FNumLeaves] [] false false true false [] [].
Definition bad_writer : method_row :=
  mkRow "Modify" (Some MW) true [FNumLeaves] [FNumLeaves] false false true false [] [].
Definition bad_table : list method_row := [bad_getter; bad_writer].

Example bad_table_not_wf :
  wf_table bad_table = false /\ violations bad_table = ["GetNumLeaves"%string].
Proof. split; reflexivity. Qed.

Example bad_table_races : exists c, reachable bad_table 2 c /\ racy c.
Proof.
  exists (mkLock 0 true, [Running bad_writer [Wr FNumLeaves]; Running bad_getter [Rd FNumLeaves]]).
  split.
  - exists [LStart 0 bad_writer; LStart 1 bad_getter; LAcquire 0; LAcquire 1].
    econstructor.
    { eapply step_start with (i := 0) (r := bad_writer); [reflexivity|].
      unfold entry; simpl; auto. }
    simpl. econstructor.
    { eapply step_start with (i := 1) (r := bad_getter); [reflexivity|].
      unfold entry; simpl; auto. }
    simpl. econstructor.
    { eapply step_acquire with (i := 0) (r := bad_writer) (accs := [Wr FNumLeaves]);
        [reflexivity| |reflexivity].
      repeat constructor. }
    simpl. econstructor.
    { eapply step_acquire with (i := 1) (r := bad_getter) (accs := [Rd FNumLeaves]);
        [reflexivity| |reflexivity].
      repeat constructor. }
    simpl. constructor.
  - exists 0, 1, (Running bad_writer [Wr FNumLeaves]), (Running bad_getter [Rd FNumLeaves]),
      (Wr FNumLeaves), (Rd FNumLeaves).
    simpl. split; [discriminate|].
    split; [reflexivity|]. split; [reflexivity|]. split; [reflexivity|]. split; [reflexivity|].
    split; [reflexivity|]. left. exact I.
Qed.

(** Refutation: a method that holds the W lock and calls a method that takes the lock again
    ([calls_locking]) is rejected, and rightly so - it blocks itself for ever. *)
Definition nest_row : method_row :=
  mkRow "Outer" (Some MW) true [] [FNodes] true false true false [] [].
Definition nest_table : list method_row := [nest_row].

Example nest_table_not_wf : wf_table nest_table = false.
Proof. reflexivity. Qed.

Example nest_table_deadlocks :
  exists c, reachable nest_table 1 c /\ some_thread_unfinished c /\ ~ can_step nest_table c.
Proof.
  exists (mkLock 0 true, [Nested nest_row MW []]).
  split; [|split].
  - exists [LStart 0 nest_row; LAcquire 0; LNestBegin 0].
    econstructor.
    { eapply step_start with (i := 0) (r := nest_row); [reflexivity|].
      unfold entry; simpl; auto. }
    simpl. econstructor.
    { eapply step_acquire with (i := 0) (r := nest_row) (accs := []);
        [reflexivity|constructor|reflexivity]. }
    simpl. econstructor.
    { eapply step_nest_begin with (i := 0) (r := nest_row) (m := MW) (accs := []); reflexivity. }
    simpl. constructor.
  - exists 0, (Nested nest_row MW []). simpl. auto.
  - intros (l & c' & Hs).
    inversion Hs; subst;
      match goal with
      | H : nth_error _ ?i = Some _ |- _ => destruct i as [|[|?]]; simpl in H; try discriminate
      end.
    match goal with
    | H : Some _ = Some (Nested _ _ _) |- _ => injection H as ? ? ?; subst
    end.
    match goal with
    | H : acquire _ _ = Some _ |- _ => simpl in H; discriminate
    end.
Qed.
