(** Theorems about the abstract (reference-level) models used for C06, C07, C08, C09, C14. *)
From Utreexo Require Import Spec.Forest Proofs.SpecBasics.
From Coq Require Import Lia Arith PeanoNat.
Set Implicit Arguments.
Open Scope N_scope.

Section Abstract.
  Variable H : Type.
  Variable HO : ops H.
  Hypothesis HOK : ops_ok HO.

  (** ** C06: a block can be undone from the number of additions and the deleted (slot, hash) pairs *)
  (** the slots a block kills, with their hashes *)
  Fixpoint dead_slots (i : nat) (dels : list H) (s : slots H) : list (nat * H) :=
    match s with
    | [] => []
    | Some h :: t => (if memH HO h dels then [(i, h)] else []) ++ dead_slots (S i) dels t
    | None :: t => dead_slots (S i) dels t
    end.
  Fixpoint put_slot (i : nat) (h : H) (s : slots H) : slots H :=
    match s, i with
    | [], _ => []
    | _ :: t, O => Some h :: t
    | x :: t, S j => x :: put_slot j h t
    end.
  Definition restore (s : slots H) (r : list (nat * H)) : slots H :=
    fold_left (fun acc e => put_slot (fst e) (snd e) acc) r s.
  (** [spec_undo]: drop the last [numAdds] slots, put the deleted leaves back *)
  Definition spec_undo (s' : slots H) (numAdds : nat) (r : list (nat * H)) : slots H :=
    restore (firstn (length s' - numAdds) s') r.

  Lemma put_slot_length i h s : length (put_slot i h s) = length s.
  Proof. revert i; induction s as [|x s IH]; intros [|i]; cbn; auto. Qed.

  Lemma restore_cons_shift r : forall x s,
    (forall e, In e r -> (1 <= fst e)%nat) ->
    restore (x :: s) r = x :: restore s (map (fun e => (pred (fst e), snd e)) r).
  Proof.
    induction r as [|[i h] r IH]; intros x s Hr; cbn; [reflexivity|].
    assert (Hi : (1 <= i)%nat) by (apply (Hr (i, h)); left; reflexivity).
    destruct i as [|j]; [lia|]. cbn.
    unfold restore in IH. apply IH. intros e He. apply Hr. right; exact He.
  Qed.

  Lemma dead_slots_ge i dels s e : In e (dead_slots i dels s) -> (i <= fst e)%nat.
  Proof.
    revert i; induction s as [|[h|] s IH]; intros i; cbn; [tauto| |].
    - rewrite in_app_iff. intros [Hin|Hin].
      + destruct (memH HO h dels); [destruct Hin as [<-|[]]; cbn; lia|destruct Hin].
      + apply IH in Hin. lia.
    - intros Hin. apply IH in Hin. lia.
  Qed.

  Lemma dead_slots_shift i dels s :
    map (fun e => (pred (fst e), snd e)) (dead_slots (S i) dels s) = dead_slots i dels s.
  Proof.
    revert i; induction s as [|[h|] s IH]; intros i; cbn; [reflexivity| |].
    - rewrite map_app, IH. destruct (memH HO h dels); reflexivity.
    - apply IH.
  Qed.

  Lemma restore_app s r1 r2 : restore s (r1 ++ r2) = restore (restore s r1) r2.
  Proof. unfold restore. apply fold_left_app. Qed.

  Lemma kill_cons dels o s :
    kill HO dels (o :: s) =
    match o with Some h => if memH HO h dels then None else Some h | None => None end :: kill HO dels s.
  Proof. reflexivity. Qed.

  Lemma restore_kill dels s : restore (kill HO dels s) (dead_slots 0 dels s) = s.
  Proof.
    induction s as [|o s IH]; [reflexivity|].
    rewrite kill_cons.
    assert (Hge : forall e, In e (dead_slots 1 dels s) -> (1 <= fst e)%nat)
      by (intros e He; apply dead_slots_ge in He; exact He).
    destruct o as [h|]; cbn [dead_slots].
    - destruct (memH HO h dels) eqn:E; cbn [app].
      + change (restore (None :: kill HO dels s) ((0%nat, h) :: dead_slots 1 dels s))
          with (restore (Some h :: kill HO dels s) (dead_slots 1 dels s)).
        rewrite (restore_cons_shift _ _ _ Hge), (dead_slots_shift 0), IH. reflexivity.
      + rewrite (restore_cons_shift _ _ _ Hge), (dead_slots_shift 0), IH. reflexivity.
    - rewrite (restore_cons_shift _ _ _ Hge), (dead_slots_shift 0), IH. reflexivity.
  Qed.

  Theorem spec_undo_inverse s dels adds :
    spec_undo (apply_block HO s dels adds) (length adds) (dead_slots 0 dels s) = s.
  Proof.
    unfold spec_undo, apply_block.
    rewrite app_length, map_length, length_kill.
    replace (length s + length adds - length adds)%nat with (length (kill HO dels s))
      by (rewrite length_kill; lia).
    rewrite firstn_app, firstn_all, Nat.sub_diag. cbn [firstn]. rewrite app_nil_r.
    apply restore_kill.
  Qed.

  (** to any depth: undoing a list of blocks newest-first restores the state before them *)
  Fixpoint apply_blocks (s : slots H) (bs : list (list H * list H)) : slots H :=
    match bs with
    | [] => s
    | (d, a) :: rest => apply_blocks (apply_block HO s d a) rest
    end.
  Fixpoint undo_blocks (s : slots H) (bs : list (list H * list H)) (s' : slots H) : slots H :=
    (* [bs] oldest first, [s] the state before them, [s'] the state after them *)
    match bs with
    | [] => s'
    | (d, a) :: rest =>
        let s1 := apply_block HO s d a in
        spec_undo (undo_blocks s1 rest s') (length a) (dead_slots 0 d s)
    end.
  Theorem spec_undo_depth s bs : undo_blocks s bs (apply_blocks s bs) = s.
  Proof.
    revert s; induction bs as [|[d a] bs IH]; intros s; cbn; [reflexivity|].
    rewrite IH. apply spec_undo_inverse.
  Qed.

  (** ** C07 / C08: the set a light client holds *)
  Definition removeH (l dels : list H) : list H := filter (fun h => negb (memH HO h dels)) l.
  Definition cached_after (C dels rem : list H) : list H := removeH C dels ++ rem.
  Definition cached_after_undo (C' adds : list H) : list H := removeH C' adds.

  Lemma removeH_In l dels h : In h (removeH l dels) <-> In h l /\ ~ In h dels.
  Proof.
    unfold removeH. rewrite filter_In, negb_true_iff. split; intros [A B]; split; auto.
    - intros Hd. apply (memH_In H HO HOK) in Hd. congruence.
    - destruct (memH HO h dels) eqn:E; [|reflexivity]. apply (memH_In H HO HOK) in E. tauto.
  Qed.

  (** C07: exactly the previous leaves minus the deleted ones plus the remembered additions *)
  Theorem cached_after_spec C dels rem h :
    In h (cached_after C dels rem) <-> (In h C /\ ~ In h dels) \/ In h rem.
  Proof. unfold cached_after. rewrite in_app_iff, removeH_In. tauto. Qed.

  (** C08: after the undo, no leaf the block added, nothing invented, nothing lost that was
      cached before and not deleted by the block (additions are fresh, remembered ones are additions) *)
  Theorem cached_undo_spec C dels adds rem h :
    (forall a, In a adds -> ~ In a C) -> (forall r, In r rem -> In r adds) ->
    (In h (cached_after_undo (cached_after C dels rem) adds) <-> In h C /\ ~ In h dels).
  Proof.
    intros Hfresh Hrem. unfold cached_after_undo. rewrite removeH_In, cached_after_spec.
    split.
    - intros [[[A B]|A] N]; [tauto|]. exfalso. apply N, Hrem, A.
    - intros [A B]. split; [left; tauto|]. intros Ha. exact (Hfresh h Ha A).
  Qed.

  (** ** C14: combination and restriction on the level of leaf sets *)
  Fixpoint unionH (a b : list H) : list H :=
    match a with
    | [] => b
    | x :: t => if memH HO x b then unionH t b else x :: unionH t b
    end.
  Theorem unionH_spec a b h : In h (unionH a b) <-> In h a \/ In h b.
  Proof.
    induction a as [|x a IH]; cbn; [tauto|].
    destruct (memH HO x b) eqn:E.
    - rewrite IH. apply (memH_In H HO HOK) in E. split; [tauto|]. intros [[<-|A]|B]; auto.
    - cbn. rewrite IH. tauto.
  Qed.
  (** a restriction is covered exactly when every wanted leaf is held *)
  Definition covered (have want : list H) : bool := forallb (fun w => memH HO w have) want.
  Theorem covered_spec have want : covered have want = true <-> (forall w, In w want -> In w have).
  Proof.
    unfold covered. rewrite forallb_forall. split; intros Hc w Hw.
    - apply (memH_In H HO HOK), Hc, Hw.
    - apply (memH_In H HO HOK), Hc, Hw.
  Qed.
End Abstract.
