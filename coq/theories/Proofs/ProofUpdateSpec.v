(** [Proof.Update] (mirror: [Model.ProofUpdate.proof_update]) against the reference forest
    (property C07). *)
From Utreexo Require Import Base.Hash Model.Utils Model.UtilsFast Model.Verify Model.ProofOps
  Model.ProofUpdate Spec.Forest Spec.Oracle Spec.Geometry Spec.Term
  Proofs.UtilsGeom Proofs.UtilsGeom2 Proofs.SpecBasics Proofs.StumpAdd Proofs.LayoutStruct
  Proofs.ProofPosSpec Proofs.CalcTotal Proofs.CalcSound Proofs.CalcComplete Proofs.CachedVerifies
  Proofs.AbstractModels Proofs.StumpAddData Proofs.StumpDelData Proofs.ProofOpsSpec.
From Utreexo Require Proofs.RefTheory.
From Coq Require Import List Arith PeanoNat NArith Lia ZifyNat ZifyN ZifyBool Sorted Permutation.
Import ListNotations.
Open Scope N_scope.

Local Notation SSlt := (StronglySorted N.lt).
Local Notation SSle := (StronglySorted N.le).

(** * 1. Occurrences of subtrees in a placed compressed tree *)

Section Occ.
  Variable H : Type.
  Variable HO : ops H.
  Local Notation ctree := (ctree H).

  (** [occ c r o c0 r0 o0]: placing [c] at (r, o) places the subtree [c0] at (r0, o0) *)
  Inductive occ : ctree -> nat -> N -> ctree -> nat -> N -> Prop :=
  | occ_here c r o : occ c r o c r o
  | occ_left h l rr r o c0 r0 o0 :
      occ l r (2 * o) c0 r0 o0 -> occ (CNode h l rr) (S r) o c0 r0 o0
  | occ_right h l rr r o c0 r0 o0 :
      occ rr r (2 * o + 1) c0 r0 o0 -> occ (CNode h l rr) (S r) o c0 r0 o0.

  Lemma occ_trans c r o c1 r1 o1 c2 r2 o2 :
    occ c r o c1 r1 o1 -> occ c1 r1 o1 c2 r2 o2 -> occ c r o c2 r2 o2.
  Proof.
    intros H1 H2. induction H1 as [| h l rr r o c0 r0 o0 _ IH | h l rr r o c0 r0 o0 _ IH].
    - exact H2.
    - apply occ_left, IH, H2.
    - apply occ_right, IH, H2.
  Qed.

  Lemma occ_range c r o c0 r0 o0 : occ c r o c0 r0 o0 ->
    (r0 <= r)%nat /\ o * p2 (r - r0) <= o0 /\ o0 < (o + 1) * p2 (r - r0).
  Proof.
    induction 1 as [c r o | h l rr r o c0 r0 o0 _ IH | h l rr r o c0 r0 o0 _ IH].
    - rewrite Nat.sub_diag, p2_0. lia.
    - destruct IH as (Hr & Hlo & Hhi). split; [lia|].
      replace (S r - r0)%nat with (S (r - r0)) by lia. rewrite p2_S. lia.
    - destruct IH as (Hr & Hlo & Hhi). split; [lia|].
      replace (S r - r0)%nat with (S (r - r0)) by lia. rewrite p2_S. lia.
  Qed.

  Lemma occ_same_row c r o c0 o0 : occ c r o c0 r o0 -> c0 = c /\ o0 = o.
  Proof.
    intros Ho. inversion Ho; subst.
    - split; reflexivity.
    - match goal with X : occ _ _ _ _ _ _ |- _ => apply occ_range in X; lia end.
    - match goal with X : occ _ _ _ _ _ _ |- _ => apply occ_range in X; lia end.
  Qed.

  Lemma occ_uniq c r o c1 c2 r0 o0 :
    occ c r o c1 r0 o0 -> occ c r o c2 r0 o0 -> c1 = c2.
  Proof.
    intros H1. revert c2.
    induction H1 as [c r o | h l rr r o c0 r0 o0 H1 IH | h l rr r o c0 r0 o0 H1 IH]; intros c2 H2.
    - apply occ_same_row in H2 as [E _]. symmetry. exact E.
    - pose proof (occ_range _ _ _ _ _ _ H1) as (R1 & L1 & U1).
      inversion H2; subst.
      + lia.
      + apply IH. assumption.
      + match goal with X : occ rr _ _ _ _ _ |- _ => apply occ_range in X as (R2 & L2 & U2) end.
        exfalso. lia.
    - pose proof (occ_range _ _ _ _ _ _ H1) as (R1 & L1 & U1).
      inversion H2; subst.
      + lia.
      + match goal with X : occ l _ _ _ _ _ |- _ => apply occ_range in X as (R2 & L2 & U2) end.
        exfalso. lia.
      + apply IH. assumption.
  Qed.

  (** the occurrence is the whole tree or a child of an inner occurrence *)
  Lemma occ_parent c r o c0 r0 o0 : occ c r o c0 r0 o0 ->
    (c0 = c /\ r0 = r /\ o0 = o) \/
    exists h l rr o1, occ c r o (CNode h l rr) (S r0) o1 /\
                      ((c0 = l /\ o0 = 2 * o1) \/ (c0 = rr /\ o0 = 2 * o1 + 1)).
  Proof.
    induction 1 as [c r o | h l rr r o c0 r0 o0 H1 IH | h l rr r o c0 r0 o0 H1 IH].
    - left. auto.
    - right. destruct IH as [(-> & -> & ->)|(h' & l' & rr' & o1 & Ho & Hc)].
      + exists h, l, rr, o. split; [apply occ_here|left; auto].
      + exists h', l', rr', o1. split; [apply occ_left, Ho|exact Hc].
    - right. destruct IH as [(-> & -> & ->)|(h' & l' & rr' & o1 & Ho & Hc)].
      + exists h, l, rr, o. split; [apply occ_here|right; auto].
      + exists h', l', rr', o1. split; [apply occ_right, Ho|exact Hc].
  Qed.

  (** the coordinates between an occurrence and the top are occurrences *)
  Lemma occ_anc c r o c0 r0 o0 : occ c r o c0 r0 o0 -> forall j, (r0 + j <= r)%nat ->
    exists cj, occ c r o cj (r0 + j)%nat (o0 / p2 j) /\ occ cj (r0 + j)%nat (o0 / p2 j) c0 r0 o0.
  Proof.
    induction 1 as [c r o | h l rr r o c0 r0 o0 H1 IH | h l rr r o c0 r0 o0 H1 IH]; intros j Hj.
    - assert (j = 0%nat) by lia. subst j. rewrite Nat.add_0_r, p2_0, N.div_1_r.
      exists c. split; apply occ_here.
    - pose proof (occ_range _ _ _ _ _ _ H1) as (R1 & L1 & U1).
      destruct (Nat.eq_dec (r0 + j) (S r)) as [E|E].
      + exists (CNode h l rr). rewrite E.
        assert (Eo : o0 / p2 j = o).
        { assert (Ej : j = S (r - r0)) by lia. rewrite Ej, p2_S.
          pose proof (p2_pos (r - r0)) as Hp. symmetry.
          apply (N.div_unique o0 (2 * p2 (r - r0)) o (o0 - o * (2 * p2 (r - r0)))); lia. }
        rewrite Eo. split; [apply occ_here|apply occ_left, H1].
      + destruct (IH j ltac:(lia)) as (cj & A & B). exists cj. split; [apply occ_left, A|exact B].
    - pose proof (occ_range _ _ _ _ _ _ H1) as (R1 & L1 & U1).
      destruct (Nat.eq_dec (r0 + j) (S r)) as [E|E].
      + exists (CNode h l rr). rewrite E.
        assert (Eo : o0 / p2 j = o).
        { assert (Ej : j = S (r - r0)) by lia. rewrite Ej, p2_S.
          pose proof (p2_pos (r - r0)) as Hp. symmetry.
          apply (N.div_unique o0 (2 * p2 (r - r0)) o (o0 - o * (2 * p2 (r - r0)))); lia. }
        rewrite Eo. split; [apply occ_here|apply occ_right, H1].
      + destruct (IH j ltac:(lia)) as (cj & A & B). exists cj. split; [apply occ_right, A|exact B].
  Qed.

  Lemma occ_leaves c r o c0 r0 o0 : occ c r o c0 r0 o0 -> incl (cleaves H c0) (cleaves H c).
  Proof.
    induction 1 as [c r o | h l rr r o c0 r0 o0 _ IH | h l rr r o c0 r0 o0 _ IH].
    - apply incl_refl.
    - intros x Hx. cbn [cleaves]. apply in_or_app. left. apply IH, Hx.
    - intros x Hx. cbn [cleaves]. apply in_or_app. right. apply IH, Hx.
  Qed.

  Lemma occ_height c r o c0 r0 o0 : occ c r o c0 r0 o0 ->
    (cheight H c <= r)%nat -> (cheight H c0 <= r0)%nat.
  Proof.
    induction 1 as [c r o | h l rr r o c0 r0 o0 _ IH | h l rr r o c0 r0 o0 _ IH]; intros Hh.
    - exact Hh.
    - apply IH. cbn [cheight] in Hh. lia.
    - apply IH. cbn [cheight] in Hh. lia.
  Qed.

  Lemma leaf_occ (c : ctree) : forall r o h, In h (cleaves H c) -> (cheight H c <= r)%nat ->
    exists r0 o0, occ c r o (CLeaf h) r0 o0.
  Proof.
    induction c as [h0|h0 l IHl rr IHr]; intros r o h Hin Hh.
    - destruct Hin as [<-|[]]. exists r, o. apply occ_here.
    - cbn [cleaves] in Hin. cbn [cheight] in Hh. destruct r as [|r]; [lia|].
      apply in_app_or in Hin as [Hin|Hin].
      + destruct (IHl r (2 * o) h Hin ltac:(lia)) as (r0 & o0 & Ho).
        exists r0, o0. apply occ_left, Ho.
      + destruct (IHr r (2 * o + 1) h Hin ltac:(lia)) as (r0 & o0 & Ho).
        exists r0, o0. apply occ_right, Ho.
  Qed.

  (** occurrences and placed nodes *)
  Lemma occ_place c r o c0 r0 o0 : occ c r o c0 r0 o0 -> forall b tr,
    exists x, In x (place_tree c r o b tr) /\ nrow x = r0 /\ noff x = o0 /\
              nhash x = chash c0 /\ nleaf x = cleafb H c0 /\ ((r0 < r)%nat -> nroot x = false).
  Proof.
    induction 1 as [c r o | h l rr r o c0 r0 o0 H1 IH | h l rr r o c0 r0 o0 H1 IH]; intros b tr.
    - exists (head_node H c r o b tr). split; [apply place_tree_head_in|].
      cbn [head_node nrow noff nhash nleaf]. repeat split; try reflexivity. lia.
    - destruct (IH false tr) as (x & Hx & A & B & C & D & E). exists x.
      split; [cbn [place_tree]; right; apply in_or_app; left; exact Hx|].
      repeat split; try assumption. intros _.
      destruct (place_tree_tail H _ _ _ _ _ _ Hx) as [->|[_ Hn]]; [reflexivity|exact Hn].
    - destruct (IH false tr) as (x & Hx & A & B & C & D & E). exists x.
      split; [cbn [place_tree]; right; apply in_or_app; right; exact Hx|].
      repeat split; try assumption. intros _.
      destruct (place_tree_tail H _ _ _ _ _ _ Hx) as [->|[_ Hn]]; [reflexivity|exact Hn].
  Qed.

  Lemma place_occ (c : ctree) : forall r o b tr x, In x (place_tree c r o b tr) ->
    exists c0, occ c r o c0 (nrow x) (noff x) /\ nhash x = chash c0 /\ nleaf x = cleafb H c0.
  Proof.
    induction c as [h|h l IHl rr IHr]; intros r o b tr x Hx; cbn [place_tree] in Hx.
    - destruct Hx as [<-|[]]. exists (CLeaf h). split; [apply occ_here|split; reflexivity].
    - destruct Hx as [<-|Hx].
      + exists (CNode h l rr). split; [apply occ_here|split; reflexivity].
      + destruct r as [|r]; [destruct Hx|]. apply in_app_or in Hx as [Hx|Hx].
        * destruct (IHl _ _ _ _ _ Hx) as (c0 & A & B & C). exists c0.
          split; [apply occ_left, A|split; assumption].
        * destruct (IHr _ _ _ _ _ Hx) as (c0 & A & B & C). exists c0.
          split; [apply occ_right, A|split; assumption].
  Qed.
End Occ.

(** * 2. Subtree occurrences in the layout of a state; the known set and the canonical proof
      positions in terms of occurrences *)

Lemma pu_path_up_mem {H} (lay : list (node H)) : forall fuel r o tr j,
  (j <= fuel)%nat -> (r + j <= tr)%nat -> In ((r + j)%nat, o / p2 j) (path_up fuel lay r o tr).
Proof.
  induction fuel as [|f IH]; intros r o tr j Hj Hr.
  - assert (j = 0%nat) by lia. subst j. rewrite Nat.add_0_r, p2_0, N.div_1_r. left. reflexivity.
  - destruct j as [|j].
    + rewrite Nat.add_0_r, p2_0, N.div_1_r. left. reflexivity.
    + cbn [path_up]. right. destruct (Nat.ltb_spec r tr) as [Hlt|Hge]; [|lia].
      replace (r + S j)%nat with (S r + j)%nat by lia.
      replace (o / p2 (S j)) with (o / 2 / p2 j).
      * apply IH; lia.
      * rewrite p2_S, N.div_div; [reflexivity|lia|pose proof (p2_pos j); lia].
Qed.

Section Locc.
  Variable H : Type.
  Variable HO : ops H.
  Hypothesis HOK : ops_ok HO.
  Variable s : slots H.

  Local Notation lay := (layout HO s).
  Local Notation R := (rows_of (num_leaves s)).

  Definition locc (c0 : ctree H) (r0 : nat) (o0 : N) : Prop :=
    exists k lo c, In (k, lo, Some c) (forest HO s) /\ occ H c k (lo / 2 ^ N.of_nat k) c0 r0 o0.

  Lemma locc_node c0 r0 o0 : locc c0 r0 o0 ->
    exists x, In x lay /\ nrow x = r0 /\ noff x = o0 /\ nhash x = chash c0 /\
              nleaf x = cleafb H c0.
  Proof.
    intros (k & lo & c & He & Ho).
    destruct (occ_place H c _ _ _ _ _ Ho true k) as (x & Hx & A & B & C & D & _).
    exists x. split; [|auto]. apply (entry_layout H HO s (k, lo, Some c) x He). exact Hx.
  Qed.

  Lemma locc_entry_node c0 r0 o0 k lo c :
    In (k, lo, Some c) (forest HO s) -> occ H c k (lo / 2 ^ N.of_nat k) c0 r0 o0 ->
    exists x, In x (place_entry HO (k, lo, Some c)) /\ In x lay /\ nrow x = r0 /\ noff x = o0 /\
              nhash x = chash c0 /\ nleaf x = cleafb H c0 /\ ntree x = k /\
              ((r0 < k)%nat -> nroot x = false).
  Proof.
    intros He Ho.
    destruct (occ_place H c _ _ _ _ _ Ho true k) as (x & Hx & A & B & C & D & E).
    exists x. split; [exact Hx|]. split; [apply (entry_layout H HO s (k, lo, Some c) x He); exact Hx|].
    repeat split; try assumption. exact (place_tree_ntree H c _ _ _ _ x Hx).
  Qed.

  Lemma node_locc x : In x lay -> nleaf x = true ->
    exists k lo c, In (k, lo, Some c) (forest HO s) /\
                   occ H c k (lo / 2 ^ N.of_nat k) (CLeaf (nhash x)) (nrow x) (noff x) /\
                   ntree x = k.
  Proof.
    intros Hx Hl. destruct (layout_entry H HO s x Hx) as (k & lo & t & He & Hxe).
    destruct t as [c|].
    - cbn [place_entry] in Hxe. destruct (place_occ H c _ _ _ _ x Hxe) as (c0 & A & B & C).
      exists k, lo, c. split; [exact He|]. split; [|exact (place_tree_ntree H c _ _ _ _ x Hxe)].
      destruct c0 as [h|h l rr]; [|cbn in C; congruence]. cbn [chash] in B. rewrite B. exact A.
    - cbn [place_entry] in Hxe. destruct Hxe as [<-|[]]. discriminate.
  Qed.

  Lemma locc_uniq c1 c2 r0 o0 : locc c1 r0 o0 -> locc c2 r0 o0 -> c1 = c2.
  Proof.
    intros (k1 & lo1 & t1 & He1 & Ho1) (k2 & lo2 & t2 & He2 & Ho2).
    destruct (locc_entry_node _ _ _ _ _ _ He1 Ho1) as (x & Hx & _ & Xr & Xo & _).
    destruct (locc_entry_node _ _ _ _ _ _ He2 Ho2) as (y & Hy & _ & Yr & Yo & _).
    assert (Elo : nlo x = nlo y) by (unfold nlo; rewrite Xr, Xo, Yr, Yo; reflexivity).
    pose proof (nlo_lt_nhi H x) as Hlt.
    destruct (layout_same_entry H HO s _ _ _ _ _ _ x y He1 He2 Hx Hy ltac:(lia) ltac:(lia))
      as (-> & -> & E).
    injection E as ->. exact (occ_uniq H _ _ _ _ _ _ _ Ho1 Ho2).
  Qed.

  Lemma locc_height c0 r0 o0 : locc c0 r0 o0 -> (cheight H c0 <= r0)%nat.
  Proof.
    intros (k & lo & c & He & Ho). apply (occ_height H _ _ _ _ _ _ Ho).
    apply forest_entry in He as (_ & _ & _ & _ & _ & Ht). symmetry in Ht.
    exact (proj2 (compress_wf H HO k _ c Ht)).
  Qed.

  Lemma locc_leaf_live c0 r0 o0 h : locc c0 r0 o0 -> In h (cleaves H c0) -> In (Some h) s.
  Proof.
    intros (k & lo & c & He & Ho) Hh.
    apply (forest_leaves_live H HO s (k, lo, Some c) c h He eq_refl).
    exact (occ_leaves H _ _ _ _ _ _ Ho h Hh).
  Qed.

  Lemma locc_child c0 r0 o0 : locc c0 r0 o0 -> forall h l rr, c0 = CNode h l rr ->
    exists r1, r0 = S r1 /\ locc l r1 (2 * o0) /\ locc rr r1 (2 * o0 + 1).
  Proof.
    intros Hl h l rr ->. pose proof (locc_height _ _ _ Hl) as Hh. cbn [cheight] in Hh.
    destruct r0 as [|r1]; [lia|]. exists r1. split; [reflexivity|].
    destruct Hl as (k & lo & c & He & Ho).
    split; exists k, lo, c; (split; [exact He|]); apply (occ_trans H _ _ _ _ _ _ _ _ _ Ho).
    - apply occ_left, occ_here.
    - apply occ_right, occ_here.
  Qed.

  Hypothesis Hn63 : N.of_nat (length s) <= 2 ^ 63.
  Hypothesis Hlive : NoDup (live s).

  Variable tsn : list (node H).
  Hypothesis Hts_lay : forall x, In x tsn -> In x lay.
  Hypothesis Hts_leaf : forall x, In x tsn -> nleaf x = true.

  (** a subtree holds a target *)
  Definition hit (c : ctree H) : Prop := exists x, In x tsn /\ In (nhash x) (cleaves H c).

  Lemma forest_row_le_63 k lo t : In (k, lo, t) (forest HO s) -> (k <= 63)%nat.
  Proof. intros He. exact (forest_row_63 H HO s (k, lo, t) Hn63 He). Qed.

  (** the known set: the coordinates of the subtrees that hold a target *)
  Theorem known_occ r o :
    In (r, o) (known_set lay tsn) <-> exists c, locc c r o /\ hit c.
  Proof.
    rewrite RefTheory.known_set_In. split.
    - intros (x & Hx & Hd).
      destruct (node_locc x (Hts_lay x Hx) (Hts_leaf x Hx)) as (k & lo & c & He & Ho & Et).
      pose proof (occ_range H _ _ _ _ _ _ Ho) as (Hr & _).
      rewrite Et in Hd. apply RefTheory.path_up_In in Hd as (j & A & B & C); [|exact Hr].
      cbn [fst snd] in A, C. change (RefTheory.P2 j) with (p2 j) in C. subst r o.
      destruct (occ_anc H _ _ _ _ _ _ Ho j B) as (cj & O1 & O2).
      exists cj. split; [exists k, lo, c; auto|]. exists x. split; [exact Hx|].
      apply (occ_leaves H _ _ _ _ _ _ O2). left. reflexivity.
    - intros (c & Hl & x & Hx & Hh).
      pose proof (locc_height _ _ _ Hl) as Hht.
      destruct (leaf_occ H c r o (nhash x) Hh Hht) as (r0 & o0 & Ho0).
      destruct Hl as (k & lo & cT & He & Ho).
      pose proof (occ_trans H _ _ _ _ _ _ _ _ _ Ho Ho0) as HoT.
      destruct (locc_entry_node _ _ _ _ _ _ He HoT) as (y & _ & Hy & Yr & Yo & Yh & Yl & Yt & _).
      cbn [chash cleafb] in Yh, Yl.
      assert (E : y = x).
      { apply (live_leaf_unique H HO s y x Hlive Hy (Hts_lay x Hx) Yl (Hts_leaf x Hx) Yh). }
      subst y. exists x. split; [exact Hx|]. rewrite Yr, Yo, Yt.
      pose proof (occ_range H _ _ _ _ _ _ Ho0) as (Hr0 & Lo & Hi).
      pose proof (occ_range H _ _ _ _ _ _ Ho) as (Hrk & _).
      pose proof (forest_row_le_63 _ _ _ He) as Hk.
      assert (Eo : o = o0 / p2 (r - r0)).
      { pose proof (p2_pos (r - r0)) as Hp.
        apply (N.div_unique o0 (p2 (r - r0)) o (o0 - o * p2 (r - r0))); lia. }
      replace r with (r0 + (r - r0))%nat at 1 by lia. rewrite Eo.
      apply pu_path_up_mem; lia.
  Qed.

  (** the canonical proof positions: the children of inner occurrences of which exactly one
      holds a target - the other one *)
  Theorem canon_pos_occ p :
    In p (canon_proof_pos R lay tsn) <->
    exists h l rr r o, locc (CNode h l rr) (S r) o /\
      ((hit l /\ ~ hit rr /\ p = pos R r (2 * o + 1)) \/
       (hit rr /\ ~ hit l /\ p = pos R r (2 * o))).
  Proof.
    rewrite (po_canon_pos_In H HO s tsn p). split.
    - intros ([r0 o0] & Hd & Hroot & Hsib & ->). unfold sib_coord in *. cbn [fst snd] in *.
      apply known_occ in Hd as (c & Hl & Hh).
      destruct Hl as (k & lo & cT & He & Ho).
      destruct (occ_parent H _ _ _ _ _ _ Ho) as [(-> & -> & ->)|(h & l & rr & o1 & Hop & Hc)].
      + (* the top of a tree is a root *)
        exfalso. destruct (locc_entry_node _ _ _ _ _ _ He Ho) as (x & Hxe & Hx & Xr & Xo & _).
        unfold is_root_coord in Hroot. cbn [fst snd] in Hroot.
        change (find_coord lay k (lo / 2 ^ N.of_nat k)) with (tnode HO s k (lo / 2 ^ N.of_nat k)) in Hroot.
        rewrite (proj2 (tnode_iff H HO s _ _ x) (conj Hx (conj Xr Xo))) in Hroot.
        cbn [place_entry] in Hxe.
        destruct (place_tree_tail H _ _ _ _ _ _ Hxe) as [->|[Hlt _]]; [discriminate|lia].
      + assert (Hlp : locc (CNode h l rr) (S r0) o1) by (exists k, lo, cT; auto).
        destruct (locc_child _ _ _ Hlp h l rr eq_refl) as (r1 & Er & Ll & Lr).
        injection Er as <-.
        exists h, l, rr, r0, o1. split; [exact Hlp|].
        destruct Hc as [[-> ->]|[-> ->]].
        * left. split; [exact Hh|]. split.
          -- intros Hr. apply Hsib. apply known_occ. exists rr. split; [|exact Hr].
             replace (N.lxor (2 * o1) 1) with (2 * o1 + 1); [exact Lr|].
             rewrite lxor_1. rewrite N.even_mul. reflexivity.
          -- f_equal. rewrite lxor_1, N.even_mul. reflexivity.
        * right. split; [exact Hh|]. split.
          -- intros Hr. apply Hsib. apply known_occ. exists l. split; [|exact Hr].
             replace (N.lxor (2 * o1 + 1) 1) with (2 * o1); [exact Ll|].
             rewrite lxor_1. rewrite N.even_add, N.even_mul. cbn. lia.
          -- f_equal. rewrite lxor_1, N.even_add, N.even_mul. cbn. lia.
    - intros (h & l & rr & r & o & Hlp & Hc).
      destruct (locc_child _ _ _ Hlp h l rr eq_refl) as (r1 & Er & Ll & Lr).
      injection Er as <-.
      assert (Hnr : forall c o', (c = l /\ o' = 2 * o) \/ (c = rr /\ o' = 2 * o + 1) ->
                                 is_root_coord lay (r, o') = false).
      { intros c o' Ho'. destruct Hlp as (k & lo & cT & He & Ho).
        assert (Hoc : occ H cT k (lo / 2 ^ N.of_nat k) c r o').
        { apply (occ_trans H _ _ _ _ _ _ _ _ _ Ho).
          destruct Ho' as [[-> ->]|[-> ->]]; [apply occ_left|apply occ_right]; apply occ_here. }
        destruct (locc_entry_node _ _ _ _ _ _ He Hoc) as (x & _ & Hx & Xr & Xo & _ & _ & _ & Hnr).
        pose proof (occ_range H _ _ _ _ _ _ Ho) as (Hrk & _).
        unfold is_root_coord. cbn [fst snd].
        change (find_coord lay r o') with (tnode HO s r o').
        rewrite (proj2 (tnode_iff H HO s _ _ x) (conj Hx (conj Xr Xo))). apply Hnr. lia. }
      destruct Hc as [(Hl & Hnr' & ->)|(Hr & Hnl & ->)].
      + exists (r, 2 * o). split; [apply known_occ; exists l; auto|].
        split; [apply (Hnr l); left; auto|]. unfold sib_coord. cbn [fst snd].
        rewrite lxor_1, N.even_mul. cbn [orb]. split; [|reflexivity].
        intros Hin. apply known_occ in Hin as (c & Hlc & Hhc).
        rewrite (locc_uniq _ _ _ _ Hlc Lr) in Hhc. exact (Hnr' Hhc).
      + exists (r, 2 * o + 1). split; [apply known_occ; exists rr; auto|].
        split; [apply (Hnr rr); right; auto|]. unfold sib_coord. cbn [fst snd].
        assert (E : N.lxor (2 * o + 1) 1 = 2 * o).
        { rewrite lxor_1, N.even_add, N.even_mul. cbn. lia. }
        rewrite E. split; [|reflexivity].
        intros Hin. apply known_occ in Hin as (c & Hlc & Hhc).
        rewrite (locc_uniq _ _ _ _ Hlc Ll) in Hhc. exact (Hnl Hhc).
  Qed.
End Locc.

(** * 3. Additions on a forest without empty roots: the old subtrees stay where they are *)

Section AddOcc.
  Variable H : Type.
  Variable HO : ops H.
  Local Notation entry := (StumpAdd.entry H).
  Local Notation erow := (@StumpAdd.erow H).
  Local Notation elo := (@elo H).
  Local Notation merge := (merge H HO).

  Definition no_empty_root (s : slots H) : Prop := forall e, In e (forest HO s) -> snd e <> None.

  Lemma pu_chain_coords n h (e : entry) :
    erow e = h -> elo e = 2 * (n / p2 (S h)) * p2 h -> StumpAdd.bit n h = true ->
    elo e / 2 ^ N.of_nat (erow e) = 2 * (n / p2 (S h)) /\ n / p2 h = 2 * (n / p2 (S h)) + 1.
  Proof.
    intros Hr Hlo Hb. pose proof (chain_entry_coord H n h e Hr Hlo) as E1.
    pose proof (xc_child n h Hb) as E2.
    apply (f_equal snd) in E1. apply (f_equal snd) in E2.
    unfold ecoord, chd, xc in E1, E2. cbn [fst snd] in E1, E2.
    split; [rewrite E1; lia|exact E2].
  Qed.

  Lemma merge_occ_bwd n : forall ch h c, chain_at H n h ch -> (forall e, In e ch -> snd e <> None) ->
    (forall c0 r0 o0, occ H c h (n / p2 h) c0 r0 o0 ->
       occ H (merge ch c) (h + length ch) (n / p2 (h + length ch)) c0 r0 o0) /\
    (forall e ce c0 r0 o0, In e ch -> snd e = Some ce ->
       occ H ce (erow e) (elo e / 2 ^ N.of_nat (erow e)) c0 r0 o0 ->
       occ H (merge ch c) (h + length ch) (n / p2 (h + length ch)) c0 r0 o0).
  Proof.
    induction ch as [|e ch IH]; intros h c Hc Hne.
    - cbn [length]. rewrite Nat.add_0_r. split; [intros c0 r0 o0 Ho; exact Ho|].
      intros e ce c0 r0 o0 [].
    - destruct Hc as (Hr & Hlo & Hb & Hc).
      destruct (pu_chain_coords n h e Hr Hlo Hb) as [E1 E2].
      destruct (snd e) as [ce|] eqn:Ese; [|exfalso; exact (Hne e (or_introl eq_refl) Ese)].
      assert (Em : merge (e :: ch) c
                   = merge ch (CNode (op_hash2 HO (chash ce) (chash c)) ce c)).
      { unfold StumpAddData.merge. cbn [fold_left]. unfold mstep at 2. rewrite Ese. reflexivity. }
      rewrite Em. cbn [length]. replace (h + S (length ch))%nat with (S h + length ch)%nat by lia.
      destruct (IH (S h) (CNode (op_hash2 HO (chash ce) (chash c)) ce c) Hc
                   (fun e' He' => Hne e' (or_intror He'))) as [IH1 IH2].
      split.
      + intros c0 r0 o0 Ho. apply IH1. apply occ_right. rewrite <- E2. exact Ho.
      + intros e' ce' c0 r0 o0 [<-|He'] Hse Ho.
        * rewrite Ese in Hse. injection Hse as <-. apply IH1. apply occ_left.
          rewrite <- E1, Hr in *. exact Ho.
        * exact (IH2 e' ce' c0 r0 o0 He' Hse Ho).
  Qed.

  Lemma merge_occ_fwd n : forall ch h c, chain_at H n h ch -> (forall e, In e ch -> snd e <> None) ->
    forall c0 r0 o0, occ H (merge ch c) (h + length ch) (n / p2 (h + length ch)) c0 r0 o0 ->
      incl (cleaves H c) (cleaves H c0) \/ occ H c h (n / p2 h) c0 r0 o0 \/
      exists e ce, In e ch /\ snd e = Some ce /\
                   occ H ce (erow e) (elo e / 2 ^ N.of_nat (erow e)) c0 r0 o0.
  Proof.
    induction ch as [|e ch IH]; intros h c Hc Hne c0 r0 o0 Ho.
    - cbn [length] in Ho. rewrite Nat.add_0_r in Ho. right. left. exact Ho.
    - destruct Hc as (Hr & Hlo & Hb & Hc).
      destruct (pu_chain_coords n h e Hr Hlo Hb) as [E1 E2].
      destruct (snd e) as [ce|] eqn:Ese; [|exfalso; exact (Hne e (or_introl eq_refl) Ese)].
      assert (Em : merge (e :: ch) c
                   = merge ch (CNode (op_hash2 HO (chash ce) (chash c)) ce c)).
      { unfold StumpAddData.merge. cbn [fold_left]. unfold mstep at 2. rewrite Ese. reflexivity. }
      rewrite Em in Ho. cbn [length] in Ho.
      replace (h + S (length ch))%nat with (S h + length ch)%nat in Ho by lia.
      destruct (IH (S h) _ Hc (fun e' He' => Hne e' (or_intror He')) c0 r0 o0 Ho)
        as [Hi|[Ho'|(e' & ce' & He' & Hse & Ho')]].
      + left. intros x Hx. apply Hi. cbn [cleaves]. apply in_or_app. right. exact Hx.
      + inversion Ho'; subst.
        * left. intros x Hx. cbn [cleaves]. apply in_or_app. right. exact Hx.
        * right. right. exists e, ce. split; [left; reflexivity|]. split; [exact Ese|].
          rewrite E1. assumption.
        * right. left. rewrite E2. assumption.
      + right. right. exists e', ce'. split; [right; exact He'|]. split; assumption.
  Qed.

  Lemma locc_snoc (s : slots H) a : N.of_nat (length s) <= 2 ^ 63 -> no_empty_root s ->
    (forall c0 r0 o0, locc H HO s c0 r0 o0 -> locc H HO (s ++ [Some a]) c0 r0 o0) /\
    (forall c0 r0 o0, locc H HO (s ++ [Some a]) c0 r0 o0 ->
                      In a (cleaves H c0) \/ locc H HO s c0 r0 o0) /\
    no_empty_root (s ++ [Some a]).
  Proof.
    intros Hb Hne. destruct (step_data_ex H HO s a [] Hb) as (ch & un & SD).
    pose proof (sd_chain H HO s a [] ch un SD) as Hc.
    assert (Hch : forall e, In e ch -> snd e <> None).
    { intros e He. apply Hne. apply (step_in_forest H HO s a [] ch un e SD).
      apply in_or_app. left. exact He. }
    pose proof (sd_coord H HO s a [] ch un SD) as Ec. unfold ecoord, xc in Ec.
    cbn [StumpAdd.erow StumpAddData.elo fst snd] in Ec. injection Ec as Ec.
    set (n := num_leaves s) in *.
    set (top := (length ch, last_lo H ch n, Some (merge ch (CLeaf a)))) in *.
    assert (Htop : In top (forest HO (s ++ [Some a])))
      by (apply (step_in_forest' H HO s a [] ch un top SD); left; reflexivity).
    destruct (merge_occ_bwd n ch 0%nat (CLeaf a) Hc Hch) as [_ B2]. cbn [Nat.add] in B2.
    split; [|split].
    - intros c0 r0 o0 (k & lo & c & He & Ho).
      apply (step_in_forest H HO s a [] ch un _ SD) in He. apply in_app_or in He as [He|He].
      + exists (length ch), (last_lo H ch n), (merge ch (CLeaf a)). split; [exact Htop|].
        rewrite Ec. exact (B2 (k, lo, Some c) c c0 r0 o0 He eq_refl Ho).
      + exists k, lo, c. split; [|exact Ho].
        apply (step_in_forest' H HO s a [] ch un _ SD). right. exact He.
    - intros c0 r0 o0 (k & lo & c & He & Ho).
      apply (step_in_forest' H HO s a [] ch un _ SD) in He. destruct He as [He|He].
      + unfold top in He. injection He as -> -> ->. fold n in Ho. rewrite Ec in Ho.
        destruct (merge_occ_fwd n ch 0%nat (CLeaf a) Hc Hch c0 r0 o0 Ho)
          as [Hi|[Ho'|(e & ce & He & Hse & Ho')]].
        * left. apply Hi. left. reflexivity.
        * left. inversion Ho'; subst. left. reflexivity.
        * right. destruct e as [[k lo] t]. cbn [snd] in Hse. subst t.
          exists k, lo, ce. split; [|exact Ho'].
          apply (step_in_forest H HO s a [] ch un _ SD). apply in_or_app. left. exact He.
      + right. exists k, lo, c. split; [|exact Ho].
        apply (step_in_forest H HO s a [] ch un _ SD). apply in_or_app. right. exact He.
    - intros e He. apply (step_in_forest' H HO s a [] ch un _ SD) in He. destruct He as [->|He].
      + discriminate.
      + apply Hne. apply (step_in_forest H HO s a [] ch un _ SD). apply in_or_app. right. exact He.
  Qed.

  Lemma locc_adds : forall adds (s : slots H),
    N.of_nat (length s + length adds) <= 2 ^ 63 -> no_empty_root s ->
    (forall c0 r0 o0, locc H HO s c0 r0 o0 -> locc H HO (s ++ map Some adds) c0 r0 o0) /\
    (forall c0 r0 o0, locc H HO (s ++ map Some adds) c0 r0 o0 ->
                      (exists a, In a adds /\ In a (cleaves H c0)) \/ locc H HO s c0 r0 o0) /\
    no_empty_root (s ++ map Some adds).
  Proof.
    induction adds as [|a adds IH]; intros s Hb Hne.
    - cbn [map]. rewrite app_nil_r. split; [auto|]. split; [auto|exact Hne].
    - cbn [length] in Hb.
      destruct (locc_snoc s a ltac:(lia) Hne) as (S1 & S2 & S3).
      assert (Hb' : N.of_nat (length (s ++ [Some a]) + length adds) <= 2 ^ 63).
      { rewrite app_length. cbn [length]. lia. }
      destruct (IH (s ++ [Some a]) Hb' S3) as (I1 & I2 & I3).
      replace (s ++ map Some (a :: adds)) with ((s ++ [Some a]) ++ map Some adds)
        by (rewrite <- app_assoc; reflexivity).
      split; [|split; [|exact I3]].
      + intros c0 r0 o0 Hl. apply I1, S1, Hl.
      + intros c0 r0 o0 Hl. destruct (I2 c0 r0 o0 Hl) as [(b & Hb1 & Hb2)|Hl'].
        * left. exists b. split; [right; exact Hb1|exact Hb2].
        * destruct (S2 c0 r0 o0 Hl') as [Ha|Hl''].
          -- left. exists a. split; [left; reflexivity|exact Ha].
          -- right. exact Hl''.
  Qed.
End AddOcc.

(** * 4. The update data of the additions in terms of occurrences *)

Section AddData.
  Variable H : Type.
  Variable HO : ops H.
  Hypothesis HOK : ops_ok HO.
  Variable A : list H.

  Lemma has_leaf_in_iff (c : ctree H) :
    has_leaf_in HO A c = true <-> exists a, In a (cleaves H c) /\ In a A.
  Proof.
    induction c as [h|h l IHl rr IHr]; cbn [has_leaf_in cleaves].
    - rewrite (memH_In H HO HOK). split.
      + intros Hh. exists h. split; [left; reflexivity|exact Hh].
      + intros (a & [<-|[]] & Ha). exact Ha.
    - rewrite orb_true_iff, IHl, IHr. split.
      + intros [(a & H1 & H2)|(a & H1 & H2)]; exists a; (split; [apply in_or_app; auto|exact H2]).
      + intros (a & H1 & H2). apply in_app_or in H1 as [H1|H1]; [left|right]; exists a; auto.
  Qed.

  Lemma has_leaf_in_occ c r o c0 r0 o0 : occ H c r o c0 r0 o0 ->
    has_leaf_in HO A c0 = true -> has_leaf_in HO A c = true.
  Proof.
    intros Ho. rewrite !has_leaf_in_iff. intros (a & H1 & H2). exists a.
    split; [exact (occ_leaves H _ _ _ _ _ _ Ho a H1)|exact H2].
  Qed.

  Lemma add_nodes_occ_inner c k o c0 r0 o0 : occ H c k o c0 r0 o0 ->
    forall hh l rr r, c0 = CNode hh l rr -> r0 = S r -> has_leaf_in HO A c0 = true ->
    forall b, In (r, 2 * o0, chash l) (add_nodes HO A c k o b) /\
              In (r, 2 * o0 + 1, chash rr) (add_nodes HO A c k o b).
  Proof.
    induction 1 as [c k o | h l' rr' k o c0 r0 o0 Ho IH | h l' rr' k o c0 r0 o0 Ho IH];
      intros hh l rr r Ec Er Hh b.
    - subst c k. cbn [add_nodes]. cbn [add_nodes] in Hh. rewrite Hh.
      split; [left; reflexivity|right; left; reflexivity].
    - pose proof (has_leaf_in_occ _ _ _ _ _ _ (occ_left H h l' rr' k o c0 r0 o0 Ho) Hh) as Hc.
      cbn [add_nodes]. rewrite Hc.
      destruct (IH hh l rr r Ec Er Hh false) as [I1 I2].
      split; right; right; apply in_or_app; left; assumption.
    - pose proof (has_leaf_in_occ _ _ _ _ _ _ (occ_right H h l' rr' k o c0 r0 o0 Ho) Hh) as Hc.
      cbn [add_nodes]. rewrite Hc.
      destruct (IH hh l rr r Ec Er Hh false) as [I1 I2].
      split; right; right; apply in_or_app; right; assumption.
  Qed.

  Lemma add_nodes_occ_leaf c k o c0 r0 o0 : occ H c k o c0 r0 o0 ->
    forall a, c0 = CLeaf a -> In a A ->
    forall b, (c = CLeaf a /\ r0 = k /\ o0 = o) \/ In (r0, o0, a) (add_nodes HO A c k o b).
  Proof.
    induction 1 as [c k o | h l' rr' k o c0 r0 o0 Ho IH | h l' rr' k o c0 r0 o0 Ho IH];
      intros a Ec Ha b.
    - left. auto.
    - right. subst c0.
      assert (Hc : has_leaf_in HO A (CNode h l' rr') = true).
      { apply has_leaf_in_iff. exists a. split; [|exact Ha].
        apply (occ_leaves H _ _ _ _ _ _ (occ_left H h l' rr' k o _ r0 o0 Ho)). left. reflexivity. }
      cbn [add_nodes]. rewrite Hc.
      destruct (IH a eq_refl Ha false) as [(-> & -> & ->)|Hin].
      + left. reflexivity.
      + right. right. apply in_or_app. left. exact Hin.
    - right. subst c0.
      assert (Hc : has_leaf_in HO A (CNode h l' rr') = true).
      { apply has_leaf_in_iff. exists a. split; [|exact Ha].
        apply (occ_leaves H _ _ _ _ _ _ (occ_right H h l' rr' k o _ r0 o0 Ho)). left. reflexivity. }
      cbn [add_nodes]. rewrite Hc.
      destruct (IH a eq_refl Ha false) as [(-> & -> & ->)|Hin].
      + right. left. reflexivity.
      + right. right. apply in_or_app. right. exact Hin.
  Qed.

  Variable s : slots H.
  Local Notation R := (rows_of (num_leaves s)).

  Lemma new_add_intro k lo c r o h :
    In (k, lo, Some c) (forest HO s) ->
    In (r, o, h) (add_nodes HO A c k (lo / 2 ^ N.of_nat k) true) ->
    In (pos R r o, h) (new_add HO s A).
  Proof.
    intros He Hin. unfold new_add. apply RefTheory.sortK_In. apply in_flat_map.
    exists (k, lo, Some c). split; [exact He|]. cbv beta iota.
    apply in_map_iff. exists (r, o, h). split; [reflexivity|exact Hin].
  Qed.

  Lemma new_add_child hh l rr r o :
    locc H HO s (CNode hh l rr) (S r) o -> has_leaf_in HO A (CNode hh l rr) = true ->
    In (pos R r (2 * o), chash l) (new_add HO s A) /\
    In (pos R r (2 * o + 1), chash rr) (new_add HO s A).
  Proof.
    intros (k & lo & c & He & Ho) Hh.
    destruct (add_nodes_occ_inner _ _ _ _ _ _ Ho hh l rr r eq_refl eq_refl Hh true) as [I1 I2].
    split; eapply new_add_intro; eassumption.
  Qed.

  Lemma new_add_leaf a r o : locc H HO s (CLeaf a) r o -> In a A ->
    In (pos R r o, a) (new_add HO s A).
  Proof.
    intros (k & lo & c & He & Ho) Ha.
    destruct (add_nodes_occ_leaf _ _ _ _ _ _ Ho a eq_refl Ha true) as [(-> & -> & ->)|Hin].
    - apply (new_add_intro k lo (CLeaf a)); [exact He|]. cbn [add_nodes andb].
      rewrite (proj2 (memH_In H HO HOK a A) Ha). left. reflexivity.
    - eapply new_add_intro; eassumption.
  Qed.

  Lemma new_add_node e : In e (new_add HO s A) ->
    exists z, In z (layout HO s) /\ e = (npos R z, nhash z).
  Proof.
    intros He. unfold new_add in He. apply (proj1 (RefTheory.sortK_In _ _)) in He.
    apply in_flat_map in He as ([[k lo] t] & Hf & He). destruct t as [c|]; [|destruct He].
    apply in_map_iff in He as ([[r o] h] & <- & Hx).
    destruct (add_nodes_placed H HO A c k _ true true k _ Hx) as (z & Hz & Ez).
    exists z. split; [apply (entry_layout H HO s (k, lo, Some c) z Hf); exact Hz|].
    injection Ez as <- <- <-. reflexivity.
  Qed.

  Lemma new_add_SSlt : SSlt (map fst (new_add HO s A)).
  Proof.
    unfold new_add. apply cc_sortK_SSlt.
    eapply Permutation_NoDup; [|apply (new_add_pos_nodup H HO s A)].
    unfold new_add. apply Permutation_map, RefTheory.sortK_perm.
  Qed.
End AddData.

Section NoDestroy.
  Variable H : Type.
  Variable HO : ops H.

  Lemma td_go_nil n R : forall fuel h (ts : list (StumpAdd.entry H)),
    (forall e, In e ts -> snd e <> None) -> td_go H n R fuel h ts = [].
  Proof.
    induction fuel as [|f IH]; intros h ts Hne; [reflexivity|]. cbn [td_go].
    destruct (N.testbit n (N.of_nat h)); [|reflexivity].
    destruct ts as [|[[k lo] t] rest]; [reflexivity|].
    destruct t as [c|]; [|exfalso; exact (Hne _ (or_introl eq_refl) eq_refl)].
    cbn [app]. apply IH. intros e He. apply Hne. right. exact He.
  Qed.

  Lemma to_destroy_nil R : forall adds (s : slots H),
    N.of_nat (length s + length adds) <= 2 ^ 63 -> no_empty_root H HO s ->
    to_destroy HO R s adds = [].
  Proof.
    induction adds as [|a adds IH]; intros s Hb Hne; [reflexivity|].
    cbn [to_destroy]. cbn [length] in Hb. rewrite trailing_destroyed_go, td_go_nil.
    - cbn [app]. apply IH.
      + rewrite app_length. cbn [length]. lia.
      + exact (proj2 (proj2 (locc_snoc H HO s a ltac:(lia) Hne))).
    - intros e He. apply Hne. apply in_rev. exact He.
  Qed.
End NoDestroy.

(** * 5. The helpers of [Proof.Update] on well-formed inputs *)

Lemma pu_sortK_sorted_id {A} (l : list (N * A)) : SSlt (map fst l) -> sortK l = l.
Proof.
  induction l as [|x l IH]; intros Hs; [reflexivity|]. cbn [map] in Hs.
  destruct (po_SS_inv _ _ _ Hs) as [Hl Hx]. unfold sortK in *. cbn [fold_right]. rewrite (IH Hl).
  destruct l as [|y l]; [reflexivity|]. cbn [insertK].
  specialize (Hx (fst y) (or_introl eq_refl)).
  destruct (N.leb_spec (fst x) (fst y)); [reflexivity|lia].
Qed.

Lemma pu_zip_fst {H} : forall (ts : list N) (hs : list H), length ts = length hs ->
  map fst (zip_hp ts hs) = ts.
Proof. intros ts hs E. apply cc_zip_hp_fst. symmetry. exact E. Qed.

Lemma pu_zip_snd {H} : forall (ts : list N) (hs : list H), length ts = length hs ->
  map snd (zip_hp ts hs) = hs.
Proof.
  induction ts as [|t ts IH]; intros [|h hs] E; try discriminate; [reflexivity|].
  cbn [zip_hp map snd]. f_equal. apply IH. cbn [length] in E. lia.
Qed.

Lemma pu_subSlice_self a : SSlt a -> subtractSortedSlice a a = [].
Proof.
  intros Ha. rewrite (subtractSortedSlice_spec a a Ha (po_SSlt_SSle a Ha)).
  induction a as [|x a IH]; [reflexivity|]. apply RefTheory.filter_none.
  intros y Hy. apply Bool.negb_false_iff, RefTheory.memN_In, Hy.
Qed.

Section UpdHelpers.
  Variable H : Type.
  Variable HO : ops H.
  Local Notation hp := (hp H).
  Local Notation Heqb := (op_eqb HO).
  Local Notation empty := (op_empty HO).

  Lemma pu_toHP (ts : list N) (hs : list H) : length ts = length hs -> SSlt ts ->
    toHashAndPos ts hs = Some (zip_hp ts hs).
  Proof.
    intros E Hs. unfold toHashAndPos. rewrite E, Nat.eqb_refl. f_equal.
    apply pu_sortK_sorted_id. rewrite (pu_zip_fst ts hs E). exact Hs.
  Qed.

  Lemma pu_subHP_nil (a : list hp) : subtractSortedHashAndPos a [] = a.
  Proof. unfold subtractSortedHashAndPos. cbn [subHP]. destruct a; reflexivity. Qed.

  Lemma pu_upr_keep_nil (old : list hp) : upr_keep HO old [] [] = old.
  Proof. induction old as [|e old IH]; [reflexivity|]. cbn. rewrite IH. reflexivity. Qed.

  (** ** [getNewPositions] without block targets *)
  Section GNP.
    Variable n : N.
    Hypothesis Hn63 : n <= 2 ^ 63.
    Local Notation total := (TreeRows n).
    Local Notation g := (g total).

    Lemma pu_t63 : total <= 63. Proof. apply TreeRows_le_63, Hn63. Qed.
    Lemma pu_nle : n <= 2 ^ total. Proof. apply TreeRows_upper. Qed.

    Lemma pu_gnp_row c : vld total c -> forall fuel row, row <= fst c ->
      (N.to_nat (fst c - row) < fuel)%nat -> gnp_row fuel (g c) row total = fst c.
    Proof.
      intros [Hr Ho]. pose proof pu_t63 as Ht.
      induction fuel as [|f IH]; intros row Hrow Hf; [lia|]. cbn [gnp_row].
      rewrite (pps_maxPossible n total Ht pu_nle row) by lia.
      pose proof (gpos_lt total (fst c) (snd c) Hr Ho) as Hlt.
      assert (Hge : 2 ^ (total + 1) - 2 ^ (total + 1 - fst c) <= g c)
        by (unfold ProofPosSpec.g, gpos, gstart; lia).
      destruct (N.eq_dec row (fst c)) as [->|Hne].
      - destruct (N.ltb_spec (2 ^ (total + 1) - 2 ^ (total - fst c) - 1) (g c)) as [Hc|_];
          [unfold ProofPosSpec.g in Hc; lia|reflexivity].
      - assert (Hp : 2 ^ (total + 1 - fst c) <= 2 ^ (total - row)) by (apply pow2_le; lia).
        pose proof (UtilsGeom.pow2_pos (total - row)) as Hp2.
        assert (Hp3 : 2 ^ (total - row) < 2 ^ (total + 1)) by (apply pow2_lt; lia).
        destruct (N.ltb_spec (2 ^ (total + 1) - 2 ^ (total - row) - 1) (g c)) as [_|Hc]; [|lia].
        destruct (N.leb_spec row total) as [_|Hc]; [|lia]. cbn [andb].
        rewrite ct_add8_small by lia. apply IH; lia.
    Qed.

    Definition okpos (b : bool) (e : hp) : Prop :=
      exists c, inf n c /\ fst e = g c /\ (b = true \/ is_root_c n c = false) /\
                Heqb (snd e) empty = false.

    Lemma pu_gnp_loop_nil b : forall (sl : list hp) row,
      (forall e, In e sl -> okpos b e) -> SSlt (map fst sl) ->
      (forall e c, In e sl -> vld total c -> fst e = g c -> row <= fst c) ->
      gnp_loop HO [] sl n total row b = sl.
    Proof.
      pose proof pu_t63 as Ht. pose proof pu_nle as Hnle.
      induction sl as [|e sl IH]; intros row Hok Hs Hrow; [reflexivity|].
      destruct (Hok e (or_introl eq_refl)) as (c & Hc & Ec & Hb & Hnz).
      pose proof (pps_inf_vld n total Hnle c Hc) as Hv.
      cbn [gnp_loop]. rewrite Hnz, Ec.
      rewrite (pu_gnp_row c Hv 300 row (Hrow e c (or_introl eq_refl) Hv Ec))
        by (destruct Hv; lia).
      destruct (N.ltb_spec total (fst c)) as [Hc'|_]; [destruct Hv; lia|].
      cbn [gnp_targets].
      rewrite (cc_isRoot n total Ht Hnle eq_refl c Hc).
      assert (Hkeep : b || negb (is_root_c n c) = true)
        by (destruct Hb as [->| ->]; [reflexivity|apply Bool.orb_true_r]).
      rewrite Hkeep. rewrite <- Ec. destruct e as [p h]. cbn [fst snd]. f_equal.
      cbn [map] in Hs. destruct (po_SS_inv _ _ _ Hs) as [Hs' Hlt].
      apply IH; [intros e' He'; apply Hok; right; exact He'|exact Hs'|].
      intros e' c' He' Hv' Ec'. cbn [fst] in Ec.
      apply (pps_g_lt_row n total Ht Hnle c c' Hv Hv'). rewrite <- Ec, <- Ec'. apply Hlt, in_map, He'.
    Qed.

    Lemma pu_getNewPositions_nil b (sl : list hp) :
      (forall e, In e sl -> okpos b e) -> SSlt (map fst sl) ->
      getNewPositions HO [] sl n b = sl.
    Proof.
      intros Hok Hs. unfold getNewPositions. rewrite (pu_gnp_loop_nil b sl 0 Hok Hs).
      - apply pu_sortK_sorted_id, Hs.
      - intros. lia.
    Qed.
  End GNP.

  (** ** [updateProofRemove] without deletions is the identity *)
  Lemma pu_updateProofRemove_nodel (targets : list N) (proof hashes : list H) (n : N)
        (pp comp : list N) :
    n <= 2 ^ 63 ->
    length targets = length hashes -> SSlt targets ->
    ProofPositions_fast targets n (TreeRows n) = (pp, comp) ->
    length pp = length proof -> SSlt pp ->
    (forall e, In e (zip_hp targets hashes) -> okpos n true e) ->
    (forall e, In e (zip_hp pp proof) -> okpos n false e) ->
    updateProofRemove HO targets proof [] hashes [] n = Some (hashes, targets, proof).
  Proof.
    intros Hn63 El Hst Epp Elp Hsp Hok1 Hok2. unfold updateProofRemove. cbv zeta.
    change (sortN []) with (@nil N).
    rewrite (pu_toHP targets hashes El Hst), pu_subHP_nil.
    rewrite (po_sortN_sorted_id targets Hst), Epp.
    rewrite (pu_toHP pp proof Elp Hsp).
    unfold positions. rewrite (pu_zip_fst targets hashes El), Epp, (pu_zip_fst pp proof Elp).
    rewrite (po_sortN_sorted_id pp Hsp), (pu_subSlice_self pp Hsp), pu_upr_keep_nil.
    change (subtractSortedSlice [] []) with (@nil N). cbn [upr_missing]. rewrite app_nil_r.
    change (deTwin [] (TreeRows n)) with (@nil N).
    rewrite (pu_getNewPositions_nil n Hn63 true _ Hok1) by (rewrite (pu_zip_fst targets hashes El); exact Hst).
    rewrite (pu_getNewPositions_nil n Hn63 false _ Hok2) by (rewrite (pu_zip_fst pp proof Elp); exact Hsp).
    unfold ProofUpdate.hashes.
    rewrite (pu_zip_snd targets hashes El), (pu_zip_fst targets hashes El), (pu_zip_snd pp proof Elp).
    reflexivity.
  Qed.
End UpdHelpers.

(** ** The remembered additions *)

(** the members of [adds] whose index is listed in [rem] *)
Fixpoint pick_from {A} (i : N) (adds : list A) (rem : list N) : list A :=
  match adds with
  | [] => []
  | a :: t => (if memN i rem then [a] else []) ++ pick_from (i + 1) t rem
  end.
Definition pick {A} (adds : list A) (rem : list N) : list A := pick_from 0 adds rem.

Lemma pick_from_nil {A} (adds : list A) : forall i, pick_from i adds [] = [].
Proof. induction adds as [|a adds IH]; intros i; [reflexivity|]. cbn [pick_from memN app]. apply IH. Qed.

Lemma pick_from_drop {A} (adds : list A) : forall i r rem, r < i ->
  pick_from i adds (r :: rem) = pick_from i adds rem.
Proof.
  induction adds as [|a adds IH]; intros i r rem Hr; [reflexivity|]. cbn [pick_from memN].
  destruct (N.eqb_spec i r); [lia|]. cbn [orb]. rewrite IH by lia. reflexivity.
Qed.

Lemma pick_from_In {A} (adds : list A) : forall i rem x, In x (pick_from i adds rem) -> In x adds.
Proof.
  induction adds as [|a adds IH]; intros i rem x Hx; [destruct Hx|]. cbn [pick_from] in Hx.
  apply in_app_or in Hx as [Hx|Hx].
  - destruct (memN i rem); [destruct Hx as [<-|[]]; left; reflexivity|destruct Hx].
  - right. exact (IH _ _ _ Hx).
Qed.

Lemma pick_In {A} (adds : list A) rem x : In x (pick adds rem) -> In x adds.
Proof. apply pick_from_In. Qed.

Lemma remembered_pick {H} : forall fuel i (adds : list H) rem, SSlt rem ->
  (length adds + length rem < fuel)%nat -> remembered fuel i adds rem = pick_from i adds rem.
Proof.
  induction fuel as [|f IH]; intros i adds rem Hs Hf; [lia|]. cbn [remembered].
  destruct adds as [|a adds]; [reflexivity|].
  destruct rem as [|r rem]; [symmetry; apply pick_from_nil|].
  destruct (po_SS_inv _ _ _ Hs) as [Hs' Hr]. cbn [length] in Hf. cbn [pick_from memN].
  destruct (N.eqb_spec i r) as [->|Hne].
  - cbn [orb app]. f_equal. rewrite IH by (try assumption; lia).
    symmetry. apply pick_from_drop. lia.
  - destruct (N.ltb_spec r i) as [Hlt|Hge].
    + rewrite IH by (try assumption; cbn [length]; lia).
      assert (Em : memN i rem = false \/ memN i rem = true) by (destruct (memN i rem); auto).
      cbn [orb]. rewrite (pick_from_drop adds (i + 1) r rem) by lia. reflexivity.
    + cbn [orb]. assert (Em : memN i rem = false).
      { apply po_memN_false. intros Hin. specialize (Hr i Hin). lia. }
      rewrite Em. cbn [app]. apply IH; [exact Hs|cbn [length]; lia].
Qed.

(** ** [maybeRemap] *)

Definition remap1 (n k p : N) : N :=
  if TreeRows n <? TreeRows (add64 n k) then
    let row := DetectRow p (TreeRows n) in
    add64 (sub64 p (startPositionAtRow row (TreeRows n)))
          (startPositionAtRow row (TreeRows (add64 n k)))
  else p.

Lemma pu_maybeRemap_map {H} n k (l : list (hp H)) :
  maybeRemap n k l = map (fun e => (remap1 n k (fst e), snd e)) l.
Proof.
  unfold maybeRemap, remap1. cbv zeta. destruct (TreeRows n <? TreeRows (add64 n k)); [reflexivity|].
  symmetry. rewrite <- (map_id l) at 2. apply map_ext. intros [p h]. reflexivity.
Qed.

Lemma pu_vld_mono h h' c : h <= h' -> vld h c -> vld h' c.
Proof.
  intros Hh [Hr Ho]. split; [lia|].
  assert (2 ^ (h - fst c) <= 2 ^ (h' - fst c)) by (apply pow2_le; lia). lia.
Qed.

Lemma pu_TreeRows_mono n m : n <= m -> TreeRows n <= TreeRows m.
Proof. intros Hnm. apply TreeRows_le_iff. pose proof (TreeRows_upper m). lia. Qed.

Lemma pu_add64_small n k : n + k <= 2 ^ 63 -> add64 n k = n + k.
Proof.
  intros Hb. unfold add64. apply wrap_small. rewrite W_eq.
  assert (2 ^ 63 < 2 ^ 64) by (apply pow2_lt; lia). lia.
Qed.

Lemma pu_remap1_g n k c : n + k <= 2 ^ 63 -> vld (TreeRows n) c ->
  remap1 n k (g (TreeRows n) c) = g (TreeRows (n + k)) c.
Proof.
  intros Hb Hv. unfold remap1. rewrite (pu_add64_small n k Hb).
  pose proof (pu_TreeRows_mono n (n + k) ltac:(lia)) as Hmono.
  pose proof (TreeRows_le_63 (n + k) Hb) as H63.
  set (t := TreeRows n) in *. set (t' := TreeRows (n + k)) in *.
  destruct Hv as [Hr Ho].
  destruct (N.ltb_spec t t') as [Hlt|Hge].
  - cbv zeta. unfold ProofPosSpec.g. rewrite (DetectRow_gpos t (fst c) (snd c)) by (try assumption; lia).
    rewrite (startPositionAtRow_gstart (fst c) t) by lia.
    rewrite (startPositionAtRow_gstart (fst c) t') by lia.
    pose proof (gpos_lt_W t (fst c) (snd c) ltac:(lia) Hr Ho) as HW.
    assert (Ho' : snd c < 2 ^ (t' - fst c)).
    { assert (2 ^ (t - fst c) <= 2 ^ (t' - fst c)) by (apply pow2_le; lia). lia. }
    pose proof (gpos_lt_W t' (fst c) (snd c) H63 ltac:(lia) Ho') as HW'.
    unfold gpos in *. rewrite sub64_small by lia.
    replace (gstart t (fst c) + snd c - gstart t (fst c)) with (snd c) by lia.
    unfold add64. rewrite wrap_small by lia. lia.
  - replace t' with t by lia. reflexivity.
Qed.

Lemma pu_zip_map_fst {H} (f : N -> N) : forall (ts : list N) (hs : list H),
  map (fun e : hp H => (f (fst e), snd e)) (zip_hp ts hs) = zip_hp (map f ts) hs.
Proof.
  induction ts as [|t ts IH]; intros [|h hs]; try reflexivity.
  cbn [zip_hp map fst snd]. f_equal. apply IH.
Qed.

Lemma pu_maybeRemap_zip {H} n k (cs : list crd) (hs : list H) : n + k <= 2 ^ 63 ->
  (forall c, In c cs -> vld (TreeRows n) c) ->
  maybeRemap n k (zip_hp (map (g (TreeRows n)) cs) hs) = zip_hp (map (g (TreeRows (n + k))) cs) hs.
Proof.
  intros Hb Hv. rewrite pu_maybeRemap_map, pu_zip_map_fst, map_map. f_equal.
  apply map_ext_in. intros c Hc. apply pu_remap1_g; [exact Hb|apply Hv, Hc].
Qed.

(** row-major order of positions does not depend on the height of the geometry *)
Lemma pu_g_lex h c c' : h <= 63 -> vld h c -> vld h c' ->
  (g h c < g h c' <-> fst c < fst c' \/ (fst c = fst c' /\ snd c < snd c')).
Proof.
  intros Hh Hv Hv'. assert (H0 : 0 <= 2 ^ h) by lia. split.
  - intros Hlt. destruct (N.lt_trichotomy (fst c) (fst c')) as [Hr|[Hr|Hr]]; [left; exact Hr| |].
    + right. split; [exact Hr|]. apply (pps_g_same_row 0 h Hh H0 c c' Hr). exact Hlt.
    + pose proof (pps_g_row_lt h c' c Hv' Hv Hr). lia.
  - intros [Hr|[Hr Ho]]; [exact (pps_g_row_lt h c c' Hv Hv' Hr)|].
    apply (pps_g_same_row 0 h Hh H0 c c' Hr). exact Ho.
Qed.

Lemma pu_SSlt_transfer h h' (cs : list crd) : h <= h' -> h' <= 63 ->
  (forall c, In c cs -> vld h c) -> SSlt (map (g h) cs) -> SSlt (map (g h') cs).
Proof.
  intros Hh Hh' Hv. induction cs as [|c cs IH]; intros Hs; [constructor|]. cbn [map] in *.
  destruct (po_SS_inv _ _ _ Hs) as [Hs' Hc]. constructor.
  - apply IH; [intros c' Hc'; apply Hv; right; exact Hc'|exact Hs'].
  - apply Forall_forall. intros x Hx. apply in_map_iff in Hx as (c' & <- & Hc').
    pose proof (Hv c (or_introl eq_refl)) as V1. pose proof (Hv c' (or_intror Hc')) as V2.
    apply (pu_g_lex h' c c' Hh' (pu_vld_mono h h' c Hh V1) (pu_vld_mono h h' c' Hh V2)).
    apply (pu_g_lex h c c' ltac:(lia) V1 V2). apply Hc, in_map, Hc'.
Qed.

(** ** [updateProofAdd] when no empty root is overwritten, on graphs of a valuation *)

Section UpaGraph.
  Variable H : Type.
  Variable HO : ops H.
  Variable F : N -> H.
  Local Notation gr := (gr H F).

  Lemma pu_dropN_lt_spec pos : forall l, SSlt l ->
    SSlt (dropN_lt l pos) /\ (forall x, In x (dropN_lt l pos) <-> In x l /\ pos <= x).
  Proof.
    induction l as [|y l IH]; intros Hs; [split; [constructor|intros x; cbn; tauto]|].
    destruct (po_SS_inv _ _ _ Hs) as [Hs' Hy]. cbn [dropN_lt].
    destruct (N.ltb_spec y pos) as [Hlt|Hge].
    - destruct (IH Hs') as [I1 I2]. split; [exact I1|]. intros x. rewrite I2. cbn [In].
      split; [tauto|]. intros [[<-|Hx] Hp]; [lia|tauto].
    - split; [exact Hs|]. intros x. cbn [In]. split; [|tauto].
      intros [<-|Hx]; [split; [left; reflexivity|lia]|]. specialize (Hy x Hx). split; [tauto|lia].
  Qed.

  Lemma pu_dropHP_gr pos : forall l, dropHP_lt (gr l) pos = gr (dropN_lt l pos).
  Proof.
    induction l as [|y l IH]; [reflexivity|]. cbn [ProofOpsSpec.gr map dropHP_lt dropN_lt fst].
    destruct (y <? pos); [exact IH|reflexivity].
  Qed.

  Lemma pu_headHP_gr pos l : headHP (gr l) pos = if headN_is l pos then Some (F pos) else None.
  Proof.
    destruct l as [|y l]; [reflexivity|]. cbn [ProofOpsSpec.gr map headHP headN_is fst snd].
    destruct (N.eqb_spec y pos) as [->|_]; reflexivity.
  Qed.

  Lemma pu_head_mem pos l : SSlt l -> headN_is (dropN_lt l pos) pos = memN pos l.
  Proof.
    intros Hs. destruct (pu_dropN_lt_spec pos l Hs) as [D1 D2].
    destruct (dropN_lt l pos) as [|y t] eqn:E; cbn [headN_is].
    - symmetry. apply po_memN_false. intros Hin.
      assert (Hp : In pos []) by (apply D2; split; [exact Hin|lia]). destruct Hp.
    - destruct (po_SS_inv _ _ _ D1) as [_ Hy].
      destruct (N.eqb_spec y pos) as [->|Hne].
      + symmetry. apply RefTheory.memN_In. apply (D2 pos). left. reflexivity.
      + symmetry. apply po_memN_false. intros Hin.
        assert (Hp : In pos (y :: t)) by (apply D2; split; [exact Hin|lia]).
        assert (Hyy : pos <= y) by (pose proof (proj1 (D2 y) (or_introl eq_refl)); lia).
        destruct Hp as [Hp|Hp]; [congruence|]. specialize (Hy pos Hp). lia.
  Qed.

  Lemma pu_upa_needed_gr : forall needed NM, SSlt needed -> SSlt NM ->
    upa_needed needed (gr NM) = gr (filter (fun p => memN p NM) needed).
  Proof.
    induction needed as [|pos rest IH]; intros NM Hn Hm; [reflexivity|].
    destruct (po_SS_inv _ _ _ Hn) as [Hn' Hpos].
    destruct (pu_dropN_lt_spec pos NM Hm) as [D1 D2].
    cbn [upa_needed filter]. rewrite pu_dropHP_gr, pu_headHP_gr, (pu_head_mem pos NM Hm).
    assert (Erest : filter (fun p => memN p (dropN_lt NM pos)) rest
                    = filter (fun p => memN p NM) rest).
    { apply filter_ext_in. intros p Hp. specialize (Hpos p Hp).
      destruct (memN p NM) eqn:A.
      - apply RefTheory.memN_In. apply D2. split; [apply RefTheory.memN_In, A|lia].
      - apply po_memN_false. intros Hin. apply D2 in Hin as [Hin _].
        apply RefTheory.memN_In in Hin. congruence. }
    rewrite !(IH _ Hn' D1), Erest.
    destruct (memN pos NM); reflexivity.
  Qed.

  Lemma pu_hash_subset_gr (AH : list H) NM :
    getHashAndPosHashSubset HO (gr NM) AH = gr (filter (fun p => mem_hash HO (F p) AH) NM).
  Proof.
    unfold getHashAndPosHashSubset. rewrite <- (po_filter_gr H F (fun p => mem_hash HO (F p) AH) NM).
    apply filter_ext_in. intros e He. apply in_map_iff in He as (p & <- & _). reflexivity.
  Qed.

  (** [TC], [PC]: the coordinates of the cached targets and of their proof positions before the
      additions; [NN]: the positions of the new nodes of the update data *)
  Theorem pu_updateProofAdd_graph (n : N) (adds : list H) (rem : list N) (TC PC : list crd)
          (NN comp needed comp' : list N) :
    let k := N.of_nat (length adds) in
    let total := TreeRows n in
    let total' := TreeRows (n + k) in
    let T1 := map (g total') TC in
    let P1 := map (g total') PC in
    let NM := mergeSortedSlices NN P1 in
    let RP := filter (fun p => mem_hash HO (F p) (pick adds rem)) NM in
    let T3 := mergeSortedSlices RP T1 in
    n + k <= 2 ^ 63 ->
    (forall c, In c TC -> vld total c) -> (forall c, In c PC -> vld total c) ->
    SSlt (map (g total) TC) -> SSlt (map (g total) PC) ->
    ProofPositions_fast (map (g total) TC) n total = (map (g total) PC, comp) ->
    SSlt NN -> SSlt rem ->
    ProofPositions_fast T3 (n + k) total' = (needed, comp') -> SSlt needed ->
    (forall p, In p needed -> In p NM) ->
    updateProofAdd HO (map (g total) TC) (map F P1) adds (map F T1) rem (gr NN) n []
    = Some (map F T3, T3, map F needed).
  Proof.
    intros k total total' T1 P1 NM RP T3 Hb HvT HvP HsT HsP Epp HsN Hsr Epp' Hsn Hsub.
    pose proof (pu_TreeRows_mono n (n + k) ltac:(lia)) as Hmono. fold total total' in Hmono.
    pose proof (TreeRows_le_63 (n + k) Hb) as H63. fold total' in H63.
    assert (HsT1 : SSlt T1) by (apply (pu_SSlt_transfer total total' TC Hmono H63 HvT HsT)).
    assert (HsP1 : SSlt P1) by (apply (pu_SSlt_transfer total total' PC Hmono H63 HvP HsP)).
    destruct (mergeSortedSlices_spec NN P1 HsN HsP1) as [HsNM _]. fold NM in HsNM.
    assert (HsRP : SSlt RP) by (apply po_filter_SS, HsNM).
    unfold updateProofAdd.
    rewrite (pu_toHP H (map (g total) TC) (map F T1)) by (try assumption; unfold T1; rewrite !map_length; reflexivity).
    unfold positions at 1.
    rewrite (pu_zip_fst (map (g total) TC) (map F T1)) by (unfold T1; rewrite !map_length; reflexivity).
    fold total. rewrite Epp.
    rewrite (pu_toHP H (map (g total) PC) (map F P1)) by (try assumption; unfold P1; rewrite !map_length; reflexivity).
    cbv zeta. fold k. rewrite (pu_add64_small n k Hb).
    unfold total. rewrite !pu_maybeRemap_zip by assumption. fold total total' T1 P1.
    cbn [fold_left fst snd]. rewrite !po_zip_gr.
    rewrite (po_merge_gr H F NN P1 HsN HsP1). fold NM.
    rewrite (remembered_pick _ 0 adds rem Hsr) by lia. fold (pick adds rem).
    rewrite pu_hash_subset_gr. fold RP.
    rewrite (po_merge_gr H F RP T1 HsRP HsT1). fold T3.
    unfold positions. rewrite po_gr_fst. fold total'. rewrite Epp'.
    rewrite (pu_upa_needed_gr needed NM Hsn HsNM).
    rewrite (po_filter_all (fun p => memN p NM) needed)
      by (intros p Hp; apply RefTheory.memN_In, Hsub, Hp).
    rewrite pu_sortK_sorted_id by (rewrite po_gr_fst; exact Hsn).
    unfold hashes. rewrite !po_gr_snd. reflexivity.
  Qed.
End UpaGraph.

(** * 6. Addition-only blocks on a forest without empty roots *)

Lemma pu_zip_map {X H} (f : X -> N) (h : X -> H) (l : list X) :
  zip_hp (map f l) (map h l) = map (fun x => (f x, h x)) l.
Proof. induction l as [|x l IH]; [reflexivity|]. cbn [map zip_hp]. f_equal. exact IH. Qed.

Lemma pick_from_NoDup {A} (adds : list A) : forall i rem, NoDup adds -> NoDup (pick_from i adds rem).
Proof.
  induction adds as [|a adds IH]; intros i rem Hnd; [constructor|]. cbn [pick_from].
  inversion Hnd as [|x l Ha Hl]; subst. specialize (IH (i + 1) rem Hl).
  destruct (memN i rem); [|exact IH]. cbn [app]. constructor; [|exact IH].
  intros Hin. apply Ha. exact (pick_from_In adds _ _ _ Hin).
Qed.

Section Aux.
  Variable H : Type.
  Variable HO : ops H.
  Hypothesis HOK : ops_ok HO.

  Lemma pu_kill_nil (s : slots H) : kill HO [] s = s.
  Proof.
    unfold kill. rewrite <- (map_id s) at 2. apply map_ext. intros [h|]; reflexivity.
  Qed.

  Lemma pu_has_del_nil (c : ctree H) : has_del HO [] c = false.
  Proof. induction c as [h|h l IHl r IHr]; cbn [has_del memH]; [reflexivity|]. rewrite IHl, IHr. reflexivity. Qed.

  Lemma pu_new_del_nil (s : slots H) : new_del HO s [] = [].
  Proof.
    unfold new_del. rewrite flat_map_nil_all; [reflexivity|].
    intros [[k lo] [c|]] _; [|reflexivity].
    destruct c as [h|h l r]; cbn [del_nodes]; rewrite pu_has_del_nil; reflexivity.
  Qed.

  Lemma occ_cwf c r o c0 r0 o0 : occ H c r o c0 r0 o0 -> cwf H HO c -> cwf H HO c0.
  Proof.
    induction 1 as [c r o | h l rr r o c0 r0 o0 _ IH | h l rr r o c0 r0 o0 _ IH]; intros Hw.
    - exact Hw.
    - apply IH. cbn [cwf] in Hw. tauto.
    - apply IH. cbn [cwf] in Hw. tauto.
  Qed.

  Variable s : slots H.
  Local Notation R := (rows_of (num_leaves s)).

  Lemma locc_val c0 r0 o0 : locc H HO s c0 r0 o0 -> Fv H HO s (pos R r0 o0) = chash c0.
  Proof.
    intros Hl. destruct (locc_node H HO s c0 r0 o0 Hl) as (x & Hx & Xr & Xo & Xh & _).
    rewrite <- Xr, <- Xo, <- Xh. exact (po_Fv_node H HO s x Hx).
  Qed.

  Lemma locc_nz c0 r0 o0 :
    (forall a b, NZ HO (op_hash2 HO a b)) -> (forall h, In (Some h) s -> NZ HO h) ->
    locc H HO s c0 r0 o0 -> NZ HO (chash c0).
  Proof.
    intros Hh2 Hl Hlo. destruct c0 as [h|h l rr].
    - cbn [chash]. apply Hl. apply (locc_leaf_live H HO s _ _ _ h Hlo). left. reflexivity.
    - destruct Hlo as (k & lo & c & He & Ho).
      apply forest_entry in He as (_ & _ & _ & _ & _ & Ht). symmetry in Ht.
      destruct (compress_wf H HO k _ c Ht) as [Hw _].
      pose proof (occ_cwf _ _ _ _ _ _ Ho Hw) as Hw0. cbn [cwf] in Hw0. destruct Hw0 as [-> _].
      cbn [chash]. apply Hh2.
  Qed.

  (** the children of an inner occurrence are non-root nodes *)
  Lemma locc_child_node h l rr r o : locc H HO s (CNode h l rr) (S r) o ->
    forall c0 o0, (c0 = l /\ o0 = 2 * o) \/ (c0 = rr /\ o0 = 2 * o + 1) ->
    exists y, In y (layout HO s) /\ nrow y = r /\ noff y = o0 /\ nhash y = chash c0 /\
              nroot y = false /\ locc H HO s c0 r o0.
  Proof.
    intros (k & lo & c & He & Ho) c0 o0 Hc.
    assert (Hoc : occ H c k (lo / 2 ^ N.of_nat k) c0 r o0).
    { apply (occ_trans H _ _ _ _ _ _ _ _ _ Ho).
      destruct Hc as [[-> ->]|[-> ->]]; [apply occ_left|apply occ_right]; apply occ_here. }
    destruct (locc_entry_node H HO s _ _ _ _ _ _ He Hoc) as (y & _ & Hy & Yr & Yo & Yh & _ & _ & Hnr).
    pose proof (occ_range H _ _ _ _ _ _ Ho) as (Hrk & _).
    exists y. repeat split; try assumption; [apply Hnr; lia|exists k, lo, c; auto].
  Qed.
End Aux.

Section AddOnly.
  Variable H : Type.
  Variable HO : ops H.
  Hypothesis HOK : ops_ok HO.
  Hypothesis hash_nz : forall a b, NZ HO (op_hash2 HO a b).
  Variable s : slots H.
  Variable adds : list H.
  Hypothesis Hlive_nz : forall h, In (Some h) s -> NZ HO h.
  Hypothesis Hb : N.of_nat (length s + length adds) <= 2 ^ 63.
  Hypothesis Hne : no_empty_root H HO s.

  Local Notation s' := (s ++ map Some adds).
  Hypothesis Hnd' : NoDup (live s').

  Local Notation n := (N.of_nat (length s)).
  Local Notation k := (N.of_nat (length adds)).
  Local Notation total := (TreeRows (N.of_nat (length s))).
  Local Notation total' := (TreeRows (N.of_nat (length s'))).
  Local Notation R := (rows_of (num_leaves s)).
  Local Notation R' := (rows_of (num_leaves s')).
  Local Notation lay := (layout HO s).
  Local Notation lay' := (layout HO s').
  Local Notation F := (Fv H HO s).
  Local Notation F' := (Fv H HO s').

  Lemma ao_n63 : n <= 2 ^ 63. Proof. lia. Qed.
  Lemma ao_len' : N.of_nat (length s') = n + k.
  Proof. rewrite app_length, map_length. lia. Qed.
  Lemma ao_n63' : N.of_nat (length s') <= 2 ^ 63. Proof. rewrite ao_len'. lia. Qed.

  Lemma ao_live' : live s' = live s ++ adds.
  Proof. rewrite live_app, live_map_some. reflexivity. Qed.
  Lemma ao_nd : NoDup (live s).
  Proof. pose proof Hnd' as Hx. rewrite ao_live' in Hx. exact (proj1 (NoDup_app_inv _ _ _ Hx)). Qed.
  Lemma ao_adds_nd : NoDup adds.
  Proof. pose proof Hnd' as Hx. rewrite ao_live' in Hx. exact (proj1 (proj2 (NoDup_app_inv _ _ _ Hx))). Qed.
  Lemma ao_fresh a : In a adds -> ~ In (Some a) s.
  Proof.
    intros Ha Hs. pose proof Hnd' as Hx. rewrite ao_live' in Hx.
    apply (proj2 (proj2 (NoDup_app_inv _ _ _ Hx)) a); [apply live_in; exact Hs|exact Ha].
  Qed.
  Lemma ao_in' h : In (Some h) s' <-> In (Some h) s \/ In h adds.
  Proof.
    rewrite in_app_iff, in_map_iff. split; intros [A|B]; auto.
    - destruct B as (x & E & Hx). injection E as ->. auto.
    - right. exists h. auto.
  Qed.

  Lemma ao_up c0 r0 o0 : locc H HO s c0 r0 o0 -> locc H HO s' c0 r0 o0.
  Proof. exact (proj1 (locc_adds H HO adds s Hb Hne) c0 r0 o0). Qed.
  Lemma ao_down c0 r0 o0 : locc H HO s' c0 r0 o0 ->
    (exists a, In a adds /\ In a (cleaves H c0)) \/ locc H HO s c0 r0 o0.
  Proof. exact (proj1 (proj2 (locc_adds H HO adds s Hb Hne)) c0 r0 o0). Qed.

  Lemma ao_pos' (c : nat * N) : pos R' (fst c) (snd c) = g total' (cN c).
  Proof. exact (po_pos_g H s' c). Qed.

  Lemma ao_val c0 r0 o0 : locc H HO s c0 r0 o0 ->
    F (g total (cN (r0, o0))) = chash c0 /\ F' (g total' (cN (r0, o0))) = chash c0.
  Proof.
    intros Hl. rewrite <- (rf_pos_g H s r0 o0), <- (rf_pos_g H s' r0 o0).
    split; [exact (locc_val H HO s c0 r0 o0 Hl)|exact (locc_val H HO s' c0 r0 o0 (ao_up _ _ _ Hl))].
  Qed.

  (** a leaf node of the old layout and the node at its place in the new layout *)
  Lemma ao_leaf_up x : In x lay -> nleaf x = true ->
    exists y, In y lay' /\ nleaf y = true /\ nhash y = nhash x /\ ncrd y = ncrd x.
  Proof.
    intros Hx Hl. destruct (node_locc H HO s x Hx Hl) as (k0 & lo & c & He & Ho & _).
    assert (Hlo : locc H HO s (CLeaf (nhash x)) (nrow x) (noff x)) by (exists k0, lo, c; auto).
    destruct (locc_node H HO s' _ _ _ (ao_up _ _ _ Hlo)) as (y & Hy & Yr & Yo & Yh & Yl).
    exists y. split; [exact Hy|]. split; [exact Yl|]. split; [exact Yh|].
    unfold ncrd. rewrite Yr, Yo. reflexivity.
  Qed.

  Variable C : list H.
  Variable rem : list N.
  Hypothesis HC : NoDup C.
  Hypothesis Hrem : SSlt rem.
  (** no inner node of the new forest carries the hash of a remembered addition *)
  Hypothesis Hcol : forall x, In x lay' -> nleaf x = false -> ~ In (nhash x) (pick adds rem).

  Variables (hC : list H) (tC : list N) (pC : list H).
  Hypothesis E : exp_cached HO (mk_ctx HO s) C = Some (hC, tC, pC).

  (** the two halves of [Proof.Update]: without deletions the remove part changes nothing; the
      add part computes the expected cached proof of the new state *)
  Lemma ao_both :
    updateProofRemove HO tC pC [] hC [] (num_leaves s) = Some (hC, tC, pC) /\
    (updateProofAdd HO tC pC adds hC rem (new_add HO s' adds) (num_leaves s)
                    (to_destroy HO R' s adds)
     = exp_cached HO (mk_ctx HO s') (C ++ pick adds rem) /\
     exp_cached HO (mk_ctx HO s') (C ++ pick adds rem) <> None).
  Proof.
    pose proof ao_n63 as Hn63. pose proof ao_n63' as Hn63'. pose proof ao_nd as Hnd.
    pose proof (pu_nle n) as Hnle. pose proof (pu_t63 n Hn63) as Ht63.
    (* the cached set before the block *)
    unfold exp_cached in E. cbn [mk_ctx clay crows] in E.
    destruct (find_leaves HO lay C) as [tsC|] eqn:FC; [|discriminate].
    fold (sort_nodes H s tsC) in E. injection E as <- <- <-.
    destruct (cc_find_leaves_facts HO s C tsC HOK HC FC) as (LC & FlC & NtC & EhC & InC).
    set (sorted := sort_nodes H s tsC).
    pose proof (po_sort_nodes_perm H s tsC) as Psort. fold sorted in Psort.
    assert (LS : forall x, In x sorted -> In x lay)
      by (intros x Hx; apply LC; exact (Permutation_in _ Psort Hx)).
    assert (FlS : forall x, In x sorted -> nleaf x = true)
      by (intros x Hx; apply FlC; exact (Permutation_in _ Psort Hx)).
    assert (NtS : NoDup sorted) by (exact (Permutation_NoDup (Permutation_sym Psort) NtC)).
    assert (HsT : SSlt (map (npos R) sorted)).
    { unfold sorted. rewrite (po_sort_nodes_pos H HO s tsC LC NtC).
      apply pps_sortN_NoDup_SSlt, (po_targets_NoDup H HO s tsC LC NtC). }
    assert (Epp : ProofPositions_fast (map (npos R) sorted) n total
                  = (canon_proof_pos R lay sorted, computable_pos R lay sorted)).
    { rewrite <- (po_sortN_sorted_id _ HsT) at 1. exact (po_pp_both_fast H HO s Hn63 sorted LS FlS NtS). }
    pose proof (po_canon_pos_SSlt H HO s Hn63 sorted LS) as HsP.
    (* the hashes of the targets *)
    assert (HhS : forall h, In h (map (@nhash H) sorted) <-> In h C).
    { intros h. rewrite <- EhC. split; apply Permutation_in, Permutation_map;
        [exact Psort|exact (Permutation_sym Psort)]. }
    assert (HCs : forall h, In h C -> In (Some h) s).
    { intros h Hh. apply HhS in Hh. apply in_map_iff in Hh as (x & <- & Hx).
      exact (layout_leaf_live H HO s x (LS x Hx) (FlS x Hx)). }
    (* coordinates *)
    set (TC := map (@ncrd H) sorted).
    set (SC := sort_coords R (proof_coords lay sorted)).
    set (PC := map (fun e : N * (nat * N) => cN (snd e)) SC).
    assert (ETC : map (npos R) sorted = map (g total) TC).
    { unfold TC. rewrite map_map. apply map_ext. intros x. apply rf_npos. }
    assert (EPC : canon_proof_pos R lay sorted = map (g total) PC).
    { unfold canon_proof_pos, PC. fold SC. rewrite map_map. apply map_ext_in. intros e He.
      apply RefTheory.sort_coords_In in He as (c & _ & ->). cbn [fst snd]. apply po_pos_g. }
    assert (HvT : forall c, In c TC -> vld total c).
    { intros c Hc. apply in_map_iff in Hc as (x & <- & Hx). exact (rf_node_vld H HO s x (LS x Hx)). }
    assert (HvP : forall c, In c PC -> vld total c).
    { intros c Hc. apply in_map_iff in Hc as (e & <- & He).
      apply RefTheory.sort_coords_In in He as (d & Hd & ->). cbn [snd].
      apply (po_is_node_vld H HO s d), (po_proof_coord_is_node H HO s Hn63 sorted LS d Hd). }
    (* every old proof position is a child of an inner occurrence *)
    assert (HPocc : forall c, In c PC -> exists c0 r0 o0,
               c = cN (r0, o0) /\ locc H HO s c0 r0 o0 /\
               exists y, In y lay /\ ncrd y = c /\ nhash y = chash c0 /\ nroot y = false).
    { intros c Hc. pose proof (HvP c Hc) as Hv.
      assert (Hp : In (g total c) (canon_proof_pos R lay sorted)) by (rewrite EPC; apply in_map, Hc).
      apply (canon_pos_occ H HO s Hn63 Hnd sorted LS FlS _) in Hp
        as (h & l & rr & r & o & Hlp & Hcase).
      assert (Hgen : forall c0 o0, (c0 = l /\ o0 = 2 * o) \/ (c0 = rr /\ o0 = 2 * o + 1) ->
                       g total c = pos R r o0 ->
                       exists c1 r1 o1, c = cN (r1, o1) /\ locc H HO s c1 r1 o1 /\
                         exists y, In y lay /\ ncrd y = c /\ nhash y = chash c1 /\ nroot y = false).
      { intros c0 o0 Hc0 Eg.
        destruct (locc_child_node H HO s h l rr r o Hlp c0 o0 Hc0) as (y & Hy & Yr & Yo & Yh & Ynr & Yl).
        assert (Ec : c = cN (r, o0)).
        { apply (pps_g_inj total); [exact Hv| |rewrite Eg; apply rf_pos_g].
          replace (cN (r, o0)) with (ncrd y) by (unfold ncrd; rewrite Yr, Yo; reflexivity).
          exact (rf_node_vld H HO s y Hy). }
        exists c0, r, o0. split; [exact Ec|]. split; [exact Yl|]. exists y.
        split; [exact Hy|]. split; [unfold ncrd; rewrite Yr, Yo; symmetry; exact Ec|]. auto. }
      destruct Hcase as [(_ & _ & Eg)|(_ & _ & Eg)].
      - apply (Hgen rr (2 * o + 1)); [right; auto|exact Eg].
      - apply (Hgen l (2 * o)); [left; auto|exact Eg]. }
    (* step 1: no deletions *)
    rewrite (to_destroy_nil H HO _ adds s Hb Hne).
    rewrite (po_canon_hashes_Fv H HO s Hn63 sorted LS).
    split.
    { apply (pu_updateProofRemove_nodel H HO _ _ _ n (canon_proof_pos R lay sorted) (computable_pos R lay sorted) Hn63); try assumption.
      - rewrite !map_length. reflexivity.
      - rewrite map_length. reflexivity.
      - intros e He. rewrite pu_zip_map in He. apply in_map_iff in He as (x & <- & Hx).
        exists (ncrd x). cbn [fst snd]. split; [exact (rf_node_inf H HO s x (LS x Hx))|].
        split; [apply rf_npos|]. split; [left; reflexivity|].
        apply Hlive_nz. exact (layout_leaf_live H HO s x (LS x Hx) (FlS x Hx)).
      - intros e He. rewrite po_zip_gr in He. apply in_map_iff in He as (p & <- & Hp).
        cbn [fst snd]. rewrite EPC in Hp. apply in_map_iff in Hp as (c & <- & Hc).
        destruct (HPocc c Hc) as (c0 & r0 & o0 & -> & Hl & y & Hy & Ey & Yh & Ynr).
        exists (cN (r0, o0)). split; [rewrite <- Ey; exact (rf_node_inf H HO s y Hy)|].
        split; [reflexivity|]. split.
        + right. rewrite <- Ey. exact (rf_root_true H HO s y Hy Ynr).
        + rewrite (proj1 (ao_val c0 r0 o0 Hl)). exact (locc_nz H HO s c0 r0 o0 hash_nz Hlive_nz Hl). }
    (* the cached set after the block *)
    set (C' := C ++ pick adds rem).
    assert (Hpick_adds : forall a, In a (pick adds rem) -> In a adds) by (intros a; apply pick_In).
    assert (HC' : NoDup C').
    { apply NoDup_app_intro; [exact HC|apply pick_from_NoDup, ao_adds_nd|].
      intros h Hh Hp. exact (ao_fresh h (Hpick_adds h Hp) (HCs h Hh)). }
    assert (HC's : forall h, In h C' -> In (Some h) s').
    { intros h Hh. apply ao_in'. apply in_app_or in Hh as [Hh|Hh]; [left; exact (HCs h Hh)|right; exact (Hpick_adds h Hh)]. }
    destruct (po_find_leaves_some H HO s' C') as [tsU FU].
    { intros h Hh. destruct (proj1 (find_leaf_live H HO s' h HOK) (HC's h Hh)) as (x & Ex & _).
      exists x. exact Ex. }
    destruct (cc_find_leaves_facts HO s' C' tsU HOK HC' FU) as (LU & FlU & NtU & EhU & InU).
    set (sortedU := sort_nodes H s' tsU).
    pose proof (po_sort_nodes_perm H s' tsU) as PsortU. fold sortedU in PsortU.
    assert (LSU : forall x, In x sortedU -> In x lay')
      by (intros x Hx; apply LU; exact (Permutation_in _ PsortU Hx)).
    assert (FlSU : forall x, In x sortedU -> nleaf x = true)
      by (intros x Hx; apply FlU; exact (Permutation_in _ PsortU Hx)).
    assert (NtSU : NoDup sortedU) by (exact (Permutation_NoDup (Permutation_sym PsortU) NtU)).
    assert (HhU : forall h, In h (map (@nhash H) sortedU) <-> In h C').
    { intros h. rewrite <- EhU. split; apply Permutation_in, Permutation_map;
        [exact PsortU|exact (Permutation_sym PsortU)]. }
    assert (HinU : forall y, In y lay' -> nleaf y = true -> In (nhash y) C' -> In y sortedU).
    { intros y Hy Hl Hh. apply (Permutation_in _ (Permutation_sym PsortU)). apply InU.
      exists (nhash y). split; [exact Hh|exact (find_leaf_of_node H HO HOK s' y Hnd' Hy Hl)]. }
    assert (HsTU : SSlt (map (npos R') sortedU)).
    { unfold sortedU. rewrite (po_sort_nodes_pos H HO s' tsU LU NtU).
      apply pps_sortN_NoDup_SSlt, (po_targets_NoDup H HO s' tsU LU NtU). }
    unfold exp_cached. cbn [mk_ctx clay crows]. fold C'. rewrite FU. fold sortedU.
    split; [|discriminate].
    (* the inputs as graphs of the valuation of the new state *)
    assert (Elen : N.of_nat (length s') = n + k) by exact ao_len'.
    set (T1 := map (g total') TC). set (P1 := map (g total') PC).
    set (NN := map fst (new_add HO s' adds)).
    assert (EhT : map (@nhash H) sorted = map F' T1).
    { unfold T1, TC. rewrite !map_map. apply map_ext_in. intros x Hx.
      destruct (node_locc H HO s x (LS x Hx) (FlS x Hx)) as (k0 & lo & c & He & Ho & _).
      symmetry. apply (proj2 (ao_val (CLeaf (nhash x)) (nrow x) (noff x) ltac:(exists k0, lo, c; auto))). }
    assert (EhP : map F (canon_proof_pos R lay sorted) = map F' P1).
    { rewrite EPC. unfold P1. rewrite !map_map. apply map_ext_in. intros c Hc.
      destruct (HPocc c Hc) as (c0 & r0 & o0 & -> & Hl & _).
      destruct (ao_val c0 r0 o0 Hl) as [V1 V2]. rewrite V1, V2. reflexivity. }
    assert (ENN : new_add HO s' adds = gr H F' NN).
    { apply po_graph_eq. intros e He. destruct (new_add_node H HO adds s' e He) as (z & Hz & ->).
      cbn [fst snd]. symmetry. exact (po_Fv_node H HO s' z Hz). }
    pose proof (new_add_SSlt H HO adds s') as HsNN. fold NN in HsNN.
    assert (Hmono : total <= total').
    { apply pu_TreeRows_mono. rewrite Elen. lia. }
    assert (H63' : total' <= 63) by (apply TreeRows_le_63, Hn63').
    assert (HsT1 : SSlt T1).
    { apply (pu_SSlt_transfer total total' TC Hmono H63' HvT). rewrite <- ETC. exact HsT. }
    assert (HsP1 : SSlt P1).
    { apply (pu_SSlt_transfer total total' PC Hmono H63' HvP). rewrite <- EPC. exact HsP. }
    destruct (mergeSortedSlices_spec NN P1 HsNN HsP1) as [HsNM MNM].
    set (NM := mergeSortedSlices NN P1) in *.
    set (RP := filter (fun p => mem_hash HO (F' p) (pick adds rem)) NM).
    assert (HsRP : SSlt RP) by (apply po_filter_SS, HsNM).
    destruct (mergeSortedSlices_spec RP T1 HsRP HsT1) as [HsT3 MT3].
    set (T3 := mergeSortedSlices RP T1) in *.
    assert (Hmem : forall h l, mem_hash HO h l = true <-> In h l).
    { intros h l. unfold mem_hash. rewrite existsb_exists. split.
      - intros (x & Hx & Ex). apply HOK in Ex. subst x. exact Hx.
      - intros Hh. exists h. split; [exact Hh|apply HOK; reflexivity]. }
    (* every position of the merged node list is a node of the new layout *)
    assert (HNMnode : forall p, In p NM -> exists z, In z lay' /\ p = npos R' z /\ F' p = nhash z).
    { intros p Hp. apply MNM in Hp as [Hp|Hp].
      - unfold NN in Hp. apply in_map_iff in Hp as (e & <- & He).
        destruct (new_add_node H HO adds s' e He) as (z & Hz & ->). cbn [fst].
        exists z. split; [exact Hz|]. split; [reflexivity|exact (po_Fv_node H HO s' z Hz)].
      - unfold P1 in Hp. apply in_map_iff in Hp as (c & <- & Hc).
        destruct (HPocc c Hc) as (c0 & r0 & o0 & -> & Hl & _).
        destruct (locc_node H HO s' c0 r0 o0 (ao_up _ _ _ Hl)) as (z & Hz & Zr & Zo & Zh & _).
        assert (Ez : g total' (cN (r0, o0)) = npos R' z).
        { rewrite (rf_npos H s' z). unfold ncrd. rewrite Zr, Zo. reflexivity. }
        exists z. split; [exact Hz|]. split; [exact Ez|]. rewrite Ez. exact (po_Fv_node H HO s' z Hz). }
    (* the targets after the block *)
    assert (ET3 : T3 = map (npos R') sortedU).
    { apply pps_SSlt_ext; [exact HsT3|exact HsTU|]. intros p. rewrite MT3. split.
      - intros [Hp|Hp].
        + apply filter_In in Hp as [Hp Hm]. apply Hmem in Hm.
          destruct (HNMnode p Hp) as (z & Hz & -> & Ez). rewrite Ez in Hm.
          apply in_map. apply HinU; [exact Hz| |apply in_or_app; right; exact Hm].
          destruct (nleaf z) eqn:Hl; [reflexivity|]. exfalso. exact (Hcol z Hz Hl Hm).
        + unfold T1, TC in Hp. rewrite map_map in Hp. apply in_map_iff in Hp as (x & <- & Hx).
          destruct (ao_leaf_up x (LS x Hx) (FlS x Hx)) as (y & Hy & Yl & Yh & Yc).
          rewrite <- Yc, <- (rf_npos H s' y). apply in_map. apply HinU; [exact Hy|exact Yl|].
          rewrite Yh. apply in_or_app. left. apply HhS. apply in_map, Hx.
      - intros Hp. apply in_map_iff in Hp as (y & <- & Hy).
        pose proof (LSU y Hy) as Hyl. pose proof (FlSU y Hy) as Yl.
        assert (Hh : In (nhash y) C') by (apply HhU; apply in_map, Hy).
        apply in_app_or in Hh as [Hh|Hh].
        + right. apply HhS in Hh. apply in_map_iff in Hh as (x & Ex & Hx).
          destruct (ao_leaf_up x (LS x Hx) (FlS x Hx)) as (y' & Hy' & Yl' & Yh' & Yc').
          assert (Eyy : y' = y).
          { apply (live_leaf_unique H HO s' y' y Hnd' Hy' Hyl Yl' Yl). congruence. }
          subst y'. unfold T1, TC. rewrite map_map. apply in_map_iff. exists x.
          split; [|exact Hx]. rewrite <- Yc'. symmetry. apply rf_npos.
        + left. apply filter_In.
          destruct (node_locc H HO s' y Hyl Yl) as (k0 & lo & c & He & Ho & _).
          assert (Hna : In (pos R' (nrow y) (noff y), nhash y) (new_add HO s' adds)).
          { apply (new_add_leaf H HO HOK adds s' (nhash y) (nrow y) (noff y));
              [exists k0, lo, c; auto|exact (Hpick_adds _ Hh)]. }
          split.
          * apply MNM. left. unfold NN. apply in_map_iff.
            exists (pos R' (nrow y) (noff y), nhash y). split; [reflexivity|exact Hna].
          * apply Hmem. rewrite (po_Fv_node H HO s' y Hyl). exact Hh. }
    (* the proof positions after the block *)
    set (needed := canon_proof_pos R' lay' sortedU).
    assert (Epp' : ProofPositions_fast T3 (N.of_nat (length s')) total'
                   = (needed, computable_pos R' lay' sortedU)).
    { rewrite ET3. rewrite <- (po_sortN_sorted_id _ HsTU) at 1.
      exact (po_pp_both_fast H HO s' Hn63' sortedU LSU FlSU NtSU). }
    pose proof (po_canon_pos_SSlt H HO s' Hn63' sortedU LSU) as Hsn. fold needed in Hsn.
    assert (Hfresh_leaf : forall c0 r0 o0 h, locc H HO s c0 r0 o0 -> In h (cleaves H c0) ->
                                        In h C' -> In h C).
    { intros c0 r0 o0 h Hl Hh Hc. apply in_app_or in Hc as [Hc|Hc]; [exact Hc|exfalso].
      exact (ao_fresh h (Hpick_adds h Hc) (locc_leaf_live H HO s c0 r0 o0 h Hl Hh)). }
    assert (Hsub : forall p, In p needed -> In p NM).
    { intros p Hp.
      apply (canon_pos_occ H HO s' Hn63' Hnd' sortedU LSU FlSU) in Hp
        as (h & l & rr & r & o & Hlp & Hcase).
      destruct (has_leaf_in HO adds (CNode h l rr)) eqn:Hin.
      - destruct (new_add_child H HO HOK adds s' h l rr r o Hlp Hin) as [N1 N2].
        apply MNM. left. unfold NN.
        destruct Hcase as [(_ & _ & ->)|(_ & _ & ->)].
        + apply in_map_iff. exists (pos R' r (2 * o + 1), chash rr). split; [reflexivity|exact N2].
        + apply in_map_iff. exists (pos R' r (2 * o), chash l). split; [reflexivity|exact N1].
      - assert (Hold : locc H HO s (CNode h l rr) (S r) o).
        { destruct (ao_down _ _ _ Hlp) as [(a & Ha & Hac)|Hl]; [|exact Hl]. exfalso.
          assert (Ht : has_leaf_in HO adds (CNode h l rr) = true)
            by (apply (has_leaf_in_iff H HO HOK); exists a; auto).
          congruence. }
        destruct (locc_child H HO s _ _ _ Hold h l rr eq_refl) as (r1 & Er & Ll & Lr).
        injection Er as <-.
        assert (Hhit : forall c0 o0, locc H HO s c0 r o0 ->
                  (hit H sortedU c0 <-> hit H sorted c0)).
        { intros c0 o0 Hl0. split.
          - intros (y & Hy & Hyc).
            assert (Hc : In (nhash y) C).
            { apply (Hfresh_leaf c0 r o0 (nhash y) Hl0 Hyc). apply HhU. apply in_map, Hy. }
            apply HhS in Hc. apply in_map_iff in Hc as (x & Ex & Hx).
            exists x. split; [exact Hx|]. rewrite Ex. exact Hyc.
          - intros (x & Hx & Hxc).
            assert (Hc : In (nhash x) C') by (apply in_or_app; left; apply HhS; apply in_map, Hx).
            apply HhU in Hc. apply in_map_iff in Hc as (y & Ey & Hy).
            exists y. split; [exact Hy|]. rewrite Ey. exact Hxc. }
        apply MNM. right.
        assert (Hgen : forall c0 o0, locc H HO s c0 r o0 ->
                         In (pos R r o0) (canon_proof_pos R lay sorted) -> In (pos R' r o0) P1).
        { intros c0 o0 Hl0 Hpo. rewrite EPC in Hpo. apply in_map_iff in Hpo as (c & Ec & Hc).
          assert (Ecc : c = cN (r, o0)).
          { apply (pps_g_inj total); [exact (HvP c Hc)| |rewrite Ec; apply rf_pos_g].
            destruct (locc_node H HO s c0 r o0 Hl0) as (z & Hz & Zr & Zo & _).
            replace (cN (r, o0)) with (ncrd z) by (unfold ncrd; rewrite Zr, Zo; reflexivity).
            exact (rf_node_vld H HO s z Hz). }
          unfold P1. apply in_map_iff. exists c. split; [|exact Hc].
          rewrite Ecc. symmetry. apply (rf_pos_g H s'). }
        destruct Hcase as [(Hl & Hnr & ->)|(Hr & Hnl & ->)].
        + apply (Hgen rr _ Lr). apply (canon_pos_occ H HO s Hn63 Hnd sorted LS FlS).
          exists h, l, rr, r, o. split; [exact Hold|]. left.
          split; [apply (Hhit l (2 * o) Ll), Hl|]. split; [|reflexivity].
          intros Hx. apply Hnr. apply (Hhit rr (2 * o + 1) Lr), Hx.
        + apply (Hgen l _ Ll). apply (canon_pos_occ H HO s Hn63 Hnd sorted LS FlS).
          exists h, l, rr, r, o. split; [exact Hold|]. right.
          split; [apply (Hhit rr (2 * o + 1) Lr), Hr|]. split; [|reflexivity].
          intros Hx. apply Hnl. apply (Hhit l (2 * o) Ll), Hx. }
    (* the mirror of [updateProofAdd] on these graphs *)
    rewrite EhP, EhT, ENN, ETC.
    pose proof (pu_updateProofAdd_graph H HO F' n adds rem TC PC NN (computable_pos R lay sorted)
                  needed (computable_pos R' lay' sortedU)) as G.
    cbv zeta in G. rewrite <- Elen in G.
    assert (Hb' : N.of_nat (length s') <= 2 ^ 63) by exact Hn63'.
    specialize (G Hb' HvT HvP).
    rewrite <- ETC, <- EPC in G. specialize (G HsT HsP Epp HsNN Hrem Epp' Hsn Hsub).
    rewrite ETC in G.
    refine (eq_trans G _).
    change (Some (map F' T3, T3, map F' needed)
            = Some (map (@nhash H) sortedU, map (npos R') sortedU,
                    canon_proof_hashes HO R' lay' sortedU)).
    rewrite ET3. unfold needed.
    rewrite <- (po_hashes_Fv H HO s' sortedU LSU).
    rewrite <- (po_canon_hashes_Fv H HO s' Hn63' sortedU LSU). reflexivity.
  Qed.

  (** G1 (sub-case): an addition-only block on a forest without empty roots *)
  Theorem proof_update_add_only :
    proof_update HO tC pC hC adds [] rem (ud_of_spec (spec_update_data HO s [] adds))
    = exp_cached HO (mk_ctx HO (apply_block HO s [] adds)) (C ++ pick adds rem) /\
    exp_cached HO (mk_ctx HO (apply_block HO s [] adds)) (C ++ pick adds rem) <> None.
  Proof.
    destruct ao_both as [Erem Eadd].
    unfold proof_update, ud_of_spec, spec_update_data.
    cbn [u_del u_prev u_add u_to_destroy ud_new_del ud_prev_num_leaves ud_new_add ud_to_destroy].
    rewrite (pu_kill_nil H HO s), (pu_new_del_nil H HO s).
    unfold apply_block. rewrite (pu_kill_nil H HO s).
    match goal with |- context [updateProofRemove ?a ?b ?c ?d ?e ?f ?g] =>
      change (updateProofRemove a b c d e f g)
        with (updateProofRemove HO tC pC [] hC [] (num_leaves s)) end.
    rewrite Erem. exact Eadd.
  Qed.
End AddOnly.

Print Assumptions proof_update_add_only.

(** * 7. The free hash algebra ("barring collisions") *)

(** an inner node of a layout carries the all-zero hash (an empty root) or a [Node] *)
Lemma pu_term_inner (s : slots term) x : In x (layout term_ops s) -> nleaf x = false ->
  nhash x = Zero \/ exists l r, nhash x = Node l r.
Proof.
  intros Hx Hl. destruct (layout_entry term term_ops s x Hx) as (k & lo & t & He & Hxe).
  destruct t as [c|].
  - cbn [place_entry] in Hxe. destruct (place_occ term c _ _ _ _ x Hxe) as (c0 & Ho & Eh & El).
    apply forest_entry in He as (_ & _ & _ & _ & _ & Ht). symmetry in Ht.
    destruct (compress_wf term term_ops k _ c Ht) as [Hw _].
    pose proof (occ_cwf term term_ops _ _ _ _ _ _ Ho Hw) as Hw0.
    destruct c0 as [h|h l r]; [cbn in El; congruence|].
    cbn [cwf] in Hw0. destruct Hw0 as [-> _]. right. rewrite Eh. cbn. eauto.
  - cbn [place_entry] in Hxe. destruct Hxe as [<-|[]]. left. reflexivity.
Qed.

(** G1 (sub-case) in the free algebra: additions that are atoms never collide with inner nodes *)
Theorem proof_update_add_only_term (s : slots term) (adds C : list term) (rem : list N)
        (hC : list term) (tC : list N) (pC : list term) :
  (forall h, In (Some h) s -> h <> Zero) ->
  N.of_nat (length s + length adds) <= 2 ^ 63 ->
  no_empty_root term term_ops s ->
  NoDup (live (s ++ map Some adds)) ->
  (forall a, In a adds -> exists i, a = Atom i) ->
  NoDup C -> SSlt rem ->
  exp_cached term_ops (mk_ctx term_ops s) C = Some (hC, tC, pC) ->
  proof_update term_ops tC pC hC adds [] rem (ud_of_spec (spec_update_data term_ops s [] adds))
  = exp_cached term_ops (mk_ctx term_ops (apply_block term_ops s [] adds)) (C ++ pick adds rem) /\
  exp_cached term_ops (mk_ctx term_ops (apply_block term_ops s [] adds)) (C ++ pick adds rem) <> None.
Proof.
  intros Hl Hb Hne Hnd Hatoms HC Hrem E.
  apply (proof_update_add_only term term_ops term_ops_ok cs_term_hash_nz s adds
           (fun h Hh => term_nonzero_eqb h (Hl h Hh)) Hb Hne Hnd C rem HC Hrem); [|exact E].
  intros x Hx Hlf Hin. destruct (Hatoms _ (pick_In adds rem _ Hin)) as [i Ei].
  destruct (pu_term_inner _ x Hx Hlf) as [E0|(l & r & E0)]; congruence.
Qed.
Print Assumptions proof_update_add_only_term.

(** non-vacuity: five slots (one dead, no empty root), four additions that cross a power of two
    (5 -> 9 leaves, the forest grows a row), two remembered *)
Definition pu_ex_s : slots term := [Some (Atom 1); None; Some (Atom 3); Some (Atom 4); Some (Atom 5)].
Definition pu_ex_adds : list term := [Atom 6; Atom 7; Atom 8; Atom 9].

Example pu_ex_add_only :
  exists hC tC pC,
    exp_cached term_ops (mk_ctx term_ops pu_ex_s) [Atom 5; Atom 1] = Some (hC, tC, pC) /\
    proof_update term_ops tC pC hC pu_ex_adds [] [1; 3]
                 (ud_of_spec (spec_update_data term_ops pu_ex_s [] pu_ex_adds))
    = exp_cached term_ops (mk_ctx term_ops (apply_block term_ops pu_ex_s [] pu_ex_adds))
                 ([Atom 5; Atom 1] ++ pick pu_ex_adds [1; 3]) /\
    proof_update term_ops tC pC hC pu_ex_adds [] [1; 3]
                 (ud_of_spec (spec_update_data term_ops pu_ex_s [] pu_ex_adds))
    = Some ([Atom 5; Atom 7; Atom 9; Atom 1], [4; 6; 8; 16],
            [Atom 6; Atom 8; Node (Atom 3) (Atom 4)]).
Proof.
  eexists _, _, _. split; [vm_compute; reflexivity|]. split; [|vm_compute; reflexivity].
  apply proof_update_add_only_term.
  - intros h Hh. cbn in Hh. repeat (destruct Hh as [Hh|Hh]; [try discriminate; injection Hh as <-; discriminate|]). destruct Hh.
  - vm_compute. discriminate.
  - intros e He. vm_compute in He.
    repeat (destruct He as [<-|He]; [discriminate|]). destruct He.
  - apply po_ex_nodup; reflexivity.
  - intros a Ha. cbn in Ha. repeat (destruct Ha as [<-|Ha]; [eexists; reflexivity|]). destruct Ha.
  - apply po_ex_nodup; reflexivity.
  - repeat constructor; lia.
  - vm_compute. reflexivity.
Qed.

(** * 8. The full statement of C07 for [Proof.Update], as an executable check (G0)

    [pu_check s C dels adds rem]: [s] the state before the block, [C] the cached set, [dels] the
    deleted leaves, [adds] the added leaves, [rem] the indexes of the remembered additions.  The
    client holds [exp_cached s C]; the block data are [spec_update_data s dels adds] (which
    [StumpDelData.stump_update_data] proves [Stump.Update] to produce) and the positions of [dels]
    ([exp_prove]); the check compares the mirror of [Proof.Update] with
    [exp_cached (apply_block s dels adds) ((C minus dels) ++ remembered additions)]. *)
Section Check.
  Variable H : Type.
  Variable HO : ops H.
  Definition pu_res_eqb (a b : option (list H * list N * list H)) : bool :=
    match a, b with
    | Some (h, t, p), Some (h', t', p') =>
        list_eqb (op_eqb HO) h h' && list_eqb N.eqb t t' && list_eqb (op_eqb HO) p p'
    | None, None => true
    | _, _ => false
    end.
  Definition pu_run (s : slots H) (C dels adds : list H) (rem : list N)
    : option (list H * list N * list H) :=
    match exp_cached HO (mk_ctx HO s) C, exp_prove HO (mk_ctx HO s) dels with
    | Some (hC, tC, pC), Some (bt, _) =>
        proof_update HO tC pC hC adds bt rem (ud_of_spec (spec_update_data HO s dels adds))
    | _, _ => None
    end.
  Definition pu_exp (s : slots H) (C dels adds : list H) (rem : list N) :=
    exp_cached HO (mk_ctx HO (apply_block HO s dels adds)) (cached_after HO C dels (pick adds rem)).
  Definition pu_check (s : slots H) (C dels adds : list H) (rem : list N) : bool :=
    match exp_cached HO (mk_ctx HO s) C, exp_prove HO (mk_ctx HO s) dels with
    | Some _, Some _ =>
        match pu_exp s C dels adds rem with
        | Some _ => pu_res_eqb (pu_run s C dels adds rem) (pu_exp s C dels adds rem)
        | None => false
        end
    | _, _ => false
    end.
End Check.

(** every state of [k] slots [Atom i] / dead, every cached set and every deleted set of live leaves,
    0..[maxadd] fresh additions, every set of remembered indexes *)
Fixpoint pu_sublists {A} (l : list A) : list (list A) :=
  match l with [] => [[]] | x :: t => let r := pu_sublists t in map (cons x) r ++ r end.
Fixpoint pu_states (k : nat) (i : N) : list (slots term) :=
  match k with
  | O => [[]]
  | S j => let r := pu_states j (i + 1) in map (cons (Some (Atom i))) r ++ map (cons None) r
  end.
Fixpoint pu_seqN (a : N) (k : nat) : list N :=
  match k with O => [] | S j => a :: pu_seqN (a + 1) j end.
Definition pu_cases (maxadd : nat) (s : slots term) :=
  let lv := live s in
  flat_map (fun C => flat_map (fun dels =>
    flat_map (fun k => let adds := map Atom (pu_seqN 100 k) in
       map (fun rem => (s, C, dels, adds, rem)) (pu_sublists (pu_seqN 0 k))) (seq 0 (S maxadd)))
    (pu_sublists lv)) (pu_sublists lv).
Definition pu_failures (k maxadd : nat) :=
  flat_map (fun s =>
    filter (fun c => let '(s, C, dels, adds, rem) := c in negb (pu_check term term_ops s C dels adds rem))
           (pu_cases maxadd s)) (pu_states k 1).

(** all 19,375 cases over four slots and up to four additions (empty roots, dead slots, deleted
    siblings and whole trees, additions that overwrite empty roots and cross powers of two): no
    difference.  (The same enumeration over five slots / up to four additions - 96,875 cases - and
    six slots / up to three additions - 234,375 cases - is also clean; it takes minutes.) *)
Example pu_g0_exhaustive_4 : pu_failures 4 4 = [].
Proof. vm_compute. reflexivity. Qed.

(** a dozen larger histories *)
Definition pu_s8 : slots term :=
  [Some (Atom 1); None; Some (Atom 3); Some (Atom 4); None; None; None; None;
   Some (Atom 9); Some (Atom 10); None; None; Some (Atom 13)].
Example pu_g0_large :
  forallb (fun c => let '(s, C, dels, adds, rem) := c in pu_check term term_ops s C dels adds rem)
    [ (pu_s8, [Atom 1; Atom 13], [], map Atom [20; 21; 22], [0; 2]);
      (pu_s8, [Atom 1; Atom 3; Atom 13], [Atom 3], map Atom [20; 21; 22; 23], [1; 3]);
      (pu_s8, [Atom 9; Atom 10; Atom 4], [Atom 9; Atom 10], map Atom [20], [0]);
      (pu_s8, [Atom 1; Atom 3; Atom 4; Atom 9; Atom 10; Atom 13], [Atom 13; Atom 1], [], []);
      (pu_s8, [], [Atom 4; Atom 3], map Atom [20; 21; 22], [0; 1; 2]);
      (pu_s8, [Atom 3; Atom 4], [Atom 1], map Atom [20; 21; 22; 23; 24], []);
      (pu_s8, [Atom 13], [Atom 13], map Atom [20; 21; 22], [2]);
      (pu_s8, [Atom 1; Atom 9], [Atom 3; Atom 4; Atom 10], map Atom [20; 21; 22], [1]);
      (pu_s8 ++ [Some (Atom 14); Some (Atom 15); Some (Atom 16)], [Atom 16; Atom 1],
         [Atom 15], map Atom [20], [0]);
      (pu_s8 ++ [Some (Atom 14); Some (Atom 15); Some (Atom 16)], [Atom 14; Atom 15; Atom 16; Atom 9],
         [Atom 14; Atom 9; Atom 10], map Atom [20; 21; 22; 23; 24; 25], [0; 5]);
      (map (fun i => Some (Atom i)) (pu_seqN 1 16), map Atom [1; 2; 7; 16], map Atom [3; 4; 8; 15],
         map Atom [20; 21], [1]);
      (map (fun i => Some (Atom i)) (pu_seqN 1 16), map Atom [5; 6; 7; 8], map Atom [5; 6; 7],
         map Atom [20], [0]) ] = true.
Proof. vm_compute. reflexivity. Qed.
