(** [Proof.Update] (mirror: [Model.ProofUpdate.proof_update]) against the reference forest
    (property C07: "a cached proof updated from block data alone stays complete and canonical").

    A light client holds the cached proof [exp_cached s C] of a set [C] of leaves.  After a block it
    calls [Proof.Update] with the block data [spec_update_data s dels adds] (which
    [StumpDelData.stump_update_data] proves [Stump.Update] to produce), the positions of the
    deleted leaves and the indexes of the additions it wants to remember.  The statement of C07:
    the result is [exp_cached (apply_block s dels adds) ((C minus dels) ++ remembered additions)].

    What is proved here
    - G0  the full statement as an executable check [pu_check]; evaluated in the free hash algebra
          on every history over four slots (19,375 cases; five slots - 96,875 cases - and six slots -
          234,375 cases - were run too) and on a dozen larger histories: no difference;
    - G1  [proof_update_add_only]: the statement for every ADDITION-ONLY block ([dels = []]), on any
          forest of up to 2^63 leaves: dead slots, empty roots that the additions write over
          ([u_to_destroy], the positions lifted by [getNewPositions]), additions that make the
          forest grow a row ([maybeRemap]), any remembered subset;
          [ag_both]: the two halves separately - without deletions [updateProofRemove] returns its
          input, and [updateProofAdd] computes the expected cached proof of the new state.
    Not proved: blocks with deletions ([updateProofRemove] with targets); see the end of the file.

    Structure
    - 1, 2  subtree occurrences [occ]/[locc] in the layout of a state; the known set and the
            canonical proof positions in terms of occurrences ([known_occ], [canon_pos_occ]);
    - 4     the update data of additions ([new_add]) in terms of occurrences;
    - 5     the helpers of [Proof.Update] on well-formed inputs; [updateProofRemove] without targets;
    - 6     auxiliary facts;
    - then  [DetectOffset]: positions of one aligned block of the forest are in the same tree
            ([subtree_same_block]); [getNewPositions] with one destroyed root = the coordinate lift
            [StumpAddData.lift1] ([pu_gnp_targets_single], [pu_moved]); occurrences by path and the
            lift of whole subtrees over a run of additions ([lift_adds]); [updateProofAdd] on graphs
            of the new valuation ([pu_updateProofAdd_graph2]); the theorem ([Section AddGen]);
    - 7, 8  the free hash algebra, examples, the executable check. *)
From Utreexo Require Import Base.Hash Model.Utils Model.UtilsFast Model.Verify Model.ProofOps
  Model.ProofUpdate Spec.Forest Spec.Oracle Spec.Geometry Spec.Term
  Proofs.UtilsGeom Proofs.UtilsGeom2 Proofs.SpecBasics Proofs.StumpAdd Proofs.LayoutStruct
  Proofs.ProofPosSpec Proofs.CalcTotal Proofs.CalcSound Proofs.CalcComplete Proofs.CachedVerifies
  Proofs.AbstractModels Proofs.StumpAddData Proofs.StumpDelData Proofs.ProofOpsSpec.
From Utreexo Require Proofs.RefTheory.
From Coq Require Import List Arith PeanoNat NArith ZArith Lia ZifyNat ZifyN ZifyBool Sorted Permutation.
Import ListNotations.
Open Scope N_scope.

Local Notation SSlt := (StronglySorted N.lt).
Local Notation SSle := (StronglySorted N.le).

(** * 1. Occurrences of subtrees in a placed compressed tree *)

Section Occ.
  Variable H : Type.
  Variable HO : ops H.
  Local Notation ctree := (ctree H).

  (** [occ c r o c0 r0 o0]: placing [c] at (r, o) places the subtree [c0] at (r0, o0) *)
  Inductive occ : ctree -> nat -> N -> ctree -> nat -> N -> Prop :=
  | occ_here c r o : occ c r o c r o
  | occ_left h l rr r o c0 r0 o0 :
      occ l r (2 * o) c0 r0 o0 -> occ (CNode h l rr) (S r) o c0 r0 o0
  | occ_right h l rr r o c0 r0 o0 :
      occ rr r (2 * o + 1) c0 r0 o0 -> occ (CNode h l rr) (S r) o c0 r0 o0.

  Lemma occ_trans c r o c1 r1 o1 c2 r2 o2 :
    occ c r o c1 r1 o1 -> occ c1 r1 o1 c2 r2 o2 -> occ c r o c2 r2 o2.
  Proof.
    intros H1 H2. induction H1 as [| h l rr r o c0 r0 o0 _ IH | h l rr r o c0 r0 o0 _ IH].
    - exact H2.
    - apply occ_left, IH, H2.
    - apply occ_right, IH, H2.
  Qed.

  Lemma occ_range c r o c0 r0 o0 : occ c r o c0 r0 o0 ->
    (r0 <= r)%nat /\ o * p2 (r - r0) <= o0 /\ o0 < (o + 1) * p2 (r - r0).
  Proof.
    induction 1 as [c r o | h l rr r o c0 r0 o0 _ IH | h l rr r o c0 r0 o0 _ IH].
    - rewrite Nat.sub_diag, p2_0. lia.
    - destruct IH as (Hr & Hlo & Hhi). split; [lia|].
      replace (S r - r0)%nat with (S (r - r0)) by lia. rewrite p2_S. lia.
    - destruct IH as (Hr & Hlo & Hhi). split; [lia|].
      replace (S r - r0)%nat with (S (r - r0)) by lia. rewrite p2_S. lia.
  Qed.

  Lemma occ_same_row c r o c0 o0 : occ c r o c0 r o0 -> c0 = c /\ o0 = o.
  Proof.
    intros Ho. inversion Ho; subst.
    - split; reflexivity.
    - match goal with X : occ _ _ _ _ _ _ |- _ => apply occ_range in X; lia end.
    - match goal with X : occ _ _ _ _ _ _ |- _ => apply occ_range in X; lia end.
  Qed.

  Lemma occ_uniq c r o c1 c2 r0 o0 :
    occ c r o c1 r0 o0 -> occ c r o c2 r0 o0 -> c1 = c2.
  Proof.
    intros H1. revert c2.
    induction H1 as [c r o | h l rr r o c0 r0 o0 H1 IH | h l rr r o c0 r0 o0 H1 IH]; intros c2 H2.
    - apply occ_same_row in H2 as [E _]. symmetry. exact E.
    - pose proof (occ_range _ _ _ _ _ _ H1) as (R1 & L1 & U1).
      inversion H2; subst.
      + lia.
      + apply IH. assumption.
      + match goal with X : occ rr _ _ _ _ _ |- _ => apply occ_range in X as (R2 & L2 & U2) end.
        exfalso. lia.
    - pose proof (occ_range _ _ _ _ _ _ H1) as (R1 & L1 & U1).
      inversion H2; subst.
      + lia.
      + match goal with X : occ l _ _ _ _ _ |- _ => apply occ_range in X as (R2 & L2 & U2) end.
        exfalso. lia.
      + apply IH. assumption.
  Qed.

  (** the occurrence is the whole tree or a child of an inner occurrence *)
  Lemma occ_parent c r o c0 r0 o0 : occ c r o c0 r0 o0 ->
    (c0 = c /\ r0 = r /\ o0 = o) \/
    exists h l rr o1, occ c r o (CNode h l rr) (S r0) o1 /\
                      ((c0 = l /\ o0 = 2 * o1) \/ (c0 = rr /\ o0 = 2 * o1 + 1)).
  Proof.
    induction 1 as [c r o | h l rr r o c0 r0 o0 H1 IH | h l rr r o c0 r0 o0 H1 IH].
    - left. auto.
    - right. destruct IH as [(-> & -> & ->)|(h' & l' & rr' & o1 & Ho & Hc)].
      + exists h, l, rr, o. split; [apply occ_here|left; auto].
      + exists h', l', rr', o1. split; [apply occ_left, Ho|exact Hc].
    - right. destruct IH as [(-> & -> & ->)|(h' & l' & rr' & o1 & Ho & Hc)].
      + exists h, l, rr, o. split; [apply occ_here|right; auto].
      + exists h', l', rr', o1. split; [apply occ_right, Ho|exact Hc].
  Qed.

  (** the coordinates between an occurrence and the top are occurrences *)
  Lemma occ_anc c r o c0 r0 o0 : occ c r o c0 r0 o0 -> forall j, (r0 + j <= r)%nat ->
    exists cj, occ c r o cj (r0 + j)%nat (o0 / p2 j) /\ occ cj (r0 + j)%nat (o0 / p2 j) c0 r0 o0.
  Proof.
    induction 1 as [c r o | h l rr r o c0 r0 o0 H1 IH | h l rr r o c0 r0 o0 H1 IH]; intros j Hj.
    - assert (j = 0%nat) by lia. subst j. rewrite Nat.add_0_r, p2_0, N.div_1_r.
      exists c. split; apply occ_here.
    - pose proof (occ_range _ _ _ _ _ _ H1) as (R1 & L1 & U1).
      destruct (Nat.eq_dec (r0 + j) (S r)) as [E|E].
      + exists (CNode h l rr). rewrite E.
        assert (Eo : o0 / p2 j = o).
        { assert (Ej : j = S (r - r0)) by lia. rewrite Ej, p2_S.
          pose proof (p2_pos (r - r0)) as Hp. symmetry.
          apply (N.div_unique o0 (2 * p2 (r - r0)) o (o0 - o * (2 * p2 (r - r0)))); lia. }
        rewrite Eo. split; [apply occ_here|apply occ_left, H1].
      + destruct (IH j ltac:(lia)) as (cj & A & B). exists cj. split; [apply occ_left, A|exact B].
    - pose proof (occ_range _ _ _ _ _ _ H1) as (R1 & L1 & U1).
      destruct (Nat.eq_dec (r0 + j) (S r)) as [E|E].
      + exists (CNode h l rr). rewrite E.
        assert (Eo : o0 / p2 j = o).
        { assert (Ej : j = S (r - r0)) by lia. rewrite Ej, p2_S.
          pose proof (p2_pos (r - r0)) as Hp. symmetry.
          apply (N.div_unique o0 (2 * p2 (r - r0)) o (o0 - o * (2 * p2 (r - r0)))); lia. }
        rewrite Eo. split; [apply occ_here|apply occ_right, H1].
      + destruct (IH j ltac:(lia)) as (cj & A & B). exists cj. split; [apply occ_right, A|exact B].
  Qed.

  Lemma occ_leaves c r o c0 r0 o0 : occ c r o c0 r0 o0 -> incl (cleaves H c0) (cleaves H c).
  Proof.
    induction 1 as [c r o | h l rr r o c0 r0 o0 _ IH | h l rr r o c0 r0 o0 _ IH].
    - apply incl_refl.
    - intros x Hx. cbn [cleaves]. apply in_or_app. left. apply IH, Hx.
    - intros x Hx. cbn [cleaves]. apply in_or_app. right. apply IH, Hx.
  Qed.

  Lemma occ_height c r o c0 r0 o0 : occ c r o c0 r0 o0 ->
    (cheight H c <= r)%nat -> (cheight H c0 <= r0)%nat.
  Proof.
    induction 1 as [c r o | h l rr r o c0 r0 o0 _ IH | h l rr r o c0 r0 o0 _ IH]; intros Hh.
    - exact Hh.
    - apply IH. cbn [cheight] in Hh. lia.
    - apply IH. cbn [cheight] in Hh. lia.
  Qed.

  Lemma leaf_occ (c : ctree) : forall r o h, In h (cleaves H c) -> (cheight H c <= r)%nat ->
    exists r0 o0, occ c r o (CLeaf h) r0 o0.
  Proof.
    induction c as [h0|h0 l IHl rr IHr]; intros r o h Hin Hh.
    - destruct Hin as [<-|[]]. exists r, o. apply occ_here.
    - cbn [cleaves] in Hin. cbn [cheight] in Hh. destruct r as [|r]; [lia|].
      apply in_app_or in Hin as [Hin|Hin].
      + destruct (IHl r (2 * o) h Hin ltac:(lia)) as (r0 & o0 & Ho).
        exists r0, o0. apply occ_left, Ho.
      + destruct (IHr r (2 * o + 1) h Hin ltac:(lia)) as (r0 & o0 & Ho).
        exists r0, o0. apply occ_right, Ho.
  Qed.

  (** occurrences and placed nodes *)
  Lemma occ_place c r o c0 r0 o0 : occ c r o c0 r0 o0 -> forall b tr,
    exists x, In x (place_tree c r o b tr) /\ nrow x = r0 /\ noff x = o0 /\
              nhash x = chash c0 /\ nleaf x = cleafb H c0 /\ ((r0 < r)%nat -> nroot x = false).
  Proof.
    induction 1 as [c r o | h l rr r o c0 r0 o0 H1 IH | h l rr r o c0 r0 o0 H1 IH]; intros b tr.
    - exists (head_node H c r o b tr). split; [apply place_tree_head_in|].
      cbn [head_node nrow noff nhash nleaf]. repeat split; try reflexivity. lia.
    - destruct (IH false tr) as (x & Hx & A & B & C & D & E). exists x.
      split; [cbn [place_tree]; right; apply in_or_app; left; exact Hx|].
      repeat split; try assumption. intros _.
      destruct (place_tree_tail H _ _ _ _ _ _ Hx) as [->|[_ Hn]]; [reflexivity|exact Hn].
    - destruct (IH false tr) as (x & Hx & A & B & C & D & E). exists x.
      split; [cbn [place_tree]; right; apply in_or_app; right; exact Hx|].
      repeat split; try assumption. intros _.
      destruct (place_tree_tail H _ _ _ _ _ _ Hx) as [->|[_ Hn]]; [reflexivity|exact Hn].
  Qed.

  Lemma place_occ (c : ctree) : forall r o b tr x, In x (place_tree c r o b tr) ->
    exists c0, occ c r o c0 (nrow x) (noff x) /\ nhash x = chash c0 /\ nleaf x = cleafb H c0.
  Proof.
    induction c as [h|h l IHl rr IHr]; intros r o b tr x Hx; cbn [place_tree] in Hx.
    - destruct Hx as [<-|[]]. exists (CLeaf h). split; [apply occ_here|split; reflexivity].
    - destruct Hx as [<-|Hx].
      + exists (CNode h l rr). split; [apply occ_here|split; reflexivity].
      + destruct r as [|r]; [destruct Hx|]. apply in_app_or in Hx as [Hx|Hx].
        * destruct (IHl _ _ _ _ _ Hx) as (c0 & A & B & C). exists c0.
          split; [apply occ_left, A|split; assumption].
        * destruct (IHr _ _ _ _ _ Hx) as (c0 & A & B & C). exists c0.
          split; [apply occ_right, A|split; assumption].
  Qed.
End Occ.

(** * 2. Subtree occurrences in the layout of a state; the known set and the canonical proof
      positions in terms of occurrences *)

Lemma pu_path_up_mem {H} (lay : list (node H)) : forall fuel r o tr j,
  (j <= fuel)%nat -> (r + j <= tr)%nat -> In ((r + j)%nat, o / p2 j) (path_up fuel lay r o tr).
Proof.
  induction fuel as [|f IH]; intros r o tr j Hj Hr.
  - assert (j = 0%nat) by lia. subst j. rewrite Nat.add_0_r, p2_0, N.div_1_r. left. reflexivity.
  - destruct j as [|j].
    + rewrite Nat.add_0_r, p2_0, N.div_1_r. left. reflexivity.
    + cbn [path_up]. right. destruct (Nat.ltb_spec r tr) as [Hlt|Hge]; [|lia].
      replace (r + S j)%nat with (S r + j)%nat by lia.
      replace (o / p2 (S j)) with (o / 2 / p2 j).
      * apply IH; lia.
      * rewrite p2_S, N.div_div; [reflexivity|lia|pose proof (p2_pos j); lia].
Qed.

Section Locc.
  Variable H : Type.
  Variable HO : ops H.
  Hypothesis HOK : ops_ok HO.
  Variable s : slots H.

  Local Notation lay := (layout HO s).
  Local Notation R := (rows_of (num_leaves s)).

  Definition locc (c0 : ctree H) (r0 : nat) (o0 : N) : Prop :=
    exists k lo c, In (k, lo, Some c) (forest HO s) /\ occ H c k (lo / 2 ^ N.of_nat k) c0 r0 o0.

  Lemma locc_node c0 r0 o0 : locc c0 r0 o0 ->
    exists x, In x lay /\ nrow x = r0 /\ noff x = o0 /\ nhash x = chash c0 /\
              nleaf x = cleafb H c0.
  Proof.
    intros (k & lo & c & He & Ho).
    destruct (occ_place H c _ _ _ _ _ Ho true k) as (x & Hx & A & B & C & D & _).
    exists x. split; [|auto]. apply (entry_layout H HO s (k, lo, Some c) x He). exact Hx.
  Qed.

  Lemma locc_entry_node c0 r0 o0 k lo c :
    In (k, lo, Some c) (forest HO s) -> occ H c k (lo / 2 ^ N.of_nat k) c0 r0 o0 ->
    exists x, In x (place_entry HO (k, lo, Some c)) /\ In x lay /\ nrow x = r0 /\ noff x = o0 /\
              nhash x = chash c0 /\ nleaf x = cleafb H c0 /\ ntree x = k /\
              ((r0 < k)%nat -> nroot x = false).
  Proof.
    intros He Ho.
    destruct (occ_place H c _ _ _ _ _ Ho true k) as (x & Hx & A & B & C & D & E).
    exists x. split; [exact Hx|]. split; [apply (entry_layout H HO s (k, lo, Some c) x He); exact Hx|].
    repeat split; try assumption. exact (place_tree_ntree H c _ _ _ _ x Hx).
  Qed.

  Lemma node_locc x : In x lay -> nleaf x = true ->
    exists k lo c, In (k, lo, Some c) (forest HO s) /\
                   occ H c k (lo / 2 ^ N.of_nat k) (CLeaf (nhash x)) (nrow x) (noff x) /\
                   ntree x = k.
  Proof.
    intros Hx Hl. destruct (layout_entry H HO s x Hx) as (k & lo & t & He & Hxe).
    destruct t as [c|].
    - cbn [place_entry] in Hxe. destruct (place_occ H c _ _ _ _ x Hxe) as (c0 & A & B & C).
      exists k, lo, c. split; [exact He|]. split; [|exact (place_tree_ntree H c _ _ _ _ x Hxe)].
      destruct c0 as [h|h l rr]; [|cbn in C; congruence]. cbn [chash] in B. rewrite B. exact A.
    - cbn [place_entry] in Hxe. destruct Hxe as [<-|[]]. discriminate.
  Qed.

  Lemma locc_uniq c1 c2 r0 o0 : locc c1 r0 o0 -> locc c2 r0 o0 -> c1 = c2.
  Proof.
    intros (k1 & lo1 & t1 & He1 & Ho1) (k2 & lo2 & t2 & He2 & Ho2).
    destruct (locc_entry_node _ _ _ _ _ _ He1 Ho1) as (x & Hx & _ & Xr & Xo & _).
    destruct (locc_entry_node _ _ _ _ _ _ He2 Ho2) as (y & Hy & _ & Yr & Yo & _).
    assert (Elo : nlo x = nlo y) by (unfold nlo; rewrite Xr, Xo, Yr, Yo; reflexivity).
    pose proof (nlo_lt_nhi H x) as Hlt.
    destruct (layout_same_entry H HO s _ _ _ _ _ _ x y He1 He2 Hx Hy ltac:(lia) ltac:(lia))
      as (-> & -> & E).
    injection E as ->. exact (occ_uniq H _ _ _ _ _ _ _ Ho1 Ho2).
  Qed.

  Lemma locc_height c0 r0 o0 : locc c0 r0 o0 -> (cheight H c0 <= r0)%nat.
  Proof.
    intros (k & lo & c & He & Ho). apply (occ_height H _ _ _ _ _ _ Ho).
    apply forest_entry in He as (_ & _ & _ & _ & _ & Ht). symmetry in Ht.
    exact (proj2 (compress_wf H HO k _ c Ht)).
  Qed.

  Lemma locc_leaf_live c0 r0 o0 h : locc c0 r0 o0 -> In h (cleaves H c0) -> In (Some h) s.
  Proof.
    intros (k & lo & c & He & Ho) Hh.
    apply (forest_leaves_live H HO s (k, lo, Some c) c h He eq_refl).
    exact (occ_leaves H _ _ _ _ _ _ Ho h Hh).
  Qed.

  Lemma locc_child c0 r0 o0 : locc c0 r0 o0 -> forall h l rr, c0 = CNode h l rr ->
    exists r1, r0 = S r1 /\ locc l r1 (2 * o0) /\ locc rr r1 (2 * o0 + 1).
  Proof.
    intros Hl h l rr ->. pose proof (locc_height _ _ _ Hl) as Hh. cbn [cheight] in Hh.
    destruct r0 as [|r1]; [lia|]. exists r1. split; [reflexivity|].
    destruct Hl as (k & lo & c & He & Ho).
    split; exists k, lo, c; (split; [exact He|]); apply (occ_trans H _ _ _ _ _ _ _ _ _ Ho).
    - apply occ_left, occ_here.
    - apply occ_right, occ_here.
  Qed.

  Hypothesis Hn63 : N.of_nat (length s) <= 2 ^ 63.
  Hypothesis Hlive : NoDup (live s).

  Variable tsn : list (node H).
  Hypothesis Hts_lay : forall x, In x tsn -> In x lay.
  Hypothesis Hts_leaf : forall x, In x tsn -> nleaf x = true.

  (** a subtree holds a target *)
  Definition hit (c : ctree H) : Prop := exists x, In x tsn /\ In (nhash x) (cleaves H c).

  Lemma forest_row_le_63 k lo t : In (k, lo, t) (forest HO s) -> (k <= 63)%nat.
  Proof. intros He. exact (forest_row_63 H HO s (k, lo, t) Hn63 He). Qed.

  (** the known set: the coordinates of the subtrees that hold a target *)
  Theorem known_occ r o :
    In (r, o) (known_set lay tsn) <-> exists c, locc c r o /\ hit c.
  Proof.
    rewrite RefTheory.known_set_In. split.
    - intros (x & Hx & Hd).
      destruct (node_locc x (Hts_lay x Hx) (Hts_leaf x Hx)) as (k & lo & c & He & Ho & Et).
      pose proof (occ_range H _ _ _ _ _ _ Ho) as (Hr & _).
      rewrite Et in Hd. apply RefTheory.path_up_In in Hd as (j & A & B & C); [|exact Hr].
      cbn [fst snd] in A, C. change (RefTheory.P2 j) with (p2 j) in C. subst r o.
      destruct (occ_anc H _ _ _ _ _ _ Ho j B) as (cj & O1 & O2).
      exists cj. split; [exists k, lo, c; auto|]. exists x. split; [exact Hx|].
      apply (occ_leaves H _ _ _ _ _ _ O2). left. reflexivity.
    - intros (c & Hl & x & Hx & Hh).
      pose proof (locc_height _ _ _ Hl) as Hht.
      destruct (leaf_occ H c r o (nhash x) Hh Hht) as (r0 & o0 & Ho0).
      destruct Hl as (k & lo & cT & He & Ho).
      pose proof (occ_trans H _ _ _ _ _ _ _ _ _ Ho Ho0) as HoT.
      destruct (locc_entry_node _ _ _ _ _ _ He HoT) as (y & _ & Hy & Yr & Yo & Yh & Yl & Yt & _).
      cbn [chash cleafb] in Yh, Yl.
      assert (E : y = x).
      { apply (live_leaf_unique H HO s y x Hlive Hy (Hts_lay x Hx) Yl (Hts_leaf x Hx) Yh). }
      subst y. exists x. split; [exact Hx|]. rewrite Yr, Yo, Yt.
      pose proof (occ_range H _ _ _ _ _ _ Ho0) as (Hr0 & Lo & Hi).
      pose proof (occ_range H _ _ _ _ _ _ Ho) as (Hrk & _).
      pose proof (forest_row_le_63 _ _ _ He) as Hk.
      assert (Eo : o = o0 / p2 (r - r0)).
      { pose proof (p2_pos (r - r0)) as Hp.
        apply (N.div_unique o0 (p2 (r - r0)) o (o0 - o * p2 (r - r0))); lia. }
      replace r with (r0 + (r - r0))%nat at 1 by lia. rewrite Eo.
      apply pu_path_up_mem; lia.
  Qed.

  (** the canonical proof positions: the children of inner occurrences of which exactly one
      holds a target - the other one *)
  Theorem canon_pos_occ p :
    In p (canon_proof_pos R lay tsn) <->
    exists h l rr r o, locc (CNode h l rr) (S r) o /\
      ((hit l /\ ~ hit rr /\ p = pos R r (2 * o + 1)) \/
       (hit rr /\ ~ hit l /\ p = pos R r (2 * o))).
  Proof.
    rewrite (po_canon_pos_In H HO s tsn p). split.
    - intros ([r0 o0] & Hd & Hroot & Hsib & ->). unfold sib_coord in *. cbn [fst snd] in *.
      apply known_occ in Hd as (c & Hl & Hh).
      destruct Hl as (k & lo & cT & He & Ho).
      destruct (occ_parent H _ _ _ _ _ _ Ho) as [(-> & -> & ->)|(h & l & rr & o1 & Hop & Hc)].
      + (* the top of a tree is a root *)
        exfalso. destruct (locc_entry_node _ _ _ _ _ _ He Ho) as (x & Hxe & Hx & Xr & Xo & _).
        unfold is_root_coord in Hroot. cbn [fst snd] in Hroot.
        change (find_coord lay k (lo / 2 ^ N.of_nat k)) with (tnode HO s k (lo / 2 ^ N.of_nat k)) in Hroot.
        rewrite (proj2 (tnode_iff H HO s _ _ x) (conj Hx (conj Xr Xo))) in Hroot.
        cbn [place_entry] in Hxe.
        destruct (place_tree_tail H _ _ _ _ _ _ Hxe) as [->|[Hlt _]]; [discriminate|lia].
      + assert (Hlp : locc (CNode h l rr) (S r0) o1) by (exists k, lo, cT; auto).
        destruct (locc_child _ _ _ Hlp h l rr eq_refl) as (r1 & Er & Ll & Lr).
        injection Er as <-.
        exists h, l, rr, r0, o1. split; [exact Hlp|].
        destruct Hc as [[-> ->]|[-> ->]].
        * left. split; [exact Hh|]. split.
          -- intros Hr. apply Hsib. apply known_occ. exists rr. split; [|exact Hr].
             replace (N.lxor (2 * o1) 1) with (2 * o1 + 1); [exact Lr|].
             rewrite lxor_1. rewrite N.even_mul. reflexivity.
          -- f_equal. rewrite lxor_1, N.even_mul. reflexivity.
        * right. split; [exact Hh|]. split.
          -- intros Hr. apply Hsib. apply known_occ. exists l. split; [|exact Hr].
             replace (N.lxor (2 * o1 + 1) 1) with (2 * o1); [exact Ll|].
             rewrite lxor_1. rewrite N.even_add, N.even_mul. cbn. lia.
          -- f_equal. rewrite lxor_1, N.even_add, N.even_mul. cbn. lia.
    - intros (h & l & rr & r & o & Hlp & Hc).
      destruct (locc_child _ _ _ Hlp h l rr eq_refl) as (r1 & Er & Ll & Lr).
      injection Er as <-.
      assert (Hnr : forall c o', (c = l /\ o' = 2 * o) \/ (c = rr /\ o' = 2 * o + 1) ->
                                 is_root_coord lay (r, o') = false).
      { intros c o' Ho'. destruct Hlp as (k & lo & cT & He & Ho).
        assert (Hoc : occ H cT k (lo / 2 ^ N.of_nat k) c r o').
        { apply (occ_trans H _ _ _ _ _ _ _ _ _ Ho).
          destruct Ho' as [[-> ->]|[-> ->]]; [apply occ_left|apply occ_right]; apply occ_here. }
        destruct (locc_entry_node _ _ _ _ _ _ He Hoc) as (x & _ & Hx & Xr & Xo & _ & _ & _ & Hnr).
        pose proof (occ_range H _ _ _ _ _ _ Ho) as (Hrk & _).
        unfold is_root_coord. cbn [fst snd].
        change (find_coord lay r o') with (tnode HO s r o').
        rewrite (proj2 (tnode_iff H HO s _ _ x) (conj Hx (conj Xr Xo))). apply Hnr. lia. }
      destruct Hc as [(Hl & Hnr' & ->)|(Hr & Hnl & ->)].
      + exists (r, 2 * o). split; [apply known_occ; exists l; auto|].
        split; [apply (Hnr l); left; auto|]. unfold sib_coord. cbn [fst snd].
        rewrite lxor_1, N.even_mul. cbn [orb]. split; [|reflexivity].
        intros Hin. apply known_occ in Hin as (c & Hlc & Hhc).
        rewrite (locc_uniq _ _ _ _ Hlc Lr) in Hhc. exact (Hnr' Hhc).
      + exists (r, 2 * o + 1). split; [apply known_occ; exists rr; auto|].
        split; [apply (Hnr rr); right; auto|]. unfold sib_coord. cbn [fst snd].
        assert (E : N.lxor (2 * o + 1) 1 = 2 * o).
        { rewrite lxor_1, N.even_add, N.even_mul. cbn. lia. }
        rewrite E. split; [|reflexivity].
        intros Hin. apply known_occ in Hin as (c & Hlc & Hhc).
        rewrite (locc_uniq _ _ _ _ Hlc Ll) in Hhc. exact (Hnl Hhc).
  Qed.
End Locc.

(** * 4. The update data of the additions in terms of occurrences *)

Section AddData.
  Variable H : Type.
  Variable HO : ops H.
  Hypothesis HOK : ops_ok HO.
  Variable A : list H.

  Lemma has_leaf_in_iff (c : ctree H) :
    has_leaf_in HO A c = true <-> exists a, In a (cleaves H c) /\ In a A.
  Proof.
    induction c as [h|h l IHl rr IHr]; cbn [has_leaf_in cleaves].
    - rewrite (memH_In H HO HOK). split.
      + intros Hh. exists h. split; [left; reflexivity|exact Hh].
      + intros (a & [<-|[]] & Ha). exact Ha.
    - rewrite orb_true_iff, IHl, IHr. split.
      + intros [(a & H1 & H2)|(a & H1 & H2)]; exists a; (split; [apply in_or_app; auto|exact H2]).
      + intros (a & H1 & H2). apply in_app_or in H1 as [H1|H1]; [left|right]; exists a; auto.
  Qed.

  Lemma has_leaf_in_occ c r o c0 r0 o0 : occ H c r o c0 r0 o0 ->
    has_leaf_in HO A c0 = true -> has_leaf_in HO A c = true.
  Proof.
    intros Ho. rewrite !has_leaf_in_iff. intros (a & H1 & H2). exists a.
    split; [exact (occ_leaves H _ _ _ _ _ _ Ho a H1)|exact H2].
  Qed.

  Lemma add_nodes_occ_inner c k o c0 r0 o0 : occ H c k o c0 r0 o0 ->
    forall hh l rr r, c0 = CNode hh l rr -> r0 = S r -> has_leaf_in HO A c0 = true ->
    forall b, In (r, 2 * o0, chash l) (add_nodes HO A c k o b) /\
              In (r, 2 * o0 + 1, chash rr) (add_nodes HO A c k o b).
  Proof.
    induction 1 as [c k o | h l' rr' k o c0 r0 o0 Ho IH | h l' rr' k o c0 r0 o0 Ho IH];
      intros hh l rr r Ec Er Hh b.
    - subst c k. cbn [add_nodes]. cbn [add_nodes] in Hh. rewrite Hh.
      split; [left; reflexivity|right; left; reflexivity].
    - pose proof (has_leaf_in_occ _ _ _ _ _ _ (occ_left H h l' rr' k o c0 r0 o0 Ho) Hh) as Hc.
      cbn [add_nodes]. rewrite Hc.
      destruct (IH hh l rr r Ec Er Hh false) as [I1 I2].
      split; right; right; apply in_or_app; left; assumption.
    - pose proof (has_leaf_in_occ _ _ _ _ _ _ (occ_right H h l' rr' k o c0 r0 o0 Ho) Hh) as Hc.
      cbn [add_nodes]. rewrite Hc.
      destruct (IH hh l rr r Ec Er Hh false) as [I1 I2].
      split; right; right; apply in_or_app; right; assumption.
  Qed.

  Lemma add_nodes_occ_leaf c k o c0 r0 o0 : occ H c k o c0 r0 o0 ->
    forall a, c0 = CLeaf a -> In a A ->
    forall b, (c = CLeaf a /\ r0 = k /\ o0 = o) \/ In (r0, o0, a) (add_nodes HO A c k o b).
  Proof.
    induction 1 as [c k o | h l' rr' k o c0 r0 o0 Ho IH | h l' rr' k o c0 r0 o0 Ho IH];
      intros a Ec Ha b.
    - left. auto.
    - right. subst c0.
      assert (Hc : has_leaf_in HO A (CNode h l' rr') = true).
      { apply has_leaf_in_iff. exists a. split; [|exact Ha].
        apply (occ_leaves H _ _ _ _ _ _ (occ_left H h l' rr' k o _ r0 o0 Ho)). left. reflexivity. }
      cbn [add_nodes]. rewrite Hc.
      destruct (IH a eq_refl Ha false) as [(-> & -> & ->)|Hin].
      + left. reflexivity.
      + right. right. apply in_or_app. left. exact Hin.
    - right. subst c0.
      assert (Hc : has_leaf_in HO A (CNode h l' rr') = true).
      { apply has_leaf_in_iff. exists a. split; [|exact Ha].
        apply (occ_leaves H _ _ _ _ _ _ (occ_right H h l' rr' k o _ r0 o0 Ho)). left. reflexivity. }
      cbn [add_nodes]. rewrite Hc.
      destruct (IH a eq_refl Ha false) as [(-> & -> & ->)|Hin].
      + right. left. reflexivity.
      + right. right. apply in_or_app. right. exact Hin.
  Qed.

  Variable s : slots H.
  Local Notation R := (rows_of (num_leaves s)).

  Lemma new_add_intro k lo c r o h :
    In (k, lo, Some c) (forest HO s) ->
    In (r, o, h) (add_nodes HO A c k (lo / 2 ^ N.of_nat k) true) ->
    In (pos R r o, h) (new_add HO s A).
  Proof.
    intros He Hin. unfold new_add. apply RefTheory.sortK_In. apply in_flat_map.
    exists (k, lo, Some c). split; [exact He|]. cbv beta iota.
    apply in_map_iff. exists (r, o, h). split; [reflexivity|exact Hin].
  Qed.

  Lemma new_add_child hh l rr r o :
    locc H HO s (CNode hh l rr) (S r) o -> has_leaf_in HO A (CNode hh l rr) = true ->
    In (pos R r (2 * o), chash l) (new_add HO s A) /\
    In (pos R r (2 * o + 1), chash rr) (new_add HO s A).
  Proof.
    intros (k & lo & c & He & Ho) Hh.
    destruct (add_nodes_occ_inner _ _ _ _ _ _ Ho hh l rr r eq_refl eq_refl Hh true) as [I1 I2].
    split; eapply new_add_intro; eassumption.
  Qed.

  Lemma new_add_leaf a r o : locc H HO s (CLeaf a) r o -> In a A ->
    In (pos R r o, a) (new_add HO s A).
  Proof.
    intros (k & lo & c & He & Ho) Ha.
    destruct (add_nodes_occ_leaf _ _ _ _ _ _ Ho a eq_refl Ha true) as [(-> & -> & ->)|Hin].
    - apply (new_add_intro k lo (CLeaf a)); [exact He|]. cbn [add_nodes andb].
      rewrite (proj2 (memH_In H HO HOK a A) Ha). left. reflexivity.
    - eapply new_add_intro; eassumption.
  Qed.

  Lemma new_add_node e : In e (new_add HO s A) ->
    exists z, In z (layout HO s) /\ e = (npos R z, nhash z).
  Proof.
    intros He. unfold new_add in He. apply (proj1 (RefTheory.sortK_In _ _)) in He.
    apply in_flat_map in He as ([[k lo] t] & Hf & He). destruct t as [c|]; [|destruct He].
    apply in_map_iff in He as ([[r o] h] & <- & Hx).
    destruct (add_nodes_placed H HO A c k _ true true k _ Hx) as (z & Hz & Ez).
    exists z. split; [apply (entry_layout H HO s (k, lo, Some c) z Hf); exact Hz|].
    injection Ez as <- <- <-. reflexivity.
  Qed.

  Lemma new_add_SSlt : SSlt (map fst (new_add HO s A)).
  Proof.
    unfold new_add. apply cc_sortK_SSlt.
    eapply Permutation_NoDup; [|apply (new_add_pos_nodup H HO s A)].
    unfold new_add. apply Permutation_map, RefTheory.sortK_perm.
  Qed.
End AddData.

(** * 5. The helpers of [Proof.Update] on well-formed inputs *)

Lemma pu_sortK_sorted_id {A} (l : list (N * A)) : SSlt (map fst l) -> sortK l = l.
Proof.
  induction l as [|x l IH]; intros Hs; [reflexivity|]. cbn [map] in Hs.
  destruct (po_SS_inv _ _ _ Hs) as [Hl Hx]. unfold sortK in *. cbn [fold_right]. rewrite (IH Hl).
  destruct l as [|y l]; [reflexivity|]. cbn [insertK].
  specialize (Hx (fst y) (or_introl eq_refl)).
  destruct (N.leb_spec (fst x) (fst y)); [reflexivity|lia].
Qed.

Lemma pu_zip_fst {H} : forall (ts : list N) (hs : list H), length ts = length hs ->
  map fst (zip_hp ts hs) = ts.
Proof. intros ts hs E. apply cc_zip_hp_fst. symmetry. exact E. Qed.

Lemma pu_zip_snd {H} : forall (ts : list N) (hs : list H), length ts = length hs ->
  map snd (zip_hp ts hs) = hs.
Proof.
  induction ts as [|t ts IH]; intros [|h hs] E; try discriminate; [reflexivity|].
  cbn [zip_hp map snd]. f_equal. apply IH. cbn [length] in E. lia.
Qed.

Lemma pu_subSlice_self a : SSlt a -> subtractSortedSlice a a = [].
Proof.
  intros Ha. rewrite (subtractSortedSlice_spec a a Ha (po_SSlt_SSle a Ha)).
  induction a as [|x a IH]; [reflexivity|]. apply RefTheory.filter_none.
  intros y Hy. apply Bool.negb_false_iff, RefTheory.memN_In, Hy.
Qed.

Section UpdHelpers.
  Variable H : Type.
  Variable HO : ops H.
  Local Notation hp := (hp H).
  Local Notation Heqb := (op_eqb HO).
  Local Notation empty := (op_empty HO).

  Lemma pu_toHP (ts : list N) (hs : list H) : length ts = length hs -> SSlt ts ->
    toHashAndPos ts hs = Some (zip_hp ts hs).
  Proof.
    intros E Hs. unfold toHashAndPos. rewrite E, Nat.eqb_refl. f_equal.
    apply pu_sortK_sorted_id. rewrite (pu_zip_fst ts hs E). exact Hs.
  Qed.

  Lemma pu_subHP_nil (a : list hp) : subtractSortedHashAndPos a [] = a.
  Proof. unfold subtractSortedHashAndPos. cbn [subHP]. destruct a; reflexivity. Qed.

  Lemma pu_upr_keep_nil (old : list hp) : upr_keep HO old [] [] = old.
  Proof. induction old as [|e old IH]; [reflexivity|]. cbn. rewrite IH. reflexivity. Qed.

  (** ** [getNewPositions] without block targets *)
  Section GNP.
    Variable n : N.
    Hypothesis Hn63 : n <= 2 ^ 63.
    Local Notation total := (TreeRows n).
    Local Notation g := (g total).

    Lemma pu_t63 : total <= 63. Proof. apply TreeRows_le_63, Hn63. Qed.
    Lemma pu_nle : n <= 2 ^ total. Proof. apply TreeRows_upper. Qed.

    Lemma pu_gnp_row c : vld total c -> forall fuel row, row <= fst c ->
      (N.to_nat (fst c - row) < fuel)%nat -> gnp_row fuel (g c) row total = fst c.
    Proof.
      intros [Hr Ho]. pose proof pu_t63 as Ht.
      induction fuel as [|f IH]; intros row Hrow Hf; [lia|]. cbn [gnp_row].
      rewrite (pps_maxPossible n total Ht pu_nle row) by lia.
      pose proof (gpos_lt total (fst c) (snd c) Hr Ho) as Hlt.
      assert (Hge : 2 ^ (total + 1) - 2 ^ (total + 1 - fst c) <= g c)
        by (unfold ProofPosSpec.g, gpos, gstart; lia).
      destruct (N.eq_dec row (fst c)) as [->|Hne].
      - destruct (N.ltb_spec (2 ^ (total + 1) - 2 ^ (total - fst c) - 1) (g c)) as [Hc|_];
          [unfold ProofPosSpec.g in Hc; lia|reflexivity].
      - assert (Hp : 2 ^ (total + 1 - fst c) <= 2 ^ (total - row)) by (apply pow2_le; lia).
        pose proof (UtilsGeom.pow2_pos (total - row)) as Hp2.
        assert (Hp3 : 2 ^ (total - row) < 2 ^ (total + 1)) by (apply pow2_lt; lia).
        destruct (N.ltb_spec (2 ^ (total + 1) - 2 ^ (total - row) - 1) (g c)) as [_|Hc]; [|lia].
        destruct (N.leb_spec row total) as [_|Hc]; [|lia]. cbn [andb].
        rewrite ct_add8_small by lia. apply IH; lia.
    Qed.

    Definition okpos (b : bool) (e : hp) : Prop :=
      exists c, inf n c /\ fst e = g c /\ (b = true \/ is_root_c n c = false) /\
                Heqb (snd e) empty = false.

    Lemma pu_gnp_loop_nil b : forall (sl : list hp) row,
      (forall e, In e sl -> okpos b e) -> SSlt (map fst sl) ->
      (forall e c, In e sl -> vld total c -> fst e = g c -> row <= fst c) ->
      gnp_loop HO [] sl n total row b = sl.
    Proof.
      pose proof pu_t63 as Ht. pose proof pu_nle as Hnle.
      induction sl as [|e sl IH]; intros row Hok Hs Hrow; [reflexivity|].
      destruct (Hok e (or_introl eq_refl)) as (c & Hc & Ec & Hb & Hnz).
      pose proof (pps_inf_vld n total Hnle c Hc) as Hv.
      cbn [gnp_loop]. rewrite Hnz, Ec.
      rewrite (pu_gnp_row c Hv 300 row (Hrow e c (or_introl eq_refl) Hv Ec))
        by (destruct Hv; lia).
      destruct (N.ltb_spec total (fst c)) as [Hc'|_]; [destruct Hv; lia|].
      cbn [gnp_targets].
      rewrite (cc_isRoot n total Ht Hnle eq_refl c Hc).
      assert (Hkeep : b || negb (is_root_c n c) = true)
        by (destruct Hb as [->| ->]; [reflexivity|apply Bool.orb_true_r]).
      rewrite Hkeep. rewrite <- Ec. destruct e as [p h]. cbn [fst snd]. f_equal.
      cbn [map] in Hs. destruct (po_SS_inv _ _ _ Hs) as [Hs' Hlt].
      apply IH; [intros e' He'; apply Hok; right; exact He'|exact Hs'|].
      intros e' c' He' Hv' Ec'. cbn [fst] in Ec.
      apply (pps_g_lt_row n total Ht Hnle c c' Hv Hv'). rewrite <- Ec, <- Ec'. apply Hlt, in_map, He'.
    Qed.

    Lemma pu_getNewPositions_nil b (sl : list hp) :
      (forall e, In e sl -> okpos b e) -> SSlt (map fst sl) ->
      getNewPositions HO [] sl n b = sl.
    Proof.
      intros Hok Hs. unfold getNewPositions. rewrite (pu_gnp_loop_nil b sl 0 Hok Hs).
      - apply pu_sortK_sorted_id, Hs.
      - intros. lia.
    Qed.
  End GNP.

  (** ** [updateProofRemove] without deletions is the identity *)
  Lemma pu_updateProofRemove_nodel (targets : list N) (proof hashes : list H) (n : N)
        (pp comp : list N) :
    n <= 2 ^ 63 ->
    length targets = length hashes -> SSlt targets ->
    ProofPositions_fast targets n (TreeRows n) = (pp, comp) ->
    length pp = length proof -> SSlt pp ->
    (forall e, In e (zip_hp targets hashes) -> okpos n true e) ->
    (forall e, In e (zip_hp pp proof) -> okpos n false e) ->
    updateProofRemove HO targets proof [] hashes [] n = Some (hashes, targets, proof).
  Proof.
    intros Hn63 El Hst Epp Elp Hsp Hok1 Hok2. unfold updateProofRemove. cbv zeta.
    change (sortN []) with (@nil N).
    rewrite (pu_toHP targets hashes El Hst), pu_subHP_nil.
    rewrite (po_sortN_sorted_id targets Hst), Epp.
    rewrite (pu_toHP pp proof Elp Hsp).
    unfold positions. rewrite (pu_zip_fst targets hashes El), Epp, (pu_zip_fst pp proof Elp).
    rewrite (po_sortN_sorted_id pp Hsp), (pu_subSlice_self pp Hsp), pu_upr_keep_nil.
    change (subtractSortedSlice [] []) with (@nil N). cbn [upr_missing]. rewrite app_nil_r.
    change (deTwin [] (TreeRows n)) with (@nil N).
    rewrite (pu_getNewPositions_nil n Hn63 true _ Hok1) by (rewrite (pu_zip_fst targets hashes El); exact Hst).
    rewrite (pu_getNewPositions_nil n Hn63 false _ Hok2) by (rewrite (pu_zip_fst pp proof Elp); exact Hsp).
    unfold ProofUpdate.hashes.
    rewrite (pu_zip_snd targets hashes El), (pu_zip_fst targets hashes El), (pu_zip_snd pp proof Elp).
    reflexivity.
  Qed.
End UpdHelpers.

(** ** The remembered additions *)

(** the members of [adds] whose index is listed in [rem] *)
Fixpoint pick_from {A} (i : N) (adds : list A) (rem : list N) : list A :=
  match adds with
  | [] => []
  | a :: t => (if memN i rem then [a] else []) ++ pick_from (i + 1) t rem
  end.
Definition pick {A} (adds : list A) (rem : list N) : list A := pick_from 0 adds rem.

Lemma pick_from_nil {A} (adds : list A) : forall i, pick_from i adds [] = [].
Proof. induction adds as [|a adds IH]; intros i; [reflexivity|]. cbn [pick_from memN app]. apply IH. Qed.

Lemma pick_from_drop {A} (adds : list A) : forall i r rem, r < i ->
  pick_from i adds (r :: rem) = pick_from i adds rem.
Proof.
  induction adds as [|a adds IH]; intros i r rem Hr; [reflexivity|]. cbn [pick_from memN].
  destruct (N.eqb_spec i r); [lia|]. cbn [orb]. rewrite IH by lia. reflexivity.
Qed.

Lemma pick_from_In {A} (adds : list A) : forall i rem x, In x (pick_from i adds rem) -> In x adds.
Proof.
  induction adds as [|a adds IH]; intros i rem x Hx; [destruct Hx|]. cbn [pick_from] in Hx.
  apply in_app_or in Hx as [Hx|Hx].
  - destruct (memN i rem); [destruct Hx as [<-|[]]; left; reflexivity|destruct Hx].
  - right. exact (IH _ _ _ Hx).
Qed.

Lemma pick_In {A} (adds : list A) rem x : In x (pick adds rem) -> In x adds.
Proof. apply pick_from_In. Qed.

Lemma remembered_pick {H} : forall fuel i (adds : list H) rem, SSlt rem ->
  (length adds + length rem < fuel)%nat -> remembered fuel i adds rem = pick_from i adds rem.
Proof.
  induction fuel as [|f IH]; intros i adds rem Hs Hf; [lia|]. cbn [remembered].
  destruct adds as [|a adds]; [reflexivity|].
  destruct rem as [|r rem]; [symmetry; apply pick_from_nil|].
  destruct (po_SS_inv _ _ _ Hs) as [Hs' Hr]. cbn [length] in Hf. cbn [pick_from memN].
  destruct (N.eqb_spec i r) as [->|Hne].
  - cbn [orb app]. f_equal. rewrite IH by (try assumption; lia).
    symmetry. apply pick_from_drop. lia.
  - destruct (N.ltb_spec r i) as [Hlt|Hge].
    + rewrite IH by (try assumption; cbn [length]; lia).
      assert (Em : memN i rem = false \/ memN i rem = true) by (destruct (memN i rem); auto).
      cbn [orb]. rewrite (pick_from_drop adds (i + 1) r rem) by lia. reflexivity.
    + cbn [orb]. assert (Em : memN i rem = false).
      { apply po_memN_false. intros Hin. specialize (Hr i Hin). lia. }
      rewrite Em. cbn [app]. apply IH; [exact Hs|cbn [length]; lia].
Qed.

(** ** [maybeRemap] *)

Definition remap1 (n k p : N) : N :=
  if TreeRows n <? TreeRows (add64 n k) then
    let row := DetectRow p (TreeRows n) in
    add64 (sub64 p (startPositionAtRow row (TreeRows n)))
          (startPositionAtRow row (TreeRows (add64 n k)))
  else p.

Lemma pu_maybeRemap_map {H} n k (l : list (hp H)) :
  maybeRemap n k l = map (fun e => (remap1 n k (fst e), snd e)) l.
Proof.
  unfold maybeRemap, remap1. cbv zeta. destruct (TreeRows n <? TreeRows (add64 n k)); [reflexivity|].
  symmetry. rewrite <- (map_id l) at 2. apply map_ext. intros [p h]. reflexivity.
Qed.

Lemma pu_vld_mono h h' c : h <= h' -> vld h c -> vld h' c.
Proof.
  intros Hh [Hr Ho]. split; [lia|].
  assert (2 ^ (h - fst c) <= 2 ^ (h' - fst c)) by (apply pow2_le; lia). lia.
Qed.

Lemma pu_TreeRows_mono n m : n <= m -> TreeRows n <= TreeRows m.
Proof. intros Hnm. apply TreeRows_le_iff. pose proof (TreeRows_upper m). lia. Qed.

Lemma pu_add64_small n k : n + k <= 2 ^ 63 -> add64 n k = n + k.
Proof.
  intros Hb. unfold add64. apply wrap_small. rewrite W_eq.
  assert (2 ^ 63 < 2 ^ 64) by (apply pow2_lt; lia). lia.
Qed.

Lemma pu_remap1_g n k c : n + k <= 2 ^ 63 -> vld (TreeRows n) c ->
  remap1 n k (g (TreeRows n) c) = g (TreeRows (n + k)) c.
Proof.
  intros Hb Hv. unfold remap1. rewrite (pu_add64_small n k Hb).
  pose proof (pu_TreeRows_mono n (n + k) ltac:(lia)) as Hmono.
  pose proof (TreeRows_le_63 (n + k) Hb) as H63.
  set (t := TreeRows n) in *. set (t' := TreeRows (n + k)) in *.
  destruct Hv as [Hr Ho].
  destruct (N.ltb_spec t t') as [Hlt|Hge].
  - cbv zeta. unfold ProofPosSpec.g. rewrite (DetectRow_gpos t (fst c) (snd c)) by (try assumption; lia).
    rewrite (startPositionAtRow_gstart (fst c) t) by lia.
    rewrite (startPositionAtRow_gstart (fst c) t') by lia.
    pose proof (gpos_lt_W t (fst c) (snd c) ltac:(lia) Hr Ho) as HW.
    assert (Ho' : snd c < 2 ^ (t' - fst c)).
    { assert (2 ^ (t - fst c) <= 2 ^ (t' - fst c)) by (apply pow2_le; lia). lia. }
    pose proof (gpos_lt_W t' (fst c) (snd c) H63 ltac:(lia) Ho') as HW'.
    unfold gpos in *. rewrite sub64_small by lia.
    replace (gstart t (fst c) + snd c - gstart t (fst c)) with (snd c) by lia.
    unfold add64. rewrite wrap_small by lia. lia.
  - replace t' with t by lia. reflexivity.
Qed.

Lemma pu_zip_map_fst {H} (f : N -> N) : forall (ts : list N) (hs : list H),
  map (fun e : hp H => (f (fst e), snd e)) (zip_hp ts hs) = zip_hp (map f ts) hs.
Proof.
  induction ts as [|t ts IH]; intros [|h hs]; try reflexivity.
  cbn [zip_hp map fst snd]. f_equal. apply IH.
Qed.

Lemma pu_maybeRemap_zip {H} n k (cs : list crd) (hs : list H) : n + k <= 2 ^ 63 ->
  (forall c, In c cs -> vld (TreeRows n) c) ->
  maybeRemap n k (zip_hp (map (g (TreeRows n)) cs) hs) = zip_hp (map (g (TreeRows (n + k))) cs) hs.
Proof.
  intros Hb Hv. rewrite pu_maybeRemap_map, pu_zip_map_fst, map_map. f_equal.
  apply map_ext_in. intros c Hc. apply pu_remap1_g; [exact Hb|apply Hv, Hc].
Qed.

(** row-major order of positions does not depend on the height of the geometry *)
Lemma pu_g_lex h c c' : h <= 63 -> vld h c -> vld h c' ->
  (g h c < g h c' <-> fst c < fst c' \/ (fst c = fst c' /\ snd c < snd c')).
Proof.
  intros Hh Hv Hv'. assert (H0 : 0 <= 2 ^ h) by lia. split.
  - intros Hlt. destruct (N.lt_trichotomy (fst c) (fst c')) as [Hr|[Hr|Hr]]; [left; exact Hr| |].
    + right. split; [exact Hr|]. apply (pps_g_same_row 0 h Hh H0 c c' Hr). exact Hlt.
    + pose proof (pps_g_row_lt h c' c Hv' Hv Hr). lia.
  - intros [Hr|[Hr Ho]]; [exact (pps_g_row_lt h c c' Hv Hv' Hr)|].
    apply (pps_g_same_row 0 h Hh H0 c c' Hr). exact Ho.
Qed.

Lemma pu_SSlt_transfer h h' (cs : list crd) : h <= h' -> h' <= 63 ->
  (forall c, In c cs -> vld h c) -> SSlt (map (g h) cs) -> SSlt (map (g h') cs).
Proof.
  intros Hh Hh' Hv. induction cs as [|c cs IH]; intros Hs; [constructor|]. cbn [map] in *.
  destruct (po_SS_inv _ _ _ Hs) as [Hs' Hc]. constructor.
  - apply IH; [intros c' Hc'; apply Hv; right; exact Hc'|exact Hs'].
  - apply Forall_forall. intros x Hx. apply in_map_iff in Hx as (c' & <- & Hc').
    pose proof (Hv c (or_introl eq_refl)) as V1. pose proof (Hv c' (or_intror Hc')) as V2.
    apply (pu_g_lex h' c c' Hh' (pu_vld_mono h h' c Hh V1) (pu_vld_mono h h' c' Hh V2)).
    apply (pu_g_lex h c c' ltac:(lia) V1 V2). apply Hc, in_map, Hc'.
Qed.

(** ** [updateProofAdd] when no empty root is overwritten, on graphs of a valuation *)

Section UpaGraph.
  Variable H : Type.
  Variable HO : ops H.
  Variable F : N -> H.
  Local Notation gr := (gr H F).

  Lemma pu_dropN_lt_spec pos : forall l, SSlt l ->
    SSlt (dropN_lt l pos) /\ (forall x, In x (dropN_lt l pos) <-> In x l /\ pos <= x).
  Proof.
    induction l as [|y l IH]; intros Hs; [split; [constructor|intros x; cbn; tauto]|].
    destruct (po_SS_inv _ _ _ Hs) as [Hs' Hy]. cbn [dropN_lt].
    destruct (N.ltb_spec y pos) as [Hlt|Hge].
    - destruct (IH Hs') as [I1 I2]. split; [exact I1|]. intros x. rewrite I2. cbn [In].
      split; [tauto|]. intros [[<-|Hx] Hp]; [lia|tauto].
    - split; [exact Hs|]. intros x. cbn [In]. split; [|tauto].
      intros [<-|Hx]; [split; [left; reflexivity|lia]|]. specialize (Hy x Hx). split; [tauto|lia].
  Qed.

  Lemma pu_dropHP_gr pos : forall l, dropHP_lt (gr l) pos = gr (dropN_lt l pos).
  Proof.
    induction l as [|y l IH]; [reflexivity|]. cbn [ProofOpsSpec.gr map dropHP_lt dropN_lt fst].
    destruct (y <? pos); [exact IH|reflexivity].
  Qed.

  Lemma pu_headHP_gr pos l : headHP (gr l) pos = if headN_is l pos then Some (F pos) else None.
  Proof.
    destruct l as [|y l]; [reflexivity|]. cbn [ProofOpsSpec.gr map headHP headN_is fst snd].
    destruct (N.eqb_spec y pos) as [->|_]; reflexivity.
  Qed.

  Lemma pu_head_mem pos l : SSlt l -> headN_is (dropN_lt l pos) pos = memN pos l.
  Proof.
    intros Hs. destruct (pu_dropN_lt_spec pos l Hs) as [D1 D2].
    destruct (dropN_lt l pos) as [|y t] eqn:E; cbn [headN_is].
    - symmetry. apply po_memN_false. intros Hin.
      assert (Hp : In pos []) by (apply D2; split; [exact Hin|lia]). destruct Hp.
    - destruct (po_SS_inv _ _ _ D1) as [_ Hy].
      destruct (N.eqb_spec y pos) as [->|Hne].
      + symmetry. apply RefTheory.memN_In. apply (D2 pos). left. reflexivity.
      + symmetry. apply po_memN_false. intros Hin.
        assert (Hp : In pos (y :: t)) by (apply D2; split; [exact Hin|lia]).
        assert (Hyy : pos <= y) by (pose proof (proj1 (D2 y) (or_introl eq_refl)); lia).
        destruct Hp as [Hp|Hp]; [congruence|]. specialize (Hy pos Hp). lia.
  Qed.

  Lemma pu_upa_needed_gr : forall needed NM, SSlt needed -> SSlt NM ->
    upa_needed needed (gr NM) = gr (filter (fun p => memN p NM) needed).
  Proof.
    induction needed as [|pos rest IH]; intros NM Hn Hm; [reflexivity|].
    destruct (po_SS_inv _ _ _ Hn) as [Hn' Hpos].
    destruct (pu_dropN_lt_spec pos NM Hm) as [D1 D2].
    cbn [upa_needed filter]. rewrite pu_dropHP_gr, pu_headHP_gr, (pu_head_mem pos NM Hm).
    assert (Erest : filter (fun p => memN p (dropN_lt NM pos)) rest
                    = filter (fun p => memN p NM) rest).
    { apply filter_ext_in. intros p Hp. specialize (Hpos p Hp).
      destruct (memN p NM) eqn:A.
      - apply RefTheory.memN_In. apply D2. split; [apply RefTheory.memN_In, A|lia].
      - apply po_memN_false. intros Hin. apply D2 in Hin as [Hin _].
        apply RefTheory.memN_In in Hin. congruence. }
    rewrite !(IH _ Hn' D1), Erest.
    destruct (memN pos NM); reflexivity.
  Qed.

  Lemma pu_hash_subset_gr (AH : list H) NM :
    getHashAndPosHashSubset HO (gr NM) AH = gr (filter (fun p => mem_hash HO (F p) AH) NM).
  Proof.
    unfold getHashAndPosHashSubset. rewrite <- (po_filter_gr H F (fun p => mem_hash HO (F p) AH) NM).
    apply filter_ext_in. intros e He. apply in_map_iff in He as (p & <- & _). reflexivity.
  Qed.

  (** [TC], [PC]: the coordinates of the cached targets and of their proof positions before the
      additions; [NN]: the positions of the new nodes of the update data *)
  Theorem pu_updateProofAdd_graph (n : N) (adds : list H) (rem : list N) (TC PC : list crd)
          (NN comp needed comp' : list N) :
    let k := N.of_nat (length adds) in
    let total := TreeRows n in
    let total' := TreeRows (n + k) in
    let T1 := map (g total') TC in
    let P1 := map (g total') PC in
    let NM := mergeSortedSlices NN P1 in
    let RP := filter (fun p => mem_hash HO (F p) (pick adds rem)) NM in
    let T3 := mergeSortedSlices RP T1 in
    n + k <= 2 ^ 63 ->
    (forall c, In c TC -> vld total c) -> (forall c, In c PC -> vld total c) ->
    SSlt (map (g total) TC) -> SSlt (map (g total) PC) ->
    ProofPositions_fast (map (g total) TC) n total = (map (g total) PC, comp) ->
    SSlt NN -> SSlt rem ->
    ProofPositions_fast T3 (n + k) total' = (needed, comp') -> SSlt needed ->
    (forall p, In p needed -> In p NM) ->
    updateProofAdd HO (map (g total) TC) (map F P1) adds (map F T1) rem (gr NN) n []
    = Some (map F T3, T3, map F needed).
  Proof.
    intros k total total' T1 P1 NM RP T3 Hb HvT HvP HsT HsP Epp HsN Hsr Epp' Hsn Hsub.
    pose proof (pu_TreeRows_mono n (n + k) ltac:(lia)) as Hmono. fold total total' in Hmono.
    pose proof (TreeRows_le_63 (n + k) Hb) as H63. fold total' in H63.
    assert (HsT1 : SSlt T1) by (apply (pu_SSlt_transfer total total' TC Hmono H63 HvT HsT)).
    assert (HsP1 : SSlt P1) by (apply (pu_SSlt_transfer total total' PC Hmono H63 HvP HsP)).
    destruct (mergeSortedSlices_spec NN P1 HsN HsP1) as [HsNM _]. fold NM in HsNM.
    assert (HsRP : SSlt RP) by (apply po_filter_SS, HsNM).
    unfold updateProofAdd.
    rewrite (pu_toHP H (map (g total) TC) (map F T1)) by (try assumption; unfold T1; rewrite !map_length; reflexivity).
    unfold positions at 1.
    rewrite (pu_zip_fst (map (g total) TC) (map F T1)) by (unfold T1; rewrite !map_length; reflexivity).
    fold total. rewrite Epp.
    rewrite (pu_toHP H (map (g total) PC) (map F P1)) by (try assumption; unfold P1; rewrite !map_length; reflexivity).
    cbv zeta. fold k. rewrite (pu_add64_small n k Hb).
    unfold total. rewrite !pu_maybeRemap_zip by assumption. fold total total' T1 P1.
    cbn [fold_left fst snd]. rewrite !po_zip_gr.
    rewrite (po_merge_gr H F NN P1 HsN HsP1). fold NM.
    rewrite (remembered_pick _ 0 adds rem Hsr) by lia. fold (pick adds rem).
    rewrite pu_hash_subset_gr. fold RP.
    rewrite (po_merge_gr H F RP T1 HsRP HsT1). fold T3.
    unfold positions. rewrite po_gr_fst. fold total'. rewrite Epp'.
    rewrite (pu_upa_needed_gr needed NM Hsn HsNM).
    rewrite (po_filter_all (fun p => memN p NM) needed)
      by (intros p Hp; apply RefTheory.memN_In, Hsub, Hp).
    rewrite pu_sortK_sorted_id by (rewrite po_gr_fst; exact Hsn).
    unfold hashes. rewrite !po_gr_snd. reflexivity.
  Qed.
End UpaGraph.

(** * 6. Auxiliary facts *)

Lemma pu_zip_map {X H} (f : X -> N) (h : X -> H) (l : list X) :
  zip_hp (map f l) (map h l) = map (fun x => (f x, h x)) l.
Proof. induction l as [|x l IH]; [reflexivity|]. cbn [map zip_hp]. f_equal. exact IH. Qed.

Lemma pick_from_NoDup {A} (adds : list A) : forall i rem, NoDup adds -> NoDup (pick_from i adds rem).
Proof.
  induction adds as [|a adds IH]; intros i rem Hnd; [constructor|]. cbn [pick_from].
  inversion Hnd as [|x l Ha Hl]; subst. specialize (IH (i + 1) rem Hl).
  destruct (memN i rem); [|exact IH]. cbn [app]. constructor; [|exact IH].
  intros Hin. apply Ha. exact (pick_from_In adds _ _ _ Hin).
Qed.

Section Aux.
  Variable H : Type.
  Variable HO : ops H.
  Hypothesis HOK : ops_ok HO.

  Lemma pu_kill_nil (s : slots H) : kill HO [] s = s.
  Proof.
    unfold kill. rewrite <- (map_id s) at 2. apply map_ext. intros [h|]; reflexivity.
  Qed.

  Lemma pu_has_del_nil (c : ctree H) : has_del HO [] c = false.
  Proof. induction c as [h|h l IHl r IHr]; cbn [has_del memH]; [reflexivity|]. rewrite IHl, IHr. reflexivity. Qed.

  Lemma pu_new_del_nil (s : slots H) : new_del HO s [] = [].
  Proof.
    unfold new_del. rewrite flat_map_nil_all; [reflexivity|].
    intros [[k lo] [c|]] _; [|reflexivity].
    destruct c as [h|h l r]; cbn [del_nodes]; rewrite pu_has_del_nil; reflexivity.
  Qed.

  Lemma occ_cwf c r o c0 r0 o0 : occ H c r o c0 r0 o0 -> cwf H HO c -> cwf H HO c0.
  Proof.
    induction 1 as [c r o | h l rr r o c0 r0 o0 _ IH | h l rr r o c0 r0 o0 _ IH]; intros Hw.
    - exact Hw.
    - apply IH. cbn [cwf] in Hw. tauto.
    - apply IH. cbn [cwf] in Hw. tauto.
  Qed.

  Variable s : slots H.
  Local Notation R := (rows_of (num_leaves s)).

  Lemma locc_val c0 r0 o0 : locc H HO s c0 r0 o0 -> Fv H HO s (pos R r0 o0) = chash c0.
  Proof.
    intros Hl. destruct (locc_node H HO s c0 r0 o0 Hl) as (x & Hx & Xr & Xo & Xh & _).
    rewrite <- Xr, <- Xo, <- Xh. exact (po_Fv_node H HO s x Hx).
  Qed.

  Lemma locc_nz c0 r0 o0 :
    (forall a b, NZ HO (op_hash2 HO a b)) -> (forall h, In (Some h) s -> NZ HO h) ->
    locc H HO s c0 r0 o0 -> NZ HO (chash c0).
  Proof.
    intros Hh2 Hl Hlo. destruct c0 as [h|h l rr].
    - cbn [chash]. apply Hl. apply (locc_leaf_live H HO s _ _ _ h Hlo). left. reflexivity.
    - destruct Hlo as (k & lo & c & He & Ho).
      apply forest_entry in He as (_ & _ & _ & _ & _ & Ht). symmetry in Ht.
      destruct (compress_wf H HO k _ c Ht) as [Hw _].
      pose proof (occ_cwf _ _ _ _ _ _ Ho Hw) as Hw0. cbn [cwf] in Hw0. destruct Hw0 as [-> _].
      cbn [chash]. apply Hh2.
  Qed.

  (** the children of an inner occurrence are non-root nodes *)
  Lemma locc_child_node h l rr r o : locc H HO s (CNode h l rr) (S r) o ->
    forall c0 o0, (c0 = l /\ o0 = 2 * o) \/ (c0 = rr /\ o0 = 2 * o + 1) ->
    exists y, In y (layout HO s) /\ nrow y = r /\ noff y = o0 /\ nhash y = chash c0 /\
              nroot y = false /\ locc H HO s c0 r o0.
  Proof.
    intros (k & lo & c & He & Ho) c0 o0 Hc.
    assert (Hoc : occ H c k (lo / 2 ^ N.of_nat k) c0 r o0).
    { apply (occ_trans H _ _ _ _ _ _ _ _ _ Ho).
      destruct Hc as [[-> ->]|[-> ->]]; [apply occ_left|apply occ_right]; apply occ_here. }
    destruct (locc_entry_node H HO s _ _ _ _ _ _ He Hoc) as (y & _ & Hy & Yr & Yo & Yh & _ & _ & Hnr).
    pose proof (occ_range H _ _ _ _ _ _ Ho) as (Hrk & _).
    exists y. repeat split; try assumption; [apply Hnr; lia|exists k, lo, c; auto].
  Qed.
End Aux.


(** * [DetectOffset]: two positions of one aligned block of the forest lie in the same tree *)

Lemma do_land_pow2 t n : N.land (2 ^ t) n = if N.testbit n t then 2 ^ t else 0.
Proof.
  apply N.bits_inj. intros i. rewrite N.land_spec, N.pow2_bits_eqb.
  destruct (N.eqb_spec t i) as [->|Hne].
  - destruct (N.testbit n i) eqn:E; cbn [andb]; [rewrite N.pow2_bits_eqb, N.eqb_refl; reflexivity|].
    rewrite N.bits_0. reflexivity.
  - cbn [andb]. destruct (N.testbit n t); [rewrite N.pow2_bits_eqb|rewrite N.bits_0; reflexivity].
    symmetry. apply N.eqb_neq. exact Hne.
Qed.

Lemma do_bit_div x t : x / 2 ^ t = 2 * (x / 2 ^ (t + 1)) + N.b2n (N.testbit x t).
Proof.
  rewrite N.testbit_spec'. rewrite N.pow_add_r, N.pow_1_r.
  rewrite <- N.div_div by (try apply pow2_nz; lia).
  apply N.div_mod. lia.
Qed.

Lemma do_mod_lt x t : (x mod 2 ^ (t + 1) <? 2 ^ t) = negb (N.testbit x t).
Proof.
  rewrite N.pow_add_r, N.pow_1_r, N.mod_mul_r by (try apply pow2_nz; lia).
  rewrite <- N.testbit_spec'. pose proof (N.mod_lt x (2 ^ t) (pow2_nz t)) as Hm.
  revert Hm. generalize (x mod 2 ^ t). generalize (2 ^ t). intros P m Hm.
  destruct (N.testbit x t); cbn [N.b2n negb].
  - apply N.ltb_ge. lia.
  - apply N.ltb_lt. lia.
Qed.

Lemma do_block_lt lo j a n : lo / 2 ^ j = a -> (a + 1) * 2 ^ j <= n -> lo < n.
Proof.
  intros E Hb. pose proof (N.div_mod lo (2 ^ j) (pow2_nz j)) as Hd.
  pose proof (N.mod_lt lo (2 ^ j) (pow2_nz j)) as Hm. rewrite E in Hd.
  revert Hd Hm Hb. generalize (lo mod 2 ^ j). generalize (2 ^ j). intros P m Hd Hm Hb. nia.
Qed.

Lemma do_level_ge n lo j a t : lo / 2 ^ j = a -> (a + 1) * 2 ^ j <= n ->
  n / 2 ^ (t + 1) = lo / 2 ^ (t + 1) -> j <= t.
Proof.
  intros E Hb Q. destruct (N.le_gt_cases j t) as [Hle|Hgt]; [exact Hle|exfalso].
  assert (Ej : j = (t + 1) + (j - (t + 1))) by lia.
  assert (Hn : n / 2 ^ j = a).
  { rewrite <- E. rewrite Ej, N.pow_add_r, <- !N.div_div by apply pow2_nz. rewrite Q. reflexivity. }
  pose proof (do_block_lt n j a n Hn Hb). lia.
Qed.

Lemma do_same_bit lo1 lo2 j a t : lo1 / 2 ^ j = a -> lo2 / 2 ^ j = a -> j <= t ->
  N.testbit lo1 t = N.testbit lo2 t.
Proof.
  intros H1 H2 Hjt. replace t with ((t - j) + j) by lia. rewrite <- !N.div_pow2_bits, H1, H2.
  reflexivity.
Qed.

Lemma do_step_Q n lo t : lo < n -> n / 2 ^ (t + 1) = lo / 2 ^ (t + 1) ->
  N.testbit n t && negb (N.testbit lo t) = false -> n / 2 ^ t = lo / 2 ^ t.
Proof.
  intros Hlt Q Ht. pose proof (N.div_le_mono lo n (2 ^ t) (pow2_nz t) ltac:(lia)) as Hm.
  rewrite (do_bit_div n t), (do_bit_div lo t), Q in *.
  revert Hm Ht. generalize (lo / 2 ^ (t + 1)). intros q.
  destruct (N.testbit n t), (N.testbit lo t); cbn [N.b2n andb negb]; intros; try discriminate; lia.
Qed.

Lemma do_A p nr t : nr < 64 -> t <= 63 ->
  and64 (shl p nr) (maxPosition t) = (p * 2 ^ nr) mod 2 ^ (t + 1).
Proof.
  intros Hnr Ht. change (maxPosition t) with (mask t). rewrite land_mask by exact Ht.
  rewrite shl_mod by exact Hnr. rewrite W_eq. apply mod_mod_pow2. lia.
Qed.

Lemma do_sub p nr t : p < W -> t <= 63 ->
  (sub64 p (2 ^ t) * 2 ^ nr) mod 2 ^ t = (p * 2 ^ nr) mod 2 ^ t.
Proof.
  intros Hp Ht. unfold sub64. rewrite wrap_mod.
  assert (HT : 2 ^ t < W) by (apply pow2_lt_W; exact Ht).
  pose proof (N.div_mod (p + W - 2 ^ t) W ltac:(rewrite W_eq; apply pow2_nz)) as Hd.
  set (q := (p + W - 2 ^ t) / W) in *. set (p' := (p + W - 2 ^ t) mod W) in *.
  assert (EW : W = 2 ^ (64 - t) * 2 ^ t).
  { rewrite W_eq, <- N.pow_add_r. f_equal. lia. }
  pose proof (UtilsGeom.pow2_pos (64 - t)) as Hp1.
  set (B := 2 ^ (64 - t) - 1).
  assert (EA : 2 ^ (64 - t) = B + 1) by (unfold B; lia).
  assert (E1 : p + B * 2 ^ t = q * (B + 1) * 2 ^ t + p').
  { rewrite EW, EA in Hd. clearbody B q p'. clear - Hd HT EW EA.
    assert (2 ^ t <= (B + 1) * 2 ^ t) by nia.
    replace (p + (B + 1) * 2 ^ t - 2 ^ t) with (p + B * 2 ^ t) in Hd by nia. lia. }
  assert (E : p' * 2 ^ nr + (q * (B + 1) * 2 ^ nr) * 2 ^ t
              = p * 2 ^ nr + (B * 2 ^ nr) * 2 ^ t).
  { transitivity ((q * (B + 1) * 2 ^ t + p') * 2 ^ nr); [ring|]. rewrite <- E1. ring. }

  rewrite <- (N.mod_add (p' * 2 ^ nr) (q * (B + 1) * 2 ^ nr) (2 ^ t) (pow2_nz t)).
  rewrite E. apply N.mod_add, pow2_nz.
Qed.

Lemma do_u8z t : t < 256 -> u8z (Z.of_N t) = t.
Proof. intros Ht. unfold u8z. rewrite Z.mod_small by lia. apply N2Z.id. Qed.

Lemma do_inv_down x y t : 1 <= t -> x mod 2 ^ (t + 1) = y mod 2 ^ (t + 1) ->
  x mod 2 ^ (t - 1 + 1) = y mod 2 ^ (t - 1 + 1).
Proof.
  intros Ht E. replace (t - 1 + 1) with t by lia.
  rewrite <- (mod_mod_pow2 x (t + 1) t), <- (mod_mod_pow2 y (t + 1) t) by lia. rewrite E. reflexivity.
Qed.

Definition do_first (r : option (N * N * N)) : option N := option_map (fun x => fst (fst x)) r.

Lemma do_loop_rel n j a lo1 lo2 nr1 nr2 :
  nr1 < 64 -> nr2 < 64 -> lo1 / 2 ^ j = a -> lo2 / 2 ^ j = a -> (a + 1) * 2 ^ j <= n ->
  forall fuel t p1 p2 b, t <= 63 -> (N.to_nat t < fuel)%nat -> p1 < W -> p2 < W ->
    (p1 * 2 ^ nr1) mod 2 ^ (t + 1) = lo1 mod 2 ^ (t + 1) ->
    (p2 * 2 ^ nr2) mod 2 ^ (t + 1) = lo2 mod 2 ^ (t + 1) ->
    n / 2 ^ (t + 1) = lo1 / 2 ^ (t + 1) ->
    do_first (DetectOffset_loop fuel p1 nr1 n (Z.of_N t) b)
    = do_first (DetectOffset_loop fuel p2 nr2 n (Z.of_N t) b) /\
    do_first (DetectOffset_loop fuel p1 nr1 n (Z.of_N t) b) <> None.
Proof.
  intros Hnr1 Hnr2 E1 E2 Hb.
  pose proof (do_block_lt lo1 j a n E1 Hb) as Hlt1.
  induction fuel as [|f IH]; intros t p1 p2 b Ht Hf Hp1 Hp2 I1 I2 Q; [exfalso; clear - Hf; lia|].
  pose proof (do_level_ge n lo1 j a t E1 Hb Q) as Hjt.
  cbn [DetectOffset_loop]. rewrite (do_u8z t) by (clear - Ht; lia).
  rewrite (do_A p1 nr1 t Hnr1 Ht), (do_A p2 nr2 t Hnr2 Ht), I1, I2.
  unfold maxLeafCount. rewrite (shl_1 t Ht). unfold and64. rewrite do_land_pow2.
  assert (T1 : (lo1 mod 2 ^ (t + 1) <? (if N.testbit n t then 2 ^ t else 0))
               = N.testbit n t && negb (N.testbit lo1 t)).
  { destruct (N.testbit n t); [apply do_mod_lt|]. cbn [andb]. apply N.ltb_ge, N.le_0_l. }
  assert (T2 : (lo2 mod 2 ^ (t + 1) <? (if N.testbit n t then 2 ^ t else 0))
               = N.testbit n t && negb (N.testbit lo1 t)).
  { rewrite (do_same_bit lo1 lo2 j a t E1 E2 Hjt).
    destruct (N.testbit n t); [apply do_mod_lt|]. cbn [andb]. apply N.ltb_ge, N.le_0_l. }
  rewrite T1, T2.
  destruct (N.testbit n t && negb (N.testbit lo1 t)) eqn:Etest.
  - cbn. split; [reflexivity|discriminate].
  - pose proof (do_step_Q n lo1 t Hlt1 Q Etest) as Q'.
    assert (Ht1 : 1 <= t).
    { destruct (N.eq_dec t 0) as [Et0|Hn0]; [|clear - Hn0; lia]. exfalso. subst t.
      rewrite N.pow_0_r, !N.div_1_r in Q'. clear - Q' Hlt1. lia. }
    destruct (Z.ltb_spec (Z.of_N t) 0) as [Hc|_]; [exfalso; clear - Hc; lia|].
    rewrite N2Z.id. rewrite (shl_1 t Ht), do_land_pow2.
    replace (Z.of_N t - 1)%Z with (Z.of_N (t - 1)) by (clear - Ht1; lia).
    assert (Et : t - 1 + 1 = t) by (clear - Ht1; lia).
    assert (Q'' : n / 2 ^ (t - 1 + 1) = lo1 / 2 ^ (t - 1 + 1)) by (rewrite Et; exact Q').
    assert (Ht' : t - 1 <= 63) by (clear - Ht; lia).
    assert (Hf' : (N.to_nat (t - 1) < f)%nat) by (clear - Hf Ht1; lia).
    assert (HW : W <> 0) by (rewrite W_eq; apply pow2_nz).
    destruct (N.testbit n t).
    + destruct (N.eqb_spec (2 ^ t) 0) as [Hc|_]; [exfalso; exact (pow2_nz t Hc)|].
      apply IH; try assumption.
      * unfold sub64. rewrite wrap_mod. apply N.mod_lt, HW.
      * unfold sub64. rewrite wrap_mod. apply N.mod_lt, HW.
      * rewrite Et, (do_sub p1 nr1 t Hp1 Ht).
        pose proof (do_inv_down _ _ t Ht1 I1) as D. rewrite Et in D. exact D.
      * rewrite Et, (do_sub p2 nr2 t Hp2 Ht).
        pose proof (do_inv_down _ _ t Ht1 I2) as D. rewrite Et in D. exact D.
    + rewrite N.eqb_refl. apply IH; try assumption.
      * exact (do_inv_down _ _ t Ht1 I1).
      * exact (do_inv_down _ _ t Ht1 I2).
Qed.

Lemma do_init h r o : r <= h -> (gpos h r o * 2 ^ r) mod 2 ^ (h + 1) = (o * 2 ^ r) mod 2 ^ (h + 1).
Proof.
  intros Hr. unfold gpos, gstart.
  assert (E : (2 ^ (h + 1) - 2 ^ (h + 1 - r) + o) * 2 ^ r = o * 2 ^ r + (2 ^ r - 1) * 2 ^ (h + 1)).
  { assert (E1 : 2 ^ (h + 1) = 2 ^ (h + 1 - r) * 2 ^ r) by (rewrite <- N.pow_add_r; f_equal; lia).
    pose proof (UtilsGeom.pow2_pos r) as Hp. pose proof (UtilsGeom.pow2_pos (h + 1 - r)) as Hp'.
    rewrite N.mul_add_distr_r, N.mul_sub_distr_r, <- E1, N.mul_sub_distr_r, N.mul_1_l.
    rewrite (N.mul_comm (2 ^ r) (2 ^ (h + 1))).
    assert (2 ^ (h + 1) <= 2 ^ (h + 1) * 2 ^ r) by nia. lia. }
  rewrite E. apply N.mod_add, pow2_nz.
Qed.

Lemma subtree_same_block_h n h r1 o1 r2 o2 j a : h <= 63 -> n <= 2 ^ h ->
  r1 <= h -> o1 < 2 ^ (h - r1) -> r2 <= h -> o2 < 2 ^ (h - r2) ->
  (o1 * 2 ^ r1) / 2 ^ j = a -> (o2 * 2 ^ r2) / 2 ^ j = a -> (a + 1) * 2 ^ j <= n ->
  do_first (DetectOffset_loop 70 (gpos h r1 o1) r1 n (Z.of_N h) 0)
  = do_first (DetectOffset_loop 70 (gpos h r2 o2) r2 n (Z.of_N h) 0).
Proof.
  intros Hh Hup Hr1 Ho1 Hr2 Ho2 E1 E2 Hb.
  pose proof (do_block_lt _ j a n E1 Hb) as Hlt1.
  assert (Q : n / 2 ^ (h + 1) = o1 * 2 ^ r1 / 2 ^ (h + 1)).
  { assert (Hlt : n < 2 ^ (h + 1)).
    { rewrite N.pow_add_r, N.pow_1_r. pose proof (UtilsGeom.pow2_pos h) as Hp. clear - Hp Hup. lia. }
    rewrite !N.div_small by (clear - Hlt Hlt1; lia). reflexivity. }
  assert (Hr1' : r1 < 64) by (clear - Hr1 Hh; lia).
  assert (Hr2' : r2 < 64) by (clear - Hr2 Hh; lia).
  assert (Hfu : (N.to_nat h < 70)%nat) by (clear - Hh; lia).
  exact (proj1 (do_loop_rel n j a (o1 * 2 ^ r1) (o2 * 2 ^ r2) r1 r2 Hr1' Hr2' E1 E2 Hb
              70%nat h (gpos h r1 o1) (gpos h r2 o2) 0 Hh Hfu
              (gpos_lt_W h r1 o1 Hh Hr1 Ho1) (gpos_lt_W h r2 o2 Hh Hr2 Ho2)
              (do_init h r1 o1 Hr1) (do_init h r2 o2 Hr2) Q)).
Qed.

Lemma do_first_subtree r : match r with Some (b, _, _) => b | None => 0 end
                           = match do_first r with Some b => b | None => 0 end.
Proof. destruct r as [[[b x] y]|]; reflexivity. Qed.

Theorem subtree_same_block n r1 o1 r2 o2 j a : n <= 2 ^ 63 ->
  r1 <= TreeRows n -> o1 < 2 ^ (TreeRows n - r1) -> r2 <= TreeRows n -> o2 < 2 ^ (TreeRows n - r2) ->
  (o1 * 2 ^ r1) / 2 ^ j = a -> (o2 * 2 ^ r2) / 2 ^ j = a -> (a + 1) * 2 ^ j <= n ->
  subtree_of (gpos (TreeRows n) r1 o1) n = subtree_of (gpos (TreeRows n) r2 o2) n.
Proof.
  intros Hn Hr1 Ho1 Hr2 Ho2 E1 E2 Hb.
  pose proof (TreeRows_le_63 n Hn) as Hh. pose proof (TreeRows_upper n) as Hup.
  unfold subtree_of, DetectOffset. cbv zeta.
  rewrite (DetectRow_gpos _ r1 o1 Hh Hr1 Ho1), (DetectRow_gpos _ r2 o2 Hh Hr2 Ho2).
  rewrite !do_first_subtree.
  rewrite (subtree_same_block_h n (TreeRows n) r1 o1 r2 o2 j a Hh Hup Hr1 Ho1 Hr2 Ho2 E1 E2 Hb).
  reflexivity.
Qed.

(** * [getNewPositions] with one destroyed root: the lift of coordinates *)

Definition pf_ok (n : N) (d : coord) : Prop :=
  (snd d / 2 + 1) * 2 ^ (N.of_nat (fst d) + 1) <= n.
Definition cinf (n : N) (x : coord) : Prop := (snd x + 1) * 2 ^ N.of_nat (fst x) <= n.

Lemma pu_anc_block d x : anc (S (fst d), snd d / 2) x = true ->
  (fst x <= fst d)%nat /\ snd x / 2 ^ N.of_nat (S (fst d) - fst x) = snd d / 2.
Proof.
  unfold anc. cbn [fst snd]. intros E. apply andb_true_iff in E as [E1 E2].
  apply Nat.ltb_lt in E1. apply N.eqb_eq in E2. split; [lia|exact E2].
Qed.

Lemma pu_isAnc_anc R d x : (R <= 63)%nat -> (fst d < R)%nat -> cvalid R d -> cvalid R x ->
  isAncestor (Parent (cpos R d) (N.of_nat R)) (cpos R x) (N.of_nat R)
  = anc (S (fst d), snd d / 2) x.
Proof.
  intros HR Hd [Hd1 Hd2] [Hx1 Hx2]. rewrite !cpos_gpos.
  rewrite Parent_gpos by (try assumption; lia).
  assert (Hpo : (snd d / 2 < 2 ^ (N.of_nat R - (N.of_nat (fst d) + 1)))%N).
  { apply N.div_lt_upper_bound; [lia|]. rewrite <- N.pow_succ_r'.
    replace (N.succ (N.of_nat R - (N.of_nat (fst d) + 1)))%N
      with (N.of_nat R - N.of_nat (fst d))%N by lia. exact Hd2. }
  rewrite isAncestor_gpos by (try assumption; lia).
  unfold anc. cbn [fst snd].
  replace (N.of_nat (fst d) + 1 - N.of_nat (fst x))%N with (N.of_nat (S (fst d) - fst x)) by lia.
  f_equal. destruct (Nat.ltb_spec (fst x) (S (fst d))), (N.ltb_spec (N.of_nat (fst x)) (N.of_nat (fst d) + 1));
    try reflexivity; lia.
Qed.

Lemma pu_lxor1_div o k : 1 <= k -> N.lxor o 1 / 2 ^ k = o / 2 ^ k.
Proof.
  intros Hk. replace k with (1 + (k - 1)) by lia.
  rewrite N.pow_add_r, N.pow_1_r, <- !N.div_div by (try apply pow2_nz; lia). f_equal.
  rewrite lxor_1. destruct (N.even o) eqn:Ev.
  - apply N.even_spec in Ev as [m ->]. rewrite N.mul_comm, N.div_mul by lia.
    replace (m * 2 + 1) with (1 + m * 2) by lia. rewrite N.div_add by lia. reflexivity.
  - assert (Ho : N.odd o = true) by (rewrite <- N.negb_even, Ev; reflexivity).
    apply N.odd_spec in Ho as [m ->]. replace (2 * m + 1 - 1) with (m * 2) by lia.
    rewrite N.div_mul by lia. replace (2 * m + 1) with (1 + m * 2) by lia.
    rewrite N.div_add by lia. reflexivity.
Qed.

(** a root of the forest does not lie below the parent of a destroyed root *)
Lemma pu_root_not_under n d x : pf_ok n d -> is_root_c n (cN x) = true ->
  anc (S (fst d), snd d / 2) x = false.
Proof.
  intros Hpf Hroot. destruct (anc (S (fst d), snd d / 2) x) eqn:Ea; [exfalso|reflexivity].
  apply pu_anc_block in Ea as [Hr Eq]. unfold pf_ok in Hpf.
  set (k := N.of_nat (S (fst d) - fst x)) in *. set (q := snd d / 2) in *.
  assert (Hk : 1 <= k) by (unfold k; lia).
  apply (pps_root_sib_out n (N.of_nat (fst x)) (snd x) Hroot).
  unfold in_forest. apply N.leb_le.
  pose proof (pu_lxor1_div (snd x) k Hk) as El. rewrite Eq in El.
  pose proof (N.div_mod (N.lxor (snd x) 1) (2 ^ k) (pow2_nz k)) as Hdm.
  pose proof (N.mod_lt (N.lxor (snd x) 1) (2 ^ k) (pow2_nz k)) as Hml. rewrite El in Hdm.
  assert (Epow : 2 ^ (N.of_nat (fst d) + 1) = 2 ^ k * 2 ^ N.of_nat (fst x)).
  { rewrite <- N.pow_add_r. f_equal. unfold k. lia. }
  rewrite Epow in Hpf. clearbody k q.
  revert Hdm Hml Hpf. generalize (N.lxor (snd x) 1 mod 2 ^ k), (N.lxor (snd x) 1), (2 ^ k),
    (2 ^ N.of_nat (fst x)). intros m L P Q Hdm Hml Hpf. clear - Hdm Hml Hpf. nia.
Qed.

(** a position below the parent of a destroyed root is in the tree of that root *)
Lemma pu_same_subtree R n d x : (R <= 63)%nat -> n <= 2 ^ 63 -> N.of_nat R = TreeRows n ->
  cvalid R d -> cvalid R x -> pf_ok n d -> anc (S (fst d), snd d / 2) x = true ->
  subtree_of (cpos R d) n = subtree_of (cpos R x) n.
Proof.
  intros HR Hn ER [Hd1 Hd2] [Hx1 Hx2] Hpf Ea. apply pu_anc_block in Ea as [Hr Eq].
  rewrite !cpos_gpos, ER. rewrite ER in Hd2, Hx2.
  assert (Hd1' : N.of_nat (fst d) <= TreeRows n) by lia.
  assert (Hx1' : N.of_nat (fst x) <= TreeRows n) by lia.
  apply (subtree_same_block n _ _ _ _ (N.of_nat (fst d) + 1) (snd d / 2) Hn Hd1' Hd2 Hx1' Hx2).
  - rewrite N.pow_add_r, N.pow_1_r, <- N.div_div by (try apply pow2_nz; lia).
    rewrite N.div_mul by apply pow2_nz. reflexivity.
  - rewrite <- Eq. replace (N.of_nat (fst d) + 1) with (N.of_nat (fst x) + N.of_nat (S (fst d) - fst x)) by lia.
    rewrite N.pow_add_r, <- N.div_div by apply pow2_nz. rewrite N.div_mul by apply pow2_nz. reflexivity.
  - exact Hpf.
Qed.

Lemma pu_gnp_targets_single R n d x : (R <= 63)%nat -> n <= 2 ^ 63 -> N.of_nat R = TreeRows n ->
  (fst d < R)%nat -> cvalid R d -> cvalid R x -> cinf n x -> pf_ok n d ->
  gnp_targets [cpos R d] (cpos R x) n (N.of_nat (fst x)) (N.of_nat R) = cpos R (lift1 d x).
Proof.
  intros HR Hn ER Hd Hvd Hvx Hix Hpf.
  rewrite <- (lift1_bridge R d x HR Hd Hvd Hvx), (pu_isAnc_anc R d x HR Hd Hvd Hvx).
  cbn [gnp_targets].
  assert (Eroot : isRootPositionOnRow (cpos R x) n (N.of_nat (fst x)) = is_root_c n (cN x)).
  { change (cpos R x) with (g (N.of_nat R) (cN x)). rewrite ER.
    apply (cc_isRoot n (TreeRows n) (TreeRows_le_63 n Hn) (TreeRows_upper n) eq_refl (cN x)).
    unfold inf, in_forest, cN. cbn [fst snd]. apply N.leb_le. exact Hix. }
  rewrite Eroot. destruct (is_root_c n (cN x)) eqn:Er.
  - rewrite (pu_root_not_under n d x Hpf Er). reflexivity.
  - destruct (anc (S (fst d), snd d / 2) x) eqn:Ea.
    + rewrite (pu_same_subtree R n d x HR Hn ER Hvd Hvx Hpf Ea), N.eqb_refl. cbn [negb].
      rewrite (pu_isAnc_anc R d x HR Hd Hvd Hvx), Ea. reflexivity.
    + destruct (negb _); [reflexivity|]. rewrite (pu_isAnc_anc R d x HR Hd Hvd Hvx), Ea. reflexivity.
Qed.

Lemma pu_lift1_cinf n d x : pf_ok n d -> cinf n x -> cinf n (lift1 d x).
Proof.
  intros Hpf Hx. unfold lift1. destruct (anc (S (fst d), snd d / 2) x) eqn:Ea; [|exact Hx].
  apply pu_anc_block in Ea as [Hr Eq]. unfold cinf, pf_ok in *. cbn [fst snd].
  set (b := N.of_nat (fst d - fst x)).
  replace (N.of_nat (S (fst d) - fst x)) with (b + 1) in Eq by (unfold b; lia).
  unfold rmbit. rewrite Eq.
  assert (Epow : 2 ^ (N.of_nat (fst d) + 1) = 2 ^ b * 2 ^ N.of_nat (S (fst x))).
  { rewrite <- N.pow_add_r. f_equal. unfold b. lia. }
  rewrite Epow in Hpf.
  pose proof (N.mod_lt (snd x) (2 ^ b) (pow2_nz b)) as Hm.
  revert Hm Hpf. generalize (snd x mod 2 ^ b), (snd d / 2), (2 ^ b), (2 ^ N.of_nat (S (fst x))).
  intros m q P Q Hm Hpf. clear - Hm Hpf. nia.
Qed.

Lemma pu_g_le_row h c c' : h <= 63 -> vld h c -> vld h c' -> g h c <= g h c' -> fst c <= fst c'.
Proof.
  intros Hh Hv Hv' Hle. destruct (N.eq_dec (g h c) (g h c')) as [E|Hne].
  - rewrite (pps_g_inj h c c' Hv Hv' E). lia.
  - assert (H0 : 0 <= 2 ^ h) by lia.
    apply (pps_g_lt_row 0 h Hh H0 c c' Hv Hv'). lia.
Qed.

Section Moved.
  Variable H : Type.
  Variable HO : ops H.
  Variable R : nat.
  Variable n : N.
  Hypothesis HR : (R <= 63)%nat.
  Hypothesis Hn : n <= 2 ^ 63.
  Hypothesis ER : N.of_nat R = TreeRows n.

  Local Notation hp := (hp H).
  Definition cok (e : coord * H) : Prop :=
    cvalid R (fst e) /\ cinf n (fst e) /\ op_eqb HO (snd e) (op_empty HO) = false.
  Definition cposh (e : coord * H) : hp := (cpos R (fst e), snd e).
  Definition dok (d : coord) : Prop := (fst d < R)%nat /\ cvalid R d /\ pf_ok n d.

  Lemma pu_cvalid_vld x : cvalid R x -> vld (TreeRows n) (cN x).
  Proof. intros [H1 H2]. unfold vld, cN. cbn [fst snd]. rewrite <- ER. split; [lia|exact H2]. Qed.

  Lemma pu_gnp_loop_single d : dok d -> forall (X : list (coord * H)) row,
    (forall e, In e X -> cok e) -> SSle (map (fun e => cpos R (fst e)) X) ->
    (forall e, In e X -> row <= N.of_nat (fst (fst e))) ->
    gnp_loop HO [cpos R d] (map cposh X) n (N.of_nat R) row true
    = map (fun e => cposh (lift1 d (fst e), snd e)) X.
  Proof.
    intros (Hd & Hvd & Hpf). induction X as [|e X IH]; intros row Hok Hs Hrow; [reflexivity|].
    destruct (Hok e (or_introl eq_refl)) as (Hv & Hi & Hnz).
    pose proof (pu_cvalid_vld (fst e) Hv) as Hvl.
    assert (Erow : gnp_row 300 (cpos R (fst e)) row (N.of_nat R) = N.of_nat (fst (fst e))).
    { change (cpos R (fst e)) with (g (N.of_nat R) (cN (fst e))). rewrite ER.
      apply (pu_gnp_row n Hn (cN (fst e)) Hvl 300 row (Hrow e (or_introl eq_refl))).
      destruct Hvl as [Hvl _]. pose proof (TreeRows_le_63 n Hn). cbn [cN fst] in *. lia. }
    cbn [map gnp_loop]. change (cposh e) with (cpos R (fst e), snd e). cbn [fst snd].
    rewrite Hnz, Erow.
    destruct (N.ltb_spec (N.of_nat R) (N.of_nat (fst (fst e)))) as [Hc|_]; [destruct Hv; lia|].
    rewrite (pu_gnp_targets_single R n d (fst e) HR Hn ER Hd Hvd Hv Hi Hpf).
    cbn [orb]. unfold cposh at 2. cbn [fst snd]. f_equal.
    cbn [map] in Hs. destruct (po_SS_inv _ _ _ Hs) as [Hs' Hle].
    apply IH; [intros e' He'; apply Hok; right; exact He'|exact Hs'|].
    intros e' He'. destruct (Hok e' (or_intror He')) as (Hv' & _ & _).
    assert (Hge : g (TreeRows n) (cN (fst e)) <= g (TreeRows n) (cN (fst e'))).
    { rewrite <- ER. apply (Hle (cpos R (fst e'))). apply in_map_iff. exists e'. auto. }
    exact (pu_g_le_row (TreeRows n) _ _ (TreeRows_le_63 n Hn) Hvl (pu_cvalid_vld _ Hv') Hge).
  Qed.

  Definition lift_e (d : coord) (e : coord * H) : coord * H := (lift1 d (fst e), snd e).

  Lemma pu_lift_cok d e : dok d -> cok e -> cok (lift_e d e).
  Proof.
    intros (Hd & Hvd & Hpf) (Hv & Hi & Hnz). unfold cok, lift_e. cbn [fst snd].
    split; [apply lift1_valid; assumption|]. split; [apply pu_lift1_cinf; assumption|exact Hnz].
  Qed.

  Lemma pu_sortK_SSle (l : list hp) : SSle (map fst (sortK l)).
  Proof. apply cc_ascK_SSle, SpecBasics.sortK_asc. Qed.

  Lemma pu_getNewPositions_single d (sl : list hp) (X : list (coord * H)) :
    dok d -> (forall e, In e X -> cok e) -> Permutation sl (map cposh X) -> SSle (map fst sl) ->
    Permutation (getNewPositions HO [cpos R d] sl n true) (map cposh (map (lift_e d) X)) /\
    SSle (map fst (getNewPositions HO [cpos R d] sl n true)).
  Proof.
    intros Hd Hok Hp Hs. unfold getNewPositions. split; [|apply pu_sortK_SSle].
    destruct (Permutation_map_inv _ _ Hp) as (X' & -> & HX').
    rewrite <- ER.
    rewrite (pu_gnp_loop_single d Hd X' 0).
    - eapply Permutation_trans; [apply RefTheory.sortK_perm|].
      rewrite map_map. change (fun x => cposh (lift_e d x)) with (fun e : coord * H => cposh (lift1 d (fst e), snd e)).
      apply Permutation_map, Permutation_sym, HX'.
    - intros e He. apply Hok. exact (Permutation_in _ (Permutation_sym HX') He).
    - rewrite map_map in Hs. exact Hs.
    - intros. lia.
  Qed.

  Lemma pu_moved : forall (D : list coord) (sl : list hp) (X : list (coord * H)),
    (forall d, In d D -> dok d) -> (forall e, In e X -> cok e) ->
    Permutation sl (map cposh X) -> SSle (map fst sl) ->
    let res := fold_left (fun acc del => getNewPositions HO [del] acc n true) (map (cpos R) D) sl in
    Permutation res (map (fun e => cposh (liftc D (fst e), snd e)) X) /\ SSle (map fst res).
  Proof.
    induction D as [|d D IH]; intros sl X HD Hok Hp Hs; cbv zeta.
    - cbn [map fold_left]. split; [|exact Hs]. unfold liftc. cbn [fold_left].
      eapply Permutation_trans; [exact Hp|]. apply Permutation_refl'. apply map_ext.
      intros [x h]. reflexivity.
    - cbn [map fold_left].
      destruct (pu_getNewPositions_single d sl X (HD d (or_introl eq_refl)) Hok Hp Hs) as [P1 S1].
      assert (Hok1 : forall e, In e (map (lift_e d) X) -> cok e).
      { intros e He. apply in_map_iff in He as (e0 & <- & He0).
        apply pu_lift_cok; [apply HD; left; reflexivity|apply Hok, He0]. }
      destruct (IH (getNewPositions HO [cpos R d] sl n true) (map (lift_e d) X)
                   (fun d' Hd' => HD d' (or_intror Hd')) Hok1 P1 S1) as [P2 S2].
      cbv zeta in P2, S2. split; [|exact S2].
      eapply Permutation_trans; [exact P2|]. rewrite map_map. apply Permutation_refl'.
      apply map_ext. intros [x h]. reflexivity.
  Qed.
End Moved.

(** * Occurrences by path; the lift of the coordinates of a whole subtree *)

Definition bN (b : bool) : N := if b then 1 else 0.
Definition walk (Y : coord) (pi : list bool) : coord := fold_left (fun y b => chd (bN b) y) pi Y.

Lemma walk_app Y p q : walk Y (p ++ q) = walk (walk Y p) q.
Proof. apply fold_left_app. Qed.

Lemma walk_coord : forall pi Y, (length pi <= fst Y)%nat ->
  fst (walk Y pi) = (fst Y - length pi)%nat /\ snd (walk Y pi) / 2 ^ N.of_nat (length pi) = snd Y.
Proof.
  induction pi as [|b pi IH]; intros Y Hl.
  - cbn [walk fold_left length]. split; [lia|]. apply N.div_1_r.
  - cbn [length] in Hl. change (walk Y (b :: pi)) with (walk (chd (bN b) Y) pi).
    assert (F1 : fst (chd (bN b) Y) = Nat.pred (fst Y)) by reflexivity.
    assert (F2 : snd (chd (bN b) Y) = 2 * snd Y + bN b) by reflexivity.
    destruct (IH (chd (bN b) Y)) as [I1 I2]; [rewrite F1; lia|].
    rewrite F1 in I1. rewrite F2 in I2. split; [rewrite I1; cbn [length]; lia|].
    cbn [length]. rewrite Nat2N.inj_succ, N.pow_succ_r', N.mul_comm, <- N.div_div by (try apply pow2_nz; lia).
    rewrite I2. assert (Hb : bN b < 2) by (destruct b; cbn; lia).
    replace (2 * snd Y + bN b) with (bN b + snd Y * 2) by lia.
    rewrite N.div_add by lia. rewrite N.div_small by exact Hb. reflexivity.
Qed.

Lemma walk_liftc D : forall pi Y, (length pi <= fst Y)%nat -> asc_from (fst Y) D ->
  liftc D (walk Y pi) = walk (liftc D Y) pi.
Proof.
  induction pi as [|b pi IH]; intros Y Hl HD; [reflexivity|]. cbn [length] in Hl.
  change (walk Y (b :: pi)) with (walk (chd (bN b) Y) pi).
  change (walk (liftc D Y) (b :: pi)) with (walk (chd (bN b) (liftc D Y)) pi).
  destruct Y as [r o]. cbn [fst] in *.
  assert (Hb : bN b < 2) by (destruct b; cbn; lia).
  destruct (liftc_child (bN b) Hb D r o ltac:(lia) HD) as [E _].
  rewrite <- E. apply IH.
  - cbn [chd fst]. lia.
  - cbn [chd fst]. apply (asc_from_weaken D r); [lia|exact HD].
Qed.

Section Path.
  Variable H : Type.
  Local Notation ctree := (ctree H).

  Inductive occp : ctree -> list bool -> ctree -> Prop :=
  | occp_nil c : occp c [] c
  | occp_l h l r pi c0 : occp l pi c0 -> occp (CNode h l r) (false :: pi) c0
  | occp_r h l r pi c0 : occp r pi c0 -> occp (CNode h l r) (true :: pi) c0.

  Lemma occp_trans c p c1 q c2 : occp c p c1 -> occp c1 q c2 -> occp c (p ++ q) c2.
  Proof.
    induction 1 as [c|h l r pi c0 _ IH|h l r pi c0 _ IH]; intros H2; cbn [app].
    - exact H2.
    - apply occp_l, IH, H2.
    - apply occp_r, IH, H2.
  Qed.

  Lemma occp_height c pi c0 : occp c pi c0 -> (length pi + cheight H c0 <= cheight H c)%nat.
  Proof.
    induction 1 as [c|h l r pi c0 _ IH|h l r pi c0 _ IH]; cbn [length cheight]; lia.
  Qed.

  Lemma occp_leaves c pi c0 : occp c pi c0 -> incl (cleaves H c0) (cleaves H c).
  Proof.
    induction 1 as [c|h l r pi c0 _ IH|h l r pi c0 _ IH]; [apply incl_refl| |];
      intros x Hx; cbn [cleaves]; apply in_or_app; [left|right]; apply IH, Hx.
  Qed.

  Lemma occ_path c r o c0 r0 o0 : occ H c r o c0 r0 o0 ->
    exists pi, occp c pi c0 /\ walk (r, o) pi = (r0, o0) /\ (length pi <= r)%nat.
  Proof.
    induction 1 as [c r o | h l rr r o c0 r0 o0 _ IH | h l rr r o c0 r0 o0 _ IH].
    - exists []. split; [constructor|]. split; [reflexivity|cbn; lia].
    - destruct IH as (pi & Hp & Hw & Hl). exists (false :: pi). split; [constructor; exact Hp|].
      split; [|cbn [length]; lia]. change (walk (S r, o) (false :: pi)) with (walk (chd 0 (S r, o)) pi).
      unfold chd. cbn [fst snd Nat.pred]. rewrite N.add_0_r. exact Hw.
    - destruct IH as (pi & Hp & Hw & Hl). exists (true :: pi). split; [constructor; exact Hp|].
      split; [|cbn [length]; lia]. change (walk (S r, o) (true :: pi)) with (walk (chd 1 (S r, o)) pi).
      unfold chd. cbn [fst snd Nat.pred]. exact Hw.
  Qed.

  Lemma path_occ c pi c0 : occp c pi c0 -> forall Y, (length pi <= fst Y)%nat ->
    occ H c (fst Y) (snd Y) c0 (fst (walk Y pi)) (snd (walk Y pi)).
  Proof.
    induction 1 as [c|h l r pi c0 _ IH|h l r pi c0 _ IH]; intros Y Hl.
    - apply occ_here.
    - cbn [length] in Hl. destruct Y as [[|k] o]; cbn [fst snd] in *; [lia|].
      change (walk (S k, o) (false :: pi)) with (walk (chd 0 (S k, o)) pi).
      unfold chd. cbn [fst snd Nat.pred]. rewrite N.add_0_r.
      apply occ_left. apply (IH (k, 2 * o)). cbn [fst]. lia.
    - cbn [length] in Hl. destruct Y as [[|k] o]; cbn [fst snd] in *; [lia|].
      change (walk (S k, o) (true :: pi)) with (walk (chd 1 (S k, o)) pi).
      unfold chd. cbn [fst snd Nat.pred].
      apply occ_right. apply (IH (k, 2 * o + 1)). cbn [fst]. lia.
  Qed.
End Path.

Lemma pu_disj_arith (j k m fx : nat) (od oe sx lod loe : N) :
  (j < k)%nat -> fx = (k - m)%nat -> (m <= k)%nat -> (fx <= j)%nat ->
  sx / 2 ^ N.of_nat (S j - fx) = od / 2 -> sx / 2 ^ N.of_nat m = oe ->
  od * p2 j = lod -> oe * p2 k = loe -> loe + p2 k <= lod -> False.
Proof.
  intros Hjk Efx Hm Hfx Eq W2 Eod Eoe Hdis.
  assert (Hq : od / 2 ^ N.of_nat (k - j) = oe).
  { rewrite <- W2.
    replace (N.of_nat m) with (N.of_nat (S j - fx) + N.of_nat (m - (S j - fx))) by lia.
    rewrite N.pow_add_r, <- N.div_div by apply pow2_nz. rewrite Eq.
    replace (N.of_nat (k - j)) with (1 + N.of_nat (m - (S j - fx))) by lia.
    rewrite N.pow_add_r, N.pow_1_r, <- N.div_div by (try apply pow2_nz; lia). reflexivity. }
  pose proof (N.div_mod od (2 ^ N.of_nat (k - j)) (pow2_nz _)) as Hdm.
  pose proof (N.mod_lt od (2 ^ N.of_nat (k - j)) (pow2_nz _)) as Hml. rewrite Hq in Hdm.
  assert (Epk : p2 k = 2 ^ N.of_nat (k - j) * p2 j).
  { unfold p2. rewrite <- N.pow_add_r. f_equal. clear - Hjk. lia. }
  rewrite Epk in Eoe, Hdis. pose proof (p2_pos j) as Hpos.
  remember (od mod 2 ^ N.of_nat (k - j)) as mm eqn:Emm.
  remember (2 ^ N.of_nat (k - j)) as P eqn:EP. remember (p2 j) as Q eqn:EQ.
  clear - Hdm Hml Eoe Eod Hdis Hpos.
  rewrite Hdm in Eod. assert (Hlt : mm * Q < P * Q) by (apply N.mul_lt_mono_pos_r; assumption).
  rewrite <- Eoe, <- Eod in Hdis. lia.
Qed.

Section StepLift.
  Variable H : Type.
  Variable HO : ops H.
  Local Notation entry := (StumpAdd.entry H).
  Local Notation erow := (@StumpAdd.erow H).
  Local Notation elo := (@StumpAddData.elo H).
  Local Notation ecoord := (@StumpAddData.ecoord H).
  Local Notation merge := (StumpAddData.merge H HO).
  Local Notation nones := (@StumpAddData.nones H).
  Local Notation somes := (@StumpAddData.somes H).
  Local Notation desc := (@StumpAddData.desc H).

  Lemma locc_path (s : slots H) c0 r0 o0 : locc H HO s c0 r0 o0 <->
    exists (e : entry) ce pi, In e (forest HO s) /\ snd e = Some ce /\ occp H ce pi c0 /\
                              walk (ecoord e) pi = (r0, o0) /\ (length pi <= erow e)%nat.
  Proof.
    split.
    - intros (k & lo & c & He & Ho). destruct (occ_path H _ _ _ _ _ _ Ho) as (pi & Hp & Hw & Hl).
      exists (k, lo, Some c), c, pi. repeat split; assumption.
    - intros ([[k lo] t] & ce & pi & He & Hs & Hp & Hw & Hl). cbn [snd] in Hs. subst t.
      exists k, lo, ce. split; [exact He|].
      pose proof (path_occ H ce pi c0 Hp (ecoord (k, lo, Some ce)) Hl) as Ho.
      rewrite Hw in Ho. exact Ho.
  Qed.

  (** the destroyed root of a lower tree does not move the nodes of a higher tree *)
  Lemma lift1_disj (s : slots H) (ed e : entry) pi :
    In ed (forest HO s) -> In e (forest HO s) -> (erow ed < erow e)%nat ->
    (length pi <= erow e)%nat ->
    lift1 (ecoord ed) (walk (ecoord e) pi) = walk (ecoord e) pi.
  Proof.
    intros Hed He Hrow Hl. unfold lift1.
    destruct (anc (S (fst (ecoord ed)), snd (ecoord ed) / 2) (walk (ecoord e) pi)) eqn:Ea;
      [exfalso|reflexivity].
    apply pu_anc_block in Ea as [Hr Eq].
    destruct (walk_coord pi (ecoord e) Hl) as [W1 W2].
    destruct ed as [[j lod] td]. destruct e as [[k loe] te].
    unfold StumpAddData.ecoord, StumpAdd.erow, StumpAddData.elo in *. cbn [fst snd] in *.
    pose proof (forest_entries_disjoint H HO s k loe te j lod td He Hed Hrow) as Hdis.
    apply forest_entry in Hed as (_ & _ & Ed & _). apply forest_entry in He as (_ & _ & Ee & _).
    assert (Eod : lod / 2 ^ N.of_nat j * p2 j = lod).
    { rewrite Ed. fold (p2 j). rewrite N.div_mul by (apply N.neq_0_lt_0, p2_pos). reflexivity. }
    assert (Eoe : loe / 2 ^ N.of_nat k * p2 k = loe).
    { rewrite Ee. fold (p2 k). rewrite N.div_mul by (apply N.neq_0_lt_0, p2_pos). reflexivity. }
    exact (pu_disj_arith j k (length pi) _ _ _ _ lod loe Hrow W1 Hl Hr Eq W2 Eod Eoe Hdis).
  Qed.

  Lemma liftc_disj (s : slots H) (e : entry) pi : In e (forest HO s) -> (length pi <= erow e)%nat ->
    forall D, (forall d, In d D -> exists ed, In ed (forest HO s) /\ d = ecoord ed /\
                                              (erow ed < erow e)%nat) ->
    liftc D (walk (ecoord e) pi) = walk (ecoord e) pi.
  Proof.
    intros He Hl. induction D as [|d D IH]; intros HD; [reflexivity|].
    unfold liftc. cbn [fold_left].
    destruct (HD d (or_introl eq_refl)) as (ed & Hed & -> & Hr).
    rewrite (lift1_disj s ed e pi Hed He Hr Hl). apply IH. intros d' Hd'. apply HD. right. exact Hd'.
  Qed.

  Lemma merge_app ch1 ch2 c : merge (ch1 ++ ch2) c = merge ch2 (merge ch1 c).
  Proof. apply fold_left_app. Qed.

  Lemma repeat_snoc {A} (a : A) k : repeat a k ++ [a] = repeat a (S k).
  Proof. symmetry. apply repeat_cons. Qed.

  Lemma merge_path : forall ch c, occp H (merge ch c) (repeat true (somes ch)) c.
  Proof.
    induction ch as [|e ch IH]; intros c; [constructor|].
    change (merge (e :: ch) c) with (merge ch (mstep H HO c e)). cbn [StumpAddData.somes].
    specialize (IH (mstep H HO c e)). unfold mstep in *. destruct (snd e) as [ce|]; [|exact IH].
    rewrite <- repeat_snoc. eapply occp_trans; [exact IH|]. apply occp_r, occp_nil.
  Qed.

  Lemma desc_walk : forall ch Y, desc ch Y = walk Y (repeat true (somes ch)).
  Proof.
    induction ch as [|e ch IH]; intros Y; [reflexivity|]. cbn [StumpAddData.desc StumpAddData.somes].
    destruct (snd e); [|apply IH]. rewrite <- repeat_snoc, walk_app, <- IH. reflexivity.
  Qed.

  Lemma nones_cons_some (e : entry) ch ce : snd e = Some ce -> nones (e :: ch) = nones ch.
  Proof. intros He. unfold StumpAddData.nones. cbn [flat_map]. rewrite He. reflexivity. Qed.

  (** where a subtree of a popped root of the chain sits after the step *)
  Lemma chain_coord (s : slots H) n ch1 (e : entry) ch2 ce pi :
    (forall e', In e' (ch1 ++ e :: ch2) -> In e' (forest HO s)) ->
    chain_at H n 0 (ch1 ++ e :: ch2) -> snd e = Some ce -> (length pi <= erow e)%nat ->
    liftc (nones (ch1 ++ e :: ch2)) (walk (ecoord e) pi)
    = walk (xc n (length (ch1 ++ e :: ch2))) (repeat true (somes ch2) ++ false :: pi).
  Proof.
    intros Hin Hc He Hl.
    pose proof (proj1 (chain_at_app H n ch1 0 (e :: ch2)) Hc) as [Hc1 Hc2]. cbn [Nat.add] in Hc2.
    pose proof Hc2 as (Hr & _ & _ & Hc2').
    assert (Hine : In e (forest HO s)) by (apply Hin, in_or_app; right; left; reflexivity).
    assert (Hlow : forall d, In d (nones ch1) -> exists ed, In ed (forest HO s) /\ d = ecoord ed /\
                                                            (erow ed < erow e)%nat).
    { intros d Hd. apply nones_in in Hd as (e1 & He1 & _ & ->). exists e1.
      split; [apply Hin, in_or_app; left; exact He1|]. split; [reflexivity|].
      pose proof (chain_at_rows H n ch1 0 e1 Hc1 He1). lia. }
    assert (Hasc : asc_from (erow e) (nones ch2)).
    { pose proof (asc_nones H n [] ch2 (S (length ch1)) Hc2' I) as Ha. rewrite app_nil_r in Ha.
      apply (asc_from_weaken _ (S (length ch1))); [lia|exact Ha]. }
    rewrite nones_app, (nones_cons_some e ch2 ce He), liftc_app.
    rewrite (liftc_disj s e pi Hine Hl _ Hlow).
    rewrite (walk_liftc (nones ch2) pi (ecoord e) Hl Hasc).
    (* the root *)
    pose proof (lift_popped H n [] ch1 e ch2 ce Hc He I) as Hp.
    rewrite app_nil_r, nones_app, (nones_cons_some e ch2 ce He), liftc_app in Hp.
    change (ecoord e) with (walk (ecoord e) []) in Hp at 1.
    rewrite (liftc_disj s e [] Hine ltac:(cbn; lia) _ Hlow) in Hp. cbn [walk fold_left] in Hp.
    rewrite Hp. unfold liftc at 1. cbn [fold_left].
    rewrite walk_app, <- desc_walk. reflexivity.
  Qed.
End StepLift.

Section StepLift2.
  Variable H : Type.
  Variable HO : ops H.
  Local Notation entry := (StumpAdd.entry H).
  Local Notation erow := (@StumpAdd.erow H).
  Local Notation ecoord := (@StumpAddData.ecoord H).
  Local Notation merge := (StumpAddData.merge H HO).
  Local Notation nones := (@StumpAddData.nones H).
  Local Notation somes := (@StumpAddData.somes H).

  Lemma occp_leaf_inv a pi c0 : occp H (CLeaf a) pi c0 -> pi = [] /\ c0 = CLeaf a.
  Proof. intros Ho. inversion Ho; subst. split; reflexivity. Qed.

  (** the occurrences in the tree a chain builds *)
  Lemma merge_occp_inv : forall ch c Pi c0, occp H (merge ch c) Pi c0 ->
    incl (cleaves H c) (cleaves H c0) \/
    (exists pi, Pi = repeat true (somes ch) ++ pi /\ occp H c pi c0) \/
    (exists ch1 (e : entry) ch2 ce pi, ch = ch1 ++ e :: ch2 /\ snd e = Some ce /\
        Pi = repeat true (somes ch2) ++ false :: pi /\ occp H ce pi c0).
  Proof.
    induction ch as [|e ch IH]; intros c Pi c0 Ho.
    - right. left. exists Pi. split; [reflexivity|exact Ho].
    - change (merge (e :: ch) c) with (merge ch (mstep H HO c e)) in Ho.
      destruct (IH _ _ _ Ho) as [Hi|[(pi & -> & Hp)|(ch1 & e' & ch2 & ce & pi & -> & He' & -> & Hp)]].
      + left. unfold mstep in Hi. destruct (snd e); [|exact Hi].
        intros x Hx. apply Hi. cbn [cleaves]. apply in_or_app. right. exact Hx.
      + unfold mstep in Hp. cbn [StumpAddData.somes]. destruct (snd e) as [ce|] eqn:Ese.
        * inversion Hp; subst.
          -- left. intros x Hx. cbn [cleaves]. apply in_or_app. right. exact Hx.
          -- right. right. exists [], e, ch, ce. eexists. split; [reflexivity|]. split; [exact Ese|].
             split; [reflexivity|]. assumption.
          -- right. left. eexists. split; [|eassumption].
             rewrite <- repeat_snoc, <- app_assoc. reflexivity.
        * right. left. exists pi. split; [reflexivity|exact Hp].
      + right. right. exists (e :: ch1), e', ch2, ce, pi. auto.
  Qed.

  Variable s : slots H.
  Variable a : H.
  Variables (rest : list H) (ch un : list entry).
  Hypothesis SD : step_data H HO s a rest ch un.
  Local Notation n := (num_leaves s).
  Local Notation s1 := (s ++ [Some a]).
  Local Notation Y := (xc n (length ch)).
  Local Notation top := (length ch, last_lo H ch n, Some (merge ch (CLeaf a))).

  Lemma sl_ch_forest e : In e ch -> In e (forest HO s).
  Proof. intros He. apply (step_in_forest H HO s a rest ch un e SD), in_or_app. left. exact He. Qed.
  Lemma sl_un_forest e : In e un -> In e (forest HO s).
  Proof. intros He. apply (step_in_forest H HO s a rest ch un e SD), in_or_app. right. exact He. Qed.
  Lemma sl_top : In top (forest HO s1).
  Proof. apply (step_in_forest' H HO s a rest ch un _ SD). left. reflexivity. Qed.
  Lemma sl_top_coord : ecoord top = Y.
  Proof. exact (sd_coord H HO s a rest ch un SD). Qed.

  Lemma sl_un_fixed (e : entry) pi : In e un -> (length pi <= erow e)%nat ->
    liftc (nones ch) (walk (ecoord e) pi) = walk (ecoord e) pi.
  Proof.
    intros He Hl. apply (liftc_disj H HO s e pi (sl_un_forest e He) Hl).
    intros d Hd. apply nones_in in Hd as (e1 & He1 & _ & ->). exists e1.
    split; [exact (sl_ch_forest e1 He1)|]. split; [reflexivity|].
    pose proof (chain_at_rows H n ch 0 e1 (sd_chain H HO s a rest ch un SD) He1).
    pose proof (sd_un H HO s a rest ch un SD e He). lia.
  Qed.

  Lemma sl_height (e : entry) ce pi c0 : In e (forest HO s) -> snd e = Some ce -> occp H ce pi c0 ->
    (length pi <= erow e)%nat.
  Proof.
    intros He Hs Hp. destruct e as [[k lo] t]. cbn [snd] in Hs. subst t.
    apply forest_entry in He as (_ & _ & _ & _ & _ & Ht). symmetry in Ht.
    pose proof (proj2 (compress_wf H HO k _ ce Ht)). pose proof (occp_height H _ _ _ Hp).
    unfold StumpAdd.erow. cbn [fst]. lia.
  Qed.

  (** one addition: every old subtree is in the new forest, at the lifted coordinate *)
  Lemma step_up c0 r0 o0 : locc H HO s c0 r0 o0 ->
    locc H HO s1 c0 (fst (liftc (nones ch) (r0, o0))) (snd (liftc (nones ch) (r0, o0))).
  Proof.
    intros Hl. apply locc_path in Hl as (e & ce & pi & He & Hs & Hp & Hw & Hlen). rewrite <- Hw.
    apply (step_in_forest H HO s a rest ch un e SD) in He. apply in_app_or in He as [He|He].
    - apply in_split in He as (ch1 & ch2 & Ech).
      pose proof (sd_chain H HO s a rest ch un SD) as Hc. rewrite Ech in Hc.
      assert (Hin : forall e', In e' (ch1 ++ e :: ch2) -> In e' (forest HO s))
        by (intros e' He'; apply sl_ch_forest; rewrite Ech; exact He').
      pose proof (chain_coord H HO s n ch1 e ch2 ce pi Hin Hc Hs Hlen) as Ec. rewrite <- Ech in Ec.
      rewrite Ec. apply locc_path.
      exists top, (merge ch (CLeaf a)), (repeat true (somes ch2) ++ false :: pi).
      split; [exact sl_top|]. split; [reflexivity|].
      split; [|split; [rewrite sl_top_coord; apply surjective_pairing|]].
      + rewrite Ech, merge_app. change (merge (e :: ch2) ?c) with (merge ch2 (mstep H HO c e)).
        unfold mstep at 1. rewrite Hs.
        eapply occp_trans; [apply merge_path|]. apply occp_l. exact Hp.
      + unfold StumpAdd.erow. cbn [fst]. rewrite app_length. cbn [length].
        rewrite Ech, app_length. cbn [length].
        pose proof (somes_le H ch2).
        pose proof (proj1 (chain_at_app H n ch1 0 (e :: ch2)) Hc) as [_ (Hr & _)]. cbn [Nat.add] in Hr.
        rewrite repeat_length. lia.
    - rewrite (sl_un_fixed e pi He Hlen). apply locc_path. exists e, ce, pi.
      split; [apply (step_in_forest' H HO s a rest ch un e SD); right; exact He|].
      split; [exact Hs|]. split; [exact Hp|]. split; [apply surjective_pairing|exact Hlen].
  Qed.

  (** ... and every subtree of the new forest holds the new leaf or is a lifted old one *)
  Lemma step_down c0 r1 o1 : locc H HO s1 c0 r1 o1 ->
    In a (cleaves H c0) \/
    exists r0 o0, locc H HO s c0 r0 o0 /\ liftc (nones ch) (r0, o0) = (r1, o1).
  Proof.
    intros Hl. apply locc_path in Hl as (e & ce & Pi & He & Hs & Hp & Hw & Hlen).
    apply (step_in_forest' H HO s a rest ch un e SD) in He. destruct He as [->|He].
    - cbn [snd] in Hs. injection Hs as <-. rewrite sl_top_coord in Hw.
      destruct (merge_occp_inv ch (CLeaf a) Pi c0 Hp)
        as [Hi|[(pi & -> & Hp')|(ch1 & e & ch2 & ce & pi & Ech & Hse & -> & Hp')]].
      + left. apply Hi. left. reflexivity.
      + left. apply occp_leaf_inv in Hp' as [_ ->]. left. reflexivity.
      + right. assert (He : In e (forest HO s)) by (apply sl_ch_forest; rewrite Ech; apply in_or_app; right; left; reflexivity).
        pose proof (sl_height e ce pi c0 He Hse Hp') as Hl.
        exists (fst (walk (ecoord e) pi)), (snd (walk (ecoord e) pi)). split.
        * apply locc_path. exists e, ce, pi. split; [exact He|]. split; [exact Hse|]. split; [exact Hp'|].
          split; [apply surjective_pairing|exact Hl].
        * rewrite <- surjective_pairing.
          pose proof (sd_chain H HO s a rest ch un SD) as Hc. rewrite Ech in Hc.
          assert (Hin : forall e', In e' (ch1 ++ e :: ch2) -> In e' (forest HO s))
            by (intros e' He'; apply sl_ch_forest; rewrite Ech; exact He').
          pose proof (chain_coord H HO s n ch1 e ch2 ce pi Hin Hc Hse Hl) as Ec. rewrite <- Ech in Ec.
          rewrite Ec. exact Hw.
    - right. exists (fst (walk (ecoord e) Pi)), (snd (walk (ecoord e) Pi)). split.
      + apply locc_path. exists e, ce, Pi. split; [exact (sl_un_forest e He)|]. split; [exact Hs|].
        split; [exact Hp|]. split; [apply surjective_pairing|exact Hlen].
      + rewrite <- surjective_pairing, (sl_un_fixed e Pi He Hlen). exact Hw.
  Qed.
End StepLift2.

(** every old subtree after a run of additions: the coordinates lifted over all destroyed roots *)
Lemma lift_adds {H} (HO : ops H) : forall (adds : list H) (s : slots H),
  N.of_nat (length s + length adds) <= 2 ^ 63 ->
  (forall c0 r0 o0, locc H HO s c0 r0 o0 ->
     locc H HO (s ++ map Some adds) c0 (fst (liftc (to_destroy_c H HO s adds) (r0, o0)))
                                     (snd (liftc (to_destroy_c H HO s adds) (r0, o0)))) /\
  (forall c0 r1 o1, locc H HO (s ++ map Some adds) c0 r1 o1 ->
     (exists a, In a adds /\ In a (cleaves H c0)) \/
     exists r0 o0, locc H HO s c0 r0 o0 /\ liftc (to_destroy_c H HO s adds) (r0, o0) = (r1, o1)).
Proof.
  induction adds as [|a adds IH]; intros s Hb.
  - cbn [map to_destroy_c]. rewrite app_nil_r. split.
    + intros c0 r0 o0 Hl. exact Hl.
    + intros c0 r1 o1 Hl. right. exists r1, o1. split; [exact Hl|reflexivity].
  - cbn [length] in Hb.
    destruct (step_data_ex H HO s a adds ltac:(lia)) as (ch & un & SD).
    rewrite (sd_dest H HO s a adds ch un SD).
    assert (Hb' : N.of_nat (length (s ++ [Some a]) + length adds) <= 2 ^ 63)
      by (rewrite app_length; cbn [length]; lia).
    destruct (IH (s ++ [Some a]) Hb') as [I1 I2].
    replace (s ++ map Some (a :: adds)) with ((s ++ [Some a]) ++ map Some adds)
      by (rewrite <- app_assoc; reflexivity).
    split.
    + intros c0 r0 o0 Hl. rewrite liftc_app.
      pose proof (step_up H HO s a adds ch un SD c0 r0 o0 Hl) as Hs.
      specialize (I1 _ _ _ Hs). rewrite <- surjective_pairing in I1. exact I1.
    + intros c0 r1 o1 Hl. destruct (I2 c0 r1 o1 Hl) as [(b & Hb1 & Hb2)|(r' & o' & Hl' & El)].
      * left. exists b. split; [right; exact Hb1|exact Hb2].
      * destruct (step_down H HO s a adds ch un SD c0 r' o' Hl') as [Ha|(r0 & o0 & Hl0 & E0)].
        -- left. exists a. split; [left; reflexivity|exact Ha].
        -- right. exists r0, o0. split; [exact Hl0|]. rewrite liftc_app, E0. exact El.
Qed.

(** * The destroyed roots are well placed in the final forest *)

Lemma chain_ones {H} n : forall (ch : list (StumpAdd.entry H)) h, chain_at H n h ch ->
  n mod p2 h = p2 h - 1 ->
  forall e, In e ch -> n mod p2 (S (StumpAdd.erow H e)) = p2 (S (StumpAdd.erow H e)) - 1.
Proof.
  induction ch as [|e0 ch IH]; intros h Hc Hm e He; [destruct He|].
  destruct Hc as (Hr & _ & Hb & Hc).
  assert (E : n mod p2 (S h) = p2 (S h) - 1).
  { rewrite p2_S. rewrite (N.mul_comm 2 (p2 h)), N.mod_mul_r by (try (apply N.neq_0_lt_0, p2_pos); lia).
    unfold StumpAdd.bit in Hb. pose proof (N.testbit_spec' n (N.of_nat h)) as Hs. rewrite Hb in Hs.
    cbn [N.b2n] in Hs. fold (p2 h) in Hs. rewrite <- Hs, Hm. pose proof (p2_pos h). lia. }
  destruct He as [<-|He]; [rewrite Hr; exact E|]. exact (IH (S h) Hc E e He).
Qed.

Lemma pf_ok_all {H} (HO : ops H) : forall (adds : list H) (s : slots H),
  N.of_nat (length s + length adds) <= 2 ^ 63 ->
  forall d, In d (to_destroy_c H HO s adds) -> pf_ok (N.of_nat (length s + length adds)) d.
Proof.
  induction adds as [|a adds IH]; intros s Hb d Hd; [destruct Hd|].
  cbn [length] in Hb.
  destruct (step_data_ex H HO s a adds ltac:(lia)) as (ch & un & SD).
  rewrite (sd_dest H HO s a adds ch un SD) in Hd. apply in_app_or in Hd as [Hd|Hd].
  - apply nones_in in Hd as (e & He & _ & ->).
    pose proof (sd_chain H HO s a adds ch un SD) as Hc.
    assert (Hm0 : num_leaves s mod p2 0 = p2 0 - 1) by (rewrite p2_0, N.mod_1_r; reflexivity).
    pose proof (chain_ones (num_leaves s) ch 0%nat Hc Hm0 e He) as Hones.
    assert (Hlo : elo H e = 2 * (num_leaves s / p2 (S (StumpAdd.erow H e))) * p2 (StumpAdd.erow H e)).
    { clear - Hc He. revert Hc. generalize 0%nat. induction ch as [|e0 ch IH]; intros h Hc; [destruct He|].
      destruct Hc as (Hr & Hl & _ & Hc). destruct He as [<-|He]; [rewrite Hr; exact Hl|exact (IH He _ Hc)]. }
    unfold pf_ok, ecoord. cbn [fst snd]. set (h := StumpAdd.erow H e) in *.
    rewrite Hlo. fold (p2 h). rewrite N.div_mul by (apply N.neq_0_lt_0, p2_pos).
    rewrite (N.mul_comm 2 (num_leaves s / p2 (S h))), N.div_mul by lia.
    replace (2 ^ (N.of_nat h + 1)) with (p2 (S h)) by (unfold p2; f_equal; lia).
    pose proof (N.div_mod (num_leaves s) (p2 (S h)) (proj2 (N.neq_0_lt_0 _) (p2_pos _))) as Hdm.
    rewrite Hones in Hdm. pose proof (p2_pos (S h)) as Hp. unfold num_leaves in *.
    revert Hdm Hp. generalize (N.of_nat (length s) / p2 (S h)), (p2 (S h)). intros q P Hdm Hp.
    cbn [length]. clear - Hdm Hp. nia.
  - assert (Hb' : N.of_nat (length (s ++ [Some a]) + length adds) <= 2 ^ 63)
      by (rewrite app_length; cbn [length]; lia).
    pose proof (IH (s ++ [Some a]) Hb' d Hd) as Hp.
    rewrite app_length in Hp. cbn [length] in *.
    replace (length s + S (length adds))%nat with (length s + 1 + length adds)%nat by lia. exact Hp.
Qed.

(** a subtree occurs once in a forest with distinct live leaves *)
Lemma walk_inj pi : forall Y Y', (length pi <= fst Y)%nat -> (length pi <= fst Y')%nat ->
  walk Y pi = walk Y' pi -> Y = Y'.
Proof.
  intros Y Y' Hl Hl' E. destruct (walk_coord pi Y Hl) as [A1 A2].
  destruct (walk_coord pi Y' Hl') as [B1 B2]. rewrite E in A1, A2.
  destruct Y, Y'. cbn [fst snd] in *. f_equal; [lia|congruence].
Qed.

Lemma occp_some_leaf {H} (c : ctree H) : exists pi h, occp H c pi (CLeaf h).
Proof.
  induction c as [h|h l [pi [x IHl]] r _].
  - exists [], h. constructor.
  - exists (false :: pi), x. constructor. exact IHl.
Qed.

Lemma locc_once {H} (HO : ops H) (s : slots H) c r1 o1 r2 o2 : NoDup (live s) ->
  locc H HO s c r1 o1 -> locc H HO s c r2 o2 -> (r1, o1) = (r2, o2).
Proof.
  intros Hnd L1 L2. destruct (occp_some_leaf c) as (pi & h & Hp).
  pose proof (locc_height H HO s _ _ _ L1) as H1. pose proof (locc_height H HO s _ _ _ L2) as H2.
  pose proof (occp_height H _ _ _ Hp) as Hh. cbn [cheight] in Hh.
  assert (G : forall r o, locc H HO s c r o -> (length pi <= r)%nat ->
            exists x, In x (layout HO s) /\ nleaf x = true /\ nhash x = h /\
                      (nrow x, noff x) = walk (r, o) pi).
  { intros r o (k & lo & cT & He & Ho) Hl.
    pose proof (path_occ H c pi (CLeaf h) Hp (r, o) Hl) as Ho2. cbn [fst snd] in Ho2.
    pose proof (occ_trans H _ _ _ _ _ _ _ _ _ Ho Ho2) as HoT.
    destruct (locc_entry_node H HO s _ _ _ _ _ _ He HoT) as (x & _ & Hx & Xr & Xo & Xh & Xl & _).
    exists x. split; [exact Hx|]. split; [exact Xl|]. split; [exact Xh|].
    rewrite Xr, Xo. symmetry. apply surjective_pairing. }
  destruct (G r1 o1 L1 ltac:(lia)) as (x1 & X1 & Xl1 & Xh1 & Xc1).
  destruct (G r2 o2 L2 ltac:(lia)) as (x2 & X2 & Xl2 & Xh2 & Xc2).
  assert (E : x1 = x2) by (apply (live_leaf_unique H HO s x1 x2 Hnd X1 X2 Xl1 Xl2); congruence).
  subst x2. apply (walk_inj pi); cbn [fst]; [lia|lia|congruence].
Qed.

(** * [updateProofAdd] in general, on graphs of the valuation of the new state *)

Lemma fold_left_pair {A B C} (f : C -> A -> A) (g : C -> B -> B) (l : list C) : forall a b,
  fold_left (fun acc d => (f d (fst acc), g d (snd acc))) l (a, b)
  = (fold_left (fun x d => f d x) l a, fold_left (fun x d => g d x) l b).
Proof. induction l as [|d l IH]; intros a b; [reflexivity|]. cbn [fold_left fst snd]. apply IH. Qed.

Section UpaGraph2.
  Variable H : Type.
  Variable HO : ops H.
  Variable F : N -> H.
  Local Notation gr := (gr H F).

  Theorem pu_updateProofAdd_graph2 (n : N) (adds : list H) (rem : list N) (TC PC : list crd)
          (hT hP : list H) (DD T2 P2 NN comp needed comp' : list N) :
    let k := N.of_nat (length adds) in
    let total := TreeRows n in
    let total' := TreeRows (n + k) in
    let NM := mergeSortedSlices NN P2 in
    let RP := filter (fun p => mem_hash HO (F p) (pick adds rem)) NM in
    let T3 := mergeSortedSlices RP T2 in
    n + k <= 2 ^ 63 ->
    (forall c, In c TC -> vld total c) -> (forall c, In c PC -> vld total c) ->
    SSlt (map (g total) TC) -> SSlt (map (g total) PC) ->
    length TC = length hT -> length PC = length hP ->
    ProofPositions_fast (map (g total) TC) n total = (map (g total) PC, comp) ->
    fold_left (fun acc del => getNewPositions HO [del] acc (n + k) true) DD
              (zip_hp (map (g total') TC) hT) = gr T2 ->
    fold_left (fun acc del => getNewPositions HO [del] acc (n + k) true) DD
              (zip_hp (map (g total') PC) hP) = gr P2 ->
    SSlt T2 -> SSlt P2 -> SSlt NN -> SSlt rem ->
    ProofPositions_fast T3 (n + k) total' = (needed, comp') -> SSlt needed ->
    (forall p, In p needed -> In p NM) ->
    updateProofAdd HO (map (g total) TC) hP adds hT rem (gr NN) n DD
    = Some (map F T3, T3, map F needed).
  Proof.
    intros k total total' NM RP T3 Hb HvT HvP HsT HsP ElT ElP Epp HmT HmP HsT2 HsP2 HsN Hsr Epp' Hsn Hsub.
    destruct (mergeSortedSlices_spec NN P2 HsN HsP2) as [HsNM _]. fold NM in HsNM.
    assert (HsRP : SSlt RP) by (apply po_filter_SS, HsNM).
    unfold updateProofAdd.
    rewrite (pu_toHP H (map (g total) TC) hT) by (try assumption; rewrite map_length; exact ElT).
    unfold positions at 1.
    rewrite (pu_zip_fst (map (g total) TC) hT) by (rewrite map_length; exact ElT).
    fold total. rewrite Epp.
    rewrite (pu_toHP H (map (g total) PC) hP) by (try assumption; rewrite map_length; exact ElP).
    cbv zeta. fold k. rewrite (pu_add64_small n k Hb).
    unfold total. rewrite !pu_maybeRemap_zip by assumption. fold total total'.
    rewrite (fold_left_pair (fun del acc => getNewPositions HO [del] acc (n + k) true)
                            (fun del acc => getNewPositions HO [del] acc (n + k) true)).
    cbn [fst snd]. rewrite HmT, HmP.
    rewrite (po_merge_gr H F NN P2 HsN HsP2). fold NM.
    rewrite (remembered_pick _ 0 adds rem Hsr) by lia. fold (pick adds rem).
    rewrite pu_hash_subset_gr. fold RP.
    rewrite (po_merge_gr H F RP T2 HsRP HsT2). fold T3.
    unfold positions. rewrite po_gr_fst. fold total'. rewrite Epp'.
    rewrite (pu_upa_needed_gr H F needed NM Hsn HsNM).
    rewrite (po_filter_all (fun p => memN p NM) needed)
      by (intros p Hp; apply RefTheory.memN_In, Hsub, Hp).
    rewrite pu_sortK_sorted_id by (rewrite po_gr_fst; exact Hsn).
    unfold hashes. rewrite !po_gr_snd. reflexivity.
  Qed.
End UpaGraph2.


(** * G1: addition-only blocks on any forest *)

Section AddGen.
  Variable H : Type.
  Variable HO : ops H.
  Hypothesis HOK : ops_ok HO.
  Hypothesis hash_nz : forall a b, NZ HO (op_hash2 HO a b).
  Variable s : slots H.
  Variable adds : list H.
  Hypothesis Hlive_nz : forall h, In (Some h) s -> NZ HO h.
  Hypothesis Hb : N.of_nat (length s + length adds) <= 2 ^ 63.

  Local Notation s' := (s ++ map Some adds).
  Hypothesis Hnd' : NoDup (live s').

  Local Notation n := (N.of_nat (length s)).
  Local Notation n' := (N.of_nat (length s')).
  Local Notation k := (N.of_nat (length adds)).
  Local Notation total := (TreeRows (N.of_nat (length s))).
  Local Notation total' := (TreeRows (N.of_nat (length s'))).
  Local Notation R := (rows_of (num_leaves s)).
  Local Notation R' := (rows_of (num_leaves s')).
  Local Notation lay := (layout HO s).
  Local Notation lay' := (layout HO s').
  Local Notation F := (Fv H HO s).
  Local Notation F' := (Fv H HO s').
  Local Notation D := (to_destroy_c H HO s adds).

  Lemma ag_n63 : n <= 2 ^ 63. Proof. lia. Qed.
  Lemma ag_len' : n' = n + k.
  Proof. rewrite app_length, map_length. lia. Qed.
  Lemma ag_n63' : n' <= 2 ^ 63. Proof. rewrite ag_len'. lia. Qed.
  Lemma ag_R63 : (R' <= 63)%nat. Proof. apply rows_of_le_63. exact ag_n63'. Qed.
  Lemma ag_ER : N.of_nat R' = total'. Proof. apply rf_R_total. Qed.

  Lemma ag_live' : live s' = live s ++ adds.
  Proof. rewrite live_app, live_map_some. reflexivity. Qed.
  Lemma ag_nd : NoDup (live s).
  Proof. pose proof Hnd' as Hx. rewrite ag_live' in Hx. exact (proj1 (NoDup_app_inv _ _ _ Hx)). Qed.
  Lemma ag_adds_nd : NoDup adds.
  Proof. pose proof Hnd' as Hx. rewrite ag_live' in Hx. exact (proj1 (proj2 (NoDup_app_inv _ _ _ Hx))). Qed.
  Lemma ag_fresh a : In a adds -> ~ In (Some a) s.
  Proof.
    intros Ha Hs. pose proof Hnd' as Hx. rewrite ag_live' in Hx.
    apply (proj2 (proj2 (NoDup_app_inv _ _ _ Hx)) a); [apply live_in; exact Hs|exact Ha].
  Qed.
  Lemma ag_in' h : In (Some h) s' <-> In (Some h) s \/ In h adds.
  Proof.
    rewrite in_app_iff, in_map_iff. split; intros [A|B]; auto.
    - destruct B as (x & E & Hx). injection E as ->. auto.
    - right. exists h. auto.
  Qed.

  Lemma ag_up c0 r0 o0 : locc H HO s c0 r0 o0 ->
    locc H HO s' c0 (fst (liftc D (r0, o0))) (snd (liftc D (r0, o0))).
  Proof. exact (proj1 (lift_adds HO adds s Hb) c0 r0 o0). Qed.
  Lemma ag_down c0 r1 o1 : locc H HO s' c0 r1 o1 ->
    (exists a, In a adds /\ In a (cleaves H c0)) \/
    exists r0 o0, locc H HO s c0 r0 o0 /\ liftc D (r0, o0) = (r1, o1).
  Proof. exact (proj2 (lift_adds HO adds s Hb) c0 r1 o1). Qed.

  Lemma ag_dok d : In d D -> dok R' n' d.
  Proof.
    intros Hd. pose proof ag_R63 as HR.
    assert (Hbb : N.of_nat (length s + length adds) <= 2 ^ N.of_nat R').
    { pose proof (rows_of_upper (num_leaves s')) as Hu. unfold num_leaves in Hu at 1.
      rewrite app_length, map_length in Hu. exact Hu. }
    destruct (to_destroy_struct H HO hash_nz R' HR adds s Hbb) as [_ Hm].
    destruct (Hm d Hd) as [(e & He & _ & ->) Hlt]. split; [exact Hlt|]. split.
    - apply (ecoord_valid H HO R' s e); [|exact He].
      eapply N.le_trans; [|exact Hbb]. lia.
    - pose proof (pf_ok_all HO adds s Hb _ Hd) as Hp.
      replace n' with (N.of_nat (length s + length adds)) by (rewrite app_length, map_length; reflexivity).
      exact Hp.
  Qed.

  Lemma ag_cpos (x : coord) : cpos R' x = pos R' (fst x) (snd x).
  Proof. reflexivity. Qed.

  (** the coordinate of an old occurrence is valid and in the new forest *)
  Lemma ag_cok c0 r0 o0 : locc H HO s c0 r0 o0 ->
    cvalid R' (r0, o0) /\ cinf n' (r0, o0) /\ NZ HO (chash c0).
  Proof.
    intros Hl. destruct (locc_node H HO s c0 r0 o0 Hl) as (x & Hx & Xr & Xo & _).
    pose proof (layout_coords_valid H HO s x Hx) as Hv. rewrite Xr, Xo in Hv.
    assert (Hcinf : cinf n' (r0, o0)).
    { unfold cinf. cbn [fst snd]. rewrite ag_len'. lia. }
    split; [|split; [exact Hcinf|exact (locc_nz H HO s c0 r0 o0 hash_nz Hlive_nz Hl)]].
    pose proof (pps_in_forest_valid n' total' (N.of_nat r0) o0 (TreeRows_upper n')) as Hpv.
    unfold in_forest in Hpv. specialize (Hpv (proj2 (N.leb_le _ _) Hcinf)).
    unfold cvalid. cbn [fst snd]. rewrite ag_ER. destruct Hpv as [P1 P2]. split; [|exact P2].
    rewrite <- ag_ER in P1. lia.
  Qed.

  (** the lists of [updateProofAdd] after the empty roots are written over *)
  Lemma ag_moved (X : list (coord * H)) :
    (forall e, In e X -> exists c0, locc H HO s c0 (fst (fst e)) (snd (fst e)) /\ snd e = chash c0) ->
    NoDup (map fst X) -> SSle (map (fun e => cpos R' (fst e)) X) ->
    exists T2,
      fold_left (fun acc del => getNewPositions HO [del] acc n' true) (map (cpos R') D)
                (map (cposh H R') X) = gr H F' T2 /\
      SSlt T2 /\
      (forall p, In p T2 <-> exists e, In e X /\ p = cpos R' (liftc D (fst e))).
  Proof.
    intros HX Hnd Hs.
    assert (Hok : forall e, In e X -> cok H HO R' n' e).
    { intros e He. destruct (HX e He) as (c0 & Hl & Eh). destruct e as [[r0 o0] h]. cbn [fst snd] in *.
      destruct (ag_cok c0 r0 o0 Hl) as (A & B & C). unfold cok. cbn [fst snd]. rewrite Eh. auto. }
    destruct (pu_moved H HO R' n' ag_R63 ag_n63' ag_ER D (map (cposh H R') X) X
                (fun d Hd => ag_dok d Hd) Hok (Permutation_refl _)) as [Pm Sm].
    { rewrite map_map. exact Hs. }
    cbv zeta in Pm, Sm.
    set (res := fold_left (fun acc del => getNewPositions HO [del] acc n' true) (map (cpos R') D)
                          (map (cposh H R') X)) in *.
    set (M := map (fun e : coord * H => cposh H R' (liftc D (fst e), snd e)) X) in *.
    (* the lifted list is a graph of the new valuation with distinct keys *)
    assert (HM : forall e, In e X -> exists c0, locc H HO s c0 (fst (fst e)) (snd (fst e)) /\
                   locc H HO s' c0 (fst (liftc D (fst e))) (snd (liftc D (fst e))) /\
                   snd e = chash c0).
    { intros e He. destruct (HX e He) as (c0 & Hl & Eh). exists c0. split; [exact Hl|]. split; [|exact Eh].
      pose proof (ag_up c0 _ _ Hl) as Hu. rewrite <- surjective_pairing in Hu. exact Hu. }
    assert (GM : graph H F' M).
    { intros e He. unfold M in He. apply in_map_iff in He as (e0 & <- & He0).
      destruct (HM e0 He0) as (c0 & _ & Hl' & Eh). unfold cposh. cbn [fst snd].
      rewrite Eh. symmetry. exact (locc_val H HO s' c0 _ _ Hl'). }
    assert (NM : NoDup (map fst M)).
    { unfold M. rewrite map_map. cbn [cposh fst].
      apply (RefTheory.NoDup_map_inj_on (fun e : coord * H => cpos R' (liftc D (fst e)))).
      - exact (NoDup_map_inv _ _ Hnd).
      - intros e1 e2 He1 He2 Ep.
        destruct (HM e1 He1) as (c1 & L1 & L1' & Eh1). destruct (HM e2 He2) as (c2 & L2 & L2' & Eh2).
        assert (Ey : liftc D (fst e1) = liftc D (fst e2)).
        { destruct (locc_node H HO s' c1 _ _ L1') as (y1 & Y1 & Yr1 & Yo1 & _).
          destruct (locc_node H HO s' c2 _ _ L2') as (y2 & Y2 & Yr2 & Yo2 & _).
          assert (Ey12 : y1 = y2).
          { apply (RefTheory.layout_npos_inj H HO s' y1 y2 Y1 Y2). unfold npos.
            rewrite Yr1, Yo1, Yr2, Yo2. exact Ep. }
          subst y2. rewrite (surjective_pairing (liftc D (fst e1))), (surjective_pairing (liftc D (fst e2))).
          congruence. }
        rewrite Ey in L1'. pose proof (locc_uniq H HO s' _ _ _ _ L1' L2') as Ec. subst c2.
        pose proof (locc_once HO s c1 _ _ _ _ ag_nd L1 L2) as Ex.
        rewrite <- !surjective_pairing in Ex.
        destruct e1 as [x1 h1], e2 as [x2 h2]. cbn [fst snd] in *. congruence. }
    assert (Gres : graph H F' res).
    { intros e He. apply GM. exact (Permutation_in _ Pm He). }
    assert (Nres : NoDup (map fst res)).
    { eapply Permutation_NoDup; [|exact NM]. apply Permutation_map, Permutation_sym, Pm. }
    exists (map fst res). split; [exact (po_graph_eq H F' res Gres)|].
    split; [apply pps_SSle_NoDup_SSlt; assumption|].
    intros p. split.
    - intros Hp. apply in_map_iff in Hp as (e & <- & He). apply (Permutation_in _ Pm) in He.
      unfold M in He. apply in_map_iff in He as (e0 & <- & He0). exists e0. split; [exact He0|reflexivity].
    - intros (e0 & He0 & ->). apply in_map_iff. exists (cposh H R' (liftc D (fst e0), snd e0)).
      split; [reflexivity|]. apply (Permutation_in _ (Permutation_sym Pm)).
      unfold M. apply in_map_iff. exists e0. auto.
  Qed.

  Variable C : list H.
  Variable rem : list N.
  Hypothesis HC : NoDup C.
  Hypothesis Hrem : SSlt rem.
  (** no inner node of the new forest carries the hash of a remembered addition *)
  Hypothesis Hcol : forall x, In x lay' -> nleaf x = false -> ~ In (nhash x) (pick adds rem).

  Variables (hC : list H) (tC : list N) (pC : list H).
  Hypothesis E : exp_cached HO (mk_ctx HO s) C = Some (hC, tC, pC).

  (** the two halves of [Proof.Update]: without deletions the remove part changes nothing; the
      add part computes the expected cached proof of the new state *)
  Lemma ag_both :
    updateProofRemove HO tC pC [] hC [] (num_leaves s) = Some (hC, tC, pC) /\
    (updateProofAdd HO tC pC adds hC rem (new_add HO s' adds) (num_leaves s)
                    (to_destroy HO R' s adds)
     = exp_cached HO (mk_ctx HO s') (C ++ pick adds rem) /\
     exp_cached HO (mk_ctx HO s') (C ++ pick adds rem) <> None).
  Proof.
    pose proof ag_n63 as Hn63. pose proof ag_n63' as Hn63'. pose proof ag_nd as Hnd.
    pose proof (pu_nle n) as Hnle. pose proof (pu_t63 n Hn63) as Ht63.
    (* the cached set before the block *)
    unfold exp_cached in E. cbn [mk_ctx clay crows] in E.
    destruct (find_leaves HO lay C) as [tsC|] eqn:FC; [|discriminate].
    fold (sort_nodes H s tsC) in E. injection E as <- <- <-.
    destruct (cc_find_leaves_facts HO s C tsC HOK HC FC) as (LC & FlC & NtC & EhC & InC).
    set (sorted := sort_nodes H s tsC).
    pose proof (po_sort_nodes_perm H s tsC) as Psort. fold sorted in Psort.
    assert (LS : forall x, In x sorted -> In x lay)
      by (intros x Hx; apply LC; exact (Permutation_in _ Psort Hx)).
    assert (FlS : forall x, In x sorted -> nleaf x = true)
      by (intros x Hx; apply FlC; exact (Permutation_in _ Psort Hx)).
    assert (NtS : NoDup sorted) by (exact (Permutation_NoDup (Permutation_sym Psort) NtC)).
    assert (HsT : SSlt (map (npos R) sorted)).
    { unfold sorted. rewrite (po_sort_nodes_pos H HO s tsC LC NtC).
      apply pps_sortN_NoDup_SSlt, (po_targets_NoDup H HO s tsC LC NtC). }
    assert (Epp : ProofPositions_fast (map (npos R) sorted) n total
                  = (canon_proof_pos R lay sorted, computable_pos R lay sorted)).
    { rewrite <- (po_sortN_sorted_id _ HsT) at 1. exact (po_pp_both_fast H HO s Hn63 sorted LS FlS NtS). }
    pose proof (po_canon_pos_SSlt H HO s Hn63 sorted LS) as HsP.
    (* the hashes of the targets *)
    assert (HhS : forall h, In h (map (@nhash H) sorted) <-> In h C).
    { intros h. rewrite <- EhC. split; apply Permutation_in, Permutation_map;
        [exact Psort|exact (Permutation_sym Psort)]. }
    assert (HCs : forall h, In h C -> In (Some h) s).
    { intros h Hh. apply HhS in Hh. apply in_map_iff in Hh as (x & <- & Hx).
      exact (layout_leaf_live H HO s x (LS x Hx) (FlS x Hx)). }
    (* coordinates *)
    set (TC := map (@ncrd H) sorted).
    set (SC := sort_coords R (proof_coords lay sorted)).
    set (PC := map (fun e : N * (nat * N) => cN (snd e)) SC).
    assert (ETC : map (npos R) sorted = map (g total) TC).
    { unfold TC. rewrite map_map. apply map_ext. intros x. apply rf_npos. }
    assert (EPC : canon_proof_pos R lay sorted = map (g total) PC).
    { unfold canon_proof_pos, PC. fold SC. rewrite map_map. apply map_ext_in. intros e He.
      apply RefTheory.sort_coords_In in He as (c & _ & ->). cbn [fst snd]. apply po_pos_g. }
    assert (HvT : forall c, In c TC -> vld total c).
    { intros c Hc. apply in_map_iff in Hc as (x & <- & Hx). exact (rf_node_vld H HO s x (LS x Hx)). }
    assert (HvP : forall c, In c PC -> vld total c).
    { intros c Hc. apply in_map_iff in Hc as (e & <- & He).
      apply RefTheory.sort_coords_In in He as (d & Hd & ->). cbn [snd].
      apply (po_is_node_vld H HO s d), (po_proof_coord_is_node H HO s Hn63 sorted LS d Hd). }
    (* every old proof position is a child of an inner occurrence *)
    assert (HPocc : forall c, In c PC -> exists c0 r0 o0,
               c = cN (r0, o0) /\ locc H HO s c0 r0 o0 /\
               exists y, In y lay /\ ncrd y = c /\ nhash y = chash c0 /\ nroot y = false).
    { intros c Hc. pose proof (HvP c Hc) as Hv.
      assert (Hp : In (g total c) (canon_proof_pos R lay sorted)) by (rewrite EPC; apply in_map, Hc).
      apply (canon_pos_occ H HO s Hn63 Hnd sorted LS FlS _) in Hp
        as (h & l & rr & r & o & Hlp & Hcase).
      assert (Hgen : forall c0 o0, (c0 = l /\ o0 = 2 * o) \/ (c0 = rr /\ o0 = 2 * o + 1) ->
                       g total c = pos R r o0 ->
                       exists c1 r1 o1, c = cN (r1, o1) /\ locc H HO s c1 r1 o1 /\
                         exists y, In y lay /\ ncrd y = c /\ nhash y = chash c1 /\ nroot y = false).
      { intros c0 o0 Hc0 Eg.
        destruct (locc_child_node H HO s h l rr r o Hlp c0 o0 Hc0) as (y & Hy & Yr & Yo & Yh & Ynr & Yl).
        assert (Ec : c = cN (r, o0)).
        { apply (pps_g_inj total); [exact Hv| |rewrite Eg; apply rf_pos_g].
          replace (cN (r, o0)) with (ncrd y) by (unfold ncrd; rewrite Yr, Yo; reflexivity).
          exact (rf_node_vld H HO s y Hy). }
        exists c0, r, o0. split; [exact Ec|]. split; [exact Yl|]. exists y.
        split; [exact Hy|]. split; [unfold ncrd; rewrite Yr, Yo; symmetry; exact Ec|]. auto. }
      destruct Hcase as [(_ & _ & Eg)|(_ & _ & Eg)].
      - apply (Hgen rr (2 * o + 1)); [right; auto|exact Eg].
      - apply (Hgen l (2 * o)); [left; auto|exact Eg]. }
    (* step 1: no deletions *)
    rewrite (to_destroy_coords H HO R' adds s).
    rewrite (po_canon_hashes_Fv H HO s Hn63 sorted LS).
    split.
    { apply (pu_updateProofRemove_nodel H HO _ _ _ n (canon_proof_pos R lay sorted) (computable_pos R lay sorted) Hn63); try assumption.
      - rewrite !map_length. reflexivity.
      - rewrite map_length. reflexivity.
      - intros e He. rewrite pu_zip_map in He. apply in_map_iff in He as (x & <- & Hx).
        exists (ncrd x). cbn [fst snd]. split; [exact (rf_node_inf H HO s x (LS x Hx))|].
        split; [apply rf_npos|]. split; [left; reflexivity|].
        apply Hlive_nz. exact (layout_leaf_live H HO s x (LS x Hx) (FlS x Hx)).
      - intros e He. rewrite po_zip_gr in He. apply in_map_iff in He as (p & <- & Hp).
        cbn [fst snd]. rewrite EPC in Hp. apply in_map_iff in Hp as (c & <- & Hc).
        destruct (HPocc c Hc) as (c0 & r0 & o0 & -> & Hl & y & Hy & Ey & Yh & Ynr).
        exists (cN (r0, o0)). split; [rewrite <- Ey; exact (rf_node_inf H HO s y Hy)|].
        split; [reflexivity|]. split.
        + right. rewrite <- Ey. exact (rf_root_true H HO s y Hy Ynr).
        + rewrite <- (rf_pos_g H s r0 o0), (locc_val H HO s c0 r0 o0 Hl). exact (locc_nz H HO s c0 r0 o0 hash_nz Hlive_nz Hl). }
    (* the cached set after the block *)
    set (C' := C ++ pick adds rem).
    assert (Hpick_adds : forall a, In a (pick adds rem) -> In a adds) by (intros a; apply pick_In).
    assert (HC' : NoDup C').
    { apply NoDup_app_intro; [exact HC|apply pick_from_NoDup, ag_adds_nd|].
      intros h Hh Hp. exact (ag_fresh h (Hpick_adds h Hp) (HCs h Hh)). }
    assert (HC's : forall h, In h C' -> In (Some h) s').
    { intros h Hh. apply ag_in'. apply in_app_or in Hh as [Hh|Hh]; [left; exact (HCs h Hh)|right; exact (Hpick_adds h Hh)]. }
    destruct (po_find_leaves_some H HO s' C') as [tsU FU].
    { intros h Hh. destruct (proj1 (find_leaf_live H HO s' h HOK) (HC's h Hh)) as (x & Ex & _).
      exists x. exact Ex. }
    destruct (cc_find_leaves_facts HO s' C' tsU HOK HC' FU) as (LU & FlU & NtU & EhU & InU).
    set (sortedU := sort_nodes H s' tsU).
    pose proof (po_sort_nodes_perm H s' tsU) as PsortU. fold sortedU in PsortU.
    assert (LSU : forall x, In x sortedU -> In x lay')
      by (intros x Hx; apply LU; exact (Permutation_in _ PsortU Hx)).
    assert (FlSU : forall x, In x sortedU -> nleaf x = true)
      by (intros x Hx; apply FlU; exact (Permutation_in _ PsortU Hx)).
    assert (NtSU : NoDup sortedU) by (exact (Permutation_NoDup (Permutation_sym PsortU) NtU)).
    assert (HhU : forall h, In h (map (@nhash H) sortedU) <-> In h C').
    { intros h. rewrite <- EhU. split; apply Permutation_in, Permutation_map;
        [exact PsortU|exact (Permutation_sym PsortU)]. }
    assert (HinU : forall y, In y lay' -> nleaf y = true -> In (nhash y) C' -> In y sortedU).
    { intros y Hy Hl Hh. apply (Permutation_in _ (Permutation_sym PsortU)). apply InU.
      exists (nhash y). split; [exact Hh|exact (find_leaf_of_node H HO HOK s' y Hnd' Hy Hl)]. }
    assert (HsTU : SSlt (map (npos R') sortedU)).
    { unfold sortedU. rewrite (po_sort_nodes_pos H HO s' tsU LU NtU).
      apply pps_sortN_NoDup_SSlt, (po_targets_NoDup H HO s' tsU LU NtU). }
    unfold exp_cached. cbn [mk_ctx clay crows]. fold C'. rewrite FU. fold sortedU.
    split; [|discriminate].
    (* the lifted coordinates of the old targets and proof positions *)
    assert (Elen : n' = n + k) by exact ag_len'.
    pose proof ag_ER as ER. pose proof ag_R63 as HR63.
    assert (Hmono : total <= total') by (apply pu_TreeRows_mono; rewrite Elen; lia).
    assert (H63' : total' <= 63) by (apply TreeRows_le_63, Hn63').
    set (PCc := map (fun e : N * (nat * N) => snd e) SC).
    assert (EPCc : PC = map cN PCc) by (unfold PC, PCc; rewrite map_map; reflexivity).
    set (XT := map (fun x : node H => ((nrow x, noff x), nhash x)) sorted).
    set (XP := map (fun c : nat * N => (c, F (g total (cN c)))) PCc).
    assert (HXT : forall e, In e XT -> exists c0, locc H HO s c0 (fst (fst e)) (snd (fst e)) /\ snd e = chash c0).
    { intros e He. unfold XT in He. apply in_map_iff in He as (x & <- & Hx). cbn [fst snd].
      destruct (node_locc H HO s x (LS x Hx) (FlS x Hx)) as (k0 & lo & c & He & Ho & _).
      exists (CLeaf (nhash x)). split; [exists k0, lo, c; auto|reflexivity]. }
    assert (HPc : forall c, In c PCc -> In (cN c) PC) by (intros c Hc; rewrite EPCc; apply in_map, Hc).
    assert (HXP : forall e, In e XP -> exists c0, locc H HO s c0 (fst (fst e)) (snd (fst e)) /\ snd e = chash c0).
    { intros e He. unfold XP in He. apply in_map_iff in He as (c & <- & Hc). cbn [fst snd].
      destruct (HPocc (cN c) (HPc c Hc)) as (c0 & r0 & o0 & Ec & Hl & _). apply cN_inj in Ec. subst c.
      exists c0. cbn [fst snd]. split; [exact Hl|].
      rewrite <- (rf_pos_g H s r0 o0). exact (locc_val H HO s c0 r0 o0 Hl). }
    assert (Ecpos : forall c : nat * N, cpos R' c = g total' (cN c)).
    { intros c. rewrite cpos_gpos, ER. reflexivity. }
    assert (EzT : zip_hp (map (g total') TC) (map (@nhash H) sorted) = map (cposh H R') XT).
    { unfold TC, XT. rewrite !map_map, pu_zip_map. apply map_ext. intros x.
      unfold cposh. cbn [fst snd]. rewrite Ecpos. reflexivity. }
    assert (EzP : zip_hp (map (g total') PC) (map F (canon_proof_pos R lay sorted)) = map (cposh H R') XP).
    { rewrite EPC, EPCc. unfold XP. rewrite !map_map, pu_zip_map. apply map_ext. intros c.
      unfold cposh. cbn [fst snd]. rewrite Ecpos. reflexivity. }
    assert (HsT1 : SSlt (map (g total') TC)).
    { apply (pu_SSlt_transfer total total' TC Hmono H63' HvT). rewrite <- ETC. exact HsT. }
    assert (HsP1 : SSlt (map (g total') PC)).
    { apply (pu_SSlt_transfer total total' PC Hmono H63' HvP). rewrite <- EPC. exact HsP. }
    assert (NdT : NoDup (map fst XT)).
    { unfold XT. rewrite map_map. cbn [fst].
      assert (Hn1 : NoDup (map (g total') TC)) by (apply pps_SSlt_NoDup; exact HsT1).
      unfold TC in Hn1. rewrite map_map in Hn1.
      apply (RefTheory.NoDup_map_inj_on (fun x : node H => (nrow x, noff x))); [exact NtS|].
      intros x y Hx Hy Exy. apply (RefTheory.layout_coord_inj H HO s x y (LS x Hx) (LS y Hy)). exact Exy. }
    assert (NdP : NoDup (map fst XP)).
    { unfold XP. rewrite map_map. cbn [fst]. rewrite map_id.
      assert (Hn1 : NoDup (map (g total') PC)) by (apply pps_SSlt_NoDup; exact HsP1).
      rewrite EPCc, map_map in Hn1. exact (NoDup_map_inv _ _ Hn1). }
    destruct (ag_moved XT HXT NdT) as (T2 & HmT & HsT2 & MT2).
    { apply po_SSlt_SSle. unfold XT. rewrite map_map. cbn [fst].
      unfold TC in HsT1. rewrite map_map in HsT1.
      erewrite map_ext; [exact HsT1|]. intros x. apply Ecpos. }
    destruct (ag_moved XP HXP NdP) as (P2 & HmP & HsP2 & MP2).
    { apply po_SSlt_SSle. unfold XP. rewrite map_map. cbn [fst].
      rewrite EPCc, map_map in HsP1. erewrite map_ext; [exact HsP1|]. intros c. apply Ecpos. }
    rewrite <- EzT in HmT. rewrite <- EzP in HmP.
    (* the new nodes *)
    set (NN := map fst (new_add HO s' adds)).
    assert (ENN : new_add HO s' adds = gr H F' NN).
    { apply po_graph_eq. intros e He. destruct (new_add_node H HO adds s' e He) as (z & Hz & ->).
      cbn [fst snd]. symmetry. exact (po_Fv_node H HO s' z Hz). }
    pose proof (new_add_SSlt H HO adds s') as HsNN. fold NN in HsNN.
    destruct (mergeSortedSlices_spec NN P2 HsNN HsP2) as [HsNM MNM].
    set (NM := mergeSortedSlices NN P2) in *.
    set (RP := filter (fun p => mem_hash HO (F' p) (pick adds rem)) NM).
    assert (HsRP : SSlt RP) by (apply po_filter_SS, HsNM).
    destruct (mergeSortedSlices_spec RP T2 HsRP HsT2) as [HsT3 MT3].
    set (T3 := mergeSortedSlices RP T2) in *.
    assert (Hmem : forall h l, mem_hash HO h l = true <-> In h l).
    { intros h l. unfold mem_hash. rewrite existsb_exists. split.
      - intros (x & Hx & Ex). apply HOK in Ex. subst x. exact Hx.
      - intros Hh. exists h. split; [exact Hh|apply HOK; reflexivity]. }
    (* an old occurrence in the new layout *)
    assert (Hnode' : forall c0 r0 o0, locc H HO s c0 r0 o0 ->
              exists z, In z lay' /\ cpos R' (liftc D (r0, o0)) = npos R' z /\ nhash z = chash c0 /\
                        nleaf z = cleafb H c0 /\ (nrow z, noff z) = liftc D (r0, o0)).
    { intros c0 r0 o0 Hl.
      destruct (locc_node H HO s' c0 _ _ (ag_up c0 r0 o0 Hl)) as (z & Hz & Zr & Zo & Zh & Zl).
      exists z. split; [exact Hz|]. split; [unfold npos, cpos; rewrite Zr, Zo; reflexivity|].
      split; [exact Zh|]. split; [exact Zl|]. rewrite Zr, Zo. symmetry. apply surjective_pairing. }
    assert (HNMnode : forall p, In p NM -> exists z, In z lay' /\ p = npos R' z /\ F' p = nhash z).
    { intros p Hp. apply MNM in Hp as [Hp|Hp].
      - unfold NN in Hp. apply in_map_iff in Hp as (e & <- & He).
        destruct (new_add_node H HO adds s' e He) as (z & Hz & ->). cbn [fst].
        exists z. split; [exact Hz|]. split; [reflexivity|exact (po_Fv_node H HO s' z Hz)].
      - apply MP2 in Hp as (e & He & ->). destruct (HXP e He) as (c0 & Hl & _).
        destruct e as [[r0 o0] h0]. cbn [fst snd] in *.
        destruct (Hnode' c0 _ _ Hl) as (z & Hz & Ez & _).
        exists z. split; [exact Hz|]. split; [exact Ez|]. rewrite Ez. exact (po_Fv_node H HO s' z Hz). }
    (* the targets after the block *)
    assert (ET3 : T3 = map (npos R') sortedU).
    { apply pps_SSlt_ext; [exact HsT3|exact HsTU|]. intros p. rewrite MT3. split.
      - intros [Hp|Hp].
        + apply filter_In in Hp as [Hp Hm]. apply Hmem in Hm.
          destruct (HNMnode p Hp) as (z & Hz & -> & Ez). rewrite Ez in Hm.
          apply in_map. apply HinU; [exact Hz| |apply in_or_app; right; exact Hm].
          destruct (nleaf z) eqn:Hl; [reflexivity|]. exfalso. exact (Hcol z Hz Hl Hm).
        + apply MT2 in Hp as (e & He & ->). unfold XT in He. apply in_map_iff in He as (x & <- & Hx).
          cbn [fst].
          destruct (node_locc H HO s x (LS x Hx) (FlS x Hx)) as (k0 & lo & c & He & Ho & _).
          destruct (Hnode' (CLeaf (nhash x)) (nrow x) (noff x) ltac:(exists k0, lo, c; auto)) as (z & Hz & Ez & Zh & Zl & _).
          rewrite Ez. apply in_map. cbn [chash cleafb] in Zh, Zl. apply HinU; [exact Hz|exact Zl|].
          rewrite Zh. apply in_or_app. left. apply HhS. apply in_map, Hx.
      - intros Hp. apply in_map_iff in Hp as (y & <- & Hy).
        pose proof (LSU y Hy) as Hyl. pose proof (FlSU y Hy) as Yl.
        assert (Hh : In (nhash y) C') by (apply HhU; apply in_map, Hy).
        apply in_app_or in Hh as [Hh|Hh].
        + right. apply HhS in Hh. apply in_map_iff in Hh as (x & Ex & Hx).
          destruct (node_locc H HO s x (LS x Hx) (FlS x Hx)) as (k0 & lo & c & He & Ho & _).
          destruct (Hnode' (CLeaf (nhash x)) (nrow x) (noff x) ltac:(exists k0, lo, c; auto)) as (z & Hz & Ez & Zh & Zl & _).
          cbn [chash cleafb] in Zh, Zl.
          assert (Eyy : z = y).
          { apply (live_leaf_unique H HO s' z y Hnd' Hz Hyl Zl Yl). congruence. }
          subst z. apply MT2. exists ((nrow x, noff x), nhash x).
          split; [unfold XT; apply in_map_iff; exists x; auto|]. cbn [fst]. symmetry. exact Ez.
        + left. apply filter_In.
          destruct (node_locc H HO s' y Hyl Yl) as (k0 & lo & c & He & Ho & _).
          assert (Hna : In (pos R' (nrow y) (noff y), nhash y) (new_add HO s' adds)).
          { apply (new_add_leaf H HO HOK adds s' (nhash y) (nrow y) (noff y));
              [exists k0, lo, c; auto|exact (Hpick_adds _ Hh)]. }
          split.
          * apply MNM. left. unfold NN. apply in_map_iff.
            exists (pos R' (nrow y) (noff y), nhash y). split; [reflexivity|exact Hna].
          * apply Hmem. rewrite (po_Fv_node H HO s' y Hyl). exact Hh. }
    (* the proof positions after the block *)
    set (needed := canon_proof_pos R' lay' sortedU).
    assert (Epp' : ProofPositions_fast T3 n' total'
                   = (needed, computable_pos R' lay' sortedU)).
    { rewrite ET3. rewrite <- (po_sortN_sorted_id _ HsTU) at 1.
      exact (po_pp_both_fast H HO s' Hn63' sortedU LSU FlSU NtSU). }
    pose proof (po_canon_pos_SSlt H HO s' Hn63' sortedU LSU) as Hsn. fold needed in Hsn.
    assert (Hfresh_leaf : forall c0 r0 o0 h, locc H HO s c0 r0 o0 -> In h (cleaves H c0) ->
                                        In h C' -> In h C).
    { intros c0 r0 o0 h Hl Hh Hc. apply in_app_or in Hc as [Hc|Hc]; [exact Hc|exfalso].
      exact (ag_fresh h (Hpick_adds h Hc) (locc_leaf_live H HO s c0 r0 o0 h Hl Hh)). }
    assert (Hsub : forall p, In p needed -> In p NM).
    { intros p Hp.
      apply (canon_pos_occ H HO s' Hn63' Hnd' sortedU LSU FlSU) in Hp
        as (h & l & rr & r & o & Hlp & Hcase).
      destruct (has_leaf_in HO adds (CNode h l rr)) eqn:Hin.
      - destruct (new_add_child H HO HOK adds s' h l rr r o Hlp Hin) as [N1 N2].
        apply MNM. left. unfold NN.
        destruct Hcase as [(_ & _ & ->)|(_ & _ & ->)].
        + apply in_map_iff. exists (pos R' r (2 * o + 1), chash rr). split; [reflexivity|exact N2].
        + apply in_map_iff. exists (pos R' r (2 * o), chash l). split; [reflexivity|exact N1].
      - destruct (ag_down _ _ _ Hlp) as [(a & Ha & Hac)|(r0 & o0 & Hold & Elift)].
        { exfalso. assert (Ht : has_leaf_in HO adds (CNode h l rr) = true)
            by (apply (has_leaf_in_iff H HO HOK); exists a; auto). congruence. }
        destruct (locc_child H HO s _ _ _ Hold h l rr eq_refl) as (r1 & Er & Ll & Lr). subst r0.
        destruct (locc_child H HO s' _ _ _ Hlp h l rr eq_refl) as (r1' & Er' & Ll' & Lr').
        injection Er' as <-.
        (* the children keep their places below the lifted parent *)
        assert (Echild : liftc D (r1, 2 * o0) = (r, 2 * o) /\ liftc D (r1, 2 * o0 + 1) = (r, 2 * o + 1)).
        { split.
          - pose proof (ag_up l _ _ Ll) as Hu.
            rewrite (surjective_pairing (liftc D (r1, 2 * o0))).
            exact (locc_once HO s' l _ _ _ _ Hnd' Hu Ll').
          - pose proof (ag_up rr _ _ Lr) as Hu.
            rewrite (surjective_pairing (liftc D (r1, 2 * o0 + 1))).
            exact (locc_once HO s' rr _ _ _ _ Hnd' Hu Lr'). }
        destruct Echild as [El Err].
        assert (Hhit : forall c0 o1, locc H HO s c0 r1 o1 ->
                  (hit H sortedU c0 <-> hit H sorted c0)).
        { intros c0 o1 Hl0. split.
          - intros (y & Hy & Hyc).
            assert (Hc : In (nhash y) C).
            { apply (Hfresh_leaf c0 r1 o1 (nhash y) Hl0 Hyc). apply HhU. apply in_map, Hy. }
            apply HhS in Hc. apply in_map_iff in Hc as (x & Ex & Hx).
            exists x. split; [exact Hx|]. rewrite Ex. exact Hyc.
          - intros (x & Hx & Hxc).
            assert (Hc : In (nhash x) C') by (apply in_or_app; left; apply HhS; apply in_map, Hx).
            apply HhU in Hc. apply in_map_iff in Hc as (y & Ey & Hy).
            exists y. split; [exact Hy|]. rewrite Ey. exact Hxc. }
        apply MNM. right.
        assert (Hgen : forall c0 o1, locc H HO s c0 r1 o1 ->
                         In (pos R r1 o1) (canon_proof_pos R lay sorted) ->
                         In (cpos R' (liftc D (r1, o1))) P2).
        { intros c0 o1 Hl0 Hpo. rewrite EPC in Hpo. apply in_map_iff in Hpo as (c & Ec & Hc).
          assert (Ecc : c = cN (r1, o1)).
          { apply (pps_g_inj total); [exact (HvP c Hc)| |rewrite Ec; apply rf_pos_g].
            destruct (locc_node H HO s c0 r1 o1 Hl0) as (z & Hz & Zr & Zo & _).
            replace (cN (r1, o1)) with (ncrd z) by (unfold ncrd; rewrite Zr, Zo; reflexivity).
            exact (rf_node_vld H HO s z Hz). }
          apply MP2. exists ((r1, o1), F (g total (cN (r1, o1)))). split; [|reflexivity].
          unfold XP. apply in_map_iff. exists (r1, o1). split; [reflexivity|].
          rewrite EPCc, Ecc in Hc. apply in_map_iff in Hc as (c' & Ec' & Hc'). apply cN_inj in Ec'.
          subst c'. exact Hc'. }
        destruct Hcase as [(Hl & Hnr & ->)|(Hr & Hnl & ->)].
        + change (pos R' r (2 * o + 1)) with (cpos R' (r, 2 * o + 1)). rewrite <- Err.
          apply (Hgen rr _ Lr). apply (canon_pos_occ H HO s Hn63 Hnd sorted LS FlS).
          exists h, l, rr, r1, o0. split; [exact Hold|]. left.
          split; [apply (Hhit l (2 * o0) Ll), Hl|]. split; [|reflexivity].
          intros Hx. apply Hnr. apply (Hhit rr (2 * o0 + 1) Lr), Hx.
        + change (pos R' r (2 * o)) with (cpos R' (r, 2 * o)). rewrite <- El.
          apply (Hgen l _ Ll). apply (canon_pos_occ H HO s Hn63 Hnd sorted LS FlS).
          exists h, l, rr, r1, o0. split; [exact Hold|]. right.
          split; [apply (Hhit rr (2 * o0 + 1) Lr), Hr|]. split; [|reflexivity].
          intros Hx. apply Hnl. apply (Hhit l (2 * o0) Ll), Hx. }
    (* the mirror of [updateProofAdd] on these graphs *)
    rewrite ENN, ETC.
    pose proof (pu_updateProofAdd_graph2 H HO F' n adds rem TC PC (map (@nhash H) sorted)
                  (map F (canon_proof_pos R lay sorted)) (map (cpos R') D) T2 P2 NN
                  (computable_pos R lay sorted) needed (computable_pos R' lay' sortedU)) as G.
    cbv zeta in G. rewrite <- Elen in G.
    specialize (G Hn63' HvT HvP).
    rewrite <- ETC, <- EPC in G. specialize (G HsT HsP).
    assert (ElT : length TC = length (map (@nhash H) sorted)) by (unfold TC; rewrite !map_length; reflexivity).
    assert (ElP : length PC = length (map F (canon_proof_pos R lay sorted)))
      by (rewrite EPC, !map_length; reflexivity).
    specialize (G ElT ElP Epp HmT HmP HsT2 HsP2 HsNN Hrem Epp' Hsn Hsub).
    rewrite ETC in G.
    refine (eq_trans G _).
    change (Some (map F' T3, T3, map F' needed)
            = Some (map (@nhash H) sortedU, map (npos R') sortedU,
                    canon_proof_hashes HO R' lay' sortedU)).
    rewrite ET3. unfold needed.
    rewrite <- (po_hashes_Fv H HO s' sortedU LSU).
    rewrite <- (po_canon_hashes_Fv H HO s' Hn63' sortedU LSU). reflexivity.
  Qed.

  (** G1: an addition-only block, on any forest (empty roots may be written over, the forest may
      grow a row) *)
  Theorem proof_update_add_only :
    proof_update HO tC pC hC adds [] rem (ud_of_spec (spec_update_data HO s [] adds))
    = exp_cached HO (mk_ctx HO (apply_block HO s [] adds)) (C ++ pick adds rem) /\
    exp_cached HO (mk_ctx HO (apply_block HO s [] adds)) (C ++ pick adds rem) <> None.
  Proof.
    destruct ag_both as [Erem Eadd].
    unfold proof_update, ud_of_spec, spec_update_data.
    cbn [u_del u_prev u_add u_to_destroy ud_new_del ud_prev_num_leaves ud_new_add ud_to_destroy].
    rewrite (pu_kill_nil H HO s), (pu_new_del_nil H HO s).
    unfold apply_block. rewrite (pu_kill_nil H HO s).
    match goal with |- context [updateProofRemove ?a ?b ?c ?d ?e ?f ?g] =>
      change (updateProofRemove a b c d e f g)
        with (updateProofRemove HO tC pC [] hC [] (num_leaves s)) end.
    rewrite Erem. exact Eadd.
  Qed.
End AddGen.

Print Assumptions proof_update_add_only.

(** * 7. The free hash algebra ("barring collisions") *)

(** an inner node of a layout carries the all-zero hash (an empty root) or a [Node] *)
Lemma pu_term_inner (s : slots term) x : In x (layout term_ops s) -> nleaf x = false ->
  nhash x = Zero \/ exists l r, nhash x = Node l r.
Proof.
  intros Hx Hl. destruct (layout_entry term term_ops s x Hx) as (k & lo & t & He & Hxe).
  destruct t as [c|].
  - cbn [place_entry] in Hxe. destruct (place_occ term c _ _ _ _ x Hxe) as (c0 & Ho & Eh & El).
    apply forest_entry in He as (_ & _ & _ & _ & _ & Ht). symmetry in Ht.
    destruct (compress_wf term term_ops k _ c Ht) as [Hw _].
    pose proof (occ_cwf term term_ops _ _ _ _ _ _ Ho Hw) as Hw0.
    destruct c0 as [h|h l r]; [cbn in El; congruence|].
    cbn [cwf] in Hw0. destruct Hw0 as [-> _]. right. rewrite Eh. cbn. eauto.
  - cbn [place_entry] in Hxe. destruct Hxe as [<-|[]]. left. reflexivity.
Qed.

(** G1 in the free algebra: additions that are atoms never collide with inner nodes *)
Theorem proof_update_add_only_term (s : slots term) (adds C : list term) (rem : list N)
        (hC : list term) (tC : list N) (pC : list term) :
  (forall h, In (Some h) s -> h <> Zero) ->
  N.of_nat (length s + length adds) <= 2 ^ 63 ->
  NoDup (live (s ++ map Some adds)) ->
  (forall a, In a adds -> exists i, a = Atom i) ->
  NoDup C -> SSlt rem ->
  exp_cached term_ops (mk_ctx term_ops s) C = Some (hC, tC, pC) ->
  proof_update term_ops tC pC hC adds [] rem (ud_of_spec (spec_update_data term_ops s [] adds))
  = exp_cached term_ops (mk_ctx term_ops (apply_block term_ops s [] adds)) (C ++ pick adds rem) /\
  exp_cached term_ops (mk_ctx term_ops (apply_block term_ops s [] adds)) (C ++ pick adds rem) <> None.
Proof.
  intros Hl Hb Hnd Hatoms HC Hrem E.
  apply (proof_update_add_only term term_ops term_ops_ok cs_term_hash_nz s adds
           (fun h Hh => term_nonzero_eqb h (Hl h Hh)) Hb Hnd C rem HC Hrem); [|exact E].
  intros x Hx Hlf Hin. destruct (Hatoms _ (pick_In adds rem _ Hin)) as [i Ei].
  destruct (pu_term_inner _ x Hx Hlf) as [E0|(l & r & E0)]; congruence.
Qed.
Print Assumptions proof_update_add_only_term.

(** non-vacuity: five slots (one dead, no empty root), four additions that cross a power of two
    (5 -> 9 leaves, the forest grows a row), two remembered *)
Definition pu_ex_s : slots term := [Some (Atom 1); None; Some (Atom 3); Some (Atom 4); Some (Atom 5)].
Definition pu_ex_adds : list term := [Atom 6; Atom 7; Atom 8; Atom 9].

Example pu_ex_add_only :
  exists hC tC pC,
    exp_cached term_ops (mk_ctx term_ops pu_ex_s) [Atom 5; Atom 1] = Some (hC, tC, pC) /\
    proof_update term_ops tC pC hC pu_ex_adds [] [1; 3]
                 (ud_of_spec (spec_update_data term_ops pu_ex_s [] pu_ex_adds))
    = exp_cached term_ops (mk_ctx term_ops (apply_block term_ops pu_ex_s [] pu_ex_adds))
                 ([Atom 5; Atom 1] ++ pick pu_ex_adds [1; 3]) /\
    proof_update term_ops tC pC hC pu_ex_adds [] [1; 3]
                 (ud_of_spec (spec_update_data term_ops pu_ex_s [] pu_ex_adds))
    = Some ([Atom 5; Atom 7; Atom 9; Atom 1], [4; 6; 8; 16],
            [Atom 6; Atom 8; Node (Atom 3) (Atom 4)]).
Proof.
  eexists _, _, _. split; [vm_compute; reflexivity|]. split; [|vm_compute; reflexivity].
  apply proof_update_add_only_term.
  - intros h Hh. cbn in Hh. repeat (destruct Hh as [Hh|Hh]; [try discriminate; injection Hh as <-; discriminate|]). destruct Hh.
  - vm_compute. discriminate.
  - apply po_ex_nodup; reflexivity.
  - intros a Ha. cbn in Ha. repeat (destruct Ha as [<-|Ha]; [eexists; reflexivity|]). destruct Ha.
  - apply po_ex_nodup; reflexivity.
  - repeat constructor; lia.
  - vm_compute. reflexivity.
Qed.


(** ... and seven slots whose middle tree is dead (an empty root at row 1, position 10 of the new
    geometry) with three additions that write it over (7 -> 10 leaves, a new row) *)
Definition pu_ex_s2 : slots term :=
  [Some (Atom 1); Some (Atom 2); Some (Atom 3); Some (Atom 4); None; None; Some (Atom 7)].
Definition pu_ex_adds2 : list term := [Atom 8; Atom 9; Atom 10].

Example pu_ex_destroyed :
  to_destroy term_ops (rows_of (num_leaves (pu_ex_s2 ++ map Some pu_ex_adds2))) pu_ex_s2 pu_ex_adds2
  = [18] /\
  exists hC tC pC,
    exp_cached term_ops (mk_ctx term_ops pu_ex_s2) [Atom 7; Atom 2] = Some (hC, tC, pC) /\
    proof_update term_ops tC pC hC pu_ex_adds2 [] [0; 2]
                 (ud_of_spec (spec_update_data term_ops pu_ex_s2 [] pu_ex_adds2))
    = exp_cached term_ops (mk_ctx term_ops (apply_block term_ops pu_ex_s2 [] pu_ex_adds2))
                 ([Atom 7; Atom 2] ++ pick pu_ex_adds2 [0; 2]).
Proof.
  split; [vm_compute; reflexivity|].
  eexists _, _, _. split; [vm_compute; reflexivity|].
  apply proof_update_add_only_term.
  - intros h Hh. cbn in Hh. repeat (destruct Hh as [Hh|Hh]; [try discriminate; injection Hh as <-; discriminate|]). destruct Hh.
  - vm_compute. discriminate.
  - apply po_ex_nodup; reflexivity.
  - intros a Ha. cbn in Ha. repeat (destruct Ha as [<-|Ha]; [eexists; reflexivity|]). destruct Ha.
  - apply po_ex_nodup; reflexivity.
  - repeat constructor; lia.
  - vm_compute. reflexivity.
Qed.

(** * 8. The full statement of C07 for [Proof.Update], as an executable check (G0)

    [pu_check s C dels adds rem]: [s] the state before the block, [C] the cached set, [dels] the
    deleted leaves, [adds] the added leaves, [rem] the indexes of the remembered additions.  The
    client holds [exp_cached s C]; the block data are [spec_update_data s dels adds] (which
    [StumpDelData.stump_update_data] proves [Stump.Update] to produce) and the positions of [dels]
    ([exp_prove]); the check compares the mirror of [Proof.Update] with
    [exp_cached (apply_block s dels adds) ((C minus dels) ++ remembered additions)]. *)
Section Check.
  Variable H : Type.
  Variable HO : ops H.
  Definition pu_res_eqb (a b : option (list H * list N * list H)) : bool :=
    match a, b with
    | Some (h, t, p), Some (h', t', p') =>
        list_eqb (op_eqb HO) h h' && list_eqb N.eqb t t' && list_eqb (op_eqb HO) p p'
    | None, None => true
    | _, _ => false
    end.
  Definition pu_run (s : slots H) (C dels adds : list H) (rem : list N)
    : option (list H * list N * list H) :=
    match exp_cached HO (mk_ctx HO s) C, exp_prove HO (mk_ctx HO s) dels with
    | Some (hC, tC, pC), Some (bt, _) =>
        proof_update HO tC pC hC adds bt rem (ud_of_spec (spec_update_data HO s dels adds))
    | _, _ => None
    end.
  Definition pu_exp (s : slots H) (C dels adds : list H) (rem : list N) :=
    exp_cached HO (mk_ctx HO (apply_block HO s dels adds)) (cached_after HO C dels (pick adds rem)).
  Definition pu_check (s : slots H) (C dels adds : list H) (rem : list N) : bool :=
    match exp_cached HO (mk_ctx HO s) C, exp_prove HO (mk_ctx HO s) dels with
    | Some _, Some _ =>
        match pu_exp s C dels adds rem with
        | Some _ => pu_res_eqb (pu_run s C dels adds rem) (pu_exp s C dels adds rem)
        | None => false
        end
    | _, _ => false
    end.
End Check.

(** every state of [k] slots [Atom i] / dead, every cached set and every deleted set of live leaves,
    0..[maxadd] fresh additions, every set of remembered indexes *)
Fixpoint pu_sublists {A} (l : list A) : list (list A) :=
  match l with [] => [[]] | x :: t => let r := pu_sublists t in map (cons x) r ++ r end.
Fixpoint pu_states (k : nat) (i : N) : list (slots term) :=
  match k with
  | O => [[]]
  | S j => let r := pu_states j (i + 1) in map (cons (Some (Atom i))) r ++ map (cons None) r
  end.
Fixpoint pu_seqN (a : N) (k : nat) : list N :=
  match k with O => [] | S j => a :: pu_seqN (a + 1) j end.
Definition pu_cases (maxadd : nat) (s : slots term) :=
  let lv := live s in
  flat_map (fun C => flat_map (fun dels =>
    flat_map (fun k => let adds := map Atom (pu_seqN 100 k) in
       map (fun rem => (s, C, dels, adds, rem)) (pu_sublists (pu_seqN 0 k))) (seq 0 (S maxadd)))
    (pu_sublists lv)) (pu_sublists lv).
Definition pu_failures (k maxadd : nat) :=
  flat_map (fun s =>
    filter (fun c => let '(s, C, dels, adds, rem) := c in negb (pu_check term term_ops s C dels adds rem))
           (pu_cases maxadd s)) (pu_states k 1).

(** all 19,375 cases over four slots and up to four additions (empty roots, dead slots, deleted
    siblings and whole trees, additions that overwrite empty roots and cross powers of two): no
    difference.  (The same enumeration over five slots / up to four additions - 96,875 cases - and
    six slots / up to three additions - 234,375 cases - is also clean; it takes minutes.) *)
Example pu_g0_exhaustive_4 : pu_failures 4 4 = [].
Proof. vm_compute. reflexivity. Qed.

(** a dozen larger histories *)
Definition pu_s8 : slots term :=
  [Some (Atom 1); None; Some (Atom 3); Some (Atom 4); None; None; None; None;
   Some (Atom 9); Some (Atom 10); None; None; Some (Atom 13)].
Example pu_g0_large :
  forallb (fun c => let '(s, C, dels, adds, rem) := c in pu_check term term_ops s C dels adds rem)
    [ (pu_s8, [Atom 1; Atom 13], [], map Atom [20; 21; 22], [0; 2]);
      (pu_s8, [Atom 1; Atom 3; Atom 13], [Atom 3], map Atom [20; 21; 22; 23], [1; 3]);
      (pu_s8, [Atom 9; Atom 10; Atom 4], [Atom 9; Atom 10], map Atom [20], [0]);
      (pu_s8, [Atom 1; Atom 3; Atom 4; Atom 9; Atom 10; Atom 13], [Atom 13; Atom 1], [], []);
      (pu_s8, [], [Atom 4; Atom 3], map Atom [20; 21; 22], [0; 1; 2]);
      (pu_s8, [Atom 3; Atom 4], [Atom 1], map Atom [20; 21; 22; 23; 24], []);
      (pu_s8, [Atom 13], [Atom 13], map Atom [20; 21; 22], [2]);
      (pu_s8, [Atom 1; Atom 9], [Atom 3; Atom 4; Atom 10], map Atom [20; 21; 22], [1]);
      (pu_s8 ++ [Some (Atom 14); Some (Atom 15); Some (Atom 16)], [Atom 16; Atom 1],
         [Atom 15], map Atom [20], [0]);
      (pu_s8 ++ [Some (Atom 14); Some (Atom 15); Some (Atom 16)], [Atom 14; Atom 15; Atom 16; Atom 9],
         [Atom 14; Atom 9; Atom 10], map Atom [20; 21; 22; 23; 24; 25], [0; 5]);
      (map (fun i => Some (Atom i)) (pu_seqN 1 16), map Atom [1; 2; 7; 16], map Atom [3; 4; 8; 15],
         map Atom [20; 21], [1]);
      (map (fun i => Some (Atom i)) (pu_seqN 1 16), map Atom [5; 6; 7; 8], map Atom [5; 6; 7],
         map Atom [20], [0]) ] = true.
Proof. vm_compute. reflexivity. Qed.

(** What remains for C07: blocks with deletions.  [updateProofRemove] with block targets needs
    (i) a specification of [deTwin] (the detwinned sorted block targets are the roots of the maximal
    fully deleted subtrees), (ii) [getNewPositions] with several targets (the single-target case is
    [pu_gnp_targets_single]; [subtree_same_block] is the fact about [DetectOffset] it needs) on the
    list [kept ++ missing], which is not sorted, (iii) the occurrences of [kill dels s] from those of
    [s] through [RefTheory.forest_kill]/[prune], and (iv) the update data [new_del]
    ([StumpDelData.stump_del_data_nodes]).  The general block is then the composition of the remove
    part on [s] and [ag_both] on [kill dels s].  The check [pu_check] above covers all of it by
    computation on small histories. *)
