(** Component (B) of Proofs/TTLSpec.v: the position-only [undoAdd] of the caching-schedule tracker
    ([Model.TTL.undoAddPos]: [undoAdd] / [undoSingleAdd] / [moveDownPositions] of prove.go) against the
    reference forest.

    [undo_add_spec_holds]: for ANY state [s1] (dead slots, empty roots included), any fresh additions
    [adds] up to 2^62 leaves and any duplicate-free list [L] of leaves of [s1 ++ adds], the mirror, given
    the 63-row positions of [L] in the new state and the destroyed roots of the reference
    ([Spec.Forest.to_destroy] in 63 rows), returns the 63-row positions of the old leaves in [s1], the
    insertion slot of every added leaf, and the indexes of the added leaves, the newest addition first.

    Structure
    - A1  bits: the tree of the last leaf - [subtree_of_last] ([DetectOffset (n-1) n] returns
          [popcount n - 1]), [subtreeRow_last] ([subtreeRow] of it is the lowest set bit of [n]);
    - A2  [undoSingleAdd] pointwise ([usa_loop_pt]); the walk down the right spine of the last tree in
          63-row coordinates probes exactly the roots the addition popped ([walk_td]): when the list
          holds the empty ones among them, no popped non-empty root and not twice the last slot, the
          walk is the un-lift over the destroyed roots in reverse order of destruction;
    - A3  one addition on the reference (reusing [ProofUndoSpec.unlift_adds], [lift_adds], [unl_bridge],
          [StumpAddData.lift_chain]): every old leaf comes back to its old position ([s3_old]), the new
          leaf - which sits wherever the lifts over the destroyed roots put it - comes back to row 0 at
          its slot ([s3_new]);
    - A4  the popped roots of a run of additions are pairwise different coordinates ([Pop], [Pop_inj]):
          this is what makes [slices.Index] on the one shared [toDestroy] list find the right entries,
          and why the bound is 2^62 ([Pop_not_2m]: the probe of the row-0 iteration);
    - A5  [undoSingleAdd] on the reference; A6 one step with the invariants; A7 [undoAdd] by induction
          over the additions, newest first, and the theorem. *)
From Utreexo Require Import Base.Hash Base.Bits64 Model.Utils Model.ProofUpdate Model.TTL
  Spec.Forest Spec.Oracle Spec.Term Proofs.SpecBasics Proofs.UtilsGeom Proofs.UtilsGeom2
  Proofs.LayoutStruct Proofs.ProofPosSpec Proofs.CalcSound Proofs.StumpAdd Proofs.StumpAddData
  Proofs.ProofUpdateSpec Proofs.ProofUndoSpec Proofs.CachedVerifies Proofs.StumpUpdate Proofs.TTLSpec.
From Coq Require Import List Arith PeanoNat NArith ZArith Lia ZifyNat ZifyN ZifyBool Bool Sorted Permutation.
Import ListNotations.
Open Scope N_scope.

(** * A1. The tree of the last leaf: [DetectOffset (n-1) n] and [subtreeRow] *)

Lemma mod_succ_bit x t : x mod 2 ^ (t + 1) = N.b2n (N.testbit x t) * 2 ^ t + x mod 2 ^ t.
Proof.
  rewrite N.pow_add_r, N.pow_1_r, N.mod_mul_r by (try apply pow2_nz; lia).
  rewrite <- N.testbit_spec'. lia.
Qed.

Lemma popcount_pow_add_N t m : m < 2 ^ t -> popcount (2 ^ t + m) = 1 + popcount m.
Proof.
  intros Hm. pose proof (popcount_pow_add (N.to_nat t) m) as E. unfold p2 in E. rewrite N2Nat.id in E.
  exact (E Hm).
Qed.
Lemma popcount_pow2 t : popcount (2 ^ t) = 1.
Proof.
  pose proof (popcount_pow_add_N t 0 (proj1 (N.neq_0_lt_0 _) (pow2_nz t))) as E.
  rewrite N.add_0_r in E. exact E.
Qed.

Lemma do_last_loop n : 0 < n ->
  forall fuel t p b, t <= 63 -> (N.to_nat t < fuel)%nat -> p < W ->
    p mod 2 ^ (t + 1) = (n - 1) mod 2 ^ (t + 1) ->
    n / 2 ^ (t + 1) = (n - 1) / 2 ^ (t + 1) ->
    b + popcount (n mod 2 ^ (t + 1)) <= 255 ->
    do_first (DetectOffset_loop fuel p 0 n (Z.of_N t) b) = Some (b + popcount (n mod 2 ^ (t + 1)) - 1).
Proof.
  intros Hn. induction fuel as [|f IH]; intros t p b Ht Hf Hp I Q Hb8; [exfalso; clear - Hf; lia|].
  cbn [DetectOffset_loop]. rewrite (do_u8z t) by (clear - Ht; lia).
  rewrite (do_A p 0 t ltac:(clear; lia) Ht). rewrite N.pow_0_r, N.mul_1_r, I.
  unfold maxLeafCount. rewrite (shl_1 t Ht). unfold and64. rewrite do_land_pow2.
  assert (T1 : ((n - 1) mod 2 ^ (t + 1) <? (if N.testbit n t then 2 ^ t else 0))
               = N.testbit n t && negb (N.testbit (n - 1) t)).
  { destruct (N.testbit n t); [apply do_mod_lt|]. cbn [andb]. apply N.ltb_ge, N.le_0_l. }
  rewrite T1. pose proof (mod_succ_bit n t) as Mn. pose proof (mod_succ_bit (n - 1) t) as Mn1.
  destruct (N.testbit n t && negb (N.testbit (n - 1) t)) eqn:Etest.
  - cbn [do_first option_map fst]. f_equal.
    apply andb_true_iff in Etest as [E1 E2]. apply negb_true_iff in E2. rewrite E1 in Mn. rewrite E2 in Mn1.
    cbn [N.b2n] in Mn, Mn1.
    assert (Em : n mod 2 ^ (t + 1) = 2 ^ t).
    { pose proof (N.div_mod n (2 ^ (t + 1)) (pow2_nz _)) as D1.
      pose proof (N.div_mod (n - 1) (2 ^ (t + 1)) (pow2_nz _)) as D2. rewrite <- Q in D2.
      pose proof (N.mod_lt (n - 1) (2 ^ t) (pow2_nz _)) as L1.
      pose proof (N.mod_lt n (2 ^ t) (pow2_nz _)) as L2.
      clear - D1 D2 Mn Mn1 L1 L2. revert D1 D2 Mn Mn1 L1 L2. generalize (n mod 2 ^ (t + 1)) ((n - 1) mod 2 ^ (t + 1)) (n mod 2 ^ t) ((n - 1) mod 2 ^ t)
        (2 ^ (t + 1) * (n / 2 ^ (t + 1))) (2 ^ t). intros. lia. }
    rewrite Em, popcount_pow2. clear. lia.
  - pose proof (do_step_Q n (n - 1) t ltac:(clear - Hn; lia) Q Etest) as Q'.
    assert (Ht1 : 1 <= t).
    { destruct (N.eq_dec t 0) as [Et0|Hn0]; [|clear - Hn0; lia]. exfalso. subst t.
      rewrite N.pow_0_r, !N.div_1_r in Q'. clear - Q' Hn. lia. }
    destruct (Z.ltb_spec (Z.of_N t) 0) as [Hc|_]; [exfalso; clear - Hc; lia|].
    rewrite N2Z.id. rewrite (shl_1 t Ht), do_land_pow2.
    replace (Z.of_N t - 1)%Z with (Z.of_N (t - 1)) by (clear - Ht1; lia).
    assert (Et : t - 1 + 1 = t) by (clear - Ht1; lia).
    assert (Q'' : n / 2 ^ (t - 1 + 1) = (n - 1) / 2 ^ (t - 1 + 1)) by (rewrite Et; exact Q').
    assert (Ht' : t - 1 <= 63) by (clear - Ht; lia).
    assert (Hf' : (N.to_nat (t - 1) < f)%nat) by (clear - Hf Ht1; lia).
    assert (HW : W <> 0) by (rewrite W_eq; apply pow2_nz).
    destruct (N.testbit n t) eqn:Ebit.
    + destruct (N.eqb_spec (2 ^ t) 0) as [Hc|_]; [exfalso; exact (pow2_nz t Hc)|].
      cbn [N.b2n] in Mn. rewrite N.mul_1_l in Mn.
      assert (Epc : popcount (n mod 2 ^ (t + 1)) = 1 + popcount (n mod 2 ^ t)).
      { rewrite Mn. apply popcount_pow_add_N. apply N.mod_lt, pow2_nz. }
      rewrite add8_small by (clear - Hb8 Epc; lia).
      rewrite (IH (t - 1) (sub64 p (2 ^ t)) (b + 1) Ht' Hf').
      * rewrite Et, Epc. f_equal. clear. lia.
      * unfold sub64. rewrite wrap_mod. apply N.mod_lt, HW.
      * rewrite Et. pose proof (do_sub p 0 t Hp Ht) as Ds. rewrite !N.pow_0_r, !N.mul_1_r in Ds. rewrite Ds.
        pose proof (do_inv_down _ _ t Ht1 I) as D. rewrite Et in D. exact D.
      * exact Q''.
      * rewrite Et. clear - Hb8 Epc. lia.
    + rewrite N.eqb_refl. cbn [N.b2n] in Mn. rewrite N.mul_0_l, N.add_0_l in Mn.
      rewrite (IH (t - 1) p b Ht' Hf' Hp).
      * rewrite Et, Mn. reflexivity.
      * exact (do_inv_down _ _ t Ht1 I).
      * exact Q''.
      * rewrite Et, <- Mn. exact Hb8.
Qed.

Lemma popcount_bound : forall (k : nat) x, x < 2 ^ N.of_nat k -> popcount x <= N.of_nat k.
Proof.
  induction k as [|k IH]; intros x Hx.
  - change (2 ^ N.of_nat 0) with 1 in Hx. replace x with 0 by lia. cbn. lia.
  - rewrite Nat2N.inj_succ, N.pow_succ_r' in Hx.
    pose proof (N.div_mod' x 2) as Hd. pose proof (N.mod_lt x 2 ltac:(lia)) as Hm.
    assert (Hq : x / 2 < 2 ^ N.of_nat k) by (apply N.div_lt_upper_bound; lia).
    specialize (IH _ Hq).
    assert (Hb : x mod 2 = 0 \/ x mod 2 = 1) by lia.
    destruct Hb as [Hb|Hb]; rewrite Hb in Hd; rewrite Hd.
    + rewrite N.add_0_r, popcount_double. lia.
    + rewrite popcount_double1. lia.
Qed.

Lemma popcount_split : forall (j : nat) x,
  popcount x = popcount (x / 2 ^ N.of_nat j) + popcount (x mod 2 ^ N.of_nat j).
Proof.
  induction j as [|j IH]; intros x.
  - change (2 ^ N.of_nat 0) with 1. rewrite N.div_1_r, N.mod_1_r. change (popcount 0) with 0. lia.
  - rewrite Nat2N.inj_succ, N.pow_succ_r'.
    pose proof (N.div_mod' x 2) as Hd. pose proof (N.mod_lt x 2 ltac:(lia)) as Hm.
    rewrite <- N.div_div by (try apply pow2_nz; lia).
    rewrite N.mod_mul_r by (try apply pow2_nz; lia).
    assert (Hb : x mod 2 = 0 \/ x mod 2 = 1) by lia.
    specialize (IH (x / 2)).
    destruct Hb as [Hb|Hb]; rewrite Hb in *.
    + rewrite N.add_0_l, popcount_double, <- IH. rewrite Hd at 1. rewrite N.add_0_r, popcount_double. reflexivity.
    + replace (1 + 2 * ((x / 2) mod 2 ^ N.of_nat j)) with (2 * ((x / 2) mod 2 ^ N.of_nat j) + 1) by lia.
      rewrite popcount_double1. rewrite Hd at 1. rewrite popcount_double1. lia.
Qed.

Lemma popcount_pos x : 0 < x -> 0 < popcount x.
Proof.
  destruct x as [|p]; [lia|]. intros _. unfold popcount.
  induction p as [p IH|p IH|]; cbn [popcount_pos]; lia.
Qed.

Theorem subtree_of_last n : 0 < n -> n <= 2 ^ 63 -> subtree_of (n - 1) n = popcount n - 1.
Proof.
  intros Hn Hb. pose proof (TreeRows_le_63 n Hb) as Hh. pose proof (TreeRows_upper n) as Hup.
  unfold subtree_of, DetectOffset. cbv zeta. set (h := TreeRows n) in *.
  assert (Eg : n - 1 = gpos h 0 (n - 1)).
  { unfold gpos, gstart. rewrite N.sub_0_r, N.sub_diag. reflexivity. }
  assert (Er : DetectRow (n - 1) h = 0).
  { rewrite Eg at 1. apply DetectRow_gpos; [exact Hh|lia|rewrite N.sub_0_r; lia]. }
  rewrite Er, do_first_subtree.
  assert (Hlt : n < 2 ^ (h + 1)).
  { rewrite N.pow_add_r, N.pow_1_r. pose proof (UtilsGeom.pow2_pos h). lia. }
  rewrite (do_last_loop n Hn 70 h (n - 1) 0 Hh ltac:(clear - Hh; lia)).
  - rewrite N.mod_small by exact Hlt. reflexivity.
  - rewrite W_pow. assert (2 ^ 63 < 2 ^ 64) by (apply N.pow_lt_mono_r; lia). lia.
  - reflexivity.
  - rewrite !N.div_small by lia. reflexivity.
  - rewrite N.mod_small by exact Hlt.
    pose proof (popcount_bound 64 n ltac:(change (N.of_nat 64) with 64; assert (2 ^ 63 < 2 ^ 64) by (apply N.pow_lt_mono_r; lia); lia)).
    lia.
Qed.

(** the lowest set bit *)
Definition lowbit (n : N) (k : nat) : Prop :=
  N.testbit n (N.of_nat k) = true /\ n mod 2 ^ N.of_nat k = 0.

Lemma rootExistsOnRow_bit n h : rootExistsOnRow n h = N.testbit n h.
Proof.
  unfold rootExistsOnRow, shr. rewrite land1_mod2, N.testbit_eqb, N.shiftr_div_pow2. reflexivity.
Qed.

Lemma subtreeRow_loop_low n (k : nat) : lowbit n k -> popcount n <= 64 ->
  forall fuel saw, (k < fuel)%nat -> saw = popcount (n / 2 ^ N.of_nat fuel) ->
    subtreeRow_loop fuel n (popcount n - 1) saw = N.of_nat k.
Proof.
  intros [Hk1 Hk2] H64. induction fuel as [|f IH]; intros saw Hf Es; [lia|].
  cbn [subtreeRow_loop]. rewrite rootExistsOnRow_bit.
  pose proof (popcount_split f n) as Sp.
  pose proof (mod_succ_bit n (N.of_nat f)) as Mb.
  pose proof (do_bit_div n (N.of_nat f)) as Db.
  replace (N.of_nat f + 1) with (N.of_nat (S f)) in * by lia.
  destruct (N.testbit n (N.of_nat f)) eqn:Eb; cbn [N.b2n] in *.
  - assert (Ep : popcount (n / 2 ^ N.of_nat f) = 1 + saw).
    { rewrite Db, Es. apply popcount_double1. }
    assert (Hs8 : saw < 256) by (clear - Sp Ep H64; lia).
    rewrite u8_small by exact Hs8.
    destruct (Nat.eq_dec f k) as [->|Hne].
    + rewrite Hk2 in Sp. change (popcount 0) with 0 in Sp.
      replace (popcount n - 1) with saw by (clear - Sp Ep; lia). rewrite N.eqb_refl. reflexivity.
    + assert (Hpos : 0 < n mod 2 ^ N.of_nat f).
      { apply N.neq_0_lt_0. intros E0.
        assert (Hbk : N.testbit (n mod 2 ^ N.of_nat f) (N.of_nat k) = true).
        { rewrite N.mod_pow2_bits_low by lia. exact Hk1. }
        rewrite E0, N.bits_0 in Hbk. discriminate. }
      apply popcount_pos in Hpos.
      destruct (N.eqb_spec (popcount n - 1) saw) as [Ec|_]; [exfalso; clear - Ec Sp Ep Hpos; lia|].
      apply IH; [lia|]. rewrite Ep. clear. lia.
  - assert (Hne : f <> k) by (intros ->; congruence).
    apply IH; [lia|]. rewrite Es, Db, N.add_0_r, popcount_double. reflexivity.
Qed.

Theorem subtreeRow_last n k : 0 < n -> n <= 2 ^ 63 -> lowbit n k ->
  subtreeRow n (popcount n - 1) = N.of_nat k.
Proof.
  intros Hn Hb Hl. unfold subtreeRow. pose proof (TreeRows_upper n) as Hup.
  pose proof (popcount_bound 64 n ltac:(change (N.of_nat 64) with 64; assert (2 ^ 63 < 2 ^ 64) by (apply N.pow_lt_mono_r; lia); lia)) as H64.
  apply (subtreeRow_loop_low n k Hl ltac:(lia)).
  - destruct Hl as [Hk1 _]. destruct (Nat.lt_ge_cases k (S (N.to_nat (TreeRows n)))) as [Hlt|Hge]; [exact Hlt|exfalso].
    assert (Hlt : n < 2 ^ N.of_nat k).
    { eapply N.le_lt_trans; [exact Hup|]. apply N.pow_lt_mono_r; lia. }
    rewrite (testbit_small n (N.of_nat k) (N.of_nat k) Hlt (N.le_refl _)) in Hk1. discriminate.
  - rewrite N.div_small; [reflexivity|].
    eapply N.le_lt_trans; [exact Hup|]. apply N.pow_lt_mono_r; lia.
Qed.

(** the trailing ones of [m] end at the lowest set bit of [m + 1] *)
Lemma lowbit_succ m (L : nat) : (forall j, (j < L)%nat -> N.testbit m (N.of_nat j) = true) ->
  N.testbit m (N.of_nat L) = false -> lowbit (m + 1) L.
Proof.
  intros Hones Hz.
  assert (Em : m mod 2 ^ N.of_nat L = 2 ^ N.of_nat L - 1).
  { replace (2 ^ N.of_nat L - 1) with (N.ones (N.of_nat L)) by (rewrite N.ones_equiv, N.pred_sub; reflexivity).
    apply N.bits_inj. intros i.
    destruct (N.lt_ge_cases i (N.of_nat L)) as [Hi|Hi].
    - rewrite N.mod_pow2_bits_low, N.ones_spec_low by exact Hi.
      rewrite <- (N2Nat.id i). apply Hones. lia.
    - rewrite N.mod_pow2_bits_high, N.ones_spec_high by exact Hi. reflexivity. }
  pose proof (N.div_mod m (2 ^ N.of_nat L) (pow2_nz _)) as Hd. rewrite Em in Hd.
  pose proof (N.testbit_spec' m (N.of_nat L)) as Hs. rewrite Hz in Hs. cbn [N.b2n] in Hs.
  pose proof (UtilsGeom.pow2_pos (N.of_nat L)) as Hp.
  assert (E1 : m + 1 = (m / 2 ^ N.of_nat L + 1) * 2 ^ N.of_nat L) by (clear - Hd Hp; nia).
  split.
  - rewrite N.testbit_eqb, E1, N.div_mul by apply pow2_nz.
    pose proof (N.div_mod' (m / 2 ^ N.of_nat L) 2) as D2. rewrite <- Hs in D2.
    replace (m / 2 ^ N.of_nat L + 1) with (1 + (m / 2 ^ N.of_nat L / 2) * 2) by (clear - D2; lia).
    rewrite N.mod_add by lia. reflexivity.
  - rewrite E1. apply N.mod_mul, pow2_nz.
Qed.


(** * A2. [undoSingleAdd], pointwise *)

Fixpoint usa_pt (fuel : nat) (total pos : N) (td : list N) (p : N) : N :=
  match fuel with
  | O => p
  | S f =>
      let pr := LeftChild pos total in
      match indexN pr td with
      | Some k => usa_pt f total (RightChild pos total) (delete_at k td) (moveDownPosition total pos pr p)
      | None => usa_pt f total (RightChild pos total) td p
      end
  end.
Fixpoint usa_td (fuel : nat) (total pos : N) (td : list N) : list N :=
  match fuel with
  | O => td
  | S f =>
      match indexN (LeftChild pos total) td with
      | Some k => usa_td f total (RightChild pos total) (delete_at k td)
      | None => usa_td f total (RightChild pos total) td
      end
  end.
(** the position the last iteration looks for *)
Fixpoint usa_last (fuel : nat) (total pos : N) : N :=
  match fuel with
  | O => pos
  | S O => pos
  | S f => usa_last f total (RightChild pos total)
  end.

Lemma usa_loop_pt : forall fuel total pos P td r, (0 < fuel)%nat ->
  usa_loop fuel total pos P td r
  = (map (usa_pt fuel total pos td) P, usa_td fuel total pos td,
     match indexN (usa_last fuel total pos) (map (usa_pt fuel total pos td) P) with
     | Some k => Some k | None => r end).
Proof.
  induction fuel as [|f IH]; intros total pos P td r Hf; [lia|].
  cbn [usa_loop usa_pt usa_td]. destruct f as [|f].
  - cbn [usa_loop usa_pt usa_td usa_last].
    destruct (indexN (LeftChild pos total) td) as [k|]; unfold moveDownPositionsN; [|rewrite map_id]; reflexivity.
  - destruct (indexN (LeftChild pos total) td) as [k|].
    + rewrite IH by lia. unfold moveDownPositionsN. rewrite map_map. reflexivity.
    + rewrite IH by lia. reflexivity.
Qed.

Lemma indexN_some x : forall l k, indexN x l = Some k -> nth_error l k = Some x.
Proof.
  induction l as [|y l IH]; intros k E; cbn [indexN] in E; [discriminate|].
  destruct (N.eqb_spec y x) as [->|Hne]; [injection E as <-; reflexivity|].
  destruct (indexN x l) as [j|]; [|discriminate]. injection E as <-. apply IH. reflexivity.
Qed.
Lemma indexN_none x : forall l, indexN x l = None <-> ~ In x l.
Proof.
  induction l as [|y l IH]; cbn [indexN]; [split; [intros _ []|reflexivity]|].
  destruct (N.eqb_spec y x) as [->|Hne].
  - split; [discriminate|intros Hn; exfalso; apply Hn; left; reflexivity].
  - destruct (indexN x l) as [j|] eqn:Ej.
    + split; [discriminate|]. intros Hn. exfalso. apply Hn. right.
      apply indexN_some in Ej. eapply nth_error_In; exact Ej.
    + split; [|reflexivity]. intros _ [Hc|Hc]; [exact (Hne Hc)|exact (proj1 IH eq_refl Hc)].
Qed.

Lemma delete_at_split {A} (l1 : list A) a l2 : delete_at (length l1) (l1 ++ a :: l2) = l1 ++ l2.
Proof.
  unfold delete_at. rewrite firstn_app, Nat.sub_diag, firstn_all, app_nil_r. cbn [firstn].
  replace (S (length l1)) with (length l1 + 1)%nat by lia.
  rewrite skipn_app. replace (length l1 + 1 - length l1)%nat with 1%nat by lia.
  rewrite skipn_all2 by lia. reflexivity.
Qed.

Lemma indexN_delete x l k : NoDup l -> indexN x l = Some k ->
  NoDup (delete_at k l) /\ forall z, In z (delete_at k l) <-> In z l /\ z <> x.
Proof.
  intros Hnd E. apply indexN_some in E. apply nth_error_split in E as (l1 & l2 & -> & <-).
  rewrite delete_at_split. pose proof (NoDup_remove_1 _ _ _ Hnd) as N1.
  pose proof (NoDup_remove_2 _ _ _ Hnd) as N2. split; [exact N1|].
  intros z. rewrite !in_app_iff. cbn [In]. split.
  - intros Hz. split; [tauto|]. intros ->. apply N2. apply in_or_app. exact Hz.
  - intros [[Hz|[Hz|Hz]] Hne]; [left; exact Hz|congruence|right; exact Hz].
Qed.

(** the index of the one element of [map f L] that is [v] *)
Lemma indexN_map_unique {A} (f : A -> N) (v : N) (P : A -> bool) : forall L,
  (forall h, In h L -> (f h =? v) = P h) ->
  indexN v (map f L) = (fix go (l : list A) : option nat :=
                          match l with
                          | [] => None
                          | x :: t => if P x then Some O else match go t with Some k => Some (S k) | None => None end
                          end) L.
Proof.
  induction L as [|x L IH]; intros HP; [reflexivity|]. cbn [map indexN].
  rewrite (HP x (or_introl eq_refl)). rewrite IH by (intros h Hh; apply HP; right; exact Hh). reflexivity.
Qed.

(** ** the spine of the tree the last addition built, in 63-row coordinates *)

Definition unl63 (Dr : list coord) (p : N) : N :=
  fold_left (fun p d => moveDownPosition 63 (Parent (cpos 63 d) 63) (cpos 63 d) p) Dr p.

Lemma xc_valid63 m (j : nat) : m < 2 ^ 63 -> (j <= 63)%nat -> cvalid 63 (xc m j).
Proof.
  intros Hm Hj. unfold cvalid, xc. cbn [fst snd]. split; [exact Hj|].
  apply N.div_lt_upper_bound; [apply N.neq_0_lt_0, p2_pos|]. unfold p2. rewrite <- N.pow_add_r.
  replace (N.of_nat j + (N.of_nat 63 - N.of_nat j)) with 63 by lia. exact Hm.
Qed.

Lemma spine_left m (j : nat) : m < 2 ^ 63 -> (j < 63)%nat ->
  LeftChild (cpos 63 (xc m (S j))) 63 = cpos 63 (chd 0 (xc m (S j))).
Proof.
  intros Hm Hj. rewrite !cpos_gpos. unfold chd, xc. cbn [fst snd Nat.pred].
  replace (N.of_nat (S j)) with (N.of_nat j + 1) by lia. change (N.of_nat 63) with 63.
  rewrite LeftChild_gpos; [rewrite N.add_0_r; reflexivity|lia|lia|].
  apply N.div_lt_upper_bound; [apply N.neq_0_lt_0, p2_pos|]. unfold p2. rewrite <- N.pow_add_r.
  replace (N.of_nat (S j) + (63 - N.of_nat j - 1)) with 63 by lia. exact Hm.
Qed.

Lemma spine_right m (j : nat) : m < 2 ^ 63 -> (j < 63)%nat -> bit m j = true ->
  RightChild (cpos 63 (xc m (S j))) 63 = cpos 63 (xc m j).
Proof.
  intros Hm Hj Hb. rewrite (xc_child m j Hb). rewrite !cpos_gpos. unfold chd, xc. cbn [fst snd Nat.pred].
  replace (N.of_nat (S j)) with (N.of_nat j + 1) by lia. change (N.of_nat 63) with 63.
  rewrite RightChild_gpos; [reflexivity|lia|lia|].
  apply N.div_lt_upper_bound; [apply N.neq_0_lt_0, p2_pos|]. unfold p2. rewrite <- N.pow_add_r.
  replace (N.of_nat (S j) + (63 - N.of_nat j - 1)) with 63 by lia. exact Hm.
Qed.

Lemma cpos63_row0 q : cpos 63 (0%nat, q) = q.
Proof. unfold cpos, pos. cbn [fst snd]. change (N.of_nat 0) with 0. rewrite N.sub_0_r. lia. Qed.

Lemma LeftChild_row0 q : q < 2 ^ 63 -> LeftChild q 63 = 2 * q.
Proof.
  intros Hq. unfold LeftChild. rewrite shl_mod by lia. rewrite N.pow_1_r.
  assert (2 ^ 63 * 2 = W) by reflexivity.
  rewrite (N.mod_small (q * 2) W) by lia. rewrite land_mask_small; [lia|lia|].
  change (2 ^ (63 + 1)) with W. lia.
Qed.

Section Walk1.
  Variable H : Type.
  Variable HO : ops H.
  Local Notation entry := (StumpAdd.entry H).
  Local Notation erow := (@StumpAdd.erow H).
  Local Notation ecoord := (@StumpAddData.ecoord H).
  Local Notation nones := (@StumpAddData.nones H).
  Local Notation chain_at := (@StumpAddData.chain_at H).
  Variable m : N.
  Hypothesis Hm : m < 2 ^ 63.

  (** what the walk needs from [toDestroy]: exactly the empty roots of the chain are listed, and the
      probe of the last iteration (row 0) misses *)
  Definition TDok (td : list N) (ch : list entry) : Prop :=
    NoDup td /\ ~ In (2 * m) td /\
    forall e, In e ch -> (In (cpos 63 (ecoord e)) td <-> snd e = None).

  Lemma chain_coord_valid (ch : list entry) h e : chain_at m h ch -> In e ch -> (h + length ch <= 63)%nat ->
    cvalid 63 (ecoord e) /\ (fst (ecoord e) = erow e) /\ (h <= erow e < h + length ch)%nat.
  Proof.
    revert h. induction ch as [|e0 ch IH]; intros h Hc Hin Hl; [destruct Hin|].
    destruct Hc as (Hr & Hlo & Hb & Hc). cbn [length] in Hl. destruct Hin as [<-|Hin].
    - rewrite (chain_entry_coord H m h e0 Hr Hlo). split; [|split; [cbn [fst chd xc Nat.pred]; lia|cbn [length]; lia]].
      apply chd_valid; [lia|cbn [xc fst]; lia|apply xc_valid63; [exact Hm|lia]].
    - destruct (IH (S h) Hc Hin ltac:(lia)) as (A & B & C). split; [exact A|split; [exact B|cbn [length]; lia]].
  Qed.

  Lemma walk_td : forall (ch : list entry) td p, chain_at m 0 ch -> (length ch <= 63)%nat -> TDok td ch ->
    usa_pt (S (length ch)) 63 (cpos 63 (xc m (length ch))) td p = unl63 (rev (nones ch)) p /\
    usa_last (S (length ch)) 63 (cpos 63 (xc m (length ch))) = m /\
    NoDup (usa_td (S (length ch)) 63 (cpos 63 (xc m (length ch))) td) /\
    forall z, In z (usa_td (S (length ch)) 63 (cpos 63 (xc m (length ch))) td)
              <-> In z td /\ ~ In z (map (cpos 63) (nones ch)).
  Proof.
    induction ch as [|e ch IH] using rev_ind; intros td p Hc Hl (Hnd & H2m & Hok).
    - cbn [length usa_pt usa_td usa_last rev nones flat_map unl63 fold_left map].
      assert (E0 : cpos 63 (xc m 0) = m) by (unfold xc; rewrite p2_0, N.div_1_r; apply cpos63_row0).
      rewrite E0, (LeftChild_row0 m Hm).
      rewrite (proj2 (indexN_none (2 * m) td) H2m). split; [reflexivity|]. split; [reflexivity|].
      split; [exact Hnd|]. intros z. tauto.
    - rewrite app_length in *. cbn [length] in *. rewrite Nat.add_1_r in *.
      apply chain_at_app in Hc as [Hc1 Hc2]. cbn [Nat.add] in Hc2. destruct Hc2 as (Hr & Hlo & Hb & _).
      set (j := length ch) in *.
      assert (Epr : LeftChild (cpos 63 (xc m (S j))) 63 = cpos 63 (ecoord e)).
      { rewrite (spine_left m j Hm ltac:(lia)). rewrite (chain_entry_coord H m j e Hr Hlo). reflexivity. }
      assert (Erc : RightChild (cpos 63 (xc m (S j))) 63 = cpos 63 (xc m j))
        by (apply spine_right; [exact Hm|lia|exact Hb]).
      assert (Epar : Parent (cpos 63 (ecoord e)) 63 = cpos 63 (xc m (S j))).
      { rewrite (chain_entry_coord H m j e Hr Hlo).
        pose proof (Parent_cpos 63 (chd 0 (xc m (S j))) ltac:(lia)) as Pp. change (N.of_nat 63) with 63 in Pp.
        rewrite Pp.
        - unfold par, chd, xc. cbn [fst snd Nat.pred]. f_equal. f_equal. rewrite N.add_0_r, N.mul_comm, N.div_mul by lia. reflexivity.
        - cbn [chd fst Nat.pred xc]. lia.
        - apply chd_valid; [lia|cbn [xc fst]; lia|apply xc_valid63; [exact Hm|lia]]. }
      assert (Hve : cvalid 63 (ecoord e) /\ fst (ecoord e) = j).
      { rewrite (chain_entry_coord H m j e Hr Hlo). split; [|reflexivity].
        apply chd_valid; [lia|cbn [xc fst]; lia|apply xc_valid63; [exact Hm|lia]]. }
      assert (Hdiff : forall e', In e' ch -> cpos 63 (ecoord e') <> cpos 63 (ecoord e)).
      { intros e' He' Ec. destruct (chain_coord_valid ch 0 e' Hc1 He' ltac:(lia)) as (V' & F' & R').
        apply cpos_inj in Ec; [|lia|exact V'|exact (proj1 Hve)].
        rewrite Ec in F'. destruct Hve as [_ Fe]. fold j in R'. lia. }
      change (usa_pt (S (S j)) 63 ?q td p) with
        (match indexN (LeftChild q 63) td with
         | Some k => usa_pt (S j) 63 (RightChild q 63) (delete_at k td) (moveDownPosition 63 q (LeftChild q 63) p)
         | None => usa_pt (S j) 63 (RightChild q 63) td p end).
      change (usa_td (S (S j)) 63 ?q td) with
        (match indexN (LeftChild q 63) td with
         | Some k => usa_td (S j) 63 (RightChild q 63) (delete_at k td)
         | None => usa_td (S j) 63 (RightChild q 63) td end).
      change (usa_last (S (S j)) 63 ?q) with (usa_last (S j) 63 (RightChild q 63)).
      rewrite Epr, Erc. rewrite nones_app, rev_app_distr.
      pose proof (Hok e ltac:(apply in_or_app; right; left; reflexivity)) as Hoke.
      destruct (snd e) as [ce|] eqn:Ese.
      + assert (Hni : ~ In (cpos 63 (ecoord e)) td) by (intros Hi; apply Hoke in Hi; discriminate).
        rewrite (proj2 (indexN_none _ td) Hni).
        assert (En1 : nones [e] = []) by (unfold StumpAddData.nones; cbn [flat_map]; rewrite Ese; reflexivity).
        rewrite En1. cbn [app rev]. rewrite app_nil_r.
        destruct (IH td p Hc1 ltac:(lia)) as (A & B & C & D).
        { split; [exact Hnd|]. split; [exact H2m|]. intros e' He'. apply Hok. apply in_or_app. left. exact He'. }
        split; [exact A|]. split; [exact B|]. split; [exact C|].
        exact D.
      + assert (Hi : In (cpos 63 (ecoord e)) td) by (apply Hoke; reflexivity).
        destruct (indexN (cpos 63 (ecoord e)) td) as [k|] eqn:Ek; [|exfalso; exact (proj1 (indexN_none _ td) Ek Hi)].
        destruct (indexN_delete _ td k Hnd Ek) as [Nd' In'].
        assert (En1 : nones [e] = [ecoord e]) by (unfold StumpAddData.nones; cbn [flat_map]; rewrite Ese; reflexivity).
        rewrite En1. cbn [app rev unl63 fold_left].
        destruct (IH (delete_at k td) (moveDownPosition 63 (cpos 63 (xc m (S j))) (cpos 63 (ecoord e)) p) Hc1 ltac:(lia))
          as (A & B & C & D).
        { split; [exact Nd'|]. split; [intros Hc; apply In' in Hc; tauto|].
          intros e' He'. rewrite In'. rewrite <- (Hok e' ltac:(apply in_or_app; left; exact He')).
          pose proof (Hdiff e' He'). tauto. }
        rewrite Epar. split; [exact A|]. split; [exact B|]. split; [exact C|].
        intros z. rewrite D, In', map_app, in_app_iff. cbn [map In]. split.
        * intros [[Hz Hne] Hn]. split; [exact Hz|]. intros [Hc|[Hc|[]]]; [exact (Hn Hc)|congruence].
        * intros [Hz Hn]. split; [split; [exact Hz|]|]; [intros ->; apply Hn; right; left; reflexivity|intros Hc; apply Hn; left; exact Hc].
  Qed.
End Walk1.


(** * A3. One addition undone, on the reference forest *)

Section LeafPos.
  Variable H : Type.
  Variable HO : ops H.
  Hypothesis HOK : ops_ok HO.

  Lemma lp_locc (s : slots H) h r o : NoDup (live s) -> locc H HO s (CLeaf h) r o ->
    lp H HO s h = cpos 63 (r, o).
  Proof.
    intros Hnd Hl. destruct (locc_node H HO s _ _ _ Hl) as (x & Hx & Xr & Xo & Xh & Xl).
    cbn [chash cleafb] in Xh, Xl. unfold lp, leaf_pos.
    rewrite <- Xh. rewrite (find_leaf_of_node H HO HOK s x Hnd Hx Xl).
    unfold npos, cpos. cbn [fst snd]. rewrite Xr, Xo. reflexivity.
  Qed.

  Lemma live_locc (s : slots H) h : In (Some h) s -> exists r o, locc H HO s (CLeaf h) r o.
  Proof.
    intros Hin. apply (find_leaf_live H HO s h HOK) in Hin as (x & Ef & _ & Xl & Xh).
    apply (find_leaf_some H HO _ _ _ HOK) in Ef as (Hx & _ & _).
    destruct (node_locc H HO s x Hx Xl) as (k & lo & c & He & Ho & _).
    rewrite Xh in Ho. exists (nrow x), (noff x), k, lo, c. auto.
  Qed.
End LeafPos.

Lemma low_ones m (L : nat) : (forall j, (j < L)%nat -> N.testbit m (N.of_nat j) = true) ->
  m mod 2 ^ N.of_nat L = 2 ^ N.of_nat L - 1.
Proof.
  intros Hones.
  replace (2 ^ N.of_nat L - 1) with (N.ones (N.of_nat L)) by (rewrite N.ones_equiv, N.pred_sub; reflexivity).
  apply N.bits_inj. intros i.
  destruct (N.lt_ge_cases i (N.of_nat L)) as [Hi|Hi].
  - rewrite N.mod_pow2_bits_low, N.ones_spec_low by exact Hi.
    rewrite <- (N2Nat.id i). apply Hones. lia.
  - rewrite N.mod_pow2_bits_high, N.ones_spec_high by exact Hi. reflexivity.
Qed.

Section Step3.
  Variable H : Type.
  Variable HO : ops H.
  Hypothesis HOK : ops_ok HO.
  Local Notation entry := (StumpAdd.entry H).
  Local Notation erow := (@StumpAdd.erow H).
  Local Notation ecoord := (@StumpAddData.ecoord H).
  Local Notation nones := (@StumpAddData.nones H).
  Local Notation somes := (@StumpAddData.somes H).
  Local Notation chain_at := (@StumpAddData.chain_at H).
  Local Notation lp := (lp H HO).

  Variable t : slots H.
  Variable a : H.
  Local Notation t' := (t ++ [Some a]).
  Local Notation m := (num_leaves t).
  Hypothesis Hnd' : NoDup (live t').
  Hypothesis Hb : N.of_nat (length t + 1) <= 2 ^ 62.
  Variables ch un : list entry.
  Hypothesis SD : step_data H HO t a [] ch un.

  Lemma s3_m : m = N.of_nat (length t). Proof. reflexivity. Qed.
  Lemma s3_m62 : m < 2 ^ 62. Proof. unfold num_leaves. lia. Qed.
  Lemma s3_m63 : m < 2 ^ 63.
  Proof. pose proof s3_m62. assert (2 ^ 62 < 2 ^ 63) by (apply N.pow_lt_mono_r; lia). lia. Qed.

  Lemma s3_nd : NoDup (live t).
  Proof. pose proof Hnd' as Hn. rewrite live_app in Hn. apply StumpAddData.NoDup_app_inv in Hn. tauto. Qed.

  Lemma s3_bits j : (j < length ch)%nat -> N.testbit m (N.of_nat j) = true.
  Proof.
    pose proof (sd_chain H HO t a [] ch un SD) as Hc. revert j.
    assert (G : forall (c : list entry) h, chain_at m h c -> forall j, (h <= j < h + length c)%nat ->
                  N.testbit m (N.of_nat j) = true).
    { induction c as [|e c IH]; intros h Hcc j Hj; [cbn [length] in Hj; lia|].
      destruct Hcc as (_ & _ & Hbit & Hcc). cbn [length] in Hj.
      destruct (Nat.eq_dec j h) as [->|Hne]; [exact Hbit|]. apply (IH (S h) Hcc). lia. }
    intros j Hj. apply (G ch 0%nat Hc). lia.
  Qed.

  Lemma s3_len : (length ch <= 62)%nat.
  Proof.
    destruct (Nat.le_gt_cases (length ch) 62) as [Hle|Hgt]; [exact Hle|exfalso].
    pose proof (low_ones m 63 (fun j Hj => s3_bits j ltac:(lia))) as E.
    pose proof (N.mod_le m (2 ^ N.of_nat 63) (pow2_nz _)) as Hle. pose proof s3_m62 as H62.
    change (N.of_nat 63) with 63 in *. assert (2 ^ 62 < 2 ^ 63 - 1) by (vm_compute; reflexivity). lia.
  Qed.

  Lemma s3_lowbit : lowbit (m + 1) (length ch).
  Proof. apply lowbit_succ; [exact s3_bits|exact (sd_stop H HO t a [] ch un SD)]. Qed.

  (** coordinates of the destroyed roots *)
  Lemma s3_D_valid d : In d (nones ch) -> (fst d < 63)%nat /\ cvalid 63 d.
  Proof.
    intros Hd. apply nones_in in Hd as (e & He & _ & ->).
    destruct (chain_coord_valid H m s3_m63 ch 0 e (sd_chain H HO t a [] ch un SD) He
                ltac:(pose proof s3_len; lia)) as (V & F & R).
    pose proof s3_len. split; [rewrite F; lia|exact V].
  Qed.

  Lemma s3_tdc : to_destroy_c H HO t [a] = nones ch.
  Proof. rewrite (sd_dest H HO t a [] ch un SD). cbn [to_destroy_c]. apply app_nil_r. Qed.

  (** an old leaf *)
  Lemma s3_old h : In (Some h) t ->
    unl63 (rev (nones ch)) (lp t' h) = lp t h.
  Proof.
    intros Hin. destruct (live_locc H HO HOK t h Hin) as (r0 & o0 & Hl).
    assert (Hb63 : N.of_nat (length t + length [a]) <= 2 ^ 63).
    { cbn [length]. assert (2 ^ 62 < 2 ^ 63) by (apply N.pow_lt_mono_r; lia). lia. }
    destruct (lift_adds HO [a] t Hb63) as [Up _]. specialize (Up _ _ _ Hl).
    pose proof (unlift_adds H HO [a] t Hb63 _ _ _ Hl) as Hu.
    rewrite s3_tdc in Up, Hu. cbn [map] in Up.
    rewrite (lp_locc H HO HOK t' h _ _ Hnd' Up), (lp_locc H HO HOK t h _ _ s3_nd Hl).
    rewrite <- surjective_pairing.
    pose proof (ua_locc_cinf H HO t' _ _ _ Up) as Hci. rewrite <- surjective_pairing in Hci.
    assert (Hv : cvalid 63 (liftc (nones ch) (r0, o0))).
    { apply (cinf_valid 63 (N.of_nat (length t'))); [|exact Hci].
      rewrite app_length. cbn [length]. change (N.of_nat 63) with 63.
      assert (2 ^ 62 < 2 ^ 63) by (apply N.pow_lt_mono_r; lia). lia. }
    destruct (unl_bridge 63 ltac:(lia) (rev (nones ch)) _ _
                (fun d Hd => s3_D_valid d (proj2 (in_rev _ _) Hd)) Hv Hu) as [E _].
    exact E.
  Qed.

  (** the new leaf *)
  Lemma s3_new_locc : locc H HO t' (CLeaf a) (fst (liftc (nones ch) (xc m 0))) (snd (liftc (nones ch) (xc m 0))).
  Proof.
    pose proof (lift_chain H m [] ch 0 (sd_chain H HO t a [] ch un SD) I) as E.
    rewrite app_nil_r in E. cbn [Nat.add liftc fold_left] in E. rewrite E.
    rewrite (desc_walk H). apply (locc_path H HO).
    exists (length ch, last_lo H ch m, Some (merge H HO ch (CLeaf a))), (merge H HO ch (CLeaf a)),
           (repeat true (somes ch)).
    split.
    { apply (in_rev (forest HO t')). rewrite (sd_next H HO t a [] ch un SD). left. reflexivity. }
    split; [reflexivity|]. split; [apply merge_path|].
    rewrite (sd_coord H HO t a [] ch un SD). split; [apply surjective_pairing|].
    rewrite repeat_length. unfold StumpAdd.erow. cbn [fst]. apply somes_le.
  Qed.

  Lemma s3_new_unl : unl_to (rev (nones ch)) (liftc (nones ch) (xc m 0)) (xc m 0).
  Proof.
    apply unl_to_prefix. intros D0 d D1 ED. cbv zeta.
    destruct (nones_split H ch D0 d D1 ED) as (cha & e2 & chb & Ech & Hn2 & -> & -> & ->).
    pose proof (sd_chain H HO t a [] ch un SD) as Hc. rewrite Ech in Hc.
    apply (chain_at_app H) in Hc as [Hca Hc2]. cbn [Nat.add] in Hc2. destruct Hc2 as (Hr2 & Hlo2 & Hb2 & _).
    pose proof (lift_chain H m [] cha 0 Hca I) as E.
    rewrite app_nil_r in E. cbn [Nat.add liftc fold_left] in E. fold (liftc (nones cha) (xc m 0)) in E.
    rewrite E, (desc_walk H).
    apply (sib_walk_unlift H m (length cha) e2 (repeat true (somes cha)) Hr2 Hlo2 Hb2).
    rewrite repeat_length. apply somes_le.
  Qed.

  Lemma s3_new : lp t' a = cpos 63 (liftc (nones ch) (xc m 0)) /\
                 unl63 (rev (nones ch)) (lp t' a) = m.
  Proof.
    pose proof s3_new_locc as Hl.
    assert (E : lp t' a = cpos 63 (liftc (nones ch) (xc m 0))).
    { rewrite (lp_locc H HO HOK t' a _ _ Hnd' Hl), <- surjective_pairing. reflexivity. }
    split; [exact E|]. rewrite E.
    pose proof (ua_locc_cinf H HO t' _ _ _ Hl) as Hci. rewrite <- surjective_pairing in Hci.
    assert (Hv : cvalid 63 (liftc (nones ch) (xc m 0))).
    { apply (cinf_valid 63 (N.of_nat (length t'))); [|exact Hci].
      rewrite app_length. cbn [length]. change (N.of_nat 63) with 63.
      assert (2 ^ 62 < 2 ^ 63) by (apply N.pow_lt_mono_r; lia). lia. }
    destruct (unl_bridge 63 ltac:(lia) (rev (nones ch)) _ _
                (fun d Hd => s3_D_valid d (proj2 (in_rev _ _) Hd)) Hv s3_new_unl) as [E2 _].
    unfold unl63. change (N.of_nat 63) with 63 in E2. rewrite E2.
    unfold xc. rewrite p2_0, N.div_1_r. apply cpos63_row0.
  Qed.
End Step3.


(** * A4. The popped roots of a run of additions *)

(** [d] is the coordinate of a root that the addition to a forest of [n] leaves pops *)
Definition Pop (n : N) (d : coord) : Prop :=
  (forall j, (j <= fst d)%nat -> N.testbit n (N.of_nat j) = true) /\
  snd d = 2 * (n / p2 (S (fst d))).

Lemma Pop_inj n n' d : Pop n d -> Pop n' d -> n = n'.
Proof.
  intros [B1 S1] [B2 S2]. set (k := S (fst d)) in *.
  pose proof (low_ones n k (fun j Hj => B1 j ltac:(unfold k in Hj; lia))) as M1.
  pose proof (low_ones n' k (fun j Hj => B2 j ltac:(unfold k in Hj; lia))) as M2.
  pose proof (N.div_mod n (2 ^ N.of_nat k) (pow2_nz _)) as D1.
  pose proof (N.div_mod n' (2 ^ N.of_nat k) (pow2_nz _)) as D2.
  unfold p2 in S1, S2. rewrite S1 in S2.
  assert (Eq : n / 2 ^ N.of_nat k = n' / 2 ^ N.of_nat k) by (clear - S2; lia).
  rewrite M1 in D1. rewrite M2, <- Eq in D2. clear - D1 D2. lia.
Qed.

Lemma Pop_valid n d : Pop n d -> n < 2 ^ 62 -> (fst d < 62)%nat /\ cvalid 63 d /\ snd d * p2 (fst d) + p2 (fst d) <= n.
Proof.
  intros [B Sd] Hn.
  assert (Hk : (fst d < 62)%nat).
  { destruct (Nat.lt_ge_cases (fst d) 62) as [Hl|Hg]; [exact Hl|exfalso].
    pose proof (low_ones n 63 (fun j Hj => B j ltac:(lia))) as E.
    pose proof (N.mod_le n (2 ^ N.of_nat 63) (pow2_nz _)) as Hle.
    change (N.of_nat 63) with 63 in *. assert (2 ^ 62 < 2 ^ 63 - 1) by (vm_compute; reflexivity). lia. }
  pose proof (low_ones n (S (fst d)) (fun j Hj => B j ltac:(lia))) as M.
  pose proof (N.div_mod n (2 ^ N.of_nat (S (fst d))) (pow2_nz _)) as D. rewrite M in D.
  assert (EP : 2 ^ N.of_nat (S (fst d)) = 2 * p2 (fst d)) by (rewrite Nat2N.inj_succ, N.pow_succ_r'; reflexivity).
  pose proof (p2_pos (fst d)) as Hp. unfold p2 in Sd at 1. rewrite EP in *.
  assert (Hblk : snd d * p2 (fst d) + p2 (fst d) <= n).
  { rewrite Sd. clear - D Hp. set (q := n / (2 * p2 (fst d))) in *. nia. }
  split; [exact Hk|]. split; [|exact Hblk].
  split; [lia|].
  assert (Hlt : snd d * p2 (fst d) < 2 ^ 63).
  { assert (2 ^ 62 < 2 ^ 63) by (apply N.pow_lt_mono_r; lia). lia. }
  assert (E63 : 2 ^ 63 = 2 ^ (N.of_nat 63 - N.of_nat (fst d)) * p2 (fst d)).
  { unfold p2. rewrite <- N.pow_add_r. f_equal. lia. }
  rewrite E63 in Hlt. apply N.mul_lt_mono_pos_r in Hlt; [exact Hlt|exact Hp].
Qed.

Lemma cpos63_ge r o : (1 <= r)%nat -> (r <= 63)%nat -> 2 ^ 63 <= cpos 63 (r, o).
Proof.
  intros H1 H2. unfold cpos, pos. cbn [fst snd]. change (N.of_nat 63 + 1) with 64.
  assert (2 ^ (64 - N.of_nat r) <= 2 ^ 63) by (apply N.pow_le_mono_r; lia).
  assert (E : 2 ^ 64 = 2 * 2 ^ 63) by reflexivity. lia.
Qed.

Lemma Pop_not_2m n d m : Pop n d -> n <= m -> m < 2 ^ 62 -> cpos 63 d <> 2 * m.
Proof.
  intros HP Hnm Hm. destruct (Pop_valid n d HP ltac:(lia)) as (Hk & _ & Hblk).
  destruct d as [r o]. cbn [fst snd] in *. destruct r as [|r].
  - rewrite cpos63_row0. rewrite p2_0 in Hblk. intros E.
    assert (m = 0) by lia. subst m. assert (n = 0) by lia. subst n.
    destruct HP as [B _]. specialize (B 0%nat ltac:(cbn; lia)). cbn in B. discriminate.
  - pose proof (cpos63_ge (S r) o ltac:(lia) ltac:(lia)) as Hge.
    assert (2 * 2 ^ 62 = 2 ^ 63) by reflexivity. lia.
Qed.

Section Pops.
  Variable H : Type.
  Variable HO : ops H.
  Local Notation entry := (StumpAdd.entry H).
  Local Notation erow := (@StumpAdd.erow H).
  Local Notation ecoord := (@StumpAddData.ecoord H).
  Local Notation nones := (@StumpAddData.nones H).
  Local Notation chain_at := (@StumpAddData.chain_at H).

  Lemma chain_bits n : forall (c : list entry) h, chain_at n h c -> forall j, (h <= j < h + length c)%nat ->
    N.testbit n (N.of_nat j) = true.
  Proof.
    induction c as [|e c IH]; intros h Hcc j Hj; [cbn [length] in Hj; lia|].
    destruct Hcc as (_ & _ & Hbit & Hcc). cbn [length] in Hj.
    destruct (Nat.eq_dec j h) as [->|Hne]; [exact Hbit|]. apply (IH (S h) Hcc). lia.
  Qed.

  Lemma chain_Pop n (ch : list entry) e : chain_at n 0 ch -> In e ch -> Pop n (ecoord e).
  Proof.
    intros Hc He. apply in_split in He as (c1 & c2 & ->).
    pose proof Hc as Hc'. apply (chain_at_app H) in Hc' as [_ Hc2]. cbn [Nat.add] in Hc2.
    destruct Hc2 as (Hr & Hlo & _ & _).
    rewrite (chain_entry_coord H n (length c1) e Hr Hlo). unfold Pop, chd, xc. cbn [fst snd Nat.pred]. split.
    - intros j Hj. apply (chain_bits n _ 0 Hc). rewrite app_length. cbn [length]. lia.
    - rewrite N.add_0_r. reflexivity.
  Qed.

  Lemma chain_row_inj n : forall (ch : list entry) h e1 e2, chain_at n h ch -> In e1 ch -> In e2 ch ->
    erow e1 = erow e2 -> e1 = e2.
  Proof.
    induction ch as [|e ch IH]; intros h e1 e2 Hc H1 H2 Er; [destruct H1|].
    pose proof Hc as (Hr & _ & _ & Hc').
    destruct H1 as [<-|H1], H2 as [<-|H2]; try reflexivity.
    - pose proof (chain_at_rows H n ch (S h) e2 Hc' H2). lia.
    - pose proof (chain_at_rows H n ch (S h) e1 Hc' H1). lia.
    - exact (IH (S h) e1 e2 Hc' H1 H2 Er).
  Qed.

  Lemma to_destroy_c_app : forall (l1 l2 : list H) (s : slots H),
    to_destroy_c H HO s (l1 ++ l2) = to_destroy_c H HO s l1 ++ to_destroy_c H HO (s ++ map Some l1) l2.
  Proof.
    induction l1 as [|x l1 IH]; intros l2 s; cbn [app to_destroy_c map].
    - rewrite app_nil_r. reflexivity.
    - rewrite IH, <- !app_assoc. reflexivity.
  Qed.

  Lemma tdc_Pop : forall (adds : list H) (s : slots H) d,
    N.of_nat (length s + length adds) <= 2 ^ 63 -> In d (to_destroy_c H HO s adds) ->
    exists i, (i < length adds)%nat /\ Pop (N.of_nat (length s + i)) d.
  Proof.
    induction adds as [|x adds IH]; intros s d Hb Hd; [destruct Hd|].
    cbn [length] in Hb.
    destruct (step_data_ex H HO s x adds ltac:(lia)) as (ch & un & SD).
    rewrite (sd_dest H HO s x adds ch un SD) in Hd. apply in_app_or in Hd as [Hd|Hd].
    - apply nones_in in Hd as (e & He & _ & ->). exists 0%nat. split; [cbn [length]; lia|].
      rewrite Nat.add_0_r. exact (chain_Pop _ ch e (sd_chain H HO s x adds ch un SD) He).
    - destruct (IH (s ++ [Some x]) d ltac:(rewrite app_length; cbn [length]; lia) Hd) as (i & Hi & HP).
      exists (S i). split; [cbn [length]; lia|]. rewrite app_length in HP. cbn [length] in HP.
      replace (length s + S i)%nat with (length s + 1 + i)%nat by lia. exact HP.
  Qed.
End Pops.


(** * A5. [undoSingleAdd] on the reference, [undoAdd] by induction *)

Section Step5.
  Variable H : Type.
  Variable HO : ops H.
  Hypothesis HOK : ops_ok HO.
  Local Notation entry := (StumpAdd.entry H).
  Local Notation erow := (@StumpAdd.erow H).
  Local Notation ecoord := (@StumpAddData.ecoord H).
  Local Notation nones := (@StumpAddData.nones H).
  Local Notation chain_at := (@StumpAddData.chain_at H).
  Local Notation lp := (lp H HO).

  Lemma far_unl m (ch : list entry) q : chain_at m 0 ch -> m < 2 ^ 62 -> m < q -> q < 2 ^ 63 ->
    unl63 (rev (nones ch)) q = q.
  Proof.
    intros Hc Hm Hq Hq63.
    assert (HD : forall d, In d (rev (nones ch)) -> (fst d < 63)%nat /\ cvalid 63 d /\ mv d (0%nat, q) = false).
    { intros d Hd. apply in_rev in Hd. apply nones_in in Hd as (e & He & _ & ->).
      pose proof (chain_Pop H m ch e Hc He) as HP.
      destruct (Pop_valid m _ HP Hm) as (Hk & Hv & _). split; [lia|]. split; [exact Hv|].
      destruct HP as [B Sd]. unfold mv. cbn [fst snd]. rewrite Nat.sub_0_r.
      apply andb_false_iff. right. apply N.eqb_neq. rewrite Sd.
      rewrite N.mul_comm, N.div_mul by lia. unfold p2.
      set (k := S (fst (ecoord e))) in *.
      pose proof (low_ones m k (fun j Hj => B j ltac:(unfold k in Hj; lia))) as M.
      pose proof (N.div_mod m (2 ^ N.of_nat k) (pow2_nz _)) as D1. rewrite M in D1.
      pose proof (N.div_mod q (2 ^ N.of_nat k) (pow2_nz _)) as D2.
      pose proof (N.mod_lt q (2 ^ N.of_nat k) (pow2_nz _)) as L2.
      pose proof (UtilsGeom.pow2_pos (N.of_nat k)) as Hp.
      intros Eq. rewrite Eq in D2. clear - D1 D2 L2 Hq Hp. nia. }
    pose proof (unl_bridge 63 ltac:(lia) (rev (nones ch)) (0%nat, q) (0%nat, q)
                  (fun d Hd => conj (proj1 (HD d Hd)) (proj1 (proj2 (HD d Hd))))) as Hbr.
    rewrite cpos63_row0 in Hbr. change (N.of_nat 63) with 63 in Hbr. apply Hbr.
    - split; [cbn; lia|]. cbn [fst snd]. change (N.of_nat 63 - N.of_nat 0) with 63. exact Hq63.
    - apply unl_to_id. intros d Hd. exact (proj2 (proj2 (HD d Hd))).
  Qed.

  Variable t : slots H.
  Variable a : H.
  Local Notation t' := (t ++ [Some a]).
  Local Notation m := (num_leaves t).
  Hypothesis Hnd' : NoDup (live t').
  Hypothesis Hb : N.of_nat (length t + 1) <= 2 ^ 62.
  Variables ch un : list entry.
  Hypothesis SD : step_data H HO t a [] ch un.

  Lemma s5_root : rootPosition (m + 1) (N.of_nat (length ch)) 63 = cpos 63 (xc m (length ch)).
  Proof.
    pose proof (s3_len H HO t a Hb ch un SD) as Hl. pose proof (s3_m62 H t Hb) as Hm.
    rewrite rootPosition_gpos; [|lia|lia|].
    2:{ assert (2 ^ 62 < 2 ^ 63) by (apply N.pow_lt_mono_r; lia). lia. }
    rewrite cpos_gpos. unfold xc. cbn [fst snd]. change (N.of_nat 63) with 63. f_equal.
    destruct (s3_lowbit H HO t a Hb ch un SD) as [Hb1 Hb2].
    set (L := N.of_nat (length ch)) in *.
    pose proof (do_bit_div (m + 1) L) as Db. rewrite Hb1 in Db. cbn [N.b2n] in Db.
    pose proof (N.div_mod (m + 1) (2 ^ L) (pow2_nz _)) as D1. rewrite Hb2, N.add_0_r in D1.
    unfold p2. fold L.
    pose proof (UtilsGeom.pow2_pos L) as Hp.
    assert (E : m = 2 ^ L * (2 * ((m + 1) / 2 ^ (L + 1))) + (2 ^ L - 1)).
    { rewrite Db in D1. clear - D1 Hp. nia. }
    apply (N.div_unique m (2 ^ L) _ (2 ^ L - 1)); [clear - Hp; lia|exact E].
  Qed.

  Lemma s5_code P TD : TDok H m TD ch ->
    exists TD', undoSingleAdd 63 P TD (m + 1)
      = (map (unl63 (rev (nones ch))) P, TD',
         indexN m (map (unl63 (rev (nones ch))) P)) /\
      NoDup TD' /\ forall z, In z TD' <-> In z TD /\ ~ In z (map (cpos 63) (nones ch)).
  Proof.
    intros Hok. pose proof (s3_len H HO t a Hb ch un SD) as Hl. pose proof (s3_m62 H t Hb) as Hm.
    pose proof (s3_m63 H t Hb) as Hm63.
    unfold undoSingleAdd.
    assert (E1 : sub64 (m + 1) 1 = m).
    { rewrite sub64_small; [lia|lia|]. rewrite W_pow. assert (2 ^ 62 < 2 ^ 64) by (apply N.pow_lt_mono_r; lia). lia. }
    rewrite E1.
    assert (Hn63 : m + 1 <= 2 ^ 63) by lia.
    pose proof (subtree_of_last (m + 1) ltac:(lia) Hn63) as Est.
    replace (m + 1 - 1) with m in Est by lia. rewrite Est.
    rewrite (subtreeRow_last (m + 1) (length ch) ltac:(lia) Hn63 (s3_lowbit H HO t a Hb ch un SD)).
    rewrite Nat2N.id, s5_root.
    rewrite usa_loop_pt by lia.
    destruct (walk_td H m Hm63 ch TD 0 (sd_chain H HO t a [] ch un SD) ltac:(lia) Hok) as (_ & Elast & Hnd & Hin).
    rewrite Elast.
    eexists. split; [|split; [exact Hnd|exact Hin]].
    f_equal; [f_equal|].
    - apply map_ext. intros p.
      exact (proj1 (walk_td H m Hm63 ch TD p (sd_chain H HO t a [] ch un SD) ltac:(lia) Hok)).
    - assert (Emap : map (usa_pt (S (length ch)) 63 (cpos 63 (xc m (length ch))) TD) P
                     = map (unl63 (rev (nones ch))) P).
      { apply map_ext. intros p.
        exact (proj1 (walk_td H m Hm63 ch TD p (sd_chain H HO t a [] ch un SD) ltac:(lia) Hok)). }
      rewrite Emap. destruct (indexN m (map (unl63 (rev (nones ch))) P)); reflexivity.
  Qed.
End Step5.


Section Compose.
  Variable H : Type.
  Variable HO : ops H.
  Hypothesis HOK : ops_ok HO.
  Local Notation entry := (StumpAdd.entry H).
  Local Notation erow := (@StumpAdd.erow H).
  Local Notation ecoord := (@StumpAddData.ecoord H).
  Local Notation nones := (@StumpAddData.nones H).
  Local Notation chain_at := (@StumpAddData.chain_at H).
  Local Notation lp := (lp H HO).
  Local Notation Heqb := (op_eqb HO).

  (** the [toDestroy] list while the additions [adds] (on top of [s1]) are still to be undone *)
  Definition TDinv (TD : list N) (s1 : slots H) (adds : list H) : Prop :=
    NoDup TD /\ forall z, In z TD <-> In z (map (cpos 63) (to_destroy_c H HO s1 adds)).

  (** the positions list: a leaf of the current state at its position, a leaf whose addition has been
      undone at its slot (a row-0 position beyond the current forest) *)
  Definition cur (st : slots H) (psi : H -> N) (L : list H) : Prop :=
    forall h, In h L ->
      (In (Some h) st /\ psi h = lp st h) \/
      (~ In (Some h) st /\ N.of_nat (length st) <= psi h /\ psi h < 2 ^ 62).

  Lemma lp_cinf (st : slots H) h : NoDup (live st) -> N.of_nat (length st) <= 2 ^ 62 -> In (Some h) st ->
    exists x, lp st h = cpos 63 x /\ cinf (N.of_nat (length st)) x /\ cvalid 63 x.
  Proof.
    intros Hnd Hb Hin. destruct (live_locc H HO HOK st h Hin) as (r & o & Hl).
    exists (r, o). split; [exact (lp_locc H HO HOK st h r o Hnd Hl)|].
    pose proof (ua_locc_cinf H HO st _ _ _ Hl) as Hc. split; [exact Hc|].
    apply (cinf_valid 63 (N.of_nat (length st))); [|exact Hc]. change (N.of_nat 63) with 63.
    assert (2 ^ 62 < 2 ^ 63) by (apply N.pow_lt_mono_r; lia). lia.
  Qed.

  Lemma idxH_fix a : forall L : list H,
    (fix go (l : list H) : option nat :=
       match l with
       | [] => None
       | x :: t => if Heqb x a then Some O else match go t with Some k => Some (S k) | None => None end
       end) L = idxH H HO a L.
  Proof. induction L as [|x L IH]; [reflexivity|]. cbn [idxH]. rewrite IH. reflexivity. Qed.

  Section OneStep.
    Variable s1 : slots H.
    Variable adds : list H.
    Variable a : H.
    Local Notation t := (s1 ++ map Some adds).
    Local Notation t' := (t ++ [Some a]).
    Local Notation m := (num_leaves t).
    Hypothesis Hnd' : NoDup (live t').
    Hypothesis Hb : N.of_nat (length t + 1) <= 2 ^ 62.
    Variables ch un : list entry.
    Hypothesis SD : step_data H HO t a [] ch un.

    Lemma os_tdc : to_destroy_c H HO s1 (adds ++ [a]) = to_destroy_c H HO s1 adds ++ nones ch.
    Proof. rewrite to_destroy_c_app. f_equal. apply (s3_tdc H HO t a ch un SD). Qed.

    Lemma os_older d : In d (to_destroy_c H HO s1 adds) -> exists n, n < m /\ Pop n d.
    Proof.
      intros Hd. destruct (tdc_Pop H HO adds s1 d) as (i & Hi & HP); [|exact Hd|].
      - rewrite app_length, map_length in Hb. assert (2 ^ 62 < 2 ^ 63) by (apply N.pow_lt_mono_r; lia). lia.
      - exists (N.of_nat (length s1 + i)). split; [|exact HP]. unfold num_leaves.
        rewrite app_length, map_length. lia.
    Qed.

    Lemma os_TDok TD : TDinv TD s1 (adds ++ [a]) -> TDok H m TD ch.
    Proof.
      intros [Hnd Hin]. pose proof (s3_m62 H t Hb) as Hm. pose proof (sd_chain H HO t a [] ch un SD) as Hc.
      split; [exact Hnd|]. split.
      - intros Hc2. apply Hin in Hc2. apply in_map_iff in Hc2 as (d & Ed & Hd).
        rewrite os_tdc in Hd. apply in_app_or in Hd as [Hd|Hd].
        + destruct (os_older d Hd) as (n & Hn & HP). exact (Pop_not_2m n d m HP ltac:(lia) Hm Ed).
        + apply nones_in in Hd as (e & He & _ & ->).
          exact (Pop_not_2m m _ m (chain_Pop H m ch e Hc He) ltac:(lia) Hm Ed).
      - intros e He. pose proof (chain_Pop H m ch e Hc He) as HPe.
        destruct (Pop_valid m _ HPe Hm) as (_ & Hve & _).
        rewrite Hin, os_tdc, map_app, in_app_iff. split.
        + intros [Hd|Hd]; apply in_map_iff in Hd as (d & Ed & Hd).
          * exfalso. destruct (os_older d Hd) as (n & Hn & HP).
            destruct (Pop_valid n d HP ltac:(lia)) as (_ & Hvd & _).
            apply cpos_inj in Ed; [|lia|exact Hvd|exact Hve]. subst d.
            pose proof (Pop_inj _ _ _ HP HPe). lia.
          * apply nones_in in Hd as (e' & He' & Hn' & ->).
            destruct (Pop_valid m _ (chain_Pop H m ch e' Hc He') Hm) as (_ & Hve' & _).
            apply cpos_inj in Ed; [|lia|exact Hve'|exact Hve].
            assert (e' = e).
            { apply (chain_row_inj H m ch 0 e' e Hc He' He).
              unfold StumpAddData.ecoord in Ed. injection Ed as Er _. exact Er. }
            subst e'. exact Hn'.
        + intros Hn. right. apply in_map. unfold StumpAddData.nones. apply in_flat_map.
          exists e. split; [exact He|]. rewrite Hn. left. reflexivity.
    Qed.

    Lemma os_TDinv TD TD' : TDinv TD s1 (adds ++ [a]) -> NoDup TD' ->
      (forall z, In z TD' <-> In z TD /\ ~ In z (map (cpos 63) (nones ch))) -> TDinv TD' s1 adds.
    Proof.
      intros [Hnd Hin] HndT HTD'. pose proof (s3_m62 H t Hb) as Hm.
      pose proof (sd_chain H HO t a [] ch un SD) as Hc.
      split; [exact HndT|]. intros z. rewrite HTD', Hin, os_tdc, map_app, in_app_iff. split.
      - intros [[Hz|Hz] Hn]; [exact Hz|contradiction].
      - intros Hz. split; [left; exact Hz|]. intros Hz2.
        apply in_map_iff in Hz as (d & <- & Hd). apply in_map_iff in Hz2 as (d' & Ed & Hd').
        destruct (os_older d Hd) as (n & Hn & HP). apply nones_in in Hd' as (e & He & _ & ->).
        pose proof (chain_Pop H m ch e Hc He) as HPe.
        destruct (Pop_valid n d HP ltac:(lia)) as (_ & Hvd & _).
        destruct (Pop_valid m _ HPe Hm) as (_ & Hve & _).
        apply cpos_inj in Ed; [|lia|exact Hve|exact Hvd]. subst d.
        pose proof (Pop_inj _ _ _ HP HPe). lia.
    Qed.

    (** one [undoSingleAdd] *)
    Lemma os_step TD psi (L : list H) : TDinv TD s1 (adds ++ [a]) -> NoDup L -> cur t' psi L ->
      exists TD' psi1,
        undoSingleAdd 63 (map psi L) TD (m + 1) = (map psi1 L, TD', idxH H HO a L) /\
        TDinv TD' s1 adds /\ cur t psi1 L /\
        (In a L -> psi1 a = m) /\
        (forall h, In h L -> ~ In (Some h) t' -> psi1 h = psi h).
    Proof.
      intros HTD HL Hcur. pose proof (s3_m62 H t Hb) as Hm. pose proof (s3_m63 H t Hb) as Hm63.
      pose proof (sd_chain H HO t a [] ch un SD) as Hc.
      pose proof (s3_nd H t a Hnd') as Hnd.
      destruct (s5_code H HO t a Hb ch un SD (map psi L) TD (os_TDok TD HTD)) as (TD' & Ecode & Hnd2 & HTD').
      set (psi1 := fun h => unl63 (rev (nones ch)) (psi h)).
      assert (Hfresh : ~ In (Some a) t).
      { intros Hin. pose proof Hnd' as Hq. rewrite live_app in Hq. apply StumpAddData.NoDup_app_inv in Hq as (_ & _ & Hd).
        apply (Hd a); [apply live_In; exact Hin|left; reflexivity]. }
      assert (Hlive' : forall h, In (Some h) t' <-> In (Some h) t \/ h = a).
      { intros h. rewrite in_app_iff. cbn [In]. split; intros [A|B]; auto.
        - destruct B as [B|[]]. injection B as ->. auto.
        - subst h. auto. }
      assert (P1 : forall h, In h L -> In (Some h) t -> psi1 h = lp t h).
      { intros h Hh Hin. destruct (Hcur h Hh) as [[_ Ep]|[Hn _]].
        - unfold psi1. rewrite Ep. exact (s3_old H HO HOK t a Hnd' Hb ch un SD h Hin).
        - exfalso. apply Hn. apply Hlive'. left. exact Hin. }
      assert (P2 : In a L -> psi1 a = m).
      { intros Ha. destruct (Hcur a Ha) as [[_ Ep]|[Hn _]].
        - unfold psi1. rewrite Ep. exact (proj2 (s3_new H HO HOK t a Hnd' Hb ch un SD)).
        - exfalso. apply Hn. apply Hlive'. right. reflexivity. }
      assert (P3 : forall h, In h L -> ~ In (Some h) t' -> psi1 h = psi h /\ m < psi h /\ psi h < 2 ^ 62).
      { intros h Hh Hn. destruct (Hcur h Hh) as [[Hin _]|[_ [Hlo Hhi]]]; [contradiction|].
        rewrite app_length in Hlo. cbn [length] in Hlo. unfold num_leaves.
        split; [|split; [lia|exact Hhi]]. unfold psi1. apply (far_unl H m ch (psi h) Hc Hm).
        - unfold num_leaves. lia.
        - assert (2 ^ 62 < 2 ^ 63) by (apply N.pow_lt_mono_r; lia). lia. }
      exists TD', psi1. split; [|split; [exact (os_TDinv TD TD' HTD Hnd2 HTD')|split; [|split]]].
      - rewrite Ecode, map_map. fold psi1. f_equal.
        rewrite (indexN_map_unique psi1 m (fun h => Heqb h a) L); [apply idxH_fix|].
        intros h Hh. destruct (Heqb h a) eqn:Eha.
        + apply HOK in Eha. subst h. rewrite (P2 Hh). apply N.eqb_refl.
        + assert (Hne : h <> a) by (intros ->; assert (Heqb a a = true) by (apply HOK; reflexivity); congruence).
          apply N.eqb_neq. destruct (Hcur h Hh) as [[Hin _]|[Hn _]].
          * apply Hlive' in Hin as [Hin|Hc2]; [|contradiction].
            rewrite (P1 h Hh Hin).
            destruct (lp_cinf t h Hnd ltac:(lia) Hin) as (x & -> & Hci & Hv).
            intros Ex. rewrite <- (cpos63_row0 m) in Ex.
            apply cpos_inj in Ex; [|lia|exact Hv|].
            2:{ split; [cbn; lia|]. cbn [fst snd]. change (N.of_nat 63 - N.of_nat 0) with 63. exact Hm63. }
            subst x. unfold cinf in Hci. cbn [fst snd] in Hci. change (N.of_nat 0) with 0 in Hci.
            rewrite N.pow_0_r in Hci. unfold num_leaves in *. lia.
          * destruct (P3 h Hh Hn) as (-> & Hgt & _). lia.
      - intros h Hh. destruct (Hcur h Hh) as [[Hin Ep]|[Hn [Hlo Hhi]]].
        + apply Hlive' in Hin as [Hin| ->].
          * left. split; [exact Hin|exact (P1 h Hh Hin)].
          * right. split; [exact Hfresh|]. rewrite (P2 Hh). unfold num_leaves. split; [lia|exact Hm].
        + right. destruct (P3 h Hh Hn) as (-> & Hgt & Hlt).
          split; [intros Hin; apply Hn, Hlive'; left; exact Hin|]. split; [|exact Hlt].
          unfold num_leaves in Hgt. lia.
      - exact P2.
      - intros h Hh Hn. exact (proj1 (P3 h Hh Hn)).
    Qed.
  End OneStep.
End Compose.


Section UndoAddAll.
  Variable H : Type.
  Variable HO : ops H.
  Hypothesis HOK : ops_ok HO.
  Local Notation entry := (StumpAdd.entry H).
  Local Notation ecoord := (@StumpAddData.ecoord H).
  Local Notation nones := (@StumpAddData.nones H).
  Local Notation chain_at := (@StumpAddData.chain_at H).
  Local Notation lp := (lp H HO).
  Local Notation Heqb := (op_eqb HO).
  Local Notation idxH := (idxH H HO).

  Lemma idxH_app h a : forall l : list H,
    idxH h (l ++ [a]) = match idxH h l with
                        | Some j => Some j
                        | None => if Heqb a h then Some (length l) else None
                        end.
  Proof.
    induction l as [|x l IH]; cbn [app idxH length]; [destruct (Heqb a h); reflexivity|].
    destruct (Heqb x h); [reflexivity|]. rewrite IH. destruct (idxH h l); [reflexivity|].
    destruct (Heqb a h); reflexivity.
  Qed.

  Lemma state_snoc (s1 : slots H) adds a : s1 ++ map Some (adds ++ [a]) = (s1 ++ map Some adds) ++ [Some a].
  Proof. rewrite map_app, app_assoc. reflexivity. Qed.

  Lemma undoAdd_gen : forall (adds : list H) (s1 : slots H) psi (L : list H) TD cr,
    NoDup (live (s1 ++ map Some adds)) -> N.of_nat (length s1 + length adds) <= 2 ^ 62 ->
    TDinv H HO TD s1 adds -> NoDup L -> cur H HO (s1 ++ map Some adds) psi L ->
    exists psi',
      undoAdd_loop (length adds) 63 (map psi L) TD (N.of_nat (length s1 + length adds)) cr
      = (map psi' L, rev cr ++ flat_map (gidx H HO L) (rev adds)) /\
      (forall h j, In h L -> idxH h adds = Some j -> psi' h = N.of_nat (length s1 + j)) /\
      (forall h, In h L -> In (Some h) s1 -> psi' h = lp s1 h) /\
      (forall h, In h L -> ~ In (Some h) (s1 ++ map Some adds) -> psi' h = psi h).
  Proof.
    induction adds as [|a adds IH] using rev_ind; intros s1 psi L TD cr Hnd Hb HTD HL Hcur.
    - exists psi. cbn [length undoAdd_loop rev flat_map map]. rewrite app_nil_r.
      split; [reflexivity|]. split; [intros h j _ E; discriminate|]. split; [|intros h _ _; reflexivity].
      intros h Hh Hin. cbn [map] in Hcur. rewrite app_nil_r in Hcur.
      destruct (Hcur h Hh) as [[_ E]|[Hn _]]; [exact E|contradiction].
    - rewrite app_length in *. cbn [length] in *. rewrite Nat.add_1_r in *.
      rewrite state_snoc in Hnd, Hcur. set (t := s1 ++ map Some adds) in *.
      assert (Elen : length t = (length s1 + length adds)%nat) by (unfold t; rewrite app_length, map_length; reflexivity).
      assert (Hb' : N.of_nat (length t + 1) <= 2 ^ 62) by (rewrite Elen; lia).
      destruct (step_data_ex H HO t a [] ltac:(assert (2 ^ 62 < 2 ^ 63) by (apply N.pow_lt_mono_r; lia); lia)) as (ch & un & SD).
      destruct (os_step H HO HOK s1 adds a Hnd Hb' ch un SD TD psi L HTD HL Hcur)
        as (TD' & psi1 & Estep & HTD' & Hcur1 & Pa & Pfar).
      fold t in Estep, Hcur1, Pa, Pfar.
      assert (En : N.of_nat (length s1 + S (length adds)) = num_leaves t + 1) by (unfold num_leaves; rewrite Elen; lia).
      cbn [undoAdd_loop]. rewrite En, Estep.
      assert (Esub : sub64 (num_leaves t + 1) 1 = N.of_nat (length s1 + length adds)).
      { unfold num_leaves. rewrite Elen. rewrite sub64_small; [lia|lia|]. rewrite W_pow.
        assert (2 ^ 62 < 2 ^ 64) by (apply N.pow_lt_mono_r; lia). lia. }
      rewrite Esub.
      assert (Hndt : NoDup (live t)) by exact (s3_nd H t a Hnd).
      destruct (IH s1 psi1 L TD' (match idxH a L with Some i => i :: cr | None => cr end)
                  Hndt ltac:(lia) HTD' HL Hcur1) as (psi' & Eloop & Q1 & Q2 & Q3).
      exists psi'. split; [|split; [|split]].
      + rewrite Eloop. f_equal. rewrite rev_app_distr. cbn [rev app flat_map]. unfold gidx at 2.
        destruct (idxH a L) as [i|]; cbn [rev app]; [rewrite <- app_assoc|]; reflexivity.
      + intros h j Hh Ej. rewrite idxH_app in Ej. destruct (idxH h adds) as [j'|] eqn:Ej'.
        * injection Ej as <-. exact (Q1 h j' Hh Ej').
        * destruct (Heqb a h) eqn:Eah; [|discriminate]. injection Ej as <-. apply HOK in Eah. subst h.
          assert (Hfresh : ~ In (Some a) t).
          { intros Hin. pose proof Hnd as Hq. rewrite live_app in Hq.
            apply StumpAddData.NoDup_app_inv in Hq as (_ & _ & Hd).
            apply (Hd a); [apply live_In; exact Hin|left; reflexivity]. }
          rewrite (Q3 a Hh Hfresh), (Pa Hh). unfold num_leaves. rewrite Elen. reflexivity.
      + exact Q2.
      + intros h Hh Hn. rewrite state_snoc in Hn. fold t in Hn.
        rewrite (Q3 h Hh); [exact (Pfar h Hh Hn)|]. intros Hin. apply Hn. apply in_or_app. left. exact Hin.
  Qed.

  (** ** the destroyed roots of a run of additions are pairwise distinct positions *)
  Lemma asc_from_nodup : forall (D : list coord) b, asc_from b D -> NoDup D /\ forall d, In d D -> (b <= fst d)%nat.
  Proof.
    induction D as [|d D IH]; intros b HD; [split; [constructor|intros d []]|].
    destruct HD as [Hb HD]. destruct (IH _ HD) as [Hn Hge]. split.
    - constructor; [|exact Hn]. intros Hin. specialize (Hge d Hin). lia.
    - intros d' [<-|Hd']; [exact Hb|]. specialize (Hge d' Hd'). lia.
  Qed.

  Lemma NoDup_map_inj_in {A B} (f : A -> B) (l : list A) :
    (forall x y, In x l -> In y l -> f x = f y -> x = y) -> NoDup l -> NoDup (map f l).
  Proof.
    induction l as [|x l IH]; intros Hinj Hnd; [constructor|]. inversion Hnd as [|? ? Hx Hnd']; subst.
    cbn [map]. constructor.
    - intros Hin. apply in_map_iff in Hin as (y & Ey & Hy). apply Hx.
      rewrite (Hinj x y (or_introl eq_refl) (or_intror Hy) (eq_sym Ey)). exact Hy.
    - apply IH; [|exact Hnd']. intros a b Ha Hb. apply Hinj; right; assumption.
  Qed.

  Lemma tdc_nodup : forall (adds : list H) (s1 : slots H),
    N.of_nat (length s1 + length adds) <= 2 ^ 62 ->
    NoDup (map (cpos 63) (to_destroy_c H HO s1 adds)).
  Proof.
    induction adds as [|a adds IH] using rev_ind; intros s1 Hb; [constructor|].
    rewrite app_length in Hb. cbn [length] in Hb.
    set (t := s1 ++ map Some adds).
    assert (Elen : length t = (length s1 + length adds)%nat) by (unfold t; rewrite app_length, map_length; reflexivity).
    assert (Hb' : N.of_nat (length t + 1) <= 2 ^ 62) by (rewrite Elen; lia).
    destruct (step_data_ex H HO t a [] ltac:(assert (2 ^ 62 < 2 ^ 63) by (apply N.pow_lt_mono_r; lia); lia)) as (ch & un & SD).
    rewrite (os_tdc H HO s1 adds a ch un SD), map_app.
    pose proof (sd_chain H HO t a [] ch un SD) as Hc. pose proof (s3_m62 H t Hb') as Hm.
    apply NoDup_app_intro'.
    - apply IH. lia.
    - apply NoDup_map_inj_in.
      + intros x y Hx Hy E. apply nones_in in Hx as (e1 & He1 & _ & ->). apply nones_in in Hy as (e2 & He2 & _ & ->).
        destruct (Pop_valid _ _ (chain_Pop H _ ch e1 Hc He1) Hm) as (_ & V1 & _).
        destruct (Pop_valid _ _ (chain_Pop H _ ch e2 Hc He2) Hm) as (_ & V2 & _).
        apply cpos_inj in E; [exact E|lia|exact V1|exact V2].
      + pose proof (asc_nones H (num_leaves t) [] ch 0 Hc I) as Ha. rewrite app_nil_r in Ha.
        exact (proj1 (asc_from_nodup _ _ Ha)).
    - intros z Hz1 Hz2. apply in_map_iff in Hz1 as (d & <- & Hd). apply in_map_iff in Hz2 as (d' & Ed & Hd').
      destruct (os_older H HO s1 adds Hb' d Hd) as (n & Hn & HP). apply nones_in in Hd' as (e & He & _ & ->).
      pose proof (chain_Pop H _ ch e Hc He) as HPe.
      destruct (Pop_valid n d HP ltac:(fold t in Hn; lia)) as (_ & Hvd & _).
      destruct (Pop_valid _ _ HPe Hm) as (_ & Hve & _).
      apply cpos_inj in Ed; [|lia|exact Hve|exact Hvd]. subst d.
      pose proof (Pop_inj _ _ _ HP HPe). fold t in Hn. lia.
  Qed.

  (** (B) holds *)
  Theorem undo_add_spec_holds : undo_add_spec H HO.
  Proof.
    intros s1 adds L [Hnd _] Hb HL Hlive. unfold undoAddPos.
    assert (HTD : TDinv H HO (sortN (to_destroy HO 63 s1 adds)) s1 adds).
    { rewrite (to_destroy_coords H HO 63). split.
      - eapply Permutation_NoDup; [apply Permutation_sym, pps_sortN_perm|]. apply tdc_nodup. exact Hb.
      - intros z. split; intros Hz.
        + eapply Permutation_in; [apply pps_sortN_perm|exact Hz].
        + eapply Permutation_in; [apply Permutation_sym, pps_sortN_perm|exact Hz]. }
    assert (Hcur : cur H HO (s1 ++ map Some adds) (lp (s1 ++ map Some adds)) L).
    { intros h Hh. left. split; [apply Hlive, Hh|reflexivity]. }
    rewrite Nat2N.id.
    destruct (undoAdd_gen adds s1 (lp (s1 ++ map Some adds)) L _ [] Hnd Hb HTD HL Hcur)
      as (psi' & Eloop & Q1 & Q2 & _).
    rewrite Eloop. unfold undo_add_exp. cbn [rev app]. f_equal.
    apply map_ext_in. intros h Hh. destruct (idxH h adds) as [j|] eqn:Ej.
    - exact (Q1 h j Hh Ej).
    - apply Q2; [exact Hh|]. specialize (Hlive h Hh). apply in_app_or in Hlive as [Hl|Hl]; [exact Hl|].
      apply in_map_iff in Hl as (x & Ex & Hx). injection Ex as ->.
      apply (idxH_none H HO HOK) in Ej. contradiction.
  Qed.
End UndoAddAll.

Print Assumptions undo_add_spec_holds.
