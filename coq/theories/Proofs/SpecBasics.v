(** Basic facts about the reference forest. *)
From Utreexo Require Import Spec.Forest.
From Coq Require Import Lia.
Open Scope N_scope.

Section Basics.
  Variable H : Type.
  Variable HO : ops H.
  Hypothesis HOK : ops_ok HO.
  Notation Heqb := (op_eqb HO).

  Lemma memH_app h a b : memH HO h (a ++ b) = memH HO h a || memH HO h b.
  Proof. induction a as [|x a IH]; cbn; [reflexivity|]. rewrite IH. apply orb_assoc. Qed.

  Lemma memH_In h l : memH HO h l = true <-> In h l.
  Proof.
    induction l as [|x l IH]; cbn; [split; [discriminate|tauto]|].
    rewrite orb_true_iff, IH, (HOK h x). split; intros [E|E]; auto.
  Qed.

  Lemma kill_app dels a b : kill HO dels (a ++ b) = kill HO dels a ++ kill HO dels b.
  Proof. unfold kill. apply map_app. Qed.

  Lemma kill_kill d1 d2 s : kill HO d2 (kill HO d1 s) = kill HO (d1 ++ d2) s.
  Proof.
    unfold kill. rewrite map_map. apply map_ext. intros [h|]; [|reflexivity].
    rewrite memH_app. destruct (memH HO h d1); cbn; reflexivity.
  Qed.

  Lemma kill_fresh dels adds :
    (forall a, In a adds -> ~ In a dels) -> kill HO dels (map Some adds) = map Some adds.
  Proof.
    intros Hf. unfold kill. rewrite map_map. apply map_ext_in. intros a Ha.
    destruct (memH HO a dels) eqn:E; [|reflexivity].
    apply memH_In in E. exfalso. exact (Hf a Ha E).
  Qed.

  (** batching: two consecutive blocks equal the one merged block, provided the second block
      does not delete what the first one added (else the leaf never appears) *)
  Theorem apply_block_batch s d1 a1 d2 a2 :
    (forall a, In a a1 -> ~ In a d2) ->
    apply_block HO (apply_block HO s d1 a1) d2 a2 = apply_block HO s (d1 ++ d2) (a1 ++ a2).
  Proof.
    intros Hf. unfold apply_block. rewrite kill_app, kill_kill, (kill_fresh d2 a1 Hf).
    rewrite map_app, app_assoc. reflexivity.
  Qed.

  Lemma length_kill dels s : length (kill HO dels s) = length s.
  Proof. unfold kill. apply map_length. Qed.

  Theorem num_leaves_apply_block s dels adds :
    num_leaves (apply_block HO s dels adds) = num_leaves s + N.of_nat (length adds).
  Proof.
    unfold num_leaves, apply_block. rewrite app_length, length_kill, map_length. lia.
  Qed.

  (** look-ups in a layout *)
  Lemma find_leaf_spec lay h x :
    find_leaf HO lay h = Some x -> In x lay /\ nleaf x = true /\ nhash x = h.
  Proof.
    induction lay as [|y lay IH]; cbn; [discriminate|].
    destruct (nleaf y && Heqb (nhash y) h) eqn:E.
    - intros [= <-]. apply andb_true_iff in E as [E1 E2]. apply HOK in E2. auto.
    - intros Hx. destruct (IH Hx) as (A & B & C). auto.
  Qed.
  Lemma find_leaf_none lay h :
    find_leaf HO lay h = None -> forall x, In x lay -> nleaf x = true -> nhash x <> h.
  Proof.
    induction lay as [|y lay IH]; cbn; [tauto|].
    destruct (nleaf y && Heqb (nhash y) h) eqn:E; [discriminate|].
    intros Hn x [<-|Hx] Hl Hh.
    - rewrite Hl in E. cbn in E. apply HOK in Hh. congruence.
    - exact (IH Hn x Hx Hl Hh).
  Qed.

  Theorem leaf_pos_some rows lay h p :
    leaf_pos HO rows lay h = Some p ->
    exists x, In x lay /\ nleaf x = true /\ nhash x = h /\ npos rows x = p.
  Proof.
    unfold leaf_pos. destruct (find_leaf HO lay h) as [x|] eqn:E; [|discriminate].
    intros [= <-]. exists x. destruct (find_leaf_spec _ _ _ E) as (A & B & C). auto.
  Qed.
  Theorem leaf_pos_none rows lay h :
    leaf_pos HO rows lay h = None -> forall x, In x lay -> nleaf x = true -> nhash x <> h.
  Proof.
    unfold leaf_pos. destruct (find_leaf HO lay h) as [x|] eqn:E; [discriminate|].
    intros _. exact (find_leaf_none _ _ E).
  Qed.

  Theorem hash_at_absent rows lay p :
    (forall x, In x lay -> npos rows x <> p) -> hash_at HO rows lay p = op_empty HO.
  Proof.
    unfold hash_at. intros Hn.
    assert (find_pos rows lay p = None) as ->; [|reflexivity].
    induction lay as [|y lay IH]; cbn; [reflexivity|].
    destruct (N.eqb_spec (npos rows y) p) as [E|E].
    - exfalso. apply (Hn y); [left; reflexivity|exact E].
    - apply IH. intros x Hx. apply Hn. right; exact Hx.
  Qed.
End Basics.

(** insertion sort by key gives an ascending list *)
Section Sorted.
  Context {A : Type}.
  Inductive ascK : list (N * A) -> Prop :=
  | ascK_nil : ascK []
  | ascK_one x : ascK [x]
  | ascK_cons x y l : fst x <= fst y -> ascK (y :: l) -> ascK (x :: y :: l).

  Lemma insertK_asc x l : ascK l -> ascK (insertK x l).
  Proof.
    induction 1 as [|y|y z l Hyz Hl IH]; cbn.
    - constructor.
    - destruct (N.leb_spec (fst x) (fst y)); repeat constructor; lia.
    - destruct (N.leb_spec (fst x) (fst y)).
      + repeat constructor; [lia|assumption|assumption].
      + cbn in IH. destruct (N.leb_spec (fst x) (fst z)).
        * repeat constructor; [lia|lia|assumption].
        * constructor; [assumption|exact IH].
  Qed.
  Theorem sortK_asc l : ascK (sortK l).
  Proof. induction l as [|x l IH]; cbn; [constructor|apply insertK_asc, IH]. Qed.
End Sorted.
