(** [Proof.Update] for EVERY valid block (C07, concluded): sibling leaves, whole subtrees and whole
    trees deleted.

    [ProofUpdateDel] proves [proof_update = exp_cached (apply_block ..)] for blocks whose deleted
    leaves are pairwise non-siblings and leave a leaf in every tree ("regular").  This file removes
    that hypothesis: [proof_update_every_block] at the end has only the hypotheses of a valid
    block (distinct live deletions, fresh additions).

    1. the lift of the coordinates over the roots of the MAXIMAL DELETED SUBTREES of a tree
       ([glist], [move_tree_g]: the generalisation of [move_tree_multi] from leaves to subtrees),
       and A3/A4 of the general reduction for a forest ([gf_up], [gf_down]);
    2. the converse of [subtree_same_block]: positions in different trees have different
       [subtree_of] ([subtree_diff_trees]), by the bits of the number of leaves that the loop of
       [DetectOffset] consumes;
    3. [getNewPositions] when some targets are tops of whole deleted trees: those targets are
       skipped for every surviving position ([pd2_gnp_targets], [pd2_gnp_loop]);
    4. the general reduction [dg2_remove]/[dg2_block]: [dg_remove]/[dg_block] of [ProofUpdateDel]
       with flagged targets (flag [false]: top of a deleted tree, skipped);
    5. the specification of [deTwin] on the sorted positions of the deleted leaves: the result is
       sorted and consists exactly of the tops of the fully deleted trees and of the roots of the
       maximal deleted subtrees of the other trees ([tw_deTwin], [tw_char_fwd], [tw_char_bwd]);
    6. the final theorem [proof_update_every_block], its instance for terms, and examples computed
       by [vm_compute] (a deleted subtree of four leaves, a deleted tree, every leaf deleted). *)
From Utreexo Require Import Base.Hash Model.Utils Model.UtilsFast Model.Verify Model.ProofOps
  Model.ProofUpdate Spec.Forest Spec.Oracle Spec.Geometry Spec.Term
  Proofs.UtilsGeom Proofs.UtilsGeom2 Proofs.SpecBasics Proofs.StumpAdd Proofs.LayoutStruct
  Proofs.ProofPosSpec Proofs.CalcTotal Proofs.CalcSound Proofs.CalcComplete Proofs.CachedVerifies
  Proofs.AbstractModels Proofs.StumpAddData Proofs.StumpDelData Proofs.ProofOpsSpec
  Proofs.ProofUpdateSpec Proofs.ProofUpdateDel.
From Utreexo Require Proofs.RefTheory.
From Coq Require Import List Arith PeanoNat NArith ZArith Lia ZifyNat ZifyN ZifyBool Sorted Permutation.
Import ListNotations.
Open Scope N_scope.

Local Notation SSlt := (StronglySorted N.lt).
Local Notation SSle := (StronglySorted N.le).

(** * 1. The lift over the roots of the maximal deleted subtrees *)

Section GenTree.
  Variable H : Type.
  Variable HO : ops H.
  Hypothesis HOK : ops_ok HO.
  Variable hs : list H.
  Local Notation prune := (RefTheory.prune HO hs).
  Local Notation ppath := (ppath H HO hs).

  (** the coordinates of the maximal subtrees of [c], placed at [Y], that are deleted as a whole *)
  Fixpoint glist (c : ctree H) (Y : coord) : list coord :=
    match c with
    | CLeaf h => if memH HO h hs then [Y] else []
    | CNode _ l r =>
        match prune c with
        | None => [Y]
        | Some _ => glist l (chd 0 Y) ++ glist r (chd 1 Y)
        end
    end.

  Lemma glist_none (c : ctree H) : prune c = None -> forall Y, glist c Y = [Y].
  Proof.
    intros Hp Y. destruct c as [h|h l r]; cbn [glist].
    - cbn [RefTheory.prune] in Hp. destruct (memH HO h hs); [reflexivity|discriminate].
    - rewrite Hp. reflexivity.
  Qed.

  Lemma glist_node h l r cc : prune (CNode h l r) = Some cc ->
    forall Y, glist (CNode h l r) Y = glist l (chd 0 Y) ++ glist r (chd 1 Y).
  Proof. intros Hp Y. cbn [glist]. rewrite Hp. reflexivity. Qed.

  Lemma glist_walk (c : ctree H) : forall Y d, (cheight H c <= fst Y)%nat -> In d (glist c Y) ->
    exists tau, d = walk Y tau /\ (length tau <= cheight H c)%nat /\ (prune c <> None -> tau <> []).
  Proof.
    induction c as [h|h l IHl r IHr]; intros Y d HY Hd.
    - cbn [glist] in Hd. cbn [RefTheory.prune]. destruct (memH HO h hs); [|destruct Hd]. destruct Hd as [<-|[]].
      exists []. split; [reflexivity|]. split; [cbn; lia|]. intros Hc. exfalso. apply Hc. reflexivity.
    - destruct (prune (CNode h l r)) as [cc|] eqn:Pc.
      + rewrite (glist_node h l r cc Pc) in Hd. cbn [cheight] in HY. apply in_app_or in Hd as [Hd|Hd].
        * destruct (IHl (chd 0 Y) d ltac:(unfold chd; cbn [fst]; lia) Hd) as (tau & -> & Hl & _).
          exists (false :: tau). split; [reflexivity|]. split; [cbn [length cheight]; lia|discriminate].
        * destruct (IHr (chd 1 Y) d ltac:(unfold chd; cbn [fst]; lia) Hd) as (tau & -> & Hl & _).
          exists (true :: tau). split; [reflexivity|]. split; [cbn [length cheight]; lia|discriminate].
      + rewrite (glist_none _ Pc) in Hd. destruct Hd as [<-|[]].
        exists []. split; [reflexivity|]. split; [cbn; lia|]. intros Hc. exfalso. apply Hc. reflexivity.
  Qed.

  Lemma glist_row (c : ctree H) Y d : (cheight H c <= fst Y)%nat -> prune c <> None ->
    In d (glist c Y) -> (fst d < fst Y)%nat.
  Proof.
    intros HY Hp Hd. destruct (glist_walk c Y d HY Hd) as (tau & -> & Hl & Hne).
    specialize (Hne Hp). destruct (walk_coord tau Y ltac:(lia)) as [W1 _]. rewrite W1.
    destruct tau; [contradiction|cbn [length] in *; lia].
  Qed.

  Lemma glist_under (c : ctree H) Y d : (cheight H c <= fst Y)%nat -> In d (glist c Y) -> under Y d.
  Proof.
    intros HY Hd. destruct (glist_walk c Y d HY Hd) as (tau & -> & Hl & _). apply under_walk. lia.
  Qed.

  Theorem move_tree_g : forall c : ctree H, forall Y, (cheight H c <= fst Y)%nat ->
    forall D, StronglySorted clt D -> (forall d, In d D <-> In d (glist c Y)) ->
    forall pi c0 c0', occp H c pi c0 -> prune c0 = Some c0' ->
      liftc D (walk Y pi) = walk Y (ppath c pi).
  Proof.
    induction c as [h|h l IHl r IHr]; intros Y HY D Hs Hp pi c0 c0' Ho Hpr.
    - inversion Ho; subst. cbn [RefTheory.prune] in Hpr. cbn [glist] in Hp.
      destruct (memH HO h hs); [discriminate|]. destruct D as [|d D]; [reflexivity|]. exfalso. exact (proj1 (Hp d) (or_introl eq_refl)).
    - cbn [cheight] in HY.
      destruct (prune_occp H HO hs _ _ c0 Ho c0' Hpr) as (cc & Pc & _).
      rewrite (glist_node h l r cc Pc) in Hp.
      assert (HZ : (1 <= fst Y)%nat) by lia.
      assert (Hhl : (cheight H l <= fst (chd 0 Y))%nat) by (unfold chd; cbn [fst]; lia).
      assert (Hhr : (cheight H r <= fst (chd 1 Y))%nat) by (unfold chd; cbn [fst]; lia).
      inversion Ho; subst.
      + (* the top *)
        cbn [ppath walk fold_left]. apply liftc_skip. intros d Hd.
        apply Hp in Hd. apply in_app_or in Hd as [Hd|Hd].
        * pose proof (glist_under l _ d Hhl Hd) as [Hr _]. unfold chd in Hr. cbn [fst] in *. lia.
        * pose proof (glist_under r _ d Hhr Hd) as [Hr _]. unfold chd in Hr. cbn [fst] in *. lia.
      + (* below the left child *)
        match goal with X : occp H l _ c0 |- _ => rename X into Hol end.
        pose proof (occp_height H _ _ _ Hol) as Hh2.
        destruct (prune_occp H HO hs l _ c0 Hol c0' Hpr) as (l' & Pl & _).
        change (walk Y (false :: ?p)) with (walk (chd 0 Y) p). cbn [ppath].
        destruct (prune r) as [r'|] eqn:Pr.
        * (* the right child survives: its deleted leaves do not matter *)
          change (walk Y (false :: ?p)) with (walk (chd 0 Y) p).
          rewrite (liftc_filter (chd 0 Y) D (walk (chd 0 Y) pi0)).
          -- refine (IHl (chd 0 Y) Hhl _ (SS_filter _ _ _ Hs) _ pi0 c0 c0' Hol Hpr).
             intros d. rewrite filter_In, Hp, in_app_iff, underb_spec. split.
             ++ intros [[Hd|Hd] Hu]; [exact Hd|]. exfalso. exact (under_chd_disj Y d HZ Hu (glist_under r _ d Hhr Hd)).
             ++ intros Hd. split; [left; exact Hd|exact (glist_under l _ d Hhl Hd)].
          -- apply under_walk. unfold chd. cbn [fst]. lia.
          -- intros d Hd Eu y Hy. apply Hp in Hd. apply in_app_or in Hd as [Hd|Hd].
             ++ destruct (glist_walk l _ d Hhl Hd) as (tau & -> & Hlt & Hne).
                apply pm_region_closed; [apply Hne; rewrite Pl; discriminate|unfold chd; cbn [fst]; lia|exact Hy].
             ++ exfalso. apply underb_spec in Eu. exact (under_chd_disj Y d HZ Eu (glist_under r _ d Hhr Hd)).
          -- intros d Hd Eu y Hy. apply Hp in Hd. apply in_app_or in Hd as [Hd|Hd].
             ++ exfalso. assert (Ht : underb (chd 0 Y) d = true) by (apply underb_spec, (glist_under l _ d Hhl Hd)). congruence.
             ++ destruct (glist_walk r _ d Hhr Hd) as (tau & -> & Hlt & Hne).
                apply (pm_region_disj Y true tau y HZ); [apply Hne; rewrite Pr; discriminate|lia|exact Hy].
        * (* the right child is a deleted leaf: it comes last *)
          rewrite (glist_none r Pr) in Hp.
          assert (Hp2 : forall d, In d D <-> In d (glist l (chd 0 Y)) \/ d = chd 1 Y).
          { intros d. rewrite Hp, in_app_iff. cbn [In]. split.
            - intros [A|[B|[]]]; [left; exact A|right; symmetry; exact B].
            - intros [A|B]; [left; exact A|right; left; symmetry; exact B]. }
          destruct (sorted_last D (glist l (chd 0 Y)) (chd 1 Y) Hs Hp2) as (D' & -> & Hp' & Hs').
          { intros a Ha. left. pose proof (glist_row l _ a Hhl ltac:(rewrite Pl; discriminate) Ha) as Hr.
            unfold chd in *. cbn [fst] in *. exact Hr. }
          rewrite liftc_app.
          rewrite (IHl (chd 0 Y) Hhl D' Hs' Hp' pi0 c0 c0' Hol Hpr).
          unfold liftc. cbn [fold_left].
          pose proof (ppath_length H HO hs l pi0) as Hpl.
          apply (lift1_sibling Y true (ppath l pi0)); lia.
      + (* below the right child *)
        match goal with X : occp H r _ c0 |- _ => rename X into Hor end.
        pose proof (occp_height H _ _ _ Hor) as Hh2.
        destruct (prune_occp H HO hs r _ c0 Hor c0' Hpr) as (r' & Pr & _).
        change (walk Y (true :: ?p)) with (walk (chd 1 Y) p). cbn [ppath].
        destruct (prune l) as [l'|] eqn:Pl.
        * change (walk Y (true :: ?p)) with (walk (chd 1 Y) p).
          rewrite (liftc_filter (chd 1 Y) D (walk (chd 1 Y) pi0)).
          -- refine (IHr (chd 1 Y) Hhr _ (SS_filter _ _ _ Hs) _ pi0 c0 c0' Hor Hpr).
             intros d. rewrite filter_In, Hp, in_app_iff, underb_spec. split.
             ++ intros [[Hd|Hd] Hu]; [|exact Hd]. exfalso. exact (under_chd_disj Y d HZ (glist_under l _ d Hhl Hd) Hu).
             ++ intros Hd. split; [right; exact Hd|exact (glist_under r _ d Hhr Hd)].
          -- apply under_walk. unfold chd. cbn [fst]. lia.
          -- intros d Hd Eu y Hy. apply Hp in Hd. apply in_app_or in Hd as [Hd|Hd].
             ++ exfalso. apply underb_spec in Eu. exact (under_chd_disj Y d HZ (glist_under l _ d Hhl Hd) Eu).
             ++ destruct (glist_walk r _ d Hhr Hd) as (tau & -> & Hlt & Hne).
                apply pm_region_closed; [apply Hne; rewrite Pr; discriminate|unfold chd; cbn [fst]; lia|exact Hy].
          -- intros d Hd Eu y Hy. apply Hp in Hd. apply in_app_or in Hd as [Hd|Hd].
             ++ destruct (glist_walk l _ d Hhl Hd) as (tau & -> & Hlt & Hne).
                apply (pm_region_disj Y false tau y HZ); [apply Hne; rewrite Pl; discriminate|lia|exact Hy].
             ++ exfalso. assert (Ht : underb (chd 1 Y) d = true) by (apply underb_spec, (glist_under r _ d Hhr Hd)). congruence.
        * rewrite (glist_none l Pl) in Hp.
          assert (Hp2 : forall d, In d D <-> In d (glist r (chd 1 Y)) \/ d = chd 0 Y).
          { intros d. rewrite Hp, in_app_iff. cbn [In]. split.
            - intros [[A|[]]|B]; [right; symmetry; exact A|left; exact B].
            - intros [A|B]; [right; exact A|left; left; symmetry; exact B]. }
          destruct (sorted_last D (glist r (chd 1 Y)) (chd 0 Y) Hs Hp2) as (D' & -> & Hp' & Hs').
          { intros a Ha. left. pose proof (glist_row r _ a Hhr ltac:(rewrite Pr; discriminate) Ha) as Hr.
            unfold chd in *. cbn [fst] in *. exact Hr. }
          rewrite liftc_app.
          rewrite (IHr (chd 1 Y) Hhr D' Hs' Hp' pi0 c0 c0' Hor Hpr).
          unfold liftc. cbn [fold_left].
          pose proof (ppath_length H HO hs r pi0) as Hpl.
          apply (lift1_sibling Y false (ppath r pi0)); lia.
  Qed.
End GenTree.
Section GenForest.
  Variable H : Type.
  Variable HO : ops H.
  Hypothesis HOK : ops_ok HO.
  Variable s : slots H.
  Variable hs : list H.
  Local Notation entry := (StumpAdd.entry H).
  Local Notation erow := (@StumpAdd.erow H).
  Local Notation ecoord := (@StumpAddData.ecoord H).
  Local Notation prune := (RefTheory.prune HO hs).
  Local Notation ppath := (ppath H HO hs).
  Local Notation s1 := (kill HO hs s).

  Lemma gf_ecoord_lo (e : entry) : In e (forest HO s) ->
    snd (ecoord e) * p2 (erow e) = StumpAddData.elo H e.
  Proof.
    intros He. destruct e as [[k lo] t]. apply forest_entry in He as (_ & _ & E & _).
    unfold StumpAddData.ecoord, StumpAdd.erow, StumpAddData.elo. cbn [fst snd].
    rewrite E at 1. fold (p2 k). rewrite N.div_mul by (apply N.neq_0_lt_0, p2_pos). symmetry. exact E.
  Qed.

  Lemma gf_trees_disj (e e' : entry) u x : In e (forest HO s) -> In e' (forest HO s) ->
    erow e <> erow e' -> under (ecoord e) u -> under (ecoord e') x -> under u x -> False.
  Proof.
    intros He He' Hne Hu Hx Hux. pose proof (under_trans _ _ _ Hu Hux) as Hex.
    apply under_lo in Hex as [A1 A2]. apply under_lo in Hx as [B1 B2].
    rewrite N.mul_add_distr_r, N.mul_1_l in A2, B2.
    change (fst (ecoord e)) with (erow e) in *. change (fst (ecoord e')) with (erow e') in *.
    rewrite (gf_ecoord_lo e He) in A1, A2. rewrite (gf_ecoord_lo e' He') in B1, B2.
    destruct e as [[k lo] t], e' as [[k' lo'] t'].
    unfold StumpAdd.erow, StumpAddData.elo in *. cbn [fst snd] in *.
    destruct (Nat.lt_trichotomy k k') as [Hlt|[Heq|Hgt]]; [|contradiction|].
    - pose proof (forest_entries_disjoint H HO s _ _ _ _ _ _ He' He Hlt). lia.
    - pose proof (forest_entries_disjoint H HO s _ _ _ _ _ _ He He' Hgt). lia.
  Qed.

  Lemma gf_same_row (e e' : entry) : In e (forest HO s) -> In e' (forest HO s) -> erow e = erow e' -> e = e'.
  Proof.
    intros He He' Er. destruct e as [[k lo] t], e' as [[k' lo'] t']. unfold StumpAdd.erow in Er. cbn [fst] in Er. subst k'.
    destruct (forest_entry_unique H HO s _ _ _ _ _ He He') as [-> ->]. reflexivity.
  Qed.

  Lemma gf_height (e : entry) ce : In e (forest HO s) -> snd e = Some ce -> (cheight H ce <= erow e)%nat.
  Proof.
    intros He Hs. destruct e as [[k lo] t]. cbn [snd] in Hs. subst t.
    apply forest_entry in He as (_ & _ & _ & _ & _ & Ht). symmetry in Ht.
    exact (proj2 (compress_wf H HO k _ ce Ht)).
  Qed.

  (** the roots of the maximal deleted subtrees that are not whole trees, in row-major order *)
  Variable D : list coord.
  Hypothesis HsD : StronglySorted clt D.
  Hypothesis HD : forall d, In d D <->
    exists (e : entry) ce, In e (forest HO s) /\ snd e = Some ce /\ prune ce <> None /\
                          In d (glist H HO hs ce (ecoord e)).

  Lemma gf_in_tree (e : entry) ce d : In e (forest HO s) -> snd e = Some ce -> In d D ->
    under (ecoord e) d -> In d (glist H HO hs ce (ecoord e)).
  Proof.
    intros He Hs Hd Hu. apply HD in Hd as (e' & ce' & He' & Hs' & _ & Hd).
    pose proof (glist_under H HO hs ce' (ecoord e') d (gf_height e' ce' He' Hs') Hd) as Hu'.
    destruct (Nat.eq_dec (erow e) (erow e')) as [Er|Er].
    - pose proof (gf_same_row e e' He He' Er) as <-. rewrite Hs in Hs'. injection Hs' as <-. exact Hd.
    - exfalso. exact (gf_trees_disj e e' d d He He' Er Hu Hu' (under_refl d)).
  Qed.

  Lemma gf_move (e : entry) ce pi c0 c0' : In e (forest HO s) -> snd e = Some ce ->
    occp H ce pi c0 -> prune c0 = Some c0' ->
    liftc D (walk (ecoord e) pi) = walk (ecoord e) (ppath ce pi).
  Proof.
    intros He Hs Hp Hpr.
    assert (Hne : prune ce <> None).
    { destruct (prune_occp H HO hs ce pi c0 Hp c0' Hpr) as (cc & Pc & _). rewrite Pc. discriminate. }
    pose proof (gf_height e ce He Hs) as Hh. pose proof (occp_height H _ _ _ Hp) as Hl.
    rewrite (liftc_filter (ecoord e) D (walk (ecoord e) pi)).
    - apply (move_tree_g H HO hs ce (ecoord e) Hh _ (SS_filter _ _ _ HsD)) with (c0 := c0) (c0' := c0');
        [|exact Hp|exact Hpr].
      intros d. rewrite filter_In, underb_spec. split.
      + intros [Hd Hu]. exact (gf_in_tree e ce d He Hs Hd Hu).
      + intros Hd. split; [apply HD; exists e, ce; auto|exact (glist_under H HO hs ce (ecoord e) d Hh Hd)].
    - apply under_walk. change (fst (ecoord e)) with (erow e). lia.
    - intros d Hd Eu y Hy. apply underb_spec in Eu.
      pose proof (gf_in_tree e ce d He Hs Hd Eu) as Hd'.
      destruct (glist_walk H HO hs ce (ecoord e) d Hh Hd') as (tau & -> & Hlt & Hne').
      apply pm_region_closed; [exact (Hne' Hne)|change (fst (ecoord e)) with (erow e); lia|exact Hy].
    - intros d Hd Eu y Hy. apply pd_lift1_id.
      destruct (anc (S (fst d), snd d / 2) y) eqn:Ea; [exfalso|reflexivity].
      apply anc_under in Ea as [_ Hu].
      apply HD in Hd as (e' & ce' & He' & Hs' & Hne2 & Hd).
      pose proof (gf_height e' ce' He' Hs') as Hh'.
      destruct (glist_walk H HO hs ce' (ecoord e') d Hh' Hd) as (tau & Ed & Hlt & Hne').
      specialize (Hne' Hne2).
      assert (HA : under (ecoord e') (S (fst d), snd d / 2)).
      { rewrite Ed. apply under_parent_walk; [exact Hne'|change (fst (ecoord e')) with (erow e'); lia]. }
      destruct (Nat.eq_dec (erow e') (erow e)) as [Er|Er].
      + pose proof (gf_same_row e' e He' He Er) as ->.
        assert (Ht : underb (ecoord e) d = true).
        { apply underb_spec. rewrite Ed. apply under_walk. change (fst (ecoord e)) with (erow e). lia. }
        congruence.
      + exact (gf_trees_disj e' e _ y He' He Er HA Hy Hu).
  Qed.

  (** A3 and A4 *)
  Lemma gf_up c0 r0 o0 c0' : locc H HO s c0 r0 o0 -> prune c0 = Some c0' ->
    locc H HO s1 c0' (fst (liftc D (r0, o0))) (snd (liftc D (r0, o0))).
  Proof.
    intros Hl Hp. apply locc_path in Hl as (e & ce & pi & He & Hs & Ho & Hw & _).
    rewrite <- Hw, (gf_move e ce pi c0 c0' He Hs Ho Hp).
    exact (locc_kill_up H HO hs s e ce pi c0 c0' He Hs Ho Hp).
  Qed.

  Lemma gf_down c0' r1 o1 : locc H HO s1 c0' r1 o1 ->
    exists c0 r0 o0, locc H HO s c0 r0 o0 /\ prune c0 = Some c0' /\ liftc D (r0, o0) = (r1, o1) /\
                     uncontracted H HO hs c0.
  Proof.
    intros Hl. apply locc_path in Hl as (e' & c' & pi' & He' & Hs' & Hp' & Hw & _).
    rewrite RefTheory.forest_kill in He'. apply in_map_iff in He' as (e & <- & He).
    unfold RefTheory.prune_entry in Hs'. cbn [snd] in Hs'.
    destruct (snd e) as [ce|] eqn:Ese; [|discriminate]. cbn [RefTheory.oprune] in Hs'.
    destruct (prune_occp_inv2 H HO hs ce c' Hs' pi' c0' Hp') as (pi & c0 & A & B & C & U).
    pose proof (sl_height H HO s e ce pi c0 He Ese A) as Hl.
    exists c0, (fst (walk (ecoord e) pi)), (snd (walk (ecoord e) pi)).
    split; [apply locc_path; exists e, ce, pi; repeat split; try assumption; apply surjective_pairing|].
    split; [exact B|]. split; [|exact U]. rewrite <- surjective_pairing.
    rewrite (gf_move e ce pi c0 c0' He Ese A B), C.
    change (ecoord (RefTheory.prune_entry HO hs e)) with (ecoord e) in Hw. exact Hw.
  Qed.
End GenForest.


(** * 2. [DetectOffset]: positions of different trees have different results *)

Lemma do2_step fuel p nr n t b lo : nr < 64 -> t <= 63 -> p < W ->
  (p * 2 ^ nr) mod 2 ^ (t + 1) = lo mod 2 ^ (t + 1) ->
  DetectOffset_loop (S fuel) p nr n (Z.of_N t) b =
  if N.testbit n t && negb (N.testbit lo t) then Some (b, sub8 t nr, not64 (xor64 p 1))
  else DetectOffset_loop fuel (if N.testbit n t then sub64 p (2 ^ t) else p) nr n (Z.of_N t - 1)%Z
                         (if N.testbit n t then add8 b 1 else b).
Proof.
  intros Hnr Ht Hp I1. cbn [DetectOffset_loop]. rewrite (do_u8z t) by (clear - Ht; lia).
  rewrite (do_A p nr t Hnr Ht), I1.
  unfold maxLeafCount. rewrite (shl_1 t Ht). unfold and64. rewrite do_land_pow2.
  assert (T1 : (lo mod 2 ^ (t + 1) <? (if N.testbit n t then 2 ^ t else 0))
               = N.testbit n t && negb (N.testbit lo t)).
  { destruct (N.testbit n t); [apply do_mod_lt|]. cbn [andb]. apply N.ltb_ge, N.le_0_l. }
  rewrite T1. destruct (N.testbit n t && negb (N.testbit lo t)); [reflexivity|].
  destruct (Z.ltb_spec (Z.of_N t) 0) as [Hc|_]; [exfalso; clear - Hc; lia|].
  rewrite N2Z.id, (shl_1 t Ht), do_land_pow2.
  destruct (N.testbit n t).
  - destruct (N.eqb_spec (2 ^ t) 0) as [Hc|_]; [exfalso; exact (pow2_nz t Hc)|]. reflexivity.
  - rewrite N.eqb_refl. reflexivity.
Qed.

Lemma do2_next p nr n t lo : nr < 64 -> 1 <= t -> t <= 63 -> p < W ->
  (p * 2 ^ nr) mod 2 ^ (t + 1) = lo mod 2 ^ (t + 1) ->
  let p' := if N.testbit n t then sub64 p (2 ^ t) else p in
  p' < W /\ (p' * 2 ^ nr) mod 2 ^ (t - 1 + 1) = lo mod 2 ^ (t - 1 + 1).
Proof.
  intros Hnr Ht1 Ht Hp I1. cbv zeta.
  assert (Et : t - 1 + 1 = t) by (clear - Ht1; lia).
  assert (HW : W <> 0) by (rewrite W_eq; apply pow2_nz).
  pose proof (do_inv_down _ _ t Ht1 I1) as D.
  destruct (N.testbit n t).
  - split; [unfold sub64; rewrite wrap_mod; apply N.mod_lt, HW|].
    rewrite Et in *. rewrite (do_sub p nr t Hp Ht). exact D.
  - split; [exact Hp|exact D].
Qed.

(** the slot [lo] lies in the tree of row [k] *)
Definition in_tree (n lo k : N) : Prop :=
  N.testbit n k = true /\ N.testbit lo k = false /\ lo / 2 ^ (k + 1) = n / 2 ^ (k + 1).

Lemma in_tree_above n lo k t : in_tree n lo k -> k < t -> N.testbit lo t = N.testbit n t.
Proof.
  intros (_ & _ & E) Hlt. replace t with ((t - (k + 1)) + (k + 1)) by lia.
  rewrite <- !N.div_pow2_bits, E. reflexivity.
Qed.

(** the result is at least the current count *)
Lemma do2_loop_ge n lo k nr : nr < 64 -> in_tree n lo k ->
  forall m fuel p b, let t := k + N.of_nat m in
    t <= 63 -> (N.to_nat t < fuel)%nat -> p < W -> b + N.of_nat m < 256 ->
    (p * 2 ^ nr) mod 2 ^ (t + 1) = lo mod 2 ^ (t + 1) ->
    exists b', do_first (DetectOffset_loop fuel p nr n (Z.of_N t) b) = Some b' /\ b <= b' /\ b' <= b + N.of_nat m.
Proof.
  intros Hnr Hin. induction m as [|m IH]; intros fuel p b t Ht Hf Hp Hb I1; subst t.
  - rewrite N.add_0_r in *. destruct fuel as [|f]; [exfalso; clear - Hf; lia|].
    rewrite (do2_step f p nr n k b lo Hnr Ht Hp I1).
    destruct Hin as (B1 & B2 & _). rewrite B1, B2. cbn. exists b. split; [reflexivity|clear; lia].
  - set (t := k + N.of_nat (S m)) in *. destruct fuel as [|f]; [exfalso; clear - Hf; lia|].
    assert (Hkt : k < t) by (unfold t; clear; lia).
    assert (Ht1 : 1 <= t) by (clear - Hkt; lia).
    assert (Et1 : t - 1 = k + N.of_nat m) by (unfold t; clear; lia).
    assert (EZ : (Z.of_N t - 1)%Z = Z.of_N (k + N.of_nat m)) by (unfold t; clear; lia).
    assert (Ht' : k + N.of_nat m <= 63) by (unfold t in Ht; clear - Ht; lia).
    assert (Hf' : (N.to_nat (k + N.of_nat m) < f)%nat) by (unfold t in Hf; clear - Hf; lia).
    assert (Hb' : b + 1 + N.of_nat m < 257) by (clear - Hb; lia).
    rewrite (do2_step f p nr n t b lo Hnr Ht Hp I1).
    rewrite (in_tree_above n lo k t Hin Hkt).
    assert (Etest : N.testbit n t && negb (N.testbit n t) = false) by (destruct (N.testbit n t); reflexivity).
    rewrite Etest.
    destruct (do2_next p nr n t lo Hnr Ht1 Ht Hp I1) as [Hp' I1'].
    rewrite EZ. rewrite Et1 in I1'.
    set (b1 := if N.testbit n t then add8 b 1 else b) in *.
    assert (Hb1 : b <= b1 /\ b1 <= b + 1).
    { unfold b1. destruct (N.testbit n t); [|clear; lia]. rewrite add8_small by (clear - Hb; lia). clear; lia. }
    assert (Hb1' : b1 + N.of_nat m < 256) by (clear - Hb Hb1; lia).
    destruct (IH f _ b1 Ht' Hf' Hp' Hb1' I1') as (b' & E & L1 & L2).
    exists b'. split; [exact E|]. clear - L1 L2 Hb1. lia.
Qed.

(** two slots of different trees: different counts *)
Lemma do2_loop_diff n lo1 lo2 k1 k2 nr1 nr2 : nr1 < 64 -> nr2 < 64 ->
  in_tree n lo1 k1 -> in_tree n lo2 k2 -> k2 < k1 ->
  forall m fuel p1 p2 b, let t := k1 + N.of_nat m in
    t <= 63 -> (N.to_nat t < fuel)%nat -> p1 < W -> p2 < W -> b + N.of_nat m + k1 < 255 ->
    (p1 * 2 ^ nr1) mod 2 ^ (t + 1) = lo1 mod 2 ^ (t + 1) ->
    (p2 * 2 ^ nr2) mod 2 ^ (t + 1) = lo2 mod 2 ^ (t + 1) ->
    do_first (DetectOffset_loop fuel p1 nr1 n (Z.of_N t) b)
    <> do_first (DetectOffset_loop fuel p2 nr2 n (Z.of_N t) b).
Proof.
  intros Hnr1 Hnr2 Hin1 Hin2 Hk. induction m as [|m IH]; intros fuel p1 p2 b t Ht Hf Hp1 Hp2 Hb I1 I2; subst t.
  - rewrite N.add_0_r in *. destruct fuel as [|f]; [exfalso; clear - Hf; lia|].
    assert (Ht1 : 1 <= k1) by (clear - Hk; lia).
    set (mm := N.to_nat (k1 - 1 - k2)).
    assert (Et1 : k1 - 1 = k2 + N.of_nat mm) by (unfold mm; clear - Hk; lia).
    assert (EZ : (Z.of_N k1 - 1)%Z = Z.of_N (k2 + N.of_nat mm)) by (unfold mm; clear - Hk; lia).
    assert (Ht' : k2 + N.of_nat mm <= 63) by (unfold mm; clear - Hk Ht; lia).
    assert (Hf' : (N.to_nat (k2 + N.of_nat mm) < f)%nat) by (unfold mm; clear - Hk Hf; lia).
    assert (Hb' : b + 1 + N.of_nat mm < 256) by (unfold mm; clear - Hk Hb; lia).
    assert (Hb1 : b + 1 < 256) by (clear - Hb; lia).
    rewrite (do2_step f p1 nr1 n k1 b lo1 Hnr1 Ht Hp1 I1), (do2_step f p2 nr2 n k1 b lo2 Hnr2 Ht Hp2 I2).
    pose proof Hin1 as (B1 & B2 & _). rewrite B1, B2. cbn [andb negb].
    rewrite (in_tree_above n lo2 k2 k1 Hin2 Hk), B1. cbn [andb negb].
    destruct (do2_next p2 nr2 n k1 lo2 Hnr2 Ht1 Ht Hp2 I2) as [Hp' I2']. rewrite B1 in Hp', I2'.
    rewrite add8_small by exact Hb1. rewrite EZ. rewrite Et1 in I2'.
    destruct (do2_loop_ge n lo2 k2 nr2 Hnr2 Hin2 mm f _ (b + 1) Ht' Hf' Hp' Hb' I2') as (b' & E & L1 & _).
    rewrite E. cbn. intros Eq. injection Eq as Eq. clear - Eq L1. lia.
  - set (t := k1 + N.of_nat (S m)) in *. destruct fuel as [|f]; [exfalso; clear - Hf; lia|].
    assert (Hkt1 : k1 < t) by (unfold t; clear; lia).
    assert (Hkt2 : k2 < t) by (clear - Hkt1 Hk; lia).
    assert (Ht1 : 1 <= t) by (clear - Hkt1; lia).
    assert (Et1 : t - 1 = k1 + N.of_nat m) by (unfold t; clear; lia).
    assert (EZ : (Z.of_N t - 1)%Z = Z.of_N (k1 + N.of_nat m)) by (unfold t; clear; lia).
    assert (Ht' : k1 + N.of_nat m <= 63) by (unfold t in Ht; clear - Ht; lia).
    assert (Hf' : (N.to_nat (k1 + N.of_nat m) < f)%nat) by (unfold t in Hf; clear - Hf; lia).
    rewrite (do2_step f p1 nr1 n t b lo1 Hnr1 Ht Hp1 I1), (do2_step f p2 nr2 n t b lo2 Hnr2 Ht Hp2 I2).
    rewrite (in_tree_above n lo1 k1 t Hin1 Hkt1), (in_tree_above n lo2 k2 t Hin2 Hkt2).
    assert (Etest : N.testbit n t && negb (N.testbit n t) = false) by (destruct (N.testbit n t); reflexivity).
    rewrite Etest.
    destruct (do2_next p1 nr1 n t lo1 Hnr1 Ht1 Ht Hp1 I1) as [Hp1' I1'].
    destruct (do2_next p2 nr2 n t lo2 Hnr2 Ht1 Ht Hp2 I2) as [Hp2' I2'].
    rewrite EZ. rewrite Et1 in I1', I2'.
    set (b1 := if N.testbit n t then add8 b 1 else b) in *.
    assert (Hb1 : b1 <= b + 1).
    { unfold b1. destruct (N.testbit n t); [|clear; lia]. rewrite add8_small by (clear - Hb; lia). clear; lia. }
    assert (Hb1' : b1 + N.of_nat m + k1 < 255) by (clear - Hb Hb1; lia).
    exact (IH f _ _ b1 Ht' Hf' Hp1' Hp2' Hb1' I1' I2').
Qed.

Theorem subtree_diff_trees n r1 o1 r2 o2 k1 k2 : n <= 2 ^ 63 ->
  r1 <= TreeRows n -> o1 < 2 ^ (TreeRows n - r1) -> r2 <= TreeRows n -> o2 < 2 ^ (TreeRows n - r2) ->
  in_tree n (o1 * 2 ^ r1) k1 -> in_tree n (o2 * 2 ^ r2) k2 -> k1 <> k2 ->
  subtree_of (gpos (TreeRows n) r1 o1) n <> subtree_of (gpos (TreeRows n) r2 o2) n.
Proof.
  intros Hn Hr1 Ho1 Hr2 Ho2 T1 T2 Hk.
  pose proof (TreeRows_le_63 n Hn) as Hh. pose proof (TreeRows_upper n) as Hup.
  set (h := TreeRows n) in *.
  assert (Hkh : forall lo k, in_tree n lo k -> k <= h).
  { intros lo k (B & _ & _). destruct (N.le_gt_cases k h) as [Hle|Hgt]; [exact Hle|exfalso].
    assert (Hlt : n < 2 ^ k).
    { eapply N.le_lt_trans; [exact Hup|]. apply pow2_lt. exact Hgt. }
    rewrite (testbit_small n k k Hlt (N.le_refl k)) in B. discriminate. }
  pose proof (Hkh _ _ T1) as Hk1. pose proof (Hkh _ _ T2) as Hk2.
  unfold subtree_of, DetectOffset. cbv zeta. fold h.
  rewrite (DetectRow_gpos h r1 o1 Hh Hr1 Ho1), (DetectRow_gpos h r2 o2 Hh Hr2 Ho2).
  rewrite !do_first_subtree.
  assert (Hr1' : r1 < 64) by (clear - Hr1 Hh; lia). assert (Hr2' : r2 < 64) by (clear - Hr2 Hh; lia).
  assert (Hfu : (N.to_nat h < 70)%nat) by (clear - Hh; lia).
  pose proof (gpos_lt_W h r1 o1 Hh Hr1 Ho1) as W1. pose proof (gpos_lt_W h r2 o2 Hh Hr2 Ho2) as W2.
  pose proof (do_init h r1 o1 Hr1) as I1. pose proof (do_init h r2 o2 Hr2) as I2.
  set (m1 := N.to_nat (h - k1)). set (m2 := N.to_nat (h - k2)).
  assert (E1 : h = k1 + N.of_nat m1) by (unfold m1; clear - Hk1; lia).
  assert (E2 : h = k2 + N.of_nat m2) by (unfold m2; clear - Hk2; lia).
  assert (Hb1 : 0 + N.of_nat m1 < 256) by (unfold m1; clear - Hh Hk1; lia).
  assert (Hb2 : 0 + N.of_nat m2 < 256) by (unfold m2; clear - Hh Hk2; lia).
  pose proof (do2_loop_ge n _ k1 r1 Hr1' T1 m1 70%nat (gpos h r1 o1) 0) as G1. cbv zeta in G1.
  rewrite <- E1 in G1. destruct (G1 Hh Hfu W1 Hb1 I1) as (b1 & G1' & _). clear G1.
  pose proof (do2_loop_ge n _ k2 r2 Hr2' T2 m2 70%nat (gpos h r2 o2) 0) as G2. cbv zeta in G2.
  rewrite <- E2 in G2. destruct (G2 Hh Hfu W2 Hb2 I2) as (b2 & G2' & _). clear G2.
  assert (Hne : do_first (DetectOffset_loop 70 (gpos h r1 o1) r1 n (Z.of_N h) 0)
                <> do_first (DetectOffset_loop 70 (gpos h r2 o2) r2 n (Z.of_N h) 0)).
  { destruct (N.lt_trichotomy k1 k2) as [Hlt|[Heq|Hgt]]; [|contradiction|].
    - assert (Hbb : 0 + N.of_nat m2 + k2 < 255) by (unfold m2; clear - Hh Hk2; lia).
      pose proof (do2_loop_diff n _ _ k2 k1 r2 r1 Hr2' Hr1' T2 T1 Hlt m2 70%nat (gpos h r2 o2) (gpos h r1 o1) 0) as G.
      cbv zeta in G. rewrite <- E2 in G. intros Eq. exact (G Hh Hfu W2 W1 Hbb I2 I1 (eq_sym Eq)).
    - assert (Hbb : 0 + N.of_nat m1 + k1 < 255) by (unfold m1; clear - Hh Hk1; lia).
      pose proof (do2_loop_diff n _ _ k1 k2 r1 r2 Hr1' Hr2' T1 T2 Hgt m1 70%nat (gpos h r1 o1) (gpos h r2 o2) 0) as G.
      cbv zeta in G. rewrite <- E1 in G. exact (G Hh Hfu W1 W2 Hbb I1 I2). }
  rewrite G1', G2' in *. intros Eq. apply Hne. rewrite Eq. reflexivity.
Qed.
Print Assumptions subtree_diff_trees.

(** * 3. [getNewPositions] when some targets are roots of whole deleted trees *)

Section Gnp2.
  Variable H : Type.
  Variable HO : ops H.
  Variable R : nat.
  Variable n : N.
  Hypothesis HR : (R <= 63)%nat.
  Hypothesis Hn : n <= 2 ^ 63.
  Hypothesis ER : N.of_nat R = TreeRows n.
  Local Notation hp := (hp H).
  Local Notation Heqb := (op_eqb HO).
  Local Notation empty := (op_empty HO).

  (** targets with a flag: [true] = lifts the positions below the parent; [false] = a whole tree *)
  Definition lifts (Dall : list (coord * bool)) : list coord := map fst (filter snd Dall).
  Local Notation tid x := (subtree_of (cpos R x) n).

  (** what makes the skipped targets harmless for [x]: an invariant of the lifts that separates
      [x] from them *)
  Definition gok (Dall : list (coord * bool)) (x : coord) : Prop :=
    exists Inv : coord -> Prop, Inv x /\
      (forall d, In (d, true) Dall -> forall y, Inv y -> Inv (lift1 d y)) /\
      (forall d, In (d, false) Dall -> forall y, Inv y -> tid d <> tid y).

  Lemma lifts_cons_true d Dall : lifts ((d, true) :: Dall) = d :: lifts Dall.
  Proof. reflexivity. Qed.
  Lemma lifts_cons_false d Dall : lifts ((d, false) :: Dall) = lifts Dall.
  Proof. reflexivity. Qed.
  Lemma lifts_In d Dall : In d (lifts Dall) <-> In (d, true) Dall.
  Proof.
    unfold lifts. rewrite in_map_iff. split.
    - intros ([d' b] & E & Hin). cbn [fst] in E. subst d'. apply filter_In in Hin as [Hin Hb].
      cbn [snd] in Hb. subst b. exact Hin.
    - intros Hin. exists (d, true). split; [reflexivity|]. apply filter_In. auto.
  Qed.

  Lemma pd2_gnp_targets : forall (Dall : list (coord * bool)) x rho,
    (forall d, In (d, true) Dall -> dok R n d) -> cvalid R x -> cinf n x -> gok Dall x ->
    gnp_targets (map (cpos R) (map fst Dall)) (cpos R x) n rho (N.of_nat R) = cpos R (liftc (lifts Dall) x).
  Proof.
    induction Dall as [|[d b] Dall IH]; intros x rho HD Hvx Hix Hg; [reflexivity|].
    assert (HD' : forall d', In (d', true) Dall -> dok R n d') by (intros d' Hd'; apply HD; right; exact Hd').
    destruct Hg as (Inv & Ix & Icl & Isk).
    assert (Hg' : forall y, Inv y -> gok Dall y).
    { intros y Iy. exists Inv. split; [exact Iy|]. split; intros d' Hd'; [apply Icl|apply Isk]; right; exact Hd'. }
    cbn [map gnp_targets fst].
    destruct (isRootPositionOnRow (cpos R x) n rho) eqn:Eroot.
    - pose proof (pd_isRoot_any R n x rho HR Hn ER Hvx Eroot) as Hr.
      rewrite (pd_liftc_root n (lifts ((d, b) :: Dall)) x); [reflexivity| |exact Hr].
      intros d' Hd'. apply lifts_In in Hd'. exact (proj2 (proj2 (HD d' Hd'))).
    - destruct b.
      + destruct (HD d (or_introl eq_refl)) as (Hd & Hvd & Hpf).
        rewrite lifts_cons_true. unfold liftc. cbn [fold_left]. fold (liftc (lifts Dall) (lift1 d x)).
        rewrite (pu_isAnc_anc R d x HR Hd Hvd Hvx).
        destruct (anc (S (fst d), snd d / 2) x) eqn:Ea.
        * rewrite (pu_same_subtree R n d x HR Hn ER Hvd Hvx Hpf Ea), N.eqb_refl. cbn [negb].
          pose proof (lift1_bridge R d x HR Hd Hvd Hvx) as Hb.
          rewrite (pu_isAnc_anc R d x HR Hd Hvd Hvx), Ea in Hb. rewrite Hb.
          apply IH; [exact HD'|apply lift1_valid; assumption|apply pu_lift1_cinf; assumption|].
          apply Hg'. apply (Icl d (or_introl eq_refl)). exact Ix.
        * rewrite (pd_lift1_id d x Ea).
          destruct (negb _); apply IH; try assumption; apply Hg'; exact Ix.
      + rewrite lifts_cons_false.
        assert (Hne : negb (subtree_of (cpos R d) n =? subtree_of (cpos R x) n) = true).
        { apply negb_true_iff, N.eqb_neq. exact (Isk d (or_introl eq_refl) x Ix). }
        rewrite Hne. apply IH; try assumption. apply Hg'. exact Ix.
  Qed.

  Lemma pd2_gnp_loop (Dall : list (coord * bool)) b : (forall d, In (d, true) Dall -> dok R n d) ->
    forall (X : list (coord * H)) rho, rho <= N.of_nat R ->
    (forall e, In e X -> cvalid R (fst e) /\ cinf n (fst e)) ->
    (forall e, In e X -> Heqb (snd e) empty = false -> gok Dall (fst e)) ->
    (forall e, In e X -> Heqb (snd e) empty = false ->
               b = true \/ is_root_c n (cN (liftc (lifts Dall) (fst e))) = false) ->
    gnp_loop HO (map (cpos R) (map fst Dall)) (map (cposh H R) X) n (N.of_nat R) rho b
    = map (fun e => cposh H R (liftc (lifts Dall) (fst e), snd e))
          (filter (fun e => negb (Heqb (snd e) empty)) X).
  Proof.
    intros HD. induction X as [|e X IH]; intros rho Hrho Hok Hgok Hnr; [reflexivity|].
    cbn [map gnp_loop filter]. change (cposh H R e) with (cpos R (fst e), snd e). cbn [fst snd].
    assert (HokX : forall e', In e' X -> cvalid R (fst e') /\ cinf n (fst e'))
      by (intros e' He'; apply Hok; right; exact He').
    assert (HgX : forall e', In e' X -> Heqb (snd e') empty = false -> gok Dall (fst e'))
      by (intros e' He'; apply Hgok; right; exact He').
    assert (HnrX : forall e', In e' X -> Heqb (snd e') empty = false ->
               b = true \/ is_root_c n (cN (liftc (lifts Dall) (fst e'))) = false)
      by (intros e' He'; apply Hnr; right; exact He').
    destruct (Heqb (snd e) empty) eqn:Enz; cbn [negb].
    - apply IH; assumption.
    - destruct (Hok e (or_introl eq_refl)) as [Hv Hi].
      pose proof (pu_cvalid_vld R n HR Hn ER (fst e) Hv) as Hvl.
      assert (Hrow : gnp_row 300 (cpos R (fst e)) rho (N.of_nat R) <= N.of_nat R).
      { change (cpos R (fst e)) with (g (N.of_nat R) (cN (fst e))). rewrite ER.
        apply (pd_gnp_row_le R n HR Hn ER); [exact Hvl|rewrite <- ER; exact Hrho]. }
      set (rho' := gnp_row 300 (cpos R (fst e)) rho (N.of_nat R)) in *.
      destruct (N.ltb_spec (N.of_nat R) rho') as [Hc|_]; [lia|].
      rewrite (pd2_gnp_targets Dall (fst e) rho' HD Hv Hi (Hgok e (or_introl eq_refl) Enz)).
      assert (Hkeep : b || negb (isRootPositionOnRow (cpos R (liftc (lifts Dall) (fst e))) n rho') = true).
      { destruct (Hnr e (or_introl eq_refl) Enz) as [->|Hnroot]; [reflexivity|].
        destruct (isRootPositionOnRow (cpos R (liftc (lifts Dall) (fst e))) n rho') eqn:Er;
          [|apply Bool.orb_true_r].
        assert (Hvy : cvalid R (liftc (lifts Dall) (fst e))).
        { apply liftc_valid; [intros d Hd; apply lifts_In in Hd; exact (proj1 (HD d Hd))|exact Hv]. }
        rewrite (pd_isRoot_any R n _ rho' HR Hn ER Hvy Er) in Hnroot. discriminate. }
      rewrite Hkeep. cbn [map]. f_equal. apply IH; assumption.
  Qed.
End Gnp2.

(** * 4. The general reduction again, with whole trees among the targets *)

Section DelGen2.
  Variable H : Type.
  Variable HO : ops H.
  Hypothesis HOK : ops_ok HO.
  Hypothesis hash_nz : forall a b, NZ HO (op_hash2 HO a b).
  Variable s : slots H.
  Hypothesis Hlive_nz : forall h, In (Some h) s -> NZ HO h.
  Hypothesis Hn63 : N.of_nat (length s) <= 2 ^ 63.
  Hypothesis Hnd : NoDup (live s).
  Local Notation lay := (layout HO s).
  Local Notation R := (rows_of (num_leaves s)).
  Local Notation n := (N.of_nat (length s)).
  Local Notation total := (TreeRows (N.of_nat (length s))).
  (** the deleted leaves: hashes and nodes *)
  Variable hs : list H.
  Variable xds : list (node H).
  Hypothesis Hxds_lay : forall x, In x xds -> In x lay.
  Hypothesis Hxds_leaf : forall x, In x xds -> nleaf x = true.
  Hypothesis Hxds_hash : map (@nhash H) xds = hs.
  Local Notation prune := (RefTheory.prune HO hs).
  Local Notation s1 := (kill HO hs s).
  Local Notation lay1 := (layout HO s1).
  Local Notation R1 := (rows_of (num_leaves s1)).
  Local Notation F := (Fv H HO s).
  Local Notation F1 := (Fv H HO s1).
  Local Notation bt := (map (npos R) xds).
  Local Notation BT := (sortN (map (npos R) xds)).
  (** the detwinned targets as coordinates, and what the lift over them does *)
  Variable Dall : list (coord * bool).
  Local Notation Dd := (lifts Dall).
  Hypothesis A1 : deTwin BT (TreeRows (num_leaves s)) = map (cpos R) (map fst Dall).
  Hypothesis A2 : forall d, In (d, true) Dall -> dok R n d.
  (** the whole trees among the targets are harmless for every surviving subtree *)
  Hypothesis A2s : forall c0 r0 o0 c0', locc H HO s c0 r0 o0 -> prune c0 = Some c0' ->
    gok R n Dall (r0, o0).
  Hypothesis A3 : forall c0 r0 o0 c0', locc H HO s c0 r0 o0 -> prune c0 = Some c0' ->
    locc H HO s1 c0' (fst (liftc Dd (r0, o0))) (snd (liftc Dd (r0, o0))).
  Hypothesis A4 : forall c0' r1 o1, locc H HO s1 c0' r1 o1 ->
    exists c0 r0 o0, locc H HO s c0 r0 o0 /\ prune c0 = Some c0' /\ liftc Dd (r0, o0) = (r1, o1) /\
                     uncontracted H HO hs c0.

  Lemma dg2_n63' : N.of_nat (length s1) <= 2 ^ 63.
  Proof. rewrite length_kill. exact Hn63. Qed.
  Lemma dg2_R1 : R1 = R. Proof. apply kill_rows. Qed.

  Lemma dg2_live1 h : In (Some h) s1 <-> In (Some h) s /\ ~ In h hs.
  Proof.
    unfold kill. rewrite in_map_iff. split.
    - intros ([x|] & E & Hx); [|discriminate].
      destruct (memH HO x hs) eqn:Ex; [discriminate|]. injection E as <-.
      split; [exact Hx|]. intros Hin. apply (memH_In H HO HOK) in Hin. congruence.
    - intros [Hh Hne]. exists (Some h). split; [|exact Hh].
      destruct (memH HO h hs) eqn:Ex; [apply (memH_In H HO HOK) in Ex; contradiction|reflexivity].
  Qed.

  Lemma dg2_nd1 : NoDup (live s1).
  Proof.
    clear - Hnd. unfold kill. induction s as [|[h|] t IH]; cbn [map live flat_map] in *; [constructor| |].
    - cbn [app] in Hnd. inversion Hnd as [|x l Hn Hl]; subst. specialize (IH Hl).
      destruct (memH HO h hs); cbn [app]; [exact IH|]. constructor; [|exact IH].
      intros Hin. apply Hn. fold (live t).
      fold (live (map (fun o => match o with Some h0 => if memH HO h0 hs then None else Some h0 | None => None end) t)) in Hin.
      apply live_in in Hin. apply in_map_iff in Hin as ([y|] & E & Hy); [|discriminate].
      destruct (memH HO y hs); [discriminate|]. injection E as ->. apply live_in. exact Hy.
    - apply IH. exact Hnd.
  Qed.

  (** a leaf node with a deleted hash is one of the deleted nodes *)
  Lemma dg2_xds x : In x lay -> nleaf x = true -> (In (nhash x) hs <-> In x xds).
  Proof.
    intros Hx Hl. split.
    - intros Hh. rewrite <- Hxds_hash in Hh. apply in_map_iff in Hh as (x' & Eh & Hx').
      rewrite (live_leaf_unique H HO s x x' Hnd Hx (Hxds_lay x' Hx') Hl (Hxds_leaf x' Hx') (eq_sym Eh)). exact Hx'.
    - intros Hin. rewrite <- Hxds_hash. apply in_map, Hin.
  Qed.

  Lemma dg2_BT x : In x lay -> (In (npos R x) BT <-> In x xds).
  Proof.
    intros Hx. rewrite RefTheory.sortN_In, in_map_iff. split.
    - intros (x' & Ep & Hx'). rewrite (RefTheory.layout_npos_inj H HO s x x' Hx (Hxds_lay x' Hx') (eq_sym Ep)). exact Hx'.
    - intros Hin. exists x. auto.
  Qed.

  Variable C : list H.
  Hypothesis HC : NoDup C.
  Variables (hC : list H) (tC : list N) (pC : list H).
  Hypothesis E : exp_cached HO (mk_ctx HO s) C = Some (hC, tC, pC).

  Theorem dg2_remove :
    updateProofRemove HO tC pC bt hC (new_del HO s hs) (num_leaves s)
    = exp_cached HO (mk_ctx HO s1) (removeH HO C hs) /\
    exp_cached HO (mk_ctx HO s1) (removeH HO C hs) <> None.
  Proof.
    pose proof (pu_nle n) as Hnle. pose proof (pu_t63 n Hn63) as Ht63.
    pose proof dg2_n63' as Hn63'. pose proof dg2_nd1 as Hnd1. pose proof dg2_R1 as ER1.
    pose proof (rf_R_total H s) as ER. pose proof (rows_of_le_63 _ Hn63) as HR63.
    (* the cached set before the block *)
    unfold exp_cached in E. cbn [mk_ctx clay crows] in E.
    destruct (find_leaves HO lay C) as [tsC|] eqn:FC; [|discriminate].
    fold (sort_nodes H s tsC) in E. injection E as <- <- <-.
    destruct (cc_find_leaves_facts HO s C tsC HOK HC FC) as (LC & FlC & NtC & EhC & InC).
    set (sorted := sort_nodes H s tsC).
    pose proof (po_sort_nodes_perm H s tsC) as Psort. fold sorted in Psort.
    assert (LS : forall x, In x sorted -> In x lay)
      by (intros x Hx; apply LC; exact (Permutation_in _ Psort Hx)).
    assert (FlS : forall x, In x sorted -> nleaf x = true)
      by (intros x Hx; apply FlC; exact (Permutation_in _ Psort Hx)).
    assert (NtS : NoDup sorted) by (exact (Permutation_NoDup (Permutation_sym Psort) NtC)).
    assert (HsT : SSlt (map (npos R) sorted)).
    { unfold sorted. rewrite (po_sort_nodes_pos H HO s tsC LC NtC).
      apply pps_sortN_NoDup_SSlt, (po_targets_NoDup H HO s tsC LC NtC). }
    assert (Epp : ProofPositions_fast (map (npos R) sorted) n total
                  = (canon_proof_pos R lay sorted, computable_pos R lay sorted)).
    { rewrite <- (po_sortN_sorted_id _ HsT) at 1. exact (po_pp_both_fast H HO s Hn63 sorted LS FlS NtS). }
    pose proof (po_canon_pos_SSlt H HO s Hn63 sorted LS) as HsP.
    set (OP := canon_proof_pos R lay sorted) in *.
    assert (HhS : forall h, In h (map (@nhash H) sorted) <-> In h C).
    { intros h. rewrite <- EhC. split; apply Permutation_in, Permutation_map;
        [exact Psort|exact (Permutation_sym Psort)]. }
    (* the survivors *)
    set (sortedS := filter (fun x => negb (memN (npos R x) BT)) sorted).
    assert (HinS : forall x, In x sortedS <-> In x sorted /\ ~ In x xds).
    { intros x. unfold sortedS. rewrite filter_In, negb_true_iff, po_memN_false. split; intros [A B]; split; auto.
      - intros Hin. apply B. apply (dg2_BT x (LS x A)). exact Hin.
      - intros Hin. apply B. apply (dg2_BT x (LS x A)). exact Hin. }
    assert (LSS : forall x, In x sortedS -> In x lay) by (intros x Hx; apply LS, HinS, Hx).
    assert (FlSS : forall x, In x sortedS -> nleaf x = true) by (intros x Hx; apply FlS, HinS, Hx).
    assert (NtSS : NoDup sortedS) by (apply NoDup_filter, NtS).
    set (S := removeH HO C hs).
    assert (HS : forall h, In h S <-> In h C /\ ~ In h hs).
    { intros h. unfold S. apply (removeH_In HOK). }
    assert (HhSS : forall h, In h (map (@nhash H) sortedS) <-> In h S).
    { intros h. rewrite HS, in_map_iff. split.
      - intros (x & <- & Hx). apply HinS in Hx as [Hx Hne]. split; [apply HhS, in_map, Hx|].
        intros Eh. apply Hne. apply (dg2_xds x (LS x Hx) (FlS x Hx)). exact Eh.
      - intros [Hc Hne]. apply HhS in Hc. apply in_map_iff in Hc as (x & <- & Hx).
        exists x. split; [reflexivity|]. apply HinS. split; [exact Hx|]. intros Hin. apply Hne.
        apply (dg2_xds x (LS x Hx) (FlS x Hx)). exact Hin. }
    assert (EmapS : map (npos R) sortedS = filter (fun p => negb (memN p BT)) (map (npos R) sorted)).
    { unfold sortedS. symmetry. exact (pd_filter_map (fun p => negb (memN p BT)) (npos R) sorted). }
    assert (HsBT : SSle BT) by (apply sortN_spec).
    assert (HsTS : SSlt (map (npos R) sortedS)) by (rewrite EmapS; apply po_filter_SS, HsT).
    assert (EppS : ProofPositions_fast (map (npos R) sortedS) n total
                  = (canon_proof_pos R lay sortedS, computable_pos R lay sortedS)).
    { rewrite <- (po_sortN_sorted_id _ HsTS) at 1. exact (po_pp_both_fast H HO s Hn63 sortedS LSS FlSS NtSS). }
    pose proof (po_canon_pos_SSlt H HO s Hn63 sortedS LSS) as HsNP.
    set (NP := canon_proof_pos R lay sortedS) in *.
    (* the update data *)
    pose proof (new_del_SSlt H HO hs s) as HsUK.
    set (ND := new_del HO s hs) in *. set (UK := map fst ND) in *.
    set (U := lookup H (op_empty HO) ND).
    assert (NdUK : NoDup (map fst ND)) by (apply pps_SSlt_NoDup; exact HsUK).
    assert (END : ND = gr H U UK) by (apply lookup_graph; exact NdUK).
    (* the mirror, down to the two calls of [getNewPositions] *)
    rewrite (po_canon_hashes_Fv H HO s Hn63 sorted LS). fold OP.
    unfold updateProofRemove. cbv zeta.
    rewrite (pu_toHP H (map (npos R) sorted) (map (@nhash H) sorted)) by (try assumption; rewrite !map_length; reflexivity).
    rewrite (subtractSortedHashAndPos_spec H _ BT)
      by (try (rewrite pu_zip_fst by (rewrite !map_length; reflexivity); exact HsT); exact HsBT).
    rewrite pu_zip_map, pd_filter_map.
    assert (Efil : filter (fun x : node H => negb (memN (fst (npos R x, nhash x)) BT)) sorted = sortedS).
    { unfold sortedS. apply filter_ext. intros x. reflexivity. }
    rewrite Efil. clear Efil.
    rewrite (po_sortN_sorted_id _ HsT).
    change (N.of_nat (length s)) with (num_leaves s) in Epp, EppS. rewrite Epp.
    rewrite (pu_toHP H OP (map F OP)) by (try assumption; rewrite map_length; reflexivity).
    rewrite po_zip_gr. unfold positions at 1. rewrite map_map. cbn [fst].
    change (map (fun x : node H => npos R x) sortedS) with (map (npos R) sortedS). rewrite EppS.
    unfold positions. rewrite po_gr_fst, (po_sortN_sorted_id _ HsP), (po_sortN_sorted_id _ HsNP).
    rewrite (subtractSortedSlice_spec OP NP HsP (po_SSlt_SSle _ HsNP)).
    set (EX := filter (fun x => negb (memN x NP)) OP).
    assert (HsEX : SSlt EX) by (apply po_filter_SS, HsP).
    fold ND. rewrite END at 1 2.
    rewrite (pd_upr_keep H HO F U OP EX UK HsP HsEX HsUK).
    rewrite (subtractSortedSlice_spec NP OP HsNP (po_SSlt_SSle _ HsP)).
    rewrite (subtractSortedSlice_spec _ BT (po_filter_SS _ _ _ HsNP)) by exact HsBT.
    set (MP := filter (fun x => negb (memN x BT)) (filter (fun x => negb (memN x OP)) NP)).
    assert (HsMP : SSlt MP) by (apply po_filter_SS, po_filter_SS, HsNP).
    rewrite (pd_upr_missing H U MP UK HsMP HsUK).
    rewrite A1.
    set (kept := flat_map (keep1 H HO F U EX UK) OP).
    set (miss := gr H U (filter (fun p => memN p UK) MP)).
    (* the cached set after the deletion *)
    assert (HSs1 : forall h, In h S -> In (Some h) s1).
    { intros h Hh. apply HS in Hh as [Hc Hne]. apply dg2_live1. split; [|exact Hne].
      apply HhS in Hc. apply in_map_iff in Hc as (x & <- & Hx).
      exact (layout_leaf_live H HO s x (LS x Hx) (FlS x Hx)). }
    assert (NdS : NoDup S) by (unfold S, removeH; apply NoDup_filter, HC).
    destruct (po_find_leaves_some H HO s1 S) as [tsU FU].
    { intros h Hh. destruct (proj1 (find_leaf_live H HO s1 h HOK) (HSs1 h Hh)) as (x & Ex & _).
      exists x. exact Ex. }
    destruct (cc_find_leaves_facts HO s1 S tsU HOK NdS FU) as (LU & FlU & NtU & EhU & InU).
    set (sortedU := sort_nodes H s1 tsU).
    pose proof (po_sort_nodes_perm H s1 tsU) as PsortU. fold sortedU in PsortU.
    assert (LSU : forall x, In x sortedU -> In x lay1)
      by (intros x Hx; apply LU; exact (Permutation_in _ PsortU Hx)).
    assert (FlSU : forall x, In x sortedU -> nleaf x = true)
      by (intros x Hx; apply FlU; exact (Permutation_in _ PsortU Hx)).
    assert (NtSU : NoDup sortedU) by (exact (Permutation_NoDup (Permutation_sym PsortU) NtU)).
    assert (HhU : forall h, In h (map (@nhash H) sortedU) <-> In h S).
    { intros h. rewrite <- EhU. split; apply Permutation_in, Permutation_map;
        [exact PsortU|exact (Permutation_sym PsortU)]. }
    assert (HinU : forall y, In y lay1 -> nleaf y = true -> In (nhash y) S -> In y sortedU).
    { intros y Hy Hl Hh. apply (Permutation_in _ (Permutation_sym PsortU)). apply InU.
      exists (nhash y). split; [exact Hh|exact (find_leaf_of_node H HO HOK s1 y Hnd1 Hy Hl)]. }
    assert (HsTU : SSlt (map (npos R) sortedU)).
    { rewrite <- ER1. unfold sortedU. rewrite (po_sort_nodes_pos H HO s1 tsU LU NtU).
      apply pps_sortN_NoDup_SSlt, (po_targets_NoDup H HO s1 tsU LU NtU). }
    unfold exp_cached. cbn [mk_ctx clay crows]. rewrite FU. fold (sort_nodes H s1 tsU). fold sortedU. rewrite ER1.
    split; [|discriminate].
    (* values in the new state *)
    assert (Hval1 : forall c' r o, locc H HO s1 c' r o -> F1 (cpos R (r, o)) = chash c').
    { intros c' r o Hl. pose proof (locc_val H HO s1 c' r o Hl) as Hv. rewrite ER1 in Hv. exact Hv. }
    assert (Hnode1 : forall c' r o, locc H HO s1 c' r o ->
              exists y, In y lay1 /\ npos R y = cpos R (r, o) /\ nhash y = chash c' /\ nleaf y = cleafb H c').
    { intros c' r o Hl. destruct (locc_node H HO s1 c' r o Hl) as (y & Hy & Yr & Yo & Yh & Yl).
      exists y. split; [exact Hy|]. split; [unfold npos, cpos; rewrite Yr, Yo; reflexivity|]. auto. }
    (* the targets *)
    set (XT := map (fun x : node H => ((nrow x, noff x), nhash x)) sortedS).
    assert (Etwh : map (fun x : node H => (npos R x, nhash x)) sortedS = map (cposh H R) XT).
    { unfold XT. rewrite map_map. reflexivity. }
    rewrite Etwh.
    pose proof A2 as Hd1.
    assert (HleafS : forall x, In x sortedS ->
              locc H HO s (CLeaf (nhash x)) (nrow x) (noff x) /\ prune (CLeaf (nhash x)) = Some (CLeaf (nhash x))).
    { intros x Hx. destruct (node_locc H HO s x (LSS x Hx) (FlSS x Hx)) as (k0 & lo & c & He & Ho & _).
      split; [exists k0, lo, c; auto|]. cbn [RefTheory.prune].
      destruct (memH HO (nhash x) hs) eqn:Ex; [|reflexivity]. exfalso. apply (memH_In H HO HOK) in Ex.
      apply HinS in Hx as [Hx Hne]. apply Hne. apply (dg2_xds x (LS x Hx) (FlS x Hx)). exact Ex. }
    assert (HcokL : forall c r o, locc H HO s c r o -> cvalid R (r, o) /\ cinf n (r, o)).
    { intros c r o Hl. destruct (locc_node H HO s c r o Hl) as (y & Hy & Yr & Yo & _).
      destruct (layout_coords_rows_of H HO s y Hy) as [V1 V2]. pose proof (layout_coords_valid H HO s y Hy) as V3.
      rewrite Yr, Yo in *. split; [split; assumption|exact V3]. }
    assert (ET : getNewPositions HO (map (cpos R) (map fst Dall)) (map (cposh H R) XT) (num_leaves s) true
                 = gr H F1 (map (npos R) sortedU)).
    { unfold getNewPositions.
      rewrite <- (ER : N.of_nat R = TreeRows (num_leaves s)).
      change (gnp_loop HO (map (cpos R) (map fst Dall)) (map (cposh H R) XT) (num_leaves s) (N.of_nat R) 0 true)
        with (gnp_loop HO (map (cpos R) (map fst Dall)) (map (cposh H R) XT) n (N.of_nat R) 0 true).
      rewrite (pd2_gnp_loop H HO R n HR63 Hn63 ER Dall true Hd1 XT 0).
      - rewrite po_filter_all.
        2:{ intros e He. unfold XT in He. apply in_map_iff in He as (x & <- & Hx). cbn [snd].
            apply negb_true_iff. apply Hlive_nz. exact (layout_leaf_live H HO s x (LSS x Hx) (FlSS x Hx)). }
        assert (Himg : forall x, In x sortedS -> exists y, In y sortedU /\
                  npos R y = cpos R (liftc Dd (nrow x, noff x)) /\ nhash y = nhash x).
        { intros x Hx. destruct (HleafS x Hx) as [Hl Hp].
          pose proof (A3 _ _ _ _ Hl Hp) as Hu.
          destruct (Hnode1 _ _ _ Hu) as (y & Hy & Ey & Yh & Yl). cbn [chash cleafb] in Yh, Yl.
          exists y. rewrite <- surjective_pairing in Ey. split; [|auto].
          apply HinU; [exact Hy|exact Yl|]. rewrite Yh. apply HhSS, in_map, Hx. }
        apply pd_sortK_graph.
        + intros e He. apply in_map_iff in He as (e0 & <- & He0). unfold XT in He0.
          apply in_map_iff in He0 as (x & <- & Hx). unfold cposh. cbn [fst snd].
          destruct (Himg x Hx) as (y & Hy & Ey & Yh). rewrite <- Ey, <- Yh.
          rewrite <- ER1. symmetry. exact (po_Fv_node H HO s1 y (LSU y Hy)).
        + rewrite map_map. unfold XT. rewrite map_map. unfold cposh. cbn [fst snd].
          apply (RefTheory.NoDup_map_inj_on (fun x : node H => cpos R (liftc Dd (nrow x, noff x)))); [exact NtSS|].
          intros x1 x2 Hx1 Hx2 Ek.
          destruct (Himg x1 Hx1) as (y1 & Hy1 & Ey1 & Yh1). destruct (Himg x2 Hx2) as (y2 & Hy2 & Ey2 & Yh2).
          assert (Ey : y1 = y2).
          { apply (RefTheory.layout_npos_inj H HO s1 y1 y2 (LSU _ Hy1) (LSU _ Hy2)). rewrite ER1. congruence. }
          subst y2. apply (live_leaf_unique H HO s x1 x2 Hnd (LSS _ Hx1) (LSS _ Hx2) (FlSS _ Hx1) (FlSS _ Hx2)).
          congruence.
        + exact HsTU.
        + intros p. rewrite map_map. unfold XT. rewrite map_map. unfold cposh. cbn [fst snd].
          rewrite !in_map_iff. split.
          * intros (x & <- & Hx). destruct (Himg x Hx) as (y & Hy & Ey & _). exists y. auto.
          * intros (y & <- & Hy). assert (Hh : In (nhash y) S) by (apply HhU, in_map, Hy).
            apply HhSS in Hh. apply in_map_iff in Hh as (x & Ex & Hx).
            destruct (Himg x Hx) as (y' & Hy' & Ey' & Yh'). exists x. split; [|exact Hx].
            rewrite <- Ey'. f_equal.
            apply (live_leaf_unique H HO s1 y' y Hnd1 (LSU _ Hy') (LSU _ Hy) (FlSU _ Hy') (FlSU _ Hy)). congruence.
      - lia.
      - intros e He. unfold XT in He. apply in_map_iff in He as (x & <- & Hx). cbn [fst].
        exact (HcokL _ _ _ (proj1 (HleafS x Hx))).
      - intros e He _. unfold XT in He. apply in_map_iff in He as (x & <- & Hx). cbn [fst].
        destruct (HleafS x Hx) as [Hl Hp]. exact (A2s _ _ _ _ Hl Hp).
      - intros e _ _. left. reflexivity. }
    rewrite ET. clear ET.
    (* facts about occurrences of [s] *)
    assert (Hposinj : forall c1 r1 o1 c2 r2 o2, locc H HO s c1 r1 o1 -> locc H HO s c2 r2 o2 ->
              pos R r1 o1 = pos R r2 o2 -> (r1, o1) = (r2, o2) /\ c1 = c2).
    { intros c1 r1 o1 c2 r2 o2 L1 L2 Ep.
      destruct (locc_node H HO s _ _ _ L1) as (y1 & Y1 & Yr1 & Yo1 & _).
      destruct (locc_node H HO s _ _ _ L2) as (y2 & Y2 & Yr2 & Yo2 & _).
      assert (Ey : y1 = y2).
      { apply (RefTheory.layout_npos_inj H HO s y1 y2 Y1 Y2). unfold npos. rewrite Yr1, Yo1, Yr2, Yo2. exact Ep. }
      subst y2. assert (Ec : (r1, o1) = (r2, o2)) by congruence. split; [exact Ec|].
      injection Ec as <- <-. exact (locc_uniq H HO s _ _ _ _ L1 L2). }
    assert (Hcwf : forall c r o, locc H HO s c r o -> cwf H HO c).
    { intros c r o (k0 & lo & cT & He & Ho).
      exact (occ_cwf H HO _ _ _ _ _ _ Ho (entry_cwf H HO s (k0, lo, Some cT) cT He eq_refl)). }
    (* the value the update data and the old proof give for an occurrence *)
    set (Hv := fun p : N => if memN p UK then U p else F p).
    assert (VAL : forall c r o, locc H HO s c r o ->
              Hv (pos R r o) = match prune c with Some c' => chash c' | None => op_empty HO end).
    { intros c r o Hl. unfold Hv. destruct (has_del HO hs c) eqn:Ed.
      - assert (Hin : In (pos R r o, ohash HO (after_del HO hs c)) ND).
        { apply (new_del_occ H HO HOK hs s). exists c, r, o. auto. }
        assert (Hm : memN (pos R r o) UK = true) by (apply RefTheory.memN_In; unfold UK; apply in_map_iff; eexists; split; [|exact Hin]; reflexivity).
        rewrite Hm. unfold U. pose proof (lookup_In H (op_empty HO) ND NdUK _ Hin) as Hlk.
        cbn [fst snd] in Hlk. rewrite Hlk.
        rewrite (after_del_prune H HO hs c). destruct (prune c); reflexivity.
      - assert (Hm : memN (pos R r o) UK = false).
        { apply po_memN_false. intros Hin. unfold UK in Hin. apply in_map_iff in Hin as ([p h] & Ep & Hin).
          cbn [fst] in Ep. subst p. apply (new_del_occ H HO HOK hs s) in Hin as (c0 & r0 & o0 & L0 & D0 & Ep & _).
          destruct (Hposinj _ _ _ _ _ _ Hl L0 Ep) as [_ ->]. congruence. }
        rewrite Hm. rewrite (locc_val H HO s c r o Hl).
        rewrite (prune_untouched H HO HOK hs c (Hcwf _ _ _ Hl)); [reflexivity|].
        intros h Hh Hd. assert (Ht : has_del HO hs c = true) by (apply (has_del_iff H HO HOK); exists h; auto).
        congruence. }
    (* targets held by a subtree, before and after *)
    assert (HhitS : forall c, hit H sortedS c <-> exists h, In h S /\ In h (cleaves H c)).
    { intros c. split.
      - intros (x & Hx & Hc). exists (nhash x). split; [apply HhSS, in_map, Hx|exact Hc].
      - intros (h & Hh & Hc). apply HhSS in Hh. apply in_map_iff in Hh as (x & <- & Hx). exists x. auto. }
    assert (HhitU : forall c, hit H sortedU c <-> exists h, In h S /\ In h (cleaves H c)).
    { intros c. split.
      - intros (x & Hx & Hc). exists (nhash x). split; [apply HhU, in_map, Hx|exact Hc].
      - intros (h & Hh & Hc). apply HhU in Hh. apply in_map_iff in Hh as (x & <- & Hx). exists x. auto. }
    assert (Hhit_pr : forall c c', prune c = Some c' -> (hit H sortedU c' <-> hit H sortedS c)).
    { intros c c' Hp. rewrite HhitU, HhitS. split; intros (h & Hh & Hc); exists h; (split; [exact Hh|]).
      - apply (prune_leaves H HO HOK hs c c' Hp h). exact Hc.
      - apply (prune_leaves H HO HOK hs c c' Hp h). split; [exact Hc|].
        intros Hin. apply HS in Hh as [_ Hne]. exact (Hne Hin). }
    assert (Hhit_some : forall c, hit H sortedS c -> prune c <> None).
    { intros c Hc Hn. apply HhitS in Hc as (h & Hh & Hc).
      pose proof (proj1 (prune_none_iff H HO HOK hs c) Hn h Hc) as Hin.
      apply HS in Hh as [_ Hne]. exact (Hne Hin). }
    assert (HhitSC : forall c, hit H sortedS c -> hit H sorted c).
    { intros c (x & Hx & Hc). exists x. split; [apply HinS, Hx|exact Hc]. }
    (* the canonical proof positions as (known side, proof side) of an inner occurrence *)
    assert (TRI : forall (ss : slots H) (tsn : list (node H)), N.of_nat (length ss) <= 2 ^ 63 -> NoDup (live ss) ->
              (forall x, In x tsn -> In x (layout HO ss)) -> (forall x, In x tsn -> nleaf x = true) ->
              forall p, In p (canon_proof_pos (rows_of (num_leaves ss)) (layout HO ss) tsn) <->
              exists h k pr r o (b : bool),
                locc H HO ss (if b then CNode h pr k else CNode h k pr) (Datatypes.S r) o /\
                hit H tsn k /\ ~ hit H tsn pr /\
                p = pos (rows_of (num_leaves ss)) r (2 * o + (if b then 0 else 1)) /\
                locc H HO ss pr r (2 * o + (if b then 0 else 1)) /\
                locc H HO ss k r (2 * o + (if b then 1 else 0))).
    { intros ss tsn Hb' Hnd' Hl1 Hl2 p. rewrite (canon_pos_occ H HO ss Hb' Hnd' tsn Hl1 Hl2 p). split.
      - intros (h & l & rr & r & o & Hlp & [(A & B & ->)|(A & B & ->)]);
          destruct (locc_child H HO ss _ _ _ Hlp h l rr eq_refl) as (r' & Er & Ll & Lr); injection Er as <-.
        + exists h, l, rr, r, o, false. repeat split; try assumption. rewrite N.add_0_r. exact Ll.
        + exists h, rr, l, r, o, true. rewrite !N.add_0_r. repeat split; assumption.
      - intros (h & k & pr & r & o & b & Hlp & A & B & -> & _). destruct b.
        + exists h, pr, k, r, o. split; [exact Hlp|]. right. rewrite N.add_0_r. auto.
        + exists h, k, pr, r, o. split; [exact Hlp|]. left. auto. }
    pose proof (TRI s sortedS Hn63 Hnd LSS FlSS) as NPT. fold NP in NPT.
    pose proof (TRI s sorted Hn63 Hnd LS FlS) as OPT. fold OP in OPT.
    pose proof (TRI s1 sortedU Hn63' Hnd1 LSU FlSU) as N1T. rewrite ER1 in N1T.
    set (NP1 := canon_proof_pos R lay1 sortedU) in *.
    (* a needed position that the old proof does not hold is in the update data *)
    assert (K2a : forall p, In p NP -> ~ In p OP -> memN p UK = true /\ True).
    { intros p Hp Hnop. split; [|exact I].
      apply NPT in Hp as (h & k & pr & r & o & b & Hlp & Hk & Hnpr & -> & Lpr & Lk).
      assert (HC' : hit H sorted pr).
      {
        assert (Hdec : hit H sorted pr \/ ~ hit H sorted pr).
        { destruct (existsb (fun x : node H => memH HO (nhash x) (cleaves H pr)) sorted) eqn:Ex.
          - left. apply existsb_exists in Ex as (x & Hx & Hm). exists x. split; [exact Hx|].
            apply (memH_In H HO HOK), Hm.
          - right. intros (x & Hx & Hm). assert (Ht : existsb (fun x : node H => memH HO (nhash x) (cleaves H pr)) sorted = true).
            { apply existsb_exists. exists x. split; [exact Hx|]. apply (memH_In H HO HOK), Hm. }
            congruence. }
        destruct Hdec as [Hy|Hn]; [exact Hy|]. exfalso. apply Hnop. apply OPT.
        exists h, k, pr, r, o, b. repeat split; try assumption. apply HhitSC, Hk. }
      destruct HC' as (x & Hx & Hxc).
      assert (Ex : In x xds).
      { destruct (memN (npos R x) BT) eqn:Em.
        - apply (dg2_BT x (LS x Hx)). apply RefTheory.memN_In, Em.
        - exfalso. apply Hnpr. exists x. split; [|exact Hxc]. unfold sortedS. apply filter_In.
          split; [exact Hx|]. rewrite Em. reflexivity. }
      assert (Hdl : has_del HO hs pr = true).
      { apply (has_del_iff H HO HOK). exists (nhash x). split; [exact Hxc|].
        apply (dg2_xds x (LS x Hx) (FlS x Hx)). exact Ex. }
      assert (Hin : In (pos R r (2 * o + (if b then 0 else 1)), ohash HO (after_del HO hs pr)) ND).
      { apply (new_del_occ H HO HOK hs s). exists pr, r, (2 * o + (if b then 0 else 1)). auto. }
      apply RefTheory.memN_In. unfold UK. apply in_map_iff. eexists. split; [|exact Hin]. reflexivity. }
    (* the entries of the new proof before the positions move *)
    assert (Hempty : op_eqb HO (op_empty HO) (op_empty HO) = true) by (apply HOK; reflexivity).
    assert (K1 : forall e, In e (kept ++ miss) -> In (fst e) NP /\ snd e = Hv (fst e)).
    { intros e He. apply in_app_or in He as [He|He].
      - unfold kept in He. apply in_flat_map in He as (p & Hp & He). unfold keep1 in He.
        destruct (memN p EX) eqn:Eex; [destruct He|].
        assert (HpNP : In p NP).
        { apply po_memN_false in Eex. destruct (memN p NP) eqn:En; [apply RefTheory.memN_In, En|].
          exfalso. apply Eex. unfold EX. apply filter_In. split; [exact Hp|]. rewrite En. reflexivity. }
        unfold Hv. destruct (memN p UK) eqn:Euk.
        + destruct (op_eqb HO (U p) (op_empty HO)); [destruct He|].
          destruct He as [<-|[]]. cbn [fst snd]. rewrite Euk. auto.
        + destruct He as [<-|[]]. cbn [fst snd]. rewrite Euk. auto.
      - unfold miss in He. apply in_map_iff in He as (p & <- & Hp). cbn [fst snd].
        apply filter_In in Hp as [Hp Huk]. unfold MP in Hp. apply filter_In in Hp as [Hp _].
        apply filter_In in Hp as [Hp _]. split; [exact Hp|]. unfold Hv. rewrite Huk. reflexivity. }
    assert (K2 : forall p, In p NP -> op_eqb HO (Hv p) (op_empty HO) = false -> In (p, Hv p) (kept ++ miss)).
    { intros p Hp Hnz. apply in_or_app. destruct (memN p OP) eqn:Eop.
      - left. apply RefTheory.memN_In in Eop. unfold kept. apply in_flat_map. exists p. split; [exact Eop|].
        unfold keep1. assert (Eex : memN p EX = false).
        { apply po_memN_false. intros Hin. unfold EX in Hin. apply filter_In in Hin as [_ Hin].
          rewrite (proj2 (RefTheory.memN_In p NP) Hp) in Hin. discriminate. }
        rewrite Eex. unfold Hv in *. destruct (memN p UK); [rewrite Hnz|]; left; reflexivity.
      - right. apply po_memN_false in Eop. destruct (K2a p Hp Eop) as [Huk _].
        assert (Hne : ~ In p BT).
        { intros Hin. apply (proj1 (RefTheory.sortN_In _ _)) in Hin. apply in_map_iff in Hin as (x' & <- & Hx').
          destruct (node_locc H HO s x' (Hxds_lay x' Hx') (Hxds_leaf x' Hx')) as (k0 & lo & c & He & Ho & _).
          assert (Lx : locc H HO s (CLeaf (nhash x')) (nrow x') (noff x')) by (exists k0, lo, c; auto).
          change (npos R x') with (pos R (nrow x') (noff x')) in Hnz. rewrite (VAL _ _ _ Lx) in Hnz.
          cbn [RefTheory.prune] in Hnz.
          rewrite (proj2 (memH_In H HO HOK (nhash x') hs)) in Hnz by (rewrite <- Hxds_hash; apply in_map, Hx').
          congruence. }
        unfold miss. apply in_map_iff. exists p. split; [unfold Hv; rewrite Huk; reflexivity|].
        apply filter_In. split; [|exact Huk]. unfold MP. apply filter_In. split.
        + apply filter_In. split; [exact Hp|]. apply negb_true_iff, po_memN_false. exact Eop.
        + apply negb_true_iff, po_memN_false. exact Hne. }
    assert (NdK : NoDup (map fst (kept ++ miss))).
    { rewrite map_app. apply NoDup_app_intro.
      - unfold kept. assert (Hnd0 : NoDup OP) by (apply pps_SSlt_NoDup; exact HsP).
        assert (G : forall l, NoDup l -> NoDup (map fst (flat_map (keep1 H HO F U EX UK) l)) /\
                    forall q, In q (map fst (flat_map (keep1 H HO F U EX UK) l)) -> In q l).
        { induction l as [|p l IH]; intros Hl; [split; [constructor|intros q []]|].
          inversion Hl as [|x y Hn Hl']; subst. destruct (IH Hl') as [I1 I2]. cbn [flat_map]. rewrite map_app.
          assert (Cnil : NoDup (map fst (flat_map (keep1 H HO F U EX UK) l)) /\
                         (forall q : N, In q (map fst (flat_map (keep1 H HO F U EX UK) l)) -> In q (p :: l))).
          { split; [exact I1|]. intros q Hq. right. exact (I2 q Hq). }
          assert (Ccons : NoDup (p :: map fst (flat_map (keep1 H HO F U EX UK) l)) /\
                          (forall q : N, In q (p :: map fst (flat_map (keep1 H HO F U EX UK) l)) -> In q (p :: l))).
          { split; [constructor; [intros Hin; exact (Hn (I2 p Hin))|exact I1]|].
            intros q [<-|Hq]; [left; reflexivity|right; exact (I2 q Hq)]. }
          unfold keep1 at 1 3. destruct (memN p EX); [exact Cnil|]. destruct (memN p UK).
          - destruct (op_eqb HO (U p) (op_empty HO)); [exact Cnil|exact Ccons].
          - exact Ccons. }
        exact (proj1 (G OP Hnd0)).
      - unfold miss. rewrite po_gr_fst. apply pps_SSlt_NoDup, po_filter_SS, HsMP.
      - intros q Hq1 Hq2. apply in_map_iff in Hq1 as (e1 & <- & He1). 
        unfold kept in He1. apply in_flat_map in He1 as (p & Hp & He1).
        assert (Efe : fst e1 = p).
        { unfold keep1 in He1. destruct (memN p EX); [destruct He1|]. destruct (memN p UK).
          - destruct (op_eqb HO (U p) (op_empty HO)); [destruct He1|]. destruct He1 as [<-|[]]. reflexivity.
          - destruct He1 as [<-|[]]. reflexivity. }
        rewrite Efe in Hq2. unfold miss in Hq2. rewrite po_gr_fst in Hq2.
        apply filter_In in Hq2 as [Hq2 _]. unfold MP in Hq2. apply filter_In in Hq2 as [Hq2 _].
        apply filter_In in Hq2 as [_ Hq2]. rewrite (proj2 (RefTheory.memN_In p OP) Hp) in Hq2. discriminate. }
    (* an inner occurrence both of whose children survive, after the deletion *)
    assert (MVgen : forall h l rr r o l' rr', locc H HO s (CNode h l rr) (Datatypes.S r) o ->
              prune l = Some l' -> prune rr = Some rr' ->
              exists r1 o1, liftc Dd (Datatypes.S r, o) = (Datatypes.S r1, o1) /\
                liftc Dd (r, 2 * o) = (r1, 2 * o1) /\ liftc Dd (r, 2 * o + 1) = (r1, 2 * o1 + 1) /\
                locc H HO s1 (CNode (op_hash2 HO (chash l') (chash rr')) l' rr') (Datatypes.S r1) o1 /\
                locc H HO s1 l' r1 (2 * o1) /\ locc H HO s1 rr' r1 (2 * o1 + 1)).
    { intros h l rr r o l' rr' Hlp Pl Pr.
      destruct (locc_child H HO s _ _ _ Hlp h l rr eq_refl) as (r' & Er & Ll & Lr). injection Er as <-.
      assert (PT : prune (CNode h l rr) = Some (CNode (op_hash2 HO (chash l') (chash rr')) l' rr'))
        by (cbn [RefTheory.prune]; rewrite Pl, Pr; reflexivity).
      pose proof (A3 _ _ _ _ Hlp PT) as UT. pose proof (A3 _ _ _ _ Ll Pl) as Ul.
      pose proof (A3 _ _ _ _ Lr Pr) as Ur.
      destruct (liftc Dd (Datatypes.S r, o)) as [rt ot] eqn:Et. cbn [fst snd] in UT.
      destruct (locc_child H HO s1 _ _ _ UT _ _ _ eq_refl) as (r1 & Er1 & Ll1 & Lr1). subst rt.
      exists r1, ot. split; [reflexivity|].
      rewrite (surjective_pairing (liftc Dd (r, 2 * o))), (surjective_pairing (liftc Dd (r, 2 * o + 1))).
      split; [exact (locc_once HO s1 l' _ _ _ _ Hnd1 Ul Ll1)|].
      split; [exact (locc_once HO s1 rr' _ _ _ _ Hnd1 Ur Lr1)|]. auto. }
    assert (Hnr1 : forall h l rr r o c0 o0, locc H HO s1 (CNode h l rr) (Datatypes.S r) o ->
              (c0 = l /\ o0 = 2 * o) \/ (c0 = rr /\ o0 = 2 * o + 1) -> is_root_c n (cN (r, o0)) = false).
    { intros h l rr r o c0 o0 Hlp Hc.
      destruct (locc_child_node H HO s1 h l rr r o Hlp c0 o0 Hc) as (y & Hy & Yr & Yo & _ & Ynr & _).
      pose proof (rf_root_true H HO s1 y Hy Ynr) as Hrt. rewrite length_kill in Hrt.
      unfold ncrd in Hrt. rewrite Yr, Yo in Hrt. exact Hrt. }
    (* a needed old position whose subtree survives, after the deletion *)
    assert (MV : forall p c r o c', In p NP -> locc H HO s c r o -> p = pos R r o -> prune c = Some c' ->
              locc H HO s1 c' (fst (liftc Dd (r, o))) (snd (liftc Dd (r, o))) /\
              In (cpos R (liftc Dd (r, o))) NP1 /\ is_root_c n (cN (liftc Dd (r, o))) = false).
    { intros p c r o c' Hp Hl Ep Pc. split; [exact (A3 _ _ _ _ Hl Pc)|].
      apply NPT in Hp as (h & k & pr & r0 & o0 & b & Hlp & Hk & Hnpr & Ep' & Lpr & Lk).
      rewrite Ep in Ep'. destruct (Hposinj _ _ _ _ _ _ Hl Lpr Ep') as [Ec ->]. apply pair_equal_spec in Ec as [-> ->].
      destruct (prune k) as [k'|] eqn:Pk; [|exfalso; exact (Hhit_some k Hk Pk)].
      destruct b.
      - destruct (MVgen h pr k r0 o0 c' k' Hlp Pc Pk) as (r1 & o1 & E0 & E1 & E2 & LT & L1 & L2).
        change (if true then 0 else 1) with 0. rewrite N.add_0_r, E1. split.
        + apply N1T. exists (op_hash2 HO (chash c') (chash k')), k', c', r1, o1, true.
          rewrite !N.add_0_r. repeat split; try assumption.
          * apply (Hhit_pr k k' Pk), Hk.
          * intros Hu. apply Hnpr. apply (Hhit_pr pr c' Pc), Hu.
        + apply (Hnr1 _ _ _ _ _ c' (2 * o1) LT). left. auto.
      - destruct (MVgen h k pr r0 o0 k' c' Hlp Pk Pc) as (r1 & o1 & E0 & E1 & E2 & LT & L1 & L2).
        change (if false then 0 else 1) with 1. rewrite E2. split.
        + apply N1T. exists (op_hash2 HO (chash k') (chash c')), k', c', r1, o1, false.
          rewrite !N.add_0_r. repeat split; try assumption.
          * apply (Hhit_pr k k' Pk), Hk.
          * intros Hu. apply Hnpr. apply (Hhit_pr pr c' Pc), Hu.
        + apply (Hnr1 _ _ _ _ _ c' (2 * o1 + 1) LT). right. auto. }
    (* every needed new position comes from a needed old one *)
    assert (N1sub : forall p', In p' NP1 -> exists p c r o c', In p NP /\ locc H HO s c r o /\
              p = pos R r o /\ prune c = Some c' /\ p' = cpos R (liftc Dd (r, o))).
    { intros p' Hp'. apply N1T in Hp' as (h' & k' & pr' & r' & o' & b & Hlp' & Hk' & Hnpr' & -> & Lpr' & Lk').
      destruct (A4 _ _ _ Hlp') as (c0 & r0 & o0 & L0 & P0 & E0 & U0).
      destruct c0 as [x|h0 l0 rr0].
      { cbn [RefTheory.prune] in P0. destruct (memH HO x hs); [discriminate|]. destruct b; discriminate. }
      destruct (U0 h0 l0 rr0 eq_refl) as [Nl Nr].
      destruct (prune l0) as [l0'|] eqn:Pl; [|contradiction]. destruct (prune rr0) as [rr0'|] eqn:Pr; [|contradiction].
      cbn [RefTheory.prune] in P0. rewrite Pl, Pr in P0. cbn [join] in P0.
      destruct (locc_child H HO s _ _ _ L0 h0 l0 rr0 eq_refl) as (r00 & Er & Ll0 & Lr0). subst r0.
      destruct (MVgen h0 l0 rr0 r00 o0 l0' rr0' L0 Pl Pr) as (r1 & o1 & E1 & E2 & E3 & _).
      rewrite E0 in E1. injection E1 as <- <-.
      destruct b; injection P0 as _ El Er.
      - subst l0' rr0'. exists (pos R r00 (2 * o0)), l0, r00, (2 * o0), pr'.
        split; [|split; [exact Ll0|split; [reflexivity|split; [exact Pl|]]]].
        + apply NPT. exists h0, rr0, l0, r00, o0, true. rewrite !N.add_0_r. repeat split; try assumption.
          * apply (Hhit_pr rr0 k' Pr), Hk'.
          * intros Hu. apply Hnpr'. apply (Hhit_pr l0 pr' Pl), Hu.
        + rewrite E2, N.add_0_r. reflexivity.
      - subst l0' rr0'. exists (pos R r00 (2 * o0 + 1)), rr0, r00, (2 * o0 + 1), pr'.
        split; [|split; [exact Lr0|split; [reflexivity|split; [exact Pr|]]]].
        + apply NPT. exists h0, l0, rr0, r00, o0, false. rewrite !N.add_0_r. repeat split; try assumption.
          * apply (Hhit_pr l0 k' Pl), Hk'.
          * intros Hu. apply Hnpr'. apply (Hhit_pr rr0 pr' Pr), Hu.
        + rewrite E3. reflexivity. }
    (* the new proof with coordinates *)
    destruct (pd_ex_coords R (fun x : coord => exists c, locc H HO s c (fst x) (snd x)) (kept ++ miss))
      as (XP & EXP & HXP).
    { intros e He. destruct (K1 e He) as [Hp _].
      apply NPT in Hp as (h & k & pr & r & o & b & _ & _ & _ & Ep & Lpr & _).
      exists (r, 2 * o + (if b then 0 else 1)). split; [exists pr; exact Lpr|exact Ep]. }
    assert (HXPin : forall e, In e XP -> In (cposh H R e) (kept ++ miss)) by (intros e He; rewrite EXP; apply in_map, He).
    assert (NdXP : NoDup XP).
    { rewrite EXP, map_map in NdK. exact (NoDup_map_inv _ _ NdK). }
    (* an entry with a non-zero hash: its subtree survives *)
    assert (HXPnz : forall e, In e XP -> op_eqb HO (snd e) (op_empty HO) = false ->
              exists c c', locc H HO s c (fst (fst e)) (snd (fst e)) /\ In (cpos R (fst e)) NP /\
                           prune c = Some c' /\ snd e = chash c').
    { intros e He Hnz. destruct (HXP e He) as (c & Hl). destruct (K1 _ (HXPin e He)) as [Hp Hs].
      unfold cposh in Hp, Hs. cbn [fst snd] in Hp, Hs.
      change (cpos R (fst e)) with (pos R (fst (fst e)) (snd (fst e))) in Hs. rewrite (VAL _ _ _ Hl) in Hs.
      destruct (prune c) as [c'|] eqn:Pc; [exists c, c'; auto|]. rewrite Hs in Hnz. congruence. }
    rewrite EXP.
    assert (EP : getNewPositions HO (map (cpos R) (map fst Dall)) (map (cposh H R) XP) (num_leaves s) false = gr H F1 NP1).
    { unfold getNewPositions.
      rewrite <- (ER : N.of_nat R = TreeRows (num_leaves s)).
      change (gnp_loop HO (map (cpos R) (map fst Dall)) (map (cposh H R) XP) (num_leaves s) (N.of_nat R) 0 false)
        with (gnp_loop HO (map (cpos R) (map fst Dall)) (map (cposh H R) XP) n (N.of_nat R) 0 false).
      rewrite (pd2_gnp_loop H HO R n HR63 Hn63 ER Dall false Hd1 XP 0).
      - set (XPn := filter (fun e : coord * H => negb (op_eqb HO (snd e) (op_empty HO))) XP).
        assert (HXPn : forall e, In e XPn -> In e XP /\ op_eqb HO (snd e) (op_empty HO) = false).
        { intros e He. unfold XPn in He. apply filter_In in He as [A B]. split; [exact A|].
          apply negb_true_iff, B. }
        assert (Hs1nz : forall h, In (Some h) s1 -> NZ HO h) by (intros h Hh; apply Hlive_nz, dg2_live1, Hh).
        apply pd_sortK_graph.
        + intros e He. apply in_map_iff in He as (e0 & <- & He0). destruct (HXPn e0 He0) as [He1 Hnz].
          destruct (HXPnz e0 He1 Hnz) as (c & c' & Hl & Hp & Pc & Es).
          unfold cposh. cbn [fst snd]. rewrite Es.
          destruct (MV _ c _ _ c' Hp Hl eq_refl Pc) as (Hl1 & _). rewrite <- surjective_pairing in *.
          rewrite (surjective_pairing (liftc Dd (fst e0))). symmetry. exact (Hval1 c' _ _ Hl1).
        + rewrite map_map. unfold cposh. cbn [fst snd].
          apply (RefTheory.NoDup_map_inj_on (fun e : coord * H => cpos R (liftc Dd (fst e))));
            [apply NoDup_filter, NdXP|].
          intros e1 e2 He1 He2 Ek. destruct (HXPn e1 He1) as [Hi1 Hz1]. destruct (HXPn e2 He2) as [Hi2 Hz2].
          destruct (HXPnz e1 Hi1 Hz1) as (c1 & c1' & L1 & P1 & Pc1 & Es1).
          destruct (HXPnz e2 Hi2 Hz2) as (c2 & c2' & L2 & P2 & Pc2 & Es2).
          destruct (MV _ c1 _ _ c1' P1 L1 eq_refl Pc1) as (M1 & _).
          destruct (MV _ c2 _ _ c2' P2 L2 eq_refl Pc2) as (M2 & _).
          rewrite <- surjective_pairing in M1, M2.
          assert (Ec' : c1' = c2').
          { destruct (locc_node H HO s1 _ _ _ M1) as (y1 & Y1 & Yr1 & Yo1 & _).
            destruct (locc_node H HO s1 _ _ _ M2) as (y2 & Y2 & Yr2 & Yo2 & _).
            assert (Ey : y1 = y2).
            { apply (RefTheory.layout_npos_inj H HO s1 y1 y2 Y1 Y2). rewrite ER1. unfold npos.
              rewrite Yr1, Yo1, Yr2, Yo2. exact Ek. }
            subst y2. assert (Ecc : liftc Dd (fst e1) = liftc Dd (fst e2)).
            { rewrite (surjective_pairing (liftc Dd (fst e1))), (surjective_pairing (liftc Dd (fst e2))). congruence. }
            rewrite Ecc in M1. exact (locc_uniq H HO s1 _ _ _ _ M1 M2). }
          subst c2'.
          destruct (cleaves H c1') as [|x xs] eqn:Ecl; [exfalso; exact (cleaves_nonnil H c1' Ecl)|].
          assert (X1 : In x (cleaves H c1)) by (apply (prune_leaves H HO HOK hs c1 c1' Pc1 x); rewrite Ecl; left; reflexivity).
          assert (X2 : In x (cleaves H c2)) by (apply (prune_leaves H HO HOK hs c2 c1' Pc2 x); rewrite Ecl; left; reflexivity).
          apply NPT in P1 as (h1 & k1 & pr1 & r1 & o1 & b1 & Hlp1 & Hk1 & Hn1 & Ep1 & Lpr1 & _).
          apply NPT in P2 as (h2 & k2 & pr2 & r2 & o2 & b2 & Hlp2 & Hk2 & Hn2 & Ep2 & Lpr2 & _).
          destruct (Hposinj _ _ _ _ _ _ L1 Lpr1 Ep1) as [Ec1 ->].
          destruct (Hposinj _ _ _ _ _ _ L2 Lpr2 Ep2) as [Ec2 ->].
          pose proof (canon_sides_disjoint H HO s Hnd sortedS h1 k1 pr1 r1 o1 b1 h2 k2 pr2 r2 o2 b2 x
                        Hlp1 Hlp2 Hk1 Hn1 Hk2 Hn2 X1 X2) as Ecoord.
          assert (Ef : fst e1 = fst e2).
          { rewrite (surjective_pairing (fst e1)), (surjective_pairing (fst e2)). congruence. }
          destruct (K1 _ (HXPin e1 Hi1)) as [_ Hs1]. destruct (K1 _ (HXPin e2 Hi2)) as [_ Hs2].
          unfold cposh in Hs1, Hs2. cbn [fst snd] in Hs1, Hs2.
          destruct e1 as [x1 v1], e2 as [x2 v2]. cbn [fst snd] in *. subst x2. congruence.
        + pose proof (po_canon_pos_SSlt H HO s1 Hn63' sortedU LSU) as Hx. rewrite ER1 in Hx. exact Hx.
        + intros p. rewrite map_map. unfold cposh. cbn [fst snd]. split.
          * intros Hp. apply in_map_iff in Hp as (e & <- & He). destruct (HXPn e He) as [Hi Hz].
            destruct (HXPnz e Hi Hz) as (c & c' & L & P & Pc & _).
            destruct (MV _ c _ _ c' P L eq_refl Pc) as (_ & Hin & _).
            rewrite <- surjective_pairing in Hin. exact Hin.
          * intros Hp. destruct (N1sub p Hp) as (p0 & c & r & o & c' & Hp0 & L & -> & Pc & ->).
            destruct (MV _ c r o c' Hp0 L eq_refl Pc) as (M1 & _).
            assert (Hnz : op_eqb HO (Hv (pos R r o)) (op_empty HO) = false).
            { rewrite (VAL _ _ _ L), Pc. exact (locc_nz H HO s1 c' _ _ hash_nz Hs1nz M1). }
            pose proof (K2 _ Hp0 Hnz) as Hin. rewrite EXP in Hin. apply in_map_iff in Hin as (e & Ee & He).
            unfold cposh in Ee. injection Ee as Ee1 Ee2.
            destruct (HXP e He) as (ce & Le).
            destruct (Hposinj _ _ _ _ _ _ Le L Ee1) as [Ecoord _].
            apply in_map_iff. exists e. split.
            -- rewrite (surjective_pairing (fst e)), Ecoord. reflexivity.
            -- unfold XPn. apply filter_In. split; [exact He|]. rewrite Ee2. apply negb_true_iff. exact Hnz.
      - lia.
      - intros e He. destruct (HXP e He) as (c & Hl). rewrite (surjective_pairing (fst e)). exact (HcokL _ _ _ Hl).
      - intros e He Hnz. destruct (HXPnz e He Hnz) as (c & c' & L & _ & Pc & _).
        rewrite (surjective_pairing (fst e)). exact (A2s _ _ _ _ L Pc).
      - intros e He Hnz. right. destruct (HXPnz e He Hnz) as (c & c' & L & P & Pc & _).
        destruct (MV _ c _ _ c' P L eq_refl Pc) as (_ & _ & Hr). rewrite <- surjective_pairing in Hr.
        exact Hr. }
    rewrite EP. unfold hashes, positions. rewrite !po_gr_snd, po_gr_fst. unfold NP1.
    rewrite <- ER1.
    rewrite <- (po_hashes_Fv H HO s1 sortedU LSU).
    rewrite <- (po_canon_hashes_Fv H HO s1 Hn63' sortedU LSU). reflexivity.
  Qed.


  (** G3 from the same hypotheses: the remove part, then [ProofUpdateSpec.ag_both] on [kill hs s] *)
  Variable adds : list H.
  Variable rem : list N.
  Hypothesis Hb : N.of_nat (length s + length adds) <= 2 ^ 63.
  Hypothesis Hnd2 : NoDup (live (s1 ++ map Some adds)).
  Hypothesis Hrem : SSlt rem.
  Hypothesis Hcol : forall x, In x (layout HO (s1 ++ map Some adds)) -> nleaf x = false ->
                              ~ In (nhash x) (pick adds rem).

  Theorem dg2_block :
    proof_update HO tC pC hC adds bt rem (ud_of_spec (spec_update_data HO s hs adds))
    = exp_cached HO (mk_ctx HO (apply_block HO s hs adds)) (cached_after HO C hs (pick adds rem)) /\
    exp_cached HO (mk_ctx HO (apply_block HO s hs adds)) (cached_after HO C hs (pick adds rem)) <> None.
  Proof.
    destruct dg2_remove as [Erem Hsome].
    destruct (exp_cached HO (mk_ctx HO s1) (removeH HO C hs)) as [[[h1 t1] p1]|] eqn:E1; [|contradiction].
    assert (Hs1nz : forall h, In (Some h) s1 -> NZ HO h) by (intros h Hh; apply Hlive_nz, dg2_live1, Hh).
    assert (Hb1 : N.of_nat (length s1 + length adds) <= 2 ^ 63) by (rewrite length_kill; exact Hb).
    assert (NdS : NoDup (removeH HO C hs)) by (unfold removeH; apply NoDup_filter, HC).
    destruct (ag_both H HO HOK hash_nz s1 adds Hs1nz Hb1 Hnd2 (removeH HO C hs) rem NdS Hrem Hcol
                h1 t1 p1 E1) as [_ Eadd].
    unfold proof_update, ud_of_spec, spec_update_data.
    cbn [u_del u_prev u_add u_to_destroy ud_new_del ud_prev_num_leaves ud_new_add ud_to_destroy].
    rewrite Erem. unfold apply_block, cached_after.
    assert (En : num_leaves s = num_leaves s1) by (unfold num_leaves; rewrite length_kill; reflexivity).
    rewrite En. exact Eadd.
  Qed.
End DelGen2.
Print Assumptions dg2_block.

(** * 5. [deTwin]: the roots of the maximal deleted subtrees *)

(** ** 5.1 The loop of [deTwin], abstractly *)

Lemma rightSib_cases a : rightSib a = a \/ rightSib a = a + 1.
Proof. unfold rightSib, Bits64.or64. rewrite lor_1. destruct (N.even a); [right|left]; reflexivity. Qed.

Lemma insertInOrder_app_gt l1 : forall l2 el, (forall x, In x l1 -> x < el) ->
  insertInOrder (l1 ++ l2) el = l1 ++ insertInOrder l2 el.
Proof.
  induction l1 as [|y t IH]; intros l2 el Hlt; [reflexivity|]. cbn [app insertInOrder].
  assert (Hy : y < el) by (apply Hlt; left; reflexivity).
  destruct (N.ltb_spec el y) as [Hc|_]; [lia|]. f_equal. apply IH. intros x Hx. apply Hlt. right. exact Hx.
Qed.

Lemma insertInOrder_In l : forall el x, In x (insertInOrder l el) <-> x = el \/ In x l.
Proof.
  induction l as [|y t IH]; intros el x; cbn [insertInOrder].
  - cbn [In]. intuition.
  - destruct (el <? y); cbn [In]; [intuition|]. rewrite IH. intuition.
Qed.

Lemma insertInOrder_length l : forall el, length (insertInOrder l el) = S (length l).
Proof.
  induction l as [|y t IH]; intros el; cbn [insertInOrder]; [reflexivity|].
  destruct (el <? y); cbn [length]; [reflexivity|]. rewrite IH. reflexivity.
Qed.

Lemma insertInOrder_SS l : forall el, SSlt l -> ~ In el l -> SSlt (insertInOrder l el).
Proof.
  induction l as [|y t IH]; intros el Hs Hn; cbn [insertInOrder]; [repeat constructor|].
  destruct (po_SS_inv _ _ _ Hs) as [Hs' Hy].
  destruct (N.ltb_spec el y) as [Hc|Hc].
  - constructor; [exact Hs|]. apply Forall_forall. intros x [<-|Hx]; [exact Hc|]. specialize (Hy x Hx). lia.
  - constructor; [apply IH; [exact Hs'|intros Hi; apply Hn; right; exact Hi]|].
    apply Forall_forall. intros x Hx. apply insertInOrder_In in Hx as [->|Hx]; [|apply Hy, Hx].
    assert (el <> y) by (intros ->; apply Hn; left; reflexivity). lia.
Qed.

Lemma nth_split2 {A} (l : list A) i a b : nth_error l i = Some a -> nth_error l (S i) = Some b ->
  l = firstn i l ++ a :: b :: skipn (S (S i)) l /\ length (firstn i l) = i.
Proof.
  revert l. induction i as [|i IH]; intros l Ha Hb.
  - destruct l as [|x [|y t]]; cbn in *; try discriminate. injection Ha as ->. injection Hb as ->. split; reflexivity.
  - destruct l as [|x t]; [discriminate|]. cbn [nth_error] in Ha, Hb. destruct (IH t Ha Hb) as [E L].
    cbn [firstn skipn app length]. split; [f_equal; exact E|f_equal; exact L].
Qed.

Lemma SS_app_lt l1 : forall l2, SSlt (l1 ++ l2) -> forall x y, In x l1 -> In y l2 -> x < y.
Proof.
  induction l1 as [|z t IH]; intros l2 Hs x y Hx Hy; [destruct Hx|].
  cbn [app] in Hs. destruct (po_SS_inv _ _ _ Hs) as [Hs' Hz]. destruct Hx as [<-|Hx].
  - apply Hz, in_or_app. right. exact Hy.
  - exact (IH l2 Hs' x y Hx Hy).
Qed.

Section TwinLoop.
  Variable P : list N -> Prop.
  Variable fr : N.
  Hypothesis P_sorted : forall l, P l -> SSlt l.
  Hypothesis P_step : forall l1 a b l2, P (l1 ++ a :: b :: l2) -> rightSib a = b ->
    a < Parent a fr /\ ~ In (Parent a fr) (l1 ++ l2) /\ P (insertInOrder (l1 ++ l2) (Parent a fr)).

  Definition checked (i : nat) (l : list N) : Prop :=
    forall j a b, (j < i)%nat -> nth_error l j = Some a -> nth_error l (S j) = Some b -> rightSib a <> b.

  Lemma checked_all i l : checked i l -> (length l <= S i)%nat -> forall i', checked i' l.
  Proof.
    intros Hc Hl i' j a b _ Ha Hb. apply (Hc j a b); [|exact Ha|exact Hb].
    assert (S j < length l)%nat by (apply nth_error_Some; congruence). lia.
  Qed.

  Lemma deTwin_loop_spec : forall fuel i l, P l -> checked i l -> (2 * length l <= fuel + i)%nat ->
    P (deTwin_loop fuel i l fr) /\ forall i', checked i' (deTwin_loop fuel i l fr).
  Proof.
    induction fuel as [|f IH]; intros i l HP Hc Hf; cbn [deTwin_loop].
    - split; [exact HP|]. apply (checked_all i); [exact Hc|lia].
    - destruct (nth_error l i) as [a|] eqn:Ea.
      2:{ split; [exact HP|]. apply (checked_all i); [exact Hc|]. apply nth_error_None in Ea. lia. }
      destruct (nth_error l (S i)) as [b|] eqn:Eb.
      2:{ split; [exact HP|]. apply (checked_all i); [exact Hc|]. apply nth_error_None in Eb. lia. }
      destruct (N.eqb_spec (rightSib a) b) as [Et|Et].
      + destruct (nth_split2 l i a b Ea Eb) as [El Li].
        set (l1 := firstn i l) in *. set (l2 := skipn (S (S i)) l) in *.
        pose proof (P_sorted l HP) as Hs. rewrite El in Hs.
        assert (HP' : P (l1 ++ a :: b :: l2)) by (rewrite <- El; exact HP).
        destruct (P_step l1 a b l2 HP' Et) as (Hap & Hnin & HPn).
        assert (H1a : forall x, In x l1 -> x < a).
        { intros x Hx. apply (SS_app_lt l1 (a :: b :: l2) Hs x a Hx). left. reflexivity. }
        assert (Hins : insertInOrder (l1 ++ l2) (Parent a fr) = l1 ++ insertInOrder l2 (Parent a fr)).
        { apply insertInOrder_app_gt. intros x Hx. specialize (H1a x Hx). lia. }
        apply IH; [exact HPn| |].
        * rewrite Hins. intros j x y Hj Hx Hy.
          assert (Hxl : nth_error l j = Some x).
          { rewrite nth_error_app1 in Hx by lia. rewrite El, nth_error_app1 by lia. exact Hx. }
          destruct (Nat.eq_dec (S j) i) as [Ej|Ej].
          -- (* the new neighbour is larger than [a] *)
             rewrite nth_error_app2 in Hy by lia. apply nth_error_In in Hy.
             assert (Hya : a < y).
             { apply insertInOrder_In in Hy as [->|Hy]; [exact Hap|].
               assert (Hs2 : SSlt ((l1 ++ [a]) ++ b :: l2)) by (rewrite <- app_assoc; exact Hs).
               apply (SS_app_lt _ _ Hs2 a y); [apply in_or_app; right; left; reflexivity|right; exact Hy]. }
             assert (Hxa : x < a) by (apply H1a; rewrite nth_error_app1 in Hx by lia; apply nth_error_In in Hx; exact Hx).
             destruct (rightSib_cases x) as [->| ->]; lia.
          -- rewrite nth_error_app1 in Hy by lia.
             apply (Hc j x y); [lia|exact Hxl|]. rewrite El, nth_error_app1 by lia. exact Hy.
        * assert (Hl : length l = (length l1 + 2 + length l2)%nat) by (rewrite El at 1; rewrite app_length; cbn [length]; lia).
          rewrite insertInOrder_length, app_length.
          lia.
      + apply IH; [exact HP| |lia].
        intros j x y Hj Hx Hy. destruct (Nat.eq_dec j i) as [->|Hji].
        * rewrite Ea in Hx. rewrite Eb in Hy. congruence.
        * apply (Hc j x y); [lia|exact Hx|exact Hy].
  Qed.
End TwinLoop.

(** ** 5.2 Positions and coordinates of twins *)

Lemma cpos_lt_clt R x y : cvalid R x -> cvalid R y -> clt x y -> cpos R x < cpos R y.
Proof.
  intros [X1 X2] [Y1 Y2] Hc. rewrite !cpos_gpos. destruct Hc as [Hr|[Hr Ho]].
  - apply gpos_row_mono; lia.
  - rewrite Hr. unfold gpos. lia.
Qed.

Lemma cpos_inj2 R x y : cvalid R x -> cvalid R y -> cpos R x = cpos R y -> x = y.
Proof.
  intros [X1 X2] [Y1 Y2] E. rewrite !cpos_gpos in E.
  apply gpos_inj in E as [Er Eo]; [|lia|exact X2|lia|exact Y2].
  destruct x, y. cbn [fst snd] in *. f_equal; lia.
Qed.

Lemma clt_total x y : clt x y \/ x = y \/ clt y x.
Proof.
  destruct x as [r o], y as [r' o']. unfold clt. cbn [fst snd].
  destruct (lt_eq_lt_dec r r') as [[L|E]|G]; [left; left; exact L| |right; right; left; exact G].
  subst r'. destruct (N.lt_trichotomy o o') as [L|[E|G]]; [left; right; auto|right; left; subst; reflexivity|right; right; right; auto].
Qed.

Lemma twin_coords R xa xb : (R <= 63)%nat -> cvalid R xa -> cvalid R xb -> cpos R xa < cpos R xb ->
  rightSib (cpos R xa) = cpos R xb ->
  fst xb = fst xa /\ snd xb = snd xa + 1 /\ N.even (snd xa) = true /\ (fst xa < R)%nat.
Proof.
  intros HR [A1 A2] [B1 B2] Hlt E.
  assert (Ea : N.even (cpos R xa) = true /\ cpos R xb = cpos R xa + 1).
  { unfold rightSib, Bits64.or64 in E. rewrite lor_1 in E. destruct (N.even (cpos R xa)); [split; [reflexivity|lia]|lia]. }
  destruct Ea as [Ev E1]. rewrite !cpos_gpos in *. rewrite gpos_even in Ev by lia.
  destruct (Nat.eq_dec (fst xa) R) as [Er|Er].
  - exfalso. pose proof (gpos_lt (N.of_nat R) (N.of_nat (fst xb)) (snd xb) ltac:(lia) B2) as Hb.
    rewrite Er, N.sub_diag in A2. assert (snd xa = 0) by (cbn in A2; lia).
    rewrite E1, Er, H in Hb. unfold gpos, gstart in Hb.
    replace (N.of_nat R + 1 - N.of_nat R) with 1 in Hb by lia.
    assert (1 <= 2 ^ (N.of_nat R - N.of_nat (fst xb))) by (pose proof (UtilsGeom.pow2_pos (N.of_nat R - N.of_nat (fst xb))); lia).
    assert (2 <= 2 ^ (N.of_nat R + 1)) by (rewrite pow2_S; pose proof (UtilsGeom.pow2_pos (N.of_nat R)); lia).
    cbn in Hb. lia.
  - assert (Hs : snd xa + 1 < 2 ^ (N.of_nat R - N.of_nat (fst xa))).
    { destruct (sib_offsets_lt (N.of_nat R) (N.of_nat (fst xa)) (snd xa) ltac:(lia) A2) as (_ & Hl & _).
      rewrite lor_1, Ev in Hl. exact Hl. }
    assert (E2 : gpos (N.of_nat R) (N.of_nat (fst xb)) (snd xb) = gpos (N.of_nat R) (N.of_nat (fst xa)) (snd xa + 1))
      by (rewrite E1; unfold gpos; lia).
    apply gpos_inj in E2 as [Er' Eo]; [|lia|exact B2|lia|exact Hs].
    repeat split; [lia|exact Eo|exact Ev|lia].
Qed.

Lemma parent_cpos R n x : (R <= 63)%nat -> N.of_nat R = TreeRows n -> cvalid R x -> (fst x < R)%nat ->
  Parent (cpos R x) (TreeRows n) = cpos R (S (fst x), snd x / 2).
Proof.
  intros HR ER [X1 X2] Hlt. rewrite !cpos_gpos, <- ER. cbn [fst snd].
  rewrite Parent_gpos by (try exact X2; lia). f_equal. lia.
Qed.

(** insertion by position, on coordinates *)
Fixpoint insC (R : nat) (L : list coord) (p : coord) : list coord :=
  match L with
  | [] => [p]
  | y :: t => if cpos R p <? cpos R y then p :: L else y :: insC R t p
  end.

Lemma insC_map R L : forall p, map (cpos R) (insC R L p) = insertInOrder (map (cpos R) L) (cpos R p).
Proof.
  induction L as [|y t IH]; intros p; cbn [insC map insertInOrder]; [reflexivity|].
  destruct (cpos R p <? cpos R y); cbn [map]; [reflexivity|]. rewrite IH. reflexivity.
Qed.

Lemma insC_In R L : forall p x, In x (insC R L p) <-> x = p \/ In x L.
Proof.
  induction L as [|y t IH]; intros p x; cbn [insC].
  - cbn [In]. intuition.
  - destruct (cpos R p <? cpos R y); cbn [In]; [intuition|]. rewrite IH. intuition.
Qed.

Lemma SS_app_drop {A} (lt : A -> A -> Prop) l1 : forall m l2, StronglySorted lt (l1 ++ m ++ l2) -> StronglySorted lt (l1 ++ l2).
Proof.
  induction l1 as [|x t IH]; intros m l2 Hs.
  - cbn [app] in *. induction m as [|y m IHm]; [exact Hs|]. apply IHm. cbn [app] in Hs. inversion Hs; assumption.
  - cbn [app] in *. inversion Hs as [|? ? Hs' Hx]; subst. constructor; [exact (IH m l2 Hs')|].
    rewrite Forall_forall in *. intros y Hy. apply Hx. apply in_app_or in Hy as [Hy|Hy]; apply in_or_app; [left; exact Hy|].
    right. apply in_or_app. right. exact Hy.
Qed.

Lemma SS_adjacent l : forall a, SSlt l -> In a l -> In (a + 1) l ->
  exists j, nth_error l j = Some a /\ nth_error l (S j) = Some (a + 1).
Proof.
  induction l as [|x t IH]; intros a Hs Ha Hb; [destruct Ha|].
  destruct (po_SS_inv _ _ _ Hs) as [Hs' Hx].
  destruct Ha as [->|Ha].
  - destruct Hb as [Hb|Hb]; [lia|]. exists 0%nat. split; [reflexivity|].
    destruct t as [|y t']; [destruct Hb|]. cbn [nth_error]. f_equal.
    pose proof (Hx y (or_introl eq_refl)) as Hy.
    destruct Hb as [Hb|Hb]; [exact Hb|].
    destruct (po_SS_inv _ _ _ Hs') as [_ Hy']. specialize (Hy' _ Hb). lia.
  - destruct Hb as [Hb|Hb]; [specialize (Hx a Ha); lia|].
    destruct (IH a Hs' Ha Hb) as (j & A & B). exists (S j). split; [exact A|exact B].
Qed.

(** ** 5.3 Subtrees of the forest below one another *)

Lemma under_same_row a b : under a b -> fst a = fst b -> a = b.
Proof.
  intros [_ E] Hr. rewrite Hr, Nat.sub_diag, N.div_1_r in E. destruct a, b. cbn [fst snd] in *. congruence.
Qed.

Lemma under_antisym a b : under a b -> under b a -> a = b.
Proof. intros H1 H2. apply under_same_row; [exact H1|]. destruct H1, H2. lia. Qed.

Lemma under_child_split x e : under x e -> (fst e < fst x)%nat ->
  under (chd 0 x) e \/ under (chd 1 x) e.
Proof.
  intros [Hr E] Hlt. set (j := (fst x - fst e)%nat) in *.
  assert (Ej : N.of_nat j = 1 + N.of_nat (j - 1)) by lia.
  rewrite Ej, N.pow_add_r, N.pow_1_r, N.mul_comm, <- N.div_div in E by (try apply pow2_nz; lia).
  set (v := snd e / 2 ^ N.of_nat (j - 1)) in *.
  pose proof (N.div_mod v 2 ltac:(lia)) as Hd. pose proof (N.mod_lt v 2 ltac:(lia)) as Hm. rewrite E in Hd.
  assert (Hc : v = 2 * snd x + 0 \/ v = 2 * snd x + 1) by lia.
  unfold under, chd. cbn [fst snd].
  replace (Nat.pred (fst x) - fst e)%nat with (j - 1)%nat by lia.
  destruct Hc as [Hc|Hc]; [left|right]; (split; [lia|]); fold v; exact Hc.
Qed.

Lemma under_comparable a b l : under a l -> under b l -> (fst a <= fst b)%nat -> under b a.
Proof.
  intros [Ha Ea] [Hb Eb] Hab. split; [exact Hab|]. rewrite <- Ea, <- Eb.
  replace (N.of_nat (fst b - fst l)) with (N.of_nat (fst a - fst l) + N.of_nat (fst b - fst a)) by lia.
  rewrite N.pow_add_r, <- N.div_div by apply pow2_nz. reflexivity.
Qed.

Section TwinSem.
  Variable H : Type.
  Variable HO : ops H.
  Hypothesis HOK : ops_ok HO.
  Variable s : slots H.
  Hypothesis Hn63 : N.of_nat (length s) <= 2 ^ 63.
  Hypothesis Hnd : NoDup (live s).
  Variable hs : list H.
  Local Notation prune := (RefTheory.prune HO hs).
  Local Notation entry := (StumpAdd.entry H).
  Local Notation erow := (@StumpAdd.erow H).
  Local Notation ecoord := (@StumpAddData.ecoord H).

  (** a subtree all of whose leaves are deleted *)
  Definition fdc (x : coord) : Prop := exists c, locc H HO s c (fst x) (snd x) /\ prune c = None.

  (** the structural reading of [under] for two subtrees of the forest *)
  Lemma locc_under c1 r1 o1 c2 r2 o2 : locc H HO s c1 r1 o1 -> locc H HO s c2 r2 o2 ->
    under (r1, o1) (r2, o2) -> occ H c1 r1 o1 c2 r2 o2.
  Proof.
    intros L1 L2 Hu. destruct (occp_some_leaf c2) as (pi & h & Hp).
    pose proof (locc_height H HO s _ _ _ L2) as H2. pose proof (occp_height H _ _ _ Hp) as Hh. cbn [cheight] in Hh.
    pose proof (path_occ H c2 pi (CLeaf h) Hp (r2, o2) ltac:(cbn [fst]; lia)) as Ol. cbn [fst snd] in Ol.
    set (l := walk (r2, o2) pi) in *.
    assert (Hul : under (r2, o2) l) by (apply under_walk; cbn [fst]; lia).
    pose proof (under_trans _ _ _ Hu Hul) as Hxl.
    destruct L2 as (k & lo & cT & He & Ho2).
    pose proof (occ_trans H _ _ _ _ _ _ _ _ _ Ho2 Ol) as OlT.
    (* the tree of [c1] is the same *)
    destruct L1 as (k' & lo' & cT' & He' & Ho1).
    destruct (locc_entry_node H HO s _ _ _ _ _ _ He OlT) as (yl & Yle & _ & Ylr & Ylo & _).
    destruct (locc_entry_node H HO s _ _ _ _ _ _ He' Ho1) as (y1 & Y1e & _ & Y1r & Y1o & _).
    assert (Hsame : k' = k /\ lo' = lo /\ Some cT' = Some cT).
    { apply under_lo in Hxl as [A1 A2]. cbn [fst snd] in A1, A2.
      apply (layout_same_entry H HO s _ _ _ _ _ _ y1 yl He' He Y1e Yle); unfold nlo, nhi; rewrite Y1r, Y1o, Ylr, Ylo; [exact A1|exact A2]. }
    destruct Hsame as (-> & -> & E). injection E as ->.
    (* the ancestor of the leaf at the row of [c1] *)
    destruct Hxl as [Hr Eq]. cbn [fst snd] in Hr, Eq.
    destruct (occ_anc H _ _ _ _ _ _ OlT (r1 - fst l)%nat) as (cj & O1 & O2).
    { pose proof (occ_range H _ _ _ _ _ _ Ho1) as (Hk & _). lia. }
    replace (fst l + (r1 - fst l))%nat with r1 in O1, O2 by lia. fold (p2 (r1 - fst l)) in Eq. rewrite Eq in O1, O2.
    assert (Lj : locc H HO s cj r1 o1) by (exists k, lo, cT; auto).
    assert (L1' : locc H HO s c1 r1 o1) by (exists k, lo, cT; auto).
    rewrite (locc_uniq H HO s _ _ _ _ L1' Lj).
    assert (L2' : locc H HO s c2 r2 o2) by (exists k, lo, cT; auto).
    assert (Hin1 : In h (cleaves H cj)) by (apply (occ_leaves H _ _ _ _ _ _ O2); left; reflexivity).
    assert (Hin2 : In h (cleaves H c2)) by (apply (occp_leaves H _ _ _ Hp); left; reflexivity).
    destruct Hu as [Hru _]. cbn [fst] in Hru.
    exact (locc_nested H HO s Hnd c2 r2 o2 cj r1 o1 h L2' Lj Hin2 Hin1 Hru).
  Qed.

  Local Notation R := (rows_of (num_leaves s)).
  Local Notation n := (N.of_nat (length s)).
  Local Notation total := (TreeRows (N.of_nat (length s))).

  Lemma tw_cvalid c r o : locc H HO s c r o -> cvalid R (r, o).
  Proof.
    intros L. destruct (locc_node H HO s _ _ _ L) as (x & Hx & Xr & Xo & _).
    destruct (layout_coords_rows_of H HO s x Hx) as [A B]. rewrite Xr, Xo in *. split; [exact A|exact B].
  Qed.

  Lemma tw_cinf c r o : locc H HO s c r o -> cinf n (r, o).
  Proof.
    intros L. destruct (locc_node H HO s _ _ _ L) as (x & Hx & Xr & Xo & _).
    pose proof (layout_coords_valid H HO s x Hx) as A. rewrite Xr, Xo in A. exact A.
  Qed.

  (** two subtrees at sibling coordinates are the children of a subtree *)
  Lemma tw_parent ca cb r q : locc H HO s ca r (2 * q) -> locc H HO s cb r (2 * q + 1) ->
    exists h, locc H HO s (CNode h ca cb) (S r) q.
  Proof.
    intros La Lb. pose proof (tw_cinf _ _ _ Lb) as Ib. unfold cinf in Ib. cbn [fst snd] in Ib.
    destruct La as (k & lo & cT & He & Ho).
    destruct (occ_parent H _ _ _ _ _ _ Ho) as [(-> & -> & Eo)|(h & l & rr & o1 & Hop & Hc)].
    - exfalso. pose proof (forest_entry H HO s _ _ _ He) as (_ & _ & E3 & _ & Hlt & _).
      assert (El : lo / 2 ^ N.of_nat k * 2 ^ N.of_nat k = lo).
      { rewrite E3 at 1. fold (p2 k). rewrite N.div_mul by (apply N.neq_0_lt_0, p2_pos). symmetry. exact E3. }
      rewrite <- Eo in El. unfold p2 in Hlt. replace (N.of_nat (S k)) with (N.of_nat k + 1) in Hlt by lia.
      rewrite pow2_S in Hlt. clear - El Hlt Ib. nia.
    - destruct Hc as [[<- Eq]|[_ Eq]]; [|exfalso; lia]. assert (o1 = q) by lia. subst o1.
      assert (Lp : locc H HO s (CNode h ca rr) (S r) q) by (exists k, lo, cT; auto).
      destruct (locc_child H HO s _ _ _ Lp h ca rr eq_refl) as (r1 & Er & _ & Lr). injection Er as <-.
      rewrite (locc_uniq H HO s _ _ _ _ Lb Lr). exists h. exact Lp.
  Qed.

  Lemma tw_prune_node h ca cb : prune ca = None -> prune cb = None -> prune (CNode h ca cb) = None.
  Proof. intros Pa Pb. cbn [RefTheory.prune]. rewrite Pa, Pb. reflexivity. Qed.

  (** the invariant of the loop: positions of deleted subtrees, no one inside another, covering
      every deleted leaf *)
  Definition antichain (L : list coord) : Prop := forall x y, In x L -> In y L -> under x y -> x = y.
  Definition covers (L : list coord) : Prop :=
    forall h r o, locc H HO s (CLeaf h) r o -> In h hs -> exists e, In e L /\ under e (r, o).
  Definition Ptw (l : list N) : Prop :=
    exists L, l = map (cpos R) L /\ SSlt l /\ (forall x, In x L -> fdc x) /\ antichain L /\ covers L.

  Lemma tw_fdc_valid x : fdc x -> cvalid R x.
  Proof. intros (c & L & _). destruct x. exact (tw_cvalid _ _ _ L). Qed.

  Lemma tw_step l1 a b l2 : Ptw (l1 ++ a :: b :: l2) -> rightSib a = b ->
    a < Parent a total /\ ~ In (Parent a total) (l1 ++ l2) /\ Ptw (insertInOrder (l1 ++ l2) (Parent a total)).
  Proof.
    intros (L & El & Hs & Hfd & Hac & Hcov) Et.
    pose proof (rf_R_total H s) as ER. pose proof (rows_of_le_63 _ Hn63) as HR63.
    symmetry in El. apply map_eq_app in El as (L1 & L' & -> & E1 & E').
    apply map_eq_cons in E' as (xa & L'' & -> & Ea & E''). apply map_eq_cons in E'' as (xb & L2 & -> & Eb & E2).
    assert (Ia : In xa (L1 ++ xa :: xb :: L2)) by (apply in_or_app; right; left; reflexivity).
    assert (Ib : In xb (L1 ++ xa :: xb :: L2)) by (apply in_or_app; right; right; left; reflexivity).
    pose proof (Hfd xa Ia) as Fa. pose proof (Hfd xb Ib) as Fb.
    pose proof (tw_fdc_valid _ Fa) as Va. pose proof (tw_fdc_valid _ Fb) as Vb.
    assert (Hab : a < b).
    { assert (Hs2 : SSlt ((l1 ++ [a]) ++ b :: l2)) by (rewrite <- app_assoc; exact Hs).
      apply (SS_app_lt _ _ Hs2 a b); [apply in_or_app; right; left; reflexivity|left; reflexivity]. }
    assert (H1a : forall x, In x l1 -> x < a).
    { intros x Hx. apply (SS_app_lt l1 (a :: b :: l2) Hs x a Hx). left. reflexivity. }
    assert (H2b : forall x, In x l2 -> b < x).
    { intros x Hx. assert (Hs2 : SSlt ((l1 ++ [a; b]) ++ l2)) by (rewrite <- app_assoc; exact Hs).
      apply (SS_app_lt _ _ Hs2 b x); [apply in_or_app; right; right; left; reflexivity|exact Hx]. }
    rewrite <- Ea, <- Eb in Et, Hab.
    destruct (twin_coords R xa xb HR63 Va Vb Hab Et) as (Er & Eo & Ev & HaR).
    destruct Fa as (ca & La & Pa). destruct Fb as (cb & Lb & Pb).
    apply N.even_spec in Ev as [q Eq]. rewrite Er, Eo, Eq in Lb. rewrite Eq in La.
    destruct (tw_parent ca cb (fst xa) q La Lb) as (h & Lp).
    set (xp := (S (fst xa), q)).
    assert (Fp : fdc xp) by (exists (CNode h ca cb); split; [exact Lp|apply tw_prune_node; assumption]).
    pose proof (tw_fdc_valid _ Fp) as Vp.
    assert (EP : Parent a total = cpos R xp).
    { rewrite <- Ea. rewrite (parent_cpos R n xa HR63 ER Va HaR). unfold xp. rewrite Eq.
      rewrite N.mul_comm, N.div_mul by lia. reflexivity. }
    assert (Hap : a < cpos R xp).
    { rewrite <- Ea. apply cpos_lt_clt; [exact Va|exact Vp|]. left. unfold xp. cbn [fst]. lia. }
    assert (Hupa : under xp xa).
    { split; [unfold xp; cbn [fst]; lia|]. unfold xp. cbn [fst snd]. replace (S (fst xa) - fst xa)%nat with 1%nat by lia.
      rewrite Eq. change (2 ^ N.of_nat 1) with 2. rewrite N.mul_comm, N.div_mul by lia. reflexivity. }
    assert (Hupb : under xp xb).
    { split; [unfold xp; cbn [fst]; lia|]. unfold xp. cbn [fst snd]. rewrite Er. replace (S (fst xa) - fst xa)%nat with 1%nat by lia.
      rewrite Eo, Eq. change (2 ^ N.of_nat 1) with 2. clear. rewrite N.add_comm, N.mul_comm, N.div_add by lia. reflexivity. }
    (* the elements outside the pair differ from both *)
    assert (Hout : forall y, In y (L1 ++ L2) -> y <> xa /\ y <> xb /\ In y (L1 ++ xa :: xb :: L2)).
    { intros y Hy. apply in_app_or in Hy as [Hy|Hy].
      - assert (Hlt : cpos R y < a) by (apply H1a; rewrite <- E1; apply in_map, Hy).
        split; [intros ->; lia|]. split; [intros ->; lia|]. apply in_or_app. left. exact Hy.
      - assert (Hlt : b < cpos R y) by (apply H2b; rewrite <- E2; apply in_map, Hy).
        split; [intros ->; lia|]. split; [intros ->; lia|]. apply in_or_app. right. right. right. exact Hy. }
    assert (Hsp : forall y, In y (L1 ++ xa :: xb :: L2) -> y = xa \/ y = xb \/ In y (L1 ++ L2)).
    { intros y Hy. apply in_app_or in Hy as [Hy|[<-|[<-|Hy]]]; [right; right; apply in_or_app; left; exact Hy|left; reflexivity|
        right; left; reflexivity|right; right; apply in_or_app; right; exact Hy]. }
    assert (Hnin : ~ In (cpos R xp) (l1 ++ l2)).
    { rewrite <- E1, <- E2, <- map_app. intros Hi. apply in_map_iff in Hi as (y & Ey & Hy).
      destruct (Hout y Hy) as (_ & _ & HyL).
      apply (cpos_inj2 R y xp (tw_fdc_valid _ (Hfd y HyL)) Vp) in Ey. subst y.
      pose proof (Hac xp xa HyL Ia Hupa) as E. apply (f_equal fst) in E. unfold xp in E. cbn [fst] in E. lia. }
    rewrite EP. split; [exact Hap|]. split; [exact Hnin|].
    exists (insC R (L1 ++ L2) xp). split; [rewrite insC_map, map_app, E1, E2; reflexivity|].
    split; [apply insertInOrder_SS; [|exact Hnin]; apply (SS_app_drop N.lt l1 [a; b] l2); exact Hs|].
    split; [|split].
    - intros x Hx. apply insC_In in Hx as [->|Hx]; [exact Fp|]. apply Hfd, (Hout x Hx).
    - intros x y Hx Hy Hu. apply insC_In in Hx as [->|Hx]; apply insC_In in Hy as [->|Hy]; [reflexivity| | |].
      + destruct (Hout y Hy) as (Na & Nb & HyL).
        destruct (Nat.eq_dec (fst y) (fst xp)) as [Ey|Ey]; [apply under_same_row; [exact Hu|symmetry; exact Ey]|].
        exfalso. assert (Hlt : (fst y < fst xp)%nat) by (destruct Hu; lia).
        assert (C0 : chd 0 xp = xa) by (unfold chd, xp; cbn [fst snd]; rewrite N.add_0_r, <- Eq; destruct xa; reflexivity).
        assert (C1 : chd 1 xp = xb) by (unfold chd, xp; cbn [fst snd]; rewrite <- Eq, <- Eo, <- Er; destruct xb; reflexivity).
        destruct (under_child_split xp y Hu Hlt) as [Hc|Hc]; [rewrite C0 in Hc|rewrite C1 in Hc].
        * apply Na. symmetry. exact (Hac xa y Ia HyL Hc).
        * apply Nb. symmetry. exact (Hac xb y Ib HyL Hc).
      + exfalso. destruct (Hout x Hx) as (Na & _ & HxL). apply Na. exact (Hac x xa HxL Ia (under_trans _ _ _ Hu Hupa)).
      + exact (Hac x y (proj2 (proj2 (Hout x Hx))) (proj2 (proj2 (Hout y Hy))) Hu).
    - intros h0 r o Ll Hh. destruct (Hcov h0 r o Ll Hh) as (e & He & Hu).
      destruct (Hsp e He) as [->|[->|Hi]].
      + exists xp. split; [apply insC_In; left; reflexivity|exact (under_trans _ _ _ Hupa Hu)].
      + exists xp. split; [apply insC_In; left; reflexivity|exact (under_trans _ _ _ Hupb Hu)].
      + exists e. split; [apply insC_In; right; exact Hi|exact Hu].
  Qed.

  (** ** 5.4 A list without twins contains every subtree that it covers *)

  Definition twinfreeC (L : list coord) : Prop :=
    forall y, (1 <= fst y)%nat -> In (chd 0 y) L -> In (chd 1 y) L -> False.

  Lemma coord_eq_dec (x y : coord) : {x = y} + {x <> y}.
  Proof. decide equality; [apply N.eq_dec|apply Nat.eq_dec]. Qed.

  Lemma tw_Lstar L : twinfreeC L -> forall (c : ctree H) x, (cheight H c <= fst x)%nat ->
    (forall tau h, occp H c tau (CLeaf h) -> exists e, In e L /\ under x e /\ under e (walk x tau)) -> In x L.
  Proof.
    intros TF. induction c as [h|h l IHl r IHr]; intros x Hx Hcov.
    - destruct (Hcov [] h (occp_nil H _)) as (e & He & U1 & U2). cbn [walk fold_left] in U2.
      rewrite (under_antisym x e U1 U2). exact He.
    - cbn [cheight] in Hx. destruct (in_dec coord_eq_dec x L) as [Hin|Hnin]; [exact Hin|exfalso].
      assert (Hchild : forall b c', (b = false /\ c' = l \/ b = true /\ c' = r) -> (cheight H c' <= fst (chd (bN b) x))%nat /\
                forall tau h0, occp H c' tau (CLeaf h0) ->
                  exists e, In e L /\ under (chd (bN b) x) e /\ under e (walk (chd (bN b) x) tau)).
      { intros b c' Hb.
        assert (Hh : (cheight H c' <= fst (chd (bN b) x))%nat) by (unfold chd; cbn [fst]; destruct Hb as [[_ ->]|[_ ->]]; lia).
        split; [exact Hh|]. intros tau h0 Hp.
        assert (Hp' : occp H (CNode h l r) (b :: tau) (CLeaf h0)).
        { destruct Hb as [[-> ->]|[-> ->]]; [apply occp_l|apply occp_r]; exact Hp. }
        destruct (Hcov (b :: tau) h0 Hp') as (e & He & U1 & U2).
        change (walk x (b :: tau)) with (walk (chd (bN b) x) tau) in U2.
        exists e. split; [exact He|]. split; [|exact U2].
        assert (Hne : (fst e < fst x)%nat).
        { destruct (Nat.eq_dec (fst e) (fst x)) as [E|E]; [|destruct U1; lia].
          exfalso. apply Hnin. rewrite (under_same_row x e U1 (eq_sym E)). exact He. }
        pose proof (occp_height H _ _ _ Hp) as Hl. cbn [cheight] in Hl.
        assert (Uw : under (chd (bN b) x) (walk (chd (bN b) x) tau)) by (apply under_walk; lia).
        destruct (under_child_split x e U1 Hne) as [Hc|Hc]; destruct b; cbn [bN] in *; try exact Hc; exfalso.
        - exact (under_chd_disj x _ ltac:(lia) (under_trans _ _ _ Hc U2) Uw).
        - exact (under_chd_disj x _ ltac:(lia) Uw (under_trans _ _ _ Hc U2)). }
      destruct (Hchild false l (or_introl (conj eq_refl eq_refl))) as [H0 C0].
      destruct (Hchild true r (or_intror (conj eq_refl eq_refl))) as [H1 C1].
      cbn [bN] in *. apply (TF x ltac:(lia)); [exact (IHl _ H0 C0)|exact (IHr _ H1 C1)].
  Qed.

  Lemma occp_app_inv (c : ctree H) p : forall q c0, occp H c (p ++ q) c0 -> exists c1, occp H c p c1 /\ occp H c1 q c0.
  Proof.
    revert c. induction p as [|b p IH]; intros c q c0 Hp.
    - exists c. split; [constructor|exact Hp].
    - cbn [app] in Hp. inversion Hp as [|h l r pi c0' Hl|h l r pi c0' Hr]; subst.
      + destruct (IH l q c0 Hl) as (c1 & A & B). exists c1. split; [apply occp_l; exact A|exact B].
      + destruct (IH r q c0 Hr) as (c1 & A & B). exists c1. split; [apply occp_r; exact A|exact B].
  Qed.

  Lemma prune_none_down (c : ctree H) pi c0 : occp H c pi c0 -> prune c = None -> prune c0 = None.
  Proof.
    intros Hp Hn. apply (prune_none_iff H HO HOK). intros h Hh.
    apply (proj1 (prune_none_iff H HO HOK hs c) Hn). exact (occp_leaves H _ _ _ Hp h Hh).
  Qed.

  (** subtrees of a subtree of the forest *)
  Lemma tw_locc_down c x tau c0 : locc H HO s c (fst x) (snd x) -> occp H c tau c0 ->
    locc H HO s c0 (fst (walk x tau)) (snd (walk x tau)) /\ (length tau <= fst x)%nat.
  Proof.
    intros L Hp. pose proof (locc_height H HO s _ _ _ L) as Hh. pose proof (occp_height H _ _ _ Hp) as Hl.
    split; [|lia].
    apply locc_path in L as (e & ce & pi & He & Hs & Hpi & Hw & Hle).
    apply locc_path. exists e, ce, (pi ++ tau). split; [exact He|]. split; [exact Hs|].
    split; [exact (occp_trans H _ _ _ _ _ Hpi Hp)|]. split.
    - rewrite walk_app, Hw, <- surjective_pairing. apply surjective_pairing.
    - exact (sl_height H HO s e ce _ _ He Hs (occp_trans H _ _ _ _ _ Hpi Hp)).
  Qed.

  Lemma occp_fun (c : ctree H) p : forall c1 c2, occp H c p c1 -> occp H c p c2 -> c1 = c2.
  Proof.
    revert c. induction p as [|b p IH]; intros c c1 c2 H1 H2.
    - inversion H1; inversion H2; subst. reflexivity.
    - inversion H1; subst; inversion H2; subst; eapply IH; eassumption.
  Qed.

  (** the elements of [glist] are the maximal deleted subtrees *)
  Lemma glist_intro (ce : ctree H) pi c : occp H ce pi c -> prune c = None ->
    (forall pi1 b pi2 c1, pi = pi1 ++ b :: pi2 -> occp H ce pi1 c1 -> prune c1 <> None) ->
    forall Y, In (walk Y pi) (glist H HO hs ce Y).
  Proof.
    induction 1 as [c|h l r pi c Hp IH|h l r pi c Hp IH]; intros Hn Hpre Y.
    - rewrite (glist_none H HO hs c Hn). left. reflexivity.
    - destruct (prune (CNode h l r)) as [cc|] eqn:Ec; [|exfalso; exact (Hpre [] false pi _ eq_refl (occp_nil H _) Ec)].
      rewrite (glist_node H HO hs h l r cc Ec). apply in_or_app. left.
      change (walk Y (false :: pi)) with (walk (chd 0 Y) pi). apply IH; [exact Hn|].
      intros pi1 b pi2 c1 E Hp1. apply (Hpre (false :: pi1) b pi2 c1); [rewrite E; reflexivity|apply occp_l; exact Hp1].
    - destruct (prune (CNode h l r)) as [cc|] eqn:Ec; [|exfalso; exact (Hpre [] true pi _ eq_refl (occp_nil H _) Ec)].
      rewrite (glist_node H HO hs h l r cc Ec). apply in_or_app. right.
      change (walk Y (true :: pi)) with (walk (chd 1 Y) pi). apply IH; [exact Hn|].
      intros pi1 b pi2 c1 E Hp1. apply (Hpre (true :: pi1) b pi2 c1); [rewrite E; reflexivity|apply occp_r; exact Hp1].
  Qed.

  Lemma glist_elim (ce : ctree H) : forall Y d, In d (glist H HO hs ce Y) ->
    exists pi c, occp H ce pi c /\ d = walk Y pi /\ prune c = None.
  Proof.
    induction ce as [h|h l IHl r IHr]; intros Y d Hd.
    - cbn [glist] in Hd. destruct (memH HO h hs) eqn:Em; [|destruct Hd]. destruct Hd as [<-|[]].
      exists [], (CLeaf h). split; [constructor|]. split; [reflexivity|]. cbn [RefTheory.prune]. rewrite Em. reflexivity.
    - destruct (prune (CNode h l r)) as [cc|] eqn:Ec.
      + rewrite (glist_node H HO hs h l r cc Ec) in Hd. apply in_app_or in Hd as [Hd|Hd].
        * destruct (IHl _ _ Hd) as (pi & c & Hp & -> & Hn). exists (false :: pi), c. split; [apply occp_l; exact Hp|]. split; [reflexivity|exact Hn].
        * destruct (IHr _ _ Hd) as (pi & c & Hp & -> & Hn). exists (true :: pi), c. split; [apply occp_r; exact Hp|]. split; [reflexivity|exact Hn].
      + rewrite (glist_none H HO hs _ Ec) in Hd. destruct Hd as [<-|[]]. exists [], (CNode h l r). split; [constructor|]. split; [reflexivity|exact Ec].
  Qed.

  Lemma glist_antichain (ce : ctree H) : forall Y, (cheight H ce <= fst Y)%nat -> forall d1 d2,
    In d1 (glist H HO hs ce Y) -> In d2 (glist H HO hs ce Y) -> under d1 d2 -> d1 = d2.
  Proof.
    induction ce as [h|h l IHl r IHr]; intros Y HY d1 d2 H1 H2 Hu.
    - cbn [glist] in H1, H2. destruct (memH HO h hs); [|destruct H1]. destruct H1 as [<-|[]], H2 as [<-|[]]. reflexivity.
    - destruct (prune (CNode h l r)) as [cc|] eqn:Ec.
      2:{ rewrite (glist_none H HO hs _ Ec) in H1, H2. destruct H1 as [<-|[]], H2 as [<-|[]]. reflexivity. }
      rewrite (glist_node H HO hs h l r cc Ec) in H1, H2. cbn [cheight] in HY.
      assert (Hl : (cheight H l <= fst (chd 0 Y))%nat) by (unfold chd; cbn [fst]; lia).
      assert (Hr : (cheight H r <= fst (chd 1 Y))%nat) by (unfold chd; cbn [fst]; lia).
      apply in_app_or in H1 as [H1|H1]; apply in_app_or in H2 as [H2|H2].
      + exact (IHl _ Hl d1 d2 H1 H2 Hu).
      + exfalso. pose proof (glist_under H HO hs l _ d1 Hl H1) as U1. pose proof (glist_under H HO hs r _ d2 Hr H2) as U2.
        exact (under_chd_disj Y d2 ltac:(lia) (under_trans _ _ _ U1 Hu) U2).
      + exfalso. pose proof (glist_under H HO hs r _ d1 Hr H1) as U1. pose proof (glist_under H HO hs l _ d2 Hl H2) as U2.
        exact (under_chd_disj Y d2 ltac:(lia) U2 (under_trans _ _ _ U1 Hu)).
      + exact (IHr _ Hr d1 d2 H1 H2 Hu).
  Qed.

  Section Final.
    Variable L : list coord.
    Hypothesis Lfd : forall x, In x L -> fdc x.
    Hypothesis Lac : antichain L.
    Hypothesis Lcov : covers L.
    Hypothesis Ltf : twinfreeC L.

    (** the parent of an element is not fully deleted *)
    Lemma tw_max_parent (e : entry) ce pi h l r b : In e (forest HO s) -> snd e = Some ce ->
      occp H ce pi (CNode h l r) -> In (walk (ecoord e) (pi ++ [b])) L -> prune (CNode h l r) <> None.
    Proof.
      intros He Hs Hp Hin Hn.
      pose proof (sl_height H HO s e ce pi _ He Hs Hp) as Hl.
      assert (LP : locc H HO s (CNode h l r) (fst (walk (ecoord e) pi)) (snd (walk (ecoord e) pi))).
      { apply locc_path. exists e, ce, pi. repeat split; try assumption. apply surjective_pairing. }
      set (P := walk (ecoord e) pi) in *.
      pose proof (locc_height H HO s _ _ _ LP) as HP. cbn [cheight] in HP.
      rewrite walk_app in Hin. fold P in Hin. cbn [walk fold_left] in Hin.
      (* the sibling *)
      set (c' := if b then l else r). set (b' := negb b).
      assert (Hp' : occp H (CNode h l r) [b'] c') by (unfold b', c'; destruct b; cbn [negb]; constructor; constructor).
      assert (Hn' : prune c' = None) by (exact (prune_none_down _ _ _ Hp' Hn)).
      destruct (tw_locc_down _ P [b'] c' LP Hp') as [Ls _]. cbn [walk fold_left] in Ls.
      assert (Hsib : In (chd (bN b') P) L).
      { apply (tw_Lstar L Ltf c'); [exact (locc_height H HO s _ _ _ Ls)|].
        intros tau h0 Hq. destruct (tw_locc_down _ (chd (bN b') P) tau _ Ls Hq) as [Ll Hlt].
        assert (Hh0 : In h0 hs).
        { apply (proj1 (prune_none_iff H HO HOK hs c') Hn'). apply (occp_leaves H _ _ _ Hq). left. reflexivity. }
        destruct (Lcov h0 _ _ Ll Hh0) as (e0 & He0 & U0). rewrite <- surjective_pairing in U0.
        exists e0. split; [exact He0|]. split; [|exact U0].
        assert (Uw : under (chd (bN b') P) (walk (chd (bN b') P) tau)) by (apply under_walk; exact Hlt).
        destruct (le_lt_dec (fst e0) (fst (chd (bN b') P))) as [Hle|Hgt].
        - exact (under_comparable _ _ _ U0 Uw Hle).
        - exfalso. assert (UP : under P (chd (bN b') P)) by (apply under_chd_parent; [lia|destruct b'; cbn; lia]).
          assert (U1 : under e0 P).
          { apply (under_comparable P e0 _ (under_trans _ _ _ UP Uw) U0). unfold chd in Hgt. cbn [fst] in Hgt. lia. }
          assert (UPd : under P (chd (bN b) P)) by (apply under_chd_parent; [lia|destruct b; cbn; lia]).
          pose proof (Lac e0 _ He0 Hin (under_trans _ _ _ U1 UPd)) as E.
          rewrite E in Hgt. unfold chd in Hgt. cbn [fst] in Hgt. lia. }
      apply (Ltf P ltac:(lia)); unfold b' in Hsib; destruct b; cbn [negb bN] in *; assumption.
    Qed.

    (** every element is the top of a fully deleted tree or one of the maximal deleted subtrees
        of a tree that survives *)
    Lemma tw_char_fwd d : In d L -> exists (e : entry) ce, In e (forest HO s) /\ snd e = Some ce /\ under (ecoord e) d /\ ((d = ecoord e /\ prune ce = None) \/
       (prune ce <> None /\ In d (glist H HO hs ce (ecoord e)))).
    Proof.
      intros Hd. destruct (Lfd d Hd) as (c & Lc & Hn).
      apply locc_path in Lc as (e & ce & pi & He & Hs & Hp & Hw & Hle). rewrite <- surjective_pairing in Hw.
      exists e, ce. split; [exact He|]. split; [exact Hs|].
      split; [rewrite <- Hw; apply under_walk; exact Hle|].
      destruct pi as [|b0 pi0].
      - left. inversion Hp; subst. split; [reflexivity|exact Hn].
      - right.
        assert (Hpre : forall pi1 b pi2 c1, b0 :: pi0 = pi1 ++ b :: pi2 -> occp H ce pi1 c1 -> prune c1 <> None).
        { intros pi1 b pi2 c1 E Hp1 Hn1.
          destruct (exists_last (l := b :: pi2) ltac:(discriminate)) as (sigma & b' & Es).
          rewrite Es, app_assoc in E. rewrite E in Hp, Hw.
          destruct (occp_app_inv ce (pi1 ++ sigma) [b'] c Hp) as (cp & Hcp & Hlast).
          destruct (occp_app_inv ce pi1 sigma cp Hcp) as (c1' & Hc1 & Hsig).
          rewrite <- (occp_fun ce pi1 _ _ Hp1 Hc1) in Hsig.
          pose proof (prune_none_down c1 sigma cp Hsig Hn1) as Hnp.
          destruct cp as [hh|hh l r]; [inversion Hlast|].
          rewrite <- Hw in Hd. exact (tw_max_parent e ce (pi1 ++ sigma) hh l r b' He Hs Hcp Hd Hnp). }
        split; [exact (Hpre [] b0 pi0 ce eq_refl (occp_nil H _))|].
        rewrite <- Hw. exact (glist_intro ce _ c Hp Hn Hpre (ecoord e)).
    Qed.

    Lemma tw_char_bwd (e : entry) ce d : In e (forest HO s) -> snd e = Some ce -> prune ce <> None ->
      In d (glist H HO hs ce (ecoord e)) -> In d L.
    Proof.
      intros He Hs Hne Hd.
      pose proof (gf_height H HO s e ce He Hs) as Hh.
      destruct (glist_elim ce _ d Hd) as (pi & c & Hp & Ed & Hn).
      pose proof (sl_height H HO s e ce pi c He Hs Hp) as Hle.
      assert (Lc : locc H HO s c (fst d) (snd d)).
      { apply locc_path. exists e, ce, pi. repeat split; try assumption. rewrite <- Ed. apply surjective_pairing. }
      destruct (occp_some_leaf c) as (sigma & h0 & Hq).
      destruct (tw_locc_down c d sigma _ Lc Hq) as [Ll Hlt].
      assert (Hh0 : In h0 hs).
      { apply (proj1 (prune_none_iff H HO HOK hs c) Hn). apply (occp_leaves H _ _ _ Hq). left. reflexivity. }
      destruct (Lcov h0 _ _ Ll Hh0) as (e0 & He0 & U0). rewrite <- surjective_pairing in U0.
      assert (Uw : under d (walk d sigma)) by (apply under_walk; exact Hlt).
      assert (Ud : under (ecoord e) d) by (rewrite Ed; apply under_walk; exact Hle).
      destruct (tw_char_fwd e0 He0) as (e' & ce' & He' & Hs' & Ue0 & Hcase).
      assert (Hcmp : under e0 d \/ under d e0).
      { destruct (le_lt_dec (fst e0) (fst d)) as [A|A]; [right; exact (under_comparable _ _ _ U0 Uw A)|].
        left. apply (under_comparable _ _ _ Uw U0). lia. }
      assert (Ee : e' = e).
      { destruct (Nat.eq_dec (erow e) (erow e')) as [Er|Er]; [symmetry; exact (gf_same_row H HO s e e' He He' Er)|exfalso].
        destruct Hcmp as [A|A].
        - exact (gf_trees_disj H HO s e' e e0 d He' He (fun E => Er (eq_sym E)) Ue0 Ud A).
        - exact (gf_trees_disj H HO s e e' d e0 He He' Er Ud Ue0 A). }
      subst e'. rewrite Hs in Hs'. injection Hs' as <-.
      destruct Hcase as [[_ Hn']|[_ Hd0]]; [contradiction|].
      assert (E : e0 = d).
      { destruct Hcmp as [A|A]; [exact (glist_antichain ce (ecoord e) Hh e0 d Hd0 Hd A)|symmetry; exact (glist_antichain ce (ecoord e) Hh d e0 Hd Hd0 A)]. }
      rewrite <- E. exact He0.
    Qed.
  End Final.

  (** ** 5.5 [deTwin] on the sorted positions of the deleted leaves *)
  Variable L0 : list coord.
  Hypothesis L0_sorted : SSlt (map (cpos R) L0).
  Hypothesis L0_leaf : forall x, In x L0 -> exists h, locc H HO s (CLeaf h) (fst x) (snd x) /\ In h hs.
  Hypothesis L0_cov : covers L0.

  Lemma tw_init : Ptw (map (cpos R) L0).
  Proof.
    exists L0. split; [reflexivity|]. split; [exact L0_sorted|]. split; [|split; [|exact L0_cov]].
    - intros x Hx. destruct (L0_leaf x Hx) as (h & Lh & Hh). exists (CLeaf h). split; [exact Lh|].
      cbn [RefTheory.prune]. apply (memH_In H HO HOK) in Hh. rewrite Hh. reflexivity.
    - intros x y Hx Hy Hu. destruct (L0_leaf x Hx) as (h & Lh & _). destruct (L0_leaf y Hy) as (h' & Lh' & _).
      destruct x as [r o], y as [r' o']. cbn [fst snd] in *.
      pose proof (locc_under _ _ _ _ _ _ Lh Lh' Hu) as Ho. inversion Ho; subst. reflexivity.
  Qed.

  Theorem tw_deTwin : exists Lf, deTwin (map (cpos R) L0) total = map (cpos R) Lf /\
    SSlt (map (cpos R) Lf) /\ (forall x, In x Lf -> fdc x) /\ antichain Lf /\ covers Lf /\ twinfreeC Lf.
  Proof.
    pose proof (rf_R_total H s) as ER. pose proof (rows_of_le_63 _ Hn63) as HR63.
    unfold deTwin.
    destruct (deTwin_loop_spec Ptw total (fun l '(ex_intro _ _ (conj _ (conj Hs _))) => Hs) tw_step
                (2 * length (map (cpos R) L0) + 2) 0 (map (cpos R) L0) tw_init) as [HP Hck].
    - intros j a b Hj. lia.
    - lia.
    - destruct HP as (Lf & El & Hs & Hfd & Hac & Hcov). exists Lf. rewrite El in *.
      split; [reflexivity|]. repeat (split; [assumption|]).
      intros y Hy H0 H1.
      pose proof (tw_fdc_valid _ (Hfd _ H0)) as V0. pose proof (tw_fdc_valid _ (Hfd _ H1)) as V1.
      assert (Hrs : rightSib (cpos R (chd 0 y)) = cpos R (chd 1 y)).
      { rewrite !cpos_gpos. rewrite rightSib_gpos by (destruct V0; lia). unfold chd. cbn [fst snd].
        rewrite lor_1. replace (N.even (2 * snd y + 0)) with true; [f_equal; lia|].
        symmetry. rewrite N.add_0_r, N.even_mul. reflexivity. }
      assert (Hne : cpos R (chd 0 y) <> cpos R (chd 1 y)).
      { intros E. apply (cpos_inj2 R _ _ V0 V1) in E. unfold chd in E. apply (f_equal snd) in E. cbn [snd] in E. lia. }
      assert (E1 : cpos R (chd 1 y) = cpos R (chd 0 y) + 1).
      { destruct (rightSib_cases (cpos R (chd 0 y))) as [E|E]; rewrite E in Hrs; [congruence|symmetry; exact Hrs]. }
      destruct (SS_adjacent _ (cpos R (chd 0 y)) Hs (in_map _ _ _ H0)) as (j & A & B).
      { rewrite <- E1. apply in_map, H1. }
      apply (Hck (S j) j _ _ (Nat.lt_succ_diag_r j) A B). rewrite Hrs. exact E1.
  Qed.
End TwinSem.

(** * 6. Every valid block *)

Lemma in_tree_of_under {H} (HO : ops H) (s : slots H) (e : StumpAdd.entry H) x :
  In e (forest HO s) -> under (ecoord H e) x ->
  in_tree (N.of_nat (length s)) (snd x * 2 ^ N.of_nat (fst x)) (N.of_nat (StumpAdd.erow H e)).
Proof.
  intros He Hu. pose proof (gf_ecoord_lo H HO s e He) as El.
  apply under_lo in Hu. change (fst (ecoord H e)) with (StumpAdd.erow H e) in Hu.
  rewrite N.mul_add_distr_r, N.mul_1_l, El in Hu.
  destruct e as [[k lo] t]. unfold elo, StumpAdd.erow in *. cbn [fst snd] in *.
  pose proof (forest_entry H HO s _ _ _ He) as (Hb & E2 & _).
  fold (p2 (fst x)). set (v := snd x * p2 (fst x)) in *. unfold p2 in *.
  replace (N.of_nat (S k)) with (N.of_nat k + 1) in E2 by lia.
  set (K := N.of_nat k) in *. set (q := N.of_nat (length s) / 2 ^ (K + 1)) in *.
  rewrite pow2_S in E2.
  assert (Hk : 0 < 2 ^ K) by apply UtilsGeom.pow2_pos.
  assert (E1 : v / 2 ^ (K + 1) = q).
  { symmetry. apply (N.div_unique v (2 ^ (K + 1)) q (v - q * (2 * 2 ^ K))); rewrite pow2_S; lia. }
  assert (E0 : v / 2 ^ K = 2 * q).
  { symmetry. apply (N.div_unique v (2 ^ K) (2 * q) (v - q * (2 * 2 ^ K))); lia. }
  split; [exact Hb|]. split; [|exact E1].
  pose proof (do_bit_div v K) as Hd. rewrite E0, E1 in Hd.
  destruct (N.testbit v K); [cbn [N.b2n] in Hd; lia|reflexivity].
Qed.

Lemma SS_clt_of_pos R (L : list coord) : (forall x, In x L -> cvalid R x) ->
  SSlt (map (cpos R) L) -> StronglySorted clt L.
Proof.
  induction L as [|x t IH]; intros Hv Hs; [constructor|]. cbn [map] in Hs.
  destruct (po_SS_inv _ _ _ Hs) as [Hs' Hx]. constructor.
  - apply IH; [intros y Hy; apply Hv; right; exact Hy|exact Hs'].
  - apply Forall_forall. intros y Hy. specialize (Hx _ (in_map (cpos R) _ _ Hy)).
    pose proof (Hv x (or_introl eq_refl)) as Vx. pose proof (Hv y (or_intror Hy)) as Vy.
    destruct (clt_total x y) as [C|[C|C]]; [exact C|subst y; lia|].
    pose proof (cpos_lt_clt R y x Vy Vx C). lia.
Qed.

Section AllFinal.
  Variable H : Type.
  Variable HO : ops H.
  Hypothesis HOK : ops_ok HO.
  Variable s : slots H.
  Hypothesis Hn63 : N.of_nat (length s) <= 2 ^ 63.
  Hypothesis Hnd : NoDup (live s).
  Variable hs : list H.
  Variable xds : list (node H).
  Local Notation lay := (layout HO s).
  Local Notation R := (rows_of (num_leaves s)).
  Local Notation n := (N.of_nat (length s)).
  Local Notation total := (TreeRows (N.of_nat (length s))).
  Hypothesis Hxds_lay : forall x, In x xds -> In x lay.
  Hypothesis Hxds_leaf : forall x, In x xds -> nleaf x = true.
  Hypothesis Hxds_nd : NoDup xds.
  Hypothesis Hxds_hash : map (@nhash H) xds = hs.
  Local Notation entry := (StumpAdd.entry H).
  Local Notation erow := (@StumpAdd.erow H).
  Local Notation ecoord := (@StumpAddData.ecoord H).
  Local Notation prune := (RefTheory.prune HO hs).
  Local Notation s1 := (kill HO hs s).

  Definition coord_eqb (a b : coord) : bool := Nat.eqb (fst a) (fst b) && N.eqb (snd a) (snd b).
  Lemma coord_eqb_spec a b : coord_eqb a b = true <-> a = b.
  Proof.
    unfold coord_eqb. rewrite andb_true_iff, Nat.eqb_eq, N.eqb_eq. destruct a, b. cbn [fst snd].
    split; [intros [-> ->]; reflexivity|intros E; injection E; auto].
  Qed.

  (** the tops of the trees *)
  Definition istop (d : coord) : bool :=
    existsb (fun e : entry => match snd e with Some _ => coord_eqb (ecoord e) d | None => false end) (forest HO s).

  Lemma istop_spec d : istop d = true <-> exists (e : entry) ce, In e (forest HO s) /\ snd e = Some ce /\ ecoord e = d.
  Proof.
    unfold istop. rewrite existsb_exists. split.
    - intros (e & He & Hb). destruct (snd e) as [ce|] eqn:Es; [|discriminate].
      exists e, ce. split; [exact He|]. split; [exact Es|apply coord_eqb_spec, Hb].
    - intros (e & ce & He & Es & E). exists e. split; [exact He|]. rewrite Es. apply coord_eqb_spec, E.
  Qed.

  Lemma af_glist_not_top (e : entry) ce d : In e (forest HO s) -> snd e = Some ce -> prune ce <> None ->
    In d (glist H HO hs ce (ecoord e)) -> istop d = false.
  Proof.
    intros He Hs Hne Hd. destruct (istop d) eqn:Et; [exfalso|reflexivity].
    apply istop_spec in Et as (e' & ce' & He' & Hs' & E).
    pose proof (gf_height H HO s e ce He Hs) as Hh.
    pose proof (glist_row H HO hs ce (ecoord e) d Hh Hne Hd) as Hr.
    pose proof (glist_under H HO hs ce (ecoord e) d Hh Hd) as Hu.
    assert (Er : erow e <> erow e').
    { change (erow e') with (fst (ecoord e')). rewrite E. change (fst (ecoord e)) with (erow e) in Hr. lia. }
    apply (gf_trees_disj H HO s e e' d d He He' Er Hu); [rewrite E|]; apply under_refl.
  Qed.

  (** the targets that are not tops *)
  Lemma af_dok (e : entry) ce d : In e (forest HO s) -> snd e = Some ce -> prune ce <> None ->
    In d (glist H HO hs ce (ecoord e)) -> dok R n d.
  Proof.
    intros He Hs Hne Hd.
    pose proof (gf_height H HO s e ce He Hs) as Hh.
    pose proof (glist_row H HO hs ce (ecoord e) d Hh Hne Hd) as Hr.
    destruct (glist_elim H HO hs ce _ d Hd) as (pi & c & Hp & Ed & _).
    pose proof (sl_height H HO s e ce pi c He Hs Hp) as Hl.
    destruct e as [[k lo] t]. cbn [snd] in Hs. rewrite Hs in *.
    pose proof (path_occ H ce pi _ Hp (ecoord (k, lo, Some ce)) Hl) as Ho. rewrite <- Ed in Ho.
    destruct (locc_entry_node H HO s _ _ _ _ _ _ He Ho) as (x & _ & Hx & Xr & Xo & _ & _ & _ & Hnr).
    specialize (Hnr Hr).
    destruct (rf_parent H HO s x Hx Hnr) as (p & Hp' & Ep & _).
    destruct (layout_coords_rows_of H HO s x Hx) as [V1 V2].
    destruct (layout_coords_rows_of H HO s p Hp') as [P1 _].
    pose proof (layout_coords_valid H HO s p Hp') as Pv.
    unfold ncrd, par, cN in Ep. cbn [fst snd] in Ep. injection Ep as Er Eo.
    assert (Erp : nrow p = S (nrow x)) by lia.
    rewrite Xr, Xo in *.
    split; [lia|]. split; [split; assumption|].
    unfold pf_ok. rewrite Eo, Erp in Pv.
    replace (N.of_nat (fst d) + 1) with (N.of_nat (S (fst d))) by lia. exact Pv.
  Qed.

  (** the sorted deleted leaves, as the initial list of [deTwin] *)
  Local Notation L0 := (mdd H s xds).

  Lemma af_L0_sorted : SSlt (map (cpos R) L0).
  Proof.
    rewrite (mfin_pos H HO s xds Hxds_lay Hxds_nd).
    apply pps_sortN_NoDup_SSlt, (po_targets_NoDup H HO s xds Hxds_lay Hxds_nd).
  Qed.

  Lemma af_L0_leaf x : In x L0 -> exists h, locc H HO s (CLeaf h) (fst x) (snd x) /\ In h hs.
  Proof.
    unfold mdd. intros Hx. apply in_map_iff in Hx as (y & <- & Hy). apply mfin_sxd in Hy.
    destruct (node_locc H HO s y (Hxds_lay y Hy) (Hxds_leaf y Hy)) as (k & lo & c & He & Ho & _).
    exists (nhash y). split; [exists k, lo, c; split; assumption|]. rewrite <- Hxds_hash. apply in_map, Hy.
  Qed.

  Lemma af_L0_cov : covers H HO s hs L0.
  Proof.
    intros h r o Ll Hh. destruct (locc_node H HO s _ _ _ Ll) as (y & Hy & Yr & Yo & Yh & Yl).
    cbn [chash cleafb] in Yh, Yl.
    assert (Hyx : In y xds) by (apply (dg2_xds H HO s Hnd hs xds Hxds_lay Hxds_leaf Hxds_hash y Hy Yl); rewrite Yh; exact Hh).
    exists (r, o). split; [|apply under_refl]. unfold mdd. apply in_map_iff. exists y.
    split; [rewrite Yr, Yo; reflexivity|apply mfin_sxd, Hyx].
  Qed.

  (** the hypotheses of the general reduction, for every valid block *)
  Theorem af_targets : exists Dall : list (coord * bool),
    deTwin (sortN (map (npos R) xds)) (TreeRows (num_leaves s)) = map (cpos R) (map fst Dall) /\
    (forall d, In (d, true) Dall -> dok R n d) /\
    (forall c0 r0 o0 c0', locc H HO s c0 r0 o0 -> prune c0 = Some c0' -> gok R n Dall (r0, o0)) /\
    StronglySorted clt (lifts Dall) /\
    (forall d, In d (lifts Dall) <-> exists (e : entry) ce, In e (forest HO s) /\ snd e = Some ce /\
                                     prune ce <> None /\ In d (glist H HO hs ce (ecoord e))).
  Proof.
    pose proof (rf_R_total H s) as ER. pose proof (rows_of_le_63 _ Hn63) as HR63.
    destruct (tw_deTwin H HO HOK s Hn63 Hnd hs L0 af_L0_sorted af_L0_leaf af_L0_cov)
      as (Lf & Ed & Hs & Lfd & Lac & Lcov & Ltf).
    rewrite (mfin_pos H HO s xds Hxds_lay Hxds_nd) in Ed.
    set (Dall := map (fun d => (d, negb (istop d))) Lf).
    assert (F0 : map fst Dall = Lf) by (unfold Dall; rewrite map_map; cbn [fst]; apply map_id).
    assert (F1 : forall d b, In (d, b) Dall <-> In d Lf /\ b = negb (istop d)).
    { intros d b. unfold Dall. rewrite in_map_iff. split.
      - intros (d' & E & Hd'). injection E as -> <-. split; [exact Hd'|reflexivity].
      - intros [Hd ->]. exists d. split; [reflexivity|exact Hd]. }
    assert (F2 : forall d, In d (lifts Dall) <-> In d Lf /\ istop d = false).
    { intros d. unfold lifts. rewrite in_map_iff. split.
      - intros ([d' b] & E & Hf). cbn [fst] in E. subst d'. apply filter_In in Hf as [Hin Hb]. cbn [snd] in Hb. subst b.
        apply F1 in Hin as [Hd Hb]. split; [exact Hd|]. destruct (istop d); [discriminate|reflexivity].
      - intros [Hd Ht]. exists (d, true). split; [reflexivity|]. apply filter_In. split; [|reflexivity].
        apply F1. split; [exact Hd|rewrite Ht; reflexivity]. }
    (* what the elements are *)
    assert (Fnt : forall d, In d Lf -> istop d = false -> exists (e : entry) ce, In e (forest HO s) /\ snd e = Some ce /\
                    prune ce <> None /\ In d (glist H HO hs ce (ecoord e))).
    { intros d Hd Ht. destruct (tw_char_fwd H HO HOK s Hn63 hs Lf Lfd Lac Lcov Ltf d Hd) as (e & ce & He & Hse & _ & [[E _]|[Hne Hg]]).
      - exfalso. assert (istop d = true) by (apply istop_spec; exists e, ce; auto). congruence.
      - exists e, ce. auto. }
    assert (Ftop : forall d, In d Lf -> istop d = true -> exists (e : entry) ce, In e (forest HO s) /\ snd e = Some ce /\
                    prune ce = None /\ d = ecoord e).
    { intros d Hd Ht. destruct (tw_char_fwd H HO HOK s Hn63 hs Lf Lfd Lac Lcov Ltf d Hd) as (e & ce & He & Hse & _ & [[E Hn]|[Hne Hg]]).
      - exists e, ce. auto.
      - rewrite (af_glist_not_top e ce d He Hse Hne Hg) in Ht. discriminate. }
    exists Dall. split; [rewrite F0; exact Ed|]. split; [|split; [|split]].
    - intros d Hd. apply F1 in Hd as [Hd Hb].
      destruct (Fnt d Hd ltac:(destruct (istop d); [discriminate|reflexivity])) as (e & ce & He & Hse & Hne & Hg).
      exact (af_dok e ce d He Hse Hne Hg).
    - intros c0 r0 o0 c0' Lc Hpr. pose proof (tw_cvalid H HO s _ _ _ Lc) as Vx.
      apply locc_path in Lc as (e & ce & pi & He & Hse & Hp & Hw & Hle).
      assert (Hne : prune ce <> None).
      { destruct (prune_occp H HO hs ce pi c0 Hp c0' Hpr) as (cc & Pc & _). rewrite Pc. discriminate. }
      pose proof (gf_height H HO s e ce He Hse) as Hh.
      exists (fun y => under (ecoord e) y /\ cvalid R y). split; [|split].
      + split; [rewrite <- Hw; apply under_walk; exact Hle|exact Vx].
      + intros d Hd y [Uy Vy]. apply F1 in Hd as [Hd Hb].
        destruct (Fnt d Hd ltac:(destruct (istop d); [discriminate|reflexivity])) as (e' & ce' & He' & Hse' & Hne' & Hg).
        destruct (af_dok e' ce' d He' Hse' Hne' Hg) as (Hdr & _ & _).
        split; [|apply lift1_valid; assumption].
        pose proof (gf_height H HO s e' ce' He' Hse') as Hh'.
        destruct (glist_walk H HO hs ce' (ecoord e') d Hh' Hg) as (tau & Edd & Hlt & Hne2). specialize (Hne2 Hne').
        destruct (Nat.eq_dec (erow e') (erow e)) as [Er|Er].
        * pose proof (gf_same_row H HO s e' e He' He Er) as Ee. subst e'. rewrite Edd.
          apply pm_region_closed; [exact Hne2|change (fst (ecoord e)) with (erow e); lia|exact Uy].
        * rewrite pd_lift1_id; [exact Uy|].
          destruct (anc (S (fst d), snd d / 2) y) eqn:Ea; [exfalso|reflexivity].
          apply anc_under in Ea as [_ Hu].
          assert (HA : under (ecoord e') (S (fst d), snd d / 2)).
          { rewrite Edd. apply under_parent_walk; [exact Hne2|change (fst (ecoord e')) with (erow e'); lia]. }
          exact (gf_trees_disj H HO s e' e _ y He' He Er HA Uy Hu).
      + intros d Hd y [Uy Vy]. apply F1 in Hd as [Hd Hb].
        destruct (Ftop d Hd ltac:(destruct (istop d); [reflexivity|discriminate])) as (e' & ce' & He' & Hse' & Hn' & Ed').
        assert (Er : erow e' <> erow e).
        { intros Er. pose proof (gf_same_row H HO s e' e He' He Er) as Ee. subst e'. congruence. }
        pose proof (tw_fdc_valid H HO s hs d (Lfd d Hd)) as [Vd1 Vd2]. destruct Vy as [Vy1 Vy2].
        rewrite !cpos_gpos. rewrite ER in *.
        apply subtree_diff_trees with (k1 := N.of_nat (erow e')) (k2 := N.of_nat (erow e));
          [exact Hn63|rewrite <- ER; lia|exact Vd2|rewrite <- ER; lia|exact Vy2| | |lia].
        * apply (in_tree_of_under HO s e' d He'). rewrite Ed'. apply under_refl.
        * exact (in_tree_of_under HO s e y He Uy).
    - assert (Hsc : StronglySorted clt Lf).
      { apply (SS_clt_of_pos R); [|exact Hs]. intros x Hx. exact (tw_fdc_valid H HO s hs x (Lfd x Hx)). }
      clear - Hsc. unfold lifts, Dall. induction Hsc as [|x t Ht IH Hx]; [constructor|].
      cbn [map filter snd]. destruct (negb (istop x)); cbn [map fst]; [|exact IH]. constructor; [exact IH|].
      apply Forall_forall. intros y Hy. apply in_map_iff in Hy as ([y' b] & E & Hf). cbn [fst] in E. subst y'.
      apply filter_In in Hf as [Hin _]. apply in_map_iff in Hin as (y' & E & Hy'). injection E as -> _.
      rewrite Forall_forall in Hx. exact (Hx y Hy').
    - intros d. rewrite F2. split.
      + intros [Hd Ht]. exact (Fnt d Hd Ht).
      + intros (e & ce & He & Hse & Hne & Hg). split; [|exact (af_glist_not_top e ce d He Hse Hne Hg)].
        exact (tw_char_bwd H HO HOK s Hn63 hs Lf Lfd Lac Lcov Ltf e ce d He Hse Hne Hg).
  Qed.
End AllFinal.

(** G2 and G3 for every valid block: distinct live deletions (the old proof of the deleted leaves
    exists), fresh additions *)
Theorem proof_update_every_block {H} (HO : ops H) :
  ops_ok HO -> (forall a b, NZ HO (op_hash2 HO a b)) ->
  forall (s : slots H) (hs adds C : list H) (rem : list N),
  (forall h, In (Some h) s -> NZ HO h) ->
  N.of_nat (length s + length adds) <= 2 ^ 63 ->
  NoDup (live s) -> NoDup hs ->
  NoDup (live (kill HO hs s ++ map Some adds)) ->
  NoDup C -> SSlt rem ->
  (forall x, In x (layout HO (kill HO hs s ++ map Some adds)) -> nleaf x = false ->
             ~ In (nhash x) (pick adds rem)) ->
  forall hC tC pC bt pfd,
  exp_cached HO (mk_ctx HO s) C = Some (hC, tC, pC) ->
  exp_prove HO (mk_ctx HO s) hs = Some (bt, pfd) ->
  proof_update HO tC pC hC adds bt rem (ud_of_spec (spec_update_data HO s hs adds))
  = exp_cached HO (mk_ctx HO (apply_block HO s hs adds)) (cached_after HO C hs (pick adds rem)) /\
  exp_cached HO (mk_ctx HO (apply_block HO s hs adds)) (cached_after HO C hs (pick adds rem)) <> None.
Proof.
  intros HOK Hnz s hs adds C rem Hl Hb Hnd Hhs Hnd2 HC Hrem Hcol hC tC pC bt pfd E Ep.
  assert (Hn63 : N.of_nat (length s) <= 2 ^ 63) by lia.
  unfold exp_prove in Ep. cbn [mk_ctx clay crows] in Ep.
  destruct (find_leaves HO (layout HO s) hs) as [xds|] eqn:Fx; [|discriminate]. injection Ep as <- _.
  destruct (cc_find_leaves_facts HO s hs xds HOK Hhs Fx) as (Lx & Flx & Ntx & Ehx & _).
  destruct (af_targets H HO HOK s Hn63 Hnd hs xds Lx Flx Ntx Ehx) as (Dall & A1 & A2 & A2s & HsD & HD).
  apply (dg2_block H HO HOK Hnz s Hl Hn63 Hnd hs xds Lx Flx Ehx Dall A1 A2 A2s
           (gf_up H HO s hs (lifts Dall) HsD HD) (gf_down H HO s hs (lifts Dall) HsD HD)
           C HC hC tC pC E adds rem Hb Hnd2 Hrem Hcol).
Qed.
Print Assumptions proof_update_every_block.

Theorem proof_update_every_block_term (s : slots term) (hs adds C : list term) (rem : list N)
        (hC : list term) (tC : list N) (pC : list term) (bt : list N) (pfd : list term) :
  (forall h, In (Some h) s -> h <> Zero) ->
  N.of_nat (length s + length adds) <= 2 ^ 63 ->
  NoDup (live s) -> NoDup hs ->
  NoDup (live (kill term_ops hs s ++ map Some adds)) ->
  (forall a, In a adds -> exists i, a = Atom i) ->
  NoDup C -> SSlt rem ->
  exp_cached term_ops (mk_ctx term_ops s) C = Some (hC, tC, pC) ->
  exp_prove term_ops (mk_ctx term_ops s) hs = Some (bt, pfd) ->
  proof_update term_ops tC pC hC adds bt rem (ud_of_spec (spec_update_data term_ops s hs adds))
  = exp_cached term_ops (mk_ctx term_ops (apply_block term_ops s hs adds))
               (cached_after term_ops C hs (pick adds rem)) /\
  exp_cached term_ops (mk_ctx term_ops (apply_block term_ops s hs adds))
             (cached_after term_ops C hs (pick adds rem)) <> None.
Proof.
  intros Hl Hb Hnd Hhs Hnd2 Hatoms HC Hrem E Ep.
  apply (proof_update_every_block term_ops term_ops_ok cs_term_hash_nz s hs adds C rem
           (fun h Hh => term_nonzero_eqb h (Hl h Hh)) Hb Hnd Hhs Hnd2 HC Hrem) with (pfd := pfd);
    [|exact E|exact Ep].
  intros x Hx Hlf Hin. destruct (Hatoms _ (pick_In adds rem _ Hin)) as [i Ei].
  destruct (pu_term_inner _ x Hx Hlf) as [E0|(l & r & E0)]; congruence.
Qed.
Print Assumptions proof_update_every_block_term.

(** non-vacuity.  Eight leaves: the block deletes the whole left half [Atom 1 .. Atom 4] (one
    target after [deTwin], two rounds of merging) and [Atom 6]; the cached [Atom 5] and [Atom 7]
    move up; one leaf is added and remembered *)
Example pu_ex_subtree_deleted :
  exists hC tC pC bt pfd,
    exp_cached term_ops (mk_ctx term_ops pu_ex_s8) [Atom 5; Atom 7; Atom 2] = Some (hC, tC, pC) /\
    exp_prove term_ops (mk_ctx term_ops pu_ex_s8) [Atom 3; Atom 6; Atom 1; Atom 4; Atom 2] = Some (bt, pfd) /\
    proof_update term_ops tC pC hC [Atom 9] bt [0]
                 (ud_of_spec (spec_update_data term_ops pu_ex_s8 [Atom 3; Atom 6; Atom 1; Atom 4; Atom 2] [Atom 9]))
    = exp_cached term_ops (mk_ctx term_ops (apply_block term_ops pu_ex_s8 [Atom 3; Atom 6; Atom 1; Atom 4; Atom 2] [Atom 9]))
                 (cached_after term_ops [Atom 5; Atom 7; Atom 2] [Atom 3; Atom 6; Atom 1; Atom 4; Atom 2]
                               (pick [Atom 9] [0])) /\
    deTwin (sortN bt) 3 = [5; 12].
Proof.
  eexists _, _, _, _, _. split; [vm_compute; reflexivity|]. split; [vm_compute; reflexivity|].
  split; [|vm_compute; reflexivity].
  eapply (proof_update_every_block_term pu_ex_s8 [Atom 3; Atom 6; Atom 1; Atom 4; Atom 2] [Atom 9]
            [Atom 5; Atom 7; Atom 2] [0]).
  - intros h Hh. cbn in Hh. repeat (destruct Hh as [Hh|Hh]; [try discriminate; injection Hh as <-; discriminate|]). destruct Hh.
  - vm_compute. discriminate.
  - apply po_ex_nodup; reflexivity.
  - apply po_ex_nodup; reflexivity.
  - apply po_ex_nodup; reflexivity.
  - intros a Ha. cbn in Ha. repeat (destruct Ha as [<-|Ha]; [eexists; reflexivity|]). destruct Ha.
  - apply po_ex_nodup; reflexivity.
  - repeat constructor; lia.
  - vm_compute. reflexivity.
  - vm_compute. reflexivity.
Qed.

(** six leaves (trees of four and of two leaves): the block deletes the whole second tree and a
    leaf of the first one; the top of the second tree is a target that [getNewPositions] skips *)
Definition pu_ex_s6 : slots term := map (fun i => Some (Atom i)) [1; 2; 3; 4; 5; 6].

Example pu_ex_tree_deleted :
  exists hC tC pC bt pfd,
    exp_cached term_ops (mk_ctx term_ops pu_ex_s6) [Atom 1; Atom 3; Atom 6] = Some (hC, tC, pC) /\
    exp_prove term_ops (mk_ctx term_ops pu_ex_s6) [Atom 6; Atom 2; Atom 5] = Some (bt, pfd) /\
    proof_update term_ops tC pC hC [Atom 7; Atom 8] bt [1]
                 (ud_of_spec (spec_update_data term_ops pu_ex_s6 [Atom 6; Atom 2; Atom 5] [Atom 7; Atom 8]))
    = exp_cached term_ops (mk_ctx term_ops (apply_block term_ops pu_ex_s6 [Atom 6; Atom 2; Atom 5] [Atom 7; Atom 8]))
                 (cached_after term_ops [Atom 1; Atom 3; Atom 6] [Atom 6; Atom 2; Atom 5]
                               (pick [Atom 7; Atom 8] [1])) /\
    deTwin (sortN bt) 3 = [1; 10].
Proof.
  eexists _, _, _, _, _. split; [vm_compute; reflexivity|]. split; [vm_compute; reflexivity|].
  split; [|vm_compute; reflexivity].
  eapply (proof_update_every_block_term pu_ex_s6 [Atom 6; Atom 2; Atom 5] [Atom 7; Atom 8]
            [Atom 1; Atom 3; Atom 6] [1]).
  - intros h Hh. cbn in Hh. repeat (destruct Hh as [Hh|Hh]; [try discriminate; injection Hh as <-; discriminate|]). destruct Hh.
  - vm_compute. discriminate.
  - apply po_ex_nodup; reflexivity.
  - apply po_ex_nodup; reflexivity.
  - apply po_ex_nodup; reflexivity.
  - intros a Ha. cbn in Ha. repeat (destruct Ha as [<-|Ha]; [eexists; reflexivity|]). destruct Ha.
  - apply po_ex_nodup; reflexivity.
  - repeat constructor; lia.
  - vm_compute. reflexivity.
  - vm_compute. reflexivity.
Qed.

(** every leaf deleted *)
Example pu_ex_all_deleted :
  exists hC tC pC bt pfd,
    exp_cached term_ops (mk_ctx term_ops pu_ex_s6) [Atom 4; Atom 5] = Some (hC, tC, pC) /\
    exp_prove term_ops (mk_ctx term_ops pu_ex_s6) [Atom 6; Atom 2; Atom 5; Atom 1; Atom 4; Atom 3] = Some (bt, pfd) /\
    proof_update term_ops tC pC hC [Atom 7] bt [0]
                 (ud_of_spec (spec_update_data term_ops pu_ex_s6 [Atom 6; Atom 2; Atom 5; Atom 1; Atom 4; Atom 3] [Atom 7]))
    = exp_cached term_ops (mk_ctx term_ops (apply_block term_ops pu_ex_s6 [Atom 6; Atom 2; Atom 5; Atom 1; Atom 4; Atom 3] [Atom 7]))
                 (cached_after term_ops [Atom 4; Atom 5] [Atom 6; Atom 2; Atom 5; Atom 1; Atom 4; Atom 3]
                               (pick [Atom 7] [0])) /\
    deTwin (sortN bt) 3 = [10; 12].
Proof.
  eexists _, _, _, _, _. split; [vm_compute; reflexivity|]. split; [vm_compute; reflexivity|].
  split; [|vm_compute; reflexivity].
  eapply (proof_update_every_block_term pu_ex_s6 [Atom 6; Atom 2; Atom 5; Atom 1; Atom 4; Atom 3] [Atom 7]
            [Atom 4; Atom 5] [0]).
  - intros h Hh. cbn in Hh. repeat (destruct Hh as [Hh|Hh]; [try discriminate; injection Hh as <-; discriminate|]). destruct Hh.
  - vm_compute. discriminate.
  - apply po_ex_nodup; reflexivity.
  - apply po_ex_nodup; reflexivity.
  - apply po_ex_nodup; reflexivity.
  - intros a Ha. cbn in Ha. repeat (destruct Ha as [<-|Ha]; [eexists; reflexivity|]). destruct Ha.
  - apply po_ex_nodup; reflexivity.
  - repeat constructor; lia.
  - vm_compute. reflexivity.
  - vm_compute. reflexivity.
Qed.

(** Summary.  [proof_update_every_block]: for a forest [s] with distinct, non-zero live leaves, any
    list [hs] of distinct live leaves whose old proof [exp_prove s hs = Some (bt, _)] exists, any
    additions [adds] that keep the leaves distinct, a duplicate-free cache [C] with its cached
    proof [exp_cached s C = Some (hC, tC, pC)] and a sorted list [rem] of indices of additions to
    remember,

      proof_update tC pC hC adds bt rem (ud_of_spec (spec_update_data s hs adds))
      = exp_cached (apply_block s hs adds) (cached_after C hs (pick adds rem))

    and the right-hand side is not [None].  The only remaining side conditions are the ones of
    [proof_update_add_only]: at most [2^63] leaves after the block, hashes of inner nodes are not
    the empty hash and differ from the remembered additions (both hold for terms). *)
