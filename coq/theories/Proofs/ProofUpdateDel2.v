(** [Proof.Update] for EVERY valid block (C07, concluded): whole subtrees and whole trees deleted. *)
From Utreexo Require Import Base.Hash Model.Utils Model.UtilsFast Model.Verify Model.ProofOps
  Model.ProofUpdate Spec.Forest Spec.Oracle Spec.Geometry Spec.Term
  Proofs.UtilsGeom Proofs.UtilsGeom2 Proofs.SpecBasics Proofs.StumpAdd Proofs.LayoutStruct
  Proofs.ProofPosSpec Proofs.CalcTotal Proofs.CalcSound Proofs.CalcComplete Proofs.CachedVerifies
  Proofs.AbstractModels Proofs.StumpAddData Proofs.StumpDelData Proofs.ProofOpsSpec
  Proofs.ProofUpdateSpec Proofs.ProofUpdateDel.
From Utreexo Require Proofs.RefTheory.
From Coq Require Import List Arith PeanoNat NArith ZArith Lia ZifyNat ZifyN ZifyBool Sorted Permutation.
Import ListNotations.
Open Scope N_scope.

Local Notation SSlt := (StronglySorted N.lt).
Local Notation SSle := (StronglySorted N.le).

(** * 1. The lift over the roots of the maximal deleted subtrees *)

Section GenTree.
  Variable H : Type.
  Variable HO : ops H.
  Hypothesis HOK : ops_ok HO.
  Variable hs : list H.
  Local Notation prune := (RefTheory.prune HO hs).
  Local Notation ppath := (ppath H HO hs).

  (** the coordinates of the maximal subtrees of [c], placed at [Y], that are deleted as a whole *)
  Fixpoint glist (c : ctree H) (Y : coord) : list coord :=
    match c with
    | CLeaf h => if memH HO h hs then [Y] else []
    | CNode _ l r =>
        match prune c with
        | None => [Y]
        | Some _ => glist l (chd 0 Y) ++ glist r (chd 1 Y)
        end
    end.

  Lemma glist_none (c : ctree H) : prune c = None -> forall Y, glist c Y = [Y].
  Proof.
    intros Hp Y. destruct c as [h|h l r]; cbn [glist].
    - cbn [RefTheory.prune] in Hp. destruct (memH HO h hs); [reflexivity|discriminate].
    - rewrite Hp. reflexivity.
  Qed.

  Lemma glist_node h l r cc : prune (CNode h l r) = Some cc ->
    forall Y, glist (CNode h l r) Y = glist l (chd 0 Y) ++ glist r (chd 1 Y).
  Proof. intros Hp Y. cbn [glist]. rewrite Hp. reflexivity. Qed.

  Lemma glist_walk (c : ctree H) : forall Y d, (cheight H c <= fst Y)%nat -> In d (glist c Y) ->
    exists tau, d = walk Y tau /\ (length tau <= cheight H c)%nat /\ (prune c <> None -> tau <> []).
  Proof.
    induction c as [h|h l IHl r IHr]; intros Y d HY Hd.
    - cbn [glist] in Hd. cbn [RefTheory.prune]. destruct (memH HO h hs); [|destruct Hd]. destruct Hd as [<-|[]].
      exists []. split; [reflexivity|]. split; [cbn; lia|]. intros Hc. exfalso. apply Hc. reflexivity.
    - destruct (prune (CNode h l r)) as [cc|] eqn:Pc.
      + rewrite (glist_node h l r cc Pc) in Hd. cbn [cheight] in HY. apply in_app_or in Hd as [Hd|Hd].
        * destruct (IHl (chd 0 Y) d ltac:(unfold chd; cbn [fst]; lia) Hd) as (tau & -> & Hl & _).
          exists (false :: tau). split; [reflexivity|]. split; [cbn [length cheight]; lia|discriminate].
        * destruct (IHr (chd 1 Y) d ltac:(unfold chd; cbn [fst]; lia) Hd) as (tau & -> & Hl & _).
          exists (true :: tau). split; [reflexivity|]. split; [cbn [length cheight]; lia|discriminate].
      + rewrite (glist_none _ Pc) in Hd. destruct Hd as [<-|[]].
        exists []. split; [reflexivity|]. split; [cbn; lia|]. intros Hc. exfalso. apply Hc. reflexivity.
  Qed.

  Lemma glist_row (c : ctree H) Y d : (cheight H c <= fst Y)%nat -> prune c <> None ->
    In d (glist c Y) -> (fst d < fst Y)%nat.
  Proof.
    intros HY Hp Hd. destruct (glist_walk c Y d HY Hd) as (tau & -> & Hl & Hne).
    specialize (Hne Hp). destruct (walk_coord tau Y ltac:(lia)) as [W1 _]. rewrite W1.
    destruct tau; [contradiction|cbn [length] in *; lia].
  Qed.

  Lemma glist_under (c : ctree H) Y d : (cheight H c <= fst Y)%nat -> In d (glist c Y) -> under Y d.
  Proof.
    intros HY Hd. destruct (glist_walk c Y d HY Hd) as (tau & -> & Hl & _). apply under_walk. lia.
  Qed.

  Theorem move_tree_g : forall c : ctree H, forall Y, (cheight H c <= fst Y)%nat ->
    forall D, StronglySorted clt D -> (forall d, In d D <-> In d (glist c Y)) ->
    forall pi c0 c0', occp H c pi c0 -> prune c0 = Some c0' ->
      liftc D (walk Y pi) = walk Y (ppath c pi).
  Proof.
    induction c as [h|h l IHl r IHr]; intros Y HY D Hs Hp pi c0 c0' Ho Hpr.
    - inversion Ho; subst. cbn [RefTheory.prune] in Hpr. cbn [glist] in Hp.
      destruct (memH HO h hs); [discriminate|]. destruct D as [|d D]; [reflexivity|]. exfalso. exact (proj1 (Hp d) (or_introl eq_refl)).
    - cbn [cheight] in HY.
      destruct (prune_occp H HO hs _ _ c0 Ho c0' Hpr) as (cc & Pc & _).
      rewrite (glist_node h l r cc Pc) in Hp.
      assert (HZ : (1 <= fst Y)%nat) by lia.
      assert (Hhl : (cheight H l <= fst (chd 0 Y))%nat) by (unfold chd; cbn [fst]; lia).
      assert (Hhr : (cheight H r <= fst (chd 1 Y))%nat) by (unfold chd; cbn [fst]; lia).
      inversion Ho; subst.
      + (* the top *)
        cbn [ppath walk fold_left]. apply liftc_skip. intros d Hd.
        apply Hp in Hd. apply in_app_or in Hd as [Hd|Hd].
        * pose proof (glist_under l _ d Hhl Hd) as [Hr _]. unfold chd in Hr. cbn [fst] in *. lia.
        * pose proof (glist_under r _ d Hhr Hd) as [Hr _]. unfold chd in Hr. cbn [fst] in *. lia.
      + (* below the left child *)
        match goal with X : occp H l _ c0 |- _ => rename X into Hol end.
        pose proof (occp_height H _ _ _ Hol) as Hh2.
        destruct (prune_occp H HO hs l _ c0 Hol c0' Hpr) as (l' & Pl & _).
        change (walk Y (false :: ?p)) with (walk (chd 0 Y) p). cbn [ppath].
        destruct (prune r) as [r'|] eqn:Pr.
        * (* the right child survives: its deleted leaves do not matter *)
          change (walk Y (false :: ?p)) with (walk (chd 0 Y) p).
          rewrite (liftc_filter (chd 0 Y) D (walk (chd 0 Y) pi0)).
          -- refine (IHl (chd 0 Y) Hhl _ (SS_filter _ _ _ Hs) _ pi0 c0 c0' Hol Hpr).
             intros d. rewrite filter_In, Hp, in_app_iff, underb_spec. split.
             ++ intros [[Hd|Hd] Hu]; [exact Hd|]. exfalso. exact (under_chd_disj Y d HZ Hu (glist_under r _ d Hhr Hd)).
             ++ intros Hd. split; [left; exact Hd|exact (glist_under l _ d Hhl Hd)].
          -- apply under_walk. unfold chd. cbn [fst]. lia.
          -- intros d Hd Eu y Hy. apply Hp in Hd. apply in_app_or in Hd as [Hd|Hd].
             ++ destruct (glist_walk l _ d Hhl Hd) as (tau & -> & Hlt & Hne).
                apply pm_region_closed; [apply Hne; rewrite Pl; discriminate|unfold chd; cbn [fst]; lia|exact Hy].
             ++ exfalso. apply underb_spec in Eu. exact (under_chd_disj Y d HZ Eu (glist_under r _ d Hhr Hd)).
          -- intros d Hd Eu y Hy. apply Hp in Hd. apply in_app_or in Hd as [Hd|Hd].
             ++ exfalso. assert (Ht : underb (chd 0 Y) d = true) by (apply underb_spec, (glist_under l _ d Hhl Hd)). congruence.
             ++ destruct (glist_walk r _ d Hhr Hd) as (tau & -> & Hlt & Hne).
                apply (pm_region_disj Y true tau y HZ); [apply Hne; rewrite Pr; discriminate|lia|exact Hy].
        * (* the right child is a deleted leaf: it comes last *)
          rewrite (glist_none r Pr) in Hp.
          assert (Hp2 : forall d, In d D <-> In d (glist l (chd 0 Y)) \/ d = chd 1 Y).
          { intros d. rewrite Hp, in_app_iff. cbn [In]. split.
            - intros [A|[B|[]]]; [left; exact A|right; symmetry; exact B].
            - intros [A|B]; [left; exact A|right; left; symmetry; exact B]. }
          destruct (sorted_last D (glist l (chd 0 Y)) (chd 1 Y) Hs Hp2) as (D' & -> & Hp' & Hs').
          { intros a Ha. left. pose proof (glist_row l _ a Hhl ltac:(rewrite Pl; discriminate) Ha) as Hr.
            unfold chd in *. cbn [fst] in *. exact Hr. }
          rewrite liftc_app.
          rewrite (IHl (chd 0 Y) Hhl D' Hs' Hp' pi0 c0 c0' Hol Hpr).
          unfold liftc. cbn [fold_left].
          pose proof (ppath_length H HO hs l pi0) as Hpl.
          apply (lift1_sibling Y true (ppath l pi0)); lia.
      + (* below the right child *)
        match goal with X : occp H r _ c0 |- _ => rename X into Hor end.
        pose proof (occp_height H _ _ _ Hor) as Hh2.
        destruct (prune_occp H HO hs r _ c0 Hor c0' Hpr) as (r' & Pr & _).
        change (walk Y (true :: ?p)) with (walk (chd 1 Y) p). cbn [ppath].
        destruct (prune l) as [l'|] eqn:Pl.
        * change (walk Y (true :: ?p)) with (walk (chd 1 Y) p).
          rewrite (liftc_filter (chd 1 Y) D (walk (chd 1 Y) pi0)).
          -- refine (IHr (chd 1 Y) Hhr _ (SS_filter _ _ _ Hs) _ pi0 c0 c0' Hor Hpr).
             intros d. rewrite filter_In, Hp, in_app_iff, underb_spec. split.
             ++ intros [[Hd|Hd] Hu]; [|exact Hd]. exfalso. exact (under_chd_disj Y d HZ (glist_under l _ d Hhl Hd) Hu).
             ++ intros Hd. split; [right; exact Hd|exact (glist_under r _ d Hhr Hd)].
          -- apply under_walk. unfold chd. cbn [fst]. lia.
          -- intros d Hd Eu y Hy. apply Hp in Hd. apply in_app_or in Hd as [Hd|Hd].
             ++ exfalso. apply underb_spec in Eu. exact (under_chd_disj Y d HZ (glist_under l _ d Hhl Hd) Eu).
             ++ destruct (glist_walk r _ d Hhr Hd) as (tau & -> & Hlt & Hne).
                apply pm_region_closed; [apply Hne; rewrite Pr; discriminate|unfold chd; cbn [fst]; lia|exact Hy].
          -- intros d Hd Eu y Hy. apply Hp in Hd. apply in_app_or in Hd as [Hd|Hd].
             ++ destruct (glist_walk l _ d Hhl Hd) as (tau & -> & Hlt & Hne).
                apply (pm_region_disj Y false tau y HZ); [apply Hne; rewrite Pl; discriminate|lia|exact Hy].
             ++ exfalso. assert (Ht : underb (chd 1 Y) d = true) by (apply underb_spec, (glist_under r _ d Hhr Hd)). congruence.
        * rewrite (glist_none l Pl) in Hp.
          assert (Hp2 : forall d, In d D <-> In d (glist r (chd 1 Y)) \/ d = chd 0 Y).
          { intros d. rewrite Hp, in_app_iff. cbn [In]. split.
            - intros [[A|[]]|B]; [right; symmetry; exact A|left; exact B].
            - intros [A|B]; [right; exact A|left; left; symmetry; exact B]. }
          destruct (sorted_last D (glist r (chd 1 Y)) (chd 0 Y) Hs Hp2) as (D' & -> & Hp' & Hs').
          { intros a Ha. left. pose proof (glist_row r _ a Hhr ltac:(rewrite Pr; discriminate) Ha) as Hr.
            unfold chd in *. cbn [fst] in *. exact Hr. }
          rewrite liftc_app.
          rewrite (IHr (chd 1 Y) Hhr D' Hs' Hp' pi0 c0 c0' Hor Hpr).
          unfold liftc. cbn [fold_left].
          pose proof (ppath_length H HO hs r pi0) as Hpl.
          apply (lift1_sibling Y false (ppath r pi0)); lia.
  Qed.
End GenTree.
Section GenForest.
  Variable H : Type.
  Variable HO : ops H.
  Hypothesis HOK : ops_ok HO.
  Variable s : slots H.
  Variable hs : list H.
  Local Notation entry := (StumpAdd.entry H).
  Local Notation erow := (@StumpAdd.erow H).
  Local Notation ecoord := (@StumpAddData.ecoord H).
  Local Notation prune := (RefTheory.prune HO hs).
  Local Notation ppath := (ppath H HO hs).
  Local Notation s1 := (kill HO hs s).

  Lemma gf_ecoord_lo (e : entry) : In e (forest HO s) ->
    snd (ecoord e) * p2 (erow e) = StumpAddData.elo H e.
  Proof.
    intros He. destruct e as [[k lo] t]. apply forest_entry in He as (_ & _ & E & _).
    unfold StumpAddData.ecoord, StumpAdd.erow, StumpAddData.elo. cbn [fst snd].
    rewrite E at 1. fold (p2 k). rewrite N.div_mul by (apply N.neq_0_lt_0, p2_pos). symmetry. exact E.
  Qed.

  Lemma gf_trees_disj (e e' : entry) u x : In e (forest HO s) -> In e' (forest HO s) ->
    erow e <> erow e' -> under (ecoord e) u -> under (ecoord e') x -> under u x -> False.
  Proof.
    intros He He' Hne Hu Hx Hux. pose proof (under_trans _ _ _ Hu Hux) as Hex.
    apply under_lo in Hex as [A1 A2]. apply under_lo in Hx as [B1 B2].
    rewrite N.mul_add_distr_r, N.mul_1_l in A2, B2.
    change (fst (ecoord e)) with (erow e) in *. change (fst (ecoord e')) with (erow e') in *.
    rewrite (gf_ecoord_lo e He) in A1, A2. rewrite (gf_ecoord_lo e' He') in B1, B2.
    destruct e as [[k lo] t], e' as [[k' lo'] t'].
    unfold StumpAdd.erow, StumpAddData.elo in *. cbn [fst snd] in *.
    destruct (Nat.lt_trichotomy k k') as [Hlt|[Heq|Hgt]]; [|contradiction|].
    - pose proof (forest_entries_disjoint H HO s _ _ _ _ _ _ He' He Hlt). lia.
    - pose proof (forest_entries_disjoint H HO s _ _ _ _ _ _ He He' Hgt). lia.
  Qed.

  Lemma gf_same_row (e e' : entry) : In e (forest HO s) -> In e' (forest HO s) -> erow e = erow e' -> e = e'.
  Proof.
    intros He He' Er. destruct e as [[k lo] t], e' as [[k' lo'] t']. unfold StumpAdd.erow in Er. cbn [fst] in Er. subst k'.
    destruct (forest_entry_unique H HO s _ _ _ _ _ He He') as [-> ->]. reflexivity.
  Qed.

  Lemma gf_height (e : entry) ce : In e (forest HO s) -> snd e = Some ce -> (cheight H ce <= erow e)%nat.
  Proof.
    intros He Hs. destruct e as [[k lo] t]. cbn [snd] in Hs. subst t.
    apply forest_entry in He as (_ & _ & _ & _ & _ & Ht). symmetry in Ht.
    exact (proj2 (compress_wf H HO k _ ce Ht)).
  Qed.

  (** the roots of the maximal deleted subtrees that are not whole trees, in row-major order *)
  Variable D : list coord.
  Hypothesis HsD : StronglySorted clt D.
  Hypothesis HD : forall d, In d D <->
    exists (e : entry) ce, In e (forest HO s) /\ snd e = Some ce /\ prune ce <> None /\
                          In d (glist H HO hs ce (ecoord e)).

  Lemma gf_in_tree (e : entry) ce d : In e (forest HO s) -> snd e = Some ce -> In d D ->
    under (ecoord e) d -> In d (glist H HO hs ce (ecoord e)).
  Proof.
    intros He Hs Hd Hu. apply HD in Hd as (e' & ce' & He' & Hs' & _ & Hd).
    pose proof (glist_under H HO hs ce' (ecoord e') d (gf_height e' ce' He' Hs') Hd) as Hu'.
    destruct (Nat.eq_dec (erow e) (erow e')) as [Er|Er].
    - pose proof (gf_same_row e e' He He' Er) as <-. rewrite Hs in Hs'. injection Hs' as <-. exact Hd.
    - exfalso. exact (gf_trees_disj e e' d d He He' Er Hu Hu' (under_refl d)).
  Qed.

  Lemma gf_move (e : entry) ce pi c0 c0' : In e (forest HO s) -> snd e = Some ce ->
    occp H ce pi c0 -> prune c0 = Some c0' ->
    liftc D (walk (ecoord e) pi) = walk (ecoord e) (ppath ce pi).
  Proof.
    intros He Hs Hp Hpr.
    assert (Hne : prune ce <> None).
    { destruct (prune_occp H HO hs ce pi c0 Hp c0' Hpr) as (cc & Pc & _). rewrite Pc. discriminate. }
    pose proof (gf_height e ce He Hs) as Hh. pose proof (occp_height H _ _ _ Hp) as Hl.
    rewrite (liftc_filter (ecoord e) D (walk (ecoord e) pi)).
    - apply (move_tree_g H HO hs ce (ecoord e) Hh _ (SS_filter _ _ _ HsD)) with (c0 := c0) (c0' := c0');
        [|exact Hp|exact Hpr].
      intros d. rewrite filter_In, underb_spec. split.
      + intros [Hd Hu]. exact (gf_in_tree e ce d He Hs Hd Hu).
      + intros Hd. split; [apply HD; exists e, ce; auto|exact (glist_under H HO hs ce (ecoord e) d Hh Hd)].
    - apply under_walk. change (fst (ecoord e)) with (erow e). lia.
    - intros d Hd Eu y Hy. apply underb_spec in Eu.
      pose proof (gf_in_tree e ce d He Hs Hd Eu) as Hd'.
      destruct (glist_walk H HO hs ce (ecoord e) d Hh Hd') as (tau & -> & Hlt & Hne').
      apply pm_region_closed; [exact (Hne' Hne)|change (fst (ecoord e)) with (erow e); lia|exact Hy].
    - intros d Hd Eu y Hy. apply pd_lift1_id.
      destruct (anc (S (fst d), snd d / 2) y) eqn:Ea; [exfalso|reflexivity].
      apply anc_under in Ea as [_ Hu].
      apply HD in Hd as (e' & ce' & He' & Hs' & Hne2 & Hd).
      pose proof (gf_height e' ce' He' Hs') as Hh'.
      destruct (glist_walk H HO hs ce' (ecoord e') d Hh' Hd) as (tau & Ed & Hlt & Hne').
      specialize (Hne' Hne2).
      assert (HA : under (ecoord e') (S (fst d), snd d / 2)).
      { rewrite Ed. apply under_parent_walk; [exact Hne'|change (fst (ecoord e')) with (erow e'); lia]. }
      destruct (Nat.eq_dec (erow e') (erow e)) as [Er|Er].
      + pose proof (gf_same_row e' e He' He Er) as ->.
        assert (Ht : underb (ecoord e) d = true).
        { apply underb_spec. rewrite Ed. apply under_walk. change (fst (ecoord e)) with (erow e). lia. }
        congruence.
      + exact (gf_trees_disj e' e _ y He' He Er HA Hy Hu).
  Qed.

  (** A3 and A4 *)
  Lemma gf_up c0 r0 o0 c0' : locc H HO s c0 r0 o0 -> prune c0 = Some c0' ->
    locc H HO s1 c0' (fst (liftc D (r0, o0))) (snd (liftc D (r0, o0))).
  Proof.
    intros Hl Hp. apply locc_path in Hl as (e & ce & pi & He & Hs & Ho & Hw & _).
    rewrite <- Hw, (gf_move e ce pi c0 c0' He Hs Ho Hp).
    exact (locc_kill_up H HO hs s e ce pi c0 c0' He Hs Ho Hp).
  Qed.

  Lemma gf_down c0' r1 o1 : locc H HO s1 c0' r1 o1 ->
    exists c0 r0 o0, locc H HO s c0 r0 o0 /\ prune c0 = Some c0' /\ liftc D (r0, o0) = (r1, o1) /\
                     uncontracted H HO hs c0.
  Proof.
    intros Hl. apply locc_path in Hl as (e' & c' & pi' & He' & Hs' & Hp' & Hw & _).
    rewrite RefTheory.forest_kill in He'. apply in_map_iff in He' as (e & <- & He).
    unfold RefTheory.prune_entry in Hs'. cbn [snd] in Hs'.
    destruct (snd e) as [ce|] eqn:Ese; [|discriminate]. cbn [RefTheory.oprune] in Hs'.
    destruct (prune_occp_inv2 H HO hs ce c' Hs' pi' c0' Hp') as (pi & c0 & A & B & C & U).
    pose proof (sl_height H HO s e ce pi c0 He Ese A) as Hl.
    exists c0, (fst (walk (ecoord e) pi)), (snd (walk (ecoord e) pi)).
    split; [apply locc_path; exists e, ce, pi; repeat split; try assumption; apply surjective_pairing|].
    split; [exact B|]. split; [|exact U]. rewrite <- surjective_pairing.
    rewrite (gf_move e ce pi c0 c0' He Ese A B), C.
    change (ecoord (RefTheory.prune_entry HO hs e)) with (ecoord e) in Hw. exact Hw.
  Qed.
End GenForest.
