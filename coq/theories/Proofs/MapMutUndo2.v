(** C06, second part: [Undo] of blocks that delete leaves (continuation of Proofs/MapMutUndo.v).

    The file proves, for the mirror [mm_undo] of [MapPollard.Undo] (Model/MapMut.v):

    - Part 1: [Unode] (only positions of nodes of the forest are stored), [WInvX_nodes] (the exempt
      set of the weak invariant can be restricted to node coordinates), the two steps of
      MapMutUndo.v ([stepD_WInvX], [stepR_WInvX]) with [Unode] carried along ([stepD2],
      [stepR_Unode], [root_parent_unstored]).
    - Part 2: [movedown_ok]: the loop of [undoDeletion] over the detwinned targets, newest first
      (the shape of [MapMutRemove.remove_fold], backwards).
    - Part 3: the end of [undoDeletion]: [ud_fill_spec], [Inv_witness] (a state that satisfies the
      invariant of MapMutPrune.v, to use its lemmas on [calculateHashes] for the canonical proof),
      [undoDeletion_end] ([ud_fill], [calculateHashes], [put_calculated]).
    - Part 4: [undoDeletion_ok]: the whole of [undoDeletion], for the canonical targets and proof
      of the deleted leaves.
    - Part 5: [getRootsAfterDel] and [getWrittenOverEmptyRoots] for a block that also deletes.
    - Part 6: [undo_block] (G3): from [UInv] of the forest AFTER a block that deleted [dels] and
      added [adds], [mm_undo] with the data of the block (number of additions, canonical targets
      and proof of the deleted leaves in the forest before the block, their hashes, the roots
      before the block) succeeds and gives [UInv] of the forest BEFORE the block, remembering
      (R1 minus adds) plus dels; [undo_dels] (G2) is the instance without additions.
    - Part 7: [modify_undo_block]: [mm_modify] then [mm_undo] returns to a state consistent with
      the forest before the block, with the same remembered set, roots and leaf count;
      [undo_blocks_depth], [undo_blocks_consistent] (G4): the last [k] blocks undone, newest
      first; [modify_undo_blocks]: [k] blocks applied with [Modify] and undone.
    - Part 8: a history of two blocks over the free hash algebra.

    No axioms; [Print Assumptions] at the end. *)
From Utreexo Require Import Base.Hash Model.Utils Model.UtilsFast Model.Verify Model.MapRead
  Model.MapMut Spec.Forest Spec.Oracle Proofs.UtilsGeom Proofs.UtilsGeom2 Proofs.SpecBasics Proofs.StumpAdd
  Proofs.LayoutStruct Proofs.ProofPosSpec Proofs.MapReadSpec Proofs.CalcSound Proofs.CalcComplete
  Proofs.MapMutAdd Proofs.MapMutPrune Proofs.MapMutUnify Proofs.MapMutUndo.
From Utreexo Require Proofs.RefTheory Proofs.StumpAddData Proofs.MapMutRemove Proofs.MapMutUnify2.
From Coq Require Import List Arith PeanoNat NArith Lia ZifyNat ZifyN ZifyBool Bool Sorted Permutation.
Import ListNotations.
Open Scope N_scope.

Local Notation gpos := UtilsGeom.gpos.

(** * Part 1: the steps of [undoDeletion] keep "only node coordinates are stored" *)
Section NodesOnly.
  Variable H : Type.
  Variable HO : ops H.
  Variable T : N.

  (** everything stored sits on the coordinate of a node of the layout *)
  Definition Unode (s : slots H) (nd : list (N * (H * bool))) : Prop :=
    forall p v, nodes_get nd p = Some v -> exists r o h l, p = gp T r o /\ Vlay HO s r o h l.

  (** exempt coordinates matter only where the view has a node *)
  Lemma WInvX_nodes (V : nat -> N -> H -> bool -> Prop) (RT : nat -> N -> Prop) (R : list H)
        (X : nat -> N -> Prop) (nd : list (N * (H * bool))) (ca : list (H * N)) : Vok V RT T ->
    (forall p v, nodes_get nd p = Some v -> exists r o h l, p = gp T r o /\ V r o h l) ->
    WInvX V RT R T X nd ca ->
    WInvX V RT R T (fun r o => X r o /\ exists h l, V r o h l) nd ca.
  Proof.
    intros K HU W. constructor.
    - exact (w_nodup W).
    - intros p h b Hin. destruct (w_true W _ _ _ Hin) as (r & o & Ep & A & B & [C|D]);
        exists r, o; repeat split; auto.
      left. split; [exact C|]. apply (nodes_get_In_iff H _ _ _ (w_nodup W)) in Hin.
      destruct (HU _ _ Hin) as (r' & o' & h' & l' & Ep' & Hv). destruct (v_valid K Hv) as [A' B'].
      rewrite Ep in Ep'. destruct (gp_inj T _ _ _ _ A B A' B' Ep') as [-> ->]. eauto.
    - exact (w_cR W).
    - exact (w_cpos W).
    - intros r o h Hv Hh Hn. apply (w_tgt W _ _ _ Hv Hh). intros C. apply Hn. split; [exact C|eauto].
    - intros r o Hk Hn h l Hv HnX. apply (w_sibs W _ _ Hk Hn _ _ Hv). intros C. apply HnX. split; [exact C|eauto].
  Qed.
End NodesOnly.

Section StepD2.
  Variable H : Type.
  Variable HO : ops H.
  Hypothesis HOK : ops_ok HO.
  Hypothesis Hh2 : forall x y, op_eqb HO (op_hash2 HO x y) (op_empty HO) = false.
  Variable full : bool.
  Variable T : N.
  Hypothesis HT : T <= 63.
  Variable s : slots H.
  Hypothesis HnT : N.of_nat (length s) <= 2 ^ T.
  Hypothesis Hnd : NoDup (live s).
  Hypothesis Hlv : leaves_ok H HO s.
  Variable L : list H.
  Variable x : node H.
  Hypothesis Hx : In x (layout HO s).
  Hypothesis Hdel : forall y, In y (layout HO s) -> nleaf y = true ->
    (memH HO (nhash y) L = true <-> MapMutRemove.under (coord x) (coord y)).
  Hypothesis Hroot : nroot x = false.
  Notation under := MapMutRemove.under.
  Notation lay := (layout HO s).
  Notation s' := (kill HO L s).
  Notation lay' := (layout HO (kill HO L s)).
  Notation rd := (nrow x).
  Notation od := (noff x).
  Notation Pc := (S (nrow x), noff x / 2).

  Let n63 : N.of_nat (length s) <= 2 ^ 63.
  Proof. assert (2 ^ T <= 2 ^ 63) by (apply UtilsGeom.pow2_le; exact HT). lia. Qed.
  Let Tlo : TreeRows (N.of_nat (length s)) <= T.
  Proof. apply TreeRows_le_iff. exact HnT. Qed.

  (** a node of the new layout above the parent sits on a node coordinate of the old layout *)
  Lemma anc_node r o h l : Vlay HO s' r o h l -> under (r, o) Pc -> exists h' l', Vlay HO s r o h' l'.
  Proof.
    intros (y' & Hy' & Er & Eo & _) U.
    assert (Hn63' : N.of_nat (length s') <= 2 ^ 63) by (rewrite (len_kill H HO s L); exact n63).
    destruct (MapMutRemove.ng_family H HO s x Hx Hroot) as (p & sbn & Hp & Hsbn & _ & _ & Es & Ep & Etp & Ets & _).
    pose proof (KI H HO s L x Hx Hdel Hroot sbn Hsbn) as (_ & K2 & _). rewrite Es in K2.
    pose proof (K2 (MapMutRemove.under_refl _)) as Hup.
    set (u := MapMutRemove.upn H rd (Nat.eqb (S rd) (ntree x)) sbn) in *.
    assert (Ecu : coord u = Pc).
    { unfold u, coord. cbn [MapMutRemove.upn nrow noff]. injection Es as Esr Eso. rewrite Esr, Eso, Nat.sub_diag.
      change (N.of_nat 0) with 0. rewrite rmbit_0. f_equal. apply lxor1_div2. }
    assert (Uy : under (coord y') (coord u)) by (rewrite Ecu; unfold coord; rewrite Er, Eo; exact U).
    pose proof (MapMutRemove.ng_same_tree H HO _ y' u Hy' Hup Uy) as Et.
    assert (Etu : ntree u = ntree x) by (unfold u; cbn [MapMutRemove.upn ntree]; exact Ets).
    pose proof (node_row_le_tree H HO _ y' Hy') as Hle.
    destruct U as [Hr Eq]. cbn [fst snd] in Hr, Eq.
    injection Ep as Epr Epo.
    destruct (MapMutRemove.ng_ancestor H HO s T n63 Tlo HT p Hp (r - S rd)%nat ltac:(lia)) as (y & Hy & Ecy & _).
    exists (nhash y), (nleaf y), y. injection Ecy as Ery Eoy. split; [exact Hy|].
    split; [lia|]. split; [|auto]. rewrite Eoy, Epo. exact Eq.
  Qed.

  Theorem stepD2 (R : list H) (X : nat -> N -> Prop) (nd0 : list (N * (H * bool))) (ca0 : list (H * N)) :
    (forall z, In z R -> In (Some z) s') ->
    (forall r o, X r o -> ~ inRegG rd od r o) ->
    (forall r o h, X r o -> Vlay HO s' r o h true -> ~ In h R) ->
    WInvX (Vlay HO s') (RTlay HO s') R T X nd0 ca0 -> Unode H HO T s' nd0 ->
    exists st1, placeEmptyRoot HO T full (gp T rd od) (nd0, ca0) = (st1, true) /\
      WInvX (Vlay HO s) (RTlay HO s) R T (fun r o => X r o \/ XnD H x r o \/ inDelG rd od r o)
            (fst (pmove H HO full T rd od st1)) (snd (pmove H HO full T rd od st1)) /\
      Unode H HO T s (fst (pmove H HO full T rd od st1)).
  Proof.
    intros HR HXout HXleaf W' HU.
    destruct (stepD_WInvX H HO HOK Hh2 full T HT s HnT Hnd Hlv L x Hx Hdel Hroot R X nd0 ca0 HR HXout HXleaf W')
      as (st1 & E & W).
    exists st1. split; [exact E|]. split; [exact W|].
    destruct (sd_valid H HO T HT s HnT L x Hx Hdel Hroot) as [A B].
    (* what is stored inside the region before the step *)
    assert (Hreg : forall r o v, inRegG rd od r o -> nodes_get nd0 (gp T r o) = Some v ->
              exists r1 o1 l, VsubD H HO s x r1 o1 (fst v) l /\ r = S r1 /\ o = upoG rd r1 o1).
    { intros r o [h fl] Hreg Ev. destruct (HU _ _ Ev) as (r' & o' & h' & l' & Ep & Hv).
      destruct (regG_valid T rd od HT A B r o Hreg) as [A1 B1].
      destruct (v_valid (Vlay_ok H HO s' T ltac:(rewrite (len_kill H HO s L); exact HnT) HT) Hv) as [A2 B2].
      destruct (gp_inj T _ _ _ _ A1 B1 A2 B2 Ep) as [<- <-].
      assert (Eh : h' = h).
      { destruct (w_true W' _ _ _ (nodes_get_In H _ _ _ Ev)) as (r2 & o2 & Ep2 & A3 & B3 & [C|(l2 & Hv2)]);
          destruct (gp_inj T _ _ _ _ A1 B1 A3 B3 Ep2) as [<- <-].
        - destruct (HXout _ _ C Hreg).
        - exact (proj1 (v_fun (Vlay_ok H HO s' T ltac:(rewrite (len_kill H HO s L); exact HnT) HT) Hv Hv2)). }
      subst h'. destruct (D_HU_reg H HO T HT s HnT Hnd L x Hx Hdel Hroot r o h l' Hv Hreg) as (r1 & o1 & Hs & Er & Eo).
      exists r1, o1, l'. auto. }
    destruct (placeEmptyRoot_coords H HO HOK full T rd od HT A B nd0 ca0) as (st1' & E' & C).
    { intros r o v Hr1 Hr Hreg' Ev. destruct (Hreg r o v Hreg' Ev) as (r1 & o1 & l & Hs & _).
      exact (D_Hne_sub H HO HOK Hh2 T HT s HnT Hlv L x Hx Hdel Hroot _ _ _ _ Hs). }
    { intros o Hreg' . destruct (nodes_get nd0 (gp T 0 o)) as [v|] eqn:Ev; [exfalso|reflexivity].
      destruct (Hreg 0%nat o v Hreg' Ev) as (r1 & o1 & l & _ & Er & _). lia. }
    rewrite E in E'. injection E' as <-. destruct st1 as [nd1 ca1]. cbn [fst snd] in C.
    (* a stored position of [nd1] *)
    assert (H1 : forall p v, nodes_get nd1 p = Some v -> p <> gp T (S rd) (od / 2) ->
              exists r o h l, p = gp T r o /\ Vlay HO s r o h l).
    { intros p v Ev HnP. destruct (pc_back C p Ev) as [(r & o & Hr & Hs & -> & Ea)|[E0 Hno]].
      - destruct (nodes_get nd0 (gp T (S r) (upoG rd r o))) as [v0|] eqn:E0; [|discriminate].
        destruct (Hreg _ _ v0 (upo_reg T rd od HT A B r o Hs) E0) as (r1 & o1 & l & [Hv Hs1] & Er & Eo).
        assert (r1 = r) by lia. subst r1. rewrite <- (upo_inj T rd od HT A B r o o1 Hs Hs1 Eo) in Hv.
        exists r, o, (fst v0), l. auto.
      - destruct (HU _ _ E0) as (r & o & h & l & -> & Hv).
        assert (Hout : ~ inRegG rd od r o).
        { intros Hreg'. destruct (Nat.eq_dec r (S rd)) as [->|Hne].
          - apply (regG_cases T rd od HT A B) in Hreg' as [[_ ->]|[[C1 _]|[C1 _]]]; [|lia|lia]. apply HnP. reflexivity.
          - apply (Hno r o); [destruct Hreg'; lia|exact Hreg'|reflexivity]. }
        destruct (D_HO_ul H HO T HT s HnT Hnd L x Hx Hdel Hroot r o h l Hv Hout) as [Hv'|Hxn].
        + exists r, o, h, l. auto.
        + destruct (anc_node r o h l Hv Hxn) as (h' & l' & Hv'). exists r, o, h', l'. auto. }
    intros p v Ev. unfold pmove in Ev. cbn [fst snd] in Ev.
    destruct (nodes_get nd1 (gp T (S rd) (od / 2))) as [vP|] eqn:EvP.
    - cbn [fst] in Ev. rewrite nodes_get_put, nodes_get_del in Ev.
      destruct (N.eqb_spec p (gp T rd (N.lxor od 1))) as [->|_].
      + destruct (MapMutRemove.ng_family H HO s x Hx Hroot) as (pp & sbn & _ & Hsbn & _ & _ & Es & _).
        injection Es as Esr Eso. exists rd, (N.lxor od 1), (nhash sbn), (nleaf sbn). split; [reflexivity|].
        exists sbn. auto.
      + destruct (N.eqb_spec p (gp T (S rd) (od / 2))) as [->|Hne]; [discriminate|]. exact (H1 p v Ev Hne).
    - cbn [fst] in Ev. apply (H1 p v Ev). intros ->. congruence.
  Qed.
End StepD2.

Section StepR2.
  Variable H : Type.
  Variable HO : ops H.
  Variable T : N.
  Hypothesis HT : T <= 63.
  Variable s : slots H.
  Hypothesis HnT : N.of_nat (length s) <= 2 ^ T.
  Hypothesis Hnd : NoDup (live s).
  Variable L : list H.
  Variable x : node H.
  Hypothesis Hx : In x (layout HO s).
  Hypothesis Hdel : forall y, In y (layout HO s) -> nleaf y = true ->
    (memH HO (nhash y) L = true <-> MapMutRemove.under (coord x) (coord y)).
  Hypothesis Hroot : nroot x = true.

  Lemma stepR_Unode nd : Unode H HO T (kill HO L s) nd -> Unode H HO T s nd.
  Proof.
    intros HU p v Ev. destruct (HU p v Ev) as (r & o & h & l & Ep & (y' & Hy' & Er & Eo & Eh & El)).
    destruct (kill_root_conv H HO T HT s HnT Hnd L x Hx Hdel Hroot y' Hy') as [->|[Hy _]].
    - cbn [nrow noff] in Er, Eo. exists r, o, (nhash x), (nleaf x). split; [exact Ep|]. exists x. auto.
    - exists r, o, h, l. split; [exact Ep|]. exists y'. auto.
  Qed.

  (** nothing is stored on the parent coordinate of a root *)
  Lemma root_parent_unstored nd : Unode H HO T (kill HO L s) nd ->
    nodes_get nd (Parent (posN H T x) T) = None.
  Proof.
    intros HU. destruct (nodes_get nd (Parent (posN H T x) T)) as [v|] eqn:Ev; [exfalso|reflexivity].
    destruct (HU _ _ Ev) as (r & o & h & l & Ep & Hv).
    assert (HnT' : N.of_nat (length (kill HO L s)) <= 2 ^ T) by (rewrite (len_kill H HO s L); exact HnT).
    destruct (v_valid (Vlay_ok H HO _ T HnT' HT) Hv) as [A B].
    destruct (proj2 (root_geo H HO T HT s HnT x Hx Hroot) r o A B (eq_sym Ep)) as [Er Eo].
    destruct Hv as (yP & HyP & Eyr & Eyo & _).
    pose proof (proj1 (KR H HO s L x Hx Hdel Hroot)) as Hx'.
    set (x' := mkNode (nrow x) (noff x) (op_empty HO) false true (nrow x)) in *.
    assert (U : MapMutRemove.under (coord yP) (coord x')).
    { unfold coord. cbn [nrow noff x']. rewrite Eyr, Eyo, Er, Eo. split; [cbn; lia|]. cbn [fst snd].
      replace (S (nrow x) - nrow x)%nat with 1%nat by lia. reflexivity. }
    pose proof (MapMutRemove.ng_same_tree H HO _ yP x' HyP Hx' U) as Et. cbn [ntree x'] in Et.
    pose proof (node_row_le_tree H HO _ yP HyP). lia.
  Qed.
End StepR2.

(** * Part 2: the loop of [undoDeletion] that moves the subtrees down, newest target first *)
Section MoveDown.
  Variable H : Type.
  Variable HO : ops H.
  Hypothesis HOK : ops_ok HO.
  Hypothesis Hh2 : forall x y, op_eqb HO (op_hash2 HO x y) (op_empty HO) = false.
  Variable full : bool.
  Variable T : N.
  Hypothesis HT : T <= 63.
  Notation under := MapMutRemove.under.
  Notation indep := MapMutRemove.indep.

  (** the coordinates that are exempt after the subtree below [y] has come back: the subtree, and
      (when [y] is no root) the parent of [y] and what lies above it *)
  Definition EXy (y : node H) (r : nat) (o : N) : Prop :=
    under (coord y) (r, o) \/ (nroot y = false /\ under (r, o) (S (nrow y), noff y / 2)).
  Definition EXall (ys : list (node H)) (r : nat) (o : N) : Prop := exists y, In y ys /\ EXy y r o.

  Lemma indep_EX_out (y1 y : node H) r o : indep y1 y -> EXy y r o ->
    ~ under (S (nrow y1), noff y1 / 2) (r, o).
  Proof.
    intros Hi Hex U. destruct (MapMutRemove.indep_other y1 y Hi) as [N1 N2].
    destruct Hex as [Uy|[_ Ua]].
    - exact (proj1 (MapMutRemove.other_below _ _ _ N1 N2 Uy) U).
    - apply N1. apply (MapMutRemove.under_trans _ (r, o)); [exact U|].
      apply (MapMutRemove.under_trans _ (S (nrow y), noff y / 2)); [exact Ua|].
      exact (proj2 (MapMutRemove.under_sib_par (nrow y) (noff y))).
  Qed.

  Theorem movedown_ok : forall (ys : list (node H)) (s : slots H),
    N.of_nat (length s) <= 2 ^ T -> NoDup (live s) -> leaves_ok H HO s ->
    (forall y, In y ys -> In y (layout HO s)) -> ForallOrdPairs indep ys ->
    exists Lt,
      (forall w, In w (layout HO s) -> nleaf w = true ->
         (memH HO (nhash w) Lt = true <-> exists y, In y ys /\ under (coord y) (coord w))) /\
      forall (R : list H) (nd : list (N * (H * bool))) (ca : list (H * N)),
        (forall z, In z R -> In (Some z) (kill HO Lt s)) ->
        WInvX (Vlay HO (kill HO Lt s)) (RTlay HO (kill HO Lt s)) R T noX nd ca ->
        Unode H HO T (kill HO Lt s) nd ->
        exists st', ud_movedown HO (N.of_nat (length s)) T full (rev (map (posN H T) ys)) (nd, ca) = (st', true) /\
          WInvX (Vlay HO s) (RTlay HO s) R T (EXall ys) (fst st') (snd st') /\
          Unode H HO T s (fst st').
  Proof.
    induction ys as [|y1 rest IH]; intros s HnT Hnd Hlv Hys Hfop.
    - exists []. split.
      + intros w _ _. cbn [memH]. split; [discriminate|]. intros (y & [] & _).
      + intros R nd ca HR W HU. rewrite (MapMutRemove.kill_nil H HO) in *. exists (nd, ca).
        split; [reflexivity|]. split; [|exact HU].
        apply (WInvX_ext H (Vlay HO s) (Vlay HO s) (RTlay HO s) (RTlay HO s) R R T noX (EXall [])); try reflexivity; [|exact W].
        intros r o. split; [intros []|intros (y & [] & _)].
    - pose proof (Hys y1 (or_introl eq_refl)) as Hy1.
      set (L1 := MapMutRemove.leaves_under H HO s y1).
      assert (Hdel1 : forall w, In w (layout HO s) -> nleaf w = true ->
                (memH HO (nhash w) L1 = true <-> under (coord y1) (coord w))).
      { intros w Hw Lw. apply (MapMutRemove.leaves_under_spec H HO HOK); assumption. }
      set (s1 := kill HO L1 s).
      inversion Hfop as [|a l Hhead Htail]; subst a l. rewrite Forall_forall in Hhead.
      assert (Hl1 : length s1 = length s) by apply (len_kill H HO).
      assert (HnT1 : N.of_nat (length s1) <= 2 ^ T) by (rewrite Hl1; exact HnT).
      assert (Hrest1 : forall y, In y rest -> In y (layout HO s1)).
      { intros y Hy. pose proof (Hys y (or_intror Hy)) as Hyl.
        exact (MapMutRemove.kl_keep H HO s L1 y1 Hy1 Hdel1 y Hyl (Hhead y Hy) y Hyl (MapMutRemove.under_refl _)). }
      destruct (IH s1 HnT1 (MapMutRemove.kill_nodup H HO L1 s Hnd) (leaves_ok_kill H HO s Hlv L1) Hrest1 Htail)
        as (Ltr & Hspec & Hmove).
      exists (L1 ++ Ltr). split.
      + (* the deleted leaves *)
        intros w Hw Lw. rewrite (memH_app H HO), orb_true_iff. split.
        * intros [E1|Er].
          -- exists y1. split; [left; reflexivity|]. apply (Hdel1 w Hw Lw), E1.
          -- destruct (memH HO (nhash w) L1) eqn:E1.
             { exists y1. split; [left; reflexivity|]. apply (Hdel1 w Hw Lw), E1. }
             assert (Hlw : In (Some (nhash w)) s1).
             { apply MapMutRemove.kill_live. split; [exact (layout_leaf_live H HO s w Hw Lw)|exact E1]. }
             destruct (live_leaf_in_layout H HO _ _ Hlw) as (w1 & Hw1 & Lw1 & Ew1).
             rewrite <- Ew1 in Er. apply (Hspec w1 Hw1 Lw1) in Er as (y & Hy & Uy).
             pose proof (Hys y (or_intror Hy)) as Hyl.
             destruct (MapMutRemove.kl_leaf_below H HO s L1 y1 Hnd Hy1 Hdel1 y w1 Hyl (Hhead y Hy) Hw1 Lw1 Uy) as [Hw1l _].
             rewrite (live_leaf_unique H HO s w1 w Hnd Hw1l Hw Lw1 Lw Ew1) in Uy.
             exists y. split; [right; exact Hy|exact Uy].
        * intros (y & [<-|Hy] & Uy).
          -- left. apply (Hdel1 w Hw Lw), Uy.
          -- right. pose proof (Hys y (or_intror Hy)) as Hyl.
             pose proof (MapMutRemove.kl_keep H HO s L1 y1 Hy1 Hdel1 y Hyl (Hhead y Hy) w Hw Uy) as Hw1.
             apply (Hspec w Hw1 Lw). exists y. auto.
      + intros R nd ca HR W HU. rewrite <- (kill_kill H HO) in HR, W, HU. fold s1 in HR, W, HU.
        destruct (Hmove R nd ca HR W HU) as ([nd1 ca1] & E1 & W1 & HU1). cbn [fst snd] in W1, HU1.
        cbn [map rev]. rewrite (ud_movedown_app H HO full T s).
        rewrite <- Hl1, E1, Hl1.
        (* the remembered leaves are live after the first deletion *)
        assert (HR1 : forall z, In z R -> In (Some z) s1).
        { intros z Hz. apply HR, MapMutRemove.kill_live in Hz. exact (proj1 Hz). }
        assert (HXleaf : forall r o h, EXall rest r o -> Vlay HO s1 r o h true -> ~ In h R).
        { intros r o h (y & Hy & Hex) (w & Hw & Er & Eo & Eh & Lw) Hin.
          pose proof (Hrest1 y Hy) as Hyl1. destruct Hex as [Uy|[Hry Ua]].
          - assert (Hm : memH HO (nhash w) Ltr = true).
            { apply (Hspec w Hw Lw). exists y. split; [exact Hy|]. unfold coord at 2. rewrite Er, Eo. exact Uy. }
            apply HR, MapMutRemove.kill_live in Hin. rewrite <- Eh in Hin. destruct Hin as [_ Hm']. congruence.
          - apply (leaf_not_above H HO T HT s1 HnT1 (MapMutRemove.leaves_under H HO s1 y) y Hyl1
                     (fun w0 Hw0 Lw0 => MapMutRemove.leaves_under_spec H HO HOK s1 y w0 (MapMutRemove.kill_nodup H HO L1 s Hnd) Hw0 Lw0)
                     Hry w Hw Lw).
            unfold coord. rewrite Er, Eo. exact Ua. }
        destruct (nroot y1) eqn:Hr1.
        * (* a tree comes back *)
          rewrite (step_root_eq H HO full T HT s HnT y1 (nd1, ca1) Hy1 Hr1).
          2:{ cbn [fst]. exact (root_parent_unstored H HO T HT s HnT L1 y1 Hy1 Hdel1 Hr1 nd1 HU1). }
          exists (nd1, ca1). split; [reflexivity|]. cbn [fst snd]. split.
          -- apply (WInvX_weaken H (Vlay HO s) (RTlay HO s) R T (fun r o => EXall rest r o \/ under (coord y1) (r, o))).
             ++ intros r o [(y & Hy & Hex)|U]; [exists y; split; [right; exact Hy|exact Hex]|].
                exists y1. split; [left; reflexivity|left; exact U].
             ++ exact (stepR_WInvX H HO T HT s HnT Hnd L1 y1 Hy1 Hdel1 Hr1 R (EXall rest) nd1 ca1 HR1 W1).
          -- exact (stepR_Unode H HO T HT s HnT Hnd L1 y1 Hy1 Hdel1 Hr1 nd1 HU1).
        * (* a subtree comes back: its sibling goes down again *)
          destruct (stepD2 H HO HOK Hh2 full T HT s HnT Hnd Hlv L1 y1 Hy1 Hdel1 Hr1 R (EXall rest) nd1 ca1 HR1)
            as (st1 & Ep & W2 & HU2); [| |exact W1|exact HU1|].
          { intros r o (y & Hy & Hex) Hreg. apply inRegG_under in Hreg.
            exact (indep_EX_out y1 y r o (Hhead y Hy) Hex Hreg). }
          { exact HXleaf. }
          rewrite (step_nonroot_eq H HO full T HT s HnT y1 (nd1, ca1) st1 Hy1 Hr1 Ep).
          eexists. split; [reflexivity|]. split; [|exact HU2].
          apply (WInvX_weaken H (Vlay HO s) (RTlay HO s) R T
                   (fun r o => EXall rest r o \/ XnD H y1 r o \/ inDelG (nrow y1) (noff y1) r o)); [|exact W2].
          intros r o [(y & Hy & Hex)|[U|Hd]].
          -- exists y. split; [right; exact Hy|exact Hex].
          -- exists y1. split; [left; reflexivity|right; split; [exact Hr1|exact U]].
          -- exists y1. split; [left; reflexivity|left; apply inDelG_under; exact Hd].
  Qed.
End MoveDown.

(** * Part 3: the end of [undoDeletion]: the proof is filled in, the deleted subtrees and the
      paths above them are recomputed *)
Section FillGeneric.
  Variable H : Type.
  Variable HO : ops H.

  (** "place in the proof hashes": a stored position keeps its hash, which is the given one *)
  Lemma ud_fill_spec {E} (f : E -> N) (gh : E -> H) (full : bool) : forall (l : list E) pre nd,
    (forall a lf, In a l -> nodes_get nd (f a) = Some lf -> fst lf = gh a) ->
    (forall a b, In a l -> In b l -> f a = f b -> gh a = gh b) ->
    exists nd1, ud_fill full (length pre) (map f l) (pre ++ map gh l) nd = Some (nd1, map gh l) /\
      (forall p v, nodes_get nd p = Some v -> nodes_get nd1 p = Some v) /\
      (forall a, In a l -> nodes_get nd1 (f a) <> None) /\
      (forall p v, nodes_get nd1 p = Some v ->
         nodes_get nd p = Some v \/ exists a, In a l /\ p = f a /\ v = (gh a, full)) /\
      (NoDup (map fst nd) -> NoDup (map fst nd1)).
  Proof.
    induction l as [|a l IH]; intros pre nd Hst Hfg.
    - exists nd. cbn [map ud_fill]. split; [reflexivity|]. split; [auto|]. split; [intros a []|]. split; [auto|auto].
    - cbn [map ud_fill].
      assert (Eg : pre ++ gh a :: map gh l = (pre ++ [gh a]) ++ map gh l) by (rewrite <- app_assoc; reflexivity).
      assert (El : S (length pre) = length (pre ++ [gh a])) by (rewrite app_length; cbn [length]; lia).
      assert (En : nth_error (pre ++ gh a :: map gh l) (length pre) = Some (gh a))
        by (rewrite nth_error_app2, Nat.sub_diag by lia; reflexivity).
      rewrite En. destruct (nodes_get nd (f a)) as [lf|] eqn:Ea.
      + rewrite Eg, El.
        destruct (IH (pre ++ [gh a]) nd (fun b lf' Hb => Hst b lf' (or_intror Hb))
                    (fun b c Hb Hc => Hfg b c (or_intror Hb) (or_intror Hc))) as (nd1 & E1 & P1 & P3 & P4 & P5).
        exists nd1. rewrite E1, (Hst a lf (or_introl eq_refl) Ea). split; [reflexivity|]. split; [exact P1|]. split; [|split; [|exact P5]].
        * intros b [<-|Hb]; [rewrite (P1 _ _ Ea); discriminate|exact (P3 b Hb)].
        * intros p w Ep. destruct (P4 p w Ep) as [Hold|(b & Hb & Eb)]; [left; exact Hold|].
          right. exists b. split; [right; exact Hb|exact Eb].
      + rewrite Eg, El.
        destruct (IH (pre ++ [gh a]) (nodes_put (f a) (gh a, full) nd)) as (nd1 & E1 & P1 & P3 & P4 & P5).
        { intros b lf Hb. rewrite nodes_get_put. destruct (N.eqb_spec (f b) (f a)) as [Ef|_].
          - intros Ev. injection Ev as <-. cbn [fst]. symmetry. exact (Hfg b a (or_intror Hb) (or_introl eq_refl) Ef).
          - exact (Hst b lf (or_intror Hb)). }
        { intros b c Hb Hc. exact (Hfg b c (or_intror Hb) (or_intror Hc)). }
        exists nd1. rewrite E1. split; [reflexivity|]. split; [|split; [|split]].
        * intros p v Ep. apply P1. rewrite nodes_get_put. destruct (N.eqb_spec p (f a)) as [->|_]; [congruence|exact Ep].
        * intros b [<-|Hb]; [|exact (P3 b Hb)]. rewrite (P1 (f a) (gh a, full)); [discriminate|].
          rewrite nodes_get_put, N.eqb_refl. reflexivity.
        * intros p w Ep. destruct (P4 p w Ep) as [Hold|(b & Hb & Eb)].
          -- rewrite nodes_get_put in Hold. destruct (N.eqb_spec p (f a)) as [->|_].
             ++ injection Hold as <-. right. exists a. split; [left; reflexivity|auto].
             ++ left. exact Hold.
          -- right. exists b. split; [right; exact Hb|exact Eb].
        * intros Hn. apply P5. apply NoDup_nodes_put, Hn.
  Qed.

  Lemma trim_all n rows : forall l, (forall p, In p l -> inForest p n rows = true) -> trimProofPos n rows l = l.
  Proof.
    induction l as [|p l IH]; intros Hall; [reflexivity|]. cbn [trimProofPos].
    rewrite (Hall p (or_introl eq_refl)), IH; [reflexivity|]. intros q Hq. apply Hall. right. exact Hq.
  Qed.

  Lemma known_app_or (V : nat -> N -> H -> bool -> Prop) (RT : nat -> N -> Prop) (A B : list H) r o :
    known V RT (A ++ B) r o -> known V RT A r o \/ known V RT B r o.
  Proof.
    intros Hk. induction Hk as [r o h Hv Hh|r o _ IH Hn].
    - apply in_app_or in Hh as [Hh|Hh]; [left|right]; exact (kn_leaf _ _ _ _ _ h Hv Hh).
    - destruct IH as [IH|IH]; [left|right]; apply kn_up; assumption.
  Qed.
End FillGeneric.

(** a state that stores every node: a witness for the hypotheses of Proofs/MapMutPrune.v *)
Section Witness.
  Variable H : Type.
  Variable HO : ops H.
  Hypothesis HOK : ops_ok HO.

  Definition wit_nodes (T : N) (s : slots H) : list (N * (H * bool)) :=
    map (fun x : node H => (gp T (nrow x) (noff x), (nhash x, true))) (layout HO s).

  Lemma Inv_witness (s : slots H) T fl : N.of_nat (length s) <= 2 ^ 63 ->
    TreeRows (N.of_nat (length s)) <= T -> T <= 63 ->
    MapMutPrune.Inv H HO s [] (mkM (wit_nodes T s) [] (N.of_nat (length s)) T fl).
  Proof.
    intros Hn HTlo HT. split.
    - constructor; cbn [ms_n ms_total ms_nodes ms_cached]; try assumption; try reflexivity.
      + intros p h b Hin. unfold wit_nodes in Hin. apply in_map_iff in Hin as (x & E & Hx).
        injection E as <- <- _. exists (nrow x), (noff x). split; [reflexivity|].
        apply thash_some. exists x. split; [apply tnode_in, Hx|reflexivity].
      + intros h [].
      + intros h p [].
      + intros x Hx _. unfold stored. cbn [ms_nodes].
        apply (In_nodes_get H (gp T (nrow x) (noff x)) (nhash x, true)). unfold wit_nodes.
        apply in_map_iff. exists x. auto.
      + intros ts0 E. cbn [find_leaves] in E. injection E as <-. intros x [].
      + intros ts0 E. cbn [find_leaves] in E. injection E as <-. intros c [].
    - intros h x [].
  Qed.
End Witness.

Section UndoDelEnd.
  Variable H : Type.
  Variable HO : ops H.
  Hypothesis HOK : ops_ok HO.
  Hypothesis Hh2 : forall x y, op_eqb HO (op_hash2 HO x y) (op_empty HO) = false.
  Variable full : bool.
  Variable T : N.
  Hypothesis HT : T <= 63.
  Variable s : slots H.
  Hypothesis HnT : N.of_nat (length s) <= 2 ^ T.
  Hypothesis Hnd : NoDup (live s).
  Hypothesis Hlv : leaves_ok H HO s.
  Variables (hs : list H) (tsn : list (node H)).
  Hypothesis Hndh : NoDup hs.
  Hypothesis Hts : find_leaves HO (layout HO s) hs = Some tsn.
  Notation lay := (layout HO s).
  Notation n := (N.of_nat (length s)).
  Notation tr := (TreeRows (N.of_nat (length s))).
  Notation Rw := (rows_of (num_leaves s)).
  Notation gpx := (fun x : node H => gp T (nrow x) (noff x)).
  Notation ts := (map (npos Rw) tsn).
  Notation K := (known_set lay tsn).
  Notation PC := (proof_coords lay tsn).
  Notation SC := (sort_coords Rw (proof_coords lay tsn)).
  Notation pf := (canon_proof_hashes HO Rw lay tsn).
  Notation fposT := (fun e : N * (nat * N) => gp T (fst (snd e)) (snd (snd e))).
  Notation ghash := (fun e : N * (nat * N) =>
                       match find_coord lay (fst (snd e)) (snd (snd e)) with
                       | Some x => nhash x | None => op_empty HO end).

  Let n63 : n <= 2 ^ 63.
  Proof. assert (2 ^ T <= 2 ^ 63) by (apply UtilsGeom.pow2_le; exact HT). lia. Qed.
  Let Tlo : tr <= T.
  Proof. apply TreeRows_le_iff. exact HnT. Qed.
  Let tr63 : tr <= 63.
  Proof. apply TreeRows_le_63. exact n63. Qed.
  Let Wit := Inv_witness H HO s T full n63 Tlo HT.
  Let Hlay : forall x, In x tsn -> In x lay := proj1 (cc_find_leaves_facts HO s hs tsn HOK Hndh Hts).
  Let Hleaf : forall x, In x tsn -> nleaf x = true :=
    proj1 (proj2 (cc_find_leaves_facts HO s hs tsn HOK Hndh Hts)).
  Let Hndt : NoDup tsn := proj1 (proj2 (proj2 (cc_find_leaves_facts HO s hs tsn HOK Hndh Hts))).
  Let Ehs : map (@nhash H) tsn = hs :=
    proj1 (proj2 (proj2 (proj2 (cc_find_leaves_facts HO s hs tsn HOK Hndh Hts)))).
  Let Kv := Vlay_ok H HO s T HnT HT.

  Lemma ude_pc_node c : In c PC -> exists sb, In sb lay /\ nrow sb = fst c /\ noff sb = snd c /\
    find_coord lay (fst c) (snd c) = Some sb.
  Proof. exact (MapMutPrune.ing_pc_node H HO HOK s T full [] _ _ Wit hs tsn Hndh Hts c). Qed.

  Lemma ude_translate x : In x lay -> translatePos (gp tr (nrow x) (noff x)) tr T = gpx x.
  Proof. exact (MapMutPrune.ing_translate H HO s T full [] _ _ Wit x). Qed.

  Lemma ude_valid x : In x lay -> N.of_nat (nrow x) <= T /\ noff x < 2 ^ (T - N.of_nat (nrow x)).
  Proof. exact (MapMutRemove.ng_valid H HO s T n63 Tlo HT x). Qed.

  Lemma ude_gpx_inj x y : In x lay -> In y lay -> gpx x = gpx y -> x = y.
  Proof. exact (MapMutRemove.ng_inj H HO s T n63 Tlo HT x y). Qed.

  (** the proof positions of [undoDeletion] *)
  Lemma ude_proofpos :
    (let '(pp0, _) := ProofPositions_fast (sortN ts) n tr in
     if tr =? T then pp0 else translatePositions (trimProofPos n tr pp0) tr T) = map fposT SC.
  Proof.
    rewrite ProofPositions_fast_eq, (MapMutPrune.ing_ts H s tsn).
    destruct (pp_canon H HO s tr n63 (N.le_refl _) tr63 tsn Hlay Hleaf Hndt) as [ds Epp]. rewrite Epp.
    assert (Hnode : forall e, In e SC -> exists sb, In sb lay /\ nrow sb = fst (snd e) /\ noff sb = snd (snd e)).
    { intros e He. apply RefTheory.sort_coords_In in He as (c & Hc & ->). cbn [fst snd].
      destruct (ude_pc_node c Hc) as (sb & A & B & C & _). exists sb. auto. }
    destruct (N.eqb_spec tr T) as [E|E].
    - apply map_ext. intros e. rewrite E. reflexivity.
    - rewrite trim_all.
      + unfold translatePositions. rewrite map_map. apply map_ext_in. intros e He.
        destruct (Hnode e He) as (sb & Hsb & Er & Eo). rewrite <- Er, <- Eo. exact (ude_translate sb Hsb).
      + intros p Hp. apply in_map_iff in Hp as (e & <- & He). destruct (Hnode e He) as (sb & Hsb & Er & Eo).
        rewrite <- Er, <- Eo.
        destruct (MapMutRemove.ng_valid_min H HO s T n63 Tlo HT sb Hsb) as [A B].
        apply (inForest_spec tr _ _ n tr63 A B).
        exact (Vlay_bound H HO s _ _ _ _ (node_Vlay H HO s sb Hsb)).
  Qed.

  Lemma ude_tts : (if tr =? T then ts else translatePositions ts tr T) = map gpx tsn.
  Proof.
    rewrite (MapMutPrune.ing_ts H s tsn). destruct (N.eqb_spec tr T) as [E|E].
    - rewrite E. reflexivity.
    - unfold translatePositions. rewrite map_map. apply map_ext_in. intros x Hx. exact (ude_translate x (Hlay x Hx)).
  Qed.

  Lemma ude_pf : pf = map ghash SC.
  Proof. reflexivity. Qed.

  (** the state after the nodes have been moved down *)
  Variable R' : list H.
  Variable X : nat -> N -> Prop.
  Variables (nd1 : list (N * (H * bool))) (ca1 : list (H * N)).
  Hypothesis HRdis : forall z, In z R' -> ~ In z hs.
  Hypothesis HXK : forall r o h l, X r o -> Vlay HO s r o h l -> In (r, o) K.
  Hypothesis W1 : WInvX (Vlay HO s) (RTlay HO s) R' T X nd1 ca1.
  Hypothesis HU1 : Unode H HO T s nd1.

  Lemma ude_K_not_pc c : In c PC -> ~ In c K.
  Proof. intros Hc. apply RefTheory.proof_coords_In in Hc as (d & _ & _ & Hn & ->). exact Hn. Qed.

  Theorem undoDeletion_end :
    exists nd3 ca3,
      (let '(pp0, _) := ProofPositions_fast (sortN ts) n tr in
       let proofPos := if tr =? T then pp0 else translatePositions (trimProofPos n tr pp0) tr T in
       let ogiven := if Nat.eqb (length proofPos) (length pf) then Some pf
                     else if full then Some (map (fun _ => op_empty HO) proofPos) else None in
       match ogiven with
       | None => None
       | Some given =>
           match ud_fill full 0 proofPos given nd1 with
           | None => None
           | Some (nd2, proof') =>
               match calculateHashes HO true n (Some hs) ts proof' with
               | Ok (newhnp, _, _) =>
                   let l := if tr =? T then newhnp
                            else sortK (map (fun e => (translatePos (fst e) tr T, snd e)) newhnp) in
                   let tts := if tr =? T then ts else translatePositions ts tr T in
                   Some (put_calculated HO full tts l (nd2, ca1))
               | _ => None
               end
           end
       end) = Some (nd3, ca3) /\
      WInvX (Vlay HO s) (RTlay HO s) (R' ++ hs) T noX nd3 ca3.
  Proof.
    pose proof ude_proofpos as Epp.
    destruct (ProofPositions_fast (sortN ts) n tr) as [pp0 dd]. cbv zeta. rewrite Epp.
    replace (Nat.eqb (length (map fposT SC)) (length pf)) with true
      by (rewrite ude_pf, !map_length; symmetry; apply Nat.eqb_refl).
    (* the fill *)
    assert (Hpcv : forall e, In e SC -> exists sb, In sb lay /\ fposT e = gpx sb /\ ghash e = nhash sb /\
                     In (nrow sb, noff sb) PC).
    { intros e He. apply RefTheory.sort_coords_In in He as (c & Hc & ->). cbn [fst snd].
      destruct (ude_pc_node c Hc) as (sb & A & B & C & D). exists sb. rewrite D, B, C.
      split; [exact A|]. split; [reflexivity|]. split; [reflexivity|]. destruct c; exact Hc. }
    destruct (ud_fill_spec H fposT ghash full SC [] nd1) as (nd2 & Ef & F1 & F3 & F4 & F5).
    { intros e lf He Ev. destruct (Hpcv e He) as (sb & Hsb & Ep & Eg & Hpc). rewrite Eg.
      rewrite Ep in Ev. destruct lf as [h b].
      destruct (w_true W1 _ _ _ (nodes_get_In H _ _ _ Ev)) as (r & o & Epp' & A & B & [C|(l & Hv)]);
        destruct (ude_valid sb Hsb) as [A' B']; destruct (gp_inj T _ _ _ _ A' B' A B Epp') as [<- <-].
      - exfalso. exact (ude_K_not_pc _ Hpc (HXK _ _ _ _ C (node_Vlay H HO s sb Hsb))).
      - cbn [fst]. exact (proj1 (v_fun Kv Hv (node_Vlay H HO s sb Hsb))). }
    { intros a b Ha Hb Ef'. destruct (Hpcv a Ha) as (sa & Hsa & Epa & Ega & _).
      destruct (Hpcv b Hb) as (sb & Hsb & Epb & Egb & _). rewrite Ega, Egb.
      rewrite Epa, Epb in Ef'. rewrite (ude_gpx_inj sa sb Hsa Hsb Ef'). reflexivity. }
    cbn [length app] in Ef. rewrite ude_pf, Ef.
    (* the calculation *)
    destruct (MapMutPrune.ing_calc H HO HOK Hh2 s (fun h Hh => proj1 (Hlv h Hh)) T full [] _ _ Wit hs tsn Hndh Hts)
      as (inter & cands & rows & Ec & I1 & I2).
    fold pf in Ec. rewrite ude_pf in Ec. rewrite Ec.
    pose proof (MapMutPrune.ing_l H HO s T full [] _ _ Wit tsn inter I1 I2) as [L1 L2].
    rewrite (N.eqb_sym T tr) in L1, L2.
    set (lL := if tr =? T then inter else sortK (map (fun e : hp H => (translatePos (fst e) tr T, snd e)) inter)) in *.
    rewrite ude_tts.
    destruct (put_calculated HO full (map gpx tsn) lL (nd2, ca1)) as [nd3 ca3] eqn:Epc.
    exists nd3, ca3. split; [apply f_equal; exact Epc|].
    destruct (MapMutPrune.put_calc_spec H HO HOK full _ lL nd2 ca1 nd3 ca3 Epc) as (Q1 & Q2 & Q3 & Q4 & Q5 & Q6).
    pose proof (put_calculated_nodup H HO full (map gpx tsn) lL (nd2, ca1) (F5 (w_nodup W1))) as Hnd3.
    rewrite Epc in Hnd3. cbn [fst] in Hnd3.
    (* positions of the recomputed nodes *)
    assert (HinL : forall p, In p (map fst lL) <-> exists x, In x lay /\ In (nrow x, noff x) K /\ p = gpx x).
    { intros p. split.
      - intros Hp. apply in_map_iff in Hp as (e & <- & He). destruct (L1 e He) as (x & Hx & Ep & _ & Hk). exists x. auto.
      - intros (x & Hx & Hk & ->). apply in_map_iff. exists (gpx x, nhash x). split; [reflexivity|exact (L2 x Hx Hk)]. }
    assert (HgetL : forall x, In x lay -> In (nrow x, noff x) K ->
              nodes_get nd3 (gpx x) = Some (nhash x, full || memN (gpx x) (map gpx tsn))).
    { intros x Hx Hk. destruct (Q2 (gpx x) (proj2 (HinL _) (ex_intro _ x (conj Hx (conj Hk eq_refl))))) as (h & Hh & Eg).
      rewrite Eg. destruct (L1 _ Hh) as (y & Hy & Ep & Eh & _). cbn [fst snd] in Ep, Eh.
      rewrite (ude_gpx_inj x y Hx Hy Ep), Eh. reflexivity. }
    assert (HmemT : forall x, In x lay -> (memN (gpx x) (map gpx tsn) = true <-> In x tsn)).
    { intros x Hx. rewrite RefTheory.memN_In, in_map_iff. split.
      - intros (t & Et & Ht). rewrite (ude_gpx_inj x t Hx (Hlay t Ht) (eq_sym Et)). exact Ht.
      - intros Ht. exists x. auto. }
    (* a stored position that was not recomputed *)
    assert (Hkeep : forall y, In y lay -> ~ In (nrow y, noff y) K -> nodes_get nd3 (gpx y) = nodes_get nd2 (gpx y)).
    { intros y Hy Hnk. apply Q1. intros Hin. apply HinL in Hin as (x & Hx & Hk & Ep).
      rewrite (ude_gpx_inj y x Hy Hx Ep) in Hnk. exact (Hnk Hk). }
    assert (Hst23 : forall p, nodes_get nd2 p <> None -> nodes_get nd3 p <> None).
    { intros p Hs. destruct (in_dec N.eq_dec p (map fst lL)) as [Hin|Hnin].
      - destruct (Q2 p Hin) as (h & _ & ->). discriminate.
      - rewrite (Q1 p Hnin). exact Hs. }
    assert (HtsnK : forall t, In t tsn -> In (nrow t, noff t) K).
    { intros t Ht. exact (RefTheory.known_set_target H lay tsn t Ht). }
    assert (Hleaf_hs : forall y, In y lay -> nleaf y = true -> In (nhash y) hs -> In y tsn).
    { intros y Hy Ly Hh. rewrite <- Ehs in Hh. apply in_map_iff in Hh as (t & Et & Ht).
      rewrite (live_leaf_unique H HO s y t Hnd Hy (Hlay t Ht) Ly (Hleaf t Ht) (eq_sym Et)). exact Ht. }
    constructor.
    - exact Hnd3.
    - (* truth *)
      intros p h b Hin. apply (nodes_get_In_iff H _ _ _ Hnd3) in Hin.
      destruct (in_dec N.eq_dec p (map fst lL)) as [HinL'|Hnin].
      + apply HinL in HinL' as (x & Hx & Hk & ->). rewrite (HgetL x Hx Hk) in Hin. injection Hin as <- _.
        destruct (ude_valid x Hx) as [A B]. exists (nrow x), (noff x). repeat split; try assumption.
        right. exists (nleaf x). apply node_Vlay, Hx.
      + rewrite (Q1 p Hnin) in Hin. destruct (F4 p (h, b) Hin) as [E1|(e & He & -> & Ev)].
        * destruct (w_true W1 _ _ _ (nodes_get_In H _ _ _ E1)) as (r & o & -> & A & B & [C|(lv & Hv)]).
          -- exfalso. destruct (HU1 _ _ E1) as (r' & o' & h' & l' & Ep & Hv).
             destruct (v_valid Kv Hv) as [A' B']. destruct (gp_inj T _ _ _ _ A B A' B' Ep) as [<- <-].
             destruct (Vlay_node H HO s _ _ _ _ Hv) as (y & Hy & Ecy & _). injection Ecy as <- <-.
             apply Hnin, HinL. exists y. split; [exact Hy|]. split; [exact (HXK _ _ _ _ C Hv)|reflexivity].
          -- exists r, o. repeat split; try assumption. right. exists lv. exact Hv.
        * injection Ev as -> ->. destruct (Hpcv e He) as (sb & Hsb & Ep & Eg & _).
          destruct (ude_valid sb Hsb) as [A B]. exists (nrow sb), (noff sb). rewrite Ep, Eg.
          repeat split; try assumption. right. exists (nleaf sb). apply node_Vlay, Hsb.
    - (* the cached hashes *)
      intros h. rewrite in_app_iff. split.
      + intros [Hh|Hh]; [apply Q5, (w_cR W1), Hh|].
        rewrite <- Ehs in Hh. apply in_map_iff in Hh as (t & <- & Ht).
        apply (Q6 (gpx t) (nhash t)); [exact (L2 t (Hlay t Ht) (HtsnK t Ht))|].
        apply (HmemT t (Hlay t Ht)). exact Ht.
      + intros Hh. apply in_map_iff in Hh as ([h' p] & Eh & Hin). cbn [fst] in Eh. subst h'.
        destruct (Q4 h p Hin) as [Hc|[Hl Hm]].
        * left. apply (w_cR W1). apply in_map_iff. exists (h, p). auto.
        * right. destruct (L1 _ Hl) as (x & Hx & Ep & Eh & _). cbn [fst snd] in Ep, Eh. subst p h.
          apply (HmemT x Hx) in Hm. rewrite <- Ehs. apply in_map, Hm.
    - (* the cached positions *)
      intros h p Hin. destruct (Q4 h p Hin) as [Hc|[Hl Hm]]; [exact (w_cpos W1 _ _ Hc)|].
      destruct (L1 _ Hl) as (x & Hx & Ep & Eh & _). cbn [fst snd] in Ep, Eh. subst p h.
      apply (HmemT x Hx) in Hm. exists (nrow x), (noff x). split; [|reflexivity].
      exists x. repeat split; auto.
    - (* the remembered leaves carry the flag *)
      intros r o h Hv Hh _. destruct (Vlay_node H HO s _ _ _ _ Hv) as (y & Hy & Ecy & Ehy & Ly). injection Ecy as <- <-.
      apply in_app_or in Hh as [Hh|Hh].
      + assert (Hnk : ~ In (nrow y, noff y) K).
        { intros Hk. pose proof (MapMutPrune.ing_leaf_target H HO HOK s T full [] _ _ Wit hs tsn Hndh Hts y Hy Ly Hk) as Ht.
          apply (HRdis h Hh). rewrite <- Ehs, <- Ehy. apply in_map, Ht. }
        rewrite (Hkeep y Hy Hnk). apply F1. apply (w_tgt W1 _ _ _ Hv Hh).
        intros C. exact (Hnk (HXK _ _ _ _ C Hv)).
      + rewrite <- Ehy in Hh. pose proof (Hleaf_hs y Hy Ly Hh) as Ht.
        rewrite (HgetL y Hy (HtsnK y Ht)), (proj2 (HmemT y Hy) Ht), orb_true_r, Ehy. reflexivity.
    - (* the siblings *)
      intros r o Hk Hn h l Hv _. destruct (Vlay_node H HO s _ _ _ _ Hv) as (z & Hz & Ecz & _). injection Ecz as Ezr Ezo.
      assert (Hdec : forall a b : nat * N, {a = b} + {a <> b}) by (decide equality; [apply N.eq_dec|apply Nat.eq_dec]).
      destruct (in_dec Hdec (nrow z, noff z) K) as [HzK|HzK].
      + rewrite <- Ezr, <- Ezo. rewrite (HgetL z Hz HzK). discriminate.
      + assert (Hz2 : nodes_get nd2 (gpx z) <> None).
        { destruct (known_app_or H _ _ _ _ _ _ Hk) as [Hk1|Hk2].
          - assert (Hs1 : nodes_get nd1 (gpx z) <> None).
            { rewrite Ezr, Ezo. apply (w_sibs W1 r o Hk1 Hn h l Hv). intros C. apply HzK. rewrite Ezr, Ezo. exact (HXK _ _ _ _ C Hv). }
            destruct (nodes_get nd1 (gpx z)) as [v|] eqn:E1; [|congruence]. rewrite (F1 _ _ E1). discriminate.
          - pose proof (known_in_set H HO HOK s n63 Hnd hs tsn Hts r o Hk2) as HroK.
            assert (Hpc : In (nrow z, noff z) PC).
            { apply RefTheory.proof_coords_In. exists (r, o). split; [exact HroK|].
              split; [exact (proj1 (not_root_coord H HO s r o) Hn)|]. unfold sib_coord. cbn [fst snd].
              rewrite Ezr, Ezo in HzK |- *. split; [exact HzK|reflexivity]. }
            pose proof (F3 (pos Rw (nrow z) (noff z), (nrow z, noff z))) as Hf. cbn [fst snd] in Hf. apply Hf.
            apply RefTheory.sort_coords_In. exists (nrow z, noff z). split; [exact Hpc|reflexivity]. }
        rewrite <- Ezr, <- Ezo. exact (Hst23 _ Hz2).
  Qed.
End UndoDelEnd.

(** the loops of [getRootsAfterDel], generically *)
Section GradLoop.
  Variable H : Type.
  Variable HO : ops H.
  Variable A : Type.
  Variable posf : A -> N.

  Lemma set_nth_mid (x : H) : forall pre y rest,
    set_nth (length pre) x (pre ++ y :: rest) = Some (pre ++ x :: rest).
  Proof.
    induction pre as [|a pre IH]; intros y rest; [reflexivity|].
    cbn [length app set_nth]. rewrite IH. reflexivity.
  Qed.

  Lemma grad_inner_spec d : forall (F : list A) (g : A -> H) (pre : list H),
    grad_inner HO d (length pre) (map posf F) (pre ++ map g F) =
      Some (pre ++ map (fun e => if d =? posf e then op_empty HO else g e) F).
  Proof.
    induction F as [|a F IH]; intros g pre; cbn [map grad_inner]; [reflexivity|].
    destruct (d =? posf a) eqn:E.
    - rewrite set_nth_mid.
      replace (pre ++ op_empty HO :: map g F) with ((pre ++ [op_empty HO]) ++ map g F)
        by (rewrite <- app_assoc; reflexivity).
      replace (S (length pre)) with (length (pre ++ [op_empty HO])) by (rewrite app_length; cbn [length]; lia).
      rewrite IH, <- app_assoc. reflexivity.
    - replace (pre ++ g a :: map g F) with ((pre ++ [g a]) ++ map g F)
        by (rewrite <- app_assoc; reflexivity).
      replace (S (length pre)) with (length (pre ++ [g a])) by (rewrite app_length; cbn [length]; lia).
      rewrite IH, <- app_assoc. reflexivity.
  Qed.

  Lemma grad_fold_spec : forall (ds : list N) (F : list A) (g : A -> H),
    fold_left (fun acc d => match acc with
                            | Some roots => grad_inner HO d 0 (map posf F) roots
                            | None => None
                            end) ds (Some (map g F)) =
    Some (map (fun e => if memN (posf e) ds then op_empty HO else g e) F).
  Proof.
    induction ds as [|d ds IH]; intros F g; cbn [fold_left memN]; [reflexivity|].
    pose proof (grad_inner_spec d F g []) as E. cbn [length app] in E. rewrite E, IH.
    f_equal. apply map_ext. intros e. rewrite (N.eqb_sym (posf e) d).
    destruct (d =? posf e); cbn [orb]; [destruct (memN (posf e) ds); reflexivity|reflexivity].
  Qed.
End GradLoop.

(** * Part 4: the whole of [undoDeletion] *)
Section UndoDel.
  Variable H : Type.
  Variable HO : ops H.
  Hypothesis HOK : ops_ok HO.
  Hypothesis Hh2 : forall x y, op_eqb HO (op_hash2 HO x y) (op_empty HO) = false.
  Variable full : bool.
  Variable T : N.
  Hypothesis HT : T <= 63.
  Variable s : slots H.
  Hypothesis HnT : N.of_nat (length s) <= 2 ^ T.
  Hypothesis Hnd : NoDup (live s).
  Hypothesis Hlv : leaves_ok H HO s.
  Variables (hs : list H) (tsn : list (node H)).
  Hypothesis Hndh : NoDup hs.
  Hypothesis Hts : find_leaves HO (layout HO s) hs = Some tsn.
  Notation lay := (layout HO s).
  Notation n := (N.of_nat (length s)).
  Notation tr := (TreeRows (N.of_nat (length s))).
  Notation Rw := (rows_of (num_leaves s)).
  Notation gpx := (fun x : node H => gp T (nrow x) (noff x)).
  Notation K := (known_set lay tsn).
  Notation under := MapMutRemove.under.

  Let n63 : n <= 2 ^ 63.
  Proof. assert (2 ^ T <= 2 ^ 63) by (apply UtilsGeom.pow2_le; exact HT). lia. Qed.
  Let Tlo : tr <= T.
  Proof. apply TreeRows_le_iff. exact HnT. Qed.
  Let Hlay : forall x, In x tsn -> In x lay := proj1 (cc_find_leaves_facts HO s hs tsn HOK Hndh Hts).
  Let Hleaf : forall x, In x tsn -> nleaf x = true :=
    proj1 (proj2 (cc_find_leaves_facts HO s hs tsn HOK Hndh Hts)).
  Let Hndt : NoDup tsn := proj1 (proj2 (proj2 (cc_find_leaves_facts HO s hs tsn HOK Hndh Hts))).
  Let Ehs : map (@nhash H) tsn = hs :=
    proj1 (proj2 (proj2 (proj2 (cc_find_leaves_facts HO s hs tsn HOK Hndh Hts)))).

  (** a node above a target is in the known set *)
  Lemma anc_in_K z w : In z lay -> In w tsn -> under (coord z) (coord w) -> In (nrow z, noff z) K.
  Proof.
    intros Hz Hw U. pose proof (Hlay w Hw) as Hwl.
    pose proof (MapMutRemove.ng_same_tree H HO s z w Hz Hwl U) as Et.
    pose proof (node_row_le_tree H HO s z Hz) as Hzt.
    assert (Hj : forall j : nat, (nrow w + j <= nrow z)%nat ->
              known (Vlay HO s) (RTlay HO s) hs (nrow w + j)%nat (noff w / 2 ^ N.of_nat j)).
    { induction j as [|j IH]; intros Hle.
      - rewrite Nat.add_0_r. change (N.of_nat 0) with 0. rewrite N.pow_0_r, N.div_1_r.
        apply (kn_leaf _ _ _ _ _ (nhash w)).
        + rewrite <- (Hleaf w Hw). apply node_Vlay, Hwl.
        + rewrite <- Ehs. apply in_map, Hw.
      - specialize (IH ltac:(lia)).
        replace (nrow w + S j)%nat with (S (nrow w + j)) by lia.
        replace (noff w / 2 ^ N.of_nat (S j)) with (noff w / 2 ^ N.of_nat j / 2).
        2:{ rewrite Nat2N.inj_succ, N.pow_succ_r', N.div_div by (try apply N.pow_nonzero; lia).
            f_equal. lia. }
        apply kn_up; [exact IH|]. intros (y & Hy & Ry & Er & Eo).
        apply (root_iff_row H HO s y Hy) in Ry.
        assert (Uy : under (coord y) (coord w)).
        { unfold coord. rewrite Er, Eo. apply anc_under0. }
        pose proof (MapMutRemove.ng_same_tree H HO s y w Hy Hwl Uy) as Ety. lia. }
    destruct U as [U1 U2]. unfold coord in U1, U2. cbn [fst snd] in U1, U2.
    specialize (Hj (nrow z - nrow w)%nat ltac:(lia)).
    replace (nrow w + (nrow z - nrow w))%nat with (nrow z) in Hj by lia.
    unfold p2 in U2. rewrite U2 in Hj.
    exact (known_in_set H HO HOK s n63 Hnd hs tsn Hts _ _ Hj).
  Qed.

  Lemma del_leaf w : In w lay -> nleaf w = true -> (In (nhash w) hs <-> In w tsn).
  Proof.
    intros Hw Lw. split.
    - intros Hh. rewrite <- Ehs in Hh. apply in_map_iff in Hh as (t & Et & Ht).
      rewrite (live_leaf_unique H HO s w t Hnd Hw (Hlay t Ht) Lw (Hleaf t Ht) (eq_sym Et)). exact Ht.
    - intros Hx. rewrite <- Ehs. apply in_map, Hx.
  Qed.

  (** the sorted targets and what [deTwin] makes of them *)
  Lemma dt_setup : exists ls ys,
    sortN (map (npos Rw) tsn) = map (npos Rw) ls /\ (forall x, In x ls -> In x lay) /\
    StronglySorted N.lt (map gpx ls) /\ MapMutRemove.detwinned H HO s T tsn ls ys.
  Proof.
    (* the sorted targets *)
    assert (Hp2 : Permutation (sortN (map (npos Rw) tsn)) (map (npos Rw) tsn)) by apply pps_sortN_perm.
    destruct (Permutation_map_inv _ _ Hp2) as (ls & Els & Pls).
    assert (Hls : forall x, In x ls -> In x lay).
    { intros x Hx. apply (Permutation_in _ (Permutation_sym Pls)) in Hx. apply Hlay, Hx. }
    assert (Sls : StronglySorted (MapMutRemove.npl H s) ls).
    { apply (MapMutRemove.sorted_nodes H HO s ls); [exact Hls|exact (Permutation_NoDup Pls Hndt)|].
      rewrite <- Els. apply pps_sortN_sorted. }
    destruct (MapMutRemove.detwinned_general H HO s T n63 Tlo HT tsn ls Pls Sls (fun x Hx => conj (Hlay x Hx) (Hleaf x Hx)))
      as (ys & Edt & Hys & Hcover & Hfop).
    assert (SSl : StronglySorted N.lt (map gpx ls)).
    { clear - Sls Hls n63 Tlo HT. induction Sls as [|a l S IH Hall]; [constructor|].
      cbn [map]. constructor; [apply IH; intros x Hx; apply Hls; right; exact Hx|].
      rewrite Forall_forall in *. intros p Hp. apply in_map_iff in Hp as (b & <- & Hb).
      exact (proj1 (MapMutRemove.npl_rows H HO s T n63 Tlo HT a b (Hls a (or_introl eq_refl))
                      (Hls b (or_intror Hb)) (Hall b Hb))). }
    exists ls, ys. split; [exact Els|]. split; [exact Hls|]. split; [exact SSl|].
    split; [exact Edt|]. split; [exact Hys|]. split; [exact Hcover|exact Hfop].
  Qed.

  Theorem undoDeletion_ok (R : list H) (nd : list (N * (H * bool))) (ca : list (H * N)) :
    (forall z, In z R -> In (Some z) (kill HO hs s)) ->
    WInvX (Vlay HO (kill HO hs s)) (RTlay HO (kill HO hs s)) R T noX nd ca ->
    Unode H HO T (kill HO hs s) nd ->
    exists nd3 ca3,
      undoDeletion HO n T full (map (npos Rw) tsn) (canon_proof_hashes HO Rw lay tsn) hs (nd, ca) = Some (nd3, ca3) /\
      WInvX (Vlay HO s) (RTlay HO s) (R ++ hs) T noX nd3 ca3.
  Proof.
    intros HR W HU.
    destruct dt_setup as (ls & ys & Els & Hls & SSl & Edt & Hys & Hcover & Hfop).
    assert (Etrl : forall x, In x lay -> translatePos (gp tr (nrow x) (noff x)) tr T = gpx x).
    { exact (ude_translate H HO full T HT s HnT). }
    assert (Epos : (if tr =? T then sortN (map (npos Rw) tsn)
                    else sortN (translatePositions (sortN (map (npos Rw) tsn)) tr T)) = map gpx ls).
    { rewrite Els, (MapMutPrune.ing_ts H s ls). destruct (N.eqb_spec tr T) as [E|E].
      - rewrite E. reflexivity.
      - unfold translatePositions. rewrite map_map.
        rewrite (map_ext_in _ gpx ls) by (intros x Hx; exact (Etrl x (Hls x Hx))).
        apply sortN_SSlt. exact SSl. }
    (* the loop *)
    destruct (movedown_ok H HO HOK Hh2 full T HT ys s HnT Hnd Hlv (fun y Hy => proj1 (Hys y Hy)) Hfop)
      as (Lt & Hspec & Hmd).
    assert (Hdel_leaf : forall w, In w lay -> nleaf w = true -> (memH HO (nhash w) hs = true <-> In w tsn)).
    { intros w Hw Lw. rewrite (memH_In H HO HOK). split.
      - intros Hh. rewrite <- Ehs in Hh. apply in_map_iff in Hh as (t & Et & Ht).
        rewrite (live_leaf_unique H HO s w t Hnd Hw (Hlay t Ht) Lw (Hleaf t Ht) (eq_sym Et)). exact Ht.
      - intros Hx. rewrite <- Ehs. apply in_map, Hx. }
    assert (Ememb : forall h, In (Some h) s -> memH HO h Lt = memH HO h hs).
    { intros h Hh. destruct (live_leaf_in_layout H HO s h Hh) as (w & Hw & Lw & <-).
      pose proof (Hspec w Hw Lw) as S1. pose proof (Hcover w Hw Lw) as S2.
      pose proof (Hdel_leaf w Hw Lw) as S3.
      destruct (memH HO (nhash w) Lt), (memH HO (nhash w) hs); try reflexivity.
      - assert (In w tsn) by (apply S2, S1; reflexivity). assert (false = true) by (apply S3; assumption). discriminate.
      - assert (In w tsn) by (apply S3; reflexivity). assert (false = true) by (apply S1, S2; assumption). discriminate. }
    rewrite (MapMutRemove.kill_ext H HO Lt hs s Ememb) in Hmd.
    destruct (Hmd R nd ca HR W HU) as ([nd1 ca1] & Emd & W1 & HU1). cbn [fst snd] in W1, HU1.
    (* the exempt nodes are known *)
    assert (HXK : forall r o h l, EXall H ys r o -> Vlay HO s r o h l -> In (r, o) K).
    { intros r o h l (y & Hy & Hex) Hv. destruct (Vlay_node H HO s _ _ _ _ Hv) as (z & Hz & Ecz & _).
      injection Ecz as <- <-. destruct (Hys y Hy) as (Hyl & z' & Hz' & Lz' & Uz').
      assert (Hz't : In z' tsn) by (apply (Hcover z' Hz' Lz'); exists y; auto).
      destruct Hex as [U|[Rn U]].
      - destruct (leaf_below H HO s _ z eq_refl Hz) as [(w & Hw & Lw & Uw)|(Rz & _ & _)].
        + apply (anc_in_K z w Hz); [|exact Uw]. apply (Hcover w Hw Lw). exists y. split; [exact Hy|].
          exact (MapMutRemove.under_trans _ _ _ U Uw).
        + assert (Ezy : z = y).
          { apply (MapMutRemove.ng_coord_eq H HO s z y Hz Hyl).
            pose proof (MapMutRemove.ng_same_tree H HO s y z Hyl Hz U) as Et.
            apply (root_iff_row H HO s z Hz) in Rz. pose proof (node_row_le_tree H HO s y Hyl) as Hle.
            destruct U as [U1 U2]. unfold coord in *. cbn [fst snd] in *.
            assert (Er : nrow z = nrow y) by lia. rewrite Er, Nat.sub_diag, p2_0, N.div_1_r in U2.
            rewrite Er, U2. reflexivity. }
          rewrite Ezy. exact (anc_in_K y z' Hyl Hz't Uz').
      - apply (anc_in_K z z' Hz Hz't).
        apply (MapMutRemove.under_trans _ (S (nrow y), noff y / 2)); [exact U|].
        apply (MapMutRemove.under_trans _ (coord y)); [exact (proj2 (MapMutRemove.under_sib_par _ _))|exact Uz']. }
    assert (HRdis : forall z, In z R -> ~ In z hs).
    { intros z Hz Hin. apply HR, (MapMutRemove.kill_live H HO) in Hz as [_ Hm].
      apply (memH_In H HO HOK) in Hin. congruence. }
    destruct (undoDeletion_end H HO HOK Hh2 full T HT s HnT Hnd Hlv hs tsn Hndh Hts R (EXall H ys) nd1 ca1 HRdis HXK W1 HU1)
      as (nd3 & ca3 & Eend & W3).
    exists nd3, ca3. split; [|exact W3].
    unfold undoDeletion.
    replace (Nat.eqb (length (map (npos Rw) tsn)) (length hs)) with true
      by (rewrite <- Ehs, !map_length; symmetry; apply Nat.eqb_refl).
    cbn [negb]. cbv zeta. rewrite Epos, Edt.
    change (map gpx ys) with (map (posN H T) ys).
    match goal with |- context [ud_movedown ?a ?b ?c ?d ?e ?f] =>
      replace (ud_movedown a b c d e f) with (nd1, ca1, true) by (symmetry; exact Emd) end.
    exact Eend.
  Qed.

  (** ** the roots after the deletions, as [getRootsAfterDel] computes them *)
  Notation entry := (StumpAdd.entry H).
  Notation isN := (StumpAddData.isN H).
  Notation isE := (StumpAddData.isE H HO).
  Notation indep := MapMutRemove.indep.

  Lemma prune_none_iff' (c : ctree H) :
    RefTheory.prune HO hs c = None <-> forall h, In h (cleaves H c) -> In h hs.
  Proof.
    induction c as [h|h l IHl r IHr]; cbn [RefTheory.prune cleaves].
    - destruct (memH HO h hs) eqn:Em.
      + split; [|reflexivity]. intros _ x [<-|[]]. apply (memH_In H HO HOK), Em.
      + split; [discriminate|]. intros Hall. exfalso.
        assert (Hc : memH HO h hs = true) by (apply (memH_In H HO HOK), Hall; left; reflexivity).
        congruence.
    - destruct (RefTheory.prune HO hs l) as [l'|]; destruct (RefTheory.prune HO hs r) as [r'|]; cbn [join].
      + split; [discriminate|]. intros Hall. exfalso.
        assert (X : Some l' = None); [|discriminate]. apply IHl. intros x Hx. apply Hall, in_or_app. left. exact Hx.
      + split; [discriminate|]. intros Hall. exfalso.
        assert (X : Some l' = None); [|discriminate]. apply IHl. intros x Hx. apply Hall, in_or_app. left. exact Hx.
      + split; [discriminate|]. intros Hall. exfalso.
        assert (X : Some r' = None); [|discriminate]. apply IHr. intros x Hx. apply Hall, in_or_app. right. exact Hx.
      + split; [|reflexivity]. intros _ x Hx. apply in_app_or in Hx as [Hx|Hx];
          [apply (proj1 IHl eq_refl), Hx|apply (proj1 IHr eq_refl), Hx].
  Qed.

  (** [deTwin] goes all the way up: a node below which everything is deleted lies below one of
      the detwinned targets *)
  Lemma cover_up (ls ys : list (node H)) : MapMutRemove.detwinned H HO s T tsn ls ys ->
    forall k z, nrow z = k -> In z lay ->
      (nroot z = false \/ op_eqb HO (nhash z) (op_empty HO) = false) ->
      (forall w, In w lay -> nleaf w = true -> under (coord z) (coord w) -> In w tsn) ->
      exists y, In y ys /\ under (coord y) (coord z).
  Proof.
    intros (Edt & Hys & Hcover & Hfop).
    induction k as [k IH] using lt_wf_ind. intros z Ek Hz Hne Hall.
    destruct (node_cases H HO s _ _ z (tnode_in H HO s z Hz))
      as [r' xl xr _ Er Hxl Hxr _ _ _ Hrl Hrr|Ly _ _|Hr _ He _ _ _].
    - apply tnode_some in Hxl as (Hxlin & Exlr & Exlo). apply tnode_some in Hxr as (Hxrin & Exrr & Exro).
      assert (Uzl : under (coord z) (coord xl)).
      { unfold coord. rewrite Exlr, Exlo, Er. split; [cbn; lia|]. cbn [fst snd].
        replace (S r' - r')%nat with 1%nat by lia. change (p2 1) with 2. apply pps_div2_double. }
      assert (Uzr : under (coord z) (coord xr)).
      { unfold coord. rewrite Exrr, Exro, Er. split; [cbn; lia|]. cbn [fst snd].
        replace (S r' - r')%nat with 1%nat by lia. change (p2 1) with 2.
        rewrite N.mul_comm, N.div_add_l by lia. rewrite (N.div_small 1 2) by lia. lia. }
      destruct (IH r' ltac:(lia) xl Exlr Hxlin (or_introl Hrl)) as (y1 & Hy1 & U1).
      { intros w Hw Lw U. apply (Hall w Hw Lw). exact (MapMutRemove.under_trans _ _ _ Uzl U). }
      destruct (IH r' ltac:(lia) xr Exrr Hxrin (or_introl Hrr)) as (y2 & Hy2 & U2).
      { intros w Hw Lw U. apply (Hall w Hw Lw). exact (MapMutRemove.under_trans _ _ _ Uzr U). }
      destruct (Nat.eq_dec (nrow y1) r') as [E1|E1].
      + destruct (Nat.eq_dec (nrow y2) r') as [E2|E2].
        * exfalso.
          assert (C1 : coord y1 = (r', 2 * noff z)).
          { destruct U1 as [_ U1]. unfold coord in *. cbn [fst snd] in *.
            rewrite Exlr, E1, Nat.sub_diag, p2_0, N.div_1_r in U1. rewrite E1, <- U1, Exlo. reflexivity. }
          assert (C2 : coord y2 = (r', 2 * noff z + 1)).
          { destruct U2 as [_ U2]. unfold coord in *. cbn [fst snd] in *.
            rewrite Exrr, E2, Nat.sub_diag, p2_0, N.div_1_r in U2. rewrite E2, <- U2, Exro. reflexivity. }
          assert (Hx1 : N.lxor (2 * noff z) 1 = 2 * noff z + 1).
          { rewrite lxor_1. rewrite N.even_mul. reflexivity. }
          assert (Hx2 : N.lxor (2 * noff z + 1) 1 = 2 * noff z).
          { rewrite lxor_1.
            assert (Ev : N.even (2 * noff z + 1) = false) by (rewrite N.add_comm, N.even_add_mul_2; reflexivity).
            rewrite Ev. lia. }
          unfold coord in C1, C2.
          pose proof (f_equal fst C1) as C1r. pose proof (f_equal snd C1) as C1o.
          pose proof (f_equal fst C2) as C2r. pose proof (f_equal snd C2) as C2o.
          cbn [fst snd] in C1r, C1o, C2r, C2o.
          destruct (ForallOrdPairs_In Hfop y1 y2 Hy1 Hy2) as [E|[(_ & _ & N3 & _)|(_ & _ & N3 & _)]].
          -- rewrite E in C1o. lia.
          -- apply N3. unfold coord. rewrite C1r, C1o, C2r, C2o, Hx1. reflexivity.
          -- apply N3. unfold coord. rewrite C1r, C1o, C2r, C2o, Hx2. reflexivity.
        * exists y2. split; [exact Hy2|].
          assert (Hlt : (nrow xr < nrow y2)%nat).
          { destruct U2 as [U2 _]. unfold coord in U2. cbn [fst] in U2. lia. }
          pose proof (MapMutRemove.under_par (coord y2) (nrow xr) (noff xr) U2 Hlt) as Up.
          unfold coord at 2. rewrite Er. rewrite Exrr, Exro in Up.
          replace ((2 * noff z + 1) / 2) with (noff z) in Up; [exact Up|].
          rewrite N.mul_comm, N.div_add_l by lia. rewrite (N.div_small 1 2) by lia. lia.
      + exists y1. split; [exact Hy1|].
        assert (Hlt : (nrow xl < nrow y1)%nat).
        { destruct U1 as [U1 _]. unfold coord in U1. cbn [fst] in U1. lia. }
        pose proof (MapMutRemove.under_par (coord y1) (nrow xl) (noff xl) U1 Hlt) as Up.
        unfold coord at 2. rewrite Er. rewrite Exlr, Exlo in Up.
        replace (2 * noff z / 2) with (noff z) in Up; [exact Up|].
        rewrite N.mul_comm, N.div_mul by lia. reflexivity.
    - apply (Hcover z Hz Ly). apply (Hall z Hz Ly). apply MapMutRemove.under_refl.
    - exfalso. destruct Hne as [C|C]; [congruence|]. rewrite He in C.
      rewrite (Heqb_refl H HO HOK) in C. discriminate.
  Qed.

  (** a detwinned target above a root is the root *)
  Lemma root_top_eq x y : In x lay -> In y lay -> nroot x = true -> under (coord y) (coord x) -> y = x.
  Proof.
    intros Hx Hy Rx U. apply (MapMutRemove.ng_coord_eq H HO s y x Hy Hx).
    pose proof (MapMutRemove.ng_same_tree H HO s y x Hy Hx U) as Et.
    apply (root_iff_row H HO s x Hx) in Rx. pose proof (node_row_le_tree H HO s y Hy) as Hle.
    destruct U as [U1 U2]. unfold coord in *. cbn [fst snd] in *.
    assert (Er : nrow x = nrow y) by lia. rewrite Er, Nat.sub_diag, p2_0, N.div_1_r in U2.
    rewrite Er, U2. reflexivity.
  Qed.

  Lemma live_ok_s : StumpAdd.live_ok H HO s.
  Proof. intros h Hh. exact (proj1 (Hlv h Hh)). Qed.

  (** the previous roots, with the roots of the trees that were deleted as a whole zeroed: as to
      emptiness they are the roots after the deletions *)
  Theorem getRootsAfterDel_ok (n1 k : N) : sub64 n1 k = n ->
    exists pr, getRootsAfterDel HO n1 T k (map (npos Rw) tsn) (RootPositions n T) (roots HO s) = Some pr /\
      map (fun r => op_eqb HO r (op_empty HO)) pr = map isN (forest HO (kill HO hs s)).
  Proof.
    intros Hsub.
    destruct dt_setup as (ls & ys & Els & Hls & SSl & Dt).
    pose proof Dt as (Edt & Hys & Hcover & Hfop).
    assert (Etrl : forall x, In x lay -> translatePos (gp tr (nrow x) (noff x)) tr T = gpx x).
    { exact (ude_translate H HO full T HT s HnT). }
    assert (Etr : translatePositions (map (npos Rw) ls) tr T = map gpx ls).
    { rewrite (MapMutPrune.ing_ts H s ls). unfold translatePositions. rewrite map_map.
      apply map_ext_in. intros x Hx. exact (Etrl x (Hls x Hx)). }
    unfold getRootsAfterDel. rewrite Hsub, Els, Etr, Edt.
    rewrite (RootPositions_forest H HO T HT s HnT). unfold roots.
    eexists. split;
      [exact (grad_fold_spec H HO _ (posE H T) (map gpx ys) (forest HO s) (fun e => root_hash HO (snd e)))|].
    rewrite RefTheory.forest_kill, !map_map. apply map_ext_in. intros [[k0 lo] t] He.
    destruct (root_node H HO s k0 lo t He) as (_ & _ & _ & x & Hx & Rx & Ehx & Etx).
    apply tnode_some in Hx as (Hxl & Exr & Exo).
    assert (Epos : posE H T (k0, lo, t) = gpx x).
    { unfold posE, p2. cbn [fst snd]. rewrite Exr, Exo. reflexivity. }
    rewrite Epos.
    assert (Hmem : memN (gpx x) (map gpx ys) = true <-> In x ys).
    { rewrite RefTheory.memN_In, in_map_iff. split.
      - intros (y & Ey & Hy).
        rewrite (MapMutRemove.ng_inj H HO s T n63 Tlo HT x y Hxl (proj1 (Hys y Hy)) (eq_sym Ey)). exact Hy.
      - intros Hy. exists x. auto. }
    pose proof (roots_flags H HO HOK Hh2 s live_ok_s) as Hfl. unfold roots in Hfl. rewrite map_map in Hfl.
    pose proof (proj1 map_ext_in_iff Hfl (k0, lo, t) He) as Hfl0. cbn [snd] in Hfl0.
    unfold RefTheory.prune_entry, StumpAddData.isN in *. cbn [fst snd] in *.
    destruct t as [c|]; cbn [RefTheory.oprune root_hash] in *.
    - pose proof (forest_entry H HO s _ _ _ He) as (_ & _ & _ & _ & _ & Ht).
      destruct (compress_wf H HO _ _ _ (eq_sym Ht)) as [_ Hhc].
      assert (Hl1 : forall h, In h (cleaves H c) -> exists y, In y lay /\ nleaf y = true /\ nhash y = h /\
                      under (coord x) (coord y)).
      { intros h Hh. destruct (MapMutRemove.leaves_placed H c k0 (lo / 2 ^ N.of_nat k0) true k0 h Hhc Hh)
          as (y & Hy & Ly & Ey).
        assert (Hyl : In y lay) by exact (entry_layout H HO s (k0, lo, Some c) y He Hy).
        exists y. split; [exact Hyl|]. split; [exact Ly|]. split; [exact Ey|].
        apply (MapMutRemove.ng_tree_root H HO s x y Hxl Hyl Rx).
        rewrite (place_tree_ntree H c _ _ _ _ y Hy). symmetry. exact Etx. }
      assert (Hl2 : forall y, In y lay -> nleaf y = true -> under (coord x) (coord y) -> In (nhash y) (cleaves H c)).
      { intros y Hyl Ly U. pose proof (MapMutRemove.ng_same_tree H HO s x y Hxl Hyl U) as Et.
        destruct (layout_entry H HO s y Hyl) as (k2 & lo2 & t2 & He2 & Hy2).
        assert (Ek : k2 = k0).
        { destruct t2 as [c2|].
          - cbn [place_entry] in Hy2. rewrite <- (place_tree_ntree H c2 _ _ _ _ y Hy2). congruence.
          - cbn [place_entry] in Hy2. destruct Hy2 as [<-|[]]. cbn [ntree] in Et. congruence. }
        subst k2. destruct (forest_entry_unique H HO s k0 lo (Some c) lo2 t2 He He2) as [<- <-].
        cbn [place_entry] in Hy2.
        rewrite <- (place_tree_leaves H c k0 (lo / 2 ^ N.of_nat k0) true k0 Hhc).
        apply in_map. apply filter_In. split; [exact Hy2|exact Ly]. }
      destruct (memN (gpx x) (map gpx ys)) eqn:Em.
      + rewrite (Heqb_refl H HO HOK).
        rewrite (proj2 (prune_none_iff' c)); [reflexivity|].
        intros h Hh. destruct (Hl1 h Hh) as (y & Hyl & Ly & <- & U).
        apply (del_leaf y Hyl Ly). apply (Hcover y Hyl Ly). exists x. split; [apply Hmem; reflexivity|exact U].
      + rewrite Hfl0. destruct (RefTheory.prune HO hs c) eqn:Ep; [reflexivity|exfalso].
        pose proof (proj1 (prune_none_iff' c) Ep) as Hall.
        destruct (cover_up ls ys Dt (nrow x) x eq_refl Hxl) as (y & Hy & U).
        * right. rewrite Ehx. exact Hfl0.
        * intros w Hw Lw Uw. apply (del_leaf w Hw Lw). apply Hall. exact (Hl2 w Hw Lw Uw).
        * rewrite (root_top_eq x y Hxl (proj1 (Hys y Hy)) Rx U) in Hy.
          apply Hmem in Hy. congruence.
    - destruct (memN (gpx x) (map gpx ys)); rewrite (Heqb_refl H HO HOK); reflexivity.
  Qed.
End UndoDel.

(** [getWrittenOverEmptyRoots], given what [getRootsAfterDel] returns (the proof of
    [MapMutUndo.gwo_adds] with the roots after the deletions as a parameter) *)
Section GwoGen.
  Variable H : Type.
  Variable HO : ops H.
  Hypothesis HOK : ops_ok HO.
  Hypothesis Hh2 : forall x y, op_eqb HO (op_hash2 HO x y) (op_empty HO) = false.
  Variable T : N.
  Hypothesis HT : T <= 63.
  Variable s0 : slots H.
  Hypothesis HnT : N.of_nat (length s0) <= 2 ^ T.
  Notation entry := (StumpAdd.entry H).
  Notation isN := (StumpAddData.isN H).
  Notation gT := (gpT T).

  Theorem gwo_gen (adds : list H) (targets : list N) (P pr : list H) :
    N.of_nat (length s0) + N.of_nat (length adds) <= 2 ^ T ->
    getRootsAfterDel HO (N.of_nat (length s0) + N.of_nat (length adds)) T (N.of_nat (length adds)) targets
      (RootPositions (N.of_nat (length s0)) T) P = Some pr ->
    map (fun r => op_eqb HO r (op_empty HO)) pr = map isN (forest HO s0) ->
    getWrittenOverEmptyRoots HO (N.of_nat (length s0) + N.of_nat (length adds)) T (N.of_nat (length adds)) targets P
      = Some (erpR H HO T s0 (rev adds)).
  Proof.
    intros Hfit Egr Hfl. set (n0 := N.of_nat (length s0)) in *. set (k := N.of_nat (length adds)) in *.
    assert (H63 : n0 + k <= 2 ^ 63).
    { assert (2 ^ T <= 2 ^ 63) by (apply UtilsGeom.pow2_le; exact HT). lia. }
    assert (HW : n0 + k < W).
    { rewrite W_eq. assert (2 ^ 63 < 2 ^ 64) by (apply UtilsGeom.pow2_lt; lia). lia. }
    unfold getWrittenOverEmptyRoots.
    assert (Esub : sub64 (n0 + k) k = n0) by (rewrite sub64_small; lia). rewrite Esub.
    rewrite Egr.
    set (R := rows_of (n0 + k)).
    assert (ER : TreeRows (n0 + k) = N.of_nat R) by (unfold R; symmetry; apply StumpAddData.rows_of_TreeRows).
    assert (HR : (R <= 63)%nat).
    { assert (N.of_nat R <= 63); [|lia]. rewrite <- ER. apply TreeRows_le_63. exact H63. }
    assert (HnR : N.of_nat (length s0 + length adds) <= 2 ^ N.of_nat R).
    { rewrite <- ER. replace (N.of_nat (length s0 + length adds)) with (n0 + k) by (unfold n0, k; lia).
      apply TreeRows_upper. }
    destruct (StumpAddData.to_destroy_struct H HO Hh2 R HR adds s0 HnR) as [Hasc Hmem].
    set (D := StumpAddData.to_destroy_c H HO s0 adds) in *.
    assert (Hd0 : rootsToDestroyB HO k n0 pr = Some (map (StumpAddData.cpos R) D)).
    { unfold rootsToDestroyB. rewrite Hfl.
      destruct (existsb (fun b => b) (map isN (forest HO s0))) eqn:Eex.
      - unfold k. rewrite Nat2N.id. fold k.
        assert (Ea : add64 n0 k = n0 + k) by (unfold add64; apply wrap_small; exact HW).
        rewrite Ea, ER, <- map_rev. unfold n0.
        etransitivity; [exact (rtd_loopB_spec H HO Hh2 R HR adds s0 HnR)|].
        rewrite StumpAddData.to_destroy_coords. reflexivity.
      - assert (ED : D = []).
        { destruct D as [|d D']; [reflexivity|exfalso].
          destruct (Hmem d (or_introl eq_refl)) as [(e & He & Hn & _) _].
          assert (Ht : existsb (fun b => b) (map isN (forest HO s0)) = true).
          { apply existsb_exists. exists true. split; [|reflexivity]. apply in_map_iff. exists e.
            split; [unfold StumpAddData.isN; rewrite Hn; reflexivity|exact He]. }
          congruence. }
        rewrite ED. reflexivity. }
    rewrite Hd0, ER.
    assert (Hval : forall d, In d D -> StumpAddData.cvalid R d /\ cvalidT T d).
    { intros d Hd. destruct (Hmem d Hd) as [(e & He & _ & ->) _]. split.
      - apply (StumpAddData.ecoord_valid H HO R s0 e); [lia|exact He].
      - exact (entry_validT H HO T HT s0 HnT e He). }
    rewrite (destroyed_translate H T HT s0 HnT R D HR Hval).
    replace (RootPositions n0 T) with (map (posE H T) (forest HO s0)) by (symmetry; exact (RootPositions_forest H HO T HT s0 HnT)).
    etransitivity; [exact (gwo_loop_spec H HO entry isN (posE H T) (map gT D) (forest HO s0) pr [] Hfl)|].
    f_equal. rewrite (erpR_destroyed H HO Hh2 T HT adds s0 Hfit). fold D.
    apply gwo_desc.
    - apply (asc_SSlt T HT D 0%nat Hasc). intros d Hd. exact (proj2 (Hval d Hd)).
    - exact (forest_pos_sorted H HO T HT s0 HnT).
    - intros p Hp. apply in_map_iff in Hp as (d & <- & Hd). destruct (Hmem d Hd) as [(e & He & Hn & ->) _].
      exists e. split; [exact He|]. split; [unfold StumpAddData.isN; rewrite Hn; reflexivity|reflexivity].
  Qed.
End GwoGen.

(** * Part 6: [Undo] of a general block *)
Section UndoBlock.
  Variable H : Type.
  Variable HO : ops H.
  Hypothesis HOK : ops_ok HO.
  Hypothesis Hh2 : forall x y, op_eqb HO (op_hash2 HO x y) (op_empty HO) = false.

  Lemma WInvX_noX_Unode (s : slots H) R T nd ca :
    WInvX (Vlay HO s) (RTlay HO s) R T noX nd ca -> Unode H HO T s nd.
  Proof.
    intros W p [h b] Ev. destruct (w_true W _ _ _ (nodes_get_In H _ _ _ Ev)) as (r & o & -> & _ & _ & [[]|(l & Hv)]).
    exists r, o, h, l. auto.
  Qed.

  (** G3: undoing a block that deleted [dels] and then added [adds].  The data of the block:
      the number of additions, the canonical targets and proof of the deleted leaves in the forest
      before the block, their hashes, and the roots before the block.
      [R2] = [R1] without the added leaves, with the deleted leaves. *)
  Theorem undo_block (s : slots H) (dels adds : list H) (ts : list N) (pf : list H)
          (R1 : list H) (m1 : mstate H) :
    NoDup (live s) -> leaves_ok H HO s -> NoDup dels ->
    exp_prove HO (mk_ctx HO s) dels = Some (ts, pf) ->
    UInv HO (apply_block HO s dels adds) R1 m1 ->
    exists m2 R2, mm_undo HO m1 (N.of_nat (length adds)) ts pf dels (roots HO s) = Some m2 /\
      UInv HO s R2 m2 /\ (forall x, In x R2 <-> (In x R1 /\ ~ In x adds) \/ In x dels) /\
      ms_n m2 = N.of_nat (length s) /\ ms_total m2 = ms_total m1 /\ ms_full m2 = ms_full m1.
  Proof.
    intros Hnd Hlv Hndd Ep U. destruct U as [Un Un63 Urows UT Und Ulv Ug].
    unfold exp_prove, mk_ctx in Ep. cbn [clay crows] in Ep.
    destruct (find_leaves HO (layout HO s) dels) as [tsn|] eqn:Hts; [|discriminate].
    injection Ep as <- <-.
    set (T := ms_total m1) in *. set (sd := kill HO dels s) in *.
    unfold apply_block in *. fold sd in Un, Und, Ulv, Ug. set (s1 := sd ++ map Some adds) in *.
    assert (Eld : length sd = length s) by apply (len_kill H HO).
    assert (El1 : N.of_nat (length s1) = N.of_nat (length s) + N.of_nat (length adds)).
    { unfold s1. rewrite app_length, map_length, Eld. lia. }
    unfold num_leaves in Un.
    assert (HnT1 : N.of_nat (length s1) <= 2 ^ T) by (apply TreeRows_le_iff; rewrite <- Un; exact Urows).
    assert (HnT : N.of_nat (length s) <= 2 ^ T) by lia.
    assert (HnTd : N.of_nat (length sd) <= 2 ^ T) by (rewrite Eld; exact HnT).
    assert (Es1 : s1 = sd ++ map Some (rev (rev adds))) by (rewrite rev_involutive; reflexivity).
    pose proof (GInv_WInvX H (Vlay HO s1) (RTlay HO s1) R1 T (ms_nodes m1) (ms_cached m1)
                  (Vlay_ok H HO s1 T HnT1 UT) Ug) as W1.
    assert (HR1 : forall x, In x R1 -> In (Some x) s1).
    { intros x Hx. destruct (g_Rin Ug x Hx) as (r & o & (y & Hy & _ & _ & Eh & El)).
      rewrite <- Eh. exact (layout_leaf_live H HO s1 y Hy El). }
    pose proof HR1 as HR1'. pose proof HnT1 as HnT1'. pose proof Ulv as Ulv'.
    rewrite Es1 in HnT1', Ulv', W1, HR1'.
    destruct (undoAdd_loop_ok H HO HOK Hh2 (ms_full m1) T UT (rev adds) sd (ms_nodes m1) (ms_cached m1) R1 HnT1' Ulv' W1 HR1')
      as (nd' & ca' & R' & E & W' & HR').
    rewrite <- Es1 in E. rewrite rev_length in E.
    (* the positions of the empty roots that were written over *)
    assert (Egw : getWrittenOverEmptyRoots HO (ms_n m1) T (N.of_nat (length adds)) (map (npos (rows_of (num_leaves s))) tsn)
                    (roots HO s) = Some (erpR H HO T sd (rev adds))).
    { rewrite Un, El1.
      assert (Hsub : sub64 (N.of_nat (length s) + N.of_nat (length adds)) (N.of_nat (length adds)) = N.of_nat (length s)).
      { assert (2 ^ T <= 2 ^ 63) by (apply UtilsGeom.pow2_le; exact UT).
        assert (2 ^ 63 < 2 ^ 64) by (apply UtilsGeom.pow2_lt; lia).
        rewrite sub64_small; [lia|lia|rewrite W_eq; lia]. }
      destruct (getRootsAfterDel_ok H HO HOK Hh2 (ms_full m1) T UT s HnT Hnd Hlv dels tsn Hndd Hts _ _ Hsub)
        as (pr & Egr & Hfl).
      fold sd in Hfl. rewrite <- Eld in Egr |- *.
      apply (gwo_gen H HO Hh2 T UT sd HnTd adds _ (roots HO s) pr); [rewrite Eld; lia|exact Egr|exact Hfl]. }
    (* the deletions *)
    assert (HRd : forall z, In z R' -> In (Some z) sd).
    { intros z Hz. apply HR' in Hz as [Hz Hna]. apply HR1 in Hz. unfold s1 in Hz.
      apply in_app_or in Hz as [Hz|Hz]; [exact Hz|]. apply in_map_iff in Hz as (a & Ea & Ha).
      injection Ea as ->. exfalso. apply Hna. apply -> in_rev. exact Ha. }
    destruct (undoDeletion_ok H HO HOK Hh2 (ms_full m1) T UT s HnT Hnd Hlv dels tsn Hndd Hts R' nd' ca' HRd W'
                (WInvX_noX_Unode sd R' T nd' ca' W')) as (nd3 & ca3 & Eud & W3).
    destruct (undo_tail H HO HOK s (R' ++ dels) (ms_full m1) T nd3 ca3 UT HnT W3) as (nd4 & Ept & G4).
    exists (mkM nd4 ca3 (N.of_nat (length s)) T (ms_full m1)), (R' ++ dels).
    split; [|split; [|split; [|auto]]].
    - unfold mm_undo, undoAdd. fold T. rewrite Egw, Nat2N.id, Un, E, Eld.
      match goal with |- context [undoDeletion ?x1 ?x2 ?x3 ?x4 ?x5 ?x6 ?x7 ?x8] =>
        replace (undoDeletion x1 x2 x3 x4 x5 x6 x7 x8) with (Some (nd3, ca3)) by (symmetry; exact Eud) end.
      match goal with |- context [put_roots ?x1 ?x2 ?x3 ?x4 ?x5] =>
        replace (put_roots x1 x2 x3 x4 x5) with (Some (nd4, ca3)) by (symmetry; exact Ept) end.
      reflexivity.
    - constructor; cbn [ms_n ms_total ms_nodes ms_cached].
      + reflexivity.
      + lia.
      + apply TreeRows_le_iff. exact HnT.
      + exact UT.
      + exact Hnd.
      + exact Hlv.
      + exact G4.
    - intros x. rewrite in_app_iff, HR', <- in_rev. reflexivity.
  Qed.

  (** G2: a block that only deleted *)
  Corollary undo_dels (s : slots H) (dels : list H) (ts : list N) (pf : list H) (R1 : list H) (m1 : mstate H) :
    NoDup (live s) -> leaves_ok H HO s -> NoDup dels ->
    exp_prove HO (mk_ctx HO s) dels = Some (ts, pf) ->
    UInv HO (kill HO dels s) R1 m1 ->
    exists m2 R2, mm_undo HO m1 0 ts pf dels (roots HO s) = Some m2 /\
      UInv HO s R2 m2 /\ (forall x, In x R2 <-> In x R1 \/ In x dels) /\
      ms_n m2 = N.of_nat (length s) /\ ms_total m2 = ms_total m1 /\ ms_full m2 = ms_full m1.
  Proof.
    intros Hnd Hlv Hndd Ep U.
    assert (U' : UInv HO (apply_block HO s dels []) R1 m1).
    { unfold apply_block. cbn [map]. rewrite app_nil_r. exact U. }
    destruct (undo_block s dels [] ts pf R1 m1 Hnd Hlv Hndd Ep U') as (m2 & R2 & E & U2 & HR & Hrest).
    exists m2, R2. split; [exact E|]. split; [exact U2|]. split; [|exact Hrest].
    intros x. rewrite HR. cbn [In]. tauto.
  Qed.
End UndoBlock.

(** * Part 7: [Modify] then [Undo] for general blocks; any depth *)
Section ModifyUndoBlock.
  Variable H : Type.
  Variable HO : ops H.
  Hypothesis HOK : ops_ok HO.
  Hypothesis Hh2 : forall x y, op_eqb HO (op_hash2 HO x y) (op_empty HO) = false.
  Notation AInv := (MapMutAdd.Inv H HO).
  Notation keep L := (fun h => negb (memH HO h L)).

  (** added leaves are new *)
  Lemma adds_ok_fresh (full : bool) : forall (adds : list (H * bool)) (s : slots H) (R : list H) x,
    adds_ok H HO s R full adds -> In (Some x) s -> ~ In x (map fst adds).
  Proof.
    induction adds as [|e adds IH]; intros s R x Hok Hlive Hin; [destruct Hin|].
    cbn [adds_ok] in Hok. destruct Hok as (Hfresh & _ & _ & Hrest). cbn [map In] in Hin.
    destruct Hin as [Ee|Hin]; [rewrite <- Ee in Hlive; exact (Hfresh Hlive)|].
    apply (IH _ _ x Hrest); [|exact Hin]. apply in_or_app. left. exact Hlive.
  Qed.

  (** the remembered set after a block and its undo is the one before the block *)
  Lemma R_restore (s : slots H) (R : list H) (full : bool) (dels : list H) (adds : list (H * bool)) :
    (forall x, In x R -> In (Some x) s) -> (forall x, In x dels -> In x R) ->
    adds_ok H HO (kill HO dels s) (filter (keep dels) R) full adds ->
    forall x, (In x (fold_left (Rnext H full) adds (filter (keep dels) R)) /\ ~ In x (map fst adds)) \/ In x dels
              <-> In x R.
  Proof.
    intros Hlive Hsub Hok x. split.
    - intros [[A B]|A]; [|exact (Hsub x A)].
      destruct (Rnext_fold_In H _ _ _ _ A) as [C|C]; [|contradiction].
      apply filter_In in C as [C _]. exact C.
    - intros Hx. destruct (memH HO x dels) eqn:Em.
      + right. apply (memH_In H HO HOK). exact Em.
      + left. split.
        * apply Rnext_fold_mono. apply filter_In. split; [exact Hx|]. rewrite Em. reflexivity.
        * apply (adds_ok_fresh full adds _ _ x Hok).
          apply (MapMutRemove.kill_live H HO). split; [exact (Hlive x Hx)|exact Em].
  Qed.

  (** C06 for one general block, from the state before the block *)
  Theorem modify_undo_block_U (s : slots H) (R : list H) (m : mstate H) (adds : list (H * bool))
          (dels : list H) (ts : list N) (pf : list H) :
    AInv s R m -> MapMutUnify2.nimage HO s -> MapMutUnify2.dels_ok s R dels ->
    exp_prove HO (mk_ctx HO s) dels = Some (ts, pf) ->
    N.of_nat (length s) + N.of_nat (length adds) <= 2 ^ 63 ->
    adds_ok H HO (kill HO dels s) (filter (keep dels) R) (ms_full m) adds ->
    MapMutUnify2.noimg H HO adds ->
    exists m1 m2, mm_modify HO m adds dels ts pf = Some m1 /\
      AInv (apply_block HO s dels (map fst adds)) (fold_left (Rnext H (ms_full m)) adds (filter (keep dels) R)) m1 /\
      mm_undo HO m1 (N.of_nat (length adds)) ts pf dels (roots HO s) = Some m2 /\
      UInv HO s R m2 /\ ms_n m2 = ms_n m /\ ms_total m <= ms_total m2 /\ ms_full m2 = ms_full m.
  Proof.
    intros I Hnn Hd Ep Hfit Hok Hni.
    destruct (MapMutUnify2.block_Inv H HO HOK Hh2 s R m adds dels ts pf ts pf I Hnn Hd Ep (Permutation_refl _) Hfit Hok)
      as (m1 & E1 & I1 & HT1 & F1).
    assert (Hnn1 : MapMutUnify2.nimage HO (apply_block HO s dels (map fst adds))).
    { apply (MapMutUnify2.nimage_block H HO s dels (map fst adds) Hnn). exact Hni. }
    pose proof (AddInv_UInv H HO _ _ _ I1 (fun h Hh x y => Hnn1 h x y Hh)) as U1.
    pose proof (AddInv_UInv H HO _ _ _ I (fun h Hh x y => Hnn h x y Hh)) as U0.
    destruct (undo_block H HO HOK Hh2 s dels (map fst adds) ts pf _ m1 (u_nodup U0) (u_leaves U0) (proj1 Hd) Ep U1)
      as (m2 & R2 & E2 & U2 & HR2 & En2 & ET2 & EF2).
    rewrite map_length in E2.
    exists m1, m2. split; [exact E1|]. split; [exact I1|]. split; [exact E2|].
    pose proof (MapMutAdd.Inv_consistent H HO HOK s R m I) as Hc.
    assert (HRR : forall x, In x R2 <-> In x R).
    { intros x. rewrite HR2. exact (R_restore s R (ms_full m) dels adds (cs_R_live Hc) (proj2 Hd) Hok x). }
    split; [exact (UInv_ext H HO s R2 R m2 HRR U2)|].
    pose proof (MapMutAdd.inv_n H HO s R m I) as En. unfold num_leaves in En.
    split; [congruence|]. split; [lia|congruence].
  Qed.

  Corollary modify_undo_block (s : slots H) (R : list H) (m : mstate H) (adds : list (H * bool))
          (dels : list H) (ts : list N) (pf : list H) :
    AInv s R m -> MapMutUnify2.nimage HO s -> MapMutUnify2.dels_ok s R dels ->
    exp_prove HO (mk_ctx HO s) dels = Some (ts, pf) ->
    N.of_nat (length s) + N.of_nat (length adds) <= 2 ^ 63 ->
    adds_ok H HO (kill HO dels s) (filter (keep dels) R) (ms_full m) adds ->
    MapMutUnify2.noimg H HO adds ->
    exists m1 m2, mm_modify HO m adds dels ts pf = Some m1 /\
      mm_undo HO m1 (N.of_nat (length adds)) ts pf dels (roots HO s) = Some m2 /\
      consistent HO s R m2 /\ getRoots HO m2 = roots HO s /\ ms_n m2 = ms_n m /\
      ms_total m <= ms_total m2 /\ ms_full m2 = ms_full m.
  Proof.
    intros I Hnn Hd Ep Hfit Hok Hni.
    destruct (modify_undo_block_U s R m adds dels ts pf I Hnn Hd Ep Hfit Hok Hni)
      as (m1 & m2 & E1 & _ & E2 & U2 & En & ET & EF).
    pose proof (UInv_consistent H HO HOK s R m2 U2) as Hc.
    exists m1, m2. split; [exact E1|]. split; [exact E2|]. split; [exact Hc|].
    split; [exact (map_getroots H HO s R m2 Hc)|auto].
  Qed.

  (** on a full forest the result of [Undo] satisfies the invariant of [Modify] again *)
  Lemma UInv_AInv_full (s : slots H) (R : list H) (m : mstate H) :
    UInv HO s R m -> ms_full m = true -> AInv s R m.
  Proof.
    intros [A B C D E F G] Hf. constructor; try assumption.
    - intros h Hh. exact (proj1 (F h Hh)).
    - intros C'. congruence.
  Qed.

  (** ** depth [k] *)
  Notation block := (list H * list H)%type.          (* deleted hashes, added hashes *)

  Fixpoint apply_blocks (s : slots H) (bs : list block) : slots H :=
    match bs with
    | [] => s
    | b :: r => apply_blocks (apply_block HO s (fst b) (snd b)) r
    end.

  (** what [Undo] needs to know of the forests on the way: the leaves are distinct, not empty and
      no [hash2] images; the deleted leaves of a block are distinct and live *)
  Fixpoint blocks_ok (s : slots H) (bs : list block) : Prop :=
    match bs with
    | [] => True
    | b :: r =>
        NoDup (live s) /\ leaves_ok H HO s /\ NoDup (fst b) /\
        (exists tp, exp_prove HO (mk_ctx HO s) (fst b) = Some tp) /\
        blocks_ok (apply_block HO s (fst b) (snd b)) r
    end.

  (** undoing the blocks, newest first, each with its own data *)
  Fixpoint undo_blocks (s : slots H) (bs : list block) (m : mstate H) : option (mstate H) :=
    match bs with
    | [] => Some m
    | b :: r =>
        match undo_blocks (apply_block HO s (fst b) (snd b)) r m with
        | Some m' =>
            match exp_prove HO (mk_ctx HO s) (fst b) with
            | Some (ts, pf) => mm_undo HO m' (N.of_nat (length (snd b))) ts pf (fst b) (roots HO s)
            | None => None
            end
        | None => None
        end
    end.

  (** the remembered set, backwards *)
  Fixpoint Rback (bs : list block) (R : H -> Prop) : H -> Prop :=
    match bs with
    | [] => R
    | b :: r => fun x => (Rback r R x /\ ~ In x (snd b)) \/ In x (fst b)
    end.

  (** G4: undoing the last [k] blocks restores the state [k] blocks ago *)
  Theorem undo_blocks_depth : forall bs (s : slots H) (R : list H) (m : mstate H),
    blocks_ok s bs -> UInv HO (apply_blocks s bs) R m ->
    exists m' R', undo_blocks s bs m = Some m' /\ UInv HO s R' m' /\
      (forall x, In x R' <-> Rback bs (fun x => In x R) x) /\
      ms_n m' = N.of_nat (length s) /\ ms_total m' = ms_total m /\ ms_full m' = ms_full m.
  Proof.
    induction bs as [|[d a] r IH]; intros s R m Hok U.
    - exists m, R. cbn [undo_blocks apply_blocks Rback] in *. split; [reflexivity|]. split; [exact U|].
      split; [intros x; reflexivity|]. split; [exact (u_n U)|auto].
    - cbn [apply_blocks blocks_ok fst snd] in *. destruct Hok as (Hnd & Hlv & Hndd & ([ts pf] & Ep) & Hrest).
      destruct (IH _ R m Hrest U) as (m1 & R1 & E1 & U1 & HR1 & _ & ET1 & EF1).
      destruct (undo_block H HO HOK Hh2 s d a ts pf R1 m1 Hnd Hlv Hndd Ep U1)
        as (m2 & R2 & E2 & U2 & HR2 & En2 & ET2 & EF2).
      exists m2, R2. cbn [undo_blocks fst snd]. rewrite E1, Ep. split; [exact E2|]. split; [exact U2|].
      split; [|split; [exact En2|split; congruence]].
      intros x. rewrite HR2, HR1. cbn [Rback fst snd]. reflexivity.
  Qed.

  Corollary undo_blocks_consistent bs (s : slots H) (R : list H) (m : mstate H) :
    blocks_ok s bs -> UInv HO (apply_blocks s bs) R m ->
    exists m' R', undo_blocks s bs m = Some m' /\ consistent HO s R' m' /\
      (forall x, In x R' <-> Rback bs (fun x => In x R) x) /\
      getRoots HO m' = roots HO s /\ ms_n m' = num_leaves s.
  Proof.
    intros Hok U. destruct (undo_blocks_depth bs s R m Hok U) as (m' & R' & E & U' & HR & En & _).
    pose proof (UInv_consistent H HO HOK s R' m' U') as Hc.
    exists m', R'. split; [exact E|]. split; [exact Hc|]. split; [exact HR|].
    split; [exact (map_getroots H HO s R' m' Hc)|exact En].
  Qed.

  (** ** [k] blocks applied with [Modify] and undone *)
  Notation mblock := (list H * list (H * bool))%type.   (* deleted hashes, added leaves with their flags *)

  Fixpoint hist_ok (full : bool) (s : slots H) (R : list H) (bs : list mblock) : Prop :=
    match bs with
    | [] => True
    | b :: r =>
        MapMutUnify2.dels_ok s R (fst b) /\
        (exists tp, exp_prove HO (mk_ctx HO s) (fst b) = Some tp) /\
        N.of_nat (length s) + N.of_nat (length (snd b)) <= 2 ^ 63 /\
        adds_ok H HO (kill HO (fst b) s) (filter (keep (fst b)) R) full (snd b) /\
        MapMutUnify2.noimg H HO (snd b) /\
        hist_ok full (apply_block HO s (fst b) (map fst (snd b)))
                (fold_left (Rnext H full) (snd b) (filter (keep (fst b)) R)) r
    end.

  Fixpoint run_blocks (s : slots H) (bs : list mblock) (m : mstate H) : option (mstate H) :=
    match bs with
    | [] => Some m
    | b :: r =>
        match exp_prove HO (mk_ctx HO s) (fst b) with
        | Some (ts, pf) =>
            match mm_modify HO m (snd b) (fst b) ts pf with
            | Some m1 => run_blocks (apply_block HO s (fst b) (map fst (snd b))) r m1
            | None => None
            end
        | None => None
        end
    end.

  Definition erase (b : mblock) : block := (fst b, map fst (snd b)).

  Theorem modify_undo_blocks_U : forall (bs : list mblock) (s : slots H) (R : list H) (m : mstate H),
    AInv s R m -> MapMutUnify2.nimage HO s -> hist_ok (ms_full m) s R bs ->
    exists mk m0, run_blocks s bs m = Some mk /\ undo_blocks s (map erase bs) mk = Some m0 /\
      UInv HO s R m0 /\ ms_n m0 = ms_n m /\ ms_total m <= ms_total m0 /\ ms_full m0 = ms_full m.
  Proof.
    induction bs as [|[d a] r IH]; intros s R m I Hnn Hok.
    - exists m, m. cbn [run_blocks undo_blocks map]. split; [reflexivity|]. split; [reflexivity|].
      split; [exact (AddInv_UInv H HO _ _ _ I (fun h Hh x y => Hnn h x y Hh))|]. split; [reflexivity|]. split; [lia|reflexivity].
    - cbn [hist_ok fst snd] in Hok. destruct Hok as (Hd & ([ts pf] & Ep) & Hfit & Hadd & Hni & Hrest).
      destruct (MapMutUnify2.block_Inv H HO HOK Hh2 s R m a d ts pf ts pf I Hnn Hd Ep (Permutation_refl _) Hfit Hadd)
        as (m1 & E1 & I1 & HT1 & F1).
      assert (Hnn1 : MapMutUnify2.nimage HO (apply_block HO s d (map fst a))).
      { apply (MapMutUnify2.nimage_block H HO s d (map fst a) Hnn). exact Hni. }
      rewrite <- F1 in Hrest, I1.
      destruct (IH _ _ m1 I1 Hnn1 Hrest) as (mk & m0' & Er & Eu & U1 & En1 & ET1 & EF1).
      pose proof (AddInv_UInv H HO _ _ _ I (fun h Hh x y => Hnn h x y Hh)) as U0.
      destruct (undo_block H HO HOK Hh2 s d (map fst a) ts pf _ m0' (u_nodup U0) (u_leaves U0) (proj1 Hd) Ep U1)
        as (m2 & R2 & E2 & U2 & HR2 & En2 & ET2 & EF2).
      exists mk, m2. cbn [run_blocks undo_blocks map erase fst snd]. rewrite Ep, E1.
      split; [exact Er|]. rewrite Eu. split; [exact E2|].
      pose proof (MapMutAdd.Inv_consistent H HO HOK s R m I) as Hc.
      assert (HRR : forall x, In x R2 <-> In x R).
      { intros x. rewrite HR2. rewrite F1. exact (R_restore s R (ms_full m) d a (cs_R_live Hc) (proj2 Hd) Hadd x). }
      split; [exact (UInv_ext H HO s R2 R m2 HRR U2)|].
      pose proof (MapMutAdd.inv_n H HO s R m I) as En. unfold num_leaves in En.
      split; [congruence|]. split; [lia|congruence].
  Qed.

  (** C06, depth [k]: [k] blocks applied with [Modify] and undone, newest first, give a forest that is
      consistent with the reference forest before the blocks, remembering what was remembered *)
  Corollary modify_undo_blocks (bs : list mblock) (s : slots H) (R : list H) (m : mstate H) :
    AInv s R m -> MapMutUnify2.nimage HO s -> hist_ok (ms_full m) s R bs ->
    exists mk m0, run_blocks s bs m = Some mk /\ undo_blocks s (map erase bs) mk = Some m0 /\
      consistent HO s R m0 /\ getRoots HO m0 = roots HO s /\ ms_n m0 = ms_n m /\
      ms_total m <= ms_total m0 /\ ms_full m0 = ms_full m.
  Proof.
    intros I Hnn Hok. destruct (modify_undo_blocks_U bs s R m I Hnn Hok) as (mk & m0 & Er & Eu & U & En & ET & EF).
    pose proof (UInv_consistent H HO HOK s R m0 U) as Hc.
    exists mk, m0. split; [exact Er|]. split; [exact Eu|]. split; [exact Hc|].
    split; [exact (map_getroots H HO s R m0 Hc)|auto].
  Qed.
End ModifyUndoBlock.

(** * Part 8: examples over the free hash algebra *)
(** The forest of MapMutUndo.v: 7 leaves, allocated with 3 rows, partial; the tree of row 2 holds
    [Atom 1 .. Atom 4], the trees of rows 1 and 0 are empty; [Atom 2] is remembered.
    Block 1 deletes [Atom 2] and adds [Atom 8] (remembered) and [Atom 9]; block 2 deletes [Atom 8]
    and adds [Atom 10] (remembered). *)
From Utreexo Require Import Spec.Term.

Definition mmu2_b1 : list term * list (term * bool) := ([Atom 2], [(Atom 8, true); (Atom 9, false)]).
Definition mmu2_b2 : list term * list (term * bool) := ([Atom 8], [(Atom 10, true)]).

Lemma mmu2_nimage : MapMutUnify2.nimage term_ops mmu_ex_s.
Proof.
  intros h a b Hin. cbn in Hin.
  repeat (destruct Hin as [E|Hin]; [try discriminate; injection E as <-; discriminate|]). destruct Hin.
Qed.

Lemma mmu2_noimg (l : list (term * bool)) :
  forallb MapMutUnify2.nimg_term (map fst l) = true -> MapMutUnify2.noimg term term_ops l.
Proof.
  rewrite forallb_forall. intros E a x y Ha. exact (MapMutUnify2.nimg_term_sound a (E a Ha) x y).
Qed.

Lemma mmu2_hist : hist_ok term term_ops false mmu_ex_s [Atom 2] [mmu2_b1; mmu2_b2].
Proof.
  cbn [hist_ok mmu2_b1 mmu2_b2 fst snd]. split; [|split; [|split; [|split; [|split; [|split; [|split; [|split; [|split; [|split]]]]]]]]].
  - split; [repeat constructor; cbn; intuition discriminate|]. intros h Hh. exact Hh.
  - eexists. vm_compute. reflexivity.
  - cbn. discriminate.
  - apply (adds_okb_sound term term_ops term_ops_ok). vm_compute. reflexivity.
  - apply mmu2_noimg. reflexivity.
  - split; [repeat constructor; cbn; intuition discriminate|]. intros h Hh. vm_compute. exact Hh.
  - eexists. vm_compute. reflexivity.
  - cbn. discriminate.
  - apply (adds_okb_sound term term_ops term_ops_ok). vm_compute. reflexivity.
  - apply mmu2_noimg. reflexivity.
  - exact I.
Qed.

Example mmu2_undo2 :
  exists mk m0, run_blocks term term_ops mmu_ex_s [mmu2_b1; mmu2_b2] mmu_ex_m = Some mk /\
    undo_blocks term term_ops mmu_ex_s (map (erase term) [mmu2_b1; mmu2_b2]) mk = Some m0 /\
    consistent term_ops mmu_ex_s [Atom 2] m0 /\ getRoots term_ops m0 = roots term_ops mmu_ex_s /\
    ms_n m0 = 7.
Proof.
  destruct (modify_undo_blocks term term_ops term_ops_ok term_node_nonzero [mmu2_b1; mmu2_b2] mmu_ex_s [Atom 2]
              mmu_ex_m mmu_ex_Inv mmu2_nimage mmu2_hist) as (mk & m0 & Er & Eu & Hc & Hr & En & _).
  exists mk, m0. auto.
Qed.

(** the computed states *)
Example mmu2_run :
  match run_blocks term term_ops mmu_ex_s [mmu2_b1; mmu2_b2] mmu_ex_m with
  | Some mk => ms_total mk = 4 /\ ms_n mk = 10 /\
      match undo_blocks term term_ops mmu_ex_s (map (erase term) [mmu2_b1; mmu2_b2]) mk with
      | Some m0 => consistentb term_ops mmu_ex_s [Atom 2] m0 = true /\ ms_total m0 = 4 /\ ms_n m0 = 7
      | None => False
      end
  | None => False
  end.
Proof. vm_compute. auto. Qed.

Print Assumptions movedown_ok.
Print Assumptions undoDeletion_ok.
Print Assumptions getRootsAfterDel_ok.
Print Assumptions gwo_gen.
Print Assumptions undo_block.
Print Assumptions undo_dels.
Print Assumptions modify_undo_block.
Print Assumptions undo_blocks_depth.
Print Assumptions undo_blocks_consistent.
Print Assumptions modify_undo_blocks.
Print Assumptions mmu2_undo2.
Print Assumptions UInv_AInv_full.
