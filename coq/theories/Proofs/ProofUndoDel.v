(** [Proof.Undo] with deletions (C08, continued from Proofs/ProofUndoSpec.v): the second half of the
    mirror, [Model.ProofUpdate.undoDel], against the reference forest.

    [ProofUndoSpec] proves the first half ([undoAdd_spec_any], any forest, any additions) and reduces
    the statement of C08 for a whole block to [undoDel_spec s dels C]: [undoDel], applied to the
    expected cached proof of the kept leaves in the state [kill dels s] after the deletions, with the
    block's targets, hashes and proof, returns their expected cached proof in the state [s] before the
    block ([proof_undo_block]).

    What is proved here
    - G2  [undoDel_regular]: [undoDel_spec s dels C] for every set of REGULAR deletions - the
          hypothesis of [ProofUpdateDel.proof_update_regular_deletions]: any number of deleted leaves,
          cached or not, no two of them siblings and none alone in its tree ([regular], decidable as
          [regular_forestb]) - on any forest of up to 2^63 leaves, for any cached set [C];
    - G3  [proof_undo_regular_deletions] (and [.._term] in the free algebra): for every block with
          regular deletions and ANY additions, [Proof.Undo] with the block's data returns exactly
          [exp_cached s (cached_after_undo (cached_after C dels remembered) adds)];
          [un_ex_three_deletions] is an instance.
    Not proved: blocks that delete sibling leaves, whole subtrees or whole trees (there
    [deTwinHashAndPos] merges targets; see the end of the file).

    Structure
    - 1  ascending lists of (position, hash) with repeated positions: [mergeSortedHashAndPos],
         [ud_replace], [getHashAndPosSubset] ([newProofs] gets the block target once per moved
         cached target, and only the two-pointer walk of [getHashAndPosSubset] removes the copies);
    - 2  [ud_proof_spec]: the loop over the proof positions, which writes at the OLD index into the
         slice that [mergeSortedHashAndPos] has just replaced, still moves every position exactly
         once and adds at most one entry, at the position of the parent of the target;
    - 3  one block target on lists of coordinates: the test of the loops is [mv], the move is
         [unlift1] ([step_targets], [step_proofs]);
    - 4  [ud_blocks_spec]: the loop over the block targets, last first;
    - 5  the geometry: [unlift1_lift1_gen] (the target a left or a right child), [unl_tree_multi] -
         un-lifting over the deleted leaves in reverse order undoes the contraction of [prune], the
         converse of [ProofUpdateDel.move_tree_multi] - and its forest form [uf_down];
    - 6  [undoDel] on graphs; 7 the theorem [undoDel_regular_main]: the hashes that the block proof
         computes on the previous state ([ur_before], by [CalcComplete.calc_complete_c]) repair every
         entry at a subtree that holds a deleted leaf - in particular the parent hashes that
         [ud_proof] computes from a moved position that is not the sibling itself;
    - 8  closed forms, the free algebra, an example. *)
From Utreexo Require Import Base.Hash Model.Utils Model.UtilsFast Model.Verify Model.ProofOps
  Model.ProofUpdate Spec.Forest Spec.Oracle Spec.Geometry Spec.Term
  Proofs.UtilsGeom Proofs.UtilsGeom2 Proofs.SpecBasics Proofs.StumpAdd Proofs.LayoutStruct
  Proofs.ProofPosSpec Proofs.CalcTotal Proofs.CalcSound Proofs.CalcComplete Proofs.CachedVerifies
  Proofs.AbstractModels Proofs.StumpAddData Proofs.StumpDelData Proofs.ProofOpsSpec
  Proofs.ProofUpdateSpec Proofs.ProofUpdateDel Proofs.ProofUndoSpec.
From Utreexo Require Proofs.RefTheory.
From Coq Require Import List Arith PeanoNat NArith ZArith Lia ZifyNat ZifyN ZifyBool Sorted Permutation.
Import ListNotations.
Open Scope N_scope.

Local Notation SSlt := (StronglySorted N.lt).
Local Notation SSle := (StronglySorted N.le).

(** * 1. Sorted lists of (position, hash) with repeated positions *)

Section Dup.
  Variable H : Type.
  Local Notation hp := (hp H).

  Lemma SSle_inv (x : N) l : SSle (x :: l) -> SSle l /\ forall z, In z l -> x <= z.
  Proof. intros Hs. apply StronglySorted_inv in Hs as [A B]. split; [exact A|]. rewrite Forall_forall in B. exact B. Qed.

  (** [mergeSortedHashAndPos] on ascending lists: ascending, nothing invented, the left list kept,
      the right list kept up to positions of the left one *)
  Lemma merge_hp_le : forall fuel (a b : list hp), (length a + length b < fuel)%nat ->
    SSle (map fst a) -> SSle (map fst b) ->
    SSle (map fst (merge_hp fuel a b)) /\
    (forall e, In e (merge_hp fuel a b) -> In e a \/ In e b) /\
    (forall e, In e a -> In e (merge_hp fuel a b)) /\
    (forall e, In e b -> In (fst e) (map fst (merge_hp fuel a b))).
  Proof.
    induction fuel as [|f IH]; intros a b Hf Ha Hb; [lia|].
    cbn [merge_hp]. destruct a as [|x a].
    { split; [exact Hb|]. split; [auto|]. split; [intros e []|]. intros e He. apply in_map, He. }
    destruct b as [|y b].
    { split; [exact Ha|]. split; [auto|]. split; [auto|]. intros e []. }
    cbn [map] in Ha, Hb. destruct (SSle_inv _ _ Ha) as [Ha' Hxa]. destruct (SSle_inv _ _ Hb) as [Hb' Hyb].
    cbn [length] in Hf.
    destruct (N.ltb_spec (fst x) (fst y)) as [Hxy|Hxy].
    - destruct (IH a (y :: b) ltac:(cbn [length]; lia) Ha' Hb) as (I1 & I2 & I3 & I4).
      split; [|split; [|split]].
      + cbn [map]. constructor; [exact I1|]. apply Forall_forall. intros z Hz.
        apply in_map_iff in Hz as (e & <- & He). destruct (I2 e He) as [Hea|Heb].
        * apply Hxa, in_map, Hea.
        * destruct Heb as [<-|Heb]; [lia|]. pose proof (Hyb _ (in_map fst _ _ Heb)). lia.
      + intros e [<-|He]; [left; left; reflexivity|]. destruct (I2 e He); [left; right|right]; assumption.
      + intros e [<-|He]; [left; reflexivity|right; exact (I3 e He)].
      + intros e He. cbn [map]. right. exact (I4 e He).
    - destruct (N.ltb_spec (fst y) (fst x)) as [Hyx|Hyx].
      + destruct (IH (x :: a) b ltac:(cbn [length]; lia) Ha Hb') as (I1 & I2 & I3 & I4).
        split; [|split; [|split]].
        * cbn [map]. constructor; [exact I1|]. apply Forall_forall. intros z Hz.
          apply in_map_iff in Hz as (e & <- & He). destruct (I2 e He) as [Hea|Heb].
          -- destruct Hea as [<-|Hea]; [lia|]. pose proof (Hxa _ (in_map fst _ _ Hea)). lia.
          -- apply Hyb, in_map, Heb.
        * intros e [<-|He]; [right; left; reflexivity|]. destruct (I2 e He); [left|right; right]; assumption.
        * intros e He. right. exact (I3 e He).
        * intros e [<-|He]; [left; reflexivity|]. cbn [map]. right. exact (I4 e He).
      + assert (Exy : fst x = fst y) by lia.
        destruct (IH a b ltac:(lia) Ha' Hb') as (I1 & I2 & I3 & I4).
        split; [|split; [|split]].
        * cbn [map]. constructor; [exact I1|]. apply Forall_forall. intros z Hz.
          apply in_map_iff in Hz as (e & <- & He). destruct (I2 e He) as [Hea|Heb].
          -- apply Hxa, in_map, Hea.
          -- rewrite Exy. apply Hyb, in_map, Heb.
        * intros e [<-|He]; [left; left; reflexivity|]. destruct (I2 e He); [left; right|right; right]; assumption.
        * intros e [<-|He]; [left; reflexivity|right; exact (I3 e He)].
        * intros e [<-|He]; [left; exact Exy|]. cbn [map]. right. exact (I4 e He).
  Qed.

  Lemma mergeHP_le (a b : list hp) : SSle (map fst a) -> SSle (map fst b) ->
    SSle (map fst (mergeSortedHashAndPos a b)) /\
    (forall e, In e (mergeSortedHashAndPos a b) -> In e a \/ In e b) /\
    (forall e, In e a -> In e (mergeSortedHashAndPos a b)) /\
    (forall e, In e b -> In (fst e) (map fst (mergeSortedHashAndPos a b))).
  Proof. intros Ha Hb. apply merge_hp_le; [lia|exact Ha|exact Hb]. Qed.

  Variable HO : ops H.

  Lemma dropHP_lt_spec pos : forall l : list hp, SSlt (map fst l) ->
    (forall e, In e (dropHP_lt l pos) <-> In e l /\ pos <= fst e) /\ SSlt (map fst (dropHP_lt l pos)).
  Proof.
    induction l as [|x l IH]; intros Hs; cbn [dropHP_lt].
    - split; [intros e; split; [intros []|intros [[] _]]|constructor].
    - cbn [map] in Hs. destruct (po_SS_inv _ _ _ Hs) as [Hs' Hx].
      destruct (N.ltb_spec (fst x) pos) as [Hlt|Hge].
      + destruct (IH Hs') as [I1 I2]. split; [|exact I2]. intros e. rewrite I1. cbn [In]. split.
        * intros [A B]. auto.
        * intros [[<-|A] B]; [lia|auto].
      + split; [|exact Hs]. intros e. cbn [In]. split.
        * intros [<-|He]; [auto|]. split; [auto|]. pose proof (Hx _ (in_map fst _ _ He)). lia.
        * intros [A _]. exact A.
  Qed.

  Fixpoint hp_find (l : list hp) (p : N) : option H :=
    match l with
    | [] => None
    | x :: t => if fst x =? p then Some (snd x) else hp_find t p
    end.

  Lemma hp_find_some l p h : hp_find l p = Some h -> In (p, h) l.
  Proof.
    induction l as [|x l IH]; cbn [hp_find]; [discriminate|].
    destruct (N.eqb_spec (fst x) p) as [<-|_].
    - intros E. injection E as <-. left. destruct x; reflexivity.
    - intros E. right. exact (IH E).
  Qed.

  Lemma hp_find_none l p : hp_find l p = None <-> ~ In p (map fst l).
  Proof.
    induction l as [|x l IH]; cbn [hp_find map In]; [tauto|].
    destruct (N.eqb_spec (fst x) p) as [E|Hne]; [split; [discriminate|tauto]|]. rewrite IH. tauto.
  Qed.

  Lemma hp_find_drop p q : p <= q -> forall l : list hp, SSlt (map fst l) ->
    hp_find (dropHP_lt l p) q = hp_find l q.
  Proof.
    intros Hpq. induction l as [|x l IH]; intros Hs; [reflexivity|]. cbn [dropHP_lt].
    cbn [map] in Hs. destruct (po_SS_inv _ _ _ Hs) as [Hs' _].
    destruct (N.ltb_spec (fst x) p) as [Hlt|Hge]; [|reflexivity].
    rewrite (IH Hs'). cbn [hp_find]. destruct (N.eqb_spec (fst x) q); [lia|reflexivity].
  Qed.

  Lemma headHP_drop p : forall l : list hp, SSlt (map fst l) ->
    headHP (dropHP_lt l p) p = hp_find l p.
  Proof.
    induction l as [|x l IH]; intros Hs; [reflexivity|]. cbn [dropHP_lt].
    cbn [map] in Hs. destruct (po_SS_inv _ _ _ Hs) as [Hs' Hx].
    destruct (N.ltb_spec (fst x) p) as [Hlt|Hge].
    - rewrite (IH Hs'). cbn [hp_find]. destruct (N.eqb_spec (fst x) p); [lia|reflexivity].
    - cbn [headHP hp_find]. destruct (N.eqb_spec (fst x) p) as [E|Hne]; [reflexivity|].
      symmetry. apply hp_find_none. intros Hin. specialize (Hx _ Hin). lia.
  Qed.

  (** "Replace the proof hashes with the before hashes" *)
  Definition rep1 (before : list hp) (e : hp) : hp :=
    match hp_find before (fst e) with Some h => (fst e, h) | None => e end.

  Lemma ud_replace_spec : forall (pw before : list hp), SSle (map fst pw) -> SSlt (map fst before) ->
    ud_replace pw before = map (rep1 before) pw.
  Proof.
    induction pw as [|x pw IH]; intros before Hp Hb; [reflexivity|].
    cbn [map] in Hp. destruct (SSle_inv _ _ Hp) as [Hp' Hx]. cbn [ud_replace map].
    destruct (dropHP_lt_spec (fst x) before Hb) as [_ D2].
    rewrite (headHP_drop (fst x) before Hb), (IH _ Hp' D2).
    assert (Et : map (rep1 (dropHP_lt before (fst x))) pw = map (rep1 before) pw).
    { apply map_ext_in. intros z Hz. unfold rep1.
      rewrite (hp_find_drop (fst x) (fst z) (Hx _ (in_map fst _ _ Hz)) before Hb). reflexivity. }
    rewrite Et. unfold rep1 at 3. destruct (hp_find before (fst x)); reflexivity.
  Qed.

  (** [getHashAndPosSubset] of an ascending list with repeated positions: when every wanted
      position occurs and every entry at a wanted position carries the value, the graph of the
      wanted positions *)
  Lemma subsetHP_graph (F : N -> H) : forall fuel (a : list hp) (b : list N),
    (length a + length b < fuel)%nat -> SSle (map fst a) -> SSlt b ->
    (forall y, In y b -> In y (map fst a)) ->
    (forall e, In e a -> In (fst e) b -> snd e = F (fst e)) ->
    subsetHP fuel a b = gr H F b.
  Proof.
    induction fuel as [|f IH]; intros a b Hf Ha Hb Hin Hval; [lia|].
    cbn [subsetHP]. destruct a as [|x a].
    { destruct b as [|y b]; [reflexivity|]. destruct (Hin y (or_introl eq_refl)). }
    destruct b as [|y b]; [reflexivity|].
    cbn [map] in Ha. destruct (SSle_inv _ _ Ha) as [Ha' Hxa]. destruct (po_SS_inv _ _ _ Hb) as [Hb' Hyb].
    cbn [length] in Hf.
    destruct (N.eqb_spec (fst x) y) as [Exy|Nxy].
    - subst y. cbn [gr map]. f_equal.
      + rewrite <- (Hval x (or_introl eq_refl) (or_introl eq_refl)). destruct x; reflexivity.
      + apply (IH a b); [clear - Hf; lia|exact Ha'|exact Hb'| |].
        * intros y Hy. destruct (Hin y (or_intror Hy)) as [E|Hy']; [|exact Hy'].
          cbn [fst] in E. specialize (Hyb y Hy). lia.
        * intros e He Hb0. apply Hval; [right; exact He|right; exact Hb0].
    - destruct (N.ltb_spec y (fst x)) as [Hlt|Hge].
      + exfalso. destruct (Hin y (or_introl eq_refl)) as [E|Hy]; [cbn [fst] in E; lia|].
        specialize (Hxa y Hy). lia.
      + apply (IH a (y :: b)); [cbn [length]; lia|exact Ha'|exact Hb| |].
        * intros z Hz. destruct (Hin z Hz) as [E|Hz']; [|exact Hz'].
          cbn [fst] in E. destruct Hz as [<-|Hz]; [lia|]. specialize (Hyb z Hz). lia.
        * intros e He Hb0. apply Hval; [right; exact He|exact Hb0].
  Qed.

  Lemma getSubset_graph (F : N -> H) (a : list hp) (b : list N) :
    SSle (map fst a) -> SSlt b -> (forall y, In y b -> In y (map fst a)) ->
    (forall e, In e a -> In (fst e) b -> snd e = F (fst e)) ->
    getHashAndPosSubset a b = gr H F b.
  Proof. intros. apply subsetHP_graph; try assumption. lia. Qed.
End Dup.

(** * 2. The loop over the proof positions ([ud_proof]) on sorted lists *)

Section MergeSingle.
  Variable H : Type.
  Local Notation hp := (hp H).

  Lemma merge_hp_single (y : hp) : forall (a : list hp) fuel, (length a + 1 < fuel)%nat -> SSlt (map fst a) ->
    (In (fst y) (map fst a) -> merge_hp fuel a [y] = a) /\
    (~ In (fst y) (map fst a) -> Permutation (merge_hp fuel a [y]) (a ++ [y])).
  Proof.
    induction a as [|x a IH]; intros fuel Hf Hs.
    - destruct fuel as [|f]; [cbn in Hf; lia|]. cbn [merge_hp]. split; [intros []|reflexivity].
    - destruct fuel as [|f]; [cbn in Hf; lia|]. cbn [merge_hp].
      cbn [map] in Hs. destruct (po_SS_inv _ _ _ Hs) as [Hs' Hx]. cbn [length] in Hf.
      destruct (IH f ltac:(lia) Hs') as [I1 I2].
      destruct (N.ltb_spec (fst x) (fst y)) as [Hxy|Hxy].
      + split.
        * intros [E|Hin]; [lia|]. rewrite (I1 Hin). reflexivity.
        * intros Hn. cbn [app]. apply perm_skip. apply I2. intros Hin. apply Hn. right. exact Hin.
      + destruct (N.ltb_spec (fst y) (fst x)) as [Hyx|Hyx].
        * split.
          -- intros [E|Hin]; [lia|]. specialize (Hx _ Hin). lia.
          -- intros _. destruct f as [|f']; [lia|]. cbn [merge_hp].
             change (y :: x :: a) with ([y] ++ (x :: a)). apply Permutation_app_comm.
        * split.
          -- intros _. destruct f as [|f']; [lia|]. cbn [merge_hp]. destruct a; reflexivity.
          -- intros Hn. exfalso. apply Hn. left. lia.
  Qed.

  Lemma mergeHP_single (a : list hp) (y : hp) : SSlt (map fst a) ->
    (In (fst y) (map fst a) -> mergeSortedHashAndPos a [y] = a) /\
    (~ In (fst y) (map fst a) -> Permutation (mergeSortedHashAndPos a [y]) (a ++ [y])).
  Proof. intros Hs. apply merge_hp_single; [cbn [length]; lia|exact Hs]. Qed.
End MergeSingle.

Lemma NoDup_app3 {A} (l1 l2 : list A) : NoDup l1 -> NoDup l2 -> (forall x, In x l1 -> ~ In x l2) -> NoDup (l1 ++ l2).
Proof.
  intros H1 H2 Hd. induction l1 as [|x l1 IH]; [exact H2|]. cbn [app]. inversion H1; subst. constructor.
  - rewrite in_app_iff. intros [Hx|Hx]; [contradiction|]. exact (Hd x (or_introl eq_refl) Hx).
  - apply IH; [assumption|]. intros z Hz. apply Hd. right. exact Hz.
Qed.

Lemma In_skipn_nth {X} : forall (l : list X) i j e, (i <= j)%nat -> nth_error l j = Some e -> In e (skipn i l).
Proof.
  induction l as [|x l IH]; intros i j e Hij Hn; [destruct j; discriminate|].
  destruct i as [|i]; [cbn [skipn]; exact (nth_error_In _ _ Hn)|].
  destruct j as [|j]; [lia|]. cbn [skipn nth_error] in *. apply (IH i j); [lia|exact Hn].
Qed.

Section UdProof.
  Variable H : Type.
  Variable HO : ops H.
  Local Notation hp := (hp H).
  Variables (bt : N) (bh : H) (sibPos n total : N).
  Local Notation test := (ud_test bt sibPos n total).
  Local Notation mv := (ud_mv bt sibPos n total).
  Local Notation mve := (ud_mve H bt sibPos n total).

  Lemma ud_test_eq t : test t = (subtree_of t n =? subtree_of bt n) && (isAncestor sibPos t total || (sibPos =? t)).
  Proof. reflexivity. Qed.

  Lemma ud_proof_S_none k i rng al (cur : list hp) : nth_error rng i = None ->
    ud_proof HO (S k) i rng al cur bt bh sibPos n total = Some cur.
  Proof. intros Hn. cbn [ud_proof]. rewrite Hn. reflexivity. Qed.

  Lemma ud_proof_S_skip k i rng al (cur : list hp) t : nth_error rng i = Some t -> test t = false ->
    ud_proof HO (S k) i rng al cur bt bh sibPos n total = ud_proof HO k (S i) rng al cur bt bh sibPos n total.
  Proof.
    intros Hn Ht. cbn [ud_proof]. rewrite Hn. cbv iota. rewrite ud_test_eq in Ht.
    destruct (subtree_of t n =? subtree_of bt n); cbn [negb andb] in *; [|reflexivity].
    rewrite Ht. reflexivity.
  Qed.

  Lemma ud_proof_S_hit k i rng al (cur : list hp) t (ce : hp) : nth_error rng i = Some t -> test t = true ->
    @nth_error hp cur i = Some ce ->
    exists pH,
    ud_proof HO (S k) i rng al cur bt bh sibPos n total
    = ud_proof HO k (S i) (if al then positions (sortK (set_pos i (mv t) cur)) else rng) false
               (mergeSortedHashAndPos (sortK (set_pos i (mv t) cur)) [(sibPos, pH)]) bt bh sibPos n total.
  Proof.
    intros Hn Ht Hc. exists (if isLeftNiece bt then op_hash2 HO bh (snd ce) else op_hash2 HO (snd ce) bh).
    cbn [ud_proof]. rewrite Hn. cbv iota. unfold ud_mv. rewrite Ht. rewrite ud_test_eq in Ht.
    destruct (subtree_of t n =? subtree_of bt n); cbn [negb andb] in *; [|discriminate].
    rewrite Ht, Hc. reflexivity.
  Qed.

  Variable orig : list hp.
  Hypothesis Hso : SSlt (map fst orig).
  Hypothesis Hlt : forall e, In e orig -> test (fst e) = true -> mv (fst e) < fst e.
  Hypothesis Hnd : forall i, NoDup (map fst (map mve (firstn i orig) ++ skipn i orig)).
  Hypothesis Hsib : forall e, In e orig -> test (fst e) = true -> fst e <= sibPos.
  Hypothesis HsibN : forall e, In e orig -> mv (fst e) <> sibPos.

  Definition Gok (G : list hp) : Prop := G = [] \/ exists hg, G = [(sibPos, hg)].

  Lemma fst_mve (e : hp) : fst (mve e) = mv (fst e).
  Proof. reflexivity. Qed.

  Lemma ud_mve_skip (e : hp) : test (fst e) = false -> mve e = e.
  Proof. intros Ht. unfold ud_mve, ud_mv. rewrite Ht. destruct e; reflexivity. Qed.

  Lemma below_orig j (e : hp) : nth_error orig j = Some e -> below (fst e) orig = j.
  Proof.
    intros Hn. destruct (SSlt_firstn_lt orig j e Hso Hn) as [Hb Ha].
    rewrite <- (firstn_skipn j orig) at 1. rewrite below_app, (skipn_nth orig j e Hn).
    rewrite below_all by exact Hb.
    change (e :: skipn (S j) orig) with ([e] ++ skipn (S j) orig). rewrite below_app.
    rewrite (below_none (fst e) [e]) by (intros x [<-|[]]; lia).
    rewrite (below_none (fst e) (skipn (S j) orig)) by (intros x Hx; pose proof (Ha x Hx); lia).
    rewrite firstn_length_le; [lia|]. apply Nat.lt_le_incl, nth_error_Some. rewrite Hn. discriminate.
  Qed.

  (** every unprocessed element is still at its index *)
  Lemma ud_cursor_ge (G tw : list hp) i j (e : hp) : SSlt (map fst tw) ->
    Permutation tw (map mve (firstn i orig) ++ skipn i orig ++ G) -> (i <= j)%nat ->
    nth_error orig j = Some e -> (forall g, In g G -> fst e < fst g) ->
    @nth_error hp tw j = Some e.
  Proof.
    intros Hs Hp Hij Hn HG.
    destruct (SSlt_firstn_lt orig j e Hso Hn) as [Hb Ha].
    assert (Hjl : (j < length orig)%nat) by (apply nth_error_Some; rewrite Hn; discriminate).
    assert (He : In e tw).
    { apply (Permutation_in _ (Permutation_sym Hp)), in_or_app. right. apply in_or_app. left.
      exact (In_skipn_nth orig i j e Hij Hn). }
    assert (Hfi : forall x, In x (firstn i orig) -> fst x < fst e).
    { intros x Hx. apply Hb. replace i with (Nat.min i j) in Hx by lia.
      rewrite <- firstn_firstn in Hx. exact (In_firstn _ _ _ Hx). }
    assert (Eb : below (fst e) tw = j).
    { rewrite (below_perm (fst e) _ _ Hp), !below_app.
      rewrite below_all.
      2:{ intros x Hx. apply in_map_iff in Hx as (y & <- & Hy). cbn [ud_mve fst].
          pose proof (ud_mv_le H bt sibPos n total orig Hlt y (In_firstn _ _ _ Hy)). pose proof (Hfi y Hy). lia. }
      rewrite (below_none (fst e) G) by (intros x Hx; pose proof (HG x Hx); lia).
      pose proof (below_orig j e Hn) as Ho. rewrite <- (firstn_skipn i orig) in Ho at 1.
      rewrite below_app, (below_all (fst e) (firstn i orig) Hfi) in Ho.
      rewrite map_length. rewrite firstn_length_le in * by lia. lia. }
    rewrite <- Eb. exact (nth_error_sorted tw Hs e He).
  Qed.

  (** "Look for the sibling in the proof hashes": every position is moved once; at most one entry,
      at the position of the parent, is added *)
  Lemma ud_proof_gen : forall k i rng al (cur G : list hp),
    (length orig <= i + k)%nat -> (i <= length orig)%nat -> length rng = length orig ->
    SSlt (map fst cur) ->
    Permutation cur (map mve (firstn i orig) ++ skipn i orig ++ G) -> Gok G -> (al = true -> G = []) ->
    (forall j e, (i <= j)%nat -> nth_error orig j = Some e -> nth_error rng j = Some (fst e)) ->
    exists cur' G', ud_proof HO k i rng al cur bt bh sibPos n total = Some cur' /\
      SSlt (map fst cur') /\ Permutation cur' (map mve orig ++ G') /\ Gok G'.
  Proof.
    induction k as [|k IH]; intros i rng al cur G Hk Hi Hlr Hs Hp HG Hal Hrng.
    - assert (Ei : i = length orig) by lia. subst i. rewrite firstn_all, skipn_all in Hp. cbn [app] in Hp.
      exists cur, G. split; [reflexivity|]. auto.
    - destruct (nth_error orig i) as [e|] eqn:Hn.
      + pose proof (Hrng i e (Nat.le_refl i) Hn) as Hr.
        assert (HSi : (S i <= length orig)%nat) by (apply nth_error_Some; rewrite Hn; discriminate).
        assert (Hin : In e orig) by exact (nth_error_In _ _ Hn).
        (* the positions of the current list are distinct *)
        pose proof (pps_SSlt_NoDup _ Hs) as Hnk.
        apply (Permutation_NoDup (Permutation_map fst Hp)) in Hnk.
        rewrite (skipn_nth orig i e Hn), !map_app in Hnk. cbn [map] in Hnk.
        apply NoDup_app_inv in Hnk as (_ & Hnk & _).
        apply NoDup_app_inv in Hnk as (_ & HnkBG & HnkE).
        destruct (test (fst e)) eqn:Et.
        * (* hit *)
          assert (HkG : forall g, In g G -> fst e < fst g).
          { intros g Hg. destruct HG as [->|(hg & ->)]; [destruct Hg|]. destruct Hg as [<-|[]]. cbn [fst].
            pose proof (Hsib e Hin Et) as Hle.
            destruct (N.eq_dec (fst e) sibPos) as [E|Hne]; [exfalso|lia].
            apply (HnkE (fst e)); [left; reflexivity|]. rewrite E. left. reflexivity. }
          pose proof (ud_cursor H bt sibPos n total orig Hso Hlt Hnd G cur i e Hs Hp Hn HkG) as Hc.
          destruct (ud_proof_S_hit k i rng al cur (fst e) e Hr Et Hc) as (pH & Estep).
          set (cur1 := sortK (set_pos i (mv (fst e)) cur)) in *.
          assert (Hp1 : Permutation cur1 (map mve (firstn (S i) orig) ++ skipn (S i) orig ++ G)).
          { eapply Permutation_trans; [apply RefTheory.sortK_perm|].
            exact (ud_step_perm H bt sibPos n total orig G cur i e Hp Hn Hc). }
          assert (HGk : forall x, In x (map fst G) -> x = sibPos).
          { intros x Hx. destruct HG as [->|(hg & ->)]; [destruct Hx|]. destruct Hx as [<-|[]]. reflexivity. }
          assert (Hnk1 : NoDup (map fst (map mve (firstn (S i) orig) ++ skipn (S i) orig ++ G))).
          { rewrite app_assoc, map_app. apply NoDup_app3; [exact (Hnd (S i))| |].
            - destruct HG as [->|(hg & ->)]; [constructor|]. cbn [map]. constructor; [intros []|constructor].
            - intros x Hx Hg. pose proof (HGk x Hg) as ->.
              rewrite map_app in Hx. apply in_app_or in Hx as [Hx|Hx].
              + apply in_map_iff in Hx as (z & Ez & Hz). apply in_map_iff in Hz as (w & <- & Hw).
                rewrite fst_mve in Ez. exact (HsibN w (In_firstn _ _ _ Hw) Ez).
              + exact (HnkE sibPos (or_intror Hx) Hg). }
          assert (Hs1 : SSlt (map fst cur1)).
          { apply cc_sortK_SSlt. eapply Permutation_NoDup; [|exact Hnk1].
            apply Permutation_map, Permutation_sym.
            exact (ud_step_perm H bt sibPos n total orig G cur i e Hp Hn Hc). }
          destruct (mergeHP_single H cur1 (sibPos, pH) Hs1) as [M1 M2]. cbn [fst] in M1, M2.
          assert (Hrng' : forall j e', (S i <= j)%nat -> nth_error orig j = Some e' ->
                    nth_error (if al then positions cur1 else rng) j = Some (fst e')).
          { intros j e' Hj Hj'. destruct al; [|apply Hrng; [lia|exact Hj']].
            assert (EG : G = []) by (apply Hal; reflexivity). subst G.
            pose proof (ud_cursor_ge [] cur1 (S i) j e' Hs1 Hp1 Hj Hj' ltac:(intros g [])) as Hc1.
            unfold positions. exact (map_nth_error fst j cur1 Hc1). }
          assert (Hlr' : length (if al then positions cur1 else rng) = length orig).
          { destruct al; [|exact Hlr]. assert (EG : G = []) by (apply Hal; reflexivity). subst G.
            unfold positions. rewrite map_length, (Permutation_length Hp1).
            rewrite !app_length, map_length. cbn [length].
            rewrite firstn_length_le, skipn_length by lia. lia. }
          destruct (in_dec N.eq_dec sibPos (map fst cur1)) as [Hin1|Hnin1].
          -- (* an entry at the position of the parent exists: nothing is added *)
             pose proof (eq_trans Estep (f_equal (fun c => ud_proof HO k (S i) (if al then positions cur1 else rng)
                                                              false c bt bh sibPos n total) (M1 Hin1))) as Estep'.
             cbv beta in Estep'. clear Estep. rename Estep' into Estep.
             destruct (IH (S i) _ false cur1 G ltac:(lia) HSi Hlr' Hs1 Hp1 HG ltac:(discriminate) Hrng')
               as (cur' & G' & E & A & B & C).
             exists cur', G'. split; [rewrite Estep; exact E|auto].
          -- assert (EG : G = []).
             { destruct HG as [->|(hg & ->)]; [reflexivity|]. exfalso. apply Hnin1.
               apply (Permutation_in _ (Permutation_map fst (Permutation_sym Hp1))).
               rewrite !map_app. apply in_or_app. right. apply in_or_app. right. left. reflexivity. }
             subst G. specialize (M2 Hnin1).
             destruct (cc_mergeSorted_spec H cur1 [(sibPos, pH)] Hs1) as (Sm & _ & _).
             { cbn [map]. constructor; [constructor|constructor]. }
             destruct (IH (S i) _ false (mergeSortedHashAndPos cur1 [(sibPos, pH)]) [(sibPos, pH)]
                          ltac:(lia) HSi Hlr' Sm) as (cur' & G' & E & A & B & C).
             ++ eapply Permutation_trans; [exact M2|]. rewrite app_nil_r in Hp1.
                rewrite app_assoc. apply Permutation_app_tail. exact Hp1.
             ++ right. exists pH. reflexivity.
             ++ discriminate.
             ++ exact Hrng'.
             ++ exists cur', G'. split; [rewrite Estep; exact E|auto].
        * (* not below the parent *)
          rewrite (ud_proof_S_skip k i rng al cur (fst e) Hr Et).
          apply (IH (S i) rng al cur G); try assumption; try lia.
          -- rewrite (firstn_S_nth orig i e Hn), map_app. cbn [map]. rewrite (ud_mve_skip e Et).
             rewrite (skipn_nth orig i e Hn) in Hp. rewrite <- app_assoc. exact Hp.
          -- intros j e' Hj Hj'. apply Hrng; [lia|exact Hj'].
      + assert (Hlen : (length orig <= i)%nat) by (apply nth_error_None; exact Hn).
        assert (Ei : i = length orig) by lia. subst i. rewrite firstn_all, skipn_all in Hp. cbn [app] in Hp.
        assert (Hr : nth_error rng (length orig) = None) by (apply nth_error_None; lia).
        exists cur, G. split; [exact (ud_proof_S_none k _ rng al cur Hr)|]. auto.
  Qed.

  Theorem ud_proof_spec :
    exists cur' G', ud_proof HO (length orig) 0 (positions orig) true orig bt bh sibPos n total = Some cur' /\
      SSlt (map fst cur') /\ Permutation cur' (map mve orig ++ G') /\ Gok G'.
  Proof.
    apply (ud_proof_gen (length orig) 0 (positions orig) true orig []); try lia.
    - unfold positions. apply map_length.
    - exact Hso.
    - cbn [firstn map app skipn]. rewrite app_nil_r. apply Permutation_refl.
    - left. reflexivity.
    - reflexivity.
    - intros j e _ Hj. unfold positions. exact (map_nth_error fst j orig Hj).
  Qed.
End UdProof.

Lemma SSlt_app_lt (l1 l2 : list N) : SSlt (l1 ++ l2) -> forall y z, In y l1 -> In z l2 -> y < z.
Proof.
  induction l1 as [|x l1 IH]; intros Hs y z Hy Hz; [destruct Hy|]. cbn [app] in Hs.
  destruct (po_SS_inv _ _ _ Hs) as [Hs' Hx]. destruct Hy as [<-|Hy].
  - apply Hx, in_or_app. right. exact Hz.
  - exact (IH Hs' y z Hy Hz).
Qed.

Lemma SSlt_app_l (l1 l2 : list N) : SSlt (l1 ++ l2) -> SSlt l1 /\ SSlt l2.
Proof.
  induction l1 as [|x l1 IH]; intros Hs; [split; [constructor|exact Hs]|]. cbn [app] in Hs.
  destruct (po_SS_inv _ _ _ Hs) as [Hs' Hx]. destruct (IH Hs') as [A B]. split; [|exact B].
  constructor; [exact A|]. apply Forall_forall. intros z Hz. apply Hx, in_or_app. left. exact Hz.
Qed.

Section UdInj.
  Variable H : Type.
  Local Notation hp := (hp H).
  Variables (bt sibPos n total : N).
  Local Notation test := (ud_test bt sibPos n total).
  Local Notation mv := (ud_mv bt sibPos n total).
  Local Notation mve := (ud_mve H bt sibPos n total).
  Variable orig : list hp.
  Hypothesis Hso : SSlt (map fst orig).
  Hypothesis Hlt : forall e, In e orig -> test (fst e) = true -> mv (fst e) < fst e.
  Hypothesis Hinj : forall e1 e2, In e1 orig -> In e2 orig -> mv (fst e1) = mv (fst e2) -> fst e1 = fst e2.

  Lemma ud_nd_inj : forall i, NoDup (map fst (map mve (firstn i orig) ++ skipn i orig)).
  Proof.
    intros i. pose proof Hso as Hs2. rewrite <- (firstn_skipn i orig), map_app in Hs2.
    destruct (SSlt_app_l _ _ Hs2) as [S1 S2].
    rewrite map_app. apply NoDup_app3.
    - rewrite map_map.
      apply (RefTheory.NoDup_map_inj_on (fun e : hp => fst (mve e))).
      + exact (NoDup_map_inv _ _ (pps_SSlt_NoDup _ S1)).
      + intros e1 e2 H1 H2 E. rewrite !fst_mve in E.
        pose proof (Hinj e1 e2 (In_firstn _ _ _ H1) (In_firstn _ _ _ H2) E) as Ek.
        exact (ud_nodup_map_inj fst (firstn i orig) (pps_SSlt_NoDup _ S1) e1 e2 H1 H2 Ek).
    - exact (pps_SSlt_NoDup _ S2).
    - intros x Hx Hz. apply in_map_iff in Hx as (y' & <- & Hy'). apply in_map_iff in Hy' as (y & <- & Hy).
      rewrite fst_mve in Hz.
      pose proof (ud_mv_le H bt sibPos n total orig Hlt y (In_firstn _ _ _ Hy)) as Hle.
      pose proof (SSlt_app_lt _ _ Hs2 (fst y) _ (in_map fst _ _ Hy) Hz). lia.
  Qed.
End UdInj.

(** * 3. One block target of [undoDel] on lists of coordinates *)

Lemma rmbit_insbit v b c : rmbit (insbit v b c) b = v.
Proof.
  unfold rmbit, insbit.
  pose proof (N.div_mod v (2 ^ b) (pow2_nz b)) as Hdm. pose proof (N.mod_lt v (2 ^ b) (pow2_nz b)) as Hm.
  set (q := v / 2 ^ b) in *. set (m := v mod 2 ^ b) in *.
  assert (Hc : N.b2n c * 2 ^ b + m < 2 ^ (b + 1)).
  { rewrite pow2_S. destruct c; cbn [N.b2n]; lia. }
  assert (E1 : (q * 2 ^ (b + 1) + N.b2n c * 2 ^ b + m) / 2 ^ (b + 1) = q).
  { rewrite <- N.add_assoc, N.add_comm, N.div_add by apply pow2_nz. rewrite N.div_small by exact Hc. reflexivity. }
  assert (E2 : (q * 2 ^ (b + 1) + N.b2n c * 2 ^ b + m) mod 2 ^ b = m).
  { rewrite pow2_S. replace (q * (2 * 2 ^ b) + N.b2n c * 2 ^ b + m) with (m + (2 * q + N.b2n c) * 2 ^ b) by lia.
    rewrite N.mod_add by apply pow2_nz. apply N.mod_small. exact Hm. }
  rewrite E1, E2. transitivity (2 ^ b * q + m); [rewrite N.mul_comm; reflexivity|symmetry; exact Hdm].
Qed.

Lemma SSlt_ascK {A} (l : list (N * A)) : SSlt (map fst l) -> SpecBasics.ascK l.
Proof.
  induction l as [|x l IH]; intros Hs; [constructor|]. cbn [map] in Hs.
  destruct (po_SS_inv _ _ _ Hs) as [Hs' Hx]. destruct l as [|y l]; [constructor|].
  constructor; [|exact (IH Hs')]. pose proof (Hx (fst y) (or_introl eq_refl)). lia.
Qed.

Definition unlift_e {H} (d : coord) (e : coord * H) : coord * H := (unlift1 d (fst e), snd e).

Section Bridge.
  Variable R : nat.
  Variable n : N.
  Hypothesis HR : (R <= 63)%nat.
  Hypothesis Hn : n <= 2 ^ 63.
  Hypothesis ER : N.of_nat R = TreeRows n.
  Variable d : coord.
  Hypothesis Hd : dok R n d.

  Local Notation bt := (cpos R d).
  Local Notation total := (N.of_nat R).
  Local Notation sibPos := (Parent (cpos R d) (N.of_nat R)).

  Lemma br_parts : (fst d < R)%nat /\ cvalid R d /\ pf_ok n d.
  Proof. exact Hd. Qed.

  Lemma br_sib : sibPos = cpos R (par d).
  Proof. destruct br_parts as (A & B & _). exact (Parent_cpos R d HR A B). Qed.

  Lemma br_cond y : cvalid R y ->
    (isAncestor sibPos (cpos R y) total || (sibPos =? cpos R y)) = mv d y.
  Proof.
    intros Hy. destruct br_parts as (A & B & _).
    rewrite (pu_isAnc_anc R d y HR A B Hy), br_sib, mv_split.
    change (S (fst d), snd d / 2) with (par d). rewrite orb_comm. f_equal.
    destruct (N.eqb_spec (cpos R (par d)) (cpos R y)) as [E|Hne].
    - apply cpos_inj in E; [|exact HR|apply par_valid; assumption|exact Hy].
      symmetry. apply coord_eqb_eq. symmetry. exact E.
    - destruct (coord_eqb y (par d)) eqn:Ec; [|reflexivity]. apply coord_eqb_eq in Ec. subst y. contradiction.
  Qed.

  Lemma mv_same_subtree y : cvalid R y -> mv d y = true ->
    subtree_of (cpos R d) n = subtree_of (cpos R y) n.
  Proof.
    intros [Hy1 Hy2] Em. destruct br_parts as (A & [Hd1 Hd2] & Hpf).
    unfold mv in Em. apply andb_true_iff in Em as [Em1 Em2]. apply Nat.leb_le in Em1. apply N.eqb_eq in Em2.
    rewrite !cpos_gpos, ER. rewrite ER in Hd2, Hy2.
    apply (subtree_same_block n _ _ _ _ (N.of_nat (fst d) + 1) (snd d / 2) Hn); try assumption; try lia.
    - rewrite N.pow_add_r, N.pow_1_r, <- N.div_div by (try apply pow2_nz; lia).
      rewrite N.div_mul by apply pow2_nz. reflexivity.
    - rewrite <- Em2. replace (N.of_nat (fst d) + 1) with (N.of_nat (fst y) + N.of_nat (S (fst d) - fst y)) by lia.
      rewrite N.pow_add_r, <- N.div_div by apply pow2_nz. rewrite N.div_mul by apply pow2_nz. reflexivity.
  Qed.

  Lemma ud_test_mv y : cvalid R y -> ud_test bt sibPos n total (cpos R y) = mv d y.
  Proof.
    intros Hy. rewrite ud_test_eq, (br_cond y Hy). destruct (mv d y) eqn:Em; [|apply andb_false_r].
    rewrite <- (mv_same_subtree y Hy Em), N.eqb_refl. reflexivity.
  Qed.

  Lemma ud_mv_unlift y : cvalid R y -> (mv d y = true -> (1 <= fst y)%nat) ->
    ud_mv bt sibPos n total (cpos R y) = cpos R (unlift1 d y).
  Proof.
    intros Hy Hs. destruct br_parts as (A & B & _).
    pose proof (unlift1_bridge R d y HR A B Hy Hs) as Hb. unfold moveDownPosition in Hb.
    unfold ud_mv. rewrite (ud_test_mv y Hy).
    destruct (mv d y) eqn:Em.
    - rewrite <- Hb. rewrite orb_comm, N.eqb_sym, (br_cond y Hy), Em. reflexivity.
    - rewrite (unlift1_id d y Em). reflexivity.
  Qed.

  Lemma unlift_row_lt y : cvalid R y -> mv d y = true -> (1 <= fst y)%nat ->
    cpos R (unlift1 d y) < cpos R y.
  Proof.
    intros Hy Em Hr. destruct br_parts as (A & _).
    pose proof (unlift1_valid R d y A Hy (fun _ => Hr)) as Hv.
    rewrite !cpos_g. apply pps_g_row_lt; [exact (cvalid_vld R _ Hv)|exact (cvalid_vld R _ Hy)|].
    unfold unlift1. rewrite Em. unfold cN. cbn [fst]. lia.
  Qed.

  Lemma mv_le_sib y : cvalid R y -> mv d y = true -> cpos R y <= cpos R (par d).
  Proof.
    intros Hy Em. destruct br_parts as (A & B & _). pose proof (par_valid R d A B) as Hp.
    rewrite mv_split in Em. apply orb_true_iff in Em as [Em|Em].
    - apply coord_eqb_eq in Em. subst y. lia.
    - unfold anc in Em. apply andb_true_iff in Em as [Em _]. apply Nat.ltb_lt in Em.
      apply N.lt_le_incl. rewrite !cpos_g.
      apply pps_g_row_lt; [exact (cvalid_vld R _ Hy)|exact (cvalid_vld R _ Hp)|].
      unfold cN. cbn [fst] in *. lia.
  Qed.

  (** a moved coordinate lands strictly below the parent of the target *)
  Lemma mv_unlift y : mv d y = true -> (1 <= fst y)%nat ->
    mv d (unlift1 d y) = true /\ (fst (unlift1 d y) <= fst d)%nat.
  Proof.
    intros Em Hr. unfold unlift1. rewrite Em. unfold mv in *. cbn [fst snd].
    apply andb_true_iff in Em as [Em1 Em2]. apply Nat.leb_le in Em1. apply N.eqb_eq in Em2.
    split; [|lia]. apply andb_true_iff. split; [apply Nat.leb_le; lia|]. apply N.eqb_eq.
    set (b := N.of_nat (fst d - Nat.pred (fst y))).
    replace (N.of_nat (S (fst d) - Nat.pred (fst y))) with (b + 1) by (unfold b; lia).
    rewrite <- (rmbit_insbit (snd y) b (N.even (snd d))) in Em2.
    rewrite <- Em2. replace (N.of_nat (S (fst d) - fst y)) with b by (unfold b; lia).
    rewrite rmbit_insbit. unfold insbit.
    pose proof (N.mod_lt (snd y) (2 ^ b) (pow2_nz b)) as Hm.
    assert (Hc : N.b2n (N.even (snd d)) * 2 ^ b + snd y mod 2 ^ b < 2 ^ (b + 1)).
    { rewrite pow2_S. destruct (N.even (snd d)); cbn [N.b2n]; lia. }
    rewrite <- N.add_assoc, N.add_comm, N.div_add by apply pow2_nz. rewrite N.div_small by exact Hc. reflexivity.
  Qed.

  Lemma unlift1_inj y1 y2 : (mv d y1 = true -> (1 <= fst y1)%nat) -> (mv d y2 = true -> (1 <= fst y2)%nat) ->
    unlift1 d y1 = unlift1 d y2 -> y1 = y2.
  Proof.
    intros S1 S2 E. destruct (mv d y1) eqn:E1, (mv d y2) eqn:E2.
    - specialize (S1 eq_refl). specialize (S2 eq_refl). unfold unlift1 in E. rewrite E1, E2 in E.
      injection E as Er Eo. assert (Erow : fst y1 = fst y2) by lia.
      rewrite Erow in Eo. apply (f_equal (fun v => rmbit v (N.of_nat (fst d - Nat.pred (fst y2))))) in Eo.
      rewrite !rmbit_insbit in Eo. destruct y1, y2. cbn [fst snd] in *. congruence.
    - exfalso. destruct (mv_unlift y1 E1 (S1 eq_refl)) as [Hm _]. rewrite E, (unlift1_id d y2 E2) in Hm. congruence.
    - exfalso. destruct (mv_unlift y2 E2 (S2 eq_refl)) as [Hm _]. rewrite <- E, (unlift1_id d y1 E1) in Hm. congruence.
    - rewrite (unlift1_id d y1 E1), (unlift1_id d y2 E2) in E. exact E.
  Qed.

  Lemma unlift1_not_par y : (mv d y = true -> (1 <= fst y)%nat) -> unlift1 d y <> par d.
  Proof.
    intros Hs E. destruct (mv d y) eqn:Em.
    - destruct (mv_unlift y Em (Hs eq_refl)) as [_ Hr]. rewrite E in Hr. unfold par in Hr. cbn [fst] in Hr. lia.
    - rewrite (unlift1_id d y Em) in E. subst y. unfold mv, par in Em. cbn [fst snd] in Em.
      rewrite Nat.leb_refl, Nat.sub_diag in Em. change (N.of_nat 0) with 0 in Em.
      rewrite N.pow_0_r, N.div_1_r, N.eqb_refl in Em. discriminate.
  Qed.
End Bridge.

Section Steps.
  Variable H : Type.
  Variable HO : ops H.
  Variable R : nat.
  Variable n : N.
  Hypothesis HR : (R <= 63)%nat.
  Hypothesis Hn : n <= 2 ^ 63.
  Hypothesis ER : N.of_nat R = TreeRows n.
  Local Notation hp := (hp H).
  Local Notation cposh := (cposh H R).
  Local Notation total := (N.of_nat R).

  Definition safe1 (d y : coord) : Prop := mv d y = true -> (1 <= fst y)%nat.

  Lemma st_keys_nodup (X : list (coord * H)) : (forall e, In e X -> cvalid R (fst e)) ->
    NoDup (map fst X) -> NoDup (map fst (map cposh X)).
  Proof.
    intros Hv Hnd. rewrite map_map. cbn [ProofUpdateSpec.cposh fst].
    apply RefTheory.NoDup_map_inj_on; [exact (NoDup_map_inv _ _ Hnd)|].
    intros e1 e2 H1 H2 E. apply (cpos_inj R _ _ HR (Hv e1 H1) (Hv e2 H2)) in E.
    exact (ud_nodup_map_inj fst X Hnd e1 e2 H1 H2 E).
  Qed.

  Lemma st_sort_uniq (l1 l2 : list hp) : SSlt (map fst l1) -> Permutation l1 l2 -> l1 = sortK l2.
  Proof.
    intros Hs Hp. apply asc_perm_eq.
    - apply SSlt_ascK, Hs.
    - apply SpecBasics.sortK_asc.
    - eapply Permutation_trans; [exact Hp|apply Permutation_sym, RefTheory.sortK_perm].
    - apply pps_SSlt_NoDup, Hs.
  Qed.

  Lemma st_sorted_in (X : list (coord * H)) (e : hp) :
    In e (sortK (map cposh X)) <-> exists e0, In e0 X /\ e = cposh e0.
  Proof.
    rewrite RefTheory.sortK_In, in_map_iff. split; intros (e0 & A & B); exists e0; auto.
  Qed.

  Section One.
    Variable d : coord.
    Hypothesis Hd : dok R n d.
    Variable bh : H.
    Local Notation bt := (cpos R d).
    Local Notation sibPos := (Parent (cpos R d) (N.of_nat R)).
    Variable X : list (coord * H).
    Hypothesis HvX : forall e, In e X -> cvalid R (fst e) /\ safe1 d (fst e).
    Hypothesis HndX : NoDup (map fst X).
    Local Notation orig := (sortK (map cposh X)).

    Lemma st_Hso : SSlt (map fst orig).
    Proof. apply cc_sortK_SSlt, st_keys_nodup; [intros e He; exact (proj1 (HvX e He))|exact HndX]. Qed.

    Lemma st_Hlt e : In e orig -> ud_test bt sibPos n total (fst e) = true ->
      ud_mv bt sibPos n total (fst e) < fst e.
    Proof.
      intros He Ht. apply st_sorted_in in He as (e0 & He0 & ->). destruct (HvX e0 He0) as [Hv Hs].
      cbn [ProofUpdateSpec.cposh fst] in *. rewrite (ud_test_mv R n HR Hn ER d Hd _ Hv) in Ht.
      rewrite (ud_mv_unlift R n HR Hn ER d Hd _ Hv Hs).
      exact (unlift_row_lt R n HR Hn ER d Hd _ Hv Ht (Hs Ht)).
    Qed.

    Lemma st_Hinj e1 e2 : In e1 orig -> In e2 orig ->
      ud_mv bt sibPos n total (fst e1) = ud_mv bt sibPos n total (fst e2) -> fst e1 = fst e2.
    Proof.
      intros H1 H2 E. apply st_sorted_in in H1 as (a & Ha & ->). apply st_sorted_in in H2 as (b & Hb & ->).
      destruct (HvX a Ha) as [Hva Hsa]. destruct (HvX b Hb) as [Hvb Hsb].
      cbn [ProofUpdateSpec.cposh fst] in *.
      rewrite (ud_mv_unlift R n HR Hn ER d Hd _ Hva Hsa), (ud_mv_unlift R n HR Hn ER d Hd _ Hvb Hsb) in E.
      destruct Hd as (A & _).
      apply (cpos_inj R _ _ HR (unlift1_valid R d _ A Hva Hsa) (unlift1_valid R d _ A Hvb Hsb)) in E.
      rewrite (unlift1_inj R n HR Hn ER d _ _ Hsa Hsb E). reflexivity.
    Qed.

    Lemma st_mve_perm : Permutation (map (ud_mve H bt sibPos n total) orig) (map cposh (map (unlift_e d) X)).
    Proof.
      eapply Permutation_trans; [apply Permutation_map, RefTheory.sortK_perm|].
      rewrite !map_map. apply Permutation_refl'. apply map_ext_in. intros e He.
      destruct (HvX e He) as [Hv Hs]. unfold ud_mve, unlift_e, ProofUpdateSpec.cposh. cbn [fst snd].
      rewrite (ud_mv_unlift R n HR Hn ER d Hd _ Hv Hs). reflexivity.
    Qed.

    Lemma st_test_ex : (exists x, In x orig /\ ud_test bt sibPos n total (fst x) = true) <->
                       (exists x, In x X /\ mv d (fst x) = true).
    Proof.
      split.
      - intros (x & Hx & Ht). apply st_sorted_in in Hx as (e0 & He0 & ->). exists e0. split; [exact He0|].
        cbn [ProofUpdateSpec.cposh fst] in Ht. rewrite (ud_test_mv R n HR Hn ER d Hd _ (proj1 (HvX e0 He0))) in Ht. exact Ht.
      - intros (e0 & He0 & Hm). exists (cposh e0). split; [apply st_sorted_in; exists e0; auto|].
        cbn [ProofUpdateSpec.cposh fst]. rewrite (ud_test_mv R n HR Hn ER d Hd _ (proj1 (HvX e0 He0))). exact Hm.
    Qed.

    (** the loop over the cached targets for one block target *)
    Lemma step_targets (np : list hp) :
      exists np', ud_targets (length orig) 0 orig np bt bh sibPos n total
                  = (sortK (map cposh (map (unlift_e d) X)), np') /\
        (forall e, In e np' <-> In e np \/ (e = (bt, bh) /\ exists x, In x X /\ mv d (fst x) = true)).
    Proof.
      pose proof st_Hso as Hso.
      pose proof (ud_nd_inj H bt sibPos n total orig Hso st_Hlt st_Hinj) as Hnd.
      destruct (ud_targets_spec H bt bh sibPos n total orig Hso st_Hlt Hnd (length orig) 0 orig np
                  (Nat.le_refl _) (Nat.le_0_l _) Hso (Permutation_refl _))
        as (tw' & np' & E & A & B & C).
      exists np'. split.
      - rewrite E. f_equal. apply st_sort_uniq; [exact A|].
        eapply Permutation_trans; [exact B|exact st_mve_perm].
      - intros e. rewrite C. cbn [skipn]. rewrite st_test_ex. reflexivity.
    Qed.

    (** the loop over the proof positions for one block target *)
    Lemma step_proofs :
      exists Gc, (Gc = [] \/ exists hg, Gc = [(par d, hg)]) /\
        ud_proof HO (length orig) 0 (positions orig) true orig bt bh sibPos n total
        = Some (sortK (map cposh (map (unlift_e d) X ++ Gc))).
    Proof.
      pose proof st_Hso as Hso.
      pose proof (ud_nd_inj H bt sibPos n total orig Hso st_Hlt st_Hinj) as Hnd.
      pose proof (br_sib R n HR d Hd) as Esib.
      destruct (ud_proof_spec H HO bt bh sibPos n total orig Hso st_Hlt Hnd) as (cur' & G' & E & A & B & C).
      - intros e He Ht. apply st_sorted_in in He as (e0 & He0 & ->). destruct (HvX e0 He0) as [Hv Hs].
        cbn [ProofUpdateSpec.cposh fst] in *. rewrite (ud_test_mv R n HR Hn ER d Hd _ Hv) in Ht.
        rewrite Esib. exact (mv_le_sib R n HR Hn ER d Hd _ Hv Ht).
      - intros e He Ee. apply st_sorted_in in He as (e0 & He0 & ->). destruct (HvX e0 He0) as [Hv Hs].
        cbn [ProofUpdateSpec.cposh fst] in *. rewrite (ud_mv_unlift R n HR Hn ER d Hd _ Hv Hs), Esib in Ee.
        destruct Hd as (A1 & B1 & _).
        apply (cpos_inj R _ _ HR (unlift1_valid R d _ A1 Hv Hs) (par_valid R d A1 B1)) in Ee.
        exact (unlift1_not_par R n HR Hn ER d _ Hs Ee).
      - destruct C as [->|(hg & ->)].
        + exists []. split; [left; reflexivity|]. refine (eq_trans E _). f_equal. rewrite app_nil_r in *.
          apply st_sort_uniq; [exact A|]. eapply Permutation_trans; [exact B|exact st_mve_perm].
        + exists [(par d, hg)]. split; [right; exists hg; reflexivity|]. refine (eq_trans E _). f_equal.
          apply st_sort_uniq; [exact A|]. eapply Permutation_trans; [exact B|].
          rewrite map_app. apply Permutation_app; [exact st_mve_perm|].
          cbn [map ProofUpdateSpec.cposh fst snd]. rewrite Esib. apply Permutation_refl.
    Qed.
  End One.
End Steps.

(** * 4. The loop over the block targets ([ud_blocks]) *)

Lemma ud_targets_np_asc {H} : forall k i (tw np : list (hp H)) bt bh sibPos n total,
  SpecBasics.ascK np -> SpecBasics.ascK (snd (ud_targets k i tw np bt bh sibPos n total)).
Proof.
  induction k as [|k IH]; intros i tw np bt bh sibPos n total Hnp; [exact Hnp|].
  cbn [ud_targets]. destruct (nth_error tw i) as [e|]; [|exact Hnp].
  destruct (negb (subtree_of (fst e) n =? subtree_of bt n)); [apply IH, Hnp|].
  destruct (isAncestor sibPos (fst e) total || (sibPos =? fst e)); [|apply IH, Hnp].
  apply IH, SpecBasics.sortK_asc.
Qed.

Lemma ud_blocks_cons {H} (HO : ops H) (b : hp H) rest (tw pw np : list (hp H)) n total r pw' :
  ud_targets (length tw) 0 tw np (fst b) (snd b) (Parent (fst b) total) n total = r ->
  ud_proof HO (length pw) 0 (positions pw) true pw (fst b) (snd b) (Parent (fst b) total) n total = Some pw' ->
  ud_blocks HO (b :: rest) tw pw np n total = ud_blocks HO rest (fst r) pw' (snd r) n total.
Proof. intros <- E. cbn [ud_blocks]. cbv zeta. rewrite E. reflexivity. Qed.

Section Blocks.
  Variable H : Type.
  Variable HO : ops H.
  Variable R : nat.
  Variable n : N.
  Hypothesis HR : (R <= 63)%nat.
  Hypothesis Hn : n <= 2 ^ 63.
  Hypothesis ER : N.of_nat R = TreeRows n.
  Local Notation hp := (hp H).
  Local Notation cposh := (cposh H R).
  Local Notation total := (N.of_nat R).

  (** the entries added at the parents of the targets are not moved by the later targets *)
  Fixpoint garb (Ds : list coord) : Prop :=
    match Ds with
    | [] => True
    | d :: rest => (forall d', In d' rest -> mv d' (par d) = false) /\ garb rest
    end.

  Definition bpos (b : coord * H) : hp := (cpos R (fst b), snd b).
  Definition unl_e (Ds : list coord) (e : coord * H) : coord * H := (unl Ds (fst e), snd e).

  Lemma ud_blocks_spec : forall (Bs TW PW : list (coord * H)) (np : list hp),
    (forall b, In b Bs -> dok R n (fst b)) -> garb (map fst Bs) ->
    (forall e, In e TW -> cvalid R (fst e) /\ unl_to (map fst Bs) (fst e) (unl (map fst Bs) (fst e))) ->
    (forall e, In e PW -> cvalid R (fst e) /\ unl_to (map fst Bs) (fst e) (unl (map fst Bs) (fst e))) ->
    NoDup (map fst TW) -> NoDup (map fst PW) -> SpecBasics.ascK np ->
    exists PW' np',
      ud_blocks HO (map bpos Bs) (sortK (map cposh TW)) (sortK (map cposh PW)) np n total
      = Some (sortK (map cposh (map (unl_e (map fst Bs)) TW)), sortK (map cposh PW'), np') /\
      NoDup (map fst PW') /\ (forall e, In e PW' -> cvalid R (fst e)) /\
      (forall e, In e PW -> In (unl_e (map fst Bs) e) PW') /\
      (forall e', In e' PW' -> (exists e, In e PW /\ e' = unl_e (map fst Bs) e) \/
                               (exists b, In b Bs /\ fst e' = par (fst b))) /\
      SpecBasics.ascK np' /\
      (forall e, In e np' -> In e np \/ exists b, In b Bs /\ e = bpos b).
  Proof.
    induction Bs as [|b Bs IH]; intros TW PW np HB Hg HT HP NT NP Hnp.
    - exists PW, np. cbn [map ud_blocks]. split.
      { assert (Eid : map (unl_e []) TW = TW).
        { rewrite <- (map_id TW) at 2. apply map_ext. intros [y h]. reflexivity. }
        rewrite Eid. reflexivity. }
      split; [exact NP|]. split; [intros e He; exact (proj1 (HP e He))|]. split.
      { intros [y h] He. exact He. }
      split; [intros e' He'; left; exists e'; split; [exact He'|destruct e'; reflexivity]|].
      split; [exact Hnp|auto].
    - set (d := fst b). pose proof (HB b (or_introl eq_refl)) as Hd. fold d in Hd.
      cbn [map garb] in Hg. destruct Hg as [Hg1 Hg2]. fold d in Hg1.
      assert (HT1 : forall e, In e TW -> cvalid R (fst e) /\ safe1 d (fst e)).
      { intros e He. destruct (HT e He) as [Hv Hu]. cbn [map unl_to] in Hu. fold d in Hu. split; [exact Hv|exact (proj1 Hu)]. }
      assert (HP1 : forall e, In e PW -> cvalid R (fst e) /\ safe1 d (fst e)).
      { intros e He. destruct (HP e He) as [Hv Hu]. cbn [map unl_to] in Hu. fold d in Hu. split; [exact Hv|exact (proj1 Hu)]. }
      destruct (step_targets H R n HR Hn ER d Hd (snd b) TW HT1 NT np) as (np1 & Et & Hnp1).
      destruct (step_proofs H HO R n HR Hn ER d Hd (snd b) PW HP1 NP) as (Gc & HGc & Ep).
      set (TW1 := map (unlift_e d) TW) in *. set (PW1 := map (unlift_e d) PW ++ Gc) in *.
      destruct Hd as (Hd1 & Hd2 & Hd3).
      assert (Hunl : forall y, unl (map fst (b :: Bs)) y = unl (map fst Bs) (unlift1 d y)) by reflexivity.
      assert (HGv : forall g, In g Gc -> fst g = par d).
      { intros g Hg. destruct HGc as [->|(hg & ->)]; [destruct Hg|]. destruct Hg as [<-|[]]. reflexivity. }
      assert (Hpar : unl_to (map fst Bs) (par d) (par d)).
      { apply unl_to_id. exact Hg1. }
      assert (HT' : forall e, In e TW1 -> cvalid R (fst e) /\ unl_to (map fst Bs) (fst e) (unl (map fst Bs) (fst e))).
      { intros e' He'. unfold TW1 in He'. apply in_map_iff in He' as (e & <- & He).
        destruct (HT e He) as [Hv Hu]. cbn [map unl_to] in Hu. fold d in Hu. destruct Hu as [Hs Hu].
        cbn [unlift_e fst]. split; [exact (unlift1_valid R d _ Hd1 Hv Hs)|]. rewrite Hunl in Hu. exact Hu. }
      assert (HP' : forall e, In e PW1 -> cvalid R (fst e) /\ unl_to (map fst Bs) (fst e) (unl (map fst Bs) (fst e))).
      { intros e' He'. unfold PW1 in He'. apply in_app_or in He' as [He'|He'].
        - apply in_map_iff in He' as (e & <- & He).
          destruct (HP e He) as [Hv Hu]. cbn [map unl_to] in Hu. fold d in Hu. destruct Hu as [Hs Hu].
          cbn [unlift_e fst]. split; [exact (unlift1_valid R d _ Hd1 Hv Hs)|]. rewrite Hunl in Hu. exact Hu.
        - rewrite (HGv e' He'). split; [exact (par_valid R d Hd1 Hd2)|].
          rewrite (unl_to_fun _ _ _ Hpar). exact Hpar. }
      assert (NT' : NoDup (map fst TW1)).
      { unfold TW1. rewrite map_map. cbn [unlift_e fst].
        apply RefTheory.NoDup_map_inj_on; [exact (NoDup_map_inv _ _ NT)|].
        intros e1 e2 H1 H2 E.
        pose proof (unlift1_inj R n HR Hn ER d _ _ (proj2 (HT1 e1 H1)) (proj2 (HT1 e2 H2)) E) as Ey.
        exact (ud_nodup_map_inj fst TW NT e1 e2 H1 H2 Ey). }
      assert (NP' : NoDup (map fst PW1)).
      { unfold PW1. rewrite map_app. apply NoDup_app3.
        - rewrite map_map. cbn [unlift_e fst].
          apply RefTheory.NoDup_map_inj_on; [exact (NoDup_map_inv _ _ NP)|].
          intros e1 e2 H1 H2 E.
          pose proof (unlift1_inj R n HR Hn ER d _ _ (proj2 (HP1 e1 H1)) (proj2 (HP1 e2 H2)) E) as Ey.
          exact (ud_nodup_map_inj fst PW NP e1 e2 H1 H2 Ey).
        - destruct HGc as [->|(hg & ->)]; [constructor|]. cbn [map]. constructor; [intros []|constructor].
        - intros x Hx Hg. apply in_map_iff in Hg as (g & <- & Hg). rewrite (HGv g Hg) in Hx.
          apply in_map_iff in Hx as (e' & Ee & He'). apply in_map_iff in He' as (e & <- & He).
          cbn [unlift_e fst] in Ee. exact (unlift1_not_par R n HR Hn ER d _ (proj2 (HP1 e He)) Ee). }
      assert (Hnp1a : SpecBasics.ascK np1).
      { pose proof (ud_targets_np_asc (length (sortK (map cposh TW))) 0 (sortK (map cposh TW)) np
                      (cpos R d) (snd b) (Parent (cpos R d) total) n total Hnp) as Ha.
        rewrite Et in Ha. exact Ha. }
      destruct (IH TW1 PW1 np1 (fun b' Hb' => HB b' (or_intror Hb')) Hg2 HT' HP' NT' NP' Hnp1a)
        as (PW' & np' & E & A1 & A2 & A3 & A4 & A5 & A6).
      exists PW', np'. split; [|split; [exact A1|split; [exact A2|split; [|split; [|split; [exact A5|]]]]]].
      + cbn [map].
        refine (eq_trans (ud_blocks_cons HO (bpos b) (map bpos Bs) _ _ np n total _ _ Et Ep) _).
        cbn [fst snd]. refine (eq_trans E _). f_equal. f_equal. f_equal. f_equal. f_equal.
        unfold TW1. rewrite map_map. apply map_ext. intros [y h]. reflexivity.
      + intros e He. specialize (A3 (unlift_e d e)). apply A3. unfold PW1. apply in_or_app. left. apply in_map, He.
      + intros e' He'. destruct (A4 e' He') as [(e1 & He1 & ->)|(b' & Hb' & Eb')].
        * unfold PW1 in He1. apply in_app_or in He1 as [He1|He1].
          -- apply in_map_iff in He1 as (e & <- & He). left. exists e. split; [exact He|reflexivity].
          -- right. exists b. split; [left; reflexivity|]. cbn [unl_e fst]. rewrite (HGv e1 He1).
             exact (unl_to_fun _ _ _ Hpar).
        * right. exists b'. split; [right; exact Hb'|exact Eb'].
      + intros e He. destruct (A6 e He) as [He1|(b' & Hb' & ->)].
        * apply Hnp1 in He1 as [He1|(-> & _)]; [left; exact He1|]. right. exists b. split; [left; reflexivity|reflexivity].
        * right. exists b'. split; [right; exact Hb'|reflexivity].
  Qed.
End Blocks.

(** * 5. The contraction of [prune] undone: un-lifting over the deleted leaves in reverse order *)

Lemma mv_underb d y : mv d y = underb (par d) y.
Proof. reflexivity. Qed.

Lemma mv_under d y : mv d y = true <-> under (par d) y.
Proof. rewrite mv_underb. apply underb_spec. Qed.

(** the lift over [d] of a coordinate below the sibling of [d] comes back ([d] a left or a right child) *)
Lemma unlift1_lift1_gen d z : (fst z <= fst d)%nat ->
  snd z / 2 ^ (N.of_nat (fst d - fst z) + 1) = snd d / 2 ->
  N.testbit (snd z) (N.of_nat (fst d - fst z)) = N.even (snd d) ->
  mv d (lift1 d z) = true /\ (1 <= fst (lift1 d z))%nat /\ unlift1 d (lift1 d z) = z.
Proof.
  intros Hr Eb1 Et. destruct d as [rd sd], z as [rz oz]. cbn [fst snd] in *.
  set (b := N.of_nat (rd - rz)) in *.
  assert (Ea : anc (S rd, sd / 2) (rz, oz) = true).
  { unfold anc. cbn [fst snd]. apply andb_true_iff. split; [apply Nat.ltb_lt; lia|].
    apply N.eqb_eq. replace (N.of_nat (S rd - rz)) with (b + 1) by (unfold b; lia). exact Eb1. }
  unfold lift1. cbn [fst snd]. rewrite Ea. fold b.
  assert (Er : rmbit oz b / 2 ^ b = sd / 2) by (rewrite pm_rmbit_div; exact Eb1).
  assert (Em : mv (rd, sd) (S rz, rmbit oz b) = true).
  { unfold mv. cbn [fst snd]. apply andb_true_iff. split; [apply Nat.leb_le; lia|].
    apply N.eqb_eq. replace (N.of_nat (S rd - S rz)) with b by (unfold b; lia). exact Er. }
  split; [exact Em|]. split; [cbn [fst]; lia|].
  unfold unlift1. rewrite Em. cbn [fst snd Nat.pred]. fold b. f_equal.
  rewrite <- Et. apply insbit_rmbit.
Qed.

(** the sibling subtree of a deleted node, moved up, moves down again *)
Lemma unlift1_sibling P b rest : (1 <= fst P)%nat -> (S (length rest) <= fst P)%nat ->
  mv (chd (bN b) P) (walk P rest) = true /\ (1 <= fst (walk P rest))%nat /\
  unlift1 (chd (bN b) P) (walk P rest) = walk (chd (bN (negb b)) P) rest.
Proof.
  intros HP Hl. set (d := chd (bN b) P). set (z := walk (chd (bN (negb b)) P) rest).
  pose proof (lift1_sibling P b rest HP Hl) as El. fold d z in El.
  assert (Hlz : (length rest <= fst (chd (bN (negb b)) P))%nat) by (unfold chd; cbn [fst]; lia).
  destruct (walk_coord rest _ Hlz) as [W1 W2]. fold z in W1, W2.
  assert (Fd : fst d = Nat.pred (fst P)) by reflexivity.
  assert (Sd : snd d = 2 * snd P + bN b) by reflexivity.
  assert (Fz : (fst d - fst z)%nat = length rest).
  { rewrite W1, Fd. unfold chd. cbn [fst]. lia. }
  assert (Sz : snd z / 2 ^ N.of_nat (length rest) = 2 * snd P + bN (negb b)) by exact W2.
  destruct (unlift1_lift1_gen d z) as (A & B & C).
  - rewrite W1, Fd. unfold chd. cbn [fst]. lia.
  - rewrite Fz, N.pow_add_r, N.pow_1_r, <- N.div_div by (try apply pow2_nz; lia). rewrite Sz, Sd.
    destruct b; cbn [bN negb]; rewrite ?N.add_0_r.
    + rewrite (N.mul_comm 2), N.div_mul by lia. replace (snd P * 2 + 1) with (1 + snd P * 2) by lia.
      rewrite N.div_add by lia. reflexivity.
    + replace (2 * snd P + 1) with (1 + snd P * 2) by lia. rewrite N.div_add by lia.
      rewrite (N.mul_comm 2), N.div_mul by lia. reflexivity.
  - rewrite Fz. apply eq_true_iff_eq. rewrite N.testbit_true, Sz, Sd.
    destruct b; cbn [bN negb]; rewrite ?N.add_0_r.
    + replace (2 * snd P + 1) with (1 + 2 * snd P) by lia. rewrite N.even_add_mul_2.
      rewrite (N.mul_comm 2), N.mod_mul by lia. split; [discriminate|intros X; discriminate X].
    + replace (2 * snd P + 1) with (1 + snd P * 2) by lia. rewrite N.mod_add by lia.
      replace (2 * snd P) with (0 + 2 * snd P) by lia. rewrite N.even_add_mul_2. split; reflexivity.
  - rewrite El in A, B, C. auto.
Qed.

Lemma filter_rev' {A} (f : A -> bool) (l : list A) : filter f (rev l) = rev (filter f l).
Proof.
  induction l as [|x l IH]; [reflexivity|]. cbn [rev filter]. rewrite filter_app, IH. cbn [filter].
  destruct (f x); [reflexivity|apply app_nil_r].
Qed.

(** targets outside a region do not matter inside it *)
Lemma unl_to_filter A : forall Dr y z, under A y ->
  (forall d, In d Dr -> underb A d = true -> forall y', under A y' ->
     (mv d y' = true -> (1 <= fst y')%nat) -> under A (unlift1 d y')) ->
  (forall d, In d Dr -> underb A d = false -> forall y', under A y' -> mv d y' = false) ->
  unl_to (filter (underb A) Dr) y z -> unl_to Dr y z.
Proof.
  induction Dr as [|d Dr IH]; intros y z Hy Hin Hout Hu; [exact Hu|].
  assert (HinD : forall d', In d' Dr -> underb A d' = true -> forall y', under A y' ->
            (mv d' y' = true -> (1 <= fst y')%nat) -> under A (unlift1 d' y'))
    by (intros d' Hd'; apply Hin; right; exact Hd').
  assert (HoutD : forall d', In d' Dr -> underb A d' = false -> forall y', under A y' -> mv d' y' = false)
    by (intros d' Hd'; apply Hout; right; exact Hd').
  cbn [filter] in Hu. cbn [unl_to]. destruct (underb A d) eqn:Eu.
  - cbn [unl_to] in Hu. destruct Hu as [Hs Hu]. split; [exact Hs|].
    apply IH; [exact (Hin d (or_introl eq_refl) Eu y Hy Hs)|exact HinD|exact HoutD|exact Hu].
  - pose proof (Hout d (or_introl eq_refl) Eu y Hy) as Em. split; [rewrite Em; discriminate|].
    rewrite (unlift1_id d y Em). apply IH; assumption.
Qed.

(** a coordinate moved down stays below the parent of the target *)
Lemma unlift1_under d y : mv d y = true -> (1 <= fst y)%nat -> under (par d) (unlift1 d y).
Proof.
  intros Em Hr. apply mv_under.
  unfold unlift1. rewrite Em. unfold mv in *. cbn [fst snd].
  apply andb_true_iff in Em as [Em1 Em2]. apply Nat.leb_le in Em1. apply N.eqb_eq in Em2.
  apply andb_true_iff. split; [apply Nat.leb_le; lia|]. apply N.eqb_eq.
  set (b := N.of_nat (fst d - Nat.pred (fst y))).
  replace (N.of_nat (S (fst d) - Nat.pred (fst y))) with (b + 1) by (unfold b; lia).
  rewrite <- Em2. replace (N.of_nat (S (fst d) - fst y)) with b by (unfold b; lia).
  unfold insbit.
  pose proof (N.mod_lt (snd y) (2 ^ b) (pow2_nz b)) as Hm.
  assert (Hc : N.b2n (N.even (snd d)) * 2 ^ b + snd y mod 2 ^ b < 2 ^ (b + 1)).
  { rewrite pow2_S. destruct (N.even (snd d)); cbn [N.b2n]; lia. }
  rewrite <- N.add_assoc, N.add_comm, N.div_add by apply pow2_nz. rewrite N.div_small by exact Hc. reflexivity.
Qed.

Lemma un_region_closed A tau y : tau <> [] -> (length tau <= fst A)%nat -> under A y ->
  (mv (walk A tau) y = true -> (1 <= fst y)%nat) -> under A (unlift1 (walk A tau) y).
Proof.
  intros Hne Hl Hy Hs. set (d := walk A tau) in *.
  destruct (mv d y) eqn:Em; [|rewrite (unlift1_id d y Em); exact Hy].
  apply (under_trans A (par d)); [exact (under_parent_walk A tau Hne Hl)|exact (unlift1_under d y Em (Hs eq_refl))].
Qed.

Lemma un_region_disj Z b tau y : (1 <= fst Z)%nat -> tau <> [] -> (S (length tau) <= fst Z)%nat ->
  under (chd (bN (negb b)) Z) y -> mv (walk (chd (bN b) Z) tau) y = false.
Proof.
  intros HZ Hne Hl Hy. set (d := walk (chd (bN b) Z) tau).
  destruct (mv d y) eqn:Em; [exfalso|reflexivity]. apply mv_under in Em.
  assert (HA : under (chd (bN b) Z) (par d)).
  { apply under_parent_walk; [exact Hne|]. unfold chd. cbn [fst]. lia. }
  pose proof (under_trans _ _ _ HA Em) as HAy.
  destruct b; cbn [bN negb] in *; [exact (under_chd_disj Z y HZ Hy HAy)|exact (under_chd_disj Z y HZ HAy Hy)].
Qed.

Section UnlTree.
  Variable H : Type.
  Variable HO : ops H.
  Hypothesis HOK : ops_ok HO.
  Variable hs : list H.
  Local Notation prune := (RefTheory.prune HO hs).
  Local Notation ppath := (ppath H HO hs).
  Local Notation dlist := (dlist H HO hs).
  Local Notation regular := (regular H HO hs).
  Local Notation uncontracted := (uncontracted H HO hs).

  Lemma ppath_nil (c : ctree H) : ppath c [] = [].
  Proof. destruct c; reflexivity. Qed.

  Theorem unl_tree_multi : forall c : ctree H, regular c -> forall Y, (cheight H c <= fst Y)%nat ->
    forall D, StronglySorted clt D -> (forall d, In d D <-> In d (dlist c Y)) ->
    forall pi c0 c0', occp H c pi c0 -> prune c0 = Some c0' -> uncontracted c0 ->
      unl_to (rev D) (walk Y (ppath c pi)) (walk Y pi).
  Proof.
    induction c as [h|h l IHl r IHr]; intros Hreg Y HY D Hs Hp pi c0 c0' Ho Hpr Hun.
    - inversion Ho; subst. cbn [RefTheory.prune] in Hpr. cbn [ProofUpdateDel.dlist] in Hp.
      destruct (memH HO h hs); [discriminate|]. destruct D as [|d D]; [reflexivity|].
      exfalso. exact (proj1 (Hp d) (or_introl eq_refl)).
    - cbn [cheight] in HY. cbn [ProofUpdateDel.dlist] in Hp.
      assert (HZ : (1 <= fst Y)%nat) by lia.
      assert (Hhl : (cheight H l <= fst (chd 0 Y))%nat) by (unfold chd; cbn [fst]; lia).
      assert (Hhr : (cheight H r <= fst (chd 1 Y))%nat) by (unfold chd; cbn [fst]; lia).
      inversion Ho; subst.
      + (* the top: both children survive, nothing below reaches it *)
        rewrite ppath_nil. cbn [walk fold_left]. apply unl_to_id. intros d Hd. apply in_rev in Hd.
        destruct (Hun h l r eq_refl) as [Pl Pr].
        destruct (mv d Y) eqn:Em; [exfalso|reflexivity]. apply mv_under in Em. destruct Em as [Em _].
        apply Hp in Hd. apply in_app_or in Hd as [Hd|Hd].
        * destruct (dlist_walk H HO hs l _ d Hhl Hd) as (tau & -> & Hlt & Hne). specialize (Hne Pl).
          destruct (walk_coord tau (chd 0 Y) ltac:(lia)) as [W1 _]. unfold par in Em. cbn [fst] in Em.
          rewrite W1 in Em. unfold chd in Em. cbn [fst] in Em. destruct tau; [contradiction|cbn [length] in *; lia].
        * destruct (dlist_walk H HO hs r _ d Hhr Hd) as (tau & -> & Hlt & Hne). specialize (Hne Pr).
          destruct (walk_coord tau (chd 1 Y) ltac:(lia)) as [W1 _]. unfold par in Em. cbn [fst] in Em.
          rewrite W1 in Em. unfold chd in Em. cbn [fst] in Em. destruct tau; [contradiction|cbn [length] in *; lia].
      + (* below the left child *)
        match goal with X : occp H l _ c0 |- _ => rename X into Hol end.
        pose proof (occp_height H _ _ _ Hol) as Hh2.
        destruct (prune_occp H HO hs l _ c0 Hol c0' Hpr) as (l' & Pl & _).
        change (walk Y (false :: ?p)) with (walk (chd 0 Y) p). cbn [ProofUpdateDel.ppath].
        destruct (prune r) as [r'|] eqn:Pr.
        * change (walk Y (false :: ?p)) with (walk (chd 0 Y) p).
          apply (unl_to_filter (chd 0 Y)).
          -- apply under_walk. pose proof (ppath_length H HO hs l pi0). unfold chd. cbn [fst]. lia.
          -- intros d Hd Eu y Hy Hsf. apply in_rev in Hd. apply Hp in Hd. apply in_app_or in Hd as [Hd|Hd].
             ++ destruct (dlist_walk H HO hs l _ d Hhl Hd) as (tau & -> & Hlt & Hne).
                apply un_region_closed; [apply Hne; rewrite Pl; discriminate|unfold chd; cbn [fst]; lia|exact Hy|exact Hsf].
             ++ exfalso. apply underb_spec in Eu. exact (under_chd_disj Y d HZ Eu (dlist_under H HO hs r _ d Hhr Hd)).
          -- intros d Hd Eu y Hy. apply in_rev in Hd. apply Hp in Hd. apply in_app_or in Hd as [Hd|Hd].
             ++ exfalso. assert (Ht : underb (chd 0 Y) d = true) by (apply underb_spec, (dlist_under H HO hs l _ d Hhl Hd)). congruence.
             ++ destruct (dlist_walk H HO hs r _ d Hhr Hd) as (tau & -> & Hlt & Hne).
                apply (un_region_disj Y true tau y HZ); [apply Hne; rewrite Pr; discriminate|lia|exact Hy].
          -- rewrite filter_rev'.
             refine (IHl (regular_l H HO hs _ _ _ Hreg) (chd 0 Y) Hhl _ (SS_filter _ _ _ Hs) _ pi0 c0 c0' Hol Hpr Hun).
             intros d. rewrite filter_In, Hp, in_app_iff, underb_spec. split.
             ++ intros [[Hd|Hd] Hu]; [exact Hd|]. exfalso. exact (under_chd_disj Y d HZ Hu (dlist_under H HO hs r _ d Hhr Hd)).
             ++ intros Hd. split; [left; exact Hd|exact (dlist_under H HO hs l _ d Hhl Hd)].
        * destruct (Hreg [true] r ltac:(constructor; constructor) Pr) as (hr & ->).
          rewrite (prune_none_leaf H HO hs _ hr eq_refl Pr) in Hp.
          assert (Hp2 : forall d, In d D <-> In d (dlist l (chd 0 Y)) \/ d = chd 1 Y).
          { intros d. rewrite Hp, in_app_iff. cbn [In]. split.
            - intros [A|[B|[]]]; [left; exact A|right; symmetry; exact B].
            - intros [A|B]; [left; exact A|right; left; symmetry; exact B]. }
          destruct (sorted_last D (dlist l (chd 0 Y)) (chd 1 Y) Hs Hp2) as (D' & -> & Hp' & Hs').
          { intros a Ha. left. pose proof (dlist_row H HO hs l _ a Hhl ltac:(rewrite Pl; discriminate) Ha) as Hr.
            unfold chd in *. cbn [fst] in *. exact Hr. }
          rewrite rev_app_distr. cbn [rev app unl_to].
          pose proof (ppath_length H HO hs l pi0) as Hpl.
          destruct (unlift1_sibling Y true (ppath l pi0) HZ ltac:(lia)) as (A & B & C). cbn [bN negb] in A, B, C.
          split; [intros _; exact B|]. rewrite C.
          exact (IHl (regular_l H HO hs _ _ _ Hreg) (chd 0 Y) Hhl D' Hs' Hp' pi0 c0 c0' Hol Hpr Hun).
      + (* below the right child *)
        match goal with X : occp H r _ c0 |- _ => rename X into Hor end.
        pose proof (occp_height H _ _ _ Hor) as Hh2.
        destruct (prune_occp H HO hs r _ c0 Hor c0' Hpr) as (r' & Pr & _).
        change (walk Y (true :: ?p)) with (walk (chd 1 Y) p). cbn [ProofUpdateDel.ppath].
        destruct (prune l) as [l'|] eqn:Pl.
        * change (walk Y (true :: ?p)) with (walk (chd 1 Y) p).
          apply (unl_to_filter (chd 1 Y)).
          -- apply under_walk. pose proof (ppath_length H HO hs r pi0). unfold chd. cbn [fst]. lia.
          -- intros d Hd Eu y Hy Hsf. apply in_rev in Hd. apply Hp in Hd. apply in_app_or in Hd as [Hd|Hd].
             ++ exfalso. apply underb_spec in Eu. exact (under_chd_disj Y d HZ (dlist_under H HO hs l _ d Hhl Hd) Eu).
             ++ destruct (dlist_walk H HO hs r _ d Hhr Hd) as (tau & -> & Hlt & Hne).
                apply un_region_closed; [apply Hne; rewrite Pr; discriminate|unfold chd; cbn [fst]; lia|exact Hy|exact Hsf].
          -- intros d Hd Eu y Hy. apply in_rev in Hd. apply Hp in Hd. apply in_app_or in Hd as [Hd|Hd].
             ++ destruct (dlist_walk H HO hs l _ d Hhl Hd) as (tau & -> & Hlt & Hne).
                apply (un_region_disj Y false tau y HZ); [apply Hne; rewrite Pl; discriminate|lia|exact Hy].
             ++ exfalso. assert (Ht : underb (chd 1 Y) d = true) by (apply underb_spec, (dlist_under H HO hs r _ d Hhr Hd)). congruence.
          -- rewrite filter_rev'.
             refine (IHr (regular_r H HO hs _ _ _ Hreg) (chd 1 Y) Hhr _ (SS_filter _ _ _ Hs) _ pi0 c0 c0' Hor Hpr Hun).
             intros d. rewrite filter_In, Hp, in_app_iff, underb_spec. split.
             ++ intros [[Hd|Hd] Hu]; [|exact Hd]. exfalso. exact (under_chd_disj Y d HZ (dlist_under H HO hs l _ d Hhl Hd) Hu).
             ++ intros Hd. split; [right; exact Hd|exact (dlist_under H HO hs r _ d Hhr Hd)].
        * destruct (Hreg [false] l ltac:(constructor; constructor) Pl) as (hl & ->).
          rewrite (prune_none_leaf H HO hs _ hl eq_refl Pl) in Hp.
          assert (Hp2 : forall d, In d D <-> In d (dlist r (chd 1 Y)) \/ d = chd 0 Y).
          { intros d. rewrite Hp, in_app_iff. cbn [In]. split.
            - intros [[A|[]]|B]; [right; symmetry; exact A|left; exact B].
            - intros [A|B]; [right; exact A|left; left; symmetry; exact B]. }
          destruct (sorted_last D (dlist r (chd 1 Y)) (chd 0 Y) Hs Hp2) as (D' & -> & Hp' & Hs').
          { intros a Ha. left. pose proof (dlist_row H HO hs r _ a Hhr ltac:(rewrite Pr; discriminate) Ha) as Hr.
            unfold chd in *. cbn [fst] in *. exact Hr. }
          rewrite rev_app_distr. cbn [rev app unl_to].
          pose proof (ppath_length H HO hs r pi0) as Hpl.
          destruct (unlift1_sibling Y false (ppath r pi0) HZ ltac:(lia)) as (A & B & C). cbn [bN negb] in A, B, C.
          split; [intros _; exact B|]. rewrite C.
          exact (IHr (regular_r H HO hs _ _ _ Hreg) (chd 1 Y) Hhr D' Hs' Hp' pi0 c0 c0' Hor Hpr Hun).
  Qed.
End UnlTree.

Lemma SS_snoc {A} (Rr : A -> A -> Prop) (l : list A) x : StronglySorted Rr l -> (forall y, In y l -> Rr y x) ->
  StronglySorted Rr (l ++ [x]).
Proof.
  induction l as [|a l IH]; intros Hs Hx; cbn [app]; [repeat constructor|].
  apply StronglySorted_inv in Hs as [Hs Ha]. constructor; [apply IH; [exact Hs|intros y Hy; apply Hx; right; exact Hy]|].
  rewrite Forall_forall in *. intros y Hy. apply in_app_or in Hy as [Hy|[<-|[]]]; [exact (Ha y Hy)|apply Hx; left; reflexivity].
Qed.

Lemma SS_rev_flip {A} (Rr : A -> A -> Prop) (l : list A) : StronglySorted Rr l ->
  StronglySorted (fun a b => Rr b a) (rev l).
Proof.
  induction l as [|a l IH]; intros Hs; [constructor|]. apply StronglySorted_inv in Hs as [Hs Ha].
  cbn [rev]. apply SS_snoc; [exact (IH Hs)|]. rewrite Forall_forall in Ha.
  intros y Hy. apply in_rev in Hy. exact (Ha y Hy).
Qed.

(** the parent of a target is not moved by the targets that come later in the loop *)
Lemma garb_sorted : forall l : list coord, StronglySorted (fun a b => clt b a) l ->
  (forall d d', In d l -> In d' l -> par d = par d' -> d = d') -> garb l.
Proof.
  induction l as [|d l IH]; intros Hs Htw; [exact I|]. apply StronglySorted_inv in Hs as [Hs Hd].
  rewrite Forall_forall in Hd. cbn [garb]. split.
  - intros d' Hd'. destruct (mv d' (par d)) eqn:Em; [exfalso|reflexivity].
    apply mv_under in Em. pose proof (Hd d' Hd') as Hc.
    destruct Em as [Er Eo]. unfold par in Er, Eo. cbn [fst snd] in Er, Eo.
    assert (Erow : fst d = fst d') by (unfold clt in Hc; lia).
    rewrite Erow, Nat.sub_diag in Eo. change (N.of_nat 0) with 0 in Eo. rewrite N.pow_0_r, N.div_1_r in Eo.
    assert (Ep : par d = par d') by (unfold par; rewrite Erow, Eo; reflexivity).
    pose proof (Htw d d' (or_introl eq_refl) (or_intror Hd') Ep) as <-. exact (clt_irrefl _ Hc).
  - apply IH; [exact Hs|]. intros a b Ha Hb. apply Htw; right; assumption.
Qed.

Section UnlForest.
  Variable H : Type.
  Variable HO : ops H.
  Hypothesis HOK : ops_ok HO.
  Variable s : slots H.
  Variable hs : list H.
  Local Notation entry := (StumpAdd.entry H).
  Local Notation erow := (@StumpAdd.erow H).
  Local Notation ecoord := (@StumpAddData.ecoord H).
  Local Notation prune := (RefTheory.prune HO hs).
  Local Notation ppath := (ppath H HO hs).
  Local Notation s1 := (kill HO hs s).

  Hypothesis REG : forall (e : entry) ce, In e (forest HO s) -> snd e = Some ce ->
    regular H HO hs ce /\ prune ce <> None.
  Variable D : list coord.
  Hypothesis HsD : StronglySorted clt D.
  Hypothesis HD : forall d, In d D <->
    exists (e : entry) ce, In e (forest HO s) /\ snd e = Some ce /\ In d (dlist H HO hs ce (ecoord e)).

  Lemma uf_unlift (e : entry) ce pi c0 c0' : In e (forest HO s) -> snd e = Some ce ->
    occp H ce pi c0 -> prune c0 = Some c0' -> uncontracted H HO hs c0 ->
    unl_to (rev D) (walk (ecoord e) (ppath ce pi)) (walk (ecoord e) pi).
  Proof.
    intros He Hs Hp Hpr Hun. destruct (REG e ce He Hs) as [Hreg Hne].
    pose proof (mf_height H HO s e ce He Hs) as Hh. pose proof (occp_height H _ _ _ Hp) as Hl.
    pose proof (ppath_length H HO hs ce pi) as Hpl.
    apply (unl_to_filter (ecoord e)).
    - apply under_walk. change (fst (ecoord e)) with (erow e). lia.
    - intros d Hd Eu y Hy Hsf. apply in_rev in Hd. apply underb_spec in Eu.
      pose proof (mf_in_tree H HO s hs D HD e ce d He Hs Hd Eu) as Hd'.
      destruct (dlist_walk H HO hs ce (ecoord e) d Hh Hd') as (tau & -> & Hlt & Hne').
      apply un_region_closed; [exact (Hne' Hne)|change (fst (ecoord e)) with (erow e); lia|exact Hy|exact Hsf].
    - intros d Hd Eu y Hy. apply in_rev in Hd.
      destruct (mv d y) eqn:Em; [exfalso|reflexivity]. apply mv_under in Em.
      apply HD in Hd as (e' & ce' & He' & Hs' & Hd).
      pose proof (mf_height H HO s e' ce' He' Hs') as Hh'.
      destruct (dlist_walk H HO hs ce' (ecoord e') d Hh' Hd) as (tau & Ed & Hlt & Hne').
      destruct (REG e' ce' He' Hs') as [_ Hne2]. specialize (Hne' Hne2).
      assert (HA : under (ecoord e') (par d)).
      { rewrite Ed. apply under_parent_walk; [exact Hne'|change (fst (ecoord e')) with (erow e'); lia]. }
      destruct (Nat.eq_dec (erow e') (erow e)) as [Er|Er].
      + pose proof (mf_same_row H HO s e' e He' He Er) as ->.
        assert (Ht : underb (ecoord e) d = true).
        { apply underb_spec. rewrite Ed. apply under_walk. change (fst (ecoord e)) with (erow e). lia. }
        congruence.
      + exact (mf_trees_disj H HO s e' e _ y He' He Er HA Hy Em).
    - rewrite filter_rev'.
      apply (unl_tree_multi H HO hs ce Hreg (ecoord e) Hh _ (SS_filter _ _ _ HsD)) with (c0 := c0) (c0' := c0');
        [|exact Hp|exact Hpr|exact Hun].
      intros d. rewrite filter_In, underb_spec. split.
      + intros [Hd Hu]. exact (mf_in_tree H HO s hs D HD e ce d He Hs Hd Hu).
      + intros Hd. split; [apply HD; exists e, ce; auto|exact (dlist_under H HO hs ce (ecoord e) d Hh Hd)].
  Qed.

  (** A4 with the way back: a subtree of [kill hs s] comes from an uncontracted subtree of [s], and
      un-lifting its coordinate over the deleted leaves, last first, gives that subtree's *)
  Lemma uf_down c0' r1 o1 : locc H HO s1 c0' r1 o1 ->
    exists c0 r0 o0, locc H HO s c0 r0 o0 /\ prune c0 = Some c0' /\ liftc D (r0, o0) = (r1, o1) /\
                     uncontracted H HO hs c0 /\ unl_to (rev D) (r1, o1) (r0, o0).
  Proof.
    intros Hl. apply locc_path in Hl as (e' & c' & pi' & He' & Hs' & Hp' & Hw & _).
    rewrite RefTheory.forest_kill in He'. apply in_map_iff in He' as (e & <- & He).
    unfold RefTheory.prune_entry in Hs'. cbn [snd] in Hs'.
    destruct (snd e) as [ce|] eqn:Ese; [|discriminate]. cbn [RefTheory.oprune] in Hs'.
    destruct (prune_occp_inv2 H HO hs ce c' Hs' pi' c0' Hp') as (pi & c0 & A & B & C & U).
    pose proof (sl_height H HO s e ce pi c0 He Ese A) as Hl.
    exists c0, (fst (walk (ecoord e) pi)), (snd (walk (ecoord e) pi)).
    split; [apply locc_path; exists e, ce, pi; repeat split; try assumption; apply surjective_pairing|].
    split; [exact B|].
    change (ecoord (RefTheory.prune_entry HO hs e)) with (ecoord e) in Hw.
    rewrite <- surjective_pairing.
    split; [rewrite (mf_move H HO s hs REG D HsD HD e ce pi c0 c0' He Ese A B), C; exact Hw|].
    split; [exact U|].
    pose proof (uf_unlift e ce pi c0 c0' He Ese A B U) as Hu. rewrite C, Hw in Hu. exact Hu.
  Qed.

  (** A3 with the way back *)
  Lemma uf_up_unlift c0 r0 o0 c0' : locc H HO s c0 r0 o0 -> prune c0 = Some c0' ->
    uncontracted H HO hs c0 -> unl_to (rev D) (liftc D (r0, o0)) (r0, o0).
  Proof.
    intros Hl Hp Hun. apply locc_path in Hl as (e & ce & pi & He & Hs & Ho & Hw & _).
    rewrite <- Hw, (mf_move H HO s hs REG D HsD HD e ce pi c0 c0' He Hs Ho Hp).
    exact (uf_unlift e ce pi c0 c0' He Hs Ho Hp Hun).
  Qed.
End UnlForest.

(** * 6. [undoDel] on graphs *)

Lemma deTwinHP_loop_id {H} (HO : ops H) fr : forall fuel i (l : list (hp H)),
  (forall j a b, nth_error l j = Some a -> nth_error l (S j) = Some b -> rightSib (fst a) <> fst b) ->
  deTwinHP_loop HO fuel i l fr = l.
Proof.
  induction fuel as [|f IH]; intros i l Hno; [reflexivity|]. cbn [deTwinHP_loop].
  destruct (nth_error l i) as [a|] eqn:Ea; [|reflexivity].
  destruct (nth_error l (S i)) as [b|] eqn:Eb; [|reflexivity].
  destruct (N.eqb_spec (rightSib (fst a)) (fst b)) as [E|_]; [exfalso; exact (Hno i a b Ea Eb E)|].
  apply IH. exact Hno.
Qed.

Lemma deTwinHP_id {H} (HO : ops H) (l : list (hp H)) fr : NoDup (map fst l) ->
  (forall a b, In a (map fst l) -> In b (map fst l) -> a <> b -> rightSib a <> b) ->
  deTwinHashAndPos HO l fr = l.
Proof.
  intros Hnd Hno. unfold deTwinHashAndPos. apply deTwinHP_loop_id. intros j a b Ha Hb.
  apply Hno; [exact (in_map fst _ _ (nth_error_In _ _ Ha))|exact (in_map fst _ _ (nth_error_In _ _ Hb))|].
  intros E. pose proof (proj1 (NoDup_nth_error (map fst l)) Hnd j (S j)) as Hinj.
  assert (Hlt : (j < length (map fst l))%nat).
  { rewrite map_length. apply nth_error_Some. intros X. pose proof (eq_trans (eq_sym Ha) X) as Y. discriminate Y. }
  assert (Ej : j = S j); [|lia]. apply (Hinj Hlt).
  rewrite (map_nth_error fst _ _ Ha), (map_nth_error fst _ _ Hb), E. reflexivity.
Qed.

Section UndoDelGraph.
  Variable H : Type.
  Variable HO : ops H.
  Variable F1 : N -> H.

  Theorem ud_undoDel_graph (n : N) (t1 PP1 comp1 : list N) (h1 : list H) (bt : list N) (bhs bp : list H)
          (tw1 pw1 np before : list (hp H)) cands rows (needed comp : list N) :
    bt <> [] -> length t1 = length h1 -> SSlt t1 -> SSlt PP1 ->
    ProofPositions_fast t1 n (TreeRows n) = (PP1, comp1) ->
    length bt = length bhs ->
    deTwinHashAndPos HO (sortK (zip_hp bt bhs)) (TreeRows n) = sortK (zip_hp bt bhs) ->
    ud_blocks HO (rev (sortK (zip_hp bt bhs))) (zip_hp t1 h1) (gr H F1 PP1) [] n (TreeRows n)
    = Some (tw1, pw1, np) ->
    calculateHashes HO true n (Some bhs) bt bp = Ok (before, cands, rows) ->
    ProofPositions_fast (positions tw1) n (TreeRows n) = (needed, comp) ->
    undoDel HO t1 (map F1 PP1) bt bhs h1 bt bp n
    = Some (hashes tw1, positions tw1,
            hashes (getHashAndPosSubset
                      (mergeSortedHashAndPos (ud_replace (mergeSortedHashAndPos pw1 np) before) before)
                      needed)).
  Proof.
    intros Hne ElT HsT HsP Epp Elb Edt Ebl Ecalc Epp2.
    unfold undoDel. destruct bt as [|b0 bt']; [contradiction|].
    rewrite (pu_toHP H t1 h1 ElT HsT).
    unfold positions at 1. rewrite (pu_zip_fst t1 h1 ElT), Epp.
    rewrite (pu_toHP H PP1 (map F1 PP1)) by (try assumption; rewrite map_length; reflexivity).
    rewrite (po_zip_gr H F1 PP1).
    unfold toHashAndPos at 1. rewrite Elb, Nat.eqb_refl.
    cbv zeta. rewrite Edt.
    match goal with |- match ?X with _ => _ end = _ => replace X with (Some (tw1, pw1, np)) by (symmetry; exact Ebl) end.
    rewrite Ecalc, Epp2. reflexivity.
  Qed.
End UndoDelGraph.

(** * 7. G2: [undoDel] for regular deletions *)

Lemma SS_map_lt {A} (f : A -> N) (l : list A) : StronglySorted (fun a b => f a < f b) l -> SSlt (map f l).
Proof.
  induction 1 as [|a l _ IH Ha]; [constructor|]. cbn [map]. constructor; [exact IH|].
  rewrite Forall_forall in *. intros x Hx. apply in_map_iff in Hx as (y & <- & Hy). exact (Ha y Hy).
Qed.

Lemma uncontracted_leaf {H} (HO : ops H) hs (c0 : ctree H) h :
  uncontracted H HO hs c0 -> RefTheory.prune HO hs c0 = Some (CLeaf h) -> c0 = CLeaf h.
Proof.
  intros Hun Hp. destruct c0 as [x|x l r].
  - cbn [RefTheory.prune] in Hp. destruct (memH HO x hs); [discriminate|]. injection Hp as ->. reflexivity.
  - exfalso. destruct (Hun x l r eq_refl) as [Pl Pr]. cbn [RefTheory.prune] in Hp.
    destruct (RefTheory.prune HO hs l); [|contradiction]. destruct (RefTheory.prune HO hs r); [|contradiction].
    cbn [join] in Hp. discriminate.
Qed.

Section UndoDelReg.
  Variable H : Type.
  Variable HO : ops H.
  Hypothesis HOK : ops_ok HO.
  Hypothesis hash_nz : forall a b, NZ HO (op_hash2 HO a b).
  Variable s : slots H.
  Hypothesis Hlive_nz : forall h, In (Some h) s -> NZ HO h.
  Hypothesis Hn63 : N.of_nat (length s) <= 2 ^ 63.
  Hypothesis Hnd : NoDup (live s).
  Variable hs : list H.
  Hypothesis Hhs : NoDup hs.
  Local Notation entry := (StumpAdd.entry H).
  Local Notation prune := (RefTheory.prune HO hs).
  Hypothesis REG : forall (e : entry) ce, In e (forest HO s) -> snd e = Some ce ->
    regular H HO hs ce /\ prune ce <> None.

  Local Notation n := (N.of_nat (length s)).
  Local Notation total := (TreeRows (N.of_nat (length s))).
  Local Notation R := (rows_of (num_leaves s)).
  Local Notation lay := (layout HO s).
  Local Notation F := (Fv H HO s).
  Local Notation s1 := (kill HO hs s).
  Local Notation lay1 := (layout HO (kill HO hs s)).
  Local Notation F1 := (Fv H HO (kill HO hs s)).

  Variable xds : list (node H).
  Hypothesis Fx : find_leaves HO lay hs = Some xds.
  Local Notation D := (mdd H s xds).

  Lemma ur_x : (forall x, In x xds -> In x lay) /\ (forall x, In x xds -> nleaf x = true) /\ NoDup xds /\
               map (@nhash H) xds = hs.
  Proof. destruct (cc_find_leaves_facts HO s hs xds HOK Hhs Fx) as (A & B & C0 & D0 & _). auto. Qed.

  Lemma ur_R63 : (R <= 63)%nat. Proof. apply rows_of_le_63. exact Hn63. Qed.
  Lemma ur_ER : N.of_nat R = total. Proof. exact (rf_R_total H s). Qed.

  (** the hashes the block proof computes on the previous state: every subtree that holds a deleted leaf *)
  Lemma ur_before :
    exists before cands rows,
      calculateHashes HO true n (Some hs) (map (npos R) xds) (canon_proof_hashes HO R lay xds)
      = Ok (before, cands, rows) /\
      SSlt (map fst before) /\
      (forall e, In e before -> snd e = F (fst e)) /\
      (forall p, In p (map fst before) <->
                 exists c r o, locc H HO s c r o /\ hit H xds c /\ p = cpos R (r, o)).
  Proof.
    destruct ur_x as (Lx & Flx & Ntx & Ehx).
    pose proof (rt_valid H HO s xds Lx Flx Ntx) as Hval.
    destruct (cc_valid_facts n Hn63 _ Hval) as (HK1 & _).
    destruct (cc_Ks_spec n Hn63 _ Hval) as [HKs HKm].
    assert (Ets : map (npos R) xds = map (g total) (map ncrd xds)).
    { rewrite map_map. apply map_ext. intros x. apply (rf_npos H s). }
    destruct (calc_complete_c H HO (Wv H HO s) n Hn63 (map ncrd xds) (Some (map (@nhash H) xds))
                (canon_proof_hashes HO R lay xds) [] Hval)
      as (inter & cands & Ecalc & _ & _ & Ekeys & HW).
    { intros c h h' Hc Hr. exact (vc_step H HO hash_nz s Hn63 c h h' (HK1 c Hc) Hr). }
    { exact (vc_targets_W H HO s Hlive_nz xds Lx Flx). }
    { exact (vc_proof_W H HO hash_nz s Hlive_nz Hn63 xds Lx Flx Ntx). }
    rewrite app_nil_r, <- Ets, Ehx in Ecalc.
    eexists inter, cands, _. split; [exact Ecalc|]. split; [|split].
    - rewrite Ekeys. apply SS_map_lt. exact HKs.
    - intros e He. rewrite Forall_forall in HW. destruct (HW e He) as (x & Hx & Ep & Eh & _).
      rewrite Ep, <- Eh, <- (rf_npos H s). symmetry. exact (po_Fv_node H HO s x Hx).
    - intros p. rewrite Ekeys, in_map_iff. split.
      + intros (c & <- & Hc). apply HKm in Hc. apply (rt_K H HO s Hn63 xds Lx) in Hc as ([r o] & Hd & ->).
        apply (known_occ H HO s Hn63 Hnd xds Lx Flx) in Hd as (c0 & Hl & Hh).
        exists c0, r, o. split; [exact Hl|]. split; [exact Hh|]. rewrite cpos_g, ur_ER. reflexivity.
      + intros (c0 & r & o & Hl & Hh & ->). exists (cN (r, o)). split; [rewrite cpos_g, ur_ER; reflexivity|].
        apply HKm, (rt_K H HO s Hn63 xds Lx). exists (r, o). split; [|reflexivity].
        apply (known_occ H HO s Hn63 Hnd xds Lx Flx). exists c0. auto.
  Qed.

  Lemma ur_HsD : StronglySorted ProofUpdateDel.clt D.
  Proof. destruct ur_x as (Lx & Flx & Ntx & _). exact (mfin_sorted H HO s Hn63 xds Lx Flx Ntx). Qed.
  Lemma ur_HD : forall d, In d D <-> exists (e : entry) ce, In e (forest HO s) /\ snd e = Some ce /\
                                     In d (dlist H HO hs ce (StumpAddData.ecoord H e)).
  Proof. destruct ur_x as (Lx & Flx & Ntx & Ehx). exact (mfin_HD H HO HOK s Hn63 Hnd hs xds Lx Flx Ehx REG). Qed.
  Lemma ur_dok d : In d D -> dok R n d.
  Proof. destruct ur_x as (Lx & Flx & Ntx & Ehx). exact (mfin_dok H HO HOK s Hn63 hs xds Lx Flx Ehx REG d). Qed.

  Lemma ur_D_in d : In d D <-> exists x, In x xds /\ d = (nrow x, noff x).
  Proof.
    unfold mdd. rewrite in_map_iff. split.
    - intros (x & <- & Hx). exists x. split; [|reflexivity]. exact (Permutation_in _ (po_sort_nodes_perm H s xds) Hx).
    - intros (x & Hx & ->). exists x. split; [reflexivity|].
      exact (Permutation_in _ (Permutation_sym (po_sort_nodes_perm H s xds)) Hx).
  Qed.

  (** no two deleted leaves are siblings *)
  Lemma ur_no_twins d d' : In d D -> In d' D -> par d = par d' -> d = d'.
  Proof.
    intros Hd Hd' Ep. destruct ur_x as (Lx & Flx & Ntx & Ehx). pose proof ur_R63 as HR.
    assert (Hin : forall z, In z D -> In (cpos R z) (map (npos R) xds)).
    { intros z Hz. apply ur_D_in in Hz as (x & Hx & ->). apply in_map_iff. exists x. split; [reflexivity|exact Hx]. }
    assert (Hcase : forall (a b : coord) q, In a D -> In b D -> fst a = fst b -> snd a = 2 * q -> snd b = 2 * q + 1 -> False).
    { intros a b q Ha Hb Erow Ea Eb.
      destruct (ur_dok a Ha) as (_ & Va & _). destruct (ur_dok b Hb) as (_ & Vb & _).
      apply (mfin_no_twins H HO HOK s Hn63 hs xds Lx Flx Ehx REG (cpos R a) (cpos R b) (Hin a Ha) (Hin b Hb)).
      - intros E. apply (cpos_inj R _ _ HR Va Vb) in E. rewrite E in Ea. lia.
      - destruct Va as [Va1 _]. rewrite !cpos_gpos, rightSib_gpos by lia. rewrite Erow. f_equal.
        rewrite Ea, Eb, lor_1, N.even_mul. reflexivity. }
    unfold par in Ep. injection Ep as Er Eq.
    pose proof (N.div_mod (snd d) 2 ltac:(lia)) as A. pose proof (N.div_mod (snd d') 2 ltac:(lia)) as B.
    pose proof (N.mod_lt (snd d) 2 ltac:(lia)) as A'. pose proof (N.mod_lt (snd d') 2 ltac:(lia)) as B'.
    rewrite <- Eq in B. set (q := snd d / 2) in *.
    destruct (N.eq_dec (snd d mod 2) (snd d' mod 2)) as [Em|Hm].
    - destruct d, d'. cbn [fst snd] in *. f_equal; lia.
    - exfalso. destruct (N.eq_dec (snd d mod 2) 0) as [E0|E1].
      + apply (Hcase d d' q Hd Hd'); lia.
      + apply (Hcase d' d q Hd' Hd); lia.
  Qed.

  Variable C : list H.
  Hypothesis HC : NoDup C.
  Variables (h1 : list H) (t1 : list N) (p1 : list H).
  Hypothesis E1 : exp_cached HO (mk_ctx HO s1) (removeH HO C hs) = Some (h1, t1, p1).
  Hypothesis Hxne : xds <> [].

  Theorem undoDel_regular_main :
    undoDel HO t1 p1 (map (npos R) xds) hs h1 (map (npos R) xds) (canon_proof_hashes HO R lay xds) n
    = exp_cached HO (mk_ctx HO s) (removeH HO C hs).
  Proof.
    destruct ur_x as (Lx & Flx & Ntx & Ehx). pose proof ur_R63 as HR63. pose proof ur_ER as ER.
    pose proof ur_HsD as HsD. pose proof ur_HD as HDd.
    pose proof (kill_rows H HO hs s) as ER1.
    assert (EL1 : N.of_nat (length s1) = n) by (rewrite length_kill; reflexivity).
    assert (Hn63_1 : N.of_nat (length s1) <= 2 ^ 63) by (rewrite EL1; exact Hn63).
    pose proof (dg_nd1 H HO s Hnd hs) as Hnd1.
    (* the cached proof after the deletions *)
    pose proof E1 as E1'. unfold exp_cached in E1'. cbn [mk_ctx clay crows] in E1'.
    set (C2 := removeH HO C hs) in *.
    assert (HC2 : NoDup C2) by (apply NoDup_filter; exact HC).
    destruct (find_leaves HO lay1 C2) as [tsU|] eqn:FU; [|discriminate].
    fold (sort_nodes H s1 tsU) in E1'. injection E1' as <- <- <-.
    destruct (cc_find_leaves_facts HO s1 C2 tsU HOK HC2 FU) as (LU & FlU & NtU & EhU & InU).
    set (sortedU := sort_nodes H s1 tsU).
    pose proof (po_sort_nodes_perm H s1 tsU) as PsortU. fold sortedU in PsortU.
    assert (LSU : forall x, In x sortedU -> In x lay1)
      by (intros x Hx; apply LU; exact (Permutation_in _ PsortU Hx)).
    assert (FlSU : forall x, In x sortedU -> nleaf x = true)
      by (intros x Hx; apply FlU; exact (Permutation_in _ PsortU Hx)).
    assert (NtSU : NoDup sortedU) by (exact (Permutation_NoDup (Permutation_sym PsortU) NtU)).
    assert (HhU : forall h, In h (map (@nhash H) sortedU) <-> In h C2).
    { intros h. rewrite <- EhU. split; apply Permutation_in, Permutation_map;
        [exact PsortU|exact (Permutation_sym PsortU)]. }
    assert (HinU : forall y, In y lay1 -> nleaf y = true -> In (nhash y) C2 -> In y sortedU).
    { intros y Hy Hl Hh. apply (Permutation_in _ (Permutation_sym PsortU)). apply InU.
      exists (nhash y). split; [exact Hh|exact (find_leaf_of_node H HO HOK s1 y Hnd1 Hy Hl)]. }
    assert (HsTU : SSlt (map (npos R) sortedU)).
    { rewrite <- ER1. unfold sortedU. rewrite (po_sort_nodes_pos H HO s1 tsU LU NtU).
      apply pps_sortN_NoDup_SSlt, (po_targets_NoDup H HO s1 tsU LU NtU). }
    assert (Epp1 : ProofPositions_fast (map (npos R) sortedU) n total
                   = (canon_proof_pos R lay1 sortedU, computable_pos R lay1 sortedU)).
    { pose proof (po_pp_both_fast H HO s1 Hn63_1 sortedU LSU FlSU NtSU) as Hq.
      rewrite ER1, EL1 in Hq. rewrite <- (po_sortN_sorted_id _ HsTU) at 1. exact Hq. }
    assert (HsPU : SSlt (canon_proof_pos R lay1 sortedU)).
    { pose proof (po_canon_pos_SSlt H HO s1 Hn63_1 sortedU LSU) as Hq. rewrite ER1 in Hq. exact Hq. }
    assert (Ep1 : canon_proof_hashes HO R lay1 sortedU = map F1 (canon_proof_pos R lay1 sortedU)).
    { pose proof (po_canon_hashes_Fv H HO s1 Hn63_1 sortedU LSU) as Hq. rewrite ER1 in Hq. exact Hq. }
    rewrite ER1. rewrite Ep1.
    (* the kept leaves in the previous state *)
    assert (HC2s : forall h, In h C2 -> In (Some h) s /\ ~ In h hs).
    { intros h Hh. apply HhU in Hh. apply in_map_iff in Hh as (y & <- & Hy).
      apply (dg_live1 H HO HOK s hs). exact (layout_leaf_live H HO s1 y (LSU y Hy) (FlSU y Hy)). }
    destruct (po_find_leaves_some H HO s C2) as [tsC FC].
    { intros h Hh. destruct (proj1 (find_leaf_live H HO s h HOK) (proj1 (HC2s h Hh))) as (x & Ex & _).
      exists x. exact Ex. }
    destruct (cc_find_leaves_facts HO s C2 tsC HOK HC2 FC) as (LC & FlC & NtC & EhC & InC).
    set (sorted := sort_nodes H s tsC).
    pose proof (po_sort_nodes_perm H s tsC) as Psort. fold sorted in Psort.
    assert (LS : forall x, In x sorted -> In x lay)
      by (intros x Hx; apply LC; exact (Permutation_in _ Psort Hx)).
    assert (FlS : forall x, In x sorted -> nleaf x = true)
      by (intros x Hx; apply FlC; exact (Permutation_in _ Psort Hx)).
    assert (NtS : NoDup sorted) by (exact (Permutation_NoDup (Permutation_sym Psort) NtC)).
    assert (HhS : forall h, In h (map (@nhash H) sorted) <-> In h C2).
    { intros h. rewrite <- EhC. split; apply Permutation_in, Permutation_map;
        [exact Psort|exact (Permutation_sym Psort)]. }
    assert (HinS : forall y, In y lay -> nleaf y = true -> In (nhash y) C2 -> In y sorted).
    { intros y Hy Hl Hh. apply (Permutation_in _ (Permutation_sym Psort)). apply InC.
      exists (nhash y). split; [exact Hh|exact (find_leaf_of_node H HO HOK s y Hnd Hy Hl)]. }
    assert (HsTS : SSlt (map (npos R) sorted)).
    { unfold sorted. rewrite (po_sort_nodes_pos H HO s tsC LC NtC).
      apply pps_sortN_NoDup_SSlt, (po_targets_NoDup H HO s tsC LC NtC). }
    set (needed := canon_proof_pos R lay sorted).
    assert (Epp : ProofPositions_fast (map (npos R) sorted) n total
                  = (needed, computable_pos R lay sorted)).
    { rewrite <- (po_sortN_sorted_id _ HsTS) at 1. exact (po_pp_both_fast H HO s Hn63 sorted LS FlS NtS). }
    pose proof (po_canon_pos_SSlt H HO s Hn63 sorted LS) as Hsn. fold needed in Hsn.
    unfold exp_cached. cbn [mk_ctx clay crows]. rewrite FC.
    fold (sort_nodes H s tsC). fold sorted.
    (* the block targets with their hashes, ascending: [deTwinHashAndPos] changes nothing *)
    set (sxd := sort_nodes H s xds).
    pose proof (po_sort_nodes_perm H s xds) as Psx. fold sxd in Psx.
    set (Bs := map (fun x : node H => ((nrow x, noff x), nhash x)) sxd).
    assert (EBsD : map fst Bs = D) by (unfold Bs, mdd; rewrite map_map; reflexivity).
    assert (Hbtpos : map (npos R) sxd = sortN (map (npos R) xds))
      by exact (po_sort_nodes_pos H HO s xds Lx Ntx).
    assert (Hbts : SSlt (map (npos R) sxd)).
    { rewrite Hbtpos. apply pps_sortN_NoDup_SSlt, (po_targets_NoDup H HO s xds Lx Ntx). }
    assert (Ebtw : sortK (zip_hp (map (npos R) xds) hs) = map (bpos H R) Bs).
    { symmetry. apply (st_sort_uniq H).
      - unfold Bs. rewrite !map_map. cbn [bpos fst]. exact Hbts.
      - unfold Bs. rewrite map_map. rewrite <- Ehx, pu_zip_map.
        apply Permutation_map. exact Psx. }
    assert (Edt : deTwinHashAndPos HO (sortK (zip_hp (map (npos R) xds) hs)) total
                  = sortK (zip_hp (map (npos R) xds) hs)).
    { rewrite Ebtw. apply deTwinHP_id.
      - unfold Bs. rewrite !map_map. cbn [bpos fst]. apply pps_SSlt_NoDup. exact Hbts.
      - assert (Ek : map fst (map (bpos H R) Bs) = map (npos R) sxd) by (unfold Bs; rewrite !map_map; reflexivity).
        rewrite Ek, Hbtpos. intros a b Ha Hb.
        apply (mfin_no_twins H HO HOK s Hn63 hs xds Lx Flx Ehx REG); apply RefTheory.sortN_In; assumption. }
    (* the targets and the proof positions after the deletions, as lists of coordinates *)
    set (XT := map (fun x : node H => ((nrow x, noff x), nhash x)) sortedU).
    assert (EzT : zip_hp (map (npos R) sortedU) (map (@nhash H) sortedU) = map (cposh H R) XT).
    { unfold XT. rewrite map_map, pu_zip_map. reflexivity. }
    assert (HXT : forall e, In e XT -> exists c0, locc H HO s1 c0 (fst (fst e)) (snd (fst e)) /\ snd e = chash c0).
    { intros e He. unfold XT in He. apply in_map_iff in He as (x & <- & Hx). cbn [fst snd].
      destruct (node_locc H HO s1 x (LSU x Hx) (FlSU x Hx)) as (k0 & lo & c & He & Ho & _).
      exists (CLeaf (nhash x)). split; [exists k0, lo, c; auto|reflexivity]. }
    assert (NdT : NoDup (map fst XT)).
    { unfold XT. rewrite map_map. cbn [fst].
      apply (RefTheory.NoDup_map_inj_on (fun x : node H => (nrow x, noff x))); [exact NtSU|].
      intros x y Hx Hy Exy. apply (RefTheory.layout_coord_inj H HO s1 x y (LSU x Hx) (LSU y Hy)). exact Exy. }
    set (SC := sort_coords R (proof_coords lay1 sortedU)).
    assert (ESC : canon_proof_pos R lay1 sortedU = map fst SC) by reflexivity.
    set (XP := map (fun e : N * (nat * N) => (snd e, F1 (fst e))) SC).
    assert (EzP : gr H F1 (map fst SC) = map (cposh H R) XP).
    { unfold gr, XP. rewrite !map_map. apply map_ext_in. intros e He.
      apply RefTheory.sort_coords_In in He as (c & _ & ->). reflexivity. }
    assert (Hn2R : n <= 2 ^ N.of_nat R) by exact (rows_of_upper (num_leaves s)).
    assert (Hlv1 : forall c0 r o, locc H HO s1 c0 r o -> cvalid R (r, o)).
    { intros c0 r o Hl. apply (cinf_valid R n (r, o) Hn2R). rewrite <- EL1.
      destruct (locc_node H HO s1 c0 r o Hl) as (x & Hx & Xr & Xo & _).
      pose proof (layout_coords_valid H HO s1 x Hx) as Hv. rewrite Xr, Xo in Hv. exact Hv. }
    assert (Hlv : forall c0 r o, locc H HO s c0 r o -> cvalid R (r, o)).
    { intros c0 r o Hl. apply (cinf_valid R n (r, o) Hn2R).
      destruct (locc_node H HO s c0 r o Hl) as (x & Hx & Xr & Xo & _).
      pose proof (layout_coords_valid H HO s x Hx) as Hv. rewrite Xr, Xo in Hv. exact Hv. }
    assert (HSCv : forall e, In e SC -> fst e = cpos R (snd e) /\ cvalid R (snd e)).
    { intros e He. apply RefTheory.sort_coords_In in He as (c & Hc & ->). cbn [fst snd].
      split; [reflexivity|].
      pose proof (po_is_node_vld H HO s1 c (po_proof_coord_is_node H HO s1 Hn63_1 sortedU LSU c Hc)) as [V1 V2].
      unfold cN in V1, V2. cbn [fst snd] in V1, V2. rewrite EL1, <- ER in V1, V2.
      split; [lia|exact V2]. }
    assert (HXP : forall e, In e XP -> exists c0, locc H HO s1 c0 (fst (fst e)) (snd (fst e)) /\ snd e = chash c0).
    { intros e He. unfold XP in He. apply in_map_iff in He as (ec & <- & Hec). cbn [fst snd].
      destruct (HSCv ec Hec) as [Ep Hv].
      assert (Hp : In (fst ec) (canon_proof_pos R lay1 sortedU)) by (rewrite ESC; apply in_map, Hec).
      rewrite <- ER1 in Hp.
      apply (canon_pos_occ H HO s1 Hn63_1 Hnd1 sortedU LSU FlSU) in Hp as (h & l & rr & r & o & Hlp & Hcase).
      rewrite ER1 in Hcase.
      destruct (locc_child H HO s1 _ _ _ Hlp h l rr eq_refl) as (r1 & Er & Ll & Lr). injection Er as <-.
      destruct Hcase as [(_ & _ & Eq)|(_ & _ & Eq)].
      - assert (Ec : snd ec = (r, 2 * o + 1)).
        { apply (cpos_inj R _ _ HR63 Hv (Hlv1 rr _ _ Lr)). rewrite <- Ep, Eq. reflexivity. }
        exists rr. rewrite Ec. cbn [fst snd]. split; [exact Lr|]. rewrite Eq.
        pose proof (locc_val H HO s1 rr _ _ Lr) as Hq. rewrite ER1 in Hq. exact Hq.
      - assert (Ec : snd ec = (r, 2 * o)).
        { apply (cpos_inj R _ _ HR63 Hv (Hlv1 l _ _ Ll)). rewrite <- Ep, Eq. reflexivity. }
        exists l. rewrite Ec. cbn [fst snd]. split; [exact Ll|]. rewrite Eq.
        pose proof (locc_val H HO s1 l _ _ Ll) as Hq. rewrite ER1 in Hq. exact Hq. }
    assert (NdP : NoDup (map fst XP)).
    { unfold XP. rewrite map_map. cbn [fst].
      assert (Hn1 : NoDup (map fst SC)) by (apply pps_SSlt_NoDup; rewrite <- ESC; exact HsPU).
      assert (Hn2 : NoDup (map (cpos R) (map snd SC))).
      { replace (map (cpos R) (map snd SC)) with (map fst SC); [exact Hn1|].
        rewrite map_map. apply map_ext_in. intros e He. exact (proj1 (HSCv e He)). }
      exact (NoDup_map_inv _ _ Hn2). }
    (* un-lifting: every subtree of the state after the deletions goes back to its uncontracted
       origin *)
    assert (Hdown : forall c0' r1 o1, locc H HO s1 c0' r1 o1 ->
              exists c0 r0 o0, locc H HO s c0 r0 o0 /\ prune c0 = Some c0' /\ liftc D (r0, o0) = (r1, o1) /\
                               uncontracted H HO hs c0 /\ unl_to (rev D) (r1, o1) (r0, o0))
      by exact (uf_down H HO s hs REG D HsD HDd).
    assert (Htraj : forall X : list (coord * H),
              (forall e, In e X -> exists c0, locc H HO s1 c0 (fst (fst e)) (snd (fst e)) /\ snd e = chash c0) ->
              forall e, In e X -> cvalid R (fst e) /\
                                  unl_to (map fst (rev Bs)) (fst e) (unl (map fst (rev Bs)) (fst e))).
    { intros X HX e He. destruct (HX e He) as (c0' & Hl & _). destruct e as [[r1 o1] h]. cbn [fst snd] in *.
      split; [exact (Hlv1 c0' r1 o1 Hl)|].
      destruct (Hdown c0' r1 o1 Hl) as (c0 & r0 & o0 & _ & _ & _ & _ & Hu).
      assert (Em : map fst (rev Bs) = rev D) by (rewrite map_rev, EBsD; reflexivity).
      rewrite Em, (unl_to_fun _ _ _ Hu). exact Hu. }
    assert (Em : map fst (rev Bs) = rev D) by (rewrite map_rev, EBsD; reflexivity).
    destruct (ud_blocks_spec H HO R n HR63 Hn63 ER (rev Bs) XT XP []) as (PW' & np' & Ebl & NP' & VP' & PA & PB & NPa & NPb).
    { intros b Hb. apply ur_dok. rewrite <- EBsD. apply in_map. apply in_rev. exact Hb. }
    { refine (eq_ind (rev D) (fun l => garb l) _ _ (eq_sym Em)). apply garb_sorted; [exact (SS_rev_flip _ _ HsD)|].
      intros d d' Hd Hd'. apply ur_no_twins; apply in_rev; assumption. }
    { exact (Htraj XT HXT). }
    { exact (Htraj XP HXP). }
    { exact NdT. }
    { exact NdP. }
    { constructor. }
    match goal with HH : forall e, In e XP -> In (unl_e H ?l e) PW' |- _ => set (Ds := l) in * end.
    assert (EDs : Ds = rev D) by exact Em. clearbody Ds. subst Ds.
    set (TWf := map (unl_e H (rev D)) XT) in *.
    (* where the targets come back to *)
    assert (TT : forall y, In y sortedU -> exists x, In x sorted /\ nhash x = nhash y /\
                   unl (rev D) (nrow y, noff y) = (nrow x, noff x)).
    { intros y Hy. destruct (node_locc H HO s1 y (LSU y Hy) (FlSU y Hy)) as (k0 & lo & c & He & Ho & _).
      assert (Hl1 : locc H HO s1 (CLeaf (nhash y)) (nrow y) (noff y)) by (exists k0, lo, c; auto).
      destruct (Hdown _ _ _ Hl1) as (c0 & r0 & o0 & Hl0 & Hp0 & _ & Hun & Hu).
      pose proof (uncontracted_leaf HO hs c0 (nhash y) Hun Hp0) as ->.
      destruct (locc_node H HO s _ _ _ Hl0) as (x & Hx & Xr & Xo & Xh & Xl). cbn [chash cleafb] in Xh, Xl.
      exists x. split; [|split; [exact Xh|]].
      - apply (HinS x Hx Xl). rewrite Xh. apply HhU. apply in_map, Hy.
      - rewrite (unl_to_fun _ _ _ Hu), Xr, Xo. reflexivity. }
    assert (TT' : forall x, In x sorted -> exists y, In y sortedU /\ nhash y = nhash x).
    { intros x Hx. assert (Hh : In (nhash x) C2) by (apply HhS; apply in_map, Hx).
      apply HhU in Hh. apply in_map_iff in Hh as (y & Ey & Hy). exists y. auto. }
    set (tw1 := sortK (map (cposh H R) TWf)) in *.
    assert (Etw1 : tw1 = gr H F (map (npos R) sorted)).
    { assert (Hel : forall e, In e tw1 <-> exists y, In y sortedU /\
                       e = (cpos R (unl (rev D) (nrow y, noff y)), nhash y)).
      { intros e. unfold tw1, TWf, XT. rewrite RefTheory.sortK_In, !map_map, in_map_iff.
        split; intros (y & A & B); exists y; (split; [|]); try assumption; [symmetry; exact A|symmetry; exact B]. }
      assert (Gtw : graph H F tw1).
      { intros e He. apply Hel in He as (y & Hy & ->). cbn [fst snd].
        destruct (TT y Hy) as (x & Hx & Eh & Eu). rewrite Eu, <- Eh.
        symmetry. exact (po_Fv_node H HO s x (LS x Hx)). }
      assert (Ntw : NoDup (map fst (map (cposh H R) TWf))).
      { unfold TWf, XT. rewrite !map_map. cbn [ProofUpdateSpec.cposh unl_e fst].
        apply RefTheory.NoDup_map_inj_on; [exact NtSU|]. intros y1 y2 H1 H2 Ek.
        destruct (TT y1 H1) as (x1 & Hx1 & Eh1 & Eu1). destruct (TT y2 H2) as (x2 & Hx2 & Eh2 & Eu2).
        rewrite Eu1, Eu2 in Ek.
        assert (Ex : x1 = x2) by (apply (RefTheory.layout_npos_inj H HO s x1 x2 (LS _ Hx1) (LS _ Hx2)); exact Ek).
        apply (live_leaf_unique H HO s1 y1 y2 Hnd1 (LSU _ H1) (LSU _ H2) (FlSU _ H1) (FlSU _ H2)). congruence. }
      rewrite (po_graph_eq H F tw1 Gtw). f_equal.
      apply pps_SSlt_ext; [apply cc_sortK_SSlt; exact Ntw|exact HsTS|].
      intros p. split.
      - intros Hp. apply in_map_iff in Hp as (e & <- & He). apply Hel in He as (y & Hy & ->). cbn [fst].
        destruct (TT y Hy) as (x & Hx & _ & Eu). rewrite Eu. apply in_map_iff. exists x. split; [reflexivity|exact Hx].
      - intros Hp. apply in_map_iff in Hp as (x & <- & Hx). destruct (TT' x Hx) as (y & Hy & Eh).
        destruct (TT y Hy) as (x' & Hx' & Eh' & Eu).
        assert (Ex : x' = x).
        { apply (live_leaf_unique H HO s x' x Hnd (LS _ Hx') (LS _ Hx) (FlS _ Hx') (FlS _ Hx)). congruence. }
        subst x'. apply in_map_iff. exists (cpos R (unl (rev D) (nrow y, noff y)), nhash y).
        split; [cbn [fst]; rewrite Eu; reflexivity|]. apply Hel. exists y. auto. }
    destruct ur_before as (before & cands & rows & Ecalc & Sbef & Fbef & Kbef).
    set (pw1 := sortK (map (cposh H R) PW')) in *.
    assert (SxT : sortK (map (cposh H R) XT) = map (cposh H R) XT).
    { apply pu_sortK_sorted_id. rewrite <- EzT, pu_zip_fst; [exact HsTU|rewrite !map_length; reflexivity]. }
    assert (SxP : sortK (map (cposh H R) XP) = map (cposh H R) XP).
    { apply pu_sortK_sorted_id. rewrite <- EzP, po_gr_fst, <- ESC. exact HsPU. }
    assert (Ebl2 : ud_blocks HO (rev (sortK (zip_hp (map (npos R) xds) hs)))
                     (zip_hp (map (npos R) sortedU) (map (@nhash H) sortedU))
                     (gr H F1 (canon_proof_pos R lay1 sortedU)) [] n total = Some (tw1, pw1, np')).
    { rewrite Ebtw, <- map_rev, EzT, ESC, EzP, <- ER, <- SxT, <- SxP. exact Ebl. }
    assert (Epos1 : positions tw1 = map (npos R) sorted) by (rewrite Etw1; apply po_gr_fst).
    pose proof (ud_undoDel_graph H HO F1 n (map (npos R) sortedU) (canon_proof_pos R lay1 sortedU)
                  (computable_pos R lay1 sortedU) (map (@nhash H) sortedU) (map (npos R) xds) hs
                  (canon_proof_hashes HO R lay xds) tw1 pw1 np' before cands rows needed
                  (computable_pos R lay sorted)) as G.
    specialize (G ltac:(destruct xds; [contradiction|discriminate])
                  ltac:(rewrite !map_length; reflexivity) HsTU HsPU Epp1
                  ltac:(rewrite <- Ehx, !map_length; reflexivity) Edt Ebl2 Ecalc
                  ltac:(rewrite Epos1; exact Epp)).
    refine (eq_trans G _). clear G.
    set (pw2 := mergeSortedHashAndPos pw1 np').
    set (pw3 := mergeSortedHashAndPos (ud_replace pw2 before) before).
    assert (Hfinal : getHashAndPosSubset pw3 needed = gr H F needed).
    { (* the pile of proof hashes: ascending, every entry true on the previous state *)
      assert (S1 : SSlt (map fst pw1)).
      { apply cc_sortK_SSlt. exact (st_keys_nodup H R HR63 PW' VP' NP'). }
      destruct (mergeHP_le H pw1 np' (po_SSlt_SSle _ S1) (cc_ascK_SSle np' NPa)) as (M2a & M2b & M2c & _).
      fold pw2 in M2a, M2b, M2c.
      pose proof (ud_replace_spec H pw2 before M2a Sbef) as Erp.
      assert (Krp : map fst (ud_replace pw2 before) = map fst pw2).
      { rewrite Erp, map_map. apply map_ext. intros e. unfold rep1. destruct (hp_find H before (fst e)); reflexivity. }
      destruct (mergeHP_le H (ud_replace pw2 before) before ltac:(rewrite Krp; exact M2a) (po_SSlt_SSle _ Sbef))
        as (M3a & M3b & M3c & M3d). fold pw3 in M3a, M3b, M3c, M3d.
      (* the positions of the subtrees of [s] that hold a deleted leaf *)
      assert (Hbk : forall c r o, locc H HO s c r o -> (exists h, In h (cleaves H c) /\ In h hs) ->
                      In (cpos R (r, o)) (map fst before)).
      { intros c r o Hl (h & Hh1 & Hh2). apply Kbef. exists c, r, o. split; [exact Hl|]. split; [|reflexivity].
        rewrite <- Ehx in Hh2. apply in_map_iff in Hh2 as (x & Ex & Hx). exists x. split; [exact Hx|].
        rewrite Ex. exact Hh1. }
      assert (Hxd : forall x, In x xds -> In (cpos R (nrow x, noff x)) (map fst before) /\
                                          In (cpos R (par (nrow x, noff x))) (map fst before)).
      { intros x Hx. split.
        - destruct (node_locc H HO s x (Lx x Hx) (Flx x Hx)) as (k0 & lo & c & He & Ho & _).
          apply (Hbk (CLeaf (nhash x))); [exists k0, lo, c; auto|].
          exists (nhash x). split; [left; reflexivity|]. rewrite <- Ehx. apply in_map, Hx.
        - destruct (mfin_occ H HO HOK s Hn63 hs xds Lx Flx Ehx REG x Hx) as (_ & _ & _ & _ & _ & _ & _ & _ & Hnr).
          destruct (rf_parent H HO s x (Lx x Hx) Hnr) as (_ & _ & _ & _ & _ & Hlt).
          assert (Hk : In (par (nrow x, noff x)) (known_set lay xds)).
          { apply RefTheory.known_set_In. exists x. split; [exact Hx|].
            pose proof (pu_path_up_mem lay 64 (nrow x) (noff x) (ntree x) 1 ltac:(lia) ltac:(lia)) as Hm.
            unfold par. cbn [fst snd]. rewrite Nat.add_1_r in Hm.
            change (p2 1) with 2 in Hm. exact Hm. }
          apply (known_occ H HO s Hn63 Hnd xds Lx Flx) in Hk as (c & Hl & Hh).
          apply Kbef. exists c, (S (nrow x)), (noff x / 2). auto. }
      assert (Hgood : forall e, In e pw3 -> snd e = F (fst e)).
      { intros e He. destruct (M3b e He) as [He1|He1]; [|exact (Fbef e He1)].
        rewrite Erp in He1. apply in_map_iff in He1 as (e2 & <- & He2). unfold rep1.
        destruct (hp_find H before (fst e2)) as [h|] eqn:Ef.
        - apply hp_find_some in Ef. exact (Fbef _ Ef).
        - apply hp_find_none in Ef. destruct (M2b e2 He2) as [Hp1|Hnp].
          + unfold pw1 in Hp1. apply (proj1 (RefTheory.sortK_In _ _)) in Hp1. apply in_map_iff in Hp1 as (e' & <- & He').
            destruct (PB e' He') as [(e0 & He0 & ->)|(b & Hb & Eb)].
            * destruct (HXP e0 He0) as (c0' & Hl1 & Eh).
              destruct e0 as [[r1 o1] h0]. cbn [fst snd] in *.
              destruct (Hdown c0' r1 o1 Hl1) as (c0 & r0 & o0 & Hl0 & Hp0 & _ & _ & Hu).
              cbn [unl_e ProofUpdateSpec.cposh fst snd] in *. rewrite (unl_to_fun _ _ _ Hu) in *.
              assert (Hno : forall h, In h (cleaves H c0) -> ~ In h hs).
              { intros h Hh1 Hh2. apply Ef. exact (Hbk c0 r0 o0 Hl0 (ex_intro _ h (conj Hh1 Hh2))). }
              assert (Hw : cwf H HO c0).
              { destruct Hl0 as (k0 & lo & c & Hec & Ho).
                exact (occ_cwf H HO _ _ _ _ _ _ Ho (entry_cwf H HO s (k0, lo, Some c) c Hec eq_refl)). }
              rewrite (prune_untouched H HO HOK hs c0 Hw Hno) in Hp0. injection Hp0 as <-.
              rewrite Eh. symmetry. exact (locc_val H HO s c0 r0 o0 Hl0).
            * exfalso. apply Ef. cbn [ProofUpdateSpec.cposh fst]. rewrite Eb.
              apply in_rev in Hb. unfold Bs in Hb. apply in_map_iff in Hb as (x & <- & Hx). cbn [fst].
              apply Hxd. exact (Permutation_in _ Psx Hx).
          + exfalso. apply Ef. destruct (NPb e2 Hnp) as [[]|(b & Hb & ->)].
            apply in_rev in Hb. unfold Bs in Hb. apply in_map_iff in Hb as (x & <- & Hx). cbn [bpos fst].
            apply Hxd. exact (Permutation_in _ Psx Hx). }
      assert (Hcover : forall y, In y needed -> In y (map fst pw3)).
      { intros y Hy.
        apply (canon_pos_occ H HO s Hn63 Hnd sorted LS FlS) in Hy as (h & l & rr & r & o & Hlp & Hcase).
        destruct (locc_child H HO s _ _ _ Hlp h l rr eq_refl) as (r1 & Er & Ll & Lr). injection Er as <-.
        assert (Hbefore_in : forall p, In p (map fst before) -> In p (map fst pw3)).
        { intros p Hp. apply in_map_iff in Hp as (e & <- & He). exact (M3d e He). }
        (* the side that holds no kept leaf: [cp] at offset [op]; the other side: [cq] *)
        assert (Hside : forall (cp cq : ctree H) (op oq : N),
                  (cp = l /\ cq = rr /\ op = 2 * o /\ oq = 2 * o + 1) \/
                  (cp = rr /\ cq = l /\ op = 2 * o + 1 /\ oq = 2 * o) ->
                  hit H sorted cq -> ~ hit H sorted cp -> In (pos R r op) (map fst pw3)).
        { intros cp cq op oq Hwhich Hq Hnp.
          assert (Lp : locc H HO s cp r op) by (destruct Hwhich as [(-> & _ & -> & _)|(-> & _ & -> & _)]; assumption).
          assert (Lq : locc H HO s cq r oq) by (destruct Hwhich as [(_ & -> & _ & ->)|(_ & -> & _ & ->)]; assumption).
          destruct (has_del HO hs cp) eqn:Hdel.
          { (* a deleted leaf inside: the block proof computes this position *)
            apply Hbefore_in. apply (Hbk cp r op Lp). apply (has_del_iff H HO HOK hs). exact Hdel. }
          (* untouched: it is a proof position after the deletions too, and comes back *)
          assert (Hno : forall x, In x (cleaves H cp) -> ~ In x hs).
          { intros x Hx1 Hx2. assert (Ht : has_del HO hs cp = true) by (apply (has_del_iff H HO HOK hs); eauto). congruence. }
          assert (Hcw : forall c rc oc, locc H HO s c rc oc -> cwf H HO c).
          { intros c rc oc (k0 & lo & c1 & Hec & Ho).
            exact (occ_cwf H HO _ _ _ _ _ _ Ho (entry_cwf H HO s (k0, lo, Some c1) c1 Hec eq_refl)). }
          pose proof (prune_untouched H HO HOK hs cp (Hcw _ _ _ Lp) Hno) as Pp.
          assert (Hunp : uncontracted H HO hs cp).
          { intros h' l' r' ->. pose proof (Hcw _ _ _ Lp) as Hw. cbn [cwf] in Hw. destruct Hw as (_ & Wl & Wr).
            split; intros Hn0; pose proof (proj1 (prune_none_iff H HO HOK hs _) Hn0) as Hn1; clear Hn0; rename Hn1 into Hn0.
            - destruct (occp_some_leaf l') as (pi & x & Hpx). pose proof (occp_leaves H _ _ _ Hpx x (or_introl eq_refl)) as Hx.
              apply (Hno x); [cbn [cleaves]; apply in_or_app; left; exact Hx|exact (Hn0 x Hx)].
            - destruct (occp_some_leaf r') as (pi & x & Hpx). pose proof (occp_leaves H _ _ _ Hpx x (or_introl eq_refl)) as Hx.
              apply (Hno x); [cbn [cleaves]; apply in_or_app; right; exact Hx|exact (Hn0 x Hx)]. }
          destruct (prune cq) as [cq'|] eqn:Pq.
          2:{ exfalso. pose proof (proj1 (prune_none_iff H HO HOK hs _) Pq) as Pq'. clear Pq. rename Pq' into Pq. destruct Hq as (x & Hx & Hxc).
              assert (Hc2 : In (nhash x) C2) by (apply HhS; apply in_map, Hx).
              exact (proj2 (HC2s _ Hc2) (Pq _ Hxc)). }
          (* the hits of the two sides after the deletions *)
          assert (Hq1 : hit H sortedU cq').
          { destruct Hq as (x & Hx & Hxc). destruct (TT' x Hx) as (y1 & Hy1 & Ehy). exists y1. split; [exact Hy1|].
            rewrite Ehy. apply (prune_leaves H HO HOK hs cq cq' Pq). split; [exact Hxc|].
            assert (Hc2 : In (nhash x) C2) by (apply HhS; apply in_map, Hx). exact (proj2 (HC2s _ Hc2)). }
          assert (Hp1 : ~ hit H sortedU cp).
          { intros (y1 & Hy1 & Hyc). apply Hnp.
            assert (Hc2 : In (nhash y1) C2) by (apply HhU; apply in_map, Hy1).
            apply HhS in Hc2. apply in_map_iff in Hc2 as (x & Ex & Hx). exists x. split; [exact Hx|]. rewrite Ex. exact Hyc. }
          (* the parent after the deletions *)
          assert (Hpl : exists l' rr', prune l = Some l' /\ prune rr = Some rr' /\
                          ((cp = l /\ l' = cp /\ rr' = cq') \/ (cp = rr /\ rr' = cp /\ l' = cq'))).
          { destruct Hwhich as [(E1' & E2' & _)|(E1' & E2' & _)]; subst l rr.
            - exists cp, cq'. split; [exact Pp|]. split; [exact Pq|]. left. auto.
            - exists cq', cp. split; [exact Pq|]. split; [exact Pp|]. right. auto. }
          destruct Hpl as (l' & rr' & Pl & Pr & Hsides).
          assert (PP : prune (CNode h l rr) = Some (CNode (op_hash2 HO (chash l') (chash rr')) l' rr')).
          { cbn [RefTheory.prune]. rewrite Pl, Pr. reflexivity. }
          pose proof (mf_up H HO s hs REG D HsD HDd _ _ _ _ Hlp PP) as Hlp'.
          destruct (liftc D (S r, o)) as [rp opp] eqn:Elp. cbn [fst snd] in Hlp'.
          destruct (locc_child H HO s1 _ _ _ Hlp' _ l' rr' eq_refl) as (r1' & Er' & Ll' & Lr'). subst rp.
          assert (El : liftc D (r, 2 * o) = (r1', 2 * opp)).
          { pose proof (mf_up H HO s hs REG D HsD HDd _ _ _ _ Ll Pl) as Hu.
            rewrite (surjective_pairing (liftc D (r, 2 * o))). exact (locc_once HO s1 l' _ _ _ _ Hnd1 Hu Ll'). }
          assert (Err : liftc D (r, 2 * o + 1) = (r1', 2 * opp + 1)).
          { pose proof (mf_up H HO s hs REG D HsD HDd _ _ _ _ Lr Pr) as Hu.
            rewrite (surjective_pairing (liftc D (r, 2 * o + 1))). exact (locc_once HO s1 rr' _ _ _ _ Hnd1 Hu Lr'). }
          (* the position of [cp] after the deletions is a canonical proof position there *)
          assert (Hcan : exists op', liftc D (r, op) = (r1', op') /\ locc H HO s1 cp r1' op' /\
                            In (pos R r1' op') (canon_proof_pos R lay1 sortedU)).
          { destruct Hwhich as [(E1' & E2' & -> & _)|(E1' & E2' & -> & _)];
              destruct Hsides as [(E3 & E4 & E5)|(E3 & E4 & E5)].
            - exists (2 * opp). split; [exact El|]. subst l' rr'. split; [exact Ll'|].
              rewrite <- ER1. apply (canon_pos_occ H HO s1 Hn63_1 Hnd1 sortedU LSU FlSU).
              exists (op_hash2 HO (chash cp) (chash cq')), cp, cq', r1', opp. split; [exact Hlp'|]. right. auto.
            - exfalso. subst. destruct Hq as (x & Hx & Hxc). apply Hnp. exists x. auto.
            - exfalso. subst. destruct Hq as (x & Hx & Hxc). apply Hnp. exists x. auto.
            - exists (2 * opp + 1). split; [exact Err|]. subst l' rr'. split; [exact Lr'|].
              rewrite <- ER1. apply (canon_pos_occ H HO s1 Hn63_1 Hnd1 sortedU LSU FlSU).
              exists (op_hash2 HO (chash cq') (chash cp)), cq', cp, r1', opp. split; [exact Hlp'|]. left. auto. }
          destruct Hcan as (op' & Elift & Lp' & Hin).
          rewrite ESC in Hin. apply in_map_iff in Hin as (ec & Eec & Hec).
          destruct (HSCv ec Hec) as [Epc Hv].
          assert (Ec : snd ec = (r1', op')).
          { apply (cpos_inj R _ _ HR63 Hv (Hlv1 cp _ _ Lp')). rewrite <- Epc, Eec. reflexivity. }
          assert (He0 : In (snd ec, F1 (fst ec)) XP) by (unfold XP; apply in_map_iff; exists ec; auto).
          pose proof (PA _ He0) as Hpw. unfold unl_e in Hpw. cbn [fst snd] in Hpw.
          pose proof (uf_up_unlift H HO s hs REG D HsD HDd cp r op cp Lp Pp Hunp) as Hu.
          rewrite Ec, <- Elift, (unl_to_fun _ _ _ Hu) in Hpw.
          assert (H1 : In (cposh H R ((r, op), F1 (fst ec))) pw1).
          { unfold pw1. apply RefTheory.sortK_In. apply in_map. exact Hpw. }
          apply M2c in H1.
          assert (H2 : In (rep1 H before (cposh H R ((r, op), F1 (fst ec)))) (ud_replace pw2 before)).
          { rewrite Erp. apply in_map. exact H1. }
          apply M3c in H2. apply (in_map fst) in H2.
          assert (Ek : fst (rep1 H before (cposh H R ((r, op), F1 (fst ec)))) = pos R r op).
          { unfold rep1. destruct (hp_find H before _); reflexivity. }
          rewrite Ek in H2. exact H2. }
        destruct Hcase as [(Hl & Hnr & ->)|(Hr & Hnl & ->)].
        - exact (Hside rr l (2 * o + 1) (2 * o) (or_intror (conj eq_refl (conj eq_refl (conj eq_refl eq_refl)))) Hl Hnr).
        - exact (Hside l rr (2 * o) (2 * o + 1) (or_introl (conj eq_refl (conj eq_refl (conj eq_refl eq_refl)))) Hr Hnl). }
      apply (getSubset_graph H F pw3 needed M3a Hsn Hcover). intros e He _. exact (Hgood e He). }
    rewrite Hfinal, Etw1. unfold hashes, positions. rewrite po_gr_fst, !po_gr_snd.
    rewrite <- (po_hashes_Fv H HO s sorted LS), (po_canon_hashes_Fv H HO s Hn63 sorted LS). reflexivity.
  Qed.
End UndoDelReg.

Print Assumptions undoDel_regular_main.

(** * 8. Closed forms: [undoDel_spec] and [Proof.Undo] for blocks with regular deletions *)

(** G2: [undoDel] takes the cached proof of the kept leaves from the state after the deletions back to
    the state before them, when no two deleted leaves are siblings and no tree is deleted as a whole *)
Theorem undoDel_regular {H} (HO : ops H) :
  ops_ok HO -> (forall a b, NZ HO (op_hash2 HO a b)) ->
  forall (s : slots H) (hs C : list H),
  (forall h, In (Some h) s -> NZ HO h) ->
  N.of_nat (length s) <= 2 ^ 63 -> NoDup (live s) -> NoDup hs ->
  (forall (e : StumpAdd.entry H) ce, In e (forest HO s) -> snd e = Some ce ->
     regular H HO hs ce /\ RefTheory.prune HO hs ce <> None) ->
  NoDup C ->
  undoDel_spec H HO s hs C.
Proof.
  intros HOK Hnz s hs C Hl Hn63 Hnd Hhs REG HC. unfold undoDel_spec. intros h1 t1 p1 bt bp E1 Ep.
  unfold exp_prove in Ep. cbn [mk_ctx clay crows] in Ep.
  destruct (find_leaves HO (layout HO s) hs) as [xds|] eqn:Fx; [|discriminate]. injection Ep as <- <-.
  destruct (cc_find_leaves_facts HO s hs xds HOK Hhs Fx) as (_ & _ & _ & Ehx & _).
  destruct xds as [|x0 xds'].
  - cbn [map] in Ehx. subst hs. rewrite (pu_kill_nil H HO s) in E1. rewrite E1. reflexivity.
  - apply (undoDel_regular_main H HO HOK Hnz s Hl Hn63 Hnd hs Hhs REG (x0 :: xds') Fx C HC h1 t1 p1 E1).
    discriminate.
Qed.
Print Assumptions undoDel_regular.

(** G2 + G3: [Proof.Undo] for every block with regular deletions and any additions *)
Theorem proof_undo_regular_deletions {H} (HO : ops H) :
  ops_ok HO -> (forall a b, NZ HO (op_hash2 HO a b)) ->
  forall (s : slots H) (hs adds C : list H) (rem : list N),
  (forall h, In (Some h) s -> NZ HO h) ->
  N.of_nat (length s + length adds) <= 2 ^ 63 ->
  NoDup (live s) -> NoDup hs ->
  (forall (e : StumpAdd.entry H) ce, In e (forest HO s) -> snd e = Some ce ->
     regular H HO hs ce /\ RefTheory.prune HO hs ce <> None) ->
  NoDup (live (kill HO hs s ++ map Some adds)) ->
  NoDup C -> (forall h, In h C -> In (Some h) s) ->
  forall hC' tC' pC' bt bp,
  exp_cached HO (mk_ctx HO (apply_block HO s hs adds)) (cached_after HO C hs (pick adds rem))
  = Some (hC', tC', pC') ->
  exp_prove HO (mk_ctx HO s) hs = Some (bt, bp) ->
  proof_undo HO tC' pC' (N.of_nat (length adds)) (num_leaves (apply_block HO s hs adds)) bt hs hC'
             (ud_to_destroy (spec_update_data HO s hs adds)) bt bp
  = exp_cached HO (mk_ctx HO s) (cached_after_undo HO (cached_after HO C hs (pick adds rem)) adds).
Proof.
  intros HOK Hnz s hs adds C rem Hl Hb Hnd Hhs REG Hnd2 HC HCs hC' tC' pC' bt bp E Ep.
  apply (proof_undo_block H HO HOK Hnz s hs adds Hb Hnd2 C rem HC HCs hC' tC' pC' bt bp); [|exact E|exact Ep].
  apply (undoDel_regular HO HOK Hnz s hs C Hl ltac:(lia) Hnd Hhs REG HC).
Qed.
Print Assumptions proof_undo_regular_deletions.

(** in the free hash algebra, with the decidable form of the hypothesis *)
Theorem proof_undo_regular_deletions_term (s : slots term) (hs adds C : list term) (rem : list N)
        (hC' : list term) (tC' : list N) (pC' : list term) (bt : list N) (bp : list term) :
  (forall h, In (Some h) s -> h <> Zero) ->
  N.of_nat (length s + length adds) <= 2 ^ 63 ->
  NoDup (live s) -> NoDup hs ->
  regular_forestb term term_ops hs s = true ->
  NoDup (live (kill term_ops hs s ++ map Some adds)) ->
  NoDup C -> (forall h, In h C -> In (Some h) s) ->
  exp_cached term_ops (mk_ctx term_ops (apply_block term_ops s hs adds))
             (cached_after term_ops C hs (pick adds rem)) = Some (hC', tC', pC') ->
  exp_prove term_ops (mk_ctx term_ops s) hs = Some (bt, bp) ->
  proof_undo term_ops tC' pC' (N.of_nat (length adds)) (num_leaves (apply_block term_ops s hs adds))
             bt hs hC' (ud_to_destroy (spec_update_data term_ops s hs adds)) bt bp
  = exp_cached term_ops (mk_ctx term_ops s)
               (cached_after_undo term_ops (cached_after term_ops C hs (pick adds rem)) adds).
Proof.
  intros Hl Hb Hnd Hhs Hreg Hnd2 HC HCs E Ep.
  exact (proof_undo_regular_deletions term_ops term_ops_ok cs_term_hash_nz s hs adds C rem
           (fun h Hh => term_nonzero_eqb h (Hl h Hh)) Hb Hnd Hhs
           (regular_forestb_ok term term_ops hs s Hreg) Hnd2 HC HCs hC' tC' pC' bt bp E Ep).
Qed.

(** non-vacuity: eight leaves; the block deletes [Atom 2], [Atom 5] and [Atom 8] (the cached [Atom 1]
    and [Atom 6] move up) and adds one leaf, which is remembered; [Undo] gives back the cached proof
    of the kept leaves [Atom 1], [Atom 6], [Atom 3] in the previous state *)
Example un_ex_three_deletions :
  exists hC' tC' pC' bt bp,
    exp_cached term_ops (mk_ctx term_ops (apply_block term_ops pu_ex_s8 [Atom 5; Atom 2; Atom 8] [Atom 9]))
               (cached_after term_ops [Atom 1; Atom 6; Atom 3; Atom 5] [Atom 5; Atom 2; Atom 8] (pick [Atom 9] [0]))
    = Some (hC', tC', pC') /\
    exp_prove term_ops (mk_ctx term_ops pu_ex_s8) [Atom 5; Atom 2; Atom 8] = Some (bt, bp) /\
    bt = [4; 1; 7] /\
    proof_undo term_ops tC' pC' 1 (num_leaves (apply_block term_ops pu_ex_s8 [Atom 5; Atom 2; Atom 8] [Atom 9]))
               bt [Atom 5; Atom 2; Atom 8] hC'
               (ud_to_destroy (spec_update_data term_ops pu_ex_s8 [Atom 5; Atom 2; Atom 8] [Atom 9])) bt bp
    = exp_cached term_ops (mk_ctx term_ops pu_ex_s8) [Atom 1; Atom 6; Atom 3] /\
    exp_cached term_ops (mk_ctx term_ops pu_ex_s8) [Atom 1; Atom 6; Atom 3]
    = Some ([Atom 1; Atom 3; Atom 6], [0; 2; 5],
            [Atom 2; Atom 4; Atom 5; Node (Atom 7) (Atom 8)]).
Proof.
  eexists _, _, _, _, _. split; [vm_compute; reflexivity|]. split; [vm_compute; reflexivity|].
  split; [reflexivity|]. split; [|vm_compute; reflexivity].
  change [Atom 1; Atom 6; Atom 3]
    with (cached_after_undo term_ops (cached_after term_ops [Atom 1; Atom 6; Atom 3; Atom 5]
                                        [Atom 5; Atom 2; Atom 8] (pick [Atom 9] [0])) [Atom 9]).
  apply (proof_undo_regular_deletions_term pu_ex_s8 [Atom 5; Atom 2; Atom 8] [Atom 9]
           [Atom 1; Atom 6; Atom 3; Atom 5] [0]).
  - intros h Hh. cbn in Hh. repeat (destruct Hh as [Hh|Hh]; [injection Hh as <-; discriminate|]). destruct Hh.
  - vm_compute. discriminate.
  - apply po_ex_nodup; reflexivity.
  - apply po_ex_nodup; reflexivity.
  - vm_compute. reflexivity.
  - apply po_ex_nodup; reflexivity.
  - apply po_ex_nodup; reflexivity.
  - intros h Hh. cbn in Hh. cbn. repeat (destruct Hh as [<-|Hh]; [auto 12|]). destruct Hh.
  - vm_compute. reflexivity.
  - vm_compute. reflexivity.
Qed.

(** What remains for C08: [undoDel_spec] when sibling leaves, whole subtrees or whole trees are
    deleted.  There (i) [deTwinHashAndPos] replaces twins by their parent WITH the hash of the parent
    (the positions are those of [ProofUpdateDel2.tw_deTwin]; the hashes need the valuation of [s]),
    so the block targets of [ud_blocks] are the roots of the maximal deleted subtrees
    ([ProofUpdateDel2.glist]) and the geometry is the converse of [ProofUpdateDel2.move_tree_g]
    ([unl_tree_multi] with subtrees in place of leaves; [unlift1_sibling] is already stated for
    any node); (ii) for the top of a deleted tree the [DetectOffset] test of the two loops is no
    longer implied by [mv] and must fail for every other tree ([ProofUpdateDel2.subtree_diff_trees]);
    such a target moves nothing; (iii) [garb] (the entry added at the parent of a target is not moved
    later) needs the order of the roots of maximal deleted subtrees instead of [ur_no_twins].  The
    loops ([ud_targets_spec], [ud_proof_spec], [ud_blocks_spec]), the lists with repeated positions
    and the final repair by [ur_before] do not depend on regularity.  [ProofUndoSpec.un_check],
    [ud_small_4] cover those blocks by computation on small states. *)
