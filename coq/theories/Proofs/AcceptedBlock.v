(** C05 for EVERY accepted encoding of a deletion proof.

    [Proofs.CalcComplete.stump_del_refines] says: [Stump.del] (mirror, repaired form) on the
    CANONICAL proof of a set of live leaves yields the reference roots after the deletion.
    Here: whenever the repaired roots-only verifier ACCEPTS a deletion of leaf positions - targets in
    any order, any proof hashes, unused trailing proof hashes - its new roots are the reference
    roots after deleting those leaves (free hash algebra, as in [Proofs.Soundness]).

    Route.  The control flow of [calculateHashes] depends on the positions and on the number of
    proof hashes only, never on a hash value.  So two runs on the same targets are in lockstep
    ([used_shape]); a run only reads the first [used] proof hashes ([calc_loop_proof_prefix]); and in
    an algebra with an injective, never-empty node hash two accepted runs on the same targets that
    report the same root candidates have read the same target hashes and the same proof hashes
    ([calc_inj]).  Hence any two accepted proofs of the same (hashes, targets) drive [Stump.del] to
    the same result ([stump_del_proof_irrelevant]); soundness ([Proofs.Soundness]) says the targets
    are the positions of the claimed leaves, for which the canonical proof exists and is accepted
    ([stump_del_refines_nodes]). *)
From Utreexo Require Import Model.Verify Spec.Forest Spec.Oracle Spec.Term
  Proofs.UtilsGeom Proofs.UtilsGeom2 Proofs.CalcTotal Proofs.CalcSound Proofs.LayoutStruct
  Proofs.Soundness Proofs.CalcComplete Proofs.StumpAdd Proofs.StumpUpdate.
From Utreexo Require Proofs.SpecBasics Proofs.RefTheory.
From Coq Require Import Lia ZifyN ZifyNat ZifyBool List Sorted Permutation PeanoNat.
Import ListNotations.
Open Scope N_scope.

Local Notation SSlt := (StronglySorted N.lt).

(** * 1. The loop: lockstep of two runs, proof prefix, injectivity *)

Section Lock.
  Variable H : Type.
  Variable HO : ops H.
  Variables n total : N.

  Local Notation hash2 := (op_hash2 HO).
  Local Notation nz := (NZ HO).
  Local Notation step := (calc_step H HO n total).
  Local Notation loop f st tpa := (calc_loop HO true f n total st tpa).

  Definition set_proof (st : cstate H) (P : list H) : cstate H :=
    mkC (c_row st) (c_tp st) (c_np st) (c_all st) P (c_prev st) (c_roots st) (c_rows st).

  (** the number of proof hashes a run reads *)
  Fixpoint used (f : nat) (st : cstate H) (tpa : list (hp H)) : nat :=
    match f with
    | O => O
    | S f' =>
        match step st tpa with
        | Done _ _ => O
        | Cont _ st' => ((length (c_proof st) - length (c_proof st')) + used f' st' tpa)%nat
        end
    end.

  (** same positions, possibly different hashes *)
  Definition SF (a b : list (hp H)) : Prop := Forall2 (fun e1 e2 : hp H => fst e1 = fst e2) a b.

  Definition Sh (st1 st2 : cstate H) : Prop :=
    c_row st1 = c_row st2 /\ SF (c_tp st1) (c_tp st2) /\ SF (c_np st1) (c_np st2) /\
    c_prev st1 = c_prev st2 /\ c_rows st1 = c_rows st2 /\
    length (c_roots st1) = length (c_roots st2).

  Lemma SF_snoc a b e1 e2 : SF a b -> fst e1 = fst e2 -> SF (a ++ [e1]) (b ++ [e2]).
  Proof.
    intros Hab He. unfold SF. apply Forall2_app; [exact Hab|]. constructor; [exact He|constructor].
  Qed.

  Lemma pop_lock tp1 np1 tp2 np2 : SF tp1 tp2 -> SF np1 np2 ->
    match pop H tp1 np1, pop H tp2 np2 with
    | None, None => tp1 = [] /\ np1 = [] /\ tp2 = [] /\ np2 = []
    | Some (p1, h1, a1, b1), Some (p2, h2, a2, b2) =>
        p1 = p2 /\ SF a1 a2 /\ SF b1 b2 /\
        (forall Q : hp H -> hp H -> Prop, Q (p1, h1) (p2, h2) ->
           Forall2 Q a1 a2 -> Forall2 Q b1 b2 -> Forall2 Q tp1 tp2 /\ Forall2 Q np1 np2)
    | _, _ => False
    end.
  Proof.
    intros Htp Hnp. unfold pop.
    destruct Htp as [|[p1 h1] [p2 h2] tp1 tp2 Ex Htp]; destruct Hnp as [|[q1 k1] [q2 k2] np1 np2 Ey Hnp];
      cbn [fst snd] in *.
    - repeat split.
    - subst q2. split; [reflexivity|]. split; [constructor|]. split; [exact Hnp|].
      intros Q Hq Ha Hb. split; [constructor|constructor; assumption].
    - subst p2. split; [reflexivity|]. split; [exact Htp|]. split; [constructor|].
      intros Q Hq Ha Hb. split; [constructor; assumption|constructor].
    - subst p2 q2. destruct (p1 <? q1).
      + split; [reflexivity|]. split; [exact Htp|]. split; [constructor; [reflexivity|exact Hnp]|].
        intros Q Hq Ha Hb. split; [constructor; assumption|exact Hb].
      + split; [reflexivity|]. split; [constructor; [reflexivity|exact Htp]|]. split; [exact Hnp|].
        intros Q Hq Ha Hb. split; [exact Ha|constructor; assumption].
  Qed.

  Lemma pop_sib_lock p tp1 np1 tp2 np2 : SF tp1 tp2 -> SF np1 np2 ->
    match pop_sib H p tp1 np1, pop_sib H p tp2 np2 with
    | None, None => True
    | Some (h1, a1, b1), Some (h2, a2, b2) =>
        SF a1 a2 /\ SF b1 b2 /\
        (forall Q : hp H -> hp H -> Prop, Q (rightSib p, h1) (rightSib p, h2) ->
           Forall2 Q a1 a2 -> Forall2 Q b1 b2 -> Forall2 Q tp1 tp2 /\ Forall2 Q np1 np2)
    | _, _ => False
    end.
  Proof.
    intros Htp Hnp. pose proof (pop_lock tp1 np1 tp2 np2 Htp Hnp) as HP. unfold pop_sib.
    destruct (pop H tp1 np1) as [[[[q1 h1] a1] b1]|]; destruct (pop H tp2 np2) as [[[[q2 h2] a2] b2]|];
      try contradiction; [|exact I].
    destruct HP as (<- & Ha & Hb & Hback).
    destruct (N.eqb_spec (rightSib p) q1) as [<-|_]; [|exact I].
    split; [exact Ha|]. split; [exact Hb|exact Hback].
  Qed.

  Lemma row_loop_le : forall fuel p c r, c <= total ->
    row_loop true fuel p c total n = Some (Some r) -> r <= total.
  Proof.
    induction fuel as [|f IH]; intros p c r Hc E; [discriminate|]. cbn [row_loop andb] in E.
    destruct (fst (maxPositionAtRow c total n) <? p).
    - destruct (N.ltb_spec total (add8 c 1)) as [Hlt|Hge]; [discriminate|].
      exact (IH p (add8 c 1) r Hge E).
    - injection E as <-. exact Hc.
  Qed.

  (** ** 1a. the candidates grow at the end *)
  Lemma calc_loop_roots_prefix tpa : forall f st i c r,
    loop f st tpa = Ok (i, c, r) -> exists nc, c = c_roots st ++ nc.
  Proof.
    induction f as [|f IH]; intros st i c r E; [discriminate|].
    rewrite calc_loop_S in E. unfold calc_step in E. cbv zeta in E.
    destruct (total <? c_row st).
    { cbn [step_k] in E. injection E as _ <- _. exists []. rewrite app_nil_r. reflexivity. }
    destruct (pop H (c_tp st) (c_np st)) as [[[[p h] tp1] np1]|].
    2:{ cbn [step_k] in E. injection E as _ <- _. exists []. rewrite app_nil_r. reflexivity. }
    destruct (match c_prev st with Some q => p <=? q | None => false end); [discriminate|].
    destruct (row_loop true 300 p (c_row st) total n) as [[row|]|]; try discriminate.
    destruct (isRootPositionOnRow p n row).
    - cbn [step_k] in E. apply IH in E. destruct E as (nc & ->). cbn [c_roots].
      exists (h :: nc). rewrite <- app_assoc. reflexivity.
    - destruct (pop_sib H p tp1 np1) as [[[sh tp2] np2]|].
      + destruct (negb (isLeftNiece p)); [discriminate|].
        cbn [step_k] in E. apply IH in E. exact E.
      + destruct (c_proof st) as [|ph prest]; [discriminate|].
        cbn [step_k] in E. apply IH in E. exact E.
  Qed.

  (** ** 1b. two runs on the same positions read the same number of proof hashes and report the
      same rows *)
  Lemma used_shape tpa1 tpa2 : forall f st1 st2 r1 r2,
    Sh st1 st2 ->
    loop f st1 tpa1 = Ok r1 -> loop f st2 tpa2 = Ok r2 ->
    used f st1 tpa1 = used f st2 tpa2 /\ snd r1 = snd r2 /\
    length (snd (fst r1)) = length (snd (fst r2)).
  Proof.
    induction f as [|f IH]; intros st1 st2 r1 r2 HSh E1 E2; [discriminate|].
    rewrite calc_loop_S in E1, E2. cbn [used]. unfold calc_step in *. cbv zeta in *.
    destruct HSh as (Hrow & Htp & Hnp & Hprev & Hrows & Hlen).
    rewrite <- Hrow in *.
    destruct (total <? c_row st1).
    { cbn [step_k] in E1, E2. injection E1 as <-. injection E2 as <-. cbn [fst snd].
      repeat split; assumption. }
    pose proof (pop_lock _ _ _ _ Htp Hnp) as HP.
    destruct (pop H (c_tp st1) (c_np st1)) as [[[[p h1] tp1] np1]|];
      destruct (pop H (c_tp st2) (c_np st2)) as [[[[p' h2] tp1'] np1']|]; try contradiction.
    2:{ cbn [step_k] in E1, E2. injection E1 as <-. injection E2 as <-. cbn [fst snd].
        repeat split; assumption. }
    destruct HP as (<- & Htp1 & Hnp1 & _). rewrite <- Hprev in *.
    destruct (match c_prev st1 with Some q => p <=? q | None => false end); [discriminate|].
    destruct (row_loop true 300 p (c_row st1) total n) as [[row|]|]; try discriminate.
    destruct (isRootPositionOnRow p n row).
    - cbn [step_k] in E1, E2. cbn [c_proof]. rewrite !Nat.sub_diag. cbn [Nat.add].
      apply (IH _ _ r1 r2); [|exact E1|exact E2].
      unfold Sh. cbn [c_row c_tp c_np c_prev c_rows c_roots]. rewrite !app_length, Hrows, Hlen.
      repeat split; try assumption; reflexivity.
    - pose proof (pop_sib_lock p _ _ _ _ Htp1 Hnp1) as HS.
      destruct (pop_sib H p tp1 np1) as [[[sh1 tp2] np2]|];
        destruct (pop_sib H p tp1' np1') as [[[sh2 tp2'] np2']|]; try contradiction.
      + destruct HS as (Htp2 & Hnp2 & _).
        destruct (negb (isLeftNiece p)); [discriminate|].
        cbn [step_k] in E1, E2. cbn [c_proof]. rewrite !Nat.sub_diag. cbn [Nat.add].
        apply (IH _ _ r1 r2); [|exact E1|exact E2].
        unfold Sh. cbn [c_row c_tp c_np c_prev c_rows c_roots].
        repeat split; try assumption; try reflexivity. apply SF_snoc; [exact Hnp2|reflexivity].
      + destruct (c_proof st1) as [|ph1 pr1]; [discriminate|].
        destruct (c_proof st2) as [|ph2 pr2]; [discriminate|].
        cbn [step_k] in E1, E2. cbn [c_proof length].
        replace (S (length pr1) - length pr1)%nat with 1%nat by lia.
        replace (S (length pr2) - length pr2)%nat with 1%nat by lia.
        assert (G : used f (mkC row tp1 (np1 ++ [(Parent p total, getNextHash HO p h1 ph1)])
                             (c_all st1 ++ [(Parent p total, getNextHash HO p h1 ph1)]) pr1
                             (Some p) (c_roots st1) (c_rows st1)) tpa1
                  = used f (mkC row tp1' (np1' ++ [(Parent p total, getNextHash HO p h2 ph2)])
                             (c_all st2 ++ [(Parent p total, getNextHash HO p h2 ph2)]) pr2
                             (Some p) (c_roots st2) (c_rows st2)) tpa2 /\
                    snd r1 = snd r2 /\ length (snd (fst r1)) = length (snd (fst r2))).
        { apply (IH _ _ r1 r2); [|exact E1|exact E2].
          unfold Sh. cbn [c_row c_tp c_np c_prev c_rows c_roots].
          repeat split; try assumption; try reflexivity. apply SF_snoc; [exact Hnp1|reflexivity]. }
        destruct G as (G1 & G2 & G3). rewrite G1. repeat split; assumption.
  Qed.

  (** ** 1c. a run reads a prefix of the proof: only its first [used] hashes matter *)
  Lemma set_proof_id st : set_proof st (c_proof st) = st.
  Proof. destruct st; reflexivity. Qed.

  Lemma calc_loop_proof_prefix tpa : forall f st r,
    loop f st tpa = Ok r ->
    (used f st tpa <= length (c_proof st))%nat /\
    forall P', firstn (used f st tpa) P' = firstn (used f st tpa) (c_proof st) ->
               (used f st tpa <= length P')%nat ->
               loop f (set_proof st P') tpa = Ok r /\ used f (set_proof st P') tpa = used f st tpa.
  Proof.
    induction f as [|f IH]; intros st r E; [discriminate|].
    rewrite calc_loop_S in E. cbn [used].
    assert (Hs : forall P', loop (S f) (set_proof st P') tpa
                            = step_k H HO n total f tpa (step (set_proof st P') tpa))
      by (intros P'; apply calc_loop_S).
    unfold calc_step in *. cbv zeta in *. unfold set_proof in Hs |- *.
    cbn [c_row c_tp c_np c_all c_proof c_prev c_roots c_rows] in Hs |- *.
    destruct (total <? c_row st).
    { cbn [step_k] in E, Hs. split; [lia|]. intros P' _ _. rewrite Hs. split; [exact E|reflexivity]. }
    destruct (pop H (c_tp st) (c_np st)) as [[[[p h] tp1] np1]|].
    2:{ cbn [step_k] in E, Hs. split; [lia|]. intros P' _ _. rewrite Hs. split; [exact E|reflexivity]. }
    destruct (match c_prev st with Some q => p <=? q | None => false end); [discriminate|].
    destruct (row_loop true 300 p (c_row st) total n) as [[row|]|]; try discriminate.
    destruct (isRootPositionOnRow p n row).
    - cbn [step_k] in E, Hs. cbn [c_proof]. rewrite !Nat.sub_diag. cbn [Nat.add].
      destruct (IH _ _ E) as [Hle Hall]. cbn [c_proof] in Hle, Hall.
      split; [exact Hle|]. intros P' HP' HlP'. rewrite Hs, Nat.sub_diag. cbn [Nat.add].
      exact (Hall P' HP' HlP').
    - destruct (pop_sib H p tp1 np1) as [[[sh tp2] np2]|].
      + destruct (negb (isLeftNiece p)); [discriminate|].
        cbn [step_k] in E, Hs. cbn [c_proof]. rewrite !Nat.sub_diag. cbn [Nat.add].
        destruct (IH _ _ E) as [Hle Hall]. cbn [c_proof] in Hle, Hall.
        split; [exact Hle|]. intros P' HP' HlP'. rewrite Hs, Nat.sub_diag. cbn [Nat.add].
        exact (Hall P' HP' HlP').
      + destruct (c_proof st) as [|ph prest]; [discriminate|].
        cbn [step_k] in E. cbn [c_proof length].
        replace (S (length prest) - length prest)%nat with 1%nat by lia.
        destruct (IH _ _ E) as [Hle Hall]. cbn [c_proof] in Hle, Hall.
        split; [cbn [Nat.add]; lia|]. intros P' HP' HlP'.
        destruct P' as [|ph' prest']; [cbn [length Nat.add] in HlP'; lia|].
        cbn [Nat.add firstn] in HP'. injection HP' as -> HP'.
        cbn [length Nat.add] in HlP'.
        rewrite Hs. cbn [step_k length c_proof].
        replace (S (length prest') - length prest')%nat with 1%nat by lia.
        destruct (Hall prest' HP' ltac:(lia)) as [G1 G2]. unfold set_proof in G1, G2.
        cbn [c_row c_tp c_np c_all c_proof c_prev c_roots c_rows] in G1, G2.
        split; [exact G1|]. rewrite G2. reflexivity.
  Qed.

  (** ** 1d. injectivity: equal candidates come from equal inputs *)
  Hypothesis hash_nz : forall a b, nz (hash2 a b).
  Hypothesis hash_inj : forall a b c d, hash2 a b = hash2 c d -> a = c /\ b = d.

  Definition NZst (st : cstate H) : Prop :=
    Forall (fun e : hp H => nz (snd e)) (c_tp st) /\ Forall (fun e : hp H => nz (snd e)) (c_np st) /\
    Forall nz (c_proof st).

  Lemma ab_next_nz p h s : nz h -> nz s -> nz (getNextHash HO p h s).
  Proof.
    intros Hh Hs. rewrite cs_getNextHash_nz by assumption. destruct (isLeftNiece p); apply hash_nz.
  Qed.

  Lemma ab_next_inj p h1 s1 h2 s2 : nz h1 -> nz s1 -> nz h2 -> nz s2 ->
    getNextHash HO p h1 s1 = getNextHash HO p h2 s2 -> h1 = h2 /\ s1 = s2.
  Proof.
    intros A1 A2 A3 A4. rewrite !cs_getNextHash_nz by assumption.
    destruct (isLeftNiece p); intros E; apply hash_inj in E; tauto.
  Qed.

  Lemma Forall2_eq_eq {A} (l m : list A) : Forall2 eq l m -> l = m.
  Proof. intros HF. induction HF as [|a b l m -> _ IH]; [reflexivity|]. rewrite IH. reflexivity. Qed.
  Lemma eq_Forall2_eq {A} (l : list A) : Forall2 eq l l.
  Proof. induction l; constructor; [reflexivity|assumption]. Qed.

  Lemma snoc_inj {A} (l m : list A) a b : l ++ [a] = m ++ [b] -> l = m /\ a = b.
  Proof. intros E. apply app_inj_tail in E. exact E. Qed.

  Ltac ab_states E1 E2 k :=
    match type of E1 with
    | calc_loop _ _ _ _ _ ?s1 _ = _ =>
        match type of E2 with calc_loop _ _ _ _ _ ?s2 _ = _ => k s1 s2 end
    end.

  Lemma calc_inj tpa1 tpa2 : forall f st1 st2 i1 c1 r1 i2 c2 r2 nc,
    Sh st1 st2 -> c_row st1 <= total -> NZst st1 -> NZst st2 ->
    loop f st1 tpa1 = Ok (i1, c1, r1) -> loop f st2 tpa2 = Ok (i2, c2, r2) ->
    c1 = c_roots st1 ++ nc -> c2 = c_roots st2 ++ nc ->
    c_tp st1 = c_tp st2 /\ c_np st1 = c_np st2 /\
    firstn (used f st1 tpa1) (c_proof st1) = firstn (used f st1 tpa1) (c_proof st2).
  Proof.
    induction f as [|f IH]; intros st1 st2 i1 c1 r1 i2 c2 r2 nc HSh Hrt HN1 HN2 E1 E2 Ec1 Ec2;
      [discriminate|].
    rewrite calc_loop_S in E1, E2. cbn [used]. unfold calc_step in *. cbv zeta in *.
    destruct HSh as (Hrow & Htp & Hnp & Hprev & Hrows & Hlen).
    destruct HN1 as (Nt1 & Nn1 & Np1). destruct HN2 as (Nt2 & Nn2 & Np2).
    rewrite <- Hrow in *.
    pose proof (pop_lock _ _ _ _ Htp Hnp) as HP.
    destruct (N.ltb_spec total (c_row st1)) as [Hgt|_]; [lia|].
    pose proof (cs_pop_Forall (fun e : hp H => nz (snd e)) (c_tp st1) (c_np st1)) as HF1.
    pose proof (cs_pop_Forall (fun e : hp H => nz (snd e)) (c_tp st2) (c_np st2)) as HF2.
    destruct (pop H (c_tp st1) (c_np st1)) as [[[[p h1] tp1] np1]|];
      destruct (pop H (c_tp st2) (c_np st2)) as [[[[p' h2] tp1'] np1']|]; try contradiction.
    2:{ destruct HP as (-> & -> & -> & ->). cbn [firstn]. repeat split; reflexivity. }
    destruct HP as (<- & Htp1 & Hnp1 & Hback). rewrite <- Hprev in *.
    destruct (proj1 (HF1 _ _ _ _ eq_refl) (conj Nt1 Nn1)) as (Nh1 & Ntp1 & Nnp1).
    destruct (proj1 (HF2 _ _ _ _ eq_refl) (conj Nt2 Nn2)) as (Nh2 & Ntp1' & Nnp1').
    cbn [snd] in Nh1, Nh2. clear HF1 HF2.
    assert (Hfin : h1 = h2 -> tp1 = tp1' -> np1 = np1' ->
                   c_tp st1 = c_tp st2 /\ c_np st1 = c_np st2).
    { intros -> -> ->. destruct (Hback eq eq_refl (eq_Forall2_eq _) (eq_Forall2_eq _)) as [A B].
      split; apply Forall2_eq_eq; assumption. }
    destruct (match c_prev st1 with Some q => p <=? q | None => false end); [discriminate|].
    destruct (row_loop true 300 p (c_row st1) total n) as [[row|]|] eqn:Erow; try discriminate.
    pose proof (row_loop_le _ _ _ _ Hrt Erow) as Hrow'.
    destruct (isRootPositionOnRow p n row).
    - cbn [step_k] in E1, E2. cbn [c_proof]. rewrite !Nat.sub_diag. cbn [Nat.add].
      destruct (calc_loop_roots_prefix _ _ _ _ _ _ E1) as (nc1 & Ec1').
      destruct (calc_loop_roots_prefix _ _ _ _ _ _ E2) as (nc2 & Ec2').
      cbn [c_roots] in Ec1', Ec2'. rewrite <- app_assoc in Ec1', Ec2'. cbn [app] in Ec1', Ec2'.
      rewrite Ec1 in Ec1'. rewrite Ec2 in Ec2'.
      apply app_inv_head in Ec1', Ec2'. rewrite Ec1' in Ec2'. injection Ec2' as Eh Enc.
      subst h2 nc2.
      ab_states E1 E2 ltac:(fun s1 s2 =>
        assert (HSh' : Sh s1 s2);
        [unfold Sh; cbn [c_row c_tp c_np c_prev c_rows c_roots];
         rewrite !app_length, Hrows, Hlen; repeat split; try assumption; reflexivity|];
        assert (HN1' : NZst s1) by (unfold NZst; cbn [c_tp c_np c_proof]; repeat split; assumption);
        assert (HN2' : NZst s2) by (unfold NZst; cbn [c_tp c_np c_proof]; repeat split; assumption)).
      destruct (IH _ _ _ _ _ _ _ _ nc1 HSh' Hrow' HN1' HN2' E1 E2
                  ltac:(cbn [c_roots]; rewrite Ec1, Ec1', <- app_assoc; reflexivity)
                  ltac:(cbn [c_roots]; rewrite Ec2, Ec1', <- app_assoc; reflexivity))
        as (G1 & G2 & G3).
      cbn [c_tp c_np c_proof] in G1, G2, G3.
      destruct (Hfin eq_refl G1 G2) as [A B]. split; [exact A|]. split; [exact B|exact G3].
    - pose proof (pop_sib_lock p _ _ _ _ Htp1 Hnp1) as HS.
      pose proof (fun sh a b => cs_pop_sib_pop p tp1 np1 sh a b) as HQ1.
      pose proof (fun sh a b => cs_pop_sib_pop p tp1' np1' sh a b) as HQ2.
      destruct (pop_sib H p tp1 np1) as [[[sh1 tp2] np2]|];
        destruct (pop_sib H p tp1' np1') as [[[sh2 tp2'] np2']|]; try contradiction.
      + destruct HS as (Htp2 & Hnp2 & Hback2).
        specialize (HQ1 _ _ _ eq_refl). specialize (HQ2 _ _ _ eq_refl).
        destruct (proj1 (cs_pop_Forall (fun e : hp H => nz (snd e)) _ _ _ _ _ _ HQ1)
                        (conj Ntp1 Nnp1)) as (Ns1 & Ntp2 & Nnp2).
        destruct (proj1 (cs_pop_Forall (fun e : hp H => nz (snd e)) _ _ _ _ _ _ HQ2)
                        (conj Ntp1' Nnp1')) as (Ns2 & Ntp2' & Nnp2').
        cbn [snd] in Ns1, Ns2.
        destruct (negb (isLeftNiece p)); [discriminate|].
        cbn [step_k] in E1, E2. cbn [c_proof]. rewrite !Nat.sub_diag. cbn [Nat.add].
        ab_states E1 E2 ltac:(fun s1 s2 =>
          assert (HSh' : Sh s1 s2);
          [unfold Sh; cbn [c_row c_tp c_np c_prev c_rows c_roots];
           repeat split; try assumption; try reflexivity;
           apply SF_snoc; [exact Hnp2|reflexivity]|];
          assert (HN1' : NZst s1)
            by (unfold NZst; cbn [c_tp c_np c_proof]; repeat split; try assumption;
                apply Forall_app; split; [assumption|];
                constructor; [apply ab_next_nz; assumption|constructor]);
          assert (HN2' : NZst s2)
            by (unfold NZst; cbn [c_tp c_np c_proof]; repeat split; try assumption;
                apply Forall_app; split; [assumption|];
                constructor; [apply ab_next_nz; assumption|constructor])).
        destruct (IH _ _ _ _ _ _ _ _ nc HSh' Hrow' HN1' HN2' E1 E2 Ec1 Ec2) as (G1 & G2 & G3).
        cbn [c_tp c_np c_proof] in G1, G2, G3.
        apply snoc_inj in G2. destruct G2 as [G2 Ge]. injection Ge as Ge.
        apply ab_next_inj in Ge; try assumption. destruct Ge as [-> ->]. subst tp2' np2'.
        destruct (Hback2 eq eq_refl (eq_Forall2_eq _) (eq_Forall2_eq _)) as [A B].
        apply Forall2_eq_eq in A, B.
        destruct (Hfin eq_refl A B) as [A' B']. split; [exact A'|]. split; [exact B'|exact G3].
      + destruct (c_proof st1) as [|ph1 pr1]; [discriminate|].
        destruct (c_proof st2) as [|ph2 pr2]; [discriminate|].
        apply Forall_cons_iff in Np1, Np2. destruct Np1 as [Nph1 Npr1]. destruct Np2 as [Nph2 Npr2].
        cbn [step_k] in E1, E2. cbn [c_proof length].
        replace (S (length pr1) - length pr1)%nat with 1%nat by lia.
        ab_states E1 E2 ltac:(fun s1 s2 =>
          assert (HSh' : Sh s1 s2);
          [unfold Sh; cbn [c_row c_tp c_np c_prev c_rows c_roots];
           repeat split; try assumption; try reflexivity;
           apply SF_snoc; [exact Hnp1|reflexivity]|];
          assert (HN1' : NZst s1)
            by (unfold NZst; cbn [c_tp c_np c_proof]; repeat split; try assumption;
                apply Forall_app; split; [assumption|];
                constructor; [apply ab_next_nz; assumption|constructor]);
          assert (HN2' : NZst s2)
            by (unfold NZst; cbn [c_tp c_np c_proof]; repeat split; try assumption;
                apply Forall_app; split; [assumption|];
                constructor; [apply ab_next_nz; assumption|constructor])).
        destruct (IH _ _ _ _ _ _ _ _ nc HSh' Hrow' HN1' HN2' E1 E2 Ec1 Ec2) as (G1 & G2 & G3).
        cbn [c_tp c_np c_proof] in G1, G2, G3.
        apply snoc_inj in G2. destruct G2 as [G2 Ge]. injection Ge as Ge.
        apply ab_next_inj in Ge; try assumption. destruct Ge as [-> ->].
        destruct (Hfin eq_refl G1 G2) as [A' B']. split; [exact A'|]. split; [exact B'|].
        cbn [Nat.add firstn]. rewrite G3. reflexivity.
  Qed.

  (** ** 1e. an accepted run has popped its targets in strictly ascending order *)
  Lemma left_niece_lt p : isLeftNiece p = true -> p < rightSib p.
  Proof.
    clear hash_nz hash_inj.
    unfold isLeftNiece, rightSib, and64, or64. rewrite land_1, lor_1.
    destruct (N.even p); [lia|discriminate].
  Qed.

  Lemma pop_sorted_back tp np p h tp1 np1 : pop H tp np = Some (p, h, tp1, np1) ->
    SSlt (map fst tp1) -> (forall x, In x (map fst tp1) -> p < x) ->
    SSlt (map fst tp) /\ (forall x, In x (map fst tp) -> p <= x).
  Proof.
    clear hash_nz hash_inj.
    intros Epop S1 S2. destruct (pop_spec H _ _ _ _ _ _ Epop) as [[-> _]|[_ <-]].
    - cbn [map fst]. split.
      + constructor; [exact S1|]. apply Forall_forall. exact S2.
      + intros x [<-|Hx]; [lia|]. specialize (S2 x Hx). lia.
    - split; [exact S1|]. intros x Hx. specialize (S2 x Hx). lia.
  Qed.

  Lemma calc_loop_tp_sorted tpa : forall f st r, c_row st <= total ->
    loop f st tpa = Ok r ->
    SSlt (map fst (c_tp st)) /\
    (forall q, c_prev st = Some q -> forall x, In x (map fst (c_tp st)) -> q < x).
  Proof.
    clear hash_nz hash_inj.
    induction f as [|f IH]; intros st r Hrt E; [discriminate|].
    rewrite calc_loop_S in E. unfold calc_step in E. cbv zeta in E.
    destruct (N.ltb_spec total (c_row st)) as [Hgt|_]; [lia|].
    destruct (pop H (c_tp st) (c_np st)) as [[[[p h] tp1] np1]|] eqn:Epop.
    2:{ destruct (cs_pop_none _ _ Epop) as [-> _]. cbn [map]. split; [constructor|].
        intros q _ x []. }
    assert (Hq : forall q, c_prev st = Some q -> q < p).
    { intros q Eq. rewrite Eq in E. destruct (N.leb_spec p q); [discriminate|assumption]. }
    destruct (match c_prev st with Some q => p <=? q | None => false end); [discriminate|].
    destruct (row_loop true 300 p (c_row st) total n) as [[row|]|] eqn:Erow; try discriminate.
    pose proof (row_loop_le _ _ _ _ Hrt Erow) as Hrow'.
    assert (Hfin : SSlt (map fst tp1) -> (forall x, In x (map fst tp1) -> p < x) ->
                   SSlt (map fst (c_tp st)) /\
                   (forall q, c_prev st = Some q -> forall x, In x (map fst (c_tp st)) -> q < x)).
    { intros S1 S2. destruct (pop_sorted_back _ _ _ _ _ _ Epop S1 S2) as [A B].
      split; [exact A|]. intros q Eq x Hx. specialize (Hq q Eq). specialize (B x Hx). lia. }
    destruct (isRootPositionOnRow p n row).
    - cbn [step_k] in E. apply IH in E; [|exact Hrow']. destruct E as [S1 S2]. cbn [c_tp c_prev] in S1, S2.
      exact (Hfin S1 (S2 p eq_refl)).
    - destruct (pop_sib H p tp1 np1) as [[[sh tp2] np2]|] eqn:Esib.
      + destruct (isLeftNiece p) eqn:Eleft; cbn [negb] in E; [|discriminate].
        cbn [step_k] in E. apply IH in E; [|exact Hrow']. destruct E as [S1 S2]. cbn [c_tp c_prev] in S1, S2.
        pose proof (cs_pop_sib_pop _ _ _ _ _ _ Esib) as Epop2.
        destruct (pop_sorted_back _ _ _ _ _ _ Epop2 S1 (S2 _ eq_refl)) as [A B].
        pose proof (left_niece_lt p Eleft) as Hlt.
        apply (Hfin A). intros x Hx. specialize (B x Hx). lia.
      + destruct (c_proof st) as [|ph prest]; [discriminate|].
        cbn [step_k] in E. apply IH in E; [|exact Hrow']. destruct E as [S1 S2]. cbn [c_tp c_prev] in S1, S2.
        exact (Hfin S1 (S2 p eq_refl)).
  Qed.
End Lock.

(** * 2. Any two accepted proofs of the same (hashes, targets) drive [Stump.del] to the same result *)

Section Transfer.
  Variable H : Type.
  Variable HO : ops H.
  Hypothesis HOK : ops_ok HO.
  Hypothesis hash_nz : forall a b, NZ HO (op_hash2 HO a b).
  Hypothesis hash_inj : forall a b c d, op_hash2 HO a b = op_hash2 HO c d -> a = c /\ b = d.

  Local Notation nz := (NZ HO).

  Definition ab_init (pf : list H) (tp : list (hp H)) : cstate H := mkC 0 tp [] [] pf None [] [].

  Definition ab_hs (hashes : option (list H)) (targets : list N) : list H :=
    match hashes with Some l => l | None => map (fun _ => op_empty HO) targets end.

  Definition ab_tp (hashes : option (list H)) (targets : list N) : list (hp H) :=
    sortK (zip_hp targets (ab_hs hashes targets)).

  Lemma calc_unfold n hashes targets proof :
    length (ab_hs hashes targets) = length targets ->
    calculateHashes HO true n hashes targets proof =
    calc_loop HO true (calc_fuel (length targets) (TreeRows n)) n (TreeRows n)
              (ab_init proof (ab_tp hashes targets)) (ab_tp hashes targets).
  Proof.
    intros Hl. unfold calculateHashes. cbv zeta. fold (ab_hs hashes targets).
    rewrite Hl, Nat.eqb_refl. reflexivity.
  Qed.

  Lemma ab_hs_none_length targets : length (ab_hs None targets) = length targets.
  Proof. apply map_length. Qed.

  Lemma insertK_SF (x1 x2 : hp H) l1 l2 : fst x1 = fst x2 -> SF H l1 l2 ->
    SF H (insertK x1 l1) (insertK x2 l2).
  Proof.
    intros Ex HF. induction HF as [|y1 y2 l1 l2 Ey HF IH]; cbn [insertK].
    - constructor; [exact Ex|constructor].
    - rewrite <- Ex, <- Ey. destruct (fst x1 <=? fst y1).
      + constructor; [exact Ex|]. constructor; assumption.
      + constructor; [exact Ey|exact IH].
  Qed.

  Lemma sortK_SF (l1 l2 : list (hp H)) : SF H l1 l2 -> SF H (sortK l1) (sortK l2).
  Proof.
    intros HF. induction HF as [|x1 x2 l1 l2 Ex HF IH]; [constructor|].
    unfold sortK in *. cbn [fold_right]. apply insertK_SF; assumption.
  Qed.

  Lemma zip_hp_SF : forall (ts : list N) (h1 h2 : list H), length h1 = length h2 ->
    SF H (zip_hp ts h1) (zip_hp ts h2).
  Proof.
    induction ts as [|t ts IH]; intros h1 h2 Hl; [constructor|].
    destruct h1 as [|a h1]; destruct h2 as [|b h2]; try discriminate Hl; cbn [zip_hp]; [constructor|].
    constructor; [reflexivity|]. apply IH. cbn [length] in Hl. lia.
  Qed.

  Lemma ab_init_Sh pf1 pf2 tp1 tp2 : SF H tp1 tp2 -> Sh H (ab_init pf1 tp1) (ab_init pf2 tp2).
  Proof.
    intros HF. unfold Sh, ab_init. cbn [c_row c_tp c_np c_prev c_rows c_roots].
    repeat split; try reflexivity; [exact HF|constructor].
  Qed.

  (** [strict_match] keeps every candidate only if every candidate equals the root of its row *)
  Lemma strict_match_full_eq n roots : forall c1 c2 rows,
    length c1 = length c2 ->
    length (strict_match HO n roots c1 rows) = length c1 ->
    length (strict_match HO n roots c2 rows) = length c2 -> c1 = c2.
  Proof.
    clear hash_nz hash_inj.
    induction c1 as [|a c1 IH]; intros c2 rows Hl M1 M2; destruct c2 as [|b c2];
      try discriminate Hl; [reflexivity|].
    destruct rows as [|r rows]; [discriminate M1|]. cbn [strict_match length] in M1, M2, Hl.
    pose proof (strict_match_length_le H HO n roots c1 rows) as L1.
    pose proof (strict_match_length_le H HO n roots c2 rows) as L2.
    destruct (nth_error roots (rootIndexForRow n r)) as [x|]; [|lia].
    destruct (op_eqb HO x a) eqn:Ea; [|lia]. destruct (op_eqb HO x b) eqn:Eb; [|lia].
    apply HOK in Ea, Eb. subst a b. cbn [length] in M1, M2. f_equal.
    apply (IH c2 rows); lia.
  Qed.

  (** the core: four runs on the same targets *)
  Lemma calc_transfer n hs ts pf1 pf2 iA1 cA rA1 iA2 rA2 rB1 rB2 :
    length hs = length ts ->
    has_empty HO hs = false -> has_empty HO pf1 = false -> has_empty HO pf2 = false ->
    calculateHashes HO true n (Some hs) ts pf1 = Ok (iA1, cA, rA1) ->
    calculateHashes HO true n (Some hs) ts pf2 = Ok (iA2, cA, rA2) ->
    calculateHashes HO true n None ts pf1 = Ok rB1 ->
    calculateHashes HO true n None ts pf2 = Ok rB2 ->
    rB1 = rB2.
  Proof.
    intros Hl Nh N1 N2 A1 A2 B1 B2.
    rewrite calc_unfold in A1, A2 by exact Hl.
    rewrite calc_unfold in B1, B2 by apply ab_hs_none_length.
    set (F := calc_fuel (length ts) (TreeRows n)) in *. set (total := TreeRows n) in *.
    set (tpA := ab_tp (Some hs) ts) in *. set (tpB := ab_tp None ts) in *.
    apply cs_has_empty_false in Nh, N1, N2.
    assert (SAB : SF H tpA tpB).
    { apply sortK_SF, zip_hp_SF. rewrite ab_hs_none_length. exact Hl. }
    assert (SAA : SF H tpA tpA).
    { clear. induction tpA; constructor; [reflexivity|assumption]. }
    assert (NtpA : Forall (fun e : hp H => nz (snd e)) tpA).
    { apply cs_sortK_Forall, cs_zip_hp_Forall_snd. exact Nh. }
    (* the proofs agree on what the hashing run reads *)
    destruct (used_shape H HO n total tpA tpA F _ _ _ _ (ab_init_Sh pf1 pf2 _ _ SAA) A1 A2)
      as (U12 & _ & _).
    destruct (calc_inj H HO n total hash_nz hash_inj tpA tpA F _ _ _ _ _ _ _ _ cA
                (ab_init_Sh pf1 pf2 _ _ SAA) (N.le_0_l _)
                ltac:(unfold NZst, ab_init; cbn [c_tp c_np c_proof]; repeat split;
                      [exact NtpA|constructor|exact N1])
                ltac:(unfold NZst, ab_init; cbn [c_tp c_np c_proof]; repeat split;
                      [exact NtpA|constructor|exact N2])
                A1 A2 eq_refl eq_refl) as (_ & _ & EF).
    cbn [ab_init c_proof] in EF.
    (* the deletion runs read as many *)
    destruct (used_shape H HO n total tpA tpB F _ _ _ _ (ab_init_Sh pf1 pf1 _ _ SAB) A1 B1)
      as (UB1 & _ & _).
    destruct (used_shape H HO n total tpA tpB F _ _ _ _ (ab_init_Sh pf2 pf2 _ _ SAB) A2 B2)
      as (UB2 & _ & _).
    destruct (calc_loop_proof_prefix H HO n total tpA F _ _ A1) as [L1 _].
    cbn [ab_init c_proof] in L1.
    destruct (calc_loop_proof_prefix H HO n total tpB F _ _ B2) as [_ T].
    cbn [ab_init c_proof] in T. fold (ab_init pf2 tpB) in T.
    rewrite <- UB2, <- U12 in T.
    destruct (T pf1 EF L1) as [T1 _].
    change (set_proof H (ab_init pf2 tpB) pf1) with (ab_init pf1 tpB) in T1.
    rewrite T1 in B1. injection B1 as <-. reflexivity.
  Qed.
End Transfer.


Section DelTransfer.
  Variable H : Type.
  Variable HO : ops H.
  Hypothesis HOK : ops_ok HO.
  Hypothesis hash_nz : forall a b, NZ HO (op_hash2 HO a b).
  Hypothesis hash_inj : forall a b c d, op_hash2 HO a b = op_hash2 HO c d -> a = c /\ b = d.

  (** what an accepting [Stump.del] has gone through *)
  Lemma stump_del_ok_inv st hs ts pf st' inter :
    stump_del HO true st hs ts pf = (st', Ok inter) ->
    exists iA cA rA modified rB r',
      length hs = length ts /\ has_empty HO hs = false /\ has_empty HO pf = false /\
      calculateHashes HO true (st_n st) (Some hs) ts pf = Ok (iA, cA, rA) /\
      length cA = length (strict_match HO (st_n st) (st_roots st) cA rA) /\
      Verify HO true st hs ts pf = Ok (strict_match HO (st_n st) (st_roots st) cA rA) /\
      calculateHashes HO true (st_n st) None ts pf = Ok (inter, modified, rB) /\
      length modified = length (strict_match HO (st_n st) (st_roots st) cA rA) /\
      write_roots (st_roots st) (strict_match HO (st_n st) (st_roots st) cA rA) modified = Some r' /\
      st' = mkStump r' (st_n st).
  Proof.
    clear HOK hash_nz hash_inj. unfold stump_del. intros E.
    destruct (Verify HO true st hs ts pf) as [idxs| | |] eqn:EV; try discriminate E.
    unfold Verify in EV. cbn [andb] in EV.
    destruct (Nat.eqb_spec (length hs) (length ts)) as [Hl|_]; cbn [negb] in EV; [|discriminate EV].
    destruct (has_empty HO hs) eqn:Nh; cbn [orb] in EV; [discriminate EV|].
    destruct (has_empty HO pf) eqn:Np; [discriminate EV|].
    destruct (calculateHashes HO true (st_n st) (Some hs) ts pf) as [[[iA cA] rA]| | |] eqn:EA;
      try discriminate EV.
    destruct (Nat.eqb_spec (length cA) (length (strict_match HO (st_n st) (st_roots st) cA rA)))
      as [Hm|_]; [|discriminate EV].
    injection EV as <-.
    destruct (calculateHashes HO true (st_n st) None ts pf) as [[[iB mB] rB]| | |] eqn:EB;
      try discriminate E.
    destruct (Nat.eqb_spec (length mB) (length (strict_match HO (st_n st) (st_roots st) cA rA)))
      as [Hm2|_]; cbn [negb] in E; [|discriminate E].
    destruct (write_roots (st_roots st) (strict_match HO (st_n st) (st_roots st) cA rA) mB)
      as [r'|] eqn:EW; [|discriminate E].
    injection E as <- <-.
    exists iA, cA, rA, mB, rB, r'. repeat split; try assumption; reflexivity.
  Qed.

  Theorem stump_del_proof_irrelevant st hs ts pf1 pf2 st1 i1 st2 i2 :
    stump_del HO true st hs ts pf1 = (st1, Ok i1) ->
    stump_del HO true st hs ts pf2 = (st2, Ok i2) ->
    st1 = st2 /\ i1 = i2.
  Proof.
    intros E1 E2.
    destruct (stump_del_ok_inv _ _ _ _ _ _ E1)
      as (iA1 & cA1 & rA1 & m1 & rB1 & r1' & Hl & Nh & N1 & A1 & M1 & _ & B1 & _ & W1 & ->).
    destruct (stump_del_ok_inv _ _ _ _ _ _ E2)
      as (iA2 & cA2 & rA2 & m2 & rB2 & r2' & _ & _ & N2 & A2 & M2 & _ & B2 & _ & W2 & ->).
    (* same rows, hence same candidates *)
    assert (SAA : SF H (ab_tp H HO (Some hs) ts) (ab_tp H HO (Some hs) ts)).
    { generalize (ab_tp H HO (Some hs) ts). intros l. induction l; constructor; [reflexivity|assumption]. }
    pose proof A1 as A1'. pose proof A2 as A2'.
    rewrite (calc_unfold H HO) in A1', A2' by exact Hl.
    destruct (used_shape H HO _ _ _ _ _ _ _ _ _ (ab_init_Sh H pf1 pf2 _ _ SAA) A1' A2')
      as (_ & Er & Elc). cbn [fst snd] in Er, Elc. subst rA2.
    assert (Ec : cA1 = cA2).
    { apply (strict_match_full_eq H HO HOK (st_n st) (st_roots st) cA1 cA2 rA1 Elc);
        symmetry; assumption. }
    subst cA2.
    pose proof (calc_transfer H HO hash_nz hash_inj _ _ _ _ _ _ _ _ _ _ _ _ Hl Nh N1 N2 A1 A2 B1 B2)
      as EB.
    injection EB as -> -> _. rewrite W1 in W2. injection W2 as ->. split; reflexivity.
  Qed.
End DelTransfer.

(** * 3. Every accepted deletion of leaf positions yields the reference roots *)

Lemma term_hash_inj : forall a b c d : term,
  op_hash2 term_ops a b = op_hash2 term_ops c d -> a = c /\ b = d.
Proof. intros a b c d E. cbn in E. injection E as -> ->. split; reflexivity. Qed.

(** an accepted request names pairwise distinct positions *)
Lemma calc_accepted_targets_NoDup {H} (HO : ops H) n hs ts pf r :
  length hs = length ts ->
  calculateHashes HO true n (Some hs) ts pf = Ok r -> NoDup ts.
Proof.
  intros Hl E. rewrite calc_unfold in E by exact Hl.
  apply calc_loop_tp_sorted in E; [|apply N.le_0_l]. destruct E as [HS _].
  cbn [ab_init c_tp] in HS. unfold ab_tp, ab_hs in HS.
  apply cc_SSlt_NoDup in HS.
  rewrite <- (cc_zip_hp_fst ts hs Hl).
  eapply Permutation_NoDup; [|exact HS]. apply Permutation_map, RefTheory.sortK_perm.
Qed.

Section Accepted.
  Variable s : slots term.
  Hypothesis Hat : leaves_atoms s.
  Hypothesis Hnd : NoDup (live s).
  Hypothesis Hn63 : N.of_nat (length s) <= 2 ^ 63.

  Local Notation C := (mk_ctx term_ops s).
  Local Notation R := (rows_of (num_leaves s)).
  Local Notation lay := (layout term_ops s).

  Lemma ab_live_nz : forall h, In (Some h) s -> NZ term_ops h.
  Proof. intros h Hh. destruct (Hat h Hh) as [i ->]. reflexivity. Qed.

  (** the nodes behind true claims about leaf positions *)
  Lemma ab_build_nodes : forall (ts : list N) (hs : list term),
    length hs = length ts ->
    (forall j t h, nth_error ts j = Some t -> nth_error hs j = Some h ->
       exists x, find_pos R lay t = Some x /\ nhash x = h) ->
    (forall t, In t ts -> exists x, find_pos R lay t = Some x /\ nleaf x = true) ->
    exists tsn, map (npos R) tsn = ts /\ map (@nhash term) tsn = hs /\
                (forall x, In x tsn -> In x lay) /\ (forall x, In x tsn -> nleaf x = true).
  Proof.
    induction ts as [|t ts IH]; intros hs Hl Hc Hleaf.
    - destruct hs; [|discriminate Hl]. exists []. repeat split; intros x [].
    - destruct hs as [|h hs]; [discriminate Hl|]. cbn [length] in Hl.
      destruct (IH hs ltac:(lia)) as (tsn & E1 & E2 & H1 & H2).
      + intros j t' h' Ht Hh. exact (Hc (S j) t' h' Ht Hh).
      + intros t' Ht'. apply Hleaf. right. exact Ht'.
      + destruct (Hc O t h eq_refl eq_refl) as (x & Ex & Ehx).
        destruct (Hleaf t (or_introl eq_refl)) as (x' & Ex' & El). rewrite Ex in Ex'.
        injection Ex' as <-. destruct (find_pos_some term _ _ _ _ Ex) as [Hin Hp].
        exists (x :: tsn). cbn [map]. rewrite E1, E2, Hp, Ehx.
        repeat split; try reflexivity; intros y [<-|Hy]; auto.
  Qed.

  Theorem stump_del_accepted_refines_gen (hs : list term) (ts : list N) (pf : list term) st' inter :
    (forall t, In t ts -> exists x, find_pos (crows C) (clay C) t = Some x /\ nleaf x = true) ->
    stump_del term_ops true (the_stump C) hs ts pf = (st', Ok inter) ->
    st' = mkStump (roots term_ops (kill term_ops hs s)) (num_leaves s) /\
    exists tsn,
      map (npos R) tsn = ts /\ map (@nhash term) tsn = hs /\ NoDup tsn /\
      (forall x, In x tsn -> In x lay /\ nleaf x = true) /\
      stump_del term_ops true (the_stump C) hs ts (canon_proof_hashes term_ops R lay tsn)
      = (st', Ok inter).
  Proof.
    intros Hleaf E.
    destruct (stump_del_ok_inv term term_ops _ _ _ _ _ _ E)
      as (iA & cA & rA & m & rB & r' & Hl & _ & _ & A & _ & EV & _).
    pose proof (C03_sound_nodes_holds s hs ts pf _ Hat Hn63 EV) as Hc.
    destruct (ab_build_nodes ts hs Hl Hc Hleaf) as (tsn & E1 & E2 & H1 & H2).
    assert (Hndt : NoDup tsn).
    { apply (NoDup_map_inv (npos R)). rewrite E1.
      exact (calc_accepted_targets_NoDup term_ops _ _ _ _ _ Hl A). }
    destruct (stump_del_refines_nodes term term_ops term_ops_ok cs_term_hash_nz s ab_live_nz Hnd Hn63
                hs tsn H1 H2 Hndt E2) as (inter' & Ecan).
    rewrite E1 in Ecan.
    destruct (stump_del_proof_irrelevant term term_ops term_ops_ok cs_term_hash_nz term_hash_inj
                _ _ _ _ _ _ _ _ _ E Ecan) as [-> ->].
    split; [reflexivity|]. exists tsn. repeat split; auto.
  Qed.
End Accepted.

(** The theorem.  [leaves_atoms] is [Properties.C03.atoms_only]. *)
Theorem stump_del_accepted_refines :
  forall (s : slots term) (hs : list term) (ts : list N) (pf : list term) st' inter,
    leaves_atoms s -> NoDup (live s) -> N.of_nat (length s) <= 2 ^ 63 ->
    (forall t, In t ts ->
       exists x, find_pos (crows (mk_ctx term_ops s)) (clay (mk_ctx term_ops s)) t = Some x /\
                 nleaf x = true) ->
    stump_del term_ops true (the_stump (mk_ctx term_ops s)) hs ts pf = (st', Ok inter) ->
    st_roots st' = roots term_ops (kill term_ops hs s) /\ st_n st' = num_leaves s.
Proof.
  intros s hs ts pf st' inter Hat Hnd Hn63 Hleaf E.
  destruct (stump_del_accepted_refines_gen s Hat Hnd Hn63 hs ts pf st' inter Hleaf E) as [-> _].
  split; reflexivity.
Qed.

(** ** 3a. The leaf hypothesis read on the hashes: the block deletes leaf hashes (atoms) *)

Lemma atom_node_leaf (s : slots term) (x : node term) a :
  In x (layout term_ops s) -> nhash x = Atom a -> nleaf x = true.
Proof.
  intros Hin Eh. pose proof (tnode_in term term_ops s x Hin) as Ht.
  destruct (node_cases term term_ops s _ _ x Ht) as [r' xl xr _ _ _ _ Ehx|Hl _ _|_ _ Ehx].
  - rewrite Eh in Ehx. discriminate Ehx.
  - exact Hl.
  - rewrite Eh in Ehx. discriminate Ehx.
Qed.

Theorem stump_del_accepted_refines_atoms :
  forall (s : slots term) (hs : list term) (ts : list N) (pf : list term) st' inter,
    leaves_atoms s -> NoDup (live s) -> N.of_nat (length s) <= 2 ^ 63 ->
    (forall h, In h hs -> exists a, h = Atom a) ->
    stump_del term_ops true (the_stump (mk_ctx term_ops s)) hs ts pf = (st', Ok inter) ->
    st_roots st' = roots term_ops (kill term_ops hs s) /\ st_n st' = num_leaves s.
Proof.
  intros s hs ts pf st' inter Hat Hnd Hn63 Hatoms E.
  apply (stump_del_accepted_refines s hs ts pf st' inter Hat Hnd Hn63); [|exact E].
  destruct (stump_del_ok_inv term term_ops _ _ _ _ _ _ E)
    as (iA & cA & rA & m & rB & r' & Hl & _ & _ & _ & _ & EV & _).
  pose proof (C03_sound_nodes_holds s hs ts pf _ Hat Hn63 EV) as Hc.
  intros t Ht. destruct (In_nth_error _ _ Ht) as [j Ej].
  destruct (nth_error hs j) as [h|] eqn:Eh.
  2:{ apply nth_error_None in Eh. pose proof (proj1 (nth_error_Some ts j) ltac:(congruence)). lia. }
  destruct (Hc j t h Ej Eh) as (x & Ex & Ehx). exists x. split; [exact Ex|].
  destruct (Hatoms h (nth_error_In _ _ Eh)) as [a ->].
  unfold mk_ctx in Ex. cbn [crows clay] in Ex.
  exact (atom_node_leaf s x a (proj1 (find_pos_some term _ _ _ _ Ex)) Ehx).
Qed.

(** ** 3b. The leaf hypothesis is needed: the verifier also accepts the true hash of an inner node
    as a deletion target, and then removes the whole subtree; the reference (which deletes the
    listed LEAF hashes) keeps it.  Four leaves, target = position 4 (the node above leaves 0, 1). *)
Definition ab_s4 : slots term := [Some (Atom 0); Some (Atom 1); Some (Atom 2); Some (Atom 3)].

Example stump_del_accepted_nonleaf_refuted :
  let s := ab_s4 in
  let hs := [Node (Atom 0) (Atom 1)] in
  leaves_atoms s /\ NoDup (live s) /\ N.of_nat (length s) <= 2 ^ 63 /\
  exists st' inter,
    stump_del term_ops true (the_stump (mk_ctx term_ops s)) hs [4] [Node (Atom 2) (Atom 3)]
    = (st', Ok inter) /\
    st_roots st' = [Node (Atom 2) (Atom 3)] /\
    roots term_ops (kill term_ops hs s) = [Node (Node (Atom 0) (Atom 1)) (Node (Atom 2) (Atom 3))] /\
    st_roots st' <> roots term_ops (kill term_ops hs s).
Proof.
  cbv zeta. split; [|split; [|split]].
  - intros h Hin. unfold ab_s4 in Hin. cbn [In] in Hin.
    repeat (destruct Hin as [E|Hin]; [injection E as <-; eexists; reflexivity|]). destruct Hin.
  - change (live ab_s4) with [Atom 0; Atom 1; Atom 2; Atom 3].
    repeat constructor; cbn [In]; intros Hin;
      repeat (destruct Hin as [E|Hin]; [discriminate E|]); destruct Hin.
  - vm_compute. discriminate.
  - eexists. eexists. split; [vm_compute; reflexivity|]. cbn [st_roots].
    split; [reflexivity|]. split; [vm_compute; reflexivity|]. vm_compute. discriminate.
Qed.

(** * 4. With additions: every accepted block is applied as the reference applies it *)

Theorem stump_update_accepted_refines :
  forall filler (s : slots term) (hs adds : list term) (ts : list N) (pf : list term) st' ud,
    leaves_atoms s -> NoDup (live s) ->
    N.of_nat (length s + length adds) <= 2 ^ 63 ->
    (forall h, In h adds -> NZ term_ops h) ->
    (forall t, In t ts ->
       exists x, find_pos (crows (mk_ctx term_ops s)) (clay (mk_ctx term_ops s)) t = Some x /\
                 nleaf x = true) ->
    stump_update term_ops true filler (the_stump (mk_ctx term_ops s)) hs adds ts pf = (st', Ok ud) ->
    st_roots st' = roots term_ops (apply_block term_ops s hs adds) /\
    st_n st' = num_leaves (apply_block term_ops s hs adds) /\
    u_prev ud = num_leaves s.
Proof.
  intros filler s hs adds ts pf st' ud Hat Hnd Hb Hadds Hleaf E.
  assert (Hn63 : N.of_nat (length s) <= 2 ^ 63) by lia.
  unfold stump_update in E.
  destruct (stump_del term_ops true (the_stump (mk_ctx term_ops s)) hs ts pf) as [s1 [inter| | |]] eqn:Ed;
    try discriminate E.
  destruct (stump_del_accepted_refines_gen s Hat Hnd Hn63 hs ts pf s1 inter Hleaf Ed) as [-> _].
  assert (Hlen : num_leaves s = num_leaves (kill term_ops hs s))
    by (unfold num_leaves; rewrite SpecBasics.length_kill; reflexivity).
  rewrite Hlen in E.
  pose proof (stump_add_refines term term_ops term_ops_ok cs_term_hash_nz true filler
                (kill term_ops hs s) adds) as Ha.
  assert (Hl2 : forall h, In (Some h) (kill term_ops hs s) ->
                          op_eqb term_ops h (op_empty term_ops) = false).
  { intros h Hh. apply (ab_live_nz s Hat). exact (kill_live_sub term term_ops hs s h Hh). }
  assert (Hb2 : N.of_nat (length (kill term_ops hs s) + length adds) <= 2 ^ 63)
    by (rewrite SpecBasics.length_kill; exact Hb).
  specialize (Ha Hl2 Hadds Hb2).
  destruct (stump_add term_ops true filler
              (mkStump (roots term_ops (kill term_ops hs s)) (num_leaves (kill term_ops hs s))) adds)
    as [[st2 added] destroyed].
  destruct Ha as [Ha1 Ha2]. injection E as <- <-.
  unfold apply_block. cbn [u_prev st_n]. rewrite <- Hlen. repeat split; assumption.
Qed.

(** the same with the hypothesis read on the hashes *)
Theorem stump_update_accepted_refines_atoms :
  forall filler (s : slots term) (hs adds : list term) (ts : list N) (pf : list term) st' ud,
    leaves_atoms s -> NoDup (live s) ->
    N.of_nat (length s + length adds) <= 2 ^ 63 ->
    (forall h, In h adds -> NZ term_ops h) ->
    (forall h, In h hs -> exists a, h = Atom a) ->
    stump_update term_ops true filler (the_stump (mk_ctx term_ops s)) hs adds ts pf = (st', Ok ud) ->
    st_roots st' = roots term_ops (apply_block term_ops s hs adds) /\
    st_n st' = num_leaves (apply_block term_ops s hs adds) /\
    u_prev ud = num_leaves s.
Proof.
  intros filler s hs adds ts pf st' ud Hat Hnd Hb Hadds Hatoms E.
  apply (stump_update_accepted_refines filler s hs adds ts pf st' ud Hat Hnd Hb Hadds); [|exact E].
  assert (Hn63 : N.of_nat (length s) <= 2 ^ 63) by lia.
  unfold stump_update in E.
  destruct (stump_del term_ops true (the_stump (mk_ctx term_ops s)) hs ts pf) as [s1 [inter| | |]] eqn:Ed;
    try discriminate E.
  destruct (stump_del_ok_inv term term_ops _ _ _ _ _ _ Ed)
    as (iA & cA & rA & m & rB & r' & Hl & _ & _ & _ & _ & EV & _).
  pose proof (C03_sound_nodes_holds s hs ts pf _ Hat Hn63 EV) as Hc.
  intros t Ht. destruct (In_nth_error _ _ Ht) as [j Ej].
  destruct (nth_error hs j) as [h|] eqn:Eh.
  2:{ apply nth_error_None in Eh. pose proof (proj1 (nth_error_Some ts j) ltac:(congruence)). lia. }
  destruct (Hc j t h Ej Eh) as (x & Ex & Ehx). exists x. split; [exact Ex|].
  destruct (Hatoms h (nth_error_In _ _ Eh)) as [a ->].
  unfold mk_ctx in Ex. cbn [crows clay] in Ex.
  exact (atom_node_leaf s x a (proj1 (find_pos_some term _ _ _ _ Ex)) Ehx).
Qed.

(** * 5. Non-vacuity: [LayoutStruct.ls_ex] = slots [Atom 1; -; Atom 3; Atom 4; -; -; Atom 7]
    (dead slots, a leaf that moved up, an empty root).  A NON-canonical accepted encoding: the
    targets in descending order and a junk trailing proof hash (the canonical proof is
    [[Atom 4; Atom 1]]). *)

Example ex_ab_canonical :
  exp_prove term_ops (mk_ctx term_ops ls_ex) [Atom 7; Atom 3] = Some ([6; 2], [Atom 4; Atom 1]).
Proof. vm_compute. reflexivity. Qed.

Example ex_ab_accepted :
  stump_del term_ops true (the_stump (mk_ctx term_ops ls_ex))
            [Atom 7; Atom 3] [6; 2] [Atom 4; Atom 1; Atom 99]
  = (mkStump [Node (Atom 1) (Atom 4); Zero; Zero] 7,
     Ok [(2, Zero); (6, Zero); (9, Atom 4); (12, Node (Atom 1) (Atom 4))]).
Proof. vm_compute. reflexivity. Qed.

Example ex_ab_leaf_targets :
  forall t, In t [6; 2] ->
    exists x, find_pos (crows (mk_ctx term_ops ls_ex)) (clay (mk_ctx term_ops ls_ex)) t = Some x /\
              nleaf x = true.
Proof.
  intros t [<-|[<-|[]]]; eexists; (split; [vm_compute; reflexivity|reflexivity]).
Qed.

(** the two sides of the conclusion, computed *)
Example ex_ab_computed :
  roots term_ops (kill term_ops [Atom 7; Atom 3] ls_ex) = [Node (Atom 1) (Atom 4); Zero; Zero] /\
  num_leaves ls_ex = 7.
Proof. vm_compute. split; reflexivity. Qed.

(** ... and obtained from the theorem *)
Example ex_ab_by_theorem :
  st_roots (mkStump [Node (Atom 1) (Atom 4); Zero; Zero] 7)
  = roots term_ops (kill term_ops [Atom 7; Atom 3] ls_ex) /\
  st_n (mkStump [Node (Atom 1) (Atom 4); Zero; Zero] 7) = num_leaves ls_ex.
Proof.
  exact (stump_del_accepted_refines ls_ex [Atom 7; Atom 3] [6; 2] [Atom 4; Atom 1; Atom 99] _ _
           ls_ex_atoms ex_cc_live_nodup ls_ex_bound ex_ab_leaf_targets ex_ab_accepted).
Qed.

(** a proof that differs from the canonical one inside the part that is read is rejected *)
Example ex_ab_swapped_rejected :
  snd (stump_del term_ops true (the_stump (mk_ctx term_ops ls_ex))
                 [Atom 7; Atom 3] [6; 2] [Atom 1; Atom 4; Atom 99]) = Err.
Proof. vm_compute. reflexivity. Qed.

(** the same block with two additions, through [Stump.Update] *)
Example ex_ab_update_by_theorem :
  forall st' ud,
    stump_update term_ops true (Atom 0) (the_stump (mk_ctx term_ops ls_ex))
                 [Atom 7; Atom 3] [Atom 8; Atom 9] [6; 2] [Atom 4; Atom 1; Atom 99] = (st', Ok ud) ->
    st_roots st' = roots term_ops (apply_block term_ops ls_ex [Atom 7; Atom 3] [Atom 8; Atom 9]).
Proof.
  intros st' ud E.
  refine (proj1 (stump_update_accepted_refines (Atom 0) ls_ex [Atom 7; Atom 3] [Atom 8; Atom 9]
                   [6; 2] [Atom 4; Atom 1; Atom 99] st' ud ls_ex_atoms ex_cc_live_nodup _ _
                   ex_ab_leaf_targets E)).
  - vm_compute. discriminate.
  - intros h [<-|[<-|[]]]; reflexivity.
Qed.

Example ex_ab_update_computed :
  exists st' ud,
    stump_update term_ops true (Atom 0) (the_stump (mk_ctx term_ops ls_ex))
                 [Atom 7; Atom 3] [Atom 8; Atom 9] [6; 2] [Atom 4; Atom 1; Atom 99] = (st', Ok ud) /\
    st_roots st' = roots term_ops (apply_block term_ops ls_ex [Atom 7; Atom 3] [Atom 8; Atom 9]) /\
    st_roots st' = [Node (Node (Atom 1) (Atom 4)) (Atom 8); Atom 9].
Proof. eexists. eexists. split; [vm_compute; reflexivity|]. split; vm_compute; reflexivity. Qed.

Print Assumptions used_shape.
Print Assumptions calc_loop_proof_prefix.
Print Assumptions calc_inj.
Print Assumptions calc_transfer.
Print Assumptions stump_del_proof_irrelevant.
Print Assumptions stump_del_accepted_refines_gen.
Print Assumptions stump_del_accepted_refines.
Print Assumptions stump_del_accepted_refines_atoms.
Print Assumptions stump_del_accepted_nonleaf_refuted.
Print Assumptions stump_update_accepted_refines.
Print Assumptions stump_update_accepted_refines_atoms.
Print Assumptions ex_ab_by_theorem.
Print Assumptions ex_ab_update_by_theorem.
