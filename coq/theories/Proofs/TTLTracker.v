(** Component (A) of Proofs/TTLSpec.v - [AddBlockSummary] ([Model.TTL.ttl_add_block_summary] with
    [delRootInfo] / [rootInfoToDestroy] / [addRootInfo]) against the reference forest - and the
    conclusion: [ttl_statement_holds].

    - T1  the root infos of the tracker are the trees of the reference forest ([rootsOf]: 63-row position
          of the root, zombie = the tree is empty): [rootInfoToDestroy_ref] (the destroyed roots are
          [Spec.Forest.to_destroy] in 63 rows, in order of destruction; only the zombie flags are read),
          [addRootInfo_ref] (the root infos after the additions), by [StumpAddData.step_data];
    - T2  [delRootInfo_ref]: marking the roots among the detwinned targets marks exactly the trees the
          block empties ([top_in_Lf], with [ProofUpdateDel2.tw_deTwin] / [tw_char_fwd] / [tw_Lstar] and
          [TTLUndoDel.ud_dt63]); [targets_translated]: the prover's targets, translated to 63 rows, are
          the 63-row positions of the deleted leaves;
    - T3  [block_step], [history_steps], [tracker_spec_holds]: after every valid history the tracker holds,
          per block, the 63-row positions of the deleted leaves, the number of additions, the leaf count
          and the destroyed roots of the reference;
    - [ttl_statement_holds]: for every valid history from the empty accumulator with at most 2^62
      leaves, [AddBlockSummary] per block followed by [genTTLs] returns exactly
      [Spec.Schedule.exp_ttls], in Go's order (ascending by insertion slot). *)
From Utreexo Require Import Base.Hash Base.Bits64 Model.Utils Model.ProofUpdate Model.TTL
  Spec.Forest Spec.Oracle Spec.Term Proofs.SpecBasics Proofs.UtilsGeom Proofs.UtilsGeom2
  Proofs.LayoutStruct Proofs.ProofPosSpec Proofs.CalcSound Proofs.CalcComplete Proofs.StumpAdd Proofs.StumpAddData
  Proofs.ProofOpsSpec Proofs.ProofUpdateSpec Proofs.ProofUpdateDel Proofs.ProofUpdateDel2 Proofs.ProofUndoSpec
  Proofs.ProofUndoDel Proofs.ProofUndoDel2 Proofs.CachedVerifies Proofs.StumpUpdate Proofs.RefTheory Proofs.TTLSpec
  Proofs.TTLUndoAdd Proofs.TTLUndoDel.
From Coq Require Import List Arith PeanoNat NArith ZArith Lia ZifyNat ZifyN ZifyBool Bool Sorted Permutation.
Import ListNotations.
Open Scope N_scope.

(** * T1. The root infos of the tracker are the trees of the reference forest *)

Section Roots.
  Variable H : Type.
  Variable HO : ops H.
  Local Notation entry := (StumpAdd.entry H).
  Local Notation erow := (@StumpAdd.erow H).
  Local Notation ecoord := (@StumpAddData.ecoord H).
  Local Notation nones := (@StumpAddData.nones H).
  Local Notation chain_at := (@StumpAddData.chain_at H).
  Local Notation isN := (@StumpAddData.isN H).

  (** the root info of a tree: its 63-row position, zombie = the tree is empty *)
  Definition RI (e : entry) : rootInfo := mkRI (cpos 63 (ecoord e)) (isN e).
  Definition rootsOf (s : slots H) : list rootInfo := map RI (forest HO s).

  Lemma bit_test n (h : nat) : (and64 (shr n (N.of_nat h)) 1 =? 1) = StumpAdd.bit n h.
  Proof. exact (rootExistsOnRow_bit n (N.of_nat h)). Qed.

  Lemma chain_rootPosition n h (e : entry) : n < 2 ^ 63 -> (h <= 62)%nat ->
    erow e = h -> @StumpAddData.elo H e = 2 * (n / p2 (S h)) * p2 h ->
    rootPosition n (N.of_nat h) 63 = cpos 63 (ecoord e).
  Proof.
    intros Hn Hh Hr Hlo. rewrite (chain_entry_coord H n h e Hr Hlo).
    rewrite rootPosition_gpos by lia. rewrite cpos_gpos. unfold chd, xc. cbn [fst snd Nat.pred].
    change (N.of_nat 63) with 63. f_equal. unfold p2. rewrite N.add_0_r.
    replace (N.of_nat (S h)) with (N.of_nat h + 1) by lia. reflexivity.
  Qed.

  (** the inner loop of [rootInfoToDestroy] pops the chain; only the zombie flags are read *)
  Lemma ritd_inner_chain n : n < 2 ^ 62 -> forall (ch : list entry) (h : nat) st rest del fuel,
    chain_at n h ch -> StumpAdd.bit n (h + length ch) = false ->
    (length ch < fuel)%nat -> map ri_zombie st = map isN ch ->
    ritd_inner fuel 63 n (N.of_nat h) (st ++ rest) del
    = Some (rest, rev (map (cpos 63) (nones ch)) ++ del).
  Proof.
    intros Hn. induction ch as [|e ch IH]; intros h st rest del fuel Hc Hstop Hf Hfl.
    - destruct st; [|discriminate]. destruct fuel as [|f]; [cbn [length] in Hf; lia|].
      cbn [ritd_inner app]. rewrite bit_test. cbn [length] in Hstop. rewrite Nat.add_0_r in Hstop. rewrite Hstop.
      reflexivity.
    - destruct st as [|r st]; [discriminate|]. cbn [map] in Hfl. injection Hfl as Hz Hfl.
      destruct fuel as [|f]; [cbn [length] in Hf; lia|]. destruct Hc as (Hr & Hlo & Hb & Hc).
      cbn [ritd_inner app]. rewrite bit_test, Hb.
      assert (Hh : (h <= 62)%nat).
      { destruct (Nat.le_gt_cases h 62) as [A|A]; [exact A|exfalso].
        assert (Hlt : n < 2 ^ N.of_nat h).
        { eapply N.lt_le_trans; [exact Hn|]. apply N.pow_le_mono_r; lia. }
        unfold StumpAdd.bit in Hb. rewrite (testbit_small n (N.of_nat h) (N.of_nat h) Hlt (N.le_refl _)) in Hb. discriminate. }
      rewrite add8_small by lia. replace (N.of_nat h + 1) with (N.of_nat (S h)) by lia.
      cbn [length] in Hstop, Hf.
      rewrite (IH (S h) st rest _ f Hc ltac:(replace (S h + length ch)%nat with (h + S (length ch))%nat by lia; exact Hstop) ltac:(lia) Hfl).
      f_equal. f_equal. unfold StumpAddData.nones at 2. cbn [flat_map]. fold (nones ch).
      assert (H63 : n < 2 ^ 63) by (assert (2 ^ 62 < 2 ^ 63) by (apply N.pow_lt_mono_r; lia); lia).
      rewrite Hz. unfold StumpAddData.isN. destruct (snd e) as [c|] eqn:Ese.
      + cbn [app]. reflexivity.
      + cbn [app map rev]. rewrite <- app_assoc. cbn [app]. rewrite (chain_rootPosition n h e H63 Hh Hr Hlo). reflexivity.
  Qed.

  (** the same for [addRootInfo], which computes the position of the new root *)
  Lemma xc_parent n (j : nat) : n < 2 ^ 63 -> (j < 63)%nat ->
    Parent (cpos 63 (xc n j)) 63 = cpos 63 (xc n (S j)).
  Proof.
    intros Hn Hj. pose proof (Parent_cpos 63 (xc n j) ltac:(lia) ltac:(cbn [xc fst]; lia) (xc_valid63 n j Hn ltac:(lia))) as E.
    change (N.of_nat 63) with 63 in E. rewrite E. f_equal. unfold par, xc. cbn [fst snd]. f_equal.
    rewrite p2_S, N.div_div by (try apply N.neq_0_lt_0, p2_pos; lia). f_equal. lia.
  Qed.

  Lemma ari_inner_chain n : n < 2 ^ 62 -> forall (ch : list entry) (h : nat) (st rest : list rootInfo) fuel,
    chain_at n h ch -> StumpAdd.bit n (h + length ch) = false ->
    (length ch < fuel)%nat -> length st = length ch ->
    ari_inner fuel 63 n (N.of_nat h) (cpos 63 (xc n h)) (st ++ rest)
    = Some (rest, cpos 63 (xc n (h + length ch))).
  Proof.
    intros Hn. assert (H63 : n < 2 ^ 63) by (assert (2 ^ 62 < 2 ^ 63) by (apply N.pow_lt_mono_r; lia); lia).
    induction ch as [|e ch IH]; intros h st rest fuel Hc Hstop Hf Hl.
    - destruct st; [|discriminate]. destruct fuel as [|f]; [cbn [length] in Hf; lia|].
      cbn [ari_inner app]. rewrite bit_test. cbn [length] in Hstop |- *. rewrite Nat.add_0_r in *. rewrite Hstop.
      reflexivity.
    - destruct st as [|r st]; [discriminate|]. cbn [length] in Hl. injection Hl as Hl.
      destruct fuel as [|f]; [cbn [length] in Hf; lia|]. destruct Hc as (Hr & Hlo & Hb & Hc).
      cbn [ari_inner app]. rewrite bit_test, Hb.
      assert (Hh : (h <= 62)%nat).
      { destruct (Nat.le_gt_cases h 62) as [A|A]; [exact A|exfalso].
        assert (Hlt : n < 2 ^ N.of_nat h).
        { eapply N.lt_le_trans; [exact Hn|]. apply N.pow_le_mono_r; lia. }
        unfold StumpAdd.bit in Hb. rewrite (testbit_small n (N.of_nat h) (N.of_nat h) Hlt (N.le_refl _)) in Hb. discriminate. }
      rewrite add8_small by lia. replace (N.of_nat h + 1) with (N.of_nat (S h)) by lia.
      rewrite (xc_parent n h H63 ltac:(lia)).
      cbn [length] in Hstop, Hf.
      rewrite (IH (S h) st rest f Hc ltac:(replace (S h + length ch)%nat with (h + S (length ch))%nat by lia; exact Hstop) ltac:(lia) Hl).
      replace (S h + length ch)%nat with (h + length (e :: ch))%nat by (cbn [length]; lia). reflexivity.
  Qed.
End Roots.

Section RootsLoops.
  Variable H : Type.
  Variable HO : ops H.
  Local Notation entry := (StumpAdd.entry H).
  Local Notation erow := (@StumpAdd.erow H).
  Local Notation ecoord := (@StumpAddData.ecoord H).
  Local Notation nones := (@StumpAddData.nones H).
  Local Notation chain_at := (@StumpAddData.chain_at H).
  Local Notation isN := (@StumpAddData.isN H).
  Local Notation RI := (RI H).
  Local Notation rootsOf := (rootsOf H HO).

  Lemma split_flags {A} (f : rootInfo -> A) (g : entry -> A) (st : list rootInfo) (ch un : list entry) :
    map f st = map g (ch ++ un) ->
    exists st1 st2, st = st1 ++ st2 /\ map f st1 = map g ch /\ map f st2 = map g un /\ length st1 = length ch.
  Proof.
    intros E. exists (firstn (length ch) st), (skipn (length ch) st).
    split; [symmetry; apply firstn_skipn|]. rewrite map_app in E.
    assert (El : length st = (length ch + length un)%nat).
    { rewrite <- (map_length f), E, app_length, !map_length. reflexivity. }
    split; [|split].
    - rewrite <- firstn_map, E. rewrite firstn_app, map_length, Nat.sub_diag. cbn [firstn].
      rewrite app_nil_r. rewrite <- (map_length g ch). apply firstn_all.
    - rewrite <- skipn_map, E. rewrite skipn_app, map_length, Nat.sub_diag. cbn [skipn].
      rewrite <- (map_length g ch) at 1. rewrite skipn_all. reflexivity.
    - rewrite firstn_length. lia.
  Qed.

  Lemma ritd_loop_ref : forall (adds : list H) (t : slots H) st del,
    N.of_nat (length t + length adds) <= 2 ^ 62 ->
    map ri_zombie st = map isN (rev (forest HO t)) ->
    ritd_loop (length adds) 63 (N.of_nat (length t)) st del
    = Some (rev del ++ map (cpos 63) (to_destroy_c H HO t adds)).
  Proof.
    induction adds as [|a adds IH]; intros t st del Hb Hfl.
    - cbn [length ritd_loop to_destroy_c map]. rewrite app_nil_r. reflexivity.
    - cbn [length] in Hb.
      destruct (step_data_ex H HO t a adds ltac:(assert (2 ^ 62 < 2 ^ 63) by (apply N.pow_lt_mono_r; lia); lia)) as (ch & un & SD).
      rewrite (sd_split H HO t a adds ch un SD) in Hfl.
      destruct (split_flags ri_zombie isN st ch un Hfl) as (st1 & st2 & -> & F1 & F2 & _).
      cbn [length ritd_loop].
      pose proof (ritd_inner_chain H (N.of_nat (length t)) ltac:(lia) ch 0 st1 st2 del 65
                    (sd_chain H HO t a adds ch un SD) (sd_stop H HO t a adds ch un SD)
                    ltac:(pose proof (sd_len H HO t a adds ch un SD); lia) F1) as Ei.
      change (N.of_nat 0) with 0 in Ei. rewrite Ei.
      unfold add64. rewrite wrap_small by (rewrite W_pow; assert (2 ^ 62 < 2 ^ 64) by (apply N.pow_lt_mono_r; lia); lia).
      replace (N.of_nat (length t) + 1) with (N.of_nat (length (t ++ [Some a]))) by (rewrite app_length; cbn [length]; lia).
      rewrite (IH (t ++ [Some a])).
      + rewrite (sd_dest H HO t a adds ch un SD), rev_app_distr, rev_involutive, map_app, <- !app_assoc. reflexivity.
      + rewrite app_length. cbn [length]. lia.
      + rewrite (sd_next H HO t a adds ch un SD). cbn [map]. rewrite F2. reflexivity.
  Qed.

  Lemma ari_loop_ref : forall (adds : list H) (t : slots H),
    N.of_nat (length t + length adds) <= 2 ^ 62 ->
    ari_loop (length adds) 63 (N.of_nat (length t)) (map RI (rev (forest HO t)))
    = Some (rootsOf (t ++ map Some adds), N.of_nat (length t + length adds)).
  Proof.
    induction adds as [|a adds IH]; intros t Hb.
    - cbn [length ari_loop map]. rewrite app_nil_r, Nat.add_0_r. unfold rootsOf.
      rewrite <- map_rev, rev_involutive. reflexivity.
    - cbn [length] in Hb.
      destruct (step_data_ex H HO t a adds ltac:(assert (2 ^ 62 < 2 ^ 63) by (apply N.pow_lt_mono_r; lia); lia)) as (ch & un & SD).
      cbn [length ari_loop]. rewrite (sd_split H HO t a adds ch un SD), map_app.
      assert (H63 : N.of_nat (length t) < 2 ^ 63) by (assert (2 ^ 62 < 2 ^ 63) by (apply N.pow_lt_mono_r; lia); lia).
      assert (E0 : N.of_nat (length t) = cpos 63 (xc (N.of_nat (length t)) 0)).
      { unfold xc. rewrite p2_0, N.div_1_r. symmetry. apply cpos63_row0. }
      rewrite E0 at 2.
      pose proof (ari_inner_chain H (N.of_nat (length t)) ltac:(lia) ch 0 (map RI ch) (map RI un) 65
                    (sd_chain H HO t a adds ch un SD) (sd_stop H HO t a adds ch un SD)
                    ltac:(pose proof (sd_len H HO t a adds ch un SD); lia) (map_length _ _)) as Ei.
      change (N.of_nat 0) with 0 in Ei. rewrite Ei. cbn [Nat.add].
      unfold add64. rewrite wrap_small by (rewrite W_pow; assert (2 ^ 62 < 2 ^ 64) by (apply N.pow_lt_mono_r; lia); lia).
      replace (N.of_nat (length t) + 1) with (N.of_nat (length (t ++ [Some a]))) by (rewrite app_length; cbn [length]; lia).
      pose proof (IH (t ++ [Some a]) ltac:(rewrite app_length; cbn [length]; lia)) as IH'.
      rewrite (sd_next H HO t a adds ch un SD) in IH'. cbn [map] in IH'.
      unfold RI at 1 in IH'. rewrite (sd_coord H HO t a adds ch un SD) in IH'.
      assert (Ez : isN (length ch, last_lo H ch (num_leaves t), Some (merge H HO ch (CLeaf a))) = false) by reflexivity.
      rewrite Ez in IH'.
      change (num_leaves t) with (N.of_nat (length t)) in IH'. rewrite IH'.
      rewrite <- app_assoc, app_length. cbn [length app]. do 2 f_equal. lia.
  Qed.

  Lemma no_zombie_no_destroy : forall (adds : list H) (t : slots H),
    N.of_nat (length t + length adds) <= 2 ^ 62 ->
    (forall e, In e (forest HO t) -> isN e = false) -> to_destroy_c H HO t adds = [].
  Proof.
    induction adds as [|a adds IH]; intros t Hb Hz; [reflexivity|]. cbn [length] in Hb.
    destruct (step_data_ex H HO t a adds ltac:(assert (2 ^ 62 < 2 ^ 63) by (apply N.pow_lt_mono_r; lia); lia)) as (ch & un & SD).
    rewrite (sd_dest H HO t a adds ch un SD).
    assert (En : nones ch = []).
    { destruct (nones ch) as [|d D] eqn:E; [reflexivity|exfalso].
      assert (Hd : In d (nones ch)) by (rewrite E; left; reflexivity).
      apply nones_in in Hd as (e & He & Hn & _).
      assert (Hin : In e (forest HO t)).
      { apply (in_rev (forest HO t)). rewrite (sd_split H HO t a adds ch un SD). apply in_or_app. left. exact He. }
      specialize (Hz e Hin). unfold StumpAddData.isN in Hz. rewrite Hn in Hz. discriminate. }
    rewrite En. cbn [app]. apply IH; [rewrite app_length; cbn [length]; lia|].
    intros e He. apply (step_in_forest' H HO t a adds ch un e SD) in He as [->|He]; [reflexivity|].
    apply Hz. apply (in_rev (forest HO t)). rewrite (sd_split H HO t a adds ch un SD). apply in_or_app. right. exact He.
  Qed.

  Theorem rootInfoToDestroy_ref (t : slots H) (adds : list H) : N.of_nat (length t + length adds) <= 2 ^ 62 ->
    rootInfoToDestroy 63 (N.of_nat (length adds)) (N.of_nat (length t)) (rootsOf t)
    = Some (to_destroy HO 63 t adds).
  Proof.
    intros Hb. unfold rootInfoToDestroy. rewrite Nat2N.id, (to_destroy_coords H HO 63).
    destruct (existsb ri_zombie (rootsOf t)) eqn:Ez.
    - rewrite (ritd_loop_ref adds t (rev (rootsOf t)) [] Hb); [reflexivity|].
      unfold rootsOf. rewrite <- map_rev, !map_map. reflexivity.
    - rewrite no_zombie_no_destroy; [reflexivity|exact Hb|].
      intros e He. destruct (isN e) eqn:En; [exfalso|reflexivity].
      assert (Ht : existsb ri_zombie (rootsOf t) = true).
      { apply existsb_exists. exists (RI e). split; [apply in_map, He|exact En]. }
      congruence.
  Qed.

  Theorem addRootInfo_ref (t : slots H) (adds : list H) : N.of_nat (length t + length adds) <= 2 ^ 62 ->
    addRootInfo 63 (rootsOf t) (N.of_nat (length adds)) (N.of_nat (length t))
    = Some (rootsOf (t ++ map Some adds), N.of_nat (length t + length adds)).
  Proof.
    intros Hb. unfold addRootInfo. rewrite Nat2N.id. unfold rootsOf at 1. rewrite <- map_rev.
    exact (ari_loop_ref adds t Hb).
  Qed.
End RootsLoops.


(** * T2. [delRootInfo]: the trees a block empties *)

Lemma fold_mark : forall (P : list N) (roots : list rootInfo),
  fold_left (fun roots pos => map (fun r => if ri_pos r =? pos then mkRI (ri_pos r) true else r) roots) P roots
  = map (fun r => if memN (ri_pos r) P then mkRI (ri_pos r) true else r) roots.
Proof.
  induction P as [|p P IH]; intros roots; cbn [fold_left memN].
  - rewrite <- (map_id roots) at 1. apply map_ext. intros r. reflexivity.
  - rewrite IH, map_map. apply map_ext. intros r.
    destruct (N.eqb_spec (ri_pos r) p) as [E|E]; cbn [ri_pos orb]; [destruct (memN (ri_pos r) P); reflexivity|reflexivity].
Qed.

Lemma memN_In x l : memN x l = true <-> In x l.
Proof.
  induction l as [|y l IH]; cbn [memN In]; [split; [discriminate|tauto]|].
  rewrite orb_true_iff, IH, N.eqb_eq. split; intros [A|B]; auto.
Qed.

Section DelRoots.
  Variable H : Type.
  Variable HO : ops H.
  Hypothesis HOK : ops_ok HO.
  Variable s : slots H.
  Hypothesis Hnd : NoDup (live s).
  Hypothesis Hb : N.of_nat (length s) <= 2 ^ 62.
  Variable hs : list H.
  Hypothesis Hhs : NoDup hs.
  Local Notation R := (rows_of (num_leaves s)).
  Local Notation n := (N.of_nat (length s)).
  Local Notation entry := (StumpAdd.entry H).
  Local Notation erow := (@StumpAdd.erow H).
  Local Notation ecoord := (@StumpAddData.ecoord H).
  Local Notation prune := (RefTheory.prune HO hs).
  Local Notation under := ProofUpdateDel.under.
  Local Notation RI := (RI H).
  Local Notation rootsOf := (rootsOf H HO).
  Local Notation isN := (@StumpAddData.isN H).

  Lemma dr_n63 : n <= 2 ^ 63.
  Proof. assert (2 ^ 62 < 2 ^ 63) by (apply N.pow_lt_mono_r; lia). lia. Qed.

  Lemma forest_entry_valid63 (e : entry) : In e (forest HO s) -> cvalid 63 (ecoord e).
  Proof.
    intros He. pose proof (forest_row_63 H HO s e dr_n63 He) as Hr.
    pose proof (gf_ecoord_lo H HO s e He) as Elo.
    destruct e as [[k lo] t]. apply forest_entry in He as (_ & _ & _ & Hle & _).
    unfold StumpAddData.ecoord, StumpAdd.erow, StumpAddData.elo in *. cbn [fst snd] in *.
    split; [exact Hr|]. cbn [fst snd].
    pose proof (p2_pos k) as Hp. pose proof dr_n63 as Hn.
    assert (Hlt : lo / 2 ^ N.of_nat k * p2 k < 2 ^ 63) by lia.
    assert (E63 : 2 ^ 63 = 2 ^ (N.of_nat 63 - N.of_nat k) * p2 k).
    { unfold p2. rewrite <- N.pow_add_r. f_equal. lia. }
    rewrite E63 in Hlt. apply N.mul_lt_mono_pos_r in Hlt; [exact Hlt|exact Hp].
  Qed.

  Variable Lf : list StumpAddData.coord.
  Hypothesis Lfd : forall x, In x Lf -> fdc H HO s hs x.
  Hypothesis Lac : antichain Lf.
  Hypothesis Lcov : covers H HO s hs Lf.
  Hypothesis Ltf : twinfreeC Lf.

  Lemma top_in_Lf (e : entry) ce : In e (forest HO s) -> snd e = Some ce ->
    (In (ecoord e) Lf <-> prune ce = None).
  Proof.
    intros He Hse. split.
    - intros Hin.
      destruct (tw_char_fwd H HO HOK s dr_n63 hs Lf Lfd Lac Lcov Ltf _ Hin) as (e' & ce' & He' & Hse' & _ & [[E Hn]|[Hne Hg]]).
      + assert (Er : erow e' = erow e) by (change (erow e') with (fst (ecoord e')); rewrite <- E; reflexivity).
        pose proof (gf_same_row H HO s e' e He' He Er) as ->. congruence.
      + exfalso. pose proof (af_glist_not_top H HO s dr_n63 hs e' ce' _ He' Hse' Hne Hg) as Ht.
        assert (istop H HO s (ecoord e) = true) by (apply istop_spec; exists e, ce; auto). congruence.
    - intros Hn. pose proof (gf_height H HO s e ce He Hse) as Hh.
      apply (tw_Lstar H s dr_n63 Lf Ltf ce (ecoord e) Hh).
      intros tau h Hp. pose proof (sl_height H HO s e ce tau _ He Hse Hp) as Hl.
      assert (Hh0 : In h hs).
      { apply (proj1 (prune_none_iff H HO HOK hs ce) Hn). apply (occp_leaves H _ _ _ Hp). left. reflexivity. }
      assert (Ll : locc H HO s (CLeaf h) (fst (walk (ecoord e) tau)) (snd (walk (ecoord e) tau))).
      { apply locc_path. exists e, ce, tau. repeat split; try assumption. apply surjective_pairing. }
      destruct (Lcov h _ _ Ll Hh0) as (e0 & He0 & U0). rewrite <- surjective_pairing in U0.
      exists e0. split; [exact He0|]. split; [|exact U0].
      destruct (tw_char_fwd H HO HOK s dr_n63 hs Lf Lfd Lac Lcov Ltf _ He0) as (e' & ce' & He' & Hse' & Ue' & _).
      assert (Uy : under (ecoord e) (walk (ecoord e) tau)) by (apply under_walk; exact Hl).
      destruct (Nat.eq_dec (erow e') (erow e)) as [Er|Er].
      + pose proof (gf_same_row H HO s e' e He' He Er) as ->. exact Ue'.
      + exfalso. exact (gf_trees_disj H HO s e' e (ecoord e') _ He' He Er (under_refl _) Uy (under_trans _ _ _ Ue' U0)).
  Qed.

  Lemma mark_entry (e : entry) : In e (forest HO s) ->
    (if memN (ri_pos (RI e)) (map (cpos 63) Lf) then mkRI (ri_pos (RI e)) true else RI e)
    = RI (RefTheory.prune_entry HO hs e).
  Proof.
    intros He. unfold RI. cbn [ri_pos].
    change (ecoord (RefTheory.prune_entry HO hs e)) with (ecoord e).
    unfold StumpAddData.isN, RefTheory.prune_entry. cbn [snd].
    destruct (snd e) as [ce|] eqn:Ese; cbn [RefTheory.oprune].
    - destruct (memN (cpos 63 (ecoord e)) (map (cpos 63) Lf)) eqn:Em.
      + apply memN_In in Em. apply in_map_iff in Em as (d & Ed & Hd).
        apply cpos_inj in Ed; [|lia| |exact (forest_entry_valid63 e He)].
        2:{ apply (cvalid_mono R 63); [apply rows_of_le_63; exact dr_n63|]. exact (tw_fdc_valid H HO s hs d (Lfd d Hd)). }
        subst d. rewrite (proj1 (top_in_Lf e ce He Ese) Hd). reflexivity.
      + destruct (prune ce) as [c'|] eqn:Ep; [reflexivity|exfalso].
        pose proof (proj2 (top_in_Lf e ce He Ese) Ep) as Hin.
        assert (memN (cpos 63 (ecoord e)) (map (cpos 63) Lf) = true) by (apply memN_In, in_map, Hin). congruence.
    - destruct (memN _ _); reflexivity.
  Qed.
End DelRoots.

Section Tracker.
  Variable H : Type.
  Variable HO : ops H.
  Hypothesis HOK : ops_ok HO.
  Local Notation lp := (lp H HO).
  Local Notation rootsOf := (rootsOf H HO).

  Theorem delRootInfo_ref (s : slots H) (hs : list H) : NoDup (live s) -> N.of_nat (length s) <= 2 ^ 62 ->
    NoDup hs -> (forall h, In h hs -> In (Some h) s) ->
    delRootInfo 63 (rootsOf s) (map (lp s) hs) = rootsOf (kill HO hs s).
  Proof.
    intros Hnd Hb Hhs Hlive. destruct hs as [|h0 hl].
    - cbn [map delRootInfo]. rewrite (kill_nil_eq HO s). reflexivity.
    - set (hs := h0 :: hl) in *. unfold delRootInfo.
      destruct (map (lp s) hs) as [|t0 tl] eqn:Et; [discriminate|]. rewrite <- Et. clear t0 tl Et.
      destruct (find_leaves_ex H HO HOK s hs Hlive) as [xds Fx].
      assert (Hn63 : N.of_nat (length s) <= 2 ^ 63).
      { assert (2 ^ 62 < 2 ^ 63) by (apply N.pow_lt_mono_r; lia). lia. }
      destruct (ud_x H HO HOK s hs Hhs xds Fx) as (X1 & X2 & X3 & X4 & X5).
      destruct (tw_deTwin H HO HOK s Hn63 Hnd hs (mdd H s xds) (af_L0_sorted H HO s xds X1 X3)
                  (af_L0_leaf H HO s hs xds X1 X2 X4) (af_L0_cov H HO s Hnd hs xds X1 X2 X4))
        as (Lf & Ed & HsLf & Lfd & Lac & Lcov & Ltf).
      rewrite (ud_dt63 H HO HOK s Hb hs Hhs xds Fx Lf Ed Lfd), fold_mark.
      unfold rootsOf. rewrite RefTheory.forest_kill, !map_map. apply map_ext_in. intros e He.
      exact (mark_entry H HO HOK s Hb hs Lf Lfd Lac Lcov Ltf e He).
  Qed.

  (** the targets of the prover, translated *)
  Lemma targets_translated (s : slots H) (hs : list H) ts pf : N.of_nat (length s) <= 2 ^ 62 ->
    exp_prove HO (mk_ctx HO s) hs = Some (ts, pf) ->
    translatePositions ts (TreeRows (N.of_nat (length s))) 63 = map (lp s) hs.
  Proof.
    intros Hb E. unfold exp_prove in E. change (clay (mk_ctx HO s)) with (layout HO s) in E.
    change (crows (mk_ctx HO s)) with (rows_of (num_leaves s)) in E.
    destruct (find_leaves HO (layout HO s) hs) as [xds|] eqn:Fx; [|discriminate]. injection E as <- _.
    destruct (find_leaves_spec H HO HOK s hs xds Fx) as (A & _ & C). rewrite C.
    unfold translatePositions. rewrite map_map. apply map_ext_in. intros x Hx.
    destruct (layout_coords_rows_of H HO s x (proj1 (A x Hx))) as [V1 V2].
    assert (Hn63 : N.of_nat (length s) <= 2 ^ 63).
    { assert (2 ^ 62 < 2 ^ 63) by (apply N.pow_lt_mono_r; lia). lia. }
    pose proof (rows_of_le_63 _ Hn63) as HR. pose proof (rf_R_total H s) as ER.
    unfold npos. rewrite !LayoutStruct.pos_gpos, <- ER. change (N.of_nat 63) with 63.
    unfold num_leaves in *.
    apply translatePos_gpos; try lia; try exact V2.
    eapply N.lt_le_trans; [exact V2|]. apply N.pow_le_mono_r; lia.
  Qed.
End Tracker.


(** * T3. [AddBlockSummary] over a history *)

Lemma zip_blocks_snoc : forall ds na nl td d a l t, length na = length ds -> length nl = length ds ->
  length td = length ds ->
  zip_blocks (ds ++ [d]) (na ++ [a]) (nl ++ [l]) (td ++ [t]) = zip_blocks ds na nl td ++ [mkBS d a l t].
Proof.
  induction ds as [|d0 ds IH]; intros [|a0 na] [|l0 nl] [|t0 td] d a l t H1 H2 H3; try discriminate; [reflexivity|].
  cbn [app zip_blocks]. f_equal. apply IH; cbn [length] in *; lia.
Qed.

Section History.
  Variable H : Type.
  Variable HO : ops H.
  Hypothesis HOK : ops_ok HO.
  Local Notation lp := (lp H HO).
  Local Notation rootsOf := (rootsOf H HO).

  (** the tracker follows the reference state [s] *)
  Definition Tinv (cs : tracker) (s : slots H) : Prop :=
    tracker_wf cs /\
    (cs_roots cs = [] -> s = []) /\
    (cs_roots cs <> [] -> last (cs_numLeaves cs) 0 = N.of_nat (length s) /\ last (cs_roots cs) [] = rootsOf s).

  Lemma rootsOf_nil : rootsOf [] = [].
  Proof. reflexivity. Qed.

  Lemma to_destroy_nil (adds : list H) : N.of_nat (length adds) <= 2 ^ 62 -> to_destroy HO 63 [] adds = [].
  Proof.
    intros Hb. pose proof (rootInfoToDestroy_ref H HO [] adds Hb) as E.
    unfold rootInfoToDestroy in E. rewrite rootsOf_nil in E. cbn [existsb] in E. injection E as <-. reflexivity.
  Qed.

  Lemma block_step cs (s : slots H) (dels adds : list H) ts pf :
    Tinv cs s -> st_ok H HO s -> valid_block H HO s (dels, adds) ->
    N.of_nat (length s + length adds) <= 2 ^ 62 ->
    exp_prove HO (mk_ctx HO s) dels = Some (ts, pf) ->
    exists cs', ttl_add_block_summary cs ts (N.of_nat (length adds)) = Some cs' /\
      Tinv cs' (apply_block HO s dels adds) /\
      tracker_blocks cs' = tracker_blocks cs ++ [spec_block H HO s (dels, adds)].
  Proof.
    intros (W & T0 & T1) [Hnd Hnz] (Hd1 & Hd2 & Ha1 & Ha2) Hb Ep. cbn [fst snd] in *.
    assert (Hbs : N.of_nat (length s) <= 2 ^ 62) by lia.
    set (s1 := kill HO dels s).
    assert (El1 : length s1 = length s) by apply length_kill.
    assert (H64 : 2 ^ 62 < 2 ^ 64) by (apply N.pow_lt_mono_r; lia).
    (* the explicit result *)
    assert (Ex : ttl_add_block_summary cs ts (N.of_nat (length adds))
                 = Some (mkTracker (cs_deletions cs ++ [map (lp s) dels]) (cs_numAdds cs ++ [N.of_nat (length adds)])
                                   (cs_numLeaves cs ++ [N.of_nat (length s + length adds)])
                                   (cs_toDestroy cs ++ [to_destroy HO 63 s1 adds])
                                   (cs_roots cs ++ [rootsOf (s1 ++ map Some adds)]))).
    { unfold ttl_add_block_summary. destruct (cs_roots cs) as [|r0 rs0] eqn:Er.
      - (* the first block: the state is empty, nothing can be deleted *)
        specialize (T0 eq_refl). subst s.
        assert (Ed : dels = []).
        { destruct dels as [|d dl]; [reflexivity|]. exfalso. exact (Hd2 d (or_introl eq_refl)). }
        subst dels. unfold exp_prove in Ep. cbn [find_leaves] in Ep. injection Ep as <- _.
        pose proof (addRootInfo_ref H HO [] adds Hb) as Ea. rewrite rootsOf_nil in Ea.
        cbn [length Nat.add] in Ea. change (N.of_nat 0) with 0 in Ea. unfold CSTTotalRows. rewrite Ea.
        cbn [map length Nat.add app]. unfold s1. cbn [kill map app].
        rewrite (to_destroy_nil adds Hb). reflexivity.
      - assert (Hne : r0 :: rs0 <> []) by discriminate. destruct (T1 Hne) as [En Ero].
        rewrite En, Ero. change CSTTotalRows with 63.
        rewrite (targets_translated H HO HOK s dels ts pf Hbs Ep).
        rewrite (delRootInfo_ref H HO HOK s dels Hnd Hbs Hd1 Hd2). fold s1.
        rewrite <- El1.
        rewrite (rootInfoToDestroy_ref H HO s1 adds ltac:(rewrite El1; exact Hb)).
        rewrite (addRootInfo_ref H HO s1 adds ltac:(rewrite El1; exact Hb)). reflexivity. }
    assert (Hlast : last (cs_numLeaves cs) 0 = N.of_nat (length s)).
    { destruct (cs_roots cs) as [|r0 rs0] eqn:Er.
      - specialize (T0 eq_refl). subst s. destruct W as [_ _ _ W4]. rewrite Er in W4. inversion W4. reflexivity.
      - exact (proj1 (T1 ltac:(discriminate))). }
    destruct (add_block_summary_total cs ts (N.of_nat (length adds)) W ltac:(rewrite Hlast; lia))
      as (cs' & E' & W' & _).
    rewrite Ex in E'. injection E' as <-.
    eexists. split; [exact Ex|]. split.
    - split; [exact W'|]. cbn [cs_roots cs_numLeaves]. split.
      + intros Hc. destruct (cs_roots cs); discriminate.
      + intros _. rewrite !last_last. unfold apply_block. fold s1. rewrite app_length, map_length, El1. auto.
    - destruct W as [W1 W2 W3 _]. unfold tracker_blocks. cbn [cs_deletions cs_numAdds cs_numLeaves cs_toDestroy].
      rewrite zip_blocks_snoc by assumption. reflexivity.
  Qed.

  Lemma history_steps : forall (blocks : list (list H * list H)) (s : slots H) cs sm,
    Tinv cs s -> st_ok H HO s -> valid_hist H HO s blocks ->
    N.of_nat (length s + total_adds H blocks) <= 2 ^ 62 ->
    hist_summaries H HO s blocks = Some sm ->
    exists cs', ttl_summaries cs sm = Some cs' /\ tracker_wf cs' /\
                tracker_blocks cs' = tracker_blocks cs ++ spec_blocks H HO s blocks.
  Proof.
    induction blocks as [|[dels adds] blocks IH]; intros s cs sm HT Hs Hv Hb Esm.
    - cbn [hist_summaries] in Esm. injection Esm as <-. exists cs. cbn [ttl_summaries spec_blocks].
      rewrite app_nil_r. split; [reflexivity|]. split; [exact (proj1 HT)|reflexivity].
    - cbn [hist_summaries] in Esm. destruct Hv as [Hvb Hv]. cbn [fst snd total_adds] in *.
      destruct (exp_prove HO (mk_ctx HO s) dels) as [[ts pf]|] eqn:Ep; [|discriminate].
      destruct (hist_summaries H HO (apply_block HO s dels adds) blocks) as [r|] eqn:Er; [|discriminate].
      injection Esm as <-.
      destruct (block_step cs s dels adds ts pf HT Hs Hvb ltac:(lia) Ep) as (cs1 & E1 & HT1 & B1).
      pose proof (st_ok_step H HO s (dels, adds) Hs Hvb) as Hs1. cbn [fst snd] in Hs1.
      assert (Hlen : length (apply_block HO s dels adds) = (length s + length adds)%nat).
      { unfold apply_block. rewrite app_length, length_kill, map_length. reflexivity. }
      destruct (IH _ cs1 r HT1 Hs1 Hv ltac:(rewrite Hlen; lia) Er) as (cs' & E' & W' & B').
      exists cs'. cbn [ttl_summaries]. rewrite E1. split; [exact E'|]. split; [exact W'|].
      rewrite B', B1, <- app_assoc. reflexivity.
  Qed.

  (** (A) holds *)
  Theorem tracker_spec_holds : tracker_spec H HO.
  Proof.
    intros blocks sm Hv Hb Esm.
    destruct (history_steps blocks [] ttl_empty sm) as (cs & E & W & B); try assumption.
    - split; [exact ttl_empty_wf|]. split; [reflexivity|]. intros Hc. exfalso. apply Hc. reflexivity.
    - apply st_ok_nil.
    - exists cs. auto.
  Qed.
End History.

(** * The statement *)

Theorem ttl_statement_holds : ttl_statement.
Proof.
  intros H HO HOK blocks Hv Hb.
  exact (ttl_correct_from_components H HO HOK (undo_add_spec_holds H HO HOK) (undo_del_spec_holds H HO HOK)
           (tracker_spec_holds H HO HOK) blocks Hv Hb).
Qed.
Print Assumptions ttl_statement_holds.
